(* C04 — "A swap moves exactly the traded tokens and is all-or-nothing": property theorems only. *)
From GV Require Import lib.Base C01.Model MK.Market MK.Swap MK.MarketProofs MK.SwapProofs C04.Proofs.
Open Scope Z_scope.

(* [use L]: close the goal with lemma L; section hypotheses L did not need are dropped. *)
Ltac use L := intros; eapply L; eassumption.

(* Successful swap, for every bit width, unit, configuration, market state, side, amount and
   prices (all machine values in range): the market's holdings of the input token
   (liquidity + swap-impact pool + claimable fees) grow by exactly the input amount, the
   holdings of the output token shrink by exactly the amount paid out, the market-token
   supply and every other field are unchanged, the virtual inventory (if any) follows the
   liquidity pool, and the new state is again in range. *)
Theorem c04_swap_ledger : forall w, 1 <= w -> forall unit, 0 < unit -> forall cfg s il a ps s' r,
  wf_state w s -> wf_prices w ps -> in_range w a ->
  swap_exec w unit cfg s il a ps = Ok (s', r) ->
  holdings s' il = holdings s il + a /\
  holdings s' (negb il) = holdings s (negb il) - sr_out r /\
  0 <= sr_out r /\
  total_supply s' = total_supply s /\ same_rest s s' /\ vi_follows s s' /\ wf_state w s'.
Proof. use swap_ledger. Qed.

(* the amount paid out is covered by the output token's liquidity and impact pools *)
Theorem c04_swap_out_covered : forall w, 1 <= w -> forall unit, 0 < unit -> forall cfg s il a ps s' r,
  wf_state w s -> wf_prices w ps -> in_range w a ->
  swap_exec w unit cfg s il a ps = Ok (s', r) ->
  sr_out r <= pamount (primary s) (negb il) + pamount (swap_impact s) (negb il).
Proof. use swap_out_le_holdings. Qed.

(* failed swap: the market after the call is the market before the call *)
Theorem c04_swap_fail_unchanged : forall w unit cfg s il a ps e,
  swap_exec w unit cfg s il a ps = Err e -> swap_step w unit cfg s il a ps = s.
Proof. use swap_fail_unchanged. Qed.
