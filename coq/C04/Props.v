(* C04 — "A swap moves exactly the traded tokens and is all-or-nothing": property theorems only. *)
From GV Require Import lib.Base C01.Model MK.Market MK.Swap MK.Liquidity MK.MarketProofs MK.SwapProofs C04.Proofs C04.History C04.HistoryProofs MK.Examples.
Open Scope Z_scope.

(* [use L]: close the goal with lemma L; section hypotheses L did not need are dropped. *)
Ltac use L := intros; eapply L; eassumption.

(* Successful swap, for every bit width, unit, configuration, market state, side, amount and
   prices (all machine values in range): the market's holdings of the input token
   (liquidity + swap-impact pool + claimable fees) grow by exactly the input amount, the
   holdings of the output token shrink by exactly the amount paid out, the market-token
   supply and every other field are unchanged, the virtual inventory (if any) follows the
   liquidity pool, and the new state is again in range. *)
Theorem c04_swap_ledger : forall w, 1 <= w -> forall unit, 0 < unit -> forall cfg s il a ps s' r,
  wf_state w s -> wf_prices w ps -> in_range w a ->
  swap_exec w unit cfg s il a ps = Ok (s', r) ->
  holdings s' il = holdings s il + a /\
  holdings s' (negb il) = holdings s (negb il) - sr_out r /\
  0 <= sr_out r /\
  total_supply s' = total_supply s /\ same_rest s s' /\ vi_follows s s' /\ wf_state w s'.
Proof. use swap_ledger. Qed.

(* the amount paid out is covered by the output token's liquidity and impact pools *)
Theorem c04_swap_out_covered : forall w, 1 <= w -> forall unit, 0 < unit -> forall cfg s il a ps s' r,
  wf_state w s -> wf_prices w ps -> in_range w a ->
  swap_exec w unit cfg s il a ps = Ok (s', r) ->
  sr_out r <= pamount (primary s) (negb il) + pamount (swap_impact s) (negb il).
Proof. use swap_out_le_holdings. Qed.

(* failed swap: the market after the call is the market before the call *)
Theorem c04_swap_fail_unchanged : forall w unit cfg s il a ps e,
  swap_exec w unit cfg s il a ps = Err e -> swap_step w unit cfg s il a ps = s.
Proof. use swap_fail_unchanged. Qed.

(* History form.  [step] applies a swap / deposit / withdrawal to the market (new state on
   success, the old state on failure), [net_in] is what the action moves into (+) or out of (-)
   the market's vault for one token, [net_mint] the market tokens it mints / burns.
   One action: holdings move by exactly the net transfer, supply by exactly the net mint,
   nothing else changes. *)
Theorem c04_step_ledger : forall w, 1 <= w -> forall unit, 0 < unit -> forall cfg s x,
  wf_state w s -> 0 <= value_to_amount_divisor s -> wf_action w x ->
  (forall il, holdings (step w unit cfg s x) il = holdings s il + net_in w unit cfg s x il) /\
  total_supply (step w unit cfg s x) = total_supply s + net_mint w unit cfg s x /\
  same_rest s (step w unit cfg s x) /\ vi_follows s (step w unit cfg s x) /\ wf_state w (step w unit cfg s x).
Proof. intros; eapply step_ledger; eassumption. Qed.

(* Every history of deposits, withdrawals and swaps (successful or not, in any order, at any
   prices): the holdings of each token equal the initial holdings plus the sum of the net
   transfers, the supply equals the initial supply plus the net mints, every other field of
   the market is the initial one. *)
Theorem c04_history_ledger : forall w, 1 <= w -> forall unit, 0 < unit -> forall cfg xs s,
  wf_state w s -> 0 <= value_to_amount_divisor s -> Forall (wf_action w) xs ->
  (forall il, holdings (fold_left (step w unit cfg) xs s) il = holdings s il + ledger w unit cfg s xs il) /\
  total_supply (fold_left (step w unit cfg) xs s) = total_supply s + mint_ledger w unit cfg s xs /\
  same_rest s (fold_left (step w unit cfg) xs s) /\ vi_follows s (fold_left (step w unit cfg) xs s) /\
  wf_state w (fold_left (step w unit cfg) xs s).
Proof. intros; eapply history_ledger; eassumption. Qed.

(* a failed action of any kind is the identity *)
Theorem c04_step_fail_unchanged : forall w unit cfg s x,
  match x with
  | ASwap il a ps => exists e, swap_exec w unit cfg s il a ps = Err e
  | ADeposit l sh ps => exists e, deposit_exec w unit cfg s l sh ps = Err e
  | AWithdraw a ps => exists e, withdraw_exec w unit cfg s a ps = Err e
  end -> step w unit cfg s x = s.
Proof. intros w unit cfg s [il a ps|l sh ps|a ps] [e H]; cbn [step]; rewrite H; reflexivity. Qed.

(* ---------- non-vacuity: concrete u64/9 market (default configuration) ---------- *)
(* a successful swap with negative impact: 1 token goes to the impact pool, 259 to the fee pool *)
Example c04_ex_swap_ok :
  exists s' r, swap_exec 64 (10 ^ 9) cfg64 ex_market true 1000000 ex_prices = Ok (s', r) /\
    sr_out r = 119915880 /\ sr_impact_value r = -77 /\
    primary s' = mkPool 1000999740 99880084120 /\ swap_impact s' = mkPool 5001 7000 /\ fee s' = mkPool 259 0.
Proof. eexists. eexists. split; [vm_compute; reflexivity|]. repeat split. Qed.

(* capped positive impact draining both impact pools *)
Example c04_ex_swap_capped :
  exists s' r, swap_exec 64 (10 ^ 9) cfg64 ex_market_small_impact false 10000000000 ex_prices = Ok (s', r) /\
    sr_out r = 82603310 /\ sr_impact_value r = 1600 /\ sr_impact_amount r = 5 /\ swap_impact s' = mkPool 0 0.
Proof. eexists. eexists. split; [vm_compute; reflexivity|]. repeat split. Qed.

(* a failing swap (more than the pool can pay) *)
Example c04_ex_swap_fail :
  swap_exec 64 (10 ^ 9) cfg64 ex_market_small_impact true 10000000000 ex_prices = Err E_COMP.
Proof. vm_compute. reflexivity. Qed.

Example c04_ex_wf : wf_state 64 ex_market /\ wf_prices 64 ex_prices /\ in_range 64 1000000.
Proof. unfold wf_state, wf_prices, wf_price, wf_pool, wf_opool, in_range; cbn. lia. Qed.

(* a history: deposit, swap, failing swap, withdrawal *)
Example c04_ex_history :
  let xs := [ADeposit 1000000 0 ex_prices; ASwap true 1000000 ex_prices; ASwap true 100000000000 ex_prices;
             AWithdraw 1000000 ex_prices] in
  ledger 64 (10 ^ 9) cfg64 ex_market xs true = 1995849 /\ ledger 64 (10 ^ 9) cfg64 ex_market xs false = -120329647 /\
  mint_ledger 64 (10 ^ 9) cfg64 ex_market xs = 129225390.
Proof. vm_compute. repeat split. Qed.
