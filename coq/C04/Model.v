(* C04 — the executable model lives in the shared market kernel coq/MK (definitions only):
   MK/Market.v (state, params, base-market functions), MK/Swap.v (Swap action),
   MK/Liquidity.v (pool_value, Deposit, Withdrawal), MK/Case.v (history syntax).
   This file re-exports it under the per-property layout of FRAMEWORK.md section 1. *)
From GV Require Export lib.Base C01.Model MK.Market MK.Swap MK.Liquidity.
