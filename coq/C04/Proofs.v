(* C04 — lemmas: ledger equalities of a swap, all-or-nothing, history form. *)
From GV Require Import lib.Base lib.DivLemmas C01.Model C01.Proofs MK.Market MK.Swap MK.MarketProofs MK.SwapProofs.
Open Scope Z_scope.

Section P.
  Variable w : Z.
  Hypothesis Hw : 1 <= w.
  Variable unit : Z.
  Hypothesis Hunit : 0 < unit.
  Variable cfg : config.

  Lemma swap_exec_inv s il a ps s' r :
    swap_exec w unit cfg s il a ps = Ok (s', r) ->
    exists t, swap_exec_trace w unit cfg s il a ps = Ok (s', r, t).
  Proof.
    unfold swap_exec. intros H. rinv H. destruct x as [[s1 r1] t]. cbn in H. injection H as <- <-. eauto.
  Qed.

  (* successful swap: exact ledger on both tokens, nothing else moves *)
  Lemma swap_ledger s il a ps s' r :
    wf_state w s -> wf_prices w ps -> in_range w a ->
    swap_exec w unit cfg s il a ps = Ok (s', r) ->
    holdings s' il = holdings s il + a /\
    holdings s' (negb il) = holdings s (negb il) - sr_out r /\
    0 <= sr_out r /\
    total_supply s' = total_supply s /\ same_rest s s' /\ vi_follows s s' /\ wf_state w s'.
  Proof.
    intros Hs Hp Ha H. apply swap_exec_inv in H. destruct H as [t H].
    app swap_exec_trace_ok H. destruct H. tauto.
  Qed.

  (* the paid-out amount never exceeds what the market holds of the output token *)
  Lemma swap_out_le_holdings s il a ps s' r :
    wf_state w s -> wf_prices w ps -> in_range w a ->
    swap_exec w unit cfg s il a ps = Ok (s', r) ->
    sr_out r <= pamount (primary s) (negb il) + pamount (swap_impact s) (negb il).
  Proof.
    intros Hs Hp Ha H. apply swap_exec_inv in H. destruct H as [t H].
    app swap_exec_trace_ok H.
    pose proof (sf_wf _ _ _ _ _ _ _ _ H) as (_ & Hprim & Himp1 & _).
    pose proof (sf_prim_out _ _ _ _ _ _ _ _ H). pose proof (sf_imp_out _ _ _ _ _ _ _ _ H).
    pose proof (pamount_range w _ (negb il) Hprim) as R. pose proof (pamount_range w _ (negb il) Himp1) as R1.
    unfold in_range in *. lia.
  Qed.

  (* failed swap: by definition of [swap_step] the state is the old one *)
  Lemma swap_fail_unchanged s il a ps e :
    swap_exec w unit cfg s il a ps = Err e -> swap_step w unit cfg s il a ps = s.
  Proof. unfold swap_step. intros ->. reflexivity. Qed.

  Lemma swap_step_ok s il a ps s' r :
    swap_exec w unit cfg s il a ps = Ok (s', r) -> swap_step w unit cfg s il a ps = s'.
  Proof. unfold swap_step. intros ->. reflexivity. Qed.

  Lemma swap_step_wf s il a ps : wf_state w s -> wf_prices w ps -> in_range w a ->
    wf_state w (swap_step w unit cfg s il a ps).
  Proof.
    intros Hs Hp Ha. unfold swap_step. destruct (swap_exec w unit cfg s il a ps) as [[s' r]|e] eqn:E; [|exact Hs].
    apply swap_ledger in E; try assumption. cbn. tauto.
  Qed.
End P.
