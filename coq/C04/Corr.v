(* C04 — correspondence and oracle over the histories printed by harness/src/bin/c04.rs
   (syntax: MK/Case.v).  Depends on model files only. *)
From GV Require Export lib.Base C01.Model MK.Market MK.Swap MK.Liquidity MK.Case.
Open Scope Z_scope.

Definition case := MK.Case.case.

(* model vs implementation: every action of the history (swap, deposit, withdrawal) is replayed
   by the model from the implementation's pre-state; result, report and the complete
   post-state must agree.  Direct field writes (OSet) are taken from the implementation. *)
Definition corr_b (c : case) : bool :=
  match c with Hist w dec cfg init ops => corr_ops_all w (10 ^ dec) cfg init ops end.

(* The property on the implementation's own states (independent of the model):
   successful swap: holdings(in) grow by exactly the input amount, holdings(out) shrink by
   exactly the amount paid out, every other field unchanged (the virtual inventory, when
   present, follows the liquidity pool); failed swap: the whole state is unchanged.
   Also the vault ledger for the other two actions of the history: a deposit adds exactly
   the deposited amounts, a withdrawal removes exactly the paid-out amounts. *)
Definition swap_ok_b (pre post : mstate) (il : bool) (a : Z) (r : swap_report) : bool :=
  (holdings post il =? holdings pre il + a) &&
  (holdings post (negb il) =? holdings pre (negb il) - sr_out r) &&
  (total_supply post =? total_supply pre) && rest_eqb pre post && vi_tracks pre post &&
  (0 <=? sr_out r) &&
  (* each pool individually stays non-negative *)
  (0 <=? p_long (primary post)) && (0 <=? p_short (primary post)) &&
  (0 <=? p_long (swap_impact post)) && (0 <=? p_short (swap_impact post)).

Definition op_oracle (pre : mstate) (o : op) : bool :=
  let post := op_post pre o in
  match o with
  | OSet _ => true
  | OSwap il a ps (Ok r) _ => swap_ok_b pre post il a r
  | OSwap il a ps (Err _) _ => state_eqb pre post
  | ODeposit l s ps (Ok r) _ =>
      (holdings post true =? holdings pre true + l) && (holdings post false =? holdings pre false + s) &&
      (total_supply post =? total_supply pre + dr_minted r) && rest_eqb pre post
  | ODeposit _ _ _ (Err _) _ => state_eqb pre post
  | OWithdraw a ps (Ok r) _ =>
      (holdings post true =? holdings pre true - wr_long_out r) &&
      (holdings post false =? holdings pre false - wr_short_out r) &&
      (total_supply post =? total_supply pre - a) && rest_eqb pre post
  | OWithdraw _ _ (Err _) _ => state_eqb pre post
  end.

Fixpoint oracle_ops (s : mstate) (ops : list op) : bool :=
  match ops with
  | [] => true
  | o :: rest => op_oracle s o && oracle_ops (op_post s o) rest
  end.

Definition oracle_b (c : case) : bool :=
  match c with Hist _ _ _ init ops => oracle_ops init ops end.

Definition known_b (c : case) : Z := 0.
