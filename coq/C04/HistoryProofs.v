From GV Require Import lib.Base lib.DivLemmas C01.Model C01.Proofs MK.Market MK.Swap MK.Liquidity MK.MarketProofs MK.SwapProofs.
From GV Require Import MK.LiquidityProofs.
From GV Require Import C04.History C04.Proofs.
Open Scope Z_scope.

Section P.
  Variable w : Z.
  Hypothesis Hw : 1 <= w.
  Variable unit : Z.
  Hypothesis Hunit : 0 < unit.
  Variable cfg : config.

  Definition wf_action (x : action) : Prop :=
    match x with
    | ASwap _ a ps => in_range w a /\ wf_prices w ps
    | ADeposit l sh ps => in_range w l /\ in_range w sh /\ wf_prices w ps
    | AWithdraw a ps => in_range w a /\ wf_prices w ps
    end.

  Lemma deposit_exec_inv s l sh ps s' r :
    deposit_exec w unit cfg s l sh ps = Ok (s', r) ->
    exists t, deposit_exec_trace w unit cfg s l sh ps = Ok (s', r, t).
  Proof. unfold deposit_exec. intros H. rinv H. destruct x as [[s1 r1] t]. cbn in H. injection H as <- <-. eauto. Qed.

  Lemma withdraw_exec_inv s a ps s' r :
    withdraw_exec w unit cfg s a ps = Ok (s', r) ->
    exists t, withdraw_exec_trace w unit cfg s a ps = Ok (s', r, t).
  Proof. unfold withdraw_exec. intros H. rinv H. destruct x as [[s1 r1] t]. cbn in H. injection H as <- <-. eauto. Qed.

  (* one action: the holdings of each token move by exactly the net transfer, the supply by
     exactly the net mint, nothing else changes (on failure: nothing at all) *)
  Lemma step_ledger s x : wf_state w s -> 0 <= value_to_amount_divisor s -> wf_action x ->
    (forall il, holdings (step w unit cfg s x) il = holdings s il + net_in w unit cfg s x il) /\
    total_supply (step w unit cfg s x) = total_supply s + net_mint w unit cfg s x /\
    same_rest s (step w unit cfg s x) /\ vi_follows s (step w unit cfg s x) /\ wf_state w (step w unit cfg s x).
  Proof.
    intros Hs Hdv Hx.
    assert (Hid : (forall il : bool, holdings s il = holdings s il + 0) /\ total_supply s = total_supply s + 0 /\
                  same_rest s s /\ vi_follows s s /\ wf_state w s).
    { split; [intros; lia|]. split; [lia|]. split; [apply same_rest_refl|]. split; [apply vi_follows_refl|exact Hs]. }
    destruct x as [sil a ps|l sh ps|a ps]; cbn [step net_in net_mint wf_action] in *.
    - destruct Hx as [Ha Hps]. destruct (swap_exec w unit cfg s sil a ps) as [[s' r]|e] eqn:E; [|exact Hid].
      app swap_ledger E. destruct E as (A & B & C & D & F & G & K). cbn [fst snd].
      split; [|split; [lia|tauto]].
      intros il. destruct (Bool.eqb il sil) eqn:Eb.
      + apply Bool.eqb_prop in Eb. subst. exact A.
      + assert (il = negb sil) by (destruct il, sil; cbn in *; congruence). subst. rewrite B. lia.
    - destruct Hx as (Hl & Hsh & Hps). destruct (deposit_exec w unit cfg s l sh ps) as [[s' r]|e] eqn:E; [|exact Hid].
      apply deposit_exec_inv in E. destruct E as [t E]. app deposit_exec_trace_ok E. destruct E. cbn [fst snd].
      split; [|tauto]. intros [|]; assumption.
    - destruct Hx as (Ha & Hps). destruct (withdraw_exec w unit cfg s a ps) as [[s' r]|e] eqn:E; [|exact Hid].
      apply withdraw_exec_inv in E. destruct E as [t E]. app withdraw_exec_trace_ok E. destruct E. cbn [fst snd].
      split; [|split; [lia|tauto]]. intros [|]; lia.
  Qed.

  (* any history *)
  Theorem history_ledger xs : forall s, wf_state w s -> 0 <= value_to_amount_divisor s -> Forall wf_action xs ->
    (forall il, holdings (fold_left (step w unit cfg) xs s) il = holdings s il + ledger w unit cfg s xs il) /\
    total_supply (fold_left (step w unit cfg) xs s) = total_supply s + mint_ledger w unit cfg s xs /\
    same_rest s (fold_left (step w unit cfg) xs s) /\ vi_follows s (fold_left (step w unit cfg) xs s) /\
    wf_state w (fold_left (step w unit cfg) xs s).
  Proof.
    induction xs as [|x xs IH]; intros s Hs Hdv Hxs.
    - cbn. split; [intros; lia|]. split; [lia|]. split; [apply same_rest_refl|]. split; [apply vi_follows_refl|exact Hs].
    - inversion Hxs as [|? ? Hx Hxs']; subst. cbn [fold_left ledger mint_ledger].
      destruct (step_ledger s x Hs Hdv Hx) as (A & B & C & D & F).
      assert (Hdv' : 0 <= value_to_amount_divisor (step w unit cfg s x)) by (destruct C as (<- & _); exact Hdv).
      destruct (IH _ F Hdv' Hxs') as (A' & B' & C' & D' & F').
      split; [intros il; rewrite A', A; lia|]. split; [lia|]. split; [eapply same_rest_trans; eassumption|].
      split; [eapply vi_follows_trans; eassumption|exact F'].
  Qed.
End P.
