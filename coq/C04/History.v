(* C04 — history form: deposits, withdrawals and swaps in any order (definitions). *)
From GV Require Import lib.Base C01.Model MK.Market MK.Swap MK.Liquidity.
Open Scope Z_scope.

Inductive action :=
| ASwap (is_long_in : bool) (amount : Z) (ps : prices)
| ADeposit (long_amount short_amount : Z) (ps : prices)
| AWithdraw (market_token_amount : Z) (ps : prices).

Section H.
  Variable w : Z.
  Variable unit : Z.
  Variable cfg : config.

  (* the market after an action: the new state on success, the old one on failure *)
  Definition step (s : mstate) (x : action) : mstate :=
    match x with
    | ASwap il a ps => match swap_exec w unit cfg s il a ps with Ok r => fst r | Err _ => s end
    | ADeposit l sh ps => match deposit_exec w unit cfg s l sh ps with Ok r => fst r | Err _ => s end
    | AWithdraw a ps => match withdraw_exec w unit cfg s a ps with Ok r => fst r | Err _ => s end
    end.

  (* tokens of side [il] that the action moves into (+) or out of (-) the market's vault *)
  Definition net_in (s : mstate) (x : action) (il : bool) : Z :=
    match x with
    | ASwap sil a ps =>
        match swap_exec w unit cfg s sil a ps with
        | Ok r => if Bool.eqb il sil then a else - sr_out (snd r)
        | Err _ => 0
        end
    | ADeposit l sh ps =>
        match deposit_exec w unit cfg s l sh ps with
        | Ok _ => if il then l else sh
        | Err _ => 0
        end
    | AWithdraw a ps =>
        match withdraw_exec w unit cfg s a ps with
        | Ok r => - (if il then wr_long_out (snd r) else wr_short_out (snd r))
        | Err _ => 0
        end
    end.

  (* market tokens minted (+) / burned (-) by the action *)
  Definition net_mint (s : mstate) (x : action) : Z :=
    match x with
    | ASwap _ _ _ => 0
    | ADeposit l sh ps =>
        match deposit_exec w unit cfg s l sh ps with Ok r => dr_minted (snd r) | Err _ => 0 end
    | AWithdraw a ps =>
        match withdraw_exec w unit cfg s a ps with Ok _ => - a | Err _ => 0 end
    end.

  Fixpoint ledger (s : mstate) (xs : list action) (il : bool) : Z :=
    match xs with
    | [] => 0
    | x :: r => net_in s x il + ledger (step s x) r il
    end.

  Fixpoint mint_ledger (s : mstate) (xs : list action) : Z :=
    match xs with
    | [] => 0
    | x :: r => net_mint s x + mint_ledger (step s x) r
    end.
End H.
