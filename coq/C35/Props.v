(* C35 — stored names read back exactly as they were accepted (code after fix 71aae69:
   fixed_str_to_bytes rejects bytes.len() >= MAX_LEN and names containing NUL).
   A Rust `&str` is a byte list with [utf8_valid s = true]; [m] is the field width MAX_LEN. *)
From stdpp Require Import gmap.
From GV Require lib.Base C35.Model C35.Proofs C34.Model C18.Model C18.Proofs.
Import GV.lib.Base(res, Ok, Err, rbind, of_opt).
Import GV.C35.Model GV.C35.Proofs GV.C18.Model GV.C18.Proofs.
Open Scope Z_scope.

(* THE PROPERTY: every accepted name reads back unchanged — all widths, all UTF-8 strings *)
Theorem c35_accepted_roundtrip : forall m s b, utf8_valid s = true ->
  str_to_bytes m s = Ok b -> bytes_to_str b = Ok s.
Proof. exact accepted_roundtrip. Qed.

(* creation accepts exactly the readable names (strictly shorter than the field, no NUL) ... *)
Theorem c35_accepted_iff_readable : forall m s, (exists b, str_to_bytes m s = Ok b) <-> readable m s = true.
Proof. exact accepted_iff_readable. Qed.
Theorem c35_roundtrip_iff : forall m s, utf8_valid s = true ->
  (exists b, str_to_bytes m s = Ok b /\ bytes_to_str b = Ok s) <-> (blen s < m /\ has_nul s = false).
Proof. exact roundtrip_iff. Qed.

(* ... with these stored bytes and these errors *)
Theorem c35_accepts : forall m s b,
  str_to_bytes m s = Ok b <-> (blen s < m /\ has_nul s = false /\ b = s ++ repeat 0 (Z.to_nat (m - blen s))).
Proof. exact str_to_bytes_ok. Qed.
Theorem c35_refuses : forall m s e,
  str_to_bytes m s = Err e <->
  ((m <= blen s /\ e = E_LEN) \/ (blen s < m /\ has_nul s = true /\ e = E_FORMAT)).
Proof. exact str_to_bytes_err. Qed.

(* NAMES THAT CANNOT BE READ BACK ARE REJECTED AT CREATION: the two classes the original code
   accepted (found by this check, repaired by 71aae69) *)
Theorem c35_exact_fill_rejected : forall m s, blen s = m -> str_to_bytes m s = Err E_LEN.
Proof. exact exact_fill_rejected. Qed.
Theorem c35_nul_rejected : forall m s, has_nul s = true -> exists e, str_to_bytes m s = Err e.
Proof. exact nul_rejected. Qed.
Theorem c35_former_witnesses_rejected :
  str_to_bytes 32 name_a32 = Err E_LEN /\ str_to_bytes 32 name_nul = Err E_FORMAT.
Proof. exact former_witnesses_rejected. Qed.
(* why they had to be rejected: a completely filled field has no terminator *)
Theorem c35_reader_needs_terminator : forall s, has_nul s = false -> bytes_to_str s = Err E_FORMAT.
Proof. exact reader_exact_fill. Qed.

(* cutting well-formed UTF-8 at a NUL byte leaves well-formed UTF-8 *)
Theorem c35_utf8_prefix_nul : forall p q, utf8_valid (p ++ 0 :: q) = true -> utf8_valid p = true.
Proof. intros p q. exact (utf8_prefix_nul (length p) p q (le_n _)). Qed.

(* ---- roles: an accepted role name can be used, granted and disabled ---- *)
Lemma list_eqb_refl a : list_eqb a a = true.
Proof. induction a as [|x r IH]; cbn; [done|]. by rewrite Z.eqb_refl, IH. Qed.

(* the name stored by RoleMetadata::new passes RoleStore's `metadata.name()? == role` check *)
Theorem c35_accepted_role_usable : forall n nb, utf8_valid n = true ->
  str_to_bytes NAME_LEN n = Ok nb -> name_ok nb n = true.
Proof.
  intros n nb U E. unfold name_ok. rewrite (accepted_roundtrip NAME_LEN n nb U E). apply list_eqb_refl.
Qed.

(* hence (abstract machine of C18, to which the real RoleStore is proved and observed equivalent)
   a freshly created role can be granted, is held, and can be disabled and re-enabled *)
Theorem c35_created_role_works : forall A k n nb a, utf8_valid n = true ->
  ar A !! k = None -> str_to_bytes NAME_LEN n = Ok nb ->
  Z.of_nat (size (ar A)) < MAX_ROLES -> (a, k) ∉ ag A ->
  (a ∈ amembers A \/ Z.of_nat (size (amembers A)) < MAX_MEMBERS) ->
  let r := mkrole k n in
  let A1 := fst (a_enable A r) in
  let A2 := fst (a_grant A1 a r) in
  snd (a_enable A r) = Ok tt /\ snd (a_grant A1 a r) = Ok tt /\ a_has A2 a r = Ok true /\
  snd (a_disable A2 r) = Ok tt.
Proof.
  intros A k n nb a U E N F G M r A1 A2.
  pose proof (c35_accepted_role_usable n nb U N) as NO.
  assert (E1 : a_enable A r = okA (mkA (<[k := (nb, true)]> (ar A)) (ag A))).
  { unfold a_enable. cbn [r_key r_name r]. rewrite E, N. by rewrite decide_False by lia. }
  assert (HA1 : A1 = mkA (<[k := (nb, true)]> (ar A)) (ag A)) by (unfold A1; by rewrite E1).
  assert (S1 : a_status A1 r = Ok (Some true)).
  { unfold a_status. rewrite HA1. cbn [ar r_key r_name r]. rewrite lookup_insert. by rewrite NO. }
  assert (E2 : a_grant A1 a r = okA (mkA (ar A1) ({[(a, k)]} ∪ ag A1))).
  { unfold a_grant. rewrite S1. cbn [r_key r].
    assert (G1 : (a, k) ∉ ag A1) by (rewrite HA1; done).
    rewrite decide_False by done.
    assert (AM : amembers A1 = amembers A) by (rewrite HA1; done).
    case_decide as D; [done|]. rewrite AM in *.
    destruct M as [M|M]; [done|]. by rewrite decide_False by lia. }
  assert (HA2 : A2 = mkA (ar A1) ({[(a, k)]} ∪ ag A1)) by (unfold A2; by rewrite E2).
  assert (S2 : a_status A2 r = Ok (Some true)).
  { unfold a_status in *. rewrite HA2. cbn [ar]. exact S1. }
  assert (G2 : (a, k) ∈ ag A2) by (rewrite HA2; cbn [ag]; set_solver).
  split; [by rewrite E1|]. split; [by rewrite E2|]. split.
  - unfold a_has. rewrite decide_True by (unfold amembers; apply elem_of_map; by exists (a, k)). rewrite S2.
    cbn [r_key r]. f_equal. by apply bool_decide_eq_true.
  - unfold a_disable. unfold a_status in S2. cbn [r_key r_name r] in *.
    destruct (ar A2 !! k) as [[nm en]|]; [|done].
    destruct (name_ok nm n); [|done]. destruct en; [done|]. by inversion S2.
Qed.
