(* C35 — stored names read back exactly as they were accepted.
   A Rust `&str` is a byte list with [utf8_valid s = true]; [m] is the field width MAX_LEN. *)
From stdpp Require Import gmap.
From GV Require lib.Base C35.Model C35.Proofs C34.Model C18.Model C18.Proofs.
Import GV.lib.Base(res, Ok, Err, rbind, of_opt).
Import GV.C35.Model GV.C35.Proofs GV.C18.Model GV.C18.Proofs.
Open Scope Z_scope.

(* THE PROPERTY AS AN EQUIVALENCE: a name is accepted AND reads back unchanged exactly when it
   is strictly shorter than the field and contains no NUL.  The code accepts more
   (blen s <= m, NUL allowed): see the two classes below. *)
Theorem c35_roundtrip_iff : forall m s, utf8_valid s = true ->
  (exists b, str_to_bytes m s = Ok b /\ bytes_to_str b = Ok s) <-> (blen s < m /\ has_nul s = false).
Proof. exact roundtrip_iff. Qed.

(* what creation accepts / refuses *)
Theorem c35_accepts : forall m s b,
  str_to_bytes m s = Ok b <-> (blen s <= m /\ b = s ++ repeat 0 (Z.to_nat (m - blen s))).
Proof. exact str_to_bytes_ok. Qed.
Theorem c35_refuses : forall m s, (exists e, str_to_bytes m s = Err e) <-> m < blen s.
Proof. exact str_to_bytes_err. Qed.
Theorem c35_readable_accepted : forall m s, readable m s = true -> exists b, str_to_bytes m s = Ok b.
Proof. exact readable_accepted. Qed.

(* outside the two known classes the property holds literally *)
Theorem c35_accepted_outside_classes_roundtrip : forall m s b, utf8_valid s = true ->
  str_to_bytes m s = Ok b -> blen s <> m -> has_nul s = false -> bytes_to_str b = Ok s.
Proof. exact accepted_outside_classes_roundtrip. Qed.

(* class 1 (ExactFill): accepted, stored without terminator, unreadable *)
Theorem c35_exact_fill_unreadable : forall m s, blen s = m -> has_nul s = false ->
  str_to_bytes m s = Ok s /\ bytes_to_str s = Err E_FORMAT.
Proof. exact readback_exact_fill. Qed.

(* class 2 (InteriorNul): accepted, reads back as the part before the first NUL (a different,
   strictly shorter name) *)
Theorem c35_interior_nul_truncated : forall m s b, utf8_valid s = true -> has_nul s = true ->
  str_to_bytes m s = Ok b ->
  exists n, position_nul s = Some n /\ (n < length s)%nat /\ bytes_to_str b = Ok (firstn n s).
Proof. exact readback_interior_nul_exact. Qed.

(* concrete witnesses on the 32-byte fields: "a" x 32 and "ab\0cd" *)
Theorem c35_accepted_unreadable_refuted :
  (exists b, utf8_valid name_a32 = true /\ str_to_bytes 32 name_a32 = Ok b /\ bytes_to_str b = Err E_FORMAT) /\
  (exists b, utf8_valid name_nul = true /\ str_to_bytes 32 name_nul = Ok b /\ bytes_to_str b = Ok [97; 98]).
Proof. exact accepted_unreadable_refuted. Qed.

(* cutting well-formed UTF-8 at a NUL byte leaves well-formed UTF-8 (so the Utf8 error of
   bytes_to_fixed_str cannot occur for names that came in as `&str`) *)
Theorem c35_utf8_prefix_nul : forall p q, utf8_valid (p ++ 0 :: q) = true -> utf8_valid p = true.
Proof. intros p q. exact (utf8_prefix_nul (length p) p q (le_n _)). Qed.

(* ---- roles: an accepted role name can be used, granted and disabled iff it is readable ---- *)
Lemma list_eqb_eq a : forall b, list_eqb a b = true <-> a = b.
Proof.
  induction a as [|x r IH]; intros [|y s]; cbn; split; intros H; try done.
  - apply andb_prop in H as [H1 H2]. apply Z.eqb_eq in H1. apply IH in H2. by subst.
  - inversion H; subst. rewrite Z.eqb_refl. by apply IH.
Qed.

Theorem c35_role_name_usable_iff : forall n nb, utf8_valid n = true ->
  str_to_bytes NAME_LEN n = Ok nb -> (name_ok nb n = true <-> readable NAME_LEN n = true).
Proof.
  intros n nb U E. unfold name_ok, readable. split.
  - destruct (bytes_to_str nb) as [x|] eqn:R; [|done]. intros H. apply list_eqb_eq in H. subst x.
    destruct (proj1 (roundtrip_iff NAME_LEN n U)) as [L N]; [by exists nb|].
    rewrite N. apply andb_true_intro. split; [by apply Z.ltb_lt|done].
  - intros H. apply andb_prop in H as [L N]. apply Z.ltb_lt in L. apply negb_true_iff in N.
    destruct (proj2 (roundtrip_iff NAME_LEN n U)) as (b & E' & R); [done|].
    rewrite E' in E. inversion E; subst. rewrite R. by apply list_eqb_eq.
Qed.

(* a role created under an unreadable name is stuck: enable / disable / grant / revoke on it
   fail with InvalidArgument and has_role never succeeds (abstract machine of C18, to which the
   real RoleStore is proved and observed equivalent) *)
Theorem c35_unreadable_role_stuck : forall A k n nb en a, ar A !! k = Some (nb, en) ->
  name_ok nb n = false ->
  let r := mkrole k n in
  a_enable A r = (A, Err EC_ARG) /\ a_disable A r = (A, Err EC_ARG) /\
  a_grant A a r = (A, Err EC_ARG) /\ a_revoke A a r = (A, Err EC_ARG) /\
  (a_has A a r = Err EC_ARG \/ a_has A a r = Err EC_DENIED).
Proof.
  intros A k n nb en a E N r.
  unfold a_enable, a_disable, a_grant, a_revoke, a_has, a_status. cbn [r_key r_name r].
  rewrite E, N. repeat split; try done. case_decide; [by left|by right].
Qed.
