(* C35 — executable model of crates/utils/src/fixed_str.rs.  Definitions only.
   A Rust `&str` is a list of bytes (Z in 0..255) that is well-formed UTF-8.

   Errors of the crate:  Err 1 = FixedStrError::ExceedMaxLengthLimit,
                         Err 2 = FixedStrError::InvalidFormat (no NUL terminator),
                         Err 3 = FixedStrError::Utf8.
   The store program maps 1 -> CoreError::ExceedMaxLengthLimit, 2 | 3 -> CoreError::InvalidArgument
   (programs/store/src/utils/fixed_str.rs). *)
From GV Require Import lib.Base.
Open Scope Z_scope.

Definition E_LEN : Z := 1.
Definition E_FORMAT : Z := 2.
Definition E_UTF8 : Z := 3.

Definition blen (s : list Z) : Z := Z.of_nat (length s).

Definition has_nul (s : list Z) : bool := existsb (fun x => x =? 0) s.

(* fixed_str_to_bytes::<MAX_LEN> (after fix 71aae69):
     if bytes.len() >= MAX_LEN { Err(ExceedMaxLengthLimit) }   -- room for the terminator
     if bytes.contains(&0)     { Err(InvalidFormat) }
     zero buffer, copy the bytes *)
Definition str_to_bytes (max_len : Z) (s : list Z) : res (list Z) :=
  if max_len <=? blen s then Err E_LEN
  else if has_nul s then Err E_FORMAT
  else Ok (s ++ repeat 0 (Z.to_nat (max_len - blen s))).

(* bytes.iter().position(|&x| x == 0) *)
Fixpoint position_nul (b : list Z) : option nat :=
  match b with
  | [] => None
  | x :: r => if x =? 0 then Some O else match position_nul r with Some n => Some (S n) | None => None end
  end.

(* core::str::from_utf8: well-formed UTF-8 (Unicode Table 3-7) *)
Definition cont (b : Z) : bool := (0x80 <=? b) && (b <=? 0xBF).
Definition rng (lo hi b : Z) : bool := (lo <=? b) && (b <=? hi).
Fixpoint utf8_valid (l : list Z) : bool :=
  match l with
  | [] => true
  | a :: r =>
      if rng 0 0x7F a then utf8_valid r
      else match r with
      | [] => false
      | b :: r2 =>
          if rng 0xC2 0xDF a then cont b && utf8_valid r2
          else match r2 with
          | [] => false
          | c :: r3 =>
              if a =? 0xE0 then rng 0xA0 0xBF b && cont c && utf8_valid r3
              else if rng 0xE1 0xEC a then cont b && cont c && utf8_valid r3
              else if a =? 0xED then rng 0x80 0x9F b && cont c && utf8_valid r3
              else if rng 0xEE 0xEF a then cont b && cont c && utf8_valid r3
              else match r3 with
              | [] => false
              | d :: r4 =>
                  if a =? 0xF0 then rng 0x90 0xBF b && cont c && cont d && utf8_valid r4
                  else if rng 0xF1 0xF3 a then cont b && cont c && cont d && utf8_valid r4
                  else if a =? 0xF4 then rng 0x80 0x8F b && cont c && cont d && utf8_valid r4
                  else false
              end
          end
      end
  end.

(* bytes_to_fixed_str *)
Definition bytes_to_str (b : list Z) : res (list Z) :=
  match position_nul b with
  | None => Err E_FORMAT
  | Some n => let v := firstn n b in if utf8_valid v then Ok v else Err E_UTF8
  end.

Definition is_byte (x : Z) : bool := (0 <=? x) && (x <=? 255).

(* a name that can be stored AND read back: strictly shorter than the field, no NUL *)
Definition readable (max_len : Z) (s : list Z) : bool := (blen s <? max_len) && negb (has_nul s).

Fixpoint list_eqb (a b : list Z) : bool :=
  match a, b with
  | [], [] => true
  | x :: r, y :: s => (x =? y) && list_eqb r s
  | _, _ => false
  end.
