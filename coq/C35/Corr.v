(* C35 — correspondence + oracle for stored names.
   Strings and byte arrays are byte lists.  Sites:
     0 = the crate helpers gmsol_utils::fixed_str::{fixed_str_to_bytes, bytes_to_fixed_str}::<N>
     1 = Store::init(key) / Store::key()          2 = RoleMetadata::new / name()   (32 bytes)
     3 = Market::init(name) / Market::name() (64 bytes)    4 = TokenConfig name (store helper + TokenConfig::name())
     5 = timelock Executor role_name (store helper + Executor::role_name())
   RT: helper level, stored bytes visible.  Site: program level, creation code (0 = accepted,
   1 = ExceedMaxLengthLimit, 23 = InvalidArgument, 99 other) and the readback result
   (Err 0 when nothing was created; Err 2 / 3 crate errors at site 4; Err 23 = InvalidArgument).
   RoleChain: enable_role(name), grant, has_role, disable_role, enable_role again on a fresh RoleStore. *)
From GV Require Import lib.Base.
From GV Require Export C35.Model.
From GV Require Import C34.Model C18.Model.
Open Scope Z_scope.

Inductive case :=
| RT (maxlen : Z) (s : list Z) (acc : res (list Z)) (rb : res (list Z))
| Site (site maxlen : Z) (s : list Z) (code : Z) (rb : res (list Z))
| Read (b : list Z) (r : res (list Z))
| RoleChain (s : list Z) (enable grant : Z) (has : res bool) (disable enable2 : Z).

Definition rl_eqb (a b : res (list Z)) : bool :=
  match a, b with Ok x, Ok y => list_eqb x y | Err x, Err y => x =? y | _, _ => false end.
Definition rb_eqb (a b : res bool) : bool :=
  match a, b with Ok x, Ok y => Bool.eqb x y | Err x, Err y => x =? y | _, _ => false end.

(* program wrapper: crate error -> CoreError *)
Definition prog_err (merge : bool) (r : res (list Z)) : res (list Z) :=
  match r with Ok x => Ok x | Err e => if merge then (if e =? 1 then Err 1 else Err 23) else Err e end.

Definition code_of (r : res unit) : Z := match r with Ok _ => 0 | Err e => e end.
Definition un {A} (x : res (rstore * res A)) (s : rstore) (d : res A) : rstore * res A :=
  match x with Ok p => p | Err _ => (s, d) end.

Definition corr_b (c : case) : bool :=
  match c with
  | RT maxlen s acc rb =>
      rl_eqb (str_to_bytes maxlen s) acc &&
      match acc with Ok b => rl_eqb (bytes_to_str b) rb | Err _ => rl_eqb rb (Err 0) end
  | Site site maxlen s code rb =>
      match str_to_bytes maxlen s with
      | Ok b => (code =? 0) && rl_eqb (prog_err (negb (site =? 4)) (bytes_to_str b)) rb
      | Err e => (code =? (if e =? 1 then 1 else 23)) && rl_eqb rb (Err 0)
      end
  | Read b r => rl_eqb (bytes_to_str b) r
  | RoleChain s e g h d e2 =>
      let r := mkrole 1 s in
      let '(s1, r1) := un (enable_role rstore0 r) rstore0 (Err 100) in
      let '(s2, r2) := un (grant s1 7 r) s1 (Err 100) in
      let h' := match has_role s2 7 r with Ok x => x | Err _ => Err 100 end in
      let '(s3, r3) := un (disable_role s2 r) s2 (Err 100) in
      let '(s4, r4) := un (enable_role s3 r) s3 (Err 100) in
      (code_of r1 =? e) && (code_of r2 =? g) && rb_eqb h' h && (code_of r3 =? d) && (code_of r4 =? e2)
  end.

(* ---------- oracle: accepted names read back unchanged; readable names are accepted ---------- *)
Definition accepted_rb_ok (s : list Z) (rb : res (list Z)) : bool := rl_eqb rb (Ok s).

Definition oracle_b (c : case) : bool :=
  match c with
  | RT maxlen s acc rb =>
      match acc with
      | Ok _ => accepted_rb_ok s rb
      | Err _ => negb (readable maxlen s)           (* a readable name must not be refused *)
      end
  | Site _ maxlen s code rb =>
      if code =? 0 then accepted_rb_ok s rb else negb (readable maxlen s)
  | Read _ _ => true
  | RoleChain s e g h d e2 =>
      if e =? 0 then (g =? 0) && rb_eqb h (Ok true) && (d =? 0) && (e2 =? 0)
      else negb (readable 32 s)
  end.

(* The two classes found on the original tree (ExactFill, InteriorNul) were repaired in /repo
   commit 71aae69; nothing is tolerated any more: a recurrence is an oracle failure. *)
Definition known_b (c : case) : Z := 0.
