(* C35 — proofs about the fixed-string model. *)
From GV Require Import lib.Base C35.Model.
Open Scope Z_scope.

Lemma blen_nonneg s : 0 <= blen s.
Proof. unfold blen. lia. Qed.

(* ---------------------------------------------------------------- position of the first NUL *)
Lemma position_nul_app_nonul s t : has_nul s = false ->
  position_nul (s ++ 0 :: t) = Some (length s).
Proof.
  induction s as [|x r IH]; intros H; cbn in *.
  - reflexivity.
  - apply Bool.orb_false_elim in H as [Hx Hr]. rewrite Hx. rewrite (IH Hr). reflexivity.
Qed.

Lemma position_nul_none s : has_nul s = false -> position_nul s = None.
Proof.
  induction s as [|x r IH]; intros H; cbn in *; [reflexivity|].
  apply Bool.orb_false_elim in H as [Hx Hr]. rewrite Hx. now rewrite (IH Hr).
Qed.

Lemma position_nul_has s t : has_nul s = true ->
  exists n, position_nul (s ++ t) = Some n /\ position_nul s = Some n /\ (n < length s)%nat.
Proof.
  induction s as [|x r IH]; intros H; cbn in *; [discriminate|].
  destruct (x =? 0) eqn:Hx.
  - exists O. repeat split; lia.
  - cbn in H. destruct (IH H) as (n & E1 & E2 & L). exists (S n). rewrite E1, E2. repeat split; lia.
Qed.

Lemma firstn_app_exact (s t : list Z) : firstn (length s) (s ++ t) = s.
Proof. rewrite firstn_app, Nat.sub_diag, firstn_all. cbn. apply app_nil_r. Qed.

(* ---------------------------------------------------------------- creation *)
Lemma str_to_bytes_ok m s b :
  str_to_bytes m s = Ok b <-> (blen s <= m /\ b = s ++ repeat 0 (Z.to_nat (m - blen s))).
Proof.
  unfold str_to_bytes. destruct (Z.ltb_spec m (blen s)); split.
  - discriminate.
  - intros [L _]. lia.
  - intros E. inversion E. split; [lia|reflexivity].
  - intros [_ ->]. reflexivity.
Qed.

Lemma str_to_bytes_err m s : (exists e, str_to_bytes m s = Err e) <-> m < blen s.
Proof.
  unfold str_to_bytes. destruct (Z.ltb_spec m (blen s)); split; try lia.
  - intros _. eauto.
  - intros [e E]. discriminate.
Qed.

Lemma stored_length m s b : 0 <= m -> str_to_bytes m s = Ok b -> blen b = m.
Proof.
  intros Hm E. apply str_to_bytes_ok in E as [L ->]. unfold blen in *.
  rewrite app_length, repeat_length. lia.
Qed.

(* ---------------------------------------------------------------- read back *)
Lemma readback_good m s : utf8_valid s = true -> blen s < m -> has_nul s = false ->
  exists b, str_to_bytes m s = Ok b /\ bytes_to_str b = Ok s.
Proof.
  intros U L N. eexists. split.
  - apply str_to_bytes_ok. split; [lia|reflexivity].
  - unfold bytes_to_str.
    assert (E : exists k, Z.to_nat (m - blen s) = S k) by (exists (Z.to_nat (m - blen s) - 1)%nat; lia).
    destruct E as [k ->]. cbn [repeat].
    rewrite (position_nul_app_nonul s _ N). rewrite firstn_app_exact. now rewrite U.
Qed.

(* a name that exactly fills the field is stored without terminator: reading fails *)
Lemma readback_exact_fill m s : blen s = m -> has_nul s = false ->
  str_to_bytes m s = Ok s /\ bytes_to_str s = Err E_FORMAT.
Proof.
  intros L N. split.
  - apply str_to_bytes_ok. split; [lia|]. rewrite L, Z.sub_diag. cbn. now rewrite app_nil_r.
  - unfold bytes_to_str. now rewrite (position_nul_none s N).
Qed.

(* a name containing NUL reads back as something strictly shorter (or not at all) *)
Lemma readback_interior_nul m s b : has_nul s = true -> str_to_bytes m s = Ok b ->
  exists n, position_nul s = Some n /\ (n < length s)%nat /\
    (bytes_to_str b = Ok (firstn n s) \/ bytes_to_str b = Err E_UTF8).
Proof.
  intros N E. apply str_to_bytes_ok in E as [L ->].
  destruct (position_nul_has s (repeat 0 (Z.to_nat (m - blen s))) N) as (n & E1 & E2 & Ln).
  exists n. split; [exact E2|]. split; [exact Ln|].
  unfold bytes_to_str. rewrite E1. rewrite firstn_app.
  replace (n - length s)%nat with O by lia. cbn [firstn]. rewrite app_nil_r.
  destruct (utf8_valid (firstn n s)); auto.
Qed.

Lemma firstn_shorter_neq (s : list Z) n : (n < length s)%nat -> firstn n s <> s.
Proof.
  intros L E. assert (length (firstn n s) = length s) by now rewrite E.
  rewrite firstn_length in H. lia.
Qed.


Lemma utf8_step a r :
  utf8_valid (a :: r) =
      if rng 0 0x7F a then utf8_valid r
      else match r with
      | [] => false
      | b :: r2 =>
          if rng 0xC2 0xDF a then cont b && utf8_valid r2
          else match r2 with
          | [] => false
          | c :: r3 =>
              if a =? 0xE0 then rng 0xA0 0xBF b && cont c && utf8_valid r3
              else if rng 0xE1 0xEC a then cont b && cont c && utf8_valid r3
              else if a =? 0xED then rng 0x80 0x9F b && cont c && utf8_valid r3
              else if rng 0xEE 0xEF a then cont b && cont c && utf8_valid r3
              else match r3 with
              | [] => false
              | d :: r4 =>
                  if a =? 0xF0 then rng 0x90 0xBF b && cont c && cont d && utf8_valid r4
                  else if rng 0xF1 0xF3 a then cont b && cont c && cont d && utf8_valid r4
                  else if a =? 0xF4 then rng 0x80 0x8F b && cont c && cont d && utf8_valid r4
                  else false
              end
          end
      end.
Proof. reflexivity. Qed.

Ltac split_ifs H :=
  repeat match type of H with context [if ?c then _ else _] => destruct c end.
Ltac ands H :=
  repeat match goal with
  | X : _ && _ = true |- _ => apply andb_prop in X as [? ?]
  end.

Ltac fin IH q :=
  ands tt; repeat first [assumption | apply andb_true_intro; split]; apply IH with q; [lia|assumption].

(* a NUL byte can only follow a complete character: cutting well-formed UTF-8 at a NUL
   leaves well-formed UTF-8 *)
Lemma utf8_prefix_nul n : forall p q, (length p <= n)%nat ->
  utf8_valid (p ++ 0 :: q) = true -> utf8_valid p = true.
Proof.
  induction n as [|n IH]; intros p q L H.
  - destruct p; [reflexivity|cbn in L; lia].
  - destruct p as [|a p]; [reflexivity|]. cbn [length] in L.
    change ((a :: p) ++ 0 :: q) with (a :: (p ++ 0 :: q)) in H.
    rewrite utf8_step in H. rewrite utf8_step.
    destruct (rng 0 127 a). { apply IH with q; [lia|exact H]. }
    destruct p as [|b p]; cbn [app length] in *.
    { exfalso. destruct q as [|c q]; [split_ifs H; cbn in H; discriminate|].
      destruct q as [|d q]; split_ifs H; cbn in H; discriminate. }
    destruct (rng 194 223 a).
    { fin IH q. }
    destruct p as [|c p]; cbn [app length] in *.
    { exfalso. destruct q as [|d q]; split_ifs H; cbn in H; rewrite ?Bool.andb_false_r in H; cbn in H; try discriminate. }
    destruct (a =? 224). { fin IH q. }
    destruct (rng 225 236 a). { fin IH q. }
    destruct (a =? 237). { fin IH q. }
    destruct (rng 238 239 a). { fin IH q. }
    destruct p as [|d p]; cbn [app length] in *.
    { exfalso. split_ifs H; cbn in H; rewrite ?Bool.andb_false_r in H; cbn in H; try discriminate. }
    destruct (a =? 240). { fin IH q. }
    destruct (rng 241 243 a). { fin IH q. }
    destruct (a =? 244). { fin IH q. }
    discriminate.
Qed.

Lemma position_nul_split s n : position_nul s = Some n ->
  s = firstn n s ++ 0 :: skipn (S n) s.
Proof.
  revert n. induction s as [|x r IH]; intros n H; cbn in H; [discriminate|].
  destruct (Z.eqb_spec x 0) as [->|N].
  - inversion H. reflexivity.
  - destruct (position_nul r) as [k|] eqn:E; [|discriminate]. inversion H. subst n.
    cbn. f_equal. now apply IH.
Qed.

(* exact behaviour on a name containing NUL: it reads back as the part before the first NUL *)
Lemma readback_interior_nul_exact m s b : utf8_valid s = true -> has_nul s = true ->
  str_to_bytes m s = Ok b ->
  exists n, position_nul s = Some n /\ (n < length s)%nat /\ bytes_to_str b = Ok (firstn n s).
Proof.
  intros U N E. destruct (readback_interior_nul m s b N E) as (n & P & Ln & R).
  exists n. split; [exact P|]. split; [exact Ln|].
  assert (V : utf8_valid (firstn n s) = true).
  { pose proof (position_nul_split s n P) as Sp. rewrite Sp in U.
    apply (utf8_prefix_nul (length (firstn n s)) _ _ (le_n _) U). }
  destruct R as [R|R]; [exact R|].
  exfalso. apply str_to_bytes_ok in E as [L ->].
  destruct (position_nul_has s (repeat 0 (Z.to_nat (m - blen s))) N) as (n' & E1 & E2 & _).
  assert (n' = n) by congruence. subst n'.
  unfold bytes_to_str in R. rewrite E1 in R. rewrite firstn_app in R.
  replace (n - length s)%nat with O in R by lia. cbn [firstn] in R. rewrite app_nil_r in R.
  rewrite V in R. discriminate.
Qed.

(* ---------------------------------------------------------------- the property *)
Theorem roundtrip_iff m s : utf8_valid s = true ->
  (exists b, str_to_bytes m s = Ok b /\ bytes_to_str b = Ok s) <-> (blen s < m /\ has_nul s = false).
Proof.
  intros U. split.
  - intros (b & E & R). pose proof E as E'. apply str_to_bytes_ok in E' as [L Eb].
    destruct (has_nul s) eqn:N.
    + exfalso. destruct (readback_interior_nul m s b N E) as (n & _ & Ln & [R'|R']); rewrite R' in R.
      * inversion R as [R2]. now apply (firstn_shorter_neq s n Ln).
      * discriminate.
    + split; [|reflexivity]. destruct (Z.eq_dec (blen s) m) as [Em|Nm]; [|lia].
      exfalso. destruct (readback_exact_fill m s Em N) as [E2 R2].
      rewrite E2 in E. assert (Hb : s = b) by (inversion E; reflexivity).
      rewrite <- Hb in R. rewrite R2 in R. discriminate.
  - intros [L N]. now apply readback_good.
Qed.

(* accepted and outside the two known classes -> reads back unchanged *)
Theorem accepted_outside_classes_roundtrip m s b : utf8_valid s = true ->
  str_to_bytes m s = Ok b -> blen s <> m -> has_nul s = false -> bytes_to_str b = Ok s.
Proof.
  intros U E Nm N. pose proof E as E'. apply str_to_bytes_ok in E' as [L _].
  destruct (readback_good m s U) as (b' & E2 & R); [lia|exact N|].
  rewrite E2 in E. assert (Hb : b' = b) by (inversion E; reflexivity). rewrite <- Hb. exact R.
Qed.

(* every readable name is accepted *)
Theorem readable_accepted m s : readable m s = true -> exists b, str_to_bytes m s = Ok b.
Proof.
  unfold readable. intros H. apply andb_prop in H as [L _]. apply Z.ltb_lt in L.
  eexists. apply str_to_bytes_ok. split; [lia|reflexivity].
Qed.

(* witnesses of the defect on the 32-byte fields *)
Definition name_a32 : list Z := repeat 97 32.            (* "a" x 32 *)
Definition name_nul : list Z := [97; 98; 0; 99; 100].    (* "ab\0cd" *)

Theorem accepted_unreadable_refuted :
  (exists b, utf8_valid name_a32 = true /\ str_to_bytes 32 name_a32 = Ok b /\ bytes_to_str b = Err E_FORMAT) /\
  (exists b, utf8_valid name_nul = true /\ str_to_bytes 32 name_nul = Ok b /\ bytes_to_str b = Ok [97; 98]).
Proof. split; eexists; vm_compute; repeat split; reflexivity. Qed.
