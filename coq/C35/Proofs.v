(* C35 — proofs about the fixed-string model. *)
From GV Require Import lib.Base C35.Model.
Open Scope Z_scope.

Lemma blen_nonneg s : 0 <= blen s.
Proof. unfold blen. lia. Qed.

(* ---------------------------------------------------------------- position of the first NUL *)
Lemma position_nul_app_nonul s t : has_nul s = false ->
  position_nul (s ++ 0 :: t) = Some (length s).
Proof.
  induction s as [|x r IH]; intros H; cbn in *.
  - reflexivity.
  - apply Bool.orb_false_elim in H as [Hx Hr]. rewrite Hx. rewrite (IH Hr). reflexivity.
Qed.

Lemma position_nul_none s : has_nul s = false -> position_nul s = None.
Proof.
  induction s as [|x r IH]; intros H; cbn in *; [reflexivity|].
  apply Bool.orb_false_elim in H as [Hx Hr]. rewrite Hx. now rewrite (IH Hr).
Qed.

Lemma position_nul_has s t : has_nul s = true ->
  exists n, position_nul (s ++ t) = Some n /\ position_nul s = Some n /\ (n < length s)%nat.
Proof.
  induction s as [|x r IH]; intros H; cbn in *; [discriminate|].
  destruct (x =? 0) eqn:Hx.
  - exists O. repeat split; lia.
  - cbn in H. destruct (IH H) as (n & E1 & E2 & L). exists (S n). rewrite E1, E2. repeat split; lia.
Qed.

Lemma firstn_app_exact (s t : list Z) : firstn (length s) (s ++ t) = s.
Proof. rewrite firstn_app, Nat.sub_diag, firstn_all. cbn. apply app_nil_r. Qed.

(* ---------------------------------------------------------------- creation (after fix 71aae69) *)
Lemma str_to_bytes_ok m s b :
  str_to_bytes m s = Ok b <->
  (blen s < m /\ has_nul s = false /\ b = s ++ repeat 0 (Z.to_nat (m - blen s))).
Proof.
  unfold str_to_bytes. destruct (Z.leb_spec m (blen s)); [split; [discriminate|intros [L _]; lia]|].
  destruct (has_nul s); split.
  - discriminate.
  - intros (_ & N & _). discriminate.
  - intros E. inversion E. repeat split; auto.
  - intros (_ & _ & ->). reflexivity.
Qed.

Lemma str_to_bytes_err m s e :
  str_to_bytes m s = Err e <->
  ((m <= blen s /\ e = E_LEN) \/ (blen s < m /\ has_nul s = true /\ e = E_FORMAT)).
Proof.
  unfold str_to_bytes. destruct (Z.leb_spec m (blen s)).
  - split; [intros E; inversion E; left; auto | intros [[_ ->]|[L _]]; [reflexivity|lia]].
  - destruct (has_nul s); split.
    + intros E. inversion E. right. auto.
    + intros [[L _]|(_ & _ & ->)]; [lia|reflexivity].
    + discriminate.
    + intros [[L _]|(_ & N & _)]; [lia|discriminate].
Qed.

Lemma stored_length m s b : str_to_bytes m s = Ok b -> blen b = m.
Proof.
  intros E. apply str_to_bytes_ok in E as (L & _ & ->). unfold blen in *.
  rewrite app_length, repeat_length. lia.
Qed.

(* ---------------------------------------------------------------- read back *)
Lemma readback_good m s : utf8_valid s = true -> blen s < m -> has_nul s = false ->
  exists b, str_to_bytes m s = Ok b /\ bytes_to_str b = Ok s.
Proof.
  intros U L N. eexists. split.
  - apply str_to_bytes_ok. repeat split; auto.
  - unfold bytes_to_str.
    assert (E : exists k, Z.to_nat (m - blen s) = S k) by (exists (Z.to_nat (m - blen s) - 1)%nat; lia).
    destruct E as [k ->]. cbn [repeat].
    rewrite (position_nul_app_nonul s _ N). rewrite firstn_app_exact. now rewrite U.
Qed.

(* EVERY accepted name reads back unchanged *)
Theorem accepted_roundtrip m s b : utf8_valid s = true ->
  str_to_bytes m s = Ok b -> bytes_to_str b = Ok s.
Proof.
  intros U E. pose proof E as E'. apply str_to_bytes_ok in E' as (L & N & _).
  destruct (readback_good m s U L N) as (b' & E2 & R).
  rewrite E2 in E. assert (Hb : b' = b) by (inversion E; reflexivity). rewrite <- Hb. exact R.
Qed.

(* accepted <-> readable (strictly shorter than the field, no NUL) *)
Theorem accepted_iff_readable m s : (exists b, str_to_bytes m s = Ok b) <-> readable m s = true.
Proof.
  unfold readable. split.
  - intros [b E]. apply str_to_bytes_ok in E as (L & N & _).
    apply andb_true_intro. split; [now apply Z.ltb_lt|]. now rewrite N.
  - intros H. apply andb_prop in H as [L N]. apply Z.ltb_lt in L. apply Bool.negb_true_iff in N.
    eexists. apply str_to_bytes_ok. repeat split; auto.
Qed.

Theorem roundtrip_iff m s : utf8_valid s = true ->
  (exists b, str_to_bytes m s = Ok b /\ bytes_to_str b = Ok s) <-> (blen s < m /\ has_nul s = false).
Proof.
  intros U. split.
  - intros (b & E & _). apply str_to_bytes_ok in E as (L & N & _). auto.
  - intros [L N]. now apply readback_good.
Qed.

(* the two formerly accepted classes are now refused at creation *)
Theorem exact_fill_rejected m s : blen s = m -> str_to_bytes m s = Err E_LEN.
Proof. intros L. apply str_to_bytes_err. left. split; [lia|reflexivity]. Qed.

Theorem nul_rejected m s : has_nul s = true -> exists e, str_to_bytes m s = Err e.
Proof.
  intros N. destruct (Z_le_gt_dec m (blen s)).
  - exists E_LEN. apply str_to_bytes_err. left. auto.
  - exists E_FORMAT. apply str_to_bytes_err. right. repeat split; auto. lia.
Qed.

Definition name_a32 : list Z := repeat 97 32.            (* "a" x 32 *)
Definition name_nul : list Z := [97; 98; 0; 99; 100].    (* "ab\0cd" *)

Theorem former_witnesses_rejected :
  str_to_bytes 32 name_a32 = Err E_LEN /\ str_to_bytes 32 name_nul = Err E_FORMAT.
Proof. split; reflexivity. Qed.

(* what the UNFIXED code did with them, kept as a lemma about the reader alone: a field that
   is completely filled has no terminator, a field with an early NUL reads as the prefix *)
Lemma reader_exact_fill s : has_nul s = false -> bytes_to_str s = Err E_FORMAT.
Proof. intros N. unfold bytes_to_str. now rewrite (position_nul_none s N). Qed.

Lemma utf8_step a r :
  utf8_valid (a :: r) =
      if rng 0 0x7F a then utf8_valid r
      else match r with
      | [] => false
      | b :: r2 =>
          if rng 0xC2 0xDF a then cont b && utf8_valid r2
          else match r2 with
          | [] => false
          | c :: r3 =>
              if a =? 0xE0 then rng 0xA0 0xBF b && cont c && utf8_valid r3
              else if rng 0xE1 0xEC a then cont b && cont c && utf8_valid r3
              else if a =? 0xED then rng 0x80 0x9F b && cont c && utf8_valid r3
              else if rng 0xEE 0xEF a then cont b && cont c && utf8_valid r3
              else match r3 with
              | [] => false
              | d :: r4 =>
                  if a =? 0xF0 then rng 0x90 0xBF b && cont c && cont d && utf8_valid r4
                  else if rng 0xF1 0xF3 a then cont b && cont c && cont d && utf8_valid r4
                  else if a =? 0xF4 then rng 0x80 0x8F b && cont c && cont d && utf8_valid r4
                  else false
              end
          end
      end.
Proof. reflexivity. Qed.

Ltac split_ifs H :=
  repeat match type of H with context [if ?c then _ else _] => destruct c end.
Ltac ands H :=
  repeat match goal with
  | X : _ && _ = true |- _ => apply andb_prop in X as [? ?]
  end.

Ltac fin IH q :=
  ands tt; repeat first [assumption | apply andb_true_intro; split]; apply IH with q; [lia|assumption].

(* a NUL byte can only follow a complete character: cutting well-formed UTF-8 at a NUL
   leaves well-formed UTF-8 *)
Lemma utf8_prefix_nul n : forall p q, (length p <= n)%nat ->
  utf8_valid (p ++ 0 :: q) = true -> utf8_valid p = true.
Proof.
  induction n as [|n IH]; intros p q L H.
  - destruct p; [reflexivity|cbn in L; lia].
  - destruct p as [|a p]; [reflexivity|]. cbn [length] in L.
    change ((a :: p) ++ 0 :: q) with (a :: (p ++ 0 :: q)) in H.
    rewrite utf8_step in H. rewrite utf8_step.
    destruct (rng 0 127 a). { apply IH with q; [lia|exact H]. }
    destruct p as [|b p]; cbn [app length] in *.
    { exfalso. destruct q as [|c q]; [split_ifs H; cbn in H; discriminate|].
      destruct q as [|d q]; split_ifs H; cbn in H; discriminate. }
    destruct (rng 194 223 a).
    { fin IH q. }
    destruct p as [|c p]; cbn [app length] in *.
    { exfalso. destruct q as [|d q]; split_ifs H; cbn in H; rewrite ?Bool.andb_false_r in H; cbn in H; try discriminate. }
    destruct (a =? 224). { fin IH q. }
    destruct (rng 225 236 a). { fin IH q. }
    destruct (a =? 237). { fin IH q. }
    destruct (rng 238 239 a). { fin IH q. }
    destruct p as [|d p]; cbn [app length] in *.
    { exfalso. split_ifs H; cbn in H; rewrite ?Bool.andb_false_r in H; cbn in H; try discriminate. }
    destruct (a =? 240). { fin IH q. }
    destruct (rng 241 243 a). { fin IH q. }
    destruct (a =? 244). { fin IH q. }
    discriminate.
Qed.

Lemma position_nul_split s n : position_nul s = Some n ->
  s = firstn n s ++ 0 :: skipn (S n) s.
Proof.
  revert n. induction s as [|x r IH]; intros n H; cbn in H; [discriminate|].
  destruct (Z.eqb_spec x 0) as [->|N].
  - inversion H. reflexivity.
  - destruct (position_nul r) as [k|] eqn:E; [|discriminate]. inversion H. subst n.
    cbn. f_equal. now apply IH.
Qed.

