(* C26 — proofs about the model of Decimal / storage conversion / Pyth conversion. *)
From Coq Require Import Sorted.
From GV Require Import lib.Base lib.DivLemmas C01.Model C01.Proofs C26.Model.
Open Scope Z_scope.
Ltac Zify.zify_post_hook ::= Z.div_mod_to_equations.


Lemma pow10_pos e : 0 < 10 ^ e \/ e < 0.
Proof. destruct (Z_lt_le_dec e 0); [right; lia|left; apply Z.pow_pos_nonneg; lia]. Qed.
Lemma pow10_pos' e : 0 <= e -> 0 < 10 ^ e.
Proof. intros; apply Z.pow_pos_nonneg; lia. Qed.
Lemma pow10_sum a b : 0 <= a -> 0 <= b -> 10 ^ (a + b) = 10 ^ a * 10 ^ b.
Proof. intros; apply Z.pow_add_r; lia. Qed.
Lemma pow10_le a b : 0 <= a <= b -> 10 ^ a <= 10 ^ b.
Proof. intros; apply Z.pow_le_mono_r; lia. Qed.

(* the target value, in the two shapes the code computes it *)
Definition trunc_value (price d p : Z) : Z := price * 10 ^ p / 10 ^ d.

Lemma trunc_le price d p : 0 <= d <= p -> trunc_value price d p = price * 10 ^ (p - d).
Proof.
  intros H. unfold trunc_value. replace p with ((p - d) + d) at 1 by lia.
  rewrite pow10_sum by lia. rewrite Z.mul_assoc. apply Z.div_mul. pose proof (pow10_pos' d); lia.
Qed.
Lemma trunc_gt price d p : 0 <= p <= d -> trunc_value price d p = price / 10 ^ (d - p).
Proof.
  intros H. unfold trunc_value. replace d with ((d - p) + p) at 1 by lia.
  rewrite pow10_sum by lia. apply Z.div_mul_cancel_r; pose proof (pow10_pos' p); pose proof (pow10_pos' (d-p)); lia.
Qed.

Definition decs_ok (d td p : Z) : bool :=
  (d <=? 20) && (td <=? 20) && (p <=? 20) && (td + p <=? 20).

Lemma two128 : 2 ^ 128 = 340282366920938463463374607431768211456. Proof. reflexivity. Qed.
Lemma two32 : 2 ^ 32 = 4294967296. Proof. reflexivity. Qed.
Lemma ten20 : 10 ^ 20 = 100000000000000000000. Proof. reflexivity. Qed.

Lemma umul_ok a b : 0 <= a -> 0 <= b -> a * b < 2 ^ 128 -> umul 128 a b = Some (a * b).
Proof. intros. unfold umul. apply chk_u_some. nia. Qed.
Lemma umul_ov a b : 2 ^ 128 <= a * b -> umul 128 a b = None.
Proof. intros. unfold umul. apply chk_u_none. lia. Qed.

Ltac side := solve [ lia | apply Z.lt_le_incl, pow10_pos'; lia ].
(* The whole function as one equation: the value is the exact truncation, the only
   failures are the decimal guards (Err 1) and a truncation that does not fit u32 (Err 2);
   an overflowing intermediate u128 product always implies the latter. *)
Theorem try_from_price_eq price d td p :
  0 <= price < 2 ^ 128 -> 0 <= d -> 0 <= td -> 0 <= p ->
  try_from_price price d td p =
    if decs_ok d td p then
      let T := trunc_value price d p in
      if T <? 2 ^ 32 then Ok (T, 20 - td - p) else Err 2
    else Err 1.
Proof.
  intros Hp Hd Htd Hpp. unfold try_from_price, decs_ok, MAX_DECIMALS.
  destruct (20 <? td) eqn:E1; [replace (td <=? 20) with false by lia; rewrite !andb_false_r; reflexivity|].
  destruct (20 <? p) eqn:E2; [replace (p <=? 20) with false by lia; rewrite !andb_false_r; reflexivity|].
  destruct (20 <? d) eqn:E3; [replace (d <=? 20) with false by lia; reflexivity|].
  cbn [orb]. destruct (20 <? td + p) eqn:E4; [replace (td + p <=? 20) with false by lia; rewrite !andb_false_r; reflexivity|].
  replace (d <=? 20) with true by lia. replace (td <=? 20) with true by lia.
  replace (p <=? 20) with true by lia. replace (td + p <=? 20) with true by lia. cbn [andb].
  cbv zeta.
  replace (2 * td + (20 - td - p) <=? 20) with (td <=? p) by lia.
  replace (20 - (2 * td + (20 - td - p))) with (p - td) by lia.
  replace (2 * td + (20 - td - p) - 20) with (td - p) by lia.
  assert (T0 : 0 <= trunc_value price d p).
  { unfold trunc_value. apply div_nonneg. pose proof (pow10_pos' p); nia. apply pow10_pos'; lia. }
  assert (BIG : 2 ^ 128 >= 2 ^ 32 * 10 ^ 20) by (rewrite two128, two32, ten20; lia).
  (* final step shared by all branches that produced the exact value *)
  assert (FIN : forall v, v = trunc_value price d p ->
     (v32 <-- of_opt 2 (chk_u 32 v);; Ok (v32, 20 - td - p)) =
     (if trunc_value price d p <? 2 ^ 32 then Ok (trunc_value price d p, 20 - td - p) else Err 2)).
  { intros v ->. destruct (trunc_value price d p <? 2 ^ 32) eqn:E.
    - replace (chk_u 32 (trunc_value price d p)) with (Some (trunc_value price d p)) by (symmetry; apply chk_u_some; lia). reflexivity.
    - replace (chk_u 32 (trunc_value price d p)) with (@None Z) by (symmetry; apply chk_u_none; lia). reflexivity. }
  (* an overflowing u128 product means the value is far above u32 *)
  destruct (d =? td) eqn:Edt.
  - (* equal *) assert (d = td) by lia. subst td. cbn [rbind fst snd].
    destruct (d <=? p) eqn:Edp.
    + pose proof (trunc_le price d p ltac:(lia)) as HT.
      destruct (Z_lt_le_dec (price * 10 ^ (p - d)) (2 ^ 128)).
      * rewrite umul_ok by side. cbn [of_opt rbind]. apply FIN. lia.
      * rewrite umul_ov by lia. cbn [of_opt rbind]. replace (trunc_value price d p <? 2 ^ 32) with false by lia. reflexivity.
    + pose proof (trunc_gt price d p ltac:(lia)) as HT. cbn [rbind]. apply FIN. lia.
  - destruct (d <? td) eqn:Elt.
    + (* less *)
      destruct (Z_lt_le_dec (price * 10 ^ (td - d)) (2 ^ 128)) as [L|L].
      * rewrite umul_ok by side. cbn [of_opt rbind fst snd].
        destruct (td <=? p) eqn:Etp.
        -- pose proof (trunc_le price d p ltac:(lia)) as HT.
           assert (EQ : price * 10 ^ (td - d) * 10 ^ (p - td) = price * 10 ^ (p - d)).
           { rewrite <- Z.mul_assoc, <- pow10_sum by lia. f_equal. f_equal. lia. }
           destruct (Z_lt_le_dec (price * 10 ^ (p - d)) (2 ^ 128)).
           ++ rewrite umul_ok; [| pose proof (pow10_pos' (td-d)); nia | apply Z.lt_le_incl, pow10_pos'; lia | lia].
              cbn [of_opt rbind]. apply FIN. lia.
           ++ rewrite umul_ov by lia. cbn [of_opt rbind]. replace (trunc_value price d p <? 2 ^ 32) with false by lia. reflexivity.
        -- cbn [rbind]. apply FIN.
           destruct (Z_le_gt_dec d p).
           ++ rewrite (trunc_le price d p) by lia.
              replace (td - d) with ((p - d) + (td - p)) by lia. rewrite pow10_sum by lia.
              rewrite Z.mul_assoc. apply Z.div_mul. pose proof (pow10_pos' (td - p)); lia.
           ++ rewrite (trunc_gt price d p) by lia.
              replace (td - p) with ((d - p) + (td - d)) by lia. rewrite pow10_sum by lia.
              apply Z.div_mul_cancel_r; [pose proof (pow10_pos' (d - p)) | pose proof (pow10_pos' (td - d))]; lia.
      * rewrite umul_ov by lia. cbn [of_opt rbind].
        assert (2 ^ 32 <= trunc_value price d p); [| replace (trunc_value price d p <? 2 ^ 32) with false by lia; reflexivity].
        unfold trunc_value. apply Z.div_le_lower_bound; [apply pow10_pos'; lia|].
        pose proof (pow10_le (td - d) (20 - d) ltac:(lia)).
        assert (10 ^ 20 = 10 ^ (20 - d) * 10 ^ d) by (rewrite <- pow10_sum by lia; f_equal; lia).
        pose proof (pow10_pos' d Hd). pose proof (pow10_pos' p Hpp). pose proof (pow10_pos' (20 - d)).
        assert (2 ^ 128 <= price * 10 ^ (20 - d)) by nia.
        assert (2 ^ 32 * 10 ^ d * 10 ^ (20 - d) <= price * 10 ^ (20 - d)) by nia.
        assert (2 ^ 32 * 10 ^ d <= price) by nia. nia.
    + (* greater *) cbn [rbind fst snd].
      destruct (td <=? p) eqn:Etp.
      * destruct (d - td <=? p - td) eqn:Ede.
        -- pose proof (trunc_le price d p ltac:(lia)) as HT.
           replace (p - td - (d - td)) with (p - d) by lia.
           destruct (Z_lt_le_dec (price * 10 ^ (p - d)) (2 ^ 128)).
           ++ rewrite umul_ok by side. cbn [of_opt rbind]. apply FIN. lia.
           ++ rewrite umul_ov by lia. cbn [of_opt rbind]. replace (trunc_value price d p <? 2 ^ 32) with false by lia. reflexivity.
        -- replace (d - td - (p - td)) with (d - p) by lia. cbn [rbind]. apply FIN. rewrite trunc_gt by lia. reflexivity.
      * cbn [rbind]. apply FIN. rewrite trunc_gt by lia.
        rewrite Z.div_div by (try apply pow10_pos'; try (pose proof (pow10_pos' (td-p)); lia); lia).
        rewrite <- pow10_sum by lia. f_equal. f_equal. lia.
Qed.


(* ---------- consequences of the equation ---------- *)
Section TFP.
  Variables price d td p : Z.
  Hypothesis Hp : 0 <= price < 2 ^ 128.
  Hypothesis Hd : 0 <= d. Hypothesis Htd : 0 <= td. Hypothesis Hpp : 0 <= p.

  Lemma decs_ok_iff : decs_ok d td p = true <-> (d <= 20 /\ td <= 20 /\ p <= 20 /\ td + p <= 20).
  Proof. unfold decs_ok. rewrite !andb_true_iff, !Z.leb_le. tauto. Qed.

  Theorem try_from_price_ok v m :
    try_from_price price d td p = Ok (v, m) <->
    (d <= 20 /\ td <= 20 /\ p <= 20 /\ td + p <= 20) /\
    v = price * 10 ^ p / 10 ^ d /\ v < 2 ^ 32 /\ m = 20 - td - p.
  Proof.
    rewrite try_from_price_eq by assumption. rewrite <- decs_ok_iff. fold (trunc_value price d p).
    destruct (decs_ok d td p); cbv zeta.
    - destruct (trunc_value price d p <? 2 ^ 32) eqn:E; split.
      + intros H; injection H as <- <-. repeat split; lia.
      + intros (_ & -> & _ & ->). reflexivity.
      + discriminate.
      + intros (_ & -> & ? & _). lia.
    - split; [discriminate|]. intros [? _]. discriminate.
  Qed.

  Theorem try_from_price_err e :
    try_from_price price d td p = Err e <->
    (e = 1 /\ ~ (d <= 20 /\ td <= 20 /\ p <= 20 /\ td + p <= 20)) \/
    (e = 2 /\ (d <= 20 /\ td <= 20 /\ p <= 20 /\ td + p <= 20) /\ 2 ^ 32 <= price * 10 ^ p / 10 ^ d).
  Proof.
    rewrite try_from_price_eq by assumption. rewrite <- decs_ok_iff. fold (trunc_value price d p).
    destruct (decs_ok d td p); cbv zeta.
    - destruct (trunc_value price d p <? 2 ^ 32) eqn:E; split.
      + discriminate.
      + intros [[_ H]|(_ & _ & H)]; [exfalso; apply H; reflexivity|lia].
      + intros H; injection H as <-. right. repeat split; lia.
      + intros [[_ H]|(-> & _ & H)]; [exfalso; apply H; reflexivity|reflexivity].
    - split.
      + intros H; injection H as <-. left. split; [reflexivity|discriminate].
      + intros [[-> _]|(_ & H & _)]; [reflexivity|discriminate].
  Qed.

  (* the stored value is the floor: never above, less than one unit below *)
  Theorem try_from_price_floor v m :
    try_from_price price d td p = Ok (v, m) ->
    0 <= v < 2 ^ 32 /\ v * 10 ^ d <= price * 10 ^ p < (v + 1) * 10 ^ d.
  Proof.
    intros H. apply try_from_price_ok in H. destruct H as (_ & -> & Hlt & _).
    pose proof (pow10_pos' d Hd). pose proof (pow10_pos' p Hpp).
    pose proof (div_floor_spec (price * 10 ^ p) (10 ^ d) ltac:(lia)).
    assert (0 <= price * 10 ^ p / 10 ^ d) by (apply div_nonneg; nia). lia.
  Qed.

  (* unit price = value * 10^multiplier never exceeds the exact unit price
     price * 10^(20 - d - td) and is less than one step 10^multiplier below it
     (both sides multiplied by 10^(d+td) to stay in Z) *)
  Theorem unit_price_never_rounds_up v m :
    try_from_price price d td p = Ok (v, m) ->
    to_unit_price v m = Some (v * 10 ^ m) /\
    0 <= m <= 20 /\
    v * 10 ^ m * 10 ^ (d + td) <= price * 10 ^ 20 < (v * 10 ^ m + 10 ^ m) * 10 ^ (d + td).
  Proof.
    intros H. pose proof (try_from_price_floor _ _ H) as (Hv & Hf).
    apply try_from_price_ok in H. destruct H as ((D1 & D2 & D3 & D4) & _ & _ & ->).
    pose proof (pow10_pos' (20 - td - p) ltac:(lia)).
    pose proof (pow10_le (20 - td - p) 20 ltac:(lia)).
    split; [|split; [lia|]].
    - unfold to_unit_price, multiplier.
      replace (chk_u 128 (10 ^ (20 - td - p))) with (Some (10 ^ (20 - td - p)))
        by (symmetry; apply chk_u_some; rewrite two128; rewrite ten20 in *; lia).
      cbn [obind]. apply chk_u_some. rewrite two128, two32, ten20 in *. nia.
    - assert (E1 : 10 ^ (20 - td - p) * 10 ^ (d + td) = 10 ^ d * 10 ^ (20 - p)).
      { rewrite <- !pow10_sum by lia. f_equal. lia. }
      assert (E2 : 10 ^ 20 = 10 ^ p * 10 ^ (20 - p)).
      { rewrite <- !pow10_sum by lia. f_equal. lia. }
      pose proof (pow10_pos' (20 - p) ltac:(lia)).
      rewrite E2. nia.
  Qed.
End TFP.

(* truncation is monotone in the price: min <= max is preserved *)
Lemma try_from_price_mono p1 p2 d td p v1 m1 v2 m2 :
  0 <= p1 <= p2 -> p2 < 2 ^ 128 -> 0 <= d -> 0 <= td -> 0 <= p ->
  try_from_price p1 d td p = Ok (v1, m1) -> try_from_price p2 d td p = Ok (v2, m2) ->
  v1 <= v2 /\ m1 = m2.
Proof.
  intros H1 H2 Hd Htd Hp A B. apply try_from_price_ok in A; try lia. apply try_from_price_ok in B; try lia.
  destruct A as (_ & -> & _ & ->), B as (_ & -> & _ & ->). split; [|reflexivity].
  apply Z.div_le_mono; [apply pow10_pos'; lia|]. pose proof (pow10_pos' p Hp). nia.
Qed.

(* try_to_price *)
Theorem try_to_price_ok mn mx d td p a b :
  0 <= mn < 2 ^ 128 -> 0 <= mx < 2 ^ 128 -> 0 <= d -> 0 <= td -> 0 <= p ->
  try_to_price mn mx d td p = Ok (a, b) <->
  try_from_price mn d td p = Ok a /\ try_from_price mx d td p = Ok b.
Proof.
  intros. unfold try_to_price. destruct (try_from_price mn d td p) as [x|e]; cbn [rbind].
  - destruct (try_from_price mx d td p) as [y|e]; cbn [rbind]; split.
    + intros E; injection E as <- <-. auto.
    + intros [E1 E2]. injection E1 as <-. injection E2 as <-. reflexivity.
    + discriminate.
    + intros [_ E]; discriminate.
  - split; [discriminate|intros [E _]; discriminate].
Qed.

(* ---------- to_unit_price / with_unit_price ---------- *)
Lemma ten38 : 10 ^ 38 = 100000000000000000000000000000000000000. Proof. reflexivity. Qed.
Lemma ten39 : 10 ^ 39 = 1000000000000000000000000000000000000000. Proof. reflexivity. Qed.

Lemma multiplier_some m : 0 <= m <= 38 -> multiplier m = Some (10 ^ m).
Proof.
  intros H. unfold multiplier. apply chk_u_some. split; [|reflexivity].
  pose proof (pow10_pos' m ltac:(lia)). pose proof (pow10_le m 38 ltac:(lia)). rewrite two128, ten38 in *. lia.
Qed.
Lemma multiplier_none m : 39 <= m -> multiplier m = None.
Proof.
  intros H. unfold multiplier. apply chk_u_none. right.
  pose proof (pow10_le 39 m ltac:(lia)). rewrite two128, ten39 in *. lia.
Qed.

Theorem to_unit_price_spec v m u : 0 <= v -> 0 <= m ->
  to_unit_price v m = Some u <-> (u = v * 10 ^ m /\ m <= 38 /\ v * 10 ^ m < 2 ^ 128).
Proof.
  intros Hv Hm. unfold to_unit_price. destruct (Z_le_gt_dec m 38).
  - rewrite multiplier_some by lia. cbn [obind]. rewrite chk_u_some.
    pose proof (pow10_pos' m Hm). split; [intros [? ->]|intros (-> & ? & ?)]; repeat split; try lia; nia.
  - rewrite multiplier_none by lia. cbn [obind]. split; [discriminate|lia].
Qed.

Lemma div_ceil_spec a mu : 0 < mu -> mu * (div_ceil a mu - 1) < a <= mu * div_ceil a mu.
Proof. intros H. unfold div_ceil. destruct (0 <? a mod mu) eqn:E; lia. Qed.

Theorem with_unit_price_floor m price v : 0 <= m <= 38 -> 0 <= price ->
  with_unit_price m price false = Ok v <-> (v = price / 10 ^ m /\ v < 2 ^ 32).
Proof.
  intros Hm Hp. unfold with_unit_price. rewrite multiplier_some by lia.
  pose proof (pow10_pos' m ltac:(lia)). assert (0 <= price / 10 ^ m) by (apply div_nonneg; lia).
  destruct (chk_u 32 (price / 10 ^ m)) eqn:E; cbn [of_opt].
  - apply chk_u_some in E. destruct E as [E ->]. split; [intros X; injection X as <-; lia|intros [-> _]; reflexivity].
  - apply chk_u_none in E. split; [discriminate|lia].
Qed.

Theorem with_unit_price_ceil m price v : 0 <= m <= 38 -> 0 <= price ->
  with_unit_price m price true = Ok v ->
  0 <= v < 2 ^ 32 /\ (v - 1) * 10 ^ m < price <= v * 10 ^ m.
Proof.
  intros Hm Hp. unfold with_unit_price. rewrite multiplier_some by lia.
  pose proof (pow10_pos' m ltac:(lia)). pose proof (div_ceil_spec price (10 ^ m) ltac:(lia)).
  destruct (chk_u 32 (div_ceil price (10 ^ m))) eqn:E; cbn [of_opt]; [|discriminate].
  apply chk_u_some in E. destruct E as [E ->]. intros X; injection X as <-. lia.
Qed.

Theorem with_unit_price_none m price ru : 0 <= m <= 38 -> 0 <= price ->
  with_unit_price m price ru = Err 1 <->
  (if ru then (2 ^ 32 - 1) * 10 ^ m < price else 2 ^ 32 * 10 ^ m <= price).
Proof.
  intros Hm Hp. unfold with_unit_price. rewrite multiplier_some by lia.
  pose proof (pow10_pos' m ltac:(lia)). pose proof (div_ceil_spec price (10 ^ m) ltac:(lia)).
  assert (0 <= price / 10 ^ m) by (apply div_nonneg; lia).
  pose proof (div_floor_spec price (10 ^ m) ltac:(lia)).
  destruct ru.
  - destruct (chk_u 32 (div_ceil price (10 ^ m))) eqn:E; cbn [of_opt].
    + apply chk_u_some in E. split; [discriminate|]. nia.
    + apply chk_u_none in E. split; [intros _|reflexivity]. assert (0 <= div_ceil price (10^m)) by nia. nia.
  - destruct (chk_u 32 (price / 10 ^ m)) eqn:E; cbn [of_opt].
    + apply chk_u_some in E. split; [discriminate|]. nia.
    + apply chk_u_none in E. split; [intros _|reflexivity]. nia.
Qed.

Theorem with_unit_price_total m price ru : 0 <= m -> 0 <= price ->
  with_unit_price m price ru = Err 9 <-> 39 <= m.
Proof.
  intros Hm Hp. unfold with_unit_price. destruct (Z_le_gt_dec m 38).
  - rewrite multiplier_some by lia. split; [|lia].
    destruct (chk_u 32 _); cbn [of_opt]; discriminate.
  - rewrite multiplier_none by lia. split; [lia|reflexivity].
Qed.

(* round trip: a representable decimal is reproduced exactly in both rounding directions *)
Theorem with_unit_price_roundtrip v m ru : 0 <= v < 2 ^ 32 -> 0 <= m <= 38 -> v * 10 ^ m < 2 ^ 128 ->
  to_unit_price v m = Some (v * 10 ^ m) /\ with_unit_price m (v * 10 ^ m) ru = Ok v.
Proof.
  intros Hv Hm Hf. split; [apply to_unit_price_spec; lia|].
  unfold with_unit_price. rewrite multiplier_some by lia. pose proof (pow10_pos' m ltac:(lia)).
  assert (E1 : v * 10 ^ m / 10 ^ m = v) by (apply Z.div_mul; lia).
  assert (E2 : (v * 10 ^ m) mod 10 ^ m = 0) by (apply Z.mod_mul; lia).
  unfold div_ceil. rewrite E1, E2. cbn [Z.ltb Z.compare].
  destruct ru; replace (chk_u 32 v) with (Some v) by (symmetry; apply chk_u_some; lia); reflexivity.
Qed.


(* ---------- find_divisor_decimals ---------- *)
Definition M128 : Z := 2 ^ 128 - 1.

(* the literal table is (2^128 - 1) * 10^i, i = 0..19 *)
Lemma power_bounds_table :
  power_bounds = map (fun i => M128 * 10 ^ Z.of_nat i) (seq 0 20).
Proof. vm_compute. reflexivity. Qed.

Lemma power_bounds_nth k : 0 <= k <= 19 -> nth (Z.to_nat k) power_bounds 0 = M128 * 10 ^ k.
Proof.
  intros H. rewrite power_bounds_table.
  assert (C : k = 0 \/ k = 1 \/ k = 2 \/ k = 3 \/ k = 4 \/ k = 5 \/ k = 6 \/ k = 7 \/ k = 8 \/ k = 9 \/
          k = 10 \/ k = 11 \/ k = 12 \/ k = 13 \/ k = 14 \/ k = 15 \/ k = 16 \/ k = 17 \/ k = 18 \/ k = 19) by lia.
  repeat (destruct C as [->|C]; [reflexivity|]). subst k. reflexivity.
Qed.

(* on a strictly increasing list the number of entries below the key is the
   index of the first entry >= key *)
Fixpoint first_ge (num : Z) (l : list Z) : Z :=
  match l with
  | [] => 0
  | b :: r => if b <? num then 1 + first_ge num r else 0
  end.

Lemma count_below_nonneg num l : 0 <= count_below num l <= Z.of_nat (length l).
Proof. induction l as [|b r IH]; cbn [count_below length]; [lia|]. destruct (b <? num); lia. Qed.

Lemma count_below_zero num l : Forall (fun b => num <= b) l -> count_below num l = 0.
Proof. induction 1 as [|b r Hb _ IH]; cbn [count_below]; [reflexivity|]. replace (b <? num) with false by lia. lia. Qed.

Lemma count_below_first_ge num l : StronglySorted Z.lt l -> count_below num l = first_ge num l.
Proof.
  induction 1 as [|b r Hs IH Hb]; cbn [count_below first_ge]; [reflexivity|].
  destruct (b <? num) eqn:E; [lia|].
  rewrite count_below_zero; [reflexivity|]. eapply Forall_impl; [|exact Hb]. cbn. intros; lia.
Qed.

Lemma first_ge_spec num l : let k := first_ge num l in
  0 <= k <= Z.of_nat (length l) /\
  (forall i, 0 <= i < k -> nth (Z.to_nat i) l 0 < num) /\
  (k < Z.of_nat (length l) -> num <= nth (Z.to_nat k) l 0).
Proof.
  induction l as [|b r IH]; cbn [first_ge length].
  - cbv zeta. repeat split; try lia.
  - cbv zeta in *. destruct (b <? num) eqn:E.
    + destruct IH as (I1 & I2 & I3). repeat split; try lia.
      * intros i Hi. destruct (Z.eq_dec i 0) as [->|]; [cbn; lia|].
        replace (Z.to_nat i) with (S (Z.to_nat (i - 1))) by lia. cbn [nth]. apply I2. lia.
      * intros Hk. replace (Z.to_nat (1 + first_ge num r)) with (S (Z.to_nat (first_ge num r))) by lia.
        cbn [nth]. apply I3. lia.
    + repeat split; try lia. intros _. cbn. lia.
Qed.

Lemma power_bounds_sorted : StronglySorted Z.lt power_bounds.
Proof.
  repeat (apply SSorted_cons; [|repeat (apply Forall_cons; [vm_compute; reflexivity|]); apply Forall_nil]).
  apply SSorted_nil.
Qed.

Theorem find_divisor_decimals_spec num : 0 <= num ->
  let k := find_divisor_decimals num in
  0 <= k <= 20 /\
  (k <= 19 -> num <= M128 * 10 ^ k) /\
  (1 <= k -> M128 * 10 ^ (k - 1) < num).
Proof.
  intros Hn. unfold find_divisor_decimals. rewrite count_below_first_ge by apply power_bounds_sorted.
  pose proof (first_ge_spec num power_bounds) as H. cbv zeta in *.
  set (k := first_ge num power_bounds) in *. change (Z.of_nat (length power_bounds)) with 20 in H.
  destruct H as (H1 & H2 & H3). split; [lia|split].
  - intros Hk. rewrite <- power_bounds_nth by lia. apply H3. lia.
  - intros Hk. rewrite <- power_bounds_nth by lia. apply H2. lia.
Qed.

Lemma two192_bound : 2 ^ 192 <= 2 ^ 128 * 10 ^ 20. Proof. vm_compute. discriminate. Qed.

(* the quotient always fits u128 *)
Theorem find_divisor_decimals_fits num : 0 <= num < 2 ^ 192 ->
  0 <= num / 10 ^ find_divisor_decimals num < 2 ^ 128.
Proof.
  intros Hn. pose proof (find_divisor_decimals_spec num ltac:(lia)) as (K1 & K2 & K3). cbv zeta in *.
  set (k := find_divisor_decimals num) in *. pose proof (pow10_pos' k ltac:(lia)).
  split; [apply div_nonneg; lia|]. apply Z.div_lt_upper_bound; [lia|].
  destruct (Z_le_gt_dec k 19).
  - specialize (K2 ltac:(lia)). unfold M128 in K2. nia.
  - assert (k = 20) by lia. pose proof two192_bound. replace k with 20 in * by lia. nia.
Qed.

(* minimality: no smaller digit count fits, except that k-1 fits when the quotient
   by 10^(k-1) is exactly u128::MAX (with a non-zero remainder) *)
Theorem find_divisor_decimals_near_minimal num j : 0 <= num -> 0 <= j ->
  let k := find_divisor_decimals num in
  (j <= k - 2 -> 2 ^ 128 <= num / 10 ^ j) /\
  (j = k - 1 -> 2 ^ 128 - 1 <= num / 10 ^ j).
Proof.
  intros Hn Hj. pose proof (find_divisor_decimals_spec num Hn) as (K1 & K2 & K3). cbv zeta in *.
  set (k := find_divisor_decimals num) in *. split; intros Hjk.
  - specialize (K3 ltac:(lia)). apply Z.div_le_lower_bound; [apply pow10_pos'; lia|].
    assert (E : 10 ^ (k - 1) = 10 ^ j * 10 ^ (k - 1 - j)) by (rewrite <- pow10_sum by lia; f_equal; lia).
    pose proof (pow10_pos' j Hj). pose proof (pow10_le 1 (k - 1 - j) ltac:(lia)). change (10 ^ 1) with 10 in *.
    unfold M128 in K3. rewrite E in K3. rewrite two128 in *. nia.
  - subst j. specialize (K3 ltac:(lia)). apply Z.div_le_lower_bound; [apply pow10_pos'; lia|].
    unfold M128 in K3. lia.
Qed.

(* a non-minimal answer really occurs (documented "minimum" is off by one on this band) *)
Lemma find_divisor_decimals_not_minimal_witness :
  let num := (2 ^ 128 - 1) * 10 + 5 in
  find_divisor_decimals num = 2 /\ num / 10 ^ 1 < 2 ^ 128.
Proof. vm_compute. split; reflexivity. Qed.

(* ---------- convert_to_u128_storage ---------- *)
Theorem convert_to_u128_storage_spec num decimals : 0 <= num < 2 ^ 192 -> 0 <= decimals ->
  let k := find_divisor_decimals num in
  convert_to_u128_storage num decimals =
    if decimals <? k then Err 1 else Ok (num / 10 ^ k, decimals - k).
Proof.
  intros Hn Hd. cbv zeta. unfold convert_to_u128_storage.
  destruct (decimals <? find_divisor_decimals num); [reflexivity|].
  pose proof (find_divisor_decimals_fits num Hn).
  replace (chk_u 128 (num / 10 ^ find_divisor_decimals num)) with (Some (num / 10 ^ find_divisor_decimals num))
    by (symmetry; apply chk_u_some; lia). reflexivity.
Qed.

Theorem convert_to_u128_storage_sound num decimals q d' : 0 <= num < 2 ^ 192 -> 0 <= decimals ->
  convert_to_u128_storage num decimals = Ok (q, d') ->
  let k := decimals - d' in
  0 <= k <= 20 /\ 0 <= d' /\ 0 <= q < 2 ^ 128 /\ q * 10 ^ k <= num < (q + 1) * 10 ^ k.
Proof.
  intros Hn Hd. rewrite convert_to_u128_storage_spec by assumption. cbv zeta.
  destruct (decimals <? find_divisor_decimals num) eqn:E; [discriminate|].
  intros X; injection X as <- <-.
  pose proof (find_divisor_decimals_spec num ltac:(lia)) as (K1 & _). cbv zeta in K1.
  pose proof (find_divisor_decimals_fits num Hn).
  replace (decimals - (decimals - find_divisor_decimals num)) with (find_divisor_decimals num) by lia.
  pose proof (pow10_pos' (find_divisor_decimals num) ltac:(lia)).
  pose proof (div_floor_spec num (10 ^ find_divisor_decimals num) ltac:(lia)). repeat split; lia.
Qed.

Theorem convert_to_u128_storage_never_panics num decimals : 0 <= num < 2 ^ 192 -> 0 <= decimals ->
  convert_to_u128_storage num decimals <> Err 9.
Proof.
  intros Hn Hd. rewrite convert_to_u128_storage_spec by assumption. cbv zeta.
  destruct (decimals <? find_divisor_decimals num); discriminate.
Qed.

Theorem convert_to_u128_storage_none num decimals : 0 <= num < 2 ^ 192 -> 0 <= decimals <= 19 ->
  convert_to_u128_storage num decimals = Err 1 <-> M128 * 10 ^ decimals < num.
Proof.
  intros Hn Hd. rewrite convert_to_u128_storage_spec by lia. cbv zeta.
  pose proof (find_divisor_decimals_spec num ltac:(lia)) as (K1 & K2 & K3). cbv zeta in *.
  set (k := find_divisor_decimals num) in *.
  destruct (decimals <? k) eqn:E.
  - split; [intros _|reflexivity]. specialize (K3 ltac:(lia)).
    pose proof (pow10_le decimals (k - 1) ltac:(lia)). unfold M128 in *. rewrite two128 in *. nia.
  - split; [discriminate|]. intros H. exfalso. specialize (K2 ltac:(lia)).
    pose proof (pow10_le k decimals ltac:(lia)). unfold M128 in *. rewrite two128 in *. nia.
Qed.


(* ---------- Pyth ---------- *)
Lemma ten19 : 10 ^ 19 = 10000000000000000000. Proof. reflexivity. Qed.
Lemma two64 : 2 ^ 64 = 18446744073709551616. Proof. reflexivity. Qed.
Ltac rng := rewrite two128; rewrite two64 in *; nia.

(* the guard in the model is 10u64.checked_pow *)
Lemma pow10_u64_spec e : 0 <= e -> pow10_u64 e = chk_u 64 (10 ^ e).
Proof.
  intros He. unfold pow10_u64. destruct (19 <? e) eqn:E; [|reflexivity].
  symmetry. apply chk_u_none. right. pose proof (pow10_le 20 e ltac:(lia)). rewrite two64. rewrite ten20 in *. lia.
Qed.
Lemma pow10_u64_some e : 0 <= e <= 19 -> pow10_u64 e = Some (10 ^ e).
Proof.
  intros He. unfold pow10_u64. replace (19 <? e) with false by lia. apply chk_u_some. split; [|reflexivity].
  pose proof (pow10_pos' e ltac:(lia)). pose proof (pow10_le e 19 ltac:(lia)). rewrite two64. rewrite ten19 in *. lia.
Qed.

Definition map_err7 (r : res (Z * Z)) : res (Z * Z) := match r with Ok x => Ok x | Err _ => Err 7 end.

Theorem pyth_value_to_decimal_spec value e td p :
  0 <= value < 2 ^ 64 -> - 2 ^ 31 <= e < 2 ^ 31 ->
  pyth_value_to_decimal value e td p =
    if e =? - 2 ^ 31 then Err 9
    else if e <? -255 then Err 4
    else if e <=? 0 then map_err7 (try_from_price value (- e) td p)
    else if 20 <=? e then Err 5
    else if 2 ^ 64 <=? value * 10 ^ e then Err 6
    else map_err7 (try_from_price (value * 10 ^ e) 0 td p).
Proof.
  intros Hv He. unfold pyth_value_to_decimal.
  destruct (e =? - 2 ^ 31) eqn:E0.
  - replace (e <=? 0) with true by lia.
    replace (chk_s 32 (- e)) with (@None Z) by (symmetry; apply chk_s_none; change (2 ^ (32 - 1)) with (2 ^ 31); lia).
    reflexivity.
  - destruct (e <? -255) eqn:E1.
    + replace (e <=? 0) with true by lia.
      replace (chk_s 32 (- e)) with (Some (- e)) by (symmetry; apply chk_s_some; change (2 ^ (32 - 1)) with (2 ^ 31); lia).
      replace (chk_u 8 (- e)) with (@None Z) by (symmetry; apply chk_u_none; change (2 ^ 8) with 256; lia).
      reflexivity.
    + destruct (e <=? 0) eqn:E2.
      * replace (chk_s 32 (- e)) with (Some (- e)) by (symmetry; apply chk_s_some; change (2 ^ (32 - 1)) with (2 ^ 31); lia).
        replace (chk_u 8 (- e)) with (Some (- e)) by (symmetry; apply chk_u_some; change (2 ^ 8) with 256; lia).
        reflexivity.
      * destruct (20 <=? e) eqn:E3.
        -- unfold pow10_u64. replace (19 <? e) with true by lia. reflexivity.
        -- rewrite pow10_u64_some by lia. cbn [of_opt rbind].
           pose proof (pow10_pos' e ltac:(lia)).
           destruct (2 ^ 64 <=? value * 10 ^ e) eqn:E4.
           ++ replace (umul 64 value (10 ^ e)) with (@None Z) by (symmetry; apply chk_u_none; lia). reflexivity.
           ++ replace (umul 64 value (10 ^ e)) with (Some (value * 10 ^ e)) by (symmetry; apply chk_u_some; nia). reflexivity.
Qed.

(* exact value of a successful Pyth conversion: floor(value * 10^e * 10^p) *)
Theorem pyth_value_to_decimal_exact value e td p v m :
  0 <= value < 2 ^ 64 -> - 2 ^ 31 <= e < 2 ^ 31 -> 0 <= td -> 0 <= p ->
  pyth_value_to_decimal value e td p = Ok (v, m) ->
  m = 20 - td - p /\ 0 <= v < 2 ^ 32 /\ td + p <= 20 /\
  ((-20 <= e <= 0 /\ v = value * 10 ^ p / 10 ^ (- e)) \/
   (0 < e < 20 /\ v = value * 10 ^ e * 10 ^ p)).
Proof.
  intros Hv He Htd Hp. rewrite pyth_value_to_decimal_spec by assumption.
  destruct (e =? - 2 ^ 31); [discriminate|]. destruct (e <? -255) eqn:E1; [discriminate|].
  destruct (e <=? 0) eqn:E2.
  - destruct (try_from_price value (- e) td p) as [[v' m']|] eqn:T; cbn [map_err7]; [|discriminate].
    intros X; injection X as <- <-. pose proof T as T'.
    apply try_from_price_floor in T'; [|rng|lia..].
    apply try_from_price_ok in T; [|rng|lia..].
    destruct T as ((D1 & D2 & D3 & D4) & -> & ? & ->). repeat split; try lia. all: try (left; split; [lia|reflexivity]).
  - destruct (20 <=? e) eqn:E3; [discriminate|]. destruct (2 ^ 64 <=? value * 10 ^ e) eqn:E4; [discriminate|].
    pose proof (pow10_pos' e ltac:(lia)).
    destruct (try_from_price (value * 10 ^ e) 0 td p) as [[v' m']|] eqn:T; cbn [map_err7]; [|discriminate].
    intros X; injection X as <- <-. pose proof T as T'.
    apply try_from_price_floor in T'; [|rng|lia..].
    apply try_from_price_ok in T; [|rng|lia..].
    destruct T as ((D1 & D2 & D3 & D4) & -> & ? & ->). change (10 ^ 0) with 1. rewrite Z.div_1_r. repeat split; try lia.
    all: try (right; split; [lia|reflexivity]).
Qed.

Lemma map_err7_ok r x : map_err7 r = Ok x <-> r = Ok x.
Proof. destruct r; cbn; split; intros H; try discriminate; exact H. Qed.

(* min/max from a Pyth price with confidence: both exact, ordered, same multiplier;
   the "max_price" error is unreachable for an i64 price *)
Theorem pyth_with_confidence_sound price conf e td p v1 m1 v2 m2 :
  - 2 ^ 63 <= price < 2 ^ 63 -> 0 <= conf < 2 ^ 64 -> - 2 ^ 31 <= e < 2 ^ 31 -> 0 <= td -> 0 <= p ->
  pyth_with_confidence price conf e td p = Ok ((v1, m1), (v2, m2)) ->
  0 <= conf <= price /\
  pyth_value_to_decimal (price - conf) e td p = Ok (v1, m1) /\
  pyth_value_to_decimal (price + conf) e td p = Ok (v2, m2) /\
  v1 <= v2 /\ m1 = m2.
Proof.
  intros Hpr Hc He Htd Hp. unfold pyth_with_confidence.
  destruct (price <? 0) eqn:E0; cbn [of_opt rbind]; [discriminate|].
  unfold usub, uadd.
  destruct (chk_u 64 (price - conf)) as [mn|] eqn:A; cbn [of_opt rbind]; [|discriminate].
  apply chk_u_some in A. destruct A as [A ->].
  destruct (chk_u 64 (price + conf)) as [mx|] eqn:B; cbn [of_opt rbind]; [|discriminate].
  apply chk_u_some in B. destruct B as [B ->].
  destruct (pyth_value_to_decimal (price - conf) e td p) as [a|] eqn:P1; cbn [rbind]; [|discriminate].
  destruct (pyth_value_to_decimal (price + conf) e td p) as [b|] eqn:P2; cbn [rbind]; [|discriminate].
  intros X; injection X as -> ->. split; [lia|]. split; [reflexivity|]. split; [reflexivity|].
  rewrite pyth_value_to_decimal_spec in P1, P2 by lia.
  destruct (e =? - 2 ^ 31); [discriminate|]. destruct (e <? -255); [discriminate|].
  destruct (e <=? 0) eqn:E2.
  - apply -> map_err7_ok in P1. apply -> map_err7_ok in P2.
    apply (try_from_price_mono (price - conf) (price + conf) (- e) td p v1 m1 v2 m2); try assumption; try lia.
    all: try rng.
  - destruct (20 <=? e) eqn:E3; [discriminate|].
    destruct (2 ^ 64 <=? (price - conf) * 10 ^ e) eqn:E4; [discriminate|].
    destruct (2 ^ 64 <=? (price + conf) * 10 ^ e) eqn:E5; [discriminate|].
    apply -> map_err7_ok in P1. apply -> map_err7_ok in P2. pose proof (pow10_pos' e ltac:(lia)).
    apply (try_from_price_mono ((price - conf) * 10 ^ e) ((price + conf) * 10 ^ e) 0 td p v1 m1 v2 m2); try assumption; try lia.
    all: try nia; try rng.
Qed.

Theorem pyth_with_confidence_err3_unreachable price conf e td p :
  - 2 ^ 63 <= price < 2 ^ 63 -> 0 <= conf < 2 ^ 64 ->
  pyth_with_confidence price conf e td p <> Err 3.
Proof.
  intros Hpr Hc. unfold pyth_with_confidence.
  destruct (price <? 0) eqn:E0; cbn [of_opt rbind]; [discriminate|].
  unfold usub, uadd.
  destruct (chk_u 64 (price - conf)) as [mn|] eqn:A; cbn [of_opt rbind]; [|discriminate].
  apply chk_u_some in A. destruct A as [A ->].
  replace (chk_u 64 (price + conf)) with (Some (price + conf))
    by (symmetry; apply chk_u_some; rewrite two64; change (2 ^ 63) with 9223372036854775808 in *; lia).
  cbn [of_opt rbind].
  assert (N : forall v, pyth_value_to_decimal v e td p <> Err 3).
  { intros v. unfold pyth_value_to_decimal.
    destruct (e <=? 0).
    - destruct (chk_s 32 (- e)); cbn [rbind]; [|discriminate].
      destruct (chk_u 8 z); cbn [of_opt rbind]; [|discriminate].
      destruct (try_from_price _ _ _ _); discriminate.
    - destruct (pow10_u64 e); cbn [of_opt rbind]; [|discriminate].
      destruct (umul 64 v z); cbn [of_opt rbind]; [|discriminate].
      destruct (try_from_price _ _ _ _); discriminate. }
  destruct (pyth_value_to_decimal (price - conf) e td p) as [a|e1] eqn:P1; cbn [rbind].
  - destruct (pyth_value_to_decimal (price + conf) e td p) as [b|e2] eqn:P2; cbn [rbind]; [discriminate|].
    intros X; injection X as ->. exact (N _ P2).
  - intros X; injection X as ->. exact (N _ P1).
Qed.

