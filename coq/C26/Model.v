(* C26 — model of crates/utils/src/price/decimal.rs (Decimal), the U192 -> u128
   storage conversion of crates/utils/src/price/mod.rs and the Pyth conversion
   of crates/utils/src/oracle.rs.  Definitions only.

   Error numbering
     try_from_price : Err 1 = ExceedMaxDecimals, Err 2 = Overflow
     with_unit_price / convert_to_u128_storage : Err 1 = None, Err 9 = panic
     pyth_* : Err 1 "mid_price", 2 "min_price", 3 "max_price", 4 "exponent too small",
              5 "exponent too big", 6 "price overflow", 7 "converting to Decimal",
              Err 9 = panic (arithmetic overflow trap; the workspace builds with
              overflow-checks = true also in release). *)
From GV Require Import lib.Base.
Open Scope Z_scope.

Definition MAX_DECIMALS : Z := 20.

(* Decimal::multiplier : 10u128.pow(m) — traps when 10^m does not fit u128 *)
Definition multiplier (m : Z) : option Z := chk_u 128 (10 ^ m).

(* Decimal::to_unit_price : value as u128 * multiplier; None = overflow trap *)
Definition to_unit_price (v m : Z) : option Z :=
  mu <- multiplier m ;; chk_u 128 (v * mu).

(* u128::div_ceil *)
Definition div_ceil (a d : Z) : Z := if 0 <? a mod d then a / d + 1 else a / d.

(* Decimal::with_unit_price (self.decimal_multiplier = m) : new value *)
Definition with_unit_price (m price : Z) (round_up : bool) : res Z :=
  match multiplier m with
  | None => Err 9
  | Some mu =>
      let value := if round_up then div_ceil price mu else price / mu in
      of_opt 1 (chk_u 32 value)
  end.

(* Decimal::try_from_price, branch by branch.  All u8 operations stay below 256
   once the guards passed (td + p <= 40 before the second guard, 2*td <= 40),
   and every exponent handed to 10u128.pow is <= 20. *)
Definition try_from_price (price d td p : Z) : res (Z * Z) :=
  if (MAX_DECIMALS <? td) || (MAX_DECIMALS <? p) || (MAX_DECIMALS <? d) then Err 1
  else if MAX_DECIMALS <? td + p then Err 1
  else
    r <-- (if d =? td then Ok (price, None)
           else if d <? td then
             pr <-- of_opt 2 (umul 128 price (10 ^ (td - d))) ;; Ok (pr, None)
           else Ok (price, Some (d - td))) ;;
    let price1 := fst r in
    let dexp : option Z := snd r in
    let dm := MAX_DECIMALS - td - p in
    let m := 2 * td + dm in
    v <-- (if m <=? MAX_DECIMALS then
             let exp := MAX_DECIMALS - m in
             match dexp with
             | Some de =>
                 if de <=? exp then of_opt 2 (umul 128 price1 (10 ^ (exp - de)))
                 else Ok (price1 / 10 ^ (de - exp))
             | None => of_opt 2 (umul 128 price1 (10 ^ exp))
             end
           else
             let ans := price1 / 10 ^ (m - MAX_DECIMALS) in
             Ok (match dexp with Some e => ans / 10 ^ e | None => ans end)) ;;
    v32 <-- of_opt 2 (chk_u 32 v) ;;
    Ok (v32, dm).

(* PriceFeedPrice::try_to_price : min first, then max *)
Definition try_to_price (mn mx d td p : Z) : res ((Z * Z) * (Z * Z)) :=
  a <-- try_from_price mn d td p ;;
  b <-- try_from_price mx d td p ;;
  Ok (a, b).

(* ---------- price/mod.rs ---------- *)

(* get_power_bounds: the literal limbs of the table, least significant first *)
Definition limbs (l0 l1 l2 : Z) : Z := l0 + l1 * 2 ^ 64 + l2 * 2 ^ 128.
Definition power_bounds : list Z :=
  [ limbs 18446744073709551615 18446744073709551615 0;
    limbs 18446744073709551606 18446744073709551615 9;
    limbs 18446744073709551516 18446744073709551615 99;
    limbs 18446744073709550616 18446744073709551615 999;
    limbs 18446744073709541616 18446744073709551615 9999;
    limbs 18446744073709451616 18446744073709551615 99999;
    limbs 18446744073708551616 18446744073709551615 999999;
    limbs 18446744073699551616 18446744073709551615 9999999;
    limbs 18446744073609551616 18446744073709551615 99999999;
    limbs 18446744072709551616 18446744073709551615 999999999;
    limbs 18446744063709551616 18446744073709551615 9999999999;
    limbs 18446743973709551616 18446744073709551615 99999999999;
    limbs 18446743073709551616 18446744073709551615 999999999999;
    limbs 18446734073709551616 18446744073709551615 9999999999999;
    limbs 18446644073709551616 18446744073709551615 99999999999999;
    limbs 18445744073709551616 18446744073709551615 999999999999999;
    limbs 18436744073709551616 18446744073709551615 9999999999999999;
    limbs 18346744073709551616 18446744073709551615 99999999999999999;
    limbs 17446744073709551616 18446744073709551615 999999999999999999;
    limbs 8446744073709551616 18446744073709551615 9999999999999999999 ].

(* slice::binary_search on a strictly increasing table: Ok(i) when equal to
   entry i, otherwise Err(insertion point); both are the number of entries
   strictly below the key. *)
Fixpoint count_below (num : Z) (l : list Z) : Z :=
  match l with
  | [] => 0
  | b :: r => (if b <? num then 1 else 0) + count_below num r
  end.
Definition find_divisor_decimals (num : Z) : Z := count_below num power_bounds.

(* convert_to_u128_storage: Err 1 = None, Err 9 = the try_into().unwrap() panics *)
Definition convert_to_u128_storage (num decimals : Z) : res (Z * Z) :=
  let k := find_divisor_decimals num in
  if decimals <? k then Err 1
  else
    let q := num / 10 ^ k in
    match chk_u 128 q with
    | None => Err 9
    | Some q => Ok (q, decimals - k)
    end.

(* ---------- oracle.rs ---------- *)

(* 10u64.checked_pow(e): 10^19 < 2^64 < 10^20; the guard keeps the model cheap
   to evaluate for exponents up to i32::MAX (Proofs: pow10_u64_spec). *)
Definition pow10_u64 (e : Z) : option Z := if 19 <? e then None else chk_u 64 (10 ^ e).

Definition pyth_value_to_decimal (value exponent td p : Z) : res (Z * Z) :=
  r <-- (if exponent <=? 0 then
           match chk_s 32 (- exponent) with
           | None => Err 9                                   (* -i32::MIN *)
           | Some ne => d <-- of_opt 4 (chk_u 8 ne) ;; Ok (value, d)
           end
         else
           f <-- of_opt 5 (pow10_u64 exponent) ;;
           v <-- of_opt 6 (umul 64 value f) ;;
           Ok (v, 0)) ;;
  match try_from_price (fst r) (snd r) td p with
  | Ok x => Ok x
  | Err _ => Err 7
  end.

Definition pyth_with_confidence (price conf exponent td p : Z) : res ((Z * Z) * (Z * Z)) :=
  mid <-- of_opt 1 (if price <? 0 then None else Some price) ;;
  mn <-- of_opt 2 (usub 64 mid conf) ;;
  mx <-- of_opt 3 (uadd 64 mid conf) ;;
  a <-- pyth_value_to_decimal mn exponent td p ;;
  b <-- pyth_value_to_decimal mx exponent td p ;;
  Ok (a, b).
