(* C26 — correspondence and oracle predicates for harness/src/bin/c26.rs.
   Imports Model.v only.  Error numbering: see Model.v. *)
From GV Require Import lib.Base C26.Model.
Open Scope Z_scope.

Inductive case :=
(* Decimal::try_from_price(price, decimals, token_decimals, precision); [u] = to_unit_price of an Ok result *)
| TryFromPrice (price d td p : Z) (r : res (Z * Z)) (u : option Z)
(* Decimal{value=v, decimal_multiplier=m}.to_unit_price(); None = panic *)
| ToUnit (v m : Z) (u : option Z)
(* Decimal{_, m}.with_unit_price(price, round_up) : Ok value / Err 1 = None / Err 9 = panic *)
| WithUnit (m price : Z) (ru : bool) (r : res Z)
(* PriceFeedPrice::new(d, _, _, mn, mx, _).try_to_price(token_config{td, p}) *)
| FeedToPrice (mn mx d td p : Z) (r : res ((Z * Z) * (Z * Z)))
(* find_divisor_decimals(num : U192) *)
| FindDiv (num k : Z)
(* convert_to_u128_storage(num, decimals) *)
| ConvU128 (num decimals : Z) (r : res (Z * Z))
(* pyth_price_value_to_decimal(value, exponent, token_config{td, p}) *)
| PythVal (value exponent td p : Z) (r : res (Z * Z))
(* pyth_price_with_confidence_to_price(price, conf, exponent, token_config{td, p}) *)
| PythConf (price conf exponent td p : Z) (r : res ((Z * Z) * (Z * Z))).

Definition peqb (a b : Z * Z) : bool := (fst a =? fst b) && (snd a =? snd b).
Definition ppeqb (a b : (Z * Z) * (Z * Z)) : bool := peqb (fst a) (fst b) && peqb (snd a) (snd b).
Definition res_eqb {A} (eq : A -> A -> bool) (a b : res A) : bool :=
  match a, b with
  | Ok x, Ok y => eq x y
  | Err x, Err y => x =? y
  | _, _ => false
  end.

Definition corr_b (c : case) : bool :=
  match c with
  | TryFromPrice price d td p r u =>
      res_eqb peqb (try_from_price price d td p) r &&
      match r with
      | Ok (v, m) => oeqb (to_unit_price v m) u
      | Err _ => oeqb None u
      end
  | ToUnit v m u => oeqb (to_unit_price v m) u
  | WithUnit m price ru r => res_eqb Z.eqb (with_unit_price m price ru) r
  | FeedToPrice mn mx d td p r => res_eqb ppeqb (try_to_price mn mx d td p) r
  | FindDiv num k => find_divisor_decimals num =? k
  | ConvU128 num decimals r => res_eqb peqb (convert_to_u128_storage num decimals) r
  | PythVal value e td p r => res_eqb peqb (pyth_value_to_decimal value e td p) r
  | PythConf price conf e td p r => res_eqb ppeqb (pyth_with_confidence price conf e td p) r
  end.

(* ------------------------------------------------------------------ *)
(* The property, written on the implementation's outputs only.

   Exact provider price = price / 10^d (USD per whole token).  On-chain value
   v with multiplier m = 20 - td - p stands for the unit price v * 10^m, i.e.
   v / 10^p USD per whole token.  "Truncated to the configured precision":
   v = floor(price * 10^p / 10^d), written without division. *)
Definition decs_ok (d td p : Z) : bool :=
  (d <=? 20) && (td <=? 20) && (p <=? 20) && (td + p <=? 20).

(* v is the floor of num/den *)
Definition is_floor (num den v : Z) : bool := (v * den <=? num) && (num <? (v + 1) * den).
Definition is_ceil (num den v : Z) : bool := ((v - 1) * den <? num) && (num <=? v * den).

(* outcome of converting [price] with [d] decimals for a token (td, p) *)
Definition conv_ok (price d td p : Z) (r : res (Z * Z)) : bool :=
  if decs_ok d td p then
    match r with
    | Ok (v, m) => (m =? 20 - td - p) && in_u 32 v && is_floor (price * 10 ^ p) (10 ^ d) v
    | Err 2 => 2 ^ 32 * 10 ^ d <=? price * 10 ^ p
    | Err _ => false
    end
  else match r with Err 1 => true | _ => false end.

(* exact Pyth value value * 10^e as (integer price, decimals); None when e >= 20
   (10^e does not fit u64).  Guarded with [if] so that vm_compute never builds 10^e
   for exponents near i32::MAX. *)
Definition pyth_scaled (value e : Z) : option (Z * Z) :=
  if e <=? 0 then Some (value, - e) else if e <? 20 then Some (value * 10 ^ e, 0) else None.

Definition pyth_val_ok (value e td p : Z) (r : res (Z * Z)) : bool :=
      match r with
      | Ok _ => match pyth_scaled value e with
                | Some (pr, d) => (if 0 <? e then pr <? 2 ^ 64 else true) && conv_ok pr d td p r
                | None => false
                end
      | Err 4 => e <? -255
      | Err 5 => 20 <=? e
      | Err 6 => match pyth_scaled value e with Some (pr, _) => (0 <? e) && (2 ^ 64 <=? pr) | None => false end
      | Err 7 => match pyth_scaled value e with
                 | Some (pr, d) => (-255 <=? e) && (if 0 <? e then pr <? 2 ^ 64 else true)
                                   && (conv_ok pr d td p (Err 1) || conv_ok pr d td p (Err 2))
                 | None => false
                 end
      | Err 9 => e =? - 2 ^ 31
      | Err _ => false
      end.

Definition oracle_b (c : case) : bool :=
  match c with
  | TryFromPrice price d td p r u =>
      conv_ok price d td p r &&
      match r, u with
      | Ok (v, m), Some un =>
          (* unit price (20 decimals, per smallest token unit): never above the exact
             value price * 10^(20 - d - td), and less than one step 10^m below it *)
          (un =? v * 10 ^ m)
          && (un * 10 ^ (d + td) <=? price * 10 ^ 20)
          && (price * 10 ^ 20 <? (un + 10 ^ m) * 10 ^ (d + td))
      | Ok _, None => false
      | Err _, None => true
      | Err _, Some _ => false
      end
  | ToUnit v m u =>
      match u with
      | Some un => un =? v * 10 ^ m
      | None => (2 ^ 128 <=? 10 ^ m) || (2 ^ 128 <=? v * 10 ^ m)
      end
  | WithUnit m price ru r =>
      match r with
      | Ok v => in_u 32 v && (if ru then is_ceil price (10 ^ m) v else is_floor price (10 ^ m) v)
      | Err 1 => (10 ^ m <? 2 ^ 128) &&
                 (if ru then (2 ^ 32 - 1) * 10 ^ m <? price else 2 ^ 32 * 10 ^ m <=? price)
      | Err 9 => 2 ^ 128 <=? 10 ^ m
      | Err _ => false
      end
  | FeedToPrice mn mx d td p r =>
      match r with
      | Ok (a, b) =>
          conv_ok mn d td p (Ok a) && conv_ok mx d td p (Ok b)
          && (snd a =? snd b) && (if mn <=? mx then fst a <=? fst b else true)
      | Err e => conv_ok mn d td p (Err e) || conv_ok mx d td p (Err e)
      end
  | FindDiv num k =>
      (* the chosen digit count makes the quotient fit u128, and it is minimal except
         that a quotient of exactly u128::MAX with a non-zero remainder is reduced by one
         more digit (k - 1 digits are dropped only ... k is chosen only when num exceeds u128::MAX * 10^(k-1)) *)
      (0 <=? k) && (k <=? 20) && (num / 10 ^ k <? 2 ^ 128)
      && ((k =? 0) || ((2 ^ 128 - 1) * 10 ^ (k - 1) <? num))
  | ConvU128 num decimals r =>
      match r with
      | Ok (q, d') =>
          let k := decimals - d' in
          (0 <=? k) && (k <=? 20) && (0 <=? d') && in_u 128 q && is_floor num (10 ^ k) q
          && ((k =? 0) || ((2 ^ 128 - 1) * 10 ^ (k - 1) <? num))
      | Err 1 => (2 ^ 128 - 1) * 10 ^ decimals <? num
      | Err _ => false
      end
  | PythVal value e td p r => pyth_val_ok value e td p r
  | PythConf price conf e td p r =>
      match r with
      | Ok (a, b) =>
          (0 <=? price) && (conf <=? price) && (price + conf <? 2 ^ 64)
          && match pyth_scaled (price - conf) e, pyth_scaled (price + conf) e with
             | Some (p1, d1), Some (p2, d2) => conv_ok p1 d1 td p (Ok a) && conv_ok p2 d2 td p (Ok b)
             | _, _ => false
             end
          && (fst a <=? fst b) && (snd a =? snd b)
      | Err 1 => price <? 0
      | Err 2 => (0 <=? price) && (price <? conf)
      | Err 3 => (0 <=? price) && (conf <=? price) && (2 ^ 64 <=? price + conf)
      | Err e' => (0 <=? price) && (conf <=? price) && (price + conf <? 2 ^ 64) && (4 <=? e')
                  && (pyth_val_ok (price - conf) e td p (Err e') || pyth_val_ok (price + conf) e td p (Err e'))
      end
  end.

Definition known_b (c : case) : Z := 0.
