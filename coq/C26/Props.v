(* C26 — property theorems only.  Each is closed by [exact] of a lemma from Proofs.v.
   Ranges in the hypotheses are exactly the Rust argument types:
   price : u128, decimals / token_decimals / precision : u8 (only 0 <= needed),
   U192 numbers, u64 / i64 / i32 Pyth fields. *)
From GV Require Import lib.Base C26.Model C26.Proofs.
Open Scope Z_scope.

(* ---- Decimal::try_from_price ---- *)

(* Success: exactly when all decimal settings are within the maximum and the truncation
   floor(price * 10^precision / 10^decimals) fits u32; the result is that truncation
   with multiplier 20 - token_decimals - precision. *)
Theorem c26_try_from_price_ok : forall price d td p v m,
  0 <= price < 2 ^ 128 -> 0 <= d -> 0 <= td -> 0 <= p ->
  try_from_price price d td p = Ok (v, m) <->
  (d <= 20 /\ td <= 20 /\ p <= 20 /\ td + p <= 20) /\
  v = price * 10 ^ p / 10 ^ d /\ v < 2 ^ 32 /\ m = 20 - td - p.
Proof. intros price d td p v m H1 H2 H3 H4. exact (try_from_price_ok price d td p H1 H2 H3 H4 v m). Qed.

(* Failure: ExceedMaxDecimals (1) exactly for decimal settings beyond the maximum,
   Overflow (2) exactly when the truncated value cannot be represented — never a wrong price.
   (Together with c26_try_from_price_ok this is total: every input gives one of the three.) *)
Theorem c26_try_from_price_err : forall price d td p e,
  0 <= price < 2 ^ 128 -> 0 <= d -> 0 <= td -> 0 <= p ->
  try_from_price price d td p = Err e <->
  (e = 1 /\ ~ (d <= 20 /\ td <= 20 /\ p <= 20 /\ td + p <= 20)) \/
  (e = 2 /\ (d <= 20 /\ td <= 20 /\ p <= 20 /\ td + p <= 20) /\ 2 ^ 32 <= price * 10 ^ p / 10 ^ d).
Proof. intros price d td p e H1 H2 H3 H4. exact (try_from_price_err price d td p H1 H2 H3 H4 e). Qed.

(* never rounds up, off by less than one unit of the last kept digit (division-free form) *)
Theorem c26_try_from_price_floor : forall price d td p v m,
  0 <= price < 2 ^ 128 -> 0 <= d -> 0 <= td -> 0 <= p ->
  try_from_price price d td p = Ok (v, m) ->
  0 <= v < 2 ^ 32 /\ v * 10 ^ d <= price * 10 ^ p < (v + 1) * 10 ^ d.
Proof. intros price d td p v m H1 H2 H3 H4. exact (try_from_price_floor price d td p H1 H2 H3 H4 v m). Qed.

(* The unit price (to_unit_price, 20-decimals USD per smallest token unit) of the result:
   to_unit_price does not trap, never exceeds the exact unit price price * 10^(20 - d - td)
   and is less than one precision step 10^multiplier below it.  Both sides are multiplied
   by 10^(d + td) to stay in Z. *)
Theorem c26_unit_price_never_rounds_up : forall price d td p v m,
  0 <= price < 2 ^ 128 -> 0 <= d -> 0 <= td -> 0 <= p ->
  try_from_price price d td p = Ok (v, m) ->
  to_unit_price v m = Some (v * 10 ^ m) /\
  0 <= m <= 20 /\
  v * 10 ^ m * 10 ^ (d + td) <= price * 10 ^ 20 < (v * 10 ^ m + 10 ^ m) * 10 ^ (d + td).
Proof. intros price d td p v m H1 H2 H3 H4. exact (unit_price_never_rounds_up price d td p H1 H2 H3 H4 v m). Qed.

(* monotone in the price: a min <= max pair keeps its order and gets one multiplier *)
Theorem c26_try_from_price_mono : forall p1 p2 d td p v1 m1 v2 m2,
  0 <= p1 <= p2 -> p2 < 2 ^ 128 -> 0 <= d -> 0 <= td -> 0 <= p ->
  try_from_price p1 d td p = Ok (v1, m1) -> try_from_price p2 d td p = Ok (v2, m2) ->
  v1 <= v2 /\ m1 = m2.
Proof. exact try_from_price_mono. Qed.

(* PriceFeedPrice::try_to_price is the two conversions *)
Theorem c26_try_to_price_ok : forall mn mx d td p a b,
  0 <= mn < 2 ^ 128 -> 0 <= mx < 2 ^ 128 -> 0 <= d -> 0 <= td -> 0 <= p ->
  try_to_price mn mx d td p = Ok (a, b) <->
  try_from_price mn d td p = Ok a /\ try_from_price mx d td p = Ok b.
Proof. exact try_to_price_ok. Qed.

(* ---- to_unit_price / with_unit_price ---- *)

Theorem c26_to_unit_price_spec : forall v m u, 0 <= v -> 0 <= m ->
  to_unit_price v m = Some u <-> (u = v * 10 ^ m /\ m <= 38 /\ v * 10 ^ m < 2 ^ 128).
Proof. exact to_unit_price_spec. Qed.

Theorem c26_with_unit_price_floor : forall m price v, 0 <= m <= 38 -> 0 <= price ->
  with_unit_price m price false = Ok v <-> (v = price / 10 ^ m /\ v < 2 ^ 32).
Proof. exact with_unit_price_floor. Qed.

Theorem c26_with_unit_price_ceil : forall m price v, 0 <= m <= 38 -> 0 <= price ->
  with_unit_price m price true = Ok v ->
  0 <= v < 2 ^ 32 /\ (v - 1) * 10 ^ m < price <= v * 10 ^ m.
Proof. exact with_unit_price_ceil. Qed.

(* None exactly when the rounded value does not fit u32 *)
Theorem c26_with_unit_price_none : forall m price ru, 0 <= m <= 38 -> 0 <= price ->
  with_unit_price m price ru = Err 1 <->
  (if ru then (2 ^ 32 - 1) * 10 ^ m < price else 2 ^ 32 * 10 ^ m <= price).
Proof. exact with_unit_price_none. Qed.

(* the arithmetic trap (10^m does not fit u128) needs a multiplier no conversion produces *)
Theorem c26_with_unit_price_trap : forall m price ru, 0 <= m -> 0 <= price ->
  with_unit_price m price ru = Err 9 <-> 39 <= m.
Proof. exact with_unit_price_total. Qed.

Theorem c26_with_unit_price_roundtrip : forall v m ru,
  0 <= v < 2 ^ 32 -> 0 <= m <= 38 -> v * 10 ^ m < 2 ^ 128 ->
  to_unit_price v m = Some (v * 10 ^ m) /\ with_unit_price m (v * 10 ^ m) ru = Ok v.
Proof. exact with_unit_price_roundtrip. Qed.

(* ---- find_divisor_decimals / convert_to_u128_storage ---- *)

(* the literal limb table of get_power_bounds is (2^128 - 1) * 10^i, i = 0..19 *)
Theorem c26_power_bounds_table :
  power_bounds = map (fun i => (2 ^ 128 - 1) * 10 ^ Z.of_nat i) (seq 0 20).
Proof. exact power_bounds_table. Qed.

Theorem c26_find_divisor_decimals_spec : forall num, 0 <= num ->
  let k := find_divisor_decimals num in
  0 <= k <= 20 /\
  (k <= 19 -> num <= (2 ^ 128 - 1) * 10 ^ k) /\
  (1 <= k -> (2 ^ 128 - 1) * 10 ^ (k - 1) < num).
Proof. exact find_divisor_decimals_spec. Qed.

Theorem c26_find_divisor_decimals_fits : forall num, 0 <= num < 2 ^ 192 ->
  0 <= num / 10 ^ find_divisor_decimals num < 2 ^ 128.
Proof. exact find_divisor_decimals_fits. Qed.

(* no digit count below k - 1 fits; k - 1 fits only when that quotient is exactly u128::MAX *)
Theorem c26_find_divisor_decimals_near_minimal : forall num j, 0 <= num -> 0 <= j ->
  let k := find_divisor_decimals num in
  (j <= k - 2 -> 2 ^ 128 <= num / 10 ^ j) /\
  (j = k - 1 -> 2 ^ 128 - 1 <= num / 10 ^ j).
Proof. exact find_divisor_decimals_near_minimal. Qed.

(* ... and that edge is real: the documented "minimum" is exceeded by one here *)
Theorem c26_find_divisor_decimals_not_minimal_witness :
  let num := (2 ^ 128 - 1) * 10 + 5 in
  find_divisor_decimals num = 2 /\ num / 10 ^ 1 < 2 ^ 128.
Proof. exact find_divisor_decimals_not_minimal_witness. Qed.

Theorem c26_convert_to_u128_storage_sound : forall num decimals q d',
  0 <= num < 2 ^ 192 -> 0 <= decimals ->
  convert_to_u128_storage num decimals = Ok (q, d') ->
  let k := decimals - d' in
  0 <= k <= 20 /\ 0 <= d' /\ 0 <= q < 2 ^ 128 /\ q * 10 ^ k <= num < (q + 1) * 10 ^ k.
Proof. exact convert_to_u128_storage_sound. Qed.

Theorem c26_convert_to_u128_storage_never_panics : forall num decimals,
  0 <= num < 2 ^ 192 -> 0 <= decimals ->
  convert_to_u128_storage num decimals <> Err 9.
Proof. exact convert_to_u128_storage_never_panics. Qed.

Theorem c26_convert_to_u128_storage_none : forall num decimals,
  0 <= num < 2 ^ 192 -> 0 <= decimals <= 19 ->
  convert_to_u128_storage num decimals = Err 1 <-> (2 ^ 128 - 1) * 10 ^ decimals < num.
Proof. exact convert_to_u128_storage_none. Qed.

(* ---- Pyth ---- *)

(* the complete outcome table of pyth_price_value_to_decimal *)
Theorem c26_pyth_value_to_decimal_spec : forall value e td p,
  0 <= value < 2 ^ 64 -> - 2 ^ 31 <= e < 2 ^ 31 ->
  pyth_value_to_decimal value e td p =
    if e =? - 2 ^ 31 then Err 9
    else if e <? -255 then Err 4
    else if e <=? 0 then map_err7 (try_from_price value (- e) td p)
    else if 20 <=? e then Err 5
    else if 2 ^ 64 <=? value * 10 ^ e then Err 6
    else map_err7 (try_from_price (value * 10 ^ e) 0 td p).
Proof. exact pyth_value_to_decimal_spec. Qed.

Theorem c26_pyth_value_to_decimal_exact : forall value e td p v m,
  0 <= value < 2 ^ 64 -> - 2 ^ 31 <= e < 2 ^ 31 -> 0 <= td -> 0 <= p ->
  pyth_value_to_decimal value e td p = Ok (v, m) ->
  m = 20 - td - p /\ 0 <= v < 2 ^ 32 /\ td + p <= 20 /\
  ((-20 <= e <= 0 /\ v = value * 10 ^ p / 10 ^ (- e)) \/
   (0 < e < 20 /\ v = value * 10 ^ e * 10 ^ p)).
Proof. exact pyth_value_to_decimal_exact. Qed.

Theorem c26_pyth_with_confidence_sound : forall price conf e td p v1 m1 v2 m2,
  - 2 ^ 63 <= price < 2 ^ 63 -> 0 <= conf < 2 ^ 64 -> - 2 ^ 31 <= e < 2 ^ 31 -> 0 <= td -> 0 <= p ->
  pyth_with_confidence price conf e td p = Ok ((v1, m1), (v2, m2)) ->
  0 <= conf <= price /\
  pyth_value_to_decimal (price - conf) e td p = Ok (v1, m1) /\
  pyth_value_to_decimal (price + conf) e td p = Ok (v2, m2) /\
  v1 <= v2 /\ m1 = m2.
Proof. exact pyth_with_confidence_sound. Qed.

Theorem c26_pyth_max_price_error_unreachable : forall price conf e td p,
  - 2 ^ 63 <= price < 2 ^ 63 -> 0 <= conf < 2 ^ 64 ->
  pyth_with_confidence price conf e td p <> Err 3.
Proof. exact pyth_with_confidence_err3_unreachable. Qed.

(* ---- non-vacuity: the repo's own literals plus the limits ---- *)
Example c26_ex1 : try_from_price 177347 10 5 9 = Ok (17734, 6) /\ to_unit_price 17734 6 = Some 17734000000.
Proof. vm_compute. split; reflexivity. Qed.
Example c26_ex2 : try_from_price 7695092578398765000000000 20 8 2 = Ok (7695092, 10).
Proof. vm_compute. reflexivity. Qed.
Example c26_ex3 : try_from_price 4294967295 0 0 0 = Ok (4294967295, 20) /\ try_from_price 4294967296 0 0 0 = Err 2
                  /\ try_from_price 1 21 0 0 = Err 1 /\ try_from_price 1 0 11 10 = Err 1.
Proof. vm_compute. repeat split; reflexivity. Qed.
(* an intermediate u128 overflow (price * 10^20) reported as Overflow *)
Example c26_ex4 : try_from_price (2 ^ 127) 0 20 0 = Err 2.
Proof. vm_compute. reflexivity. Qed.
Example c26_ex5 : convert_to_u128_storage (2 ^ 128) 18 = Ok (34028236692093846346337460743176821145, 17)
                  /\ convert_to_u128_storage (2 ^ 192 - 1) 20 = Ok (62771017353866807638357894232076664161, 0)
                  /\ convert_to_u128_storage (2 ^ 192 - 1) 19 = Err 1.
Proof. vm_compute. repeat split; reflexivity. Qed.
Example c26_ex6 : pyth_with_confidence 6000012345678 1234567 (-8) 8 2 = Ok ((6000011, 10), (6000013, 10)).
Proof. vm_compute. reflexivity. Qed.
