(* C36 — part A: byte-level lemmas *)
From GV Require Import lib.Base C36.Model.
Open Scope Z_scope.

Ltac inv H := inversion H; subst; clear H.

(* ------------------------------------------------------------------ lists *)
Lemma take_app (a b : list Z) n : length a = n -> take n (a ++ b) = (a, b).
Proof.
  intro H. unfold take. subst n. rewrite firstn_app, skipn_app, firstn_all, skipn_all.
  rewrite Nat.sub_diag. cbn. rewrite !app_nil_r. reflexivity.
Qed.

Lemma length_zeros n : length (zeros n) = n.
Proof. apply repeat_length. Qed.

Lemma length_le_bytes k n : length (le_bytes k n) = k.
Proof. revert n. induction k; intro n; cbn; auto. Qed.

Lemma length_le64 n : length (le64 n) = 8%nat.
Proof. apply length_le_bytes. Qed.

Lemma length_le16 n : length (le16 n) = 2%nat.
Proof. reflexivity. Qed.

Lemma of_le16_le16 n : 0 <= n < 65536 -> of_le16 (le16 n) = n.
Proof.
  intro H. unfold of_le16, le16. cbn [nth].
  rewrite (Z.mod_small (n / 256) 256).
  - pose proof (Z.div_mod n 256 ltac:(lia)). lia.
  - split; [apply Z.div_pos; lia|apply Z.div_lt_upper_bound; lia].
Qed.

Lemma of_le_le_bytes k : forall n, 0 <= n < 256 ^ Z.of_nat k -> of_le (le_bytes k n) = n.
Proof.
  induction k; intros n H.
  - cbn in *. lia.
  - cbn [le_bytes of_le]. rewrite IHk.
    + pose proof (Z.div_mod n 256 ltac:(lia)). lia.
    + rewrite Nat2Z.inj_succ, Z.pow_succ_r in H by lia.
      split; [apply Z.div_pos; lia|apply Z.div_lt_upper_bound; lia].
Qed.

Lemma of_le64s_le64 n : - 2 ^ 63 <= n < 2 ^ 63 -> of_le64s (le64 n) = n.
Proof.
  intro H. unfold of_le64s, le64.
  rewrite of_le_le_bytes.
  2:{ change (256 ^ Z.of_nat 8) with (2 ^ 64). apply Z.mod_pos_bound. lia. }
  destruct (Z_lt_dec n 0).
  - replace (n mod 2 ^ 64) with (n + 2 ^ 64).
    + destruct (n + 2 ^ 64 <? 2 ^ 63) eqn:E; [apply Z.ltb_lt in E; lia|lia].
    + apply Z.mod_unique with (q := -1); [left; lia | lia].
  - rewrite Z.mod_small by lia.
    destruct (n <? 2 ^ 63) eqn:E; [lia|apply Z.ltb_ge in E; lia].
Qed.

Lemma key_eqb_eq a : forall b, key_eqb a b = true <-> a = b.
Proof.
  induction a; intros [|y s]; cbn; split; intro H; try discriminate; auto.
  - apply Bool.andb_true_iff in H as [H1 H2]. apply Z.eqb_eq in H1. apply IHa in H2. congruence.
  - inv H. rewrite Z.eqb_refl. cbn. apply IHa. auto.
Qed.

Lemma key_eqb_refl a : key_eqb a a = true.
Proof. apply key_eqb_eq. auto. Qed.

(* ------------------------------------------------------------------ header *)
Definition header_wf (h : header) : Prop :=
  length (h_executor h) = 32%nat /\ length (h_program h) = 32%nat /\
  length (h_rent_receiver h) = 32%nat /\ length (h_approver h) = 32%nat /\
  0 <= h_num_accounts h < 65536 /\ 0 <= h_data_len h < 65536 /\
  - 2 ^ 63 <= h_approved_at h < 2 ^ 63.

Lemma length_encode_header h : header_wf h -> length (encode_header h) = HEADER_LEN.
Proof.
  intros (H1 & H2 & H3 & H4 & _). unfold encode_header, HEADER_LEN.
  rewrite !app_length, !length_zeros, length_le64, !length_le16, H1, H2, H3, H4. reflexivity.
Qed.

Lemma decode_encode_header h : header_wf h -> decode_header (encode_header h) = h.
Proof.
  intros (H1 & H2 & H3 & H4 & H5 & H6 & H7). unfold decode_header, encode_header.
  change ([h_version h; h_flags h; h_wallet_bump h] ++ ?r) with ([h_version h; h_flags h; h_wallet_bump h] ++ r).
  rewrite (take_app [h_version h; h_flags h; h_wallet_bump h] _ 3) by reflexivity.
  rewrite (take_app (zeros 5) _ 5) by apply length_zeros.
  rewrite (take_app (le64 (h_approved_at h)) _ 8) by apply length_le64.
  rewrite (take_app (h_executor h) _ 32) by auto.
  rewrite (take_app (h_program h) _ 32) by auto.
  rewrite (take_app (le16 (h_num_accounts h)) _ 2) by reflexivity.
  rewrite (take_app (le16 (h_data_len h)) _ 2) by reflexivity.
  rewrite (take_app (zeros 12) _ 12) by apply length_zeros.
  rewrite (take_app (h_rent_receiver h) _ 32) by auto.
  rewrite (take_app (h_approver h) _ 32) by auto.
  cbn [nth]. rewrite of_le64s_le64, !of_le16_le16 by auto. destruct h; reflexivity.
Qed.

(* ------------------------------------------------------------------ account table *)
Lemma testbit_flags s w : Z.testbit (flags_byte s w) 0 = s /\ Z.testbit (flags_byte s w) 1 = w.
Proof. destruct s, w; cbn; auto. Qed.

Definition keys_wf (accts : list (list Z * bool)) : Prop := Forall (fun a => length (fst a) = 32%nat) accts.

Lemma init_accounts_length wallet signers : forall accts idx ab,
  keys_wf accts -> init_accounts wallet signers idx accts = Ok ab ->
  length ab = (ACCOUNT_LEN * length accts)%nat.
Proof.
  induction accts as [|[k w] r IH]; intros idx ab Hk H; cbn in H.
  - inv H. reflexivity.
  - inv Hk. cbn in H2.
    destruct (existsb (Z.eqb idx) signers && negb (key_eqb wallet k)); [discriminate|].
    unfold rbind in H. destruct (init_accounts wallet signers (idx + 1) r) eqn:E; [|discriminate].
    inv H. cbn [length]. rewrite app_length, (IH _ _ H3 E), H2. unfold ACCOUNT_LEN. cbn [length]. lia.
Qed.

Lemma firstn_32 (k X : list Z) : length k = 32%nat -> firstn 32 (k ++ X) = k.
Proof.
  intro H. rewrite firstn_app, H, Nat.sub_diag, firstn_all2 by lia. cbn. apply app_nil_r.
Qed.

Lemma skipn_33 f (k X : list Z) : length k = 32%nat -> skipn ACCOUNT_LEN (f :: k ++ X) = X.
Proof.
  intro H. change (f :: k ++ X) with ((f :: k) ++ X). rewrite skipn_app.
  rewrite skipn_all2 by (cbn [length]; unfold ACCOUNT_LEN; lia).
  cbn [length]. rewrite H. reflexivity.
Qed.

Lemma dec_init_accounts wallet signers : forall accts idx ab rest,
  keys_wf accts -> init_accounts wallet signers idx accts = Ok ab ->
  dec_accounts (length accts) (ab ++ rest) = wanted_accounts signers idx accts.
Proof.
  induction accts as [|[k w] r IH]; intros idx ab rest Hk H; cbn in H.
  - reflexivity.
  - inv Hk. cbn in H2.
    destruct (existsb (Z.eqb idx) signers && negb (key_eqb wallet k)); [discriminate|].
    unfold rbind in H. destruct (init_accounts wallet signers (idx + 1) r) eqn:E; [|discriminate].
    inv H. cbn [length dec_accounts wanted_accounts app hd tl].
    destruct (testbit_flags (existsb (Z.eqb idx) signers) w) as [-> ->].
    rewrite <- app_assoc. rewrite (firstn_32 k _ H2), (skipn_33 _ k _ H2).
    f_equal. apply IH; auto.
Qed.

(* only the wallet can have been flagged as a signer *)
Lemma init_accounts_signers wallet signers : forall accts idx ab,
  init_accounts wallet signers idx accts = Ok ab ->
  Forall (fun m => m_signer m = true -> m_key m = wallet) (wanted_accounts signers idx accts).
Proof.
  induction accts as [|[k w] r IH]; intros idx ab H; cbn in H |- *; [constructor|].
  destruct (existsb (Z.eqb idx) signers) eqn:Es; cbn [andb] in H.
  - destruct (key_eqb wallet k) eqn:Ek; cbn [negb] in H; [|discriminate].
    apply key_eqb_eq in Ek. unfold rbind in H.
    destruct (init_accounts wallet signers (idx + 1) r) eqn:E; [|discriminate].
    constructor; [cbn; auto|eapply IH; eauto].
  - unfold rbind in H. destruct (init_accounts wallet signers (idx + 1) r) eqn:E; [|discriminate].
    constructor; [cbn; intro; discriminate|eapply IH; eauto].
Qed.

(* and init fails exactly when some listed signer index points at a non-wallet account *)
Fixpoint bad_signer (wallet signers : list Z) (idx : Z) (accts : list (list Z * bool)) : bool :=
  match accts with
  | [] => false
  | (k, _) :: r => (existsb (Z.eqb idx) signers && negb (key_eqb wallet k)) || bad_signer wallet signers (idx + 1) r
  end.

Lemma init_accounts_fails_iff wallet signers : forall accts idx,
  (exists e, init_accounts wallet signers idx accts = Err e) <-> bad_signer wallet signers idx accts = true.
Proof.
  induction accts as [|[k w] r IH]; intros idx; cbn.
  - split; [intros [e H]; discriminate|discriminate].
  - destruct (existsb (Z.eqb idx) signers && negb (key_eqb wallet k)); cbn.
    + split; eauto.
    + unfold rbind. rewrite <- IH.
      destruct (init_accounts wallet signers (idx + 1) r) as [x|x]; split; intros [e' H];
        try discriminate; eauto.
Qed.

(* ------------------------------------------------------------------ load_instruction *)
Lemma len_app {A} (a b : list A) : len (a ++ b) = len a + len b.
Proof. unfold len. rewrite app_length. lia. Qed.

Lemma load_instruction_image disc h data ab :
  length disc = 8%nat -> header_wf h ->
  h_data_len h = len data -> len ab = h_num_accounts h * Z.of_nat ACCOUNT_LEN ->
  load_instruction (disc ++ encode_header h ++ data ++ ab) = Ok (h, data, ab).
Proof.
  intros Hd Hw Hdl Hna. unfold load_instruction.
  pose proof (length_encode_header h Hw) as Hl.
  assert (Hlen : len (disc ++ encode_header h ++ data ++ ab) = 8 + Z.of_nat HEADER_LEN + len data + len ab).
  { rewrite !len_app. unfold len. rewrite Hd, Hl. lia. }
  destruct (len (disc ++ encode_header h ++ data ++ ab) <? 8 + Z.of_nat HEADER_LEN) eqn:E.
  { apply Z.ltb_lt in E. unfold len in *. lia. }
  rewrite (take_app disc _ 8 Hd).
  rewrite (take_app (encode_header h) _ HEADER_LEN Hl).
  rewrite (decode_encode_header h Hw).
  destruct (len (data ++ ab) <? h_data_len h) eqn:E2.
  { apply Z.ltb_lt in E2. rewrite len_app in E2. unfold len in *. lia. }
  rewrite (take_app data ab (Z.to_nat (h_data_len h))).
  2:{ rewrite Hdl. unfold len. lia. }
  destruct (len ab <? h_num_accounts h * Z.of_nat ACCOUNT_LEN) eqn:E3; [apply Z.ltb_lt in E3; lia|].
  reflexivity.
Qed.

Lemma load_and_init_ok disc executor bump rr program data accts signers wallet bytes :
  load_and_init disc executor bump rr program data accts signers wallet = Ok bytes ->
  exists ab, init_accounts wallet signers 0 accts = Ok ab /\ len data <= 65535 /\ len accts <= 65535 /\
    bytes = disc ++ encode_header (mkHeader 0 0 bump 0 executor program (len accts) (len data) rr (zeros 32))
                 ++ data ++ ab.
Proof.
  unfold load_and_init. intro H.
  destruct ((65535 <? len data) || (65535 <? len accts)) eqn:El; [discriminate|].
  apply Bool.orb_false_iff in El as [El1 El2]. apply Z.ltb_ge in El1, El2.
  unfold rbind in H. destruct (init_accounts wallet signers 0 accts) eqn:Ei; [|discriminate].
  exists a. repeat split; auto. injection H as <-. reflexivity.
Qed.

(* ------------------------------------------------------------------ the round trip *)
Theorem roundtrip disc executor bump rr program data accts signers wallet bytes :
  length disc = 8%nat -> length executor = 32%nat -> length rr = 32%nat -> length program = 32%nat ->
  keys_wf accts ->
  load_and_init disc executor bump rr program data accts signers wallet = Ok bytes ->
  exists x,
    load_instruction bytes = Ok x /\
    to_instruction false wallet x = mkInstr program (wanted_accounts signers 0 accts) data /\
    Forall (fun m => m_signer m = true -> m_key m = wallet) (i_accounts (to_instruction false wallet x)).
Proof.
  intros Hd He Hr Hp Hk H.
  apply load_and_init_ok in H as (a & Ei & El1 & El2 & ->).
  set (h := mkHeader 0 0 bump 0 executor program (len accts) (len data) rr (zeros 32)).
  assert (Hw : header_wf h).
  { unfold header_wf, h. cbn. unfold len in *. repeat split; auto; lia. }
  pose proof (init_accounts_length _ _ _ _ _ Hk Ei) as Hal.
  exists (h, data, a). split; [|split].
  - apply load_instruction_image; auto. unfold h, len. cbn [h_num_accounts]. rewrite Hal. unfold ACCOUNT_LEN. lia.
  - unfold to_instruction, h. cbn [h_num_accounts h_program]. unfold len. rewrite Nat2Z.id.
    rewrite <- (app_nil_r a). rewrite (dec_init_accounts _ _ _ _ _ [] Hk Ei). reflexivity.
  - unfold to_instruction, h. cbn [h_num_accounts h_program i_accounts]. unfold len. rewrite Nat2Z.id.
    rewrite <- (app_nil_r a). rewrite (dec_init_accounts _ _ _ _ _ [] Hk Ei).
    eapply init_accounts_signers; eauto.
Qed.

(* load_and_init is rejected exactly for a wrong signer (or oversized input) *)
Theorem load_and_init_rejects disc executor bump rr program data accts signers wallet :
  len data <= 65535 -> len accts <= 65535 ->
  ((exists e, load_and_init disc executor bump rr program data accts signers wallet = Err e)
   <-> bad_signer wallet signers 0 accts = true).
Proof.
  intros H1 H2. unfold load_and_init.
  destruct ((65535 <? len data) || (65535 <? len accts)) eqn:El.
  { apply Bool.orb_true_iff in El as [El|El]; apply Z.ltb_lt in El; lia. }
  rewrite <- init_accounts_fails_iff. unfold rbind.
  destruct (init_accounts wallet signers 0 accts) as [x|x]; split; intros [e' H]; try discriminate; eauto.
Qed.

(* marking the wallet as signer only ever adds the signer flag to wallet accounts *)
Lemma mark_wallet_spec wallet m :
  m_key (mark_wallet wallet m) = m_key m /\ m_writable (mark_wallet wallet m) = m_writable m /\
  m_signer (mark_wallet wallet m) = (m_signer m || key_eqb (m_key m) wallet).
Proof.
  unfold mark_wallet. destruct (key_eqb (m_key m) wallet); cbn; repeat split; auto.
  - symmetry. apply Bool.orb_true_r.
  - symmetry. apply Bool.orb_false_r.
Qed.

(* approval rewrites flag, timestamp and approver only; the stored instruction is untouched *)
Theorem approve_keeps_instruction disc h data ab approver now h' wallet mark :
  length disc = 8%nat -> header_wf h -> length approver = 32%nat -> - 2 ^ 63 <= now < 2 ^ 63 ->
  h_data_len h = len data -> len ab = h_num_accounts h * Z.of_nat ACCOUNT_LEN ->
  approve_header h approver now = Ok h' ->
  load_instruction (disc ++ encode_header h' ++ data ++ ab) = Ok (h', data, ab) /\
  to_instruction mark wallet (h', data, ab) = to_instruction mark wallet (h, data, ab) /\
  Z.testbit (h_flags h') 0 = true /\ h_approved_at h' = now /\ h_approver h' = approver /\
  Z.testbit (h_flags h) 0 = false /\ h_approver h = zeros 32 /\ approver <> zeros 32.
Proof.
  intros Hd Hw Ha Hn Hdl Hna H. unfold approve_header in H.
  destruct (Z.testbit (h_flags h) 0) eqn:Ef; [discriminate|].
  destruct (key_eqb (h_approver h) (zeros 32)) eqn:Ek; cbn [negb] in H; [|discriminate].
  destruct (key_eqb approver (zeros 32)) eqn:Ea; [discriminate|]. inv H.
  apply key_eqb_eq in Ek.
  destruct Hw as (W1 & W2 & W3 & W4 & W5 & W6 & W7).
  split; [|split].
  - apply load_instruction_image; auto. unfold header_wf. cbn. repeat split; auto; lia.
  - reflexivity.
  - cbn [h_flags h_approved_at h_approver].
    split. { rewrite Z.lor_spec. apply Bool.orb_true_r. }
    split; [reflexivity|]. split; [reflexivity|]. split; [reflexivity|]. split; [exact Ek|].
    intro Hc. rewrite Hc, key_eqb_refl in Ea. discriminate.
Qed.
