(* C36 — part B: protocol lemmas *)
From GV Require Import lib.Base C36.Model.
Open Scope Z_scope.

Ltac inv H := inversion H; subst; clear H.

(* ------------------------------------------------------------------ get / set *)
Lemma nth_set_nth_eq l : forall n a x, nth_error l n = Some x -> nth_error (set_nth l n a) n = Some a.
Proof. induction l; intros [|n] b x H; cbn in *; try discriminate; eauto. Qed.

Lemma nth_set_nth_neq l : forall n m a, n <> m -> nth_error (set_nth l n a) m = nth_error l m.
Proof. induction l; intros [|n] [|m] b H; cbn in *; try congruence; auto. Qed.

Definition getl (l : list buffer) (id : Z) : option buffer :=
  if id <? 0 then None else nth_error l (Z.to_nat id).

Lemma get_getl w id : get w id = getl (w_bufs w) id.
Proof. reflexivity. Qed.

Lemma getl_nonneg l id b : getl l id = Some b -> 0 <= id.
Proof. unfold getl. destruct (id <? 0) eqn:E; [discriminate|]. apply Z.ltb_ge in E. auto. Qed.

Lemma getl_set_eq l id a x : getl l id = Some x -> getl (set_nth l (Z.to_nat id) a) id = Some a.
Proof. unfold getl. destruct (id <? 0); [discriminate|]. apply nth_set_nth_eq. Qed.

Lemma getl_set_neq l id id' a x : getl l id = Some x -> id <> id' ->
  getl (set_nth l (Z.to_nat id) a) id' = getl l id'.
Proof.
  intros Hg Hne. pose proof (getl_nonneg _ _ _ Hg). unfold getl.
  destruct (id' <? 0) eqn:E; auto. apply Z.ltb_ge in E.
  apply nth_set_nth_neq. intro Hc. apply Hne. apply Z2Nat.inj in Hc; auto.
Qed.

Lemma getl_app_old l a id x : getl l id = Some x -> getl (l ++ [a]) id = Some x.
Proof.
  unfold getl. destruct (id <? 0); [discriminate|]. intro H.
  rewrite nth_error_app1; auto. apply nth_error_Some. congruence.
Qed.

Lemma getl_app_new l a : getl (l ++ [a]) (len l) = Some a.
Proof.
  unfold getl, len. destruct (Z.of_nat (length l) <? 0) eqn:E; [apply Z.ltb_lt in E; lia|].
  rewrite Nat2Z.id, nth_error_app2, Nat.sub_diag by lia. reflexivity.
Qed.

Lemma getl_app_inv l a id x : getl (l ++ [a]) id = Some x -> getl l id = Some x \/ (id = len l /\ x = a).
Proof.
  unfold getl, len. destruct (id <? 0) eqn:E; [discriminate|]. apply Z.ltb_ge in E. intro H.
  destruct (Nat.lt_ge_cases (Z.to_nat id) (length l)) as [Hlt|Hge].
  - rewrite nth_error_app1 in H by auto. auto.
  - rewrite nth_error_app2 in H by auto.
    destruct (Z.to_nat id - length l)%nat as [|n] eqn:En; cbn in H.
    + inv H. right. split; auto. lia.
    + destruct n; discriminate.
Qed.

Lemma getl_lt l id x : getl l id = Some x -> id < len l.
Proof.
  unfold getl, len. destruct (id <? 0) eqn:E; [discriminate|]. apply Z.ltb_ge in E. intro H.
  assert (Z.to_nat id < length l)%nat by (apply nth_error_Some; congruence). lia.
Qed.

Lemma live_ok w id b : live w id = Ok b -> get w id = Some b /\ b_open b = true.
Proof.
  unfold live. destruct (get w id) eqn:E; [|discriminate].
  destruct (b_open b0) eqn:Eo; [|discriminate]. intro H. inv H. auto.
Qed.

(* ------------------------------------------------------------------ step inversion *)
Lemma step_create_inv w c r ix w' :
  step w (TCreate c r ix) = Ok w' ->
  has_role (w_roles w) c ROLE_KEEPER = true /\
  w' = mkWorld (w_bufs w ++ [mkBuf true r ix false 0 0 0]) (w_delay w) (w_roles w) (w_now w)
               (w_approvals w) (w_execs w) ((len (w_bufs w), ix) :: w_created w).
Proof.
  cbn [step]. destruct (has_role (w_roles w) c ROLE_KEEPER); cbn [negb]; [|discriminate].
  intro H. inv H. auto.
Qed.

Lemma step_approve_inv w c role id w' :
  step w (TApprove c role id) = Ok w' ->
  exists b, get w id = Some b /\ b_open b = true /\ b_role b = role /\
    has_role (w_roles w) c (timelocked role) = true /\ b_approved b = false /\ b_approver b = 0 /\ c <> 0 /\
    w' = mkWorld (set_nth (w_bufs w) (Z.to_nat id) (mkBuf true (b_role b) (b_ix b) true c (w_now w) (b_napprove b + 1)))
                 (w_delay w) (w_roles w) (w_now w)
                 (mkApproval id c (w_now w) (w_delay w) (has_role (w_roles w) c (timelocked (b_role b))) :: w_approvals w)
                 (w_execs w) (w_created w).
Proof.
  cbn [step]. unfold rbind. destruct (live w id) eqn:El; [|discriminate].
  apply live_ok in El as [Hg Ho].
  destruct (b_role a =? role) eqn:Er; cbn [negb]; [|discriminate]. apply Z.eqb_eq in Er.
  destruct (has_role (w_roles w) c (timelocked role)) eqn:Eh; cbn [negb]; [|discriminate].
  destruct (b_approved a) eqn:Ea; [discriminate|].
  destruct (b_approver a =? 0) eqn:Ep; cbn [negb]; [|discriminate]. apply Z.eqb_eq in Ep.
  destruct (c =? 0) eqn:Ec; [discriminate|]. apply Z.eqb_neq in Ec.
  intro H. inv H. exists a. repeat split; auto.
Qed.

Lemma step_cancel_inv w c id w' :
  step w (TCancel c id) = Ok w' ->
  exists b, has_role (w_roles w) c ROLE_ADMIN = true /\ get w id = Some b /\ b_open b = true /\
    w' = with_bufs w (set_nth (w_bufs w) (Z.to_nat id)
           (mkBuf false (b_role b) (b_ix b) (b_approved b) (b_approver b) (b_approved_at b) (b_napprove b))).
Proof.
  cbn [step]. unfold rbind. destruct (live w id) eqn:El; [|discriminate]. apply live_ok in El as [Hg Ho].
  destruct (has_role (w_roles w) c ROLE_ADMIN) eqn:Eh; cbn [negb]; [|discriminate].
  intro H. inv H. exists a. auto.
Qed.

Lemma step_execute_inv w c id w' :
  step w (TExecute c id) = Ok w' ->
  exists b, has_role (w_roles w) c ROLE_KEEPER = true /\ get w id = Some b /\ b_open b = true /\
    b_approver b <> 0 /\ has_role (w_roles w) (b_approver b) (timelocked (b_role b)) = true /\
    b_approved b = true /\ executable_at (b_approved_at b) (w_delay w) <= w_now w /\
    w' = mkWorld (set_nth (w_bufs w) (Z.to_nat id)
                   (mkBuf false (b_role b) (b_ix b) (b_approved b) (b_approver b) (b_approved_at b) (b_napprove b)))
                 (w_delay w) (w_roles w) (w_now w) (w_approvals w)
                 (mkExec id (b_ix b) (b_role b) (b_approver b) (b_approved_at b) (w_now w) (w_delay w)
                         (has_role (w_roles w) (b_approver b) (timelocked (b_role b))) :: w_execs w)
                 (w_created w).
Proof.
  cbn [step]. unfold rbind. destruct (live w id) eqn:El; [|discriminate]. apply live_ok in El as [Hg Ho].
  destruct (has_role (w_roles w) c ROLE_KEEPER) eqn:Eh; cbn [negb]; [|discriminate].
  destruct (b_approver a =? 0) eqn:Ep; [discriminate|]. apply Z.eqb_neq in Ep.
  destruct (is_member (w_roles w) (b_approver a)) eqn:Em; cbn [negb]; [|discriminate].
  destruct (has_role (w_roles w) (b_approver a) (timelocked (b_role a))) eqn:Er; cbn [negb]; [|discriminate].
  destruct (is_executable (b_approved a) (b_approved_at a) (w_delay w) (w_now w)) eqn:Ee; cbn [negb]; [|discriminate].
  unfold is_executable in Ee. apply Bool.andb_true_iff in Ee as [Ea Et]. apply Z.leb_le in Et.
  intro H. inv H. exists a. rewrite Er. repeat split; auto.
Qed.

Lemma increase_delay_ok d delta d' : increase_delay d delta = Ok d' -> d' = d + delta /\ 0 < delta /\ d' <= U32_MAX.
Proof.
  unfold increase_delay. destruct ((delta <? 0) || (U32_MAX <? delta)) eqn:Er; [discriminate|].
  apply Bool.orb_false_iff in Er as [Er _]. apply Z.ltb_ge in Er.
  destruct (delta =? 0) eqn:E0; [discriminate|]. apply Z.eqb_neq in E0.
  destruct (U32_MAX <? d + delta) eqn:E1; [discriminate|]. apply Z.ltb_ge in E1. intro H. inv H. repeat split; auto; lia.
Qed.

(* ------------------------------------------------------------------ how a buffer may change *)
Definition bevolves (b b' : buffer) : Prop :=
  b_role b' = b_role b /\ b_ix b' = b_ix b /\
  (b_open b = false -> b' = b) /\
  (b_approved b = true -> b_approved b' = true /\ b_approver b' = b_approver b /\
                          b_approved_at b' = b_approved_at b /\ b_napprove b' = b_napprove b) /\
  b_napprove b <= b_napprove b'.

Lemma bevolves_refl b : bevolves b b.
Proof. unfold bevolves. repeat split; auto; lia. Qed.

Lemma bevolves_trans a b c : bevolves a b -> bevolves b c -> bevolves a c.
Proof.
  unfold bevolves. intros (R1 & I1 & O1 & A1 & N1) (R2 & I2 & O2 & A2 & N2).
  split; [congruence|]. split; [congruence|]. split; [|split; [|lia]].
  - intro Hc. pose proof (O1 Hc) as Hb. subst b. auto.
  - intro Ha. destruct (A1 Ha) as (X1 & X2 & X3 & X4). destruct (A2 X1) as (Y1 & Y2 & Y3 & Y4).
    repeat split; congruence.
Qed.

Lemma step_bevolves w o w' id b :
  step w o = Ok w' -> get w id = Some b -> exists b', get w' id = Some b' /\ bevolves b b'.
Proof.
  intros H Hg. rewrite get_getl in Hg. destruct o.
  - apply step_create_inv in H as (_ & ->). exists b. split; [|apply bevolves_refl].
    rewrite get_getl. cbn [w_bufs]. apply getl_app_old. auto.
  - apply step_approve_inv in H as (x & Hx & Ho & Hr & Hh & Ha & Hp & Hc & ->).
    rewrite get_getl in Hx. rewrite get_getl. cbn [w_bufs].
    destruct (Z.eq_dec id0 id) as [->|Hne].
    + rewrite Hg in Hx. inv Hx. eexists. split; [eapply getl_set_eq; eauto|].
      unfold bevolves. cbn. repeat split; auto; try congruence; lia.
    + exists b. split; [|apply bevolves_refl]. rewrite (getl_set_neq _ _ _ _ _ Hx Hne). auto.
  - apply step_cancel_inv in H as (x & Hh & Hx & Ho & ->).
    rewrite get_getl in Hx. rewrite get_getl. cbn [w_bufs with_bufs].
    destruct (Z.eq_dec id0 id) as [->|Hne].
    + rewrite Hg in Hx. inv Hx. eexists. split; [eapply getl_set_eq; eauto|].
      unfold bevolves. cbn. repeat split; auto; try congruence; lia.
    + exists b. split; [|apply bevolves_refl]. rewrite (getl_set_neq _ _ _ _ _ Hx Hne). auto.
  - apply step_execute_inv in H as (x & Hh & Hx & Ho & Hp & Hr & Ha & Ht & ->).
    rewrite get_getl in Hx. rewrite get_getl. cbn [w_bufs].
    destruct (Z.eq_dec id0 id) as [->|Hne].
    + rewrite Hg in Hx. inv Hx. eexists. split; [eapply getl_set_eq; eauto|].
      unfold bevolves. cbn. repeat split; auto; try congruence; lia.
    + exists b. split; [|apply bevolves_refl]. rewrite (getl_set_neq _ _ _ _ _ Hx Hne). auto.
  - cbn [step] in H. destruct (has_role (w_roles w) caller ROLE_ADMIN); cbn [negb] in H; [|discriminate].
    unfold rbind in H. destruct (increase_delay (w_delay w) delta); [|discriminate]. inv H.
    exists b. split; [auto|apply bevolves_refl].
  - cbn [step] in H. inv H. exists b. split; [auto|apply bevolves_refl].
  - cbn [step] in H. inv H. exists b. split; [auto|apply bevolves_refl].
  - cbn [step] in H. destruct ((dt <? 0) || (I64_MAX <? w_now w + dt)); [discriminate|]. inv H.
    exists b. split; [auto|apply bevolves_refl].
Qed.

Lemma apply_bevolves w o id b :
  get w id = Some b -> exists b', get (apply w o) id = Some b' /\ bevolves b b'.
Proof.
  intro Hg. unfold apply. destruct (step w o) eqn:E.
  - eapply step_bevolves; eauto.
  - exists b. split; auto. apply bevolves_refl.
Qed.

Lemma run_bevolves ops : forall w id b,
  get w id = Some b -> exists b', get (run ops w) id = Some b' /\ bevolves b b'.
Proof.
  induction ops; intros w id b Hg; cbn.
  - exists b. split; auto. apply bevolves_refl.
  - destruct (apply_bevolves w a id b Hg) as (b1 & H1 & E1).
    destruct (IHops _ _ _ H1) as (b2 & H2 & E2).
    exists b2. split; auto. eapply bevolves_trans; eauto.
Qed.

(* ------------------------------------------------------------------ monotone components *)
Definition mono (w w' : world) : Prop :=
  w_delay w <= w_delay w' /\ w_now w <= w_now w' /\
  incl (w_approvals w) (w_approvals w') /\ incl (w_execs w) (w_execs w') /\ incl (w_created w) (w_created w').

Lemma mono_refl w : mono w w.
Proof. unfold mono. repeat split; try lia; apply incl_refl. Qed.

Lemma mono_trans a b c : mono a b -> mono b c -> mono a c.
Proof.
  unfold mono. intros (D1 & N1 & A1 & E1 & C1) (D2 & N2 & A2 & E2 & C2).
  repeat split; try lia; eapply incl_tran; eauto.
Qed.

Lemma step_mono w o w' : step w o = Ok w' -> mono w w'.
Proof.
  intro H. destruct o.
  - apply step_create_inv in H as (_ & ->). unfold mono. cbn. repeat split; try lia; try apply incl_refl.
    apply incl_tl, incl_refl.
  - apply step_approve_inv in H as (x & _ & _ & _ & _ & _ & _ & _ & ->).
    unfold mono. cbn. repeat split; try lia; try apply incl_refl. apply incl_tl, incl_refl.
  - apply step_cancel_inv in H as (x & _ & _ & _ & ->). unfold mono. cbn. repeat split; try lia; apply incl_refl.
  - apply step_execute_inv in H as (x & _ & _ & _ & _ & _ & _ & _ & ->).
    unfold mono. cbn. repeat split; try lia; try apply incl_refl. apply incl_tl, incl_refl.
  - cbn [step] in H. destruct (has_role (w_roles w) caller ROLE_ADMIN); cbn [negb] in H; [|discriminate].
    unfold rbind in H. destruct (increase_delay (w_delay w) delta) eqn:E; [|discriminate]. inv H.
    apply increase_delay_ok in E as (-> & Hd & _).
    unfold mono. cbn. repeat split; try lia; try apply incl_refl.
  - cbn [step] in H. inv H. unfold mono. cbn. repeat split; try lia; apply incl_refl.
  - cbn [step] in H. inv H. unfold mono. cbn. repeat split; try lia; apply incl_refl.
  - cbn [step] in H. destruct ((dt <? 0) || (I64_MAX <? w_now w + dt)) eqn:E; [discriminate|]. inv H.
    apply Bool.orb_false_iff in E as [E1 E2]. apply Z.ltb_ge in E1.
    unfold mono. cbn. repeat split; try lia; apply incl_refl.
Qed.

(* ------------------------------------------------------------------ invariants *)
Lemma getl_set l id nb x id' : getl l id = Some x ->
  getl (set_nth l (Z.to_nat id) nb) id' = if id' =? id then Some nb else getl l id'.
Proof.
  intro H. destruct (id' =? id) eqn:E.
  - apply Z.eqb_eq in E. subst. eapply getl_set_eq; eauto.
  - apply Z.eqb_neq in E. eapply getl_set_neq; eauto.
Qed.

Record winv (w : world) : Prop := {
  wi_d : 0 <= w_delay w <= U32_MAX;
  wi_n : forall id b, get w id = Some b -> b_napprove b = (if b_approved b then 1 else 0);
  wi_c : forall id b, get w id = Some b -> In (id, b_ix b) (w_created w);
  wi_cu : forall id ix, In (id, ix) (w_created w) -> exists b, get w id = Some b /\ b_ix b = ix;
  wi_a : forall id b, get w id = Some b -> b_approved b = true ->
         exists a, In a (w_approvals w) /\ ap_id a = id /\ ap_by a = b_approver b /\ ap_at a = b_approved_at b;
  wi_au : forall a, In a (w_approvals w) ->
         ap_held a = true /\ ap_delay a <= w_delay w /\ ap_at a <= w_now w /\
         exists b, get w (ap_id a) = Some b /\ b_approved b = true;
  wi_and : NoDup (map ap_id (w_approvals w));
  wi_e : forall e, In e (w_execs w) ->
         ex_still_holds e = true /\
         (exists a, In a (w_approvals w) /\ ap_id a = ex_id e /\ ap_by a = ex_approver e /\
                    ap_at a = ex_approved_at e /\ ap_held a = true /\ ap_delay a <= ex_delay e) /\
         executable_at (ex_approved_at e) (ex_delay e) <= ex_at e /\ ex_at e <= w_now w /\
         ex_delay e <= w_delay w /\
         In (ex_id e, ex_ix e) (w_created w) /\
         exists b, get w (ex_id e) = Some b /\ b_open b = false;
  wi_end : NoDup (map ex_id (w_execs w))
}.

Lemma winv_init delay roles now : 0 <= delay <= U32_MAX -> winv (init delay roles now).
Proof.
  intro H. split; cbn; auto; try (intros; contradiction); try constructor.
  all: intros id b Hg; unfold get in Hg; cbn in Hg; destruct (id <? 0); try discriminate;
    destruct (Z.to_nat id); discriminate.
Qed.

(* facts about a buffer that survive any step *)
Lemma keep_approved w o w' id b :
  step w o = Ok w' -> get w id = Some b -> b_approved b = true ->
  exists b', get w' id = Some b' /\ b_approved b' = true /\ b_approver b' = b_approver b /\
             b_approved_at b' = b_approved_at b.
Proof.
  intros H Hg Ha. destruct (step_bevolves _ _ _ _ _ H Hg) as (b' & Hg' & (_ & _ & _ & A & _)).
  destruct (A Ha) as (X1 & X2 & X3 & _). eauto.
Qed.

Lemma keep_closed w o w' id b :
  step w o = Ok w' -> get w id = Some b -> b_open b = false -> get w' id = Some b.
Proof.
  intros H Hg Hc. destruct (step_bevolves _ _ _ _ _ H Hg) as (b' & Hg' & (_ & _ & O & _)).
  rewrite (O Hc) in Hg'. auto.
Qed.

Lemma keep_ix w o w' id b :
  step w o = Ok w' -> get w id = Some b -> exists b', get w' id = Some b' /\ b_ix b' = b_ix b.
Proof.
  intros H Hg. destruct (step_bevolves _ _ _ _ _ H Hg) as (b' & Hg' & (_ & I & _)). eauto.
Qed.

(* the parts of the invariant that only need monotonicity + the keep lemmas *)
Lemma winv_frame w o w' :
  winv w -> step w o = Ok w' ->
  w_approvals w' = w_approvals w -> w_execs w' = w_execs w -> w_created w' = w_created w ->
  0 <= w_delay w' <= U32_MAX ->
  (forall id b, get w' id = Some b -> b_napprove b = (if b_approved b then 1 else 0)) ->
  (forall id b', get w' id = Some b' -> exists b, get w id = Some b /\ b_ix b = b_ix b' /\
        (b_approved b' = true -> b_approved b = true /\ b_approver b = b_approver b' /\ b_approved_at b = b_approved_at b')) ->
  winv w'.
Proof.
  intros W H Ha He Hc Hd Hn Hback. pose proof (step_mono _ _ _ H) as (M1 & M2 & _).
  split; auto.
  - intros id b Hg. destruct (Hback _ _ Hg) as (b0 & Hg0 & Hi & _). rewrite Hc, <- Hi. eapply wi_c; eauto.
  - intros id ix Hin. rewrite Hc in Hin. destruct (wi_cu _ W _ _ Hin) as (b & Hg & Hi).
    destruct (keep_ix _ _ _ _ _ H Hg) as (b' & Hg' & Hi'). exists b'. split; auto. congruence.
  - intros id b Hg Hap. destruct (Hback _ _ Hg) as (b0 & Hg0 & _ & Hk). destruct (Hk Hap) as (K1 & K2 & K3).
    destruct (wi_a _ W _ _ Hg0 K1) as (a & Hin & A1 & A2 & A3). exists a. rewrite Ha. repeat split; auto; congruence.
  - intros a Hin. rewrite Ha in Hin. destruct (wi_au _ W _ Hin) as (A1 & A2 & A3 & b & Hg & Hb).
    destruct (keep_approved _ _ _ _ _ H Hg Hb) as (b' & Hg' & Hb' & _).
    repeat split; auto; try lia. eauto.
  - rewrite Ha. apply (wi_and _ W).
  - intros e Hin. rewrite He in Hin.
    destruct (wi_e _ W _ Hin) as (E1 & (a & Hina & E2) & E3 & E4 & E5 & E6 & b & Hg & Hb).
    split; auto. split; [exists a; rewrite Ha; auto|]. split; auto. split; [lia|]. split; [lia|].
    split; [rewrite Hc; auto|]. exists b. split; auto. eapply keep_closed; eauto.
  - rewrite He. apply (wi_end _ W).
Qed.

Lemma step_winv w o w' : winv w -> step w o = Ok w' -> winv w'.
Proof.
  intros W H. pose proof (step_mono _ _ _ H) as (M1 & M2 & M3 & M4 & M5).
  destruct o.
  - (* create *)
    pose proof H as H0. apply step_create_inv in H0 as (Hr & ->).
    split; cbn [w_delay w_approvals w_execs w_created w_now] in *.
    + apply (wi_d _ W).
    + intros id b Hg. rewrite get_getl in Hg. cbn [w_bufs] in Hg.
      apply getl_app_inv in Hg as [Hg|[-> ->]]; [eapply wi_n; eauto|reflexivity].
    + intros id b Hg. rewrite get_getl in Hg. cbn [w_bufs] in Hg.
      apply getl_app_inv in Hg as [Hg|[-> ->]]; [right; eapply wi_c; eauto|left; reflexivity].
    + intros id ix0 [Hin|Hin].
      * inv Hin. eexists. rewrite get_getl. cbn [w_bufs]. split; [apply getl_app_new|reflexivity].
      * destruct (wi_cu _ W _ _ Hin) as (b & Hg & Hi). exists b. split; auto.
        rewrite get_getl. cbn [w_bufs]. apply getl_app_old. auto.
    + intros id b Hg Hap. rewrite get_getl in Hg. cbn [w_bufs] in Hg.
      apply getl_app_inv in Hg as [Hg|[-> ->]]; [eapply wi_a; eauto|discriminate].
    + intros a Hin. destruct (wi_au _ W _ Hin) as (A1 & A2 & A3 & b & Hg & Hb).
      repeat split; auto. exists b. split; auto. rewrite get_getl. cbn [w_bufs]. apply getl_app_old. auto.
    + apply (wi_and _ W).
    + intros e Hin. destruct (wi_e _ W _ Hin) as (E1 & E2 & E3 & E4 & E5 & E6 & b & Hg & Hb).
      split; [exact E1|]. split; [exact E2|]. split; [exact E3|]. split; [exact E4|]. split; [exact E5|].
      split; [right; exact E6|].
      exists b. split; auto. rewrite get_getl. cbn [w_bufs]. apply getl_app_old. auto.
    + apply (wi_end _ W).
  - (* approve *)
    pose proof H as H0. apply step_approve_inv in H0 as (x & Hx & Ho & Hrl & Hh & Hna & Hp & Hc & ->).
    subst role. rewrite get_getl in Hx.
    assert (Hget : forall id', get (mkWorld (set_nth (w_bufs w) (Z.to_nat id)
                     (mkBuf true (b_role x) (b_ix x) true caller (w_now w) (b_napprove x + 1)))
                     (w_delay w) (w_roles w) (w_now w)
                     (mkApproval id caller (w_now w) (w_delay w) (has_role (w_roles w) caller (timelocked (b_role x))) :: w_approvals w)
                     (w_execs w) (w_created w)) id' =
                   if id' =? id then Some (mkBuf true (b_role x) (b_ix x) true caller (w_now w) (b_napprove x + 1))
                   else get w id').
    { intro id'. rewrite get_getl. cbn [w_bufs]. apply (getl_set _ _ _ _ _ Hx). }
    pose proof (wi_n _ W _ _ Hx) as Hn0. rewrite Hna in Hn0.
    split; cbn [w_delay w_approvals w_execs w_created w_now] in *.
    + apply (wi_d _ W).
    + intros id' b Hg. rewrite Hget in Hg. destruct (id' =? id); [inv Hg; cbn; lia|eapply wi_n; eauto].
    + intros id' b Hg. rewrite Hget in Hg. destruct (id' =? id) eqn:E.
      * apply Z.eqb_eq in E. subst. inv Hg. cbn. eapply (wi_c _ W); eauto.
      * eapply wi_c; eauto.
    + intros id' ix Hin. destruct (wi_cu _ W _ _ Hin) as (b & Hg & Hi).
      destruct (id' =? id) eqn:E.
      * apply Z.eqb_eq in E. subst. rewrite get_getl, Hx in Hg. inv Hg.
        pose proof (Hget id) as G; rewrite Z.eqb_refl in G; eexists; split; [exact G|reflexivity].
      * match goal with |- exists _, get _ ?i = _ /\ _ => pose proof (Hget i) as G; rewrite E in G; exists b; split; [rewrite G; auto|auto] end.
    + intros id' b Hg Hap. rewrite Hget in Hg. destruct (id' =? id) eqn:E.
      * apply Z.eqb_eq in E. subst. inv Hg. eexists. split; [left; reflexivity|]. cbn. auto.
      * destruct (wi_a _ W _ _ Hg Hap) as (a & Hin & A). exists a. split; [right; auto|auto].
    + intros a [<-|Hin].
      * cbn [ap_held ap_delay ap_at ap_id].
        split; [auto|]. split; [lia|]. split; [lia|].
        pose proof (Hget id) as G; rewrite Z.eqb_refl in G; eexists; split; [exact G|reflexivity].
      * destruct (wi_au _ W _ Hin) as (A1 & A2 & A3 & b & Hg & Hb).
        split; [auto|]. split; [auto|]. split; [auto|].
        destruct (ap_id a =? id) eqn:E.
        -- match goal with |- exists _, get _ ?i = _ /\ _ => pose proof (Hget i) as G; rewrite E in G; eexists; split; [exact G|reflexivity] end.
        -- match goal with |- exists _, get _ ?i = _ /\ _ => pose proof (Hget i) as G; rewrite E in G; exists b; split; [rewrite G; auto|auto] end.
    + cbn [map ap_id]. constructor; [|apply (wi_and _ W)].
      intro Hin. apply in_map_iff in Hin as (a & Ha1 & Ha2).
      destruct (wi_au _ W _ Ha2) as (_ & _ & _ & b & Hg & Hb). rewrite Ha1, get_getl, Hx in Hg. inv Hg. congruence.
    + intros e Hin. destruct (wi_e _ W _ Hin) as (E1 & (a & Hina & E2) & E3 & E4 & E5 & E6 & b & Hg & Hb).
      split; auto. split; [exists a; split; [right; auto|auto]|].
      split; [auto|]. split; [auto|]. split; [auto|]. split; [auto|].
      exists b. split; auto. rewrite Hget. destruct (ex_id e =? id) eqn:E; auto.
      apply Z.eqb_eq in E. rewrite E, get_getl, Hx in Hg. inv Hg. congruence.
    + apply (wi_end _ W).
  - (* cancel *)
    pose proof H as H0. apply step_cancel_inv in H0 as (x & Hh & Hx & Ho & Hw).
    apply (winv_frame _ _ _ W H); subst w'; cbn [w_approvals w_execs w_created w_delay with_bufs]; auto.
    + apply (wi_d _ W).
    + intros id' b Hg. rewrite get_getl in Hg, Hx. cbn [w_bufs with_bufs] in Hg.
      rewrite (getl_set _ _ _ _ _ Hx) in Hg. destruct (id' =? id) eqn:E.
      * inv Hg. cbn. rewrite <- get_getl in Hx. apply (wi_n _ W _ _ Hx).
      * apply (wi_n _ W id' b Hg).
    + intros id' b' Hg. rewrite get_getl in Hg, Hx. cbn [w_bufs with_bufs] in Hg.
      rewrite (getl_set _ _ _ _ _ Hx) in Hg. destruct (id' =? id) eqn:E.
      * apply Z.eqb_eq in E. subst. inv Hg. exists x. cbn. auto.
      * exists b'. auto.
  - (* execute *)
    pose proof H as H0.
    apply step_execute_inv in H0 as (x & Hh & Hx & Ho & Hp & Hr & Ha & Ht & ->).
    rewrite get_getl in Hx.
    set (nb := mkBuf false (b_role x) (b_ix x) (b_approved x) (b_approver x) (b_approved_at x) (b_napprove x)) in *.
    assert (Hget : forall id', get (mkWorld (set_nth (w_bufs w) (Z.to_nat id) nb) (w_delay w) (w_roles w) (w_now w)
                     (w_approvals w)
                     (mkExec id (b_ix x) (b_role x) (b_approver x) (b_approved_at x) (w_now w) (w_delay w)
                             (has_role (w_roles w) (b_approver x) (timelocked (b_role x))) :: w_execs w)
                     (w_created w)) id'
                   = if id' =? id then Some nb else get w id').
    { intros id'. rewrite get_getl. cbn [w_bufs]. apply (getl_set _ _ _ _ _ Hx). }
    rewrite <- get_getl in Hx.
    split; cbn [w_delay w_approvals w_execs w_created w_now] in *.
    + apply (wi_d _ W).
    + intros id' b Hg. rewrite Hget in Hg. destruct (id' =? id); [inv Hg; cbn; apply (wi_n _ W _ _ Hx)|eapply wi_n; eauto].
    + intros id' b Hg. rewrite Hget in Hg. destruct (id' =? id) eqn:E.
      * apply Z.eqb_eq in E. subst. inv Hg. cbn. eapply (wi_c _ W); eauto.
      * eapply wi_c; eauto.
    + intros id' ix Hin. destruct (wi_cu _ W _ _ Hin) as (b & Hg & Hi).
      destruct (id' =? id) eqn:E.
      * apply Z.eqb_eq in E. subst. rewrite Hx in Hg. inv Hg.
        pose proof (Hget id) as G; rewrite Z.eqb_refl in G; eexists; split; [exact G|reflexivity].
      * match goal with |- exists _, get _ ?i = _ /\ _ => pose proof (Hget i) as G; rewrite E in G; exists b; split; [rewrite G; auto|auto] end.
    + intros id' b Hg Hap. rewrite Hget in Hg. destruct (id' =? id) eqn:E.
      * apply Z.eqb_eq in E. subst. inv Hg. cbn in *. eapply (wi_a _ W); eauto.
      * eapply wi_a; eauto.
    + intros a Hin. destruct (wi_au _ W _ Hin) as (A1 & A2 & A3 & b & Hg & Hb).
      split; [auto|]. split; [auto|]. split; [auto|].
      destruct (ap_id a =? id) eqn:E.
      * pose proof (Hget (ap_id a)) as G. rewrite E in G. apply Z.eqb_eq in E. rewrite E, Hx in Hg.
        injection Hg as <-. eexists; split; [exact G|]. cbn. auto.
      * match goal with |- exists _, get _ ?i = _ /\ _ => pose proof (Hget i) as G; rewrite E in G; exists b; split; [rewrite G; auto|auto] end.
    + apply (wi_and _ W).
    + intros e [<-|Hin].
      * cbn [ex_still_holds ex_id ex_ix ex_approver ex_approved_at ex_at ex_delay].
        destruct (wi_a _ W _ _ Hx Ha) as (a & Hina & A1 & A2 & A3).
        destruct (wi_au _ W _ Hina) as (B1 & B2 & B3 & _).
        split; auto. split; [exists a; repeat split; auto|].
        split; auto. split; [lia|]. split; [lia|]. split; [apply (wi_c _ W _ _ Hx)|].
        pose proof (Hget id) as G; rewrite Z.eqb_refl in G; exists nb; split; [exact G|reflexivity].
      * destruct (wi_e _ W _ Hin) as (E1 & E2 & E3 & E4 & E5 & E6 & b & Hg & Hb).
        split; [auto|]. split; [auto|]. split; [auto|]. split; [auto|]. split; [auto|]. split; [auto|].
        destruct (ex_id e =? id) eqn:E.
        -- match goal with |- exists _, get _ ?i = _ /\ _ => pose proof (Hget i) as G; rewrite E in G; eexists; split; [exact G|reflexivity] end.
        -- match goal with |- exists _, get _ ?i = _ /\ _ => pose proof (Hget i) as G; rewrite E in G; exists b; split; [rewrite G; auto|auto] end.
    + cbn [map ex_id]. constructor; [|apply (wi_end _ W)].
      intro Hin. apply in_map_iff in Hin as (e & He1 & He2).
      destruct (wi_e _ W _ He2) as (_ & _ & _ & _ & _ & _ & b & Hg & Hb). rewrite He1, Hx in Hg. inv Hg. congruence.
  - (* increase delay *)
    pose proof H as H0. cbn [step] in H0.
    destruct (has_role (w_roles w) caller ROLE_ADMIN); cbn [negb] in H0; [|discriminate].
    unfold rbind in H0. destruct (increase_delay (w_delay w) delta) eqn:E; [|discriminate]. inv H0.
    apply increase_delay_ok in E as (E1 & Hd & Hu). pose proof (wi_d _ W).
    apply (winv_frame _ _ _ W H); cbn [w_approvals w_execs w_created w_delay]; auto; try lia.
    + intros id b Hg. apply (wi_n _ W id b Hg).
    + intros id b' Hg. exists b'. auto.
  - pose proof H as H0. cbn [step] in H0. inv H0.
    apply (winv_frame _ _ _ W H); cbn [w_approvals w_execs w_created w_delay]; auto.
    + apply (wi_d _ W).
    + intros id b Hg. apply (wi_n _ W id b Hg).
    + intros id b' Hg. exists b'. auto.
  - pose proof H as H0. cbn [step] in H0. inv H0.
    apply (winv_frame _ _ _ W H); cbn [w_approvals w_execs w_created w_delay]; auto.
    + apply (wi_d _ W).
    + intros id b Hg. apply (wi_n _ W id b Hg).
    + intros id b' Hg. exists b'. auto.
  - pose proof H as H0. cbn [step] in H0.
    destruct ((dt <? 0) || (I64_MAX <? w_now w + dt)); [discriminate|]. inv H0.
    apply (winv_frame _ _ _ W H); cbn [w_approvals w_execs w_created w_delay]; auto.
    + apply (wi_d _ W).
    + intros id b Hg. apply (wi_n _ W id b Hg).
    + intros id b' Hg. exists b'. auto.
Qed.

Lemma apply_winv w o : winv w -> winv (apply w o).
Proof. intro W. unfold apply. destruct (step w o) eqn:E; auto. eapply step_winv; eauto. Qed.

Lemma run_winv ops : forall w, winv w -> winv (run ops w).
Proof. induction ops; intros w W; cbn; auto. apply IHops, apply_winv; auto. Qed.

Lemma apply_mono w o : mono w (apply w o).
Proof. unfold apply. destruct (step w o) eqn:E; [eapply step_mono; eauto|apply mono_refl]. Qed.

Lemma run_mono ops : forall w, mono w (run ops w).
Proof.
  induction ops; intros w; cbn; [apply mono_refl|].
  eapply mono_trans; [apply apply_mono|apply IHops].
Qed.

Lemma run_app ops1 ops2 w : run (ops1 ++ ops2) w = run ops2 (run ops1 w).
Proof. unfold run. apply fold_left_app. Qed.

(* ------------------------------------------------------------------ property lemmas *)

(* every execution that ever happened was approved by a holder of the timelocked role who still held it
   at execution time, happened no earlier than approval time + the delay in force at execution (which is
   at least the delay in force at approval), and ran the instruction that was created under that id *)
Lemma execute_requires delay roles now ops e :
  0 <= delay <= U32_MAX ->
  In e (w_execs (run ops (init delay roles now))) ->
  ex_still_holds e = true /\
  (exists a, In a (w_approvals (run ops (init delay roles now))) /\
             ap_id a = ex_id e /\ ap_by a = ex_approver e /\ ap_at a = ex_approved_at e /\
             ap_held a = true /\ ap_delay a <= ex_delay e) /\
  Z.min (ex_approved_at e + ex_delay e) I64_MAX <= ex_at e /\
  In (ex_id e, ex_ix e) (w_created (run ops (init delay roles now))).
Proof.
  intros Hd Hin. pose proof (run_winv ops _ (winv_init delay roles now Hd)) as W.
  destruct (wi_e _ W _ Hin) as (E1 & E2 & E3 & E4 & E5 & E6 & _). repeat split; auto.
Qed.

(* the moment of execution itself: role of the approver checked on the current role table, delay on the
   current clock and the current configuration *)
Lemma execute_step_checks w c id w' :
  step w (TExecute c id) = Ok w' ->
  exists b, get w id = Some b /\ b_open b = true /\ b_approved b = true /\ b_approver b <> 0 /\
    has_role (w_roles w) c ROLE_KEEPER = true /\
    has_role (w_roles w) (b_approver b) (timelocked (b_role b)) = true /\
    Z.min (b_approved_at b + w_delay w) I64_MAX <= w_now w /\
    (exists b', get w' id = Some b' /\ b_open b' = false /\ b_ix b' = b_ix b).
Proof.
  intro H. pose proof H as H0.
  apply step_execute_inv in H0 as (x & Hh & Hx & Ho & Hp & Hr & Ha & Ht & ->).
  exists x. split; [auto|]. split; [auto|]. split; [auto|]. split; [auto|]. split; [auto|].
  split; [auto|]. split; [exact Ht|].
  eexists. split.
  { rewrite get_getl. cbn [w_bufs]. rewrite get_getl in Hx. eapply getl_set_eq; eauto. }
  split; reflexivity.
Qed.

(* approval happens at most once per buffer *)
Lemma approve_once delay roles now ops :
  0 <= delay <= U32_MAX ->
  let w := run ops (init delay roles now) in
  NoDup (map ap_id (w_approvals w)) /\
  (forall id b, get w id = Some b -> 0 <= b_napprove b <= 1 /\ (b_napprove b = 1 <-> b_approved b = true)).
Proof.
  intros Hd w. pose proof (run_winv ops _ (winv_init delay roles now Hd)) as W. split.
  - apply (wi_and _ W).
  - intros id b Hg. pose proof (wi_n _ W _ _ Hg) as Hn. destruct (b_approved b); split; try lia; split; intro; try lia; auto; discriminate.
Qed.

Lemma approve_twice_rejected w c role id w' c2 role2 :
  step w (TApprove c role id) = Ok w' -> exists e, step w' (TApprove c2 role2 id) = Err e.
Proof.
  intro H. apply step_approve_inv in H as (x & Hx & Ho & Hrl & Hh & Hna & Hp & Hc & ->).
  cbn [step]. unfold rbind, live. rewrite get_getl. cbn [w_bufs]. rewrite get_getl in Hx.
  rewrite (getl_set_eq _ _ _ _ Hx). cbn [b_open b_role b_approved].
  destruct (negb (b_role x =? role2)); [eauto|].
  cbn [w_roles]. destruct (negb (has_role (w_roles w) c2 (timelocked role2))); eauto.
Qed.

(* the delay never decreases *)
Lemma delay_monotone ops w : w_delay w <= w_delay (run ops w).
Proof. destruct (run_mono ops w) as (H & _). auto. Qed.

Lemma delay_strictly_increases w c delta w' :
  step w (TIncreaseDelay c delta) = Ok w' ->
  has_role (w_roles w) c ROLE_ADMIN = true /\ w_delay w' = w_delay w + delta /\ 0 < delta /\ w_delay w' <= U32_MAX.
Proof.
  cbn [step]. destruct (has_role (w_roles w) c ROLE_ADMIN); cbn [negb]; [|discriminate].
  unfold rbind. destruct (increase_delay (w_delay w) delta) eqn:E; [|discriminate].
  intro H. inv H. apply increase_delay_ok in E as (-> & ? & ?). cbn. auto.
Qed.

(* executed or cancelled buffers are gone: closed for ever, unchanged, and nothing runs on them *)
Lemma closed_is_final ops w id b :
  get w id = Some b -> b_open b = false -> get (run ops w) id = Some b.
Proof.
  intros Hg Hc. destruct (run_bevolves ops w id b Hg) as (b' & Hg' & (_ & _ & O & _)).
  rewrite (O Hc) in Hg'. auto.
Qed.

Lemma closed_rejects w id b o :
  get w id = Some b -> b_open b = false ->
  (exists c, o = TExecute c id) \/ (exists c r, o = TApprove c r id) \/ (exists c, o = TCancel c id) ->
  exists e, step w o = Err e.
Proof.
  intros Hg Hc [[c ->]|[[c [r ->]]|[c ->]]]; cbn [step]; unfold rbind, live; rewrite Hg, Hc; eauto.
Qed.

Lemma cancel_or_execute_closes w o w' id :
  (exists c, o = TExecute c id) \/ (exists c, o = TCancel c id) ->
  step w o = Ok w' -> exists b', get w' id = Some b' /\ b_open b' = false.
Proof.
  intros [[c ->]|[c ->]] H.
  - apply execute_step_checks in H as (b & _ & _ & _ & _ & _ & _ & _ & b' & Hg & Ho & _). eauto.
  - apply step_cancel_inv in H as (x & Hh & Hx & Ho & ->).
    eexists. split.
    { rewrite get_getl. cbn [w_bufs with_bufs]. rewrite get_getl in Hx. eapply getl_set_eq; eauto. }
    reflexivity.
Qed.

Lemma executed_once delay roles now ops :
  0 <= delay <= U32_MAX -> NoDup (map ex_id (w_execs (run ops (init delay roles now)))).
Proof.
  intro Hd. apply (wi_end _ (run_winv ops _ (winv_init delay roles now Hd))).
Qed.

(* the stored instruction identity never changes *)
Lemma ix_immutable ops w id b :
  get w id = Some b -> exists b', get (run ops w) id = Some b' /\ b_ix b' = b_ix b /\ b_role b' = b_role b.
Proof.
  intro Hg. destruct (run_bevolves ops w id b Hg) as (b' & Hg' & (R & I & _)). eauto.
Qed.

(* an approval, once given, is never altered *)
Lemma approval_immutable ops w id b :
  get w id = Some b -> b_approved b = true ->
  exists b', get (run ops w) id = Some b' /\ b_approved b' = true /\ b_approver b' = b_approver b /\
             b_approved_at b' = b_approved_at b.
Proof.
  intros Hg Ha. destruct (run_bevolves ops w id b Hg) as (b' & Hg' & (_ & _ & _ & A & _)).
  destruct (A Ha) as (X1 & X2 & X3 & _). eauto.
Qed.
