(* C36 — property theorems (statements pinned; proofs in ProofsA.v / ProofsB.v). *)
From GV Require Import lib.Base C36.Model C36.Proofs.
Open Scope Z_scope.

(* ================= byte level: the executed instruction is exactly the buffered one ================= *)

(* Whatever load_and_init_instruction writes into the (exactly sized, zeroed) buffer account, reading it
   back with load_instruction + to_instruction(false) — what execute_instruction passes to invoke_signed —
   gives the requested program id, data, and every account key with its writable flag and with
   signer = "index was listed in `signers`"; and every account marked signer is the executor wallet. *)
Theorem c36_stored_instruction_roundtrip :
  forall disc executor bump rr program data accts signers wallet bytes,
  length disc = 8%nat -> length executor = 32%nat -> length rr = 32%nat -> length program = 32%nat ->
  keys_wf accts ->
  load_and_init disc executor bump rr program data accts signers wallet = Ok bytes ->
  exists x,
    load_instruction bytes = Ok x /\
    to_instruction false wallet x = mkInstr program (wanted_accounts signers 0 accts) data /\
    Forall (fun m => m_signer m = true -> m_key m = wallet) (i_accounts (to_instruction false wallet x)).
Proof. exact roundtrip. Qed.

(* creation is refused exactly when a listed signer index points at an account that is not the wallet *)
Theorem c36_non_wallet_signer_rejected :
  forall disc executor bump rr program data accts signers wallet,
  len data <= 65535 -> len accts <= 65535 ->
  ((exists e, load_and_init disc executor bump rr program data accts signers wallet = Err e)
   <-> bad_signer wallet signers 0 accts = true).
Proof. exact load_and_init_rejects. Qed.

Theorem c36_header_roundtrip : forall h, header_wf h ->
  decode_header (encode_header h) = h /\ length (encode_header h) = HEADER_LEN.
Proof. intros h H. split; [apply decode_encode_header|apply length_encode_header]; auto. Qed.

(* approval changes the Approved flag, the timestamp and the approver, nothing else *)
Theorem c36_approve_keeps_instruction :
  forall disc h data ab approver now h' wallet mark,
  length disc = 8%nat -> header_wf h -> length approver = 32%nat -> - 2 ^ 63 <= now < 2 ^ 63 ->
  h_data_len h = len data -> len ab = h_num_accounts h * Z.of_nat ACCOUNT_LEN ->
  approve_header h approver now = Ok h' ->
  load_instruction (disc ++ encode_header h' ++ data ++ ab) = Ok (h', data, ab) /\
  to_instruction mark wallet (h', data, ab) = to_instruction mark wallet (h, data, ab) /\
  Z.testbit (h_flags h') 0 = true /\ h_approved_at h' = now /\ h_approver h' = approver /\
  Z.testbit (h_flags h) 0 = false /\ h_approver h = zeros 32 /\ approver <> zeros 32.
Proof. exact approve_keeps_instruction. Qed.

(* the optional marking (client side) can only add the signer flag to wallet accounts *)
Theorem c36_mark_wallet_only : forall wallet m,
  m_key (mark_wallet wallet m) = m_key m /\ m_writable (mark_wallet wallet m) = m_writable m /\
  m_signer (mark_wallet wallet m) = (m_signer m || key_eqb (m_key m) wallet).
Proof. exact mark_wallet_spec. Qed.

(* ================= protocol ================= *)

Theorem c36_execute_requires_approved_role_delay : forall delay roles now ops e,
  0 <= delay <= U32_MAX ->
  In e (w_execs (run ops (init delay roles now))) ->
  ex_still_holds e = true /\
  (exists a, In a (w_approvals (run ops (init delay roles now))) /\
             ap_id a = ex_id e /\ ap_by a = ex_approver e /\ ap_at a = ex_approved_at e /\
             ap_held a = true /\ ap_delay a <= ex_delay e) /\
  Z.min (ex_approved_at e + ex_delay e) I64_MAX <= ex_at e /\
  In (ex_id e, ex_ix e) (w_created (run ops (init delay roles now))).
Proof. exact execute_requires. Qed.

Theorem c36_execute_step_checks : forall w c id w',
  step w (TExecute c id) = Ok w' ->
  exists b, get w id = Some b /\ b_open b = true /\ b_approved b = true /\ b_approver b <> 0 /\
    has_role (w_roles w) c ROLE_KEEPER = true /\
    has_role (w_roles w) (b_approver b) (timelocked (b_role b)) = true /\
    Z.min (b_approved_at b + w_delay w) I64_MAX <= w_now w /\
    (exists b', get w' id = Some b' /\ b_open b' = false /\ b_ix b' = b_ix b).
Proof. exact execute_step_checks. Qed.

Theorem c36_approve_at_most_once : forall delay roles now ops,
  0 <= delay <= U32_MAX ->
  let w := run ops (init delay roles now) in
  NoDup (map ap_id (w_approvals w)) /\
  (forall id b, get w id = Some b -> 0 <= b_napprove b <= 1 /\ (b_napprove b = 1 <-> b_approved b = true)).
Proof. exact approve_once. Qed.

Theorem c36_second_approval_rejected : forall w c role id w' c2 role2,
  step w (TApprove c role id) = Ok w' -> exists e, step w' (TApprove c2 role2 id) = Err e.
Proof. exact approve_twice_rejected. Qed.

Theorem c36_approval_immutable : forall ops w id b,
  get w id = Some b -> b_approved b = true ->
  exists b', get (run ops w) id = Some b' /\ b_approved b' = true /\ b_approver b' = b_approver b /\
             b_approved_at b' = b_approved_at b.
Proof. exact approval_immutable. Qed.

Theorem c36_delay_monotone : forall ops w, w_delay w <= w_delay (run ops w).
Proof. exact delay_monotone. Qed.

Theorem c36_delay_only_increases : forall w c delta w',
  step w (TIncreaseDelay c delta) = Ok w' ->
  has_role (w_roles w) c ROLE_ADMIN = true /\ w_delay w' = w_delay w + delta /\ 0 < delta /\ w_delay w' <= U32_MAX.
Proof. exact delay_strictly_increases. Qed.

Theorem c36_executed_or_cancelled_gone : forall ops w id b,
  get w id = Some b -> b_open b = false ->
  get (run ops w) id = Some b /\
  (forall o, (exists c, o = TExecute c id) \/ (exists c r, o = TApprove c r id) \/ (exists c, o = TCancel c id) ->
             exists e, step (run ops w) o = Err e).
Proof.
  intros ops w id b Hg Hc. pose proof (closed_is_final ops w id b Hg Hc) as H. split; auto.
  intros o Ho. eapply closed_rejects; eauto.
Qed.

Theorem c36_execute_and_cancel_close : forall w o w' id,
  (exists c, o = TExecute c id) \/ (exists c, o = TCancel c id) ->
  step w o = Ok w' -> exists b', get w' id = Some b' /\ b_open b' = false.
Proof. exact cancel_or_execute_closes. Qed.

Theorem c36_executed_at_most_once : forall delay roles now ops,
  0 <= delay <= U32_MAX -> NoDup (map ex_id (w_execs (run ops (init delay roles now)))).
Proof. exact executed_once. Qed.

Theorem c36_instruction_immutable : forall ops w id b,
  get w id = Some b -> exists b', get (run ops w) id = Some b' /\ b_ix b' = b_ix b /\ b_role b' = b_role b.
Proof. exact ix_immutable. Qed.

(* ================= non-vacuity ================= *)
Definition k (b : Z) : list Z := repeat b 32.

Definition demo_bytes : list Z :=
  match load_and_init [1;2;3;4;5;6;7;8] (k 9) 254 (k 7) (k 5) [10; 20; 30]
                      [(k 1, true); (k 2, false); (k 1, false)] [2; 0] (k 1) with
  | Ok b => b | Err _ => [] end.

Example c36_roundtrip_demo :
  len demo_bytes = 8 + 224 + 3 + 99 /\
  match load_instruction demo_bytes with
  | Ok x => to_instruction false (k 1) x =
            mkInstr (k 5) [mkMeta (k 1) true true; mkMeta (k 2) false false; mkMeta (k 1) true false] [10; 20; 30]
  | Err _ => False
  end.
Proof. vm_compute. split; reflexivity. Qed.

Example c36_bad_signer_demo :
  load_and_init [1;2;3;4;5;6;7;8] (k 9) 254 (k 7) (k 5) [] [(k 1, true); (k 2, false)] [1] (k 1) = Err 1.
Proof. reflexivity. Qed.

Definition demo_roles : list (Z * Z) := [(1, 1); (2, 2); (3, 100)].
Definition demo : list op :=
  [ TCreate 2 0 77; TExecute 2 0; TApprove 3 0 0; TApprove 3 0 0; TExecute 2 0; TTick 59; TExecute 2 0;
    TIncreaseDelay 1 40; TTick 1; TExecute 2 0; TTick 40; TRevoke 3 100; TExecute 2 0; TGrant 3 100;
    TExecute 2 0; TExecute 2 0 ].

Example c36_demo_history :
  let w := run demo (init 60 demo_roles 1000) in
  map (fun e => (ex_id e, ex_ix e, ex_approver e, ex_approved_at e, ex_at e, ex_delay e)) (w_execs w)
    = [(0, 77, 3, 1000, 1100, 100)] /\
  w_delay w = 100 /\ map b_open (w_bufs w) = [false].
Proof. vm_compute. repeat split. Qed.
