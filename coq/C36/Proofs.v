(* C36 — proofs are split: ProofsA (byte level), ProofsB (protocol). *)
From GV Require Export C36.ProofsA C36.ProofsB.
