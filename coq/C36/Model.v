(* C36 — timelock.  Definitions only.

   Part A (byte level): the instruction buffer account
     programs/timelock/src/states/instruction.rs   InstructionHeader layout, load_and_init_instruction,
                                                   load_instruction, InstructionAccess for InstructionRef
     crates/utils/src/instruction.rs               InstructionAccount, flag bits, to_instruction
   Part B (protocol): create / approve / cancel / execute / increase_delay with role changes and a clock
     programs/timelock/src/instructions/instruction_buffer.rs, states/{instruction,config}.rs *)
From GV Require Import lib.Base.
Open Scope Z_scope.

(* ================================================================== Part A: bytes *)
Definition len {A} (l : list A) : Z := Z.of_nat (length l).
Definition zeros (n : nat) : list Z := repeat 0 n.
Definition take (n : nat) (l : list Z) : list Z * list Z := (firstn n l, skipn n l).

Definition le16 (n : Z) : list Z := [n mod 256; (n / 256) mod 256].
Definition of_le16 (l : list Z) : Z := nth 0 l 0 + 256 * nth 1 l 0.

(* little-endian two's complement i64 *)
Fixpoint le_bytes (k : nat) (n : Z) : list Z :=
  match k with O => [] | S k' => n mod 256 :: le_bytes k' (n / 256) end.
Definition le64 (n : Z) : list Z := le_bytes 8 (n mod 2 ^ 64).
Fixpoint of_le (l : list Z) : Z := match l with [] => 0 | b :: r => b + 256 * of_le r end.
Definition of_le64s (l : list Z) : Z := let u := of_le l in if u <? 2 ^ 63 then u else u - 2 ^ 64.

Fixpoint key_eqb (a b : list Z) : bool :=
  match a, b with
  | [], [] => true
  | x :: r, y :: s => (x =? y) && key_eqb r s
  | _, _ => false
  end.

(* InstructionHeader (repr(C), 224 bytes):
   version u8 | flags u8 | wallet_bump u8 | pad 5 | approved_at i64 | executor 32 | program_id 32 |
   num_accounts u16 | data_len u16 | pad 12 | rent_receiver 32 | approver 32 | reserved 64 *)
Record header := mkHeader {
  h_version : Z; h_flags : Z; h_wallet_bump : Z; h_approved_at : Z;
  h_executor : list Z; h_program : list Z; h_num_accounts : Z; h_data_len : Z;
  h_rent_receiver : list Z; h_approver : list Z
}.

Definition HEADER_LEN : nat := 224.
Definition ACCOUNT_LEN : nat := 33.

Definition encode_header (h : header) : list Z :=
  [h_version h; h_flags h; h_wallet_bump h] ++ zeros 5 ++ le64 (h_approved_at h) ++
  h_executor h ++ h_program h ++ le16 (h_num_accounts h) ++ le16 (h_data_len h) ++ zeros 12 ++
  h_rent_receiver h ++ h_approver h ++ zeros 64.

Definition decode_header (l : list Z) : header :=
  let '(p0, r) := take 3 l in
  let '(_, r) := take 5 r in
  let '(at_, r) := take 8 r in
  let '(ex, r) := take 32 r in
  let '(pg, r) := take 32 r in
  let '(na, r) := take 2 r in
  let '(dl, r) := take 2 r in
  let '(_, r) := take 12 r in
  let '(rr, r) := take 32 r in
  let '(ap, _) := take 32 r in
  mkHeader (nth 0 p0 0) (nth 1 p0 0) (nth 2 p0 0) (of_le64s at_) ex pg (of_le16 na) (of_le16 dl) rr ap.

(* InstructionAccount: flags u8 (bit 0 Signer, bit 1 Writable) | pubkey 32 *)
Definition flags_byte (s w : bool) : Z := (if s then 1 else 0) + (if w then 2 else 0).

Record meta := mkMeta { m_key : list Z; m_signer : bool; m_writable : bool }.
Record instr := mkInstr { i_program : list Z; i_accounts : list meta; i_data : list Z }.

(* load_and_init_instruction: the account-table part.  accts = (pubkey, is_writable) of the remaining
   accounts, signers = the u16 indices, wallet = the executor wallet PDA.  Err 1 = InvalidArgument. *)
Fixpoint init_accounts (wallet : list Z) (signers : list Z) (idx : Z) (accts : list (list Z * bool))
  : res (list Z) :=
  match accts with
  | [] => Ok []
  | (k, w) :: r =>
      let s := existsb (Z.eqb idx) signers in
      if s && negb (key_eqb wallet k) then Err 1 else
      rest <-- init_accounts wallet signers (idx + 1) r ;;
      Ok (flags_byte s w :: k ++ rest)
  end.

(* whole account data after load_and_init_instruction on a zeroed account of exactly the right size.
   Err 2 = length does not fit u16 (TryFromIntError). *)
Definition load_and_init (disc executor : list Z) (wallet_bump : Z) (rent_receiver program data : list Z)
           (accts : list (list Z * bool)) (signers wallet : list Z) : res (list Z) :=
  if (65535 <? len data) || (65535 <? len accts) then Err 2 else
  ab <-- init_accounts wallet signers 0 accts ;;
  Ok (disc ++ encode_header (mkHeader 0 0 wallet_bump 0 executor program (len accts) (len data)
                                      rent_receiver (zeros 32)) ++ data ++ ab).

(* load_instruction: Err 3 = Internal (account table too short), Err 4 = split_at out of range (panic) *)
Definition load_instruction (bytes : list Z) : res (header * list Z * list Z) :=
  if len bytes <? 8 + Z.of_nat HEADER_LEN then Err 4 else
  let '(_, body) := take 8 bytes in
  let '(hb, rest) := take HEADER_LEN body in
  let h := decode_header hb in
  if len rest <? h_data_len h then Err 4 else
  let '(data, accts) := take (Z.to_nat (h_data_len h)) rest in
  if len accts <? h_num_accounts h * Z.of_nat ACCOUNT_LEN then Err 3 else
  Ok (h, data, accts).

Fixpoint dec_accounts (n : nat) (bytes : list Z) : list meta :=
  match n with
  | O => []
  | S k =>
      let f := hd 0 bytes in
      mkMeta (firstn 32 (tl bytes)) (Z.testbit f 0) (Z.testbit f 1) :: dec_accounts k (skipn ACCOUNT_LEN bytes)
  end.

Definition mark_wallet (wallet : list Z) (m : meta) : meta :=
  if key_eqb (m_key m) wallet then mkMeta (m_key m) true (m_writable m) else m.

(* InstructionAccess::to_instruction *)
Definition to_instruction (mark : bool) (wallet : list Z) (x : header * list Z * list Z) : instr :=
  let '(h, data, accts) := x in
  let l := dec_accounts (Z.to_nat (h_num_accounts h)) accts in
  mkInstr (h_program h) (if mark then map (mark_wallet wallet) l else l) data.

(* the instruction the creator asked for *)
Fixpoint wanted_accounts (signers : list Z) (idx : Z) (accts : list (list Z * bool)) : list meta :=
  match accts with
  | [] => []
  | (k, w) :: r => mkMeta k (existsb (Z.eqb idx) signers) w :: wanted_accounts signers (idx + 1) r
  end.

(* InstructionHeader::approve at byte level (on the 224 header bytes) *)
Definition approve_header (h : header) (approver : list Z) (now : Z) : res header :=
  if Z.testbit (h_flags h) 0 then Err 2 else
  if negb (key_eqb (h_approver h) (zeros 32)) then Err 2 else
  if key_eqb approver (zeros 32) then Err 1 else
  Ok (mkHeader (h_version h) (Z.lor (h_flags h) 1) (h_wallet_bump h) now (h_executor h) (h_program h)
               (h_num_accounts h) (h_data_len h) (h_rent_receiver h) approver).

(* ================================================================== Part B: protocol *)
Definition I64_MAX : Z := 2 ^ 63 - 1.
Definition U32_MAX : Z := 2 ^ 32 - 1.

(* InstructionHeader::is_executable *)
Definition executable_at (approved_at delay : Z) : Z := Z.min (approved_at + delay) I64_MAX.
Definition is_executable (approved : bool) (approved_at delay now : Z) : bool :=
  approved && (executable_at approved_at delay <=? now).

(* TimelockConfig::increase_delay (+ the delta != 0 check of the instruction); Err 1 = InvalidArgument *)
Definition increase_delay (delay delta : Z) : res Z :=
  (* delta is a u32 instruction argument: values outside the type are unrepresentable (Err 9) *)
  if (delta <? 0) || (U32_MAX <? delta) then Err 9 else
  if delta =? 0 then Err 1 else if U32_MAX <? delay + delta then Err 1 else Ok (delay + delta).

(* role codes: 1 = TIMELOCK_ADMIN, 2 = TIMELOCK_KEEPER, 100 + r = timelocked role of executor role r *)
Definition ROLE_ADMIN : Z := 1.
Definition ROLE_KEEPER : Z := 2.
Definition timelocked (r : Z) : Z := 100 + r.

Definition has_role (roles : list (Z * Z)) (p r : Z) : bool :=
  existsb (fun x => (fst x =? p) && (snd x =? r)) roles.

(* an address is a member of the store's role table while it holds at least one role; `has_role` on a
   non-member is an error (PermissionDenied), not `false` *)
Definition is_member (roles : list (Z * Z)) (p : Z) : bool :=
  existsb (fun x => fst x =? p) roles.

Record buffer := mkBuf {
  b_open : bool;
  b_role : Z;            (* executor role *)
  b_ix : Z;              (* identity of the stored instruction (immutable content, see part A) *)
  b_approved : bool;     (* Approved flag *)
  b_approver : Z;        (* 0 = default pubkey *)
  b_approved_at : Z;
  b_napprove : Z         (* ghost: number of successful approvals *)
}.

(* ghost logs *)
Record approval := mkApproval { ap_id : Z; ap_by : Z; ap_at : Z; ap_delay : Z; ap_held : bool }.
Record execution := mkExec {
  ex_id : Z; ex_ix : Z; ex_role : Z; ex_approver : Z; ex_approved_at : Z; ex_at : Z; ex_delay : Z;
  ex_still_holds : bool
}.

Record world := mkWorld {
  w_bufs : list buffer; w_delay : Z; w_roles : list (Z * Z); w_now : Z;
  w_approvals : list approval; w_execs : list execution;
  w_created : list (Z * Z)        (* ghost: (id, ix) as created *)
}.

Inductive op :=
| TCreate (caller role ix : Z)
| TApprove (caller role id : Z)
| TCancel (caller id : Z)
| TExecute (caller id : Z)
| TIncreaseDelay (caller delta : Z)
| TGrant (p r : Z)
| TRevoke (p r : Z)
| TTick (dt : Z).

Definition get (w : world) (id : Z) : option buffer :=
  if id <? 0 then None else nth_error (w_bufs w) (Z.to_nat id).

Fixpoint set_nth (l : list buffer) (n : nat) (a : buffer) : list buffer :=
  match l, n with
  | [], _ => []
  | _ :: r, O => a :: r
  | x :: r, S k => x :: set_nth r k a
  end.

Definition live (w : world) (id : Z) : res buffer :=
  match get w id with
  | Some b => if b_open b then Ok b else Err 5
  | None => Err 5
  end.

Definition with_bufs (w : world) (l : list buffer) : world :=
  mkWorld l (w_delay w) (w_roles w) (w_now w) (w_approvals w) (w_execs w) (w_created w).

(* error codes: 1 InvalidArgument, 2 PreconditionsAreNotMet, 3 PermissionDenied, 5 account missing *)
Definition step (w : world) (o : op) : res world :=
  match o with
  | TCreate caller role ix =>
      if negb (has_role (w_roles w) caller ROLE_KEEPER) then Err 3 else
      let id := len (w_bufs w) in
      Ok (mkWorld (w_bufs w ++ [mkBuf true role ix false 0 0 0]) (w_delay w) (w_roles w) (w_now w)
                  (w_approvals w) (w_execs w) ((id, ix) :: w_created w))
  | TApprove caller role id =>
      (* Anchor first deserialises every account (a closed buffer fails here), then evaluates the constraints,
         then the handler runs (the role check by CPI is inside the handler) *)
      b <-- live w id ;;
      (* `seeds` is checked before `has_one` / `constraint`: a role other than the executor's fails the seeds
         constraint (the explicit `constraint = role_name == role @ InvalidArgument` cannot fire) *)
      if negb (b_role b =? role) then Err 6 else
      if negb (has_role (w_roles w) caller (timelocked role)) then Err 3 else
      (* InstructionHeader::approve *)
      if b_approved b then Err 2 else
      if negb (b_approver b =? 0) then Err 2 else
      if caller =? 0 then Err 1 else
      let b' := mkBuf true (b_role b) (b_ix b) true caller (w_now w) (b_napprove b + 1) in
      Ok (mkWorld (set_nth (w_bufs w) (Z.to_nat id) b') (w_delay w) (w_roles w) (w_now w)
                  (mkApproval id caller (w_now w) (w_delay w) (has_role (w_roles w) caller (timelocked (b_role b)))
                   :: w_approvals w) (w_execs w) (w_created w))
  | TCancel caller id =>
      (* accounts are validated (the buffer must exist) before the access control runs *)
      b <-- live w id ;;
      if negb (has_role (w_roles w) caller ROLE_ADMIN) then Err 3 else
      let b' := mkBuf false (b_role b) (b_ix b) (b_approved b) (b_approver b) (b_approved_at b) (b_napprove b) in
      Ok (with_bufs w (set_nth (w_bufs w) (Z.to_nat id) b'))
  | TExecute caller id =>
      b <-- live w id ;;
      if negb (has_role (w_roles w) caller ROLE_KEEPER) then Err 3 else
      if b_approver b =? 0 then Err 2 else
      if negb (is_member (w_roles w) (b_approver b)) then Err 3 else
      if negb (has_role (w_roles w) (b_approver b) (timelocked (b_role b))) then Err 2 else
      if negb (is_executable (b_approved b) (b_approved_at b) (w_delay w) (w_now w)) then Err 2 else
      let b' := mkBuf false (b_role b) (b_ix b) (b_approved b) (b_approver b) (b_approved_at b) (b_napprove b) in
      Ok (mkWorld (set_nth (w_bufs w) (Z.to_nat id) b') (w_delay w) (w_roles w) (w_now w) (w_approvals w)
                  (mkExec id (b_ix b) (b_role b) (b_approver b) (b_approved_at b) (w_now w) (w_delay w)
                          (has_role (w_roles w) (b_approver b) (timelocked (b_role b))) :: w_execs w)
                  (w_created w))
  | TIncreaseDelay caller delta =>
      if negb (has_role (w_roles w) caller ROLE_ADMIN) then Err 3 else
      d <-- increase_delay (w_delay w) delta ;;
      Ok (mkWorld (w_bufs w) d (w_roles w) (w_now w) (w_approvals w) (w_execs w) (w_created w))
  | TGrant p r =>
      Ok (mkWorld (w_bufs w) (w_delay w) ((p, r) :: w_roles w) (w_now w) (w_approvals w) (w_execs w) (w_created w))
  | TRevoke p r =>
      Ok (mkWorld (w_bufs w) (w_delay w)
                  (filter (fun x => negb ((fst x =? p) && (snd x =? r))) (w_roles w))
                  (w_now w) (w_approvals w) (w_execs w) (w_created w))
  | TTick dt =>
      if (dt <? 0) || (I64_MAX <? w_now w + dt) then Err 1 else
      Ok (mkWorld (w_bufs w) (w_delay w) (w_roles w) (w_now w + dt) (w_approvals w) (w_execs w) (w_created w))
  end.

Definition apply (w : world) (o : op) : world :=
  match step w o with Ok w' => w' | Err _ => w end.
Definition run (ops : list op) (w : world) : world := fold_left apply ops w.

(* initial world: a configured delay (u32), some role table, a clock value *)
Definition init (delay : Z) (roles : list (Z * Z)) (now : Z) : world := mkWorld [] delay roles now [] [] [].
