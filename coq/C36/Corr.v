(* C36 — correspondence and oracle predicates for harness/src/bin/c36.rs.  Imports Model only. *)
From GV Require Export lib.Base C36.Model.
Open Scope Z_scope.

Definition approve_obs := (list Z * Z * res unit * list Z * instr * (bool * option Z * option (list Z)))%type.
(* approver key, clock, result of approve, account bytes after, to_instruction(false) after,
   (is_approved, approved_at(), apporver()) *)

Definition snap := (option buffer * Z * Z * Z)%type.   (* addressed buffer, delay, now, number of executions *)

Inductive case :=
| Ix (disc executor : list Z) (bump : Z) (rent_receiver program data : list Z)
     (accts : list (list Z * bool)) (signers wallet : list Z)
     (r : res (list Z * instr * instr))      (* account bytes, to_instruction(false), to_instruction(true) *)
     (appr : option approve_obs)
| Hist (delay : Z) (roles : list (Z * Z)) (now : Z) (ops : list (op * res snap)).

(* ---------------- equality helpers ---------------- *)
Fixpoint list_eqb (a b : list Z) : bool :=
  match a, b with
  | [], [] => true
  | x :: r, y :: s => (x =? y) && list_eqb r s
  | _, _ => false
  end.
Definition meta_eqb (a b : meta) : bool :=
  list_eqb (m_key a) (m_key b) && Bool.eqb (m_signer a) (m_signer b) && Bool.eqb (m_writable a) (m_writable b).
Fixpoint metas_eqb (a b : list meta) : bool :=
  match a, b with
  | [], [] => true
  | x :: r, y :: s => meta_eqb x y && metas_eqb r s
  | _, _ => false
  end.
Definition instr_eqb (a b : instr) : bool :=
  list_eqb (i_program a) (i_program b) && metas_eqb (i_accounts a) (i_accounts b) && list_eqb (i_data a) (i_data b).
Definition buffer_eqb (a b : buffer) : bool :=
  Bool.eqb (b_open a) (b_open b) && (b_role a =? b_role b) && (b_ix a =? b_ix b) &&
  Bool.eqb (b_approved a) (b_approved b) && (b_approver a =? b_approver b) &&
  (b_approved_at a =? b_approved_at b) && (b_napprove a =? b_napprove b).

Definition opt_list_eqb (a b : option (list Z)) : bool :=
  match a, b with Some x, Some y => list_eqb x y | None, None => true | _, _ => false end.

(* ---------------- correspondence ---------------- *)
Definition corr_ix disc executor bump rr program data accts signers wallet
           (r : res (list Z * instr * instr)) (appr : option approve_obs) : bool :=
  match load_and_init disc executor bump rr program data accts signers wallet, r with
  | Err e, Err e' => (e =? e') && match appr with None => true | Some _ => false end
  | Ok bytes, Ok (bytes', ix0, ix1) =>
      list_eqb bytes bytes' &&
      match load_instruction bytes' with
      | Ok x => instr_eqb (to_instruction false wallet x) ix0 && instr_eqb (to_instruction true wallet x) ix1
      | Err _ => false
      end &&
      match appr with
      | None => false
      | Some (approver, now, ares, bytes2, ix2, (is_appr, at_, by_)) =>
          match load_instruction bytes' with
          | Ok (h, d, ab) =>
              match approve_header h approver now, ares with
              | Ok h', Ok _ =>
                  list_eqb (disc ++ encode_header h' ++ d ++ ab) bytes2 &&
                  match load_instruction bytes2 with
                  | Ok x2 =>
                      instr_eqb (to_instruction false wallet x2) ix2 &&
                      let h2 := fst (fst x2) in
                      Bool.eqb (Z.testbit (h_flags h2) 0) is_appr &&
                      oeqb (if Z.testbit (h_flags h2) 0 then Some (h_approved_at h2) else None) at_ &&
                      opt_list_eqb (if key_eqb (h_approver h2) (zeros 32) then None else Some (h_approver h2)) by_
                  | Err _ => false
                  end
              | Err e, Err e' => (e =? e') && list_eqb bytes' bytes2
              | _, _ => false
              end
          | Err _ => false
          end
      end
  | _, _ => false
  end.

Definition focus (o : op) (w : world) : option Z :=
  match o with
  | TCreate _ _ _ => Some (len (w_bufs w) - 1)
  | TApprove _ _ id => Some id
  | TCancel _ id => Some id
  | TExecute _ id => Some id
  | _ => None
  end.

Definition opt_buffer_eqb (a b : option buffer) : bool :=
  match a, b with Some x, Some y => buffer_eqb x y | None, None => true | _, _ => false end.

Definition snap_ok (w : world) (f : option Z) (s : snap) : bool :=
  let '(ob, d, now, nexec) := s in
  opt_buffer_eqb (match f with Some id => get w id | None => None end) ob &&
  (d =? w_delay w) && (now =? w_now w) && (nexec =? len (w_execs w)).

Fixpoint corr_hist (w : world) (ops : list (op * res snap)) : bool :=
  match ops with
  | [] => true
  | (o, r) :: rest =>
      match step w o, r with
      | Ok w', Ok s => snap_ok w' (focus o w') s && corr_hist w' rest
      | Err e, Err e' => (e =? e') && corr_hist w rest
      | _, _ => false
      end
  end.

Definition corr_b (c : case) : bool :=
  match c with
  | Ix disc executor bump rr program data accts signers wallet r appr =>
      corr_ix disc executor bump rr program data accts signers wallet r appr
  | Hist delay roles now ops => corr_hist (init delay roles now) ops
  end.

(* ---------------- oracle: the property on the implementation's outputs ---------------- *)
Fixpoint mem (x : Z) (l : list Z) : bool := match l with [] => false | y :: r => (x =? y) || mem x r end.

(* the instruction that comes out must be the one that went in: program, data, every account key with
   its writable flag, signer flag = "index listed as signer"; and only the wallet signs *)
Fixpoint oracle_accounts (signers wallet : list Z) (idx : Z) (accts : list (list Z * bool)) (out : list meta) : bool :=
  match accts, out with
  | [], [] => true
  | (k, w) :: r, m :: s =>
      list_eqb k (m_key m) && Bool.eqb w (m_writable m) && Bool.eqb (mem idx signers) (m_signer m) &&
      (implb (m_signer m) (list_eqb (m_key m) wallet)) &&
      oracle_accounts signers wallet (idx + 1) r s
  | _, _ => false
  end.

Fixpoint oracle_marked (wallet : list Z) (plain marked : list meta) : bool :=
  match plain, marked with
  | [], [] => true
  | p :: r, m :: s =>
      list_eqb (m_key p) (m_key m) && Bool.eqb (m_writable p) (m_writable m) &&
      Bool.eqb (m_signer m) (m_signer p || list_eqb (m_key p) wallet) && oracle_marked wallet r s
  | _, _ => false
  end.

Fixpoint bad_signer (signers wallet : list Z) (idx : Z) (accts : list (list Z * bool)) : bool :=
  match accts with
  | [] => false
  | (k, _) :: r => (mem idx signers && negb (list_eqb k wallet)) || bad_signer signers wallet (idx + 1) r
  end.

Definition oracle_ix data program accts signers wallet (r : res (list Z * instr * instr)) (appr : option approve_obs) : bool :=
  match r with
  | Err e => (e =? 1) && bad_signer signers wallet 0 accts
  | Ok (_, ix0, ix1) =>
      negb (bad_signer signers wallet 0 accts) &&
      list_eqb (i_program ix0) program && list_eqb (i_data ix0) data &&
      oracle_accounts signers wallet 0 accts (i_accounts ix0) &&
      list_eqb (i_program ix1) program && list_eqb (i_data ix1) data &&
      oracle_marked wallet (i_accounts ix0) (i_accounts ix1) &&
      match appr with
      | Some (approver, now, Ok _, _, ix2, (is_appr, at_, by_)) =>
          (* approval does not touch the stored instruction and records approver + time *)
          instr_eqb ix2 ix0 && is_appr && oeqb at_ (Some now) && opt_list_eqb by_ (Some approver)
      | _ => false
      end
  end.

(* role table reconstructed from the history's own Grant / Revoke ops *)
Definition roles_after (roles : list (Z * Z)) (o : op) : list (Z * Z) :=
  match o with
  | TGrant p r => (p, r) :: roles
  | TRevoke p r => filter (fun x => negb ((fst x =? p) && (snd x =? r))) roles
  | _ => roles
  end.
Definition holds (roles : list (Z * Z)) (p r : Z) : bool :=
  existsb (fun x => (fst x =? p) && (snd x =? r)) roles.

Fixpoint last_buf (seen : list (Z * buffer)) (id : Z) : option buffer :=
  match seen with [] => None | (i, b) :: r => if i =? id then Some b else last_buf r id end.

Fixpoint oracle_hist (seen : list (Z * buffer)) (roles : list (Z * Z)) (n delay now nexec : Z)
         (ops : list (op * res snap)) : bool :=
  match ops with
  | [] => true
  | (o, r) :: rest =>
      match r with
      | Err _ => oracle_hist seen (roles_after roles o) n delay now nexec rest
      | Ok (ob, d', now', nexec') =>
          (* the delay never decreases, the clock never goes back, executions are only counted up *)
          (delay <=? d') && (now <=? now') && (nexec <=? nexec') &&
          match o, ob with
          | TCreate caller role ix, Some b =>
              holds roles caller 2 && b_open b && negb (b_approved b) && (b_approver b =? 0) && (b_napprove b =? 0) &&
              (b_ix b =? ix) && (b_role b =? role) && (d' =? delay) && (nexec' =? nexec) &&
              oracle_hist ((n, b) :: seen) roles (n + 1) d' now' nexec' rest
          | TApprove caller role id, Some b =>
              match last_buf seen id with
              | Some p =>
                  b_open p && negb (b_approved p) && (b_approver p =? 0) && (b_napprove p =? 0) &&
                  (b_role p =? role) && holds roles caller (100 + role) &&
                  b_open b && b_approved b && (b_approver b =? caller) && (b_approved_at b =? now) &&
                  (b_napprove b =? 1) && (b_ix b =? b_ix p) && (b_role b =? b_role p) &&
                  (d' =? delay) && (nexec' =? nexec)
              | None => false
              end && oracle_hist ((id, b) :: seen) roles n d' now' nexec' rest
          | TCancel caller id, Some b =>
              match last_buf seen id with
              | Some p => b_open p && holds roles caller 1 && negb (b_open b) && (nexec' =? nexec) && (d' =? delay)
              | None => false
              end && oracle_hist ((id, b) :: seen) roles n d' now' nexec' rest
          | TExecute caller id, Some b =>
              match last_buf seen id with
              | Some p =>
                  (* open, approved exactly once, approver still holds the timelocked role, delay elapsed *)
                  b_open p && b_approved p && negb (b_approver p =? 0) && (b_napprove p =? 1) &&
                  holds roles caller 2 && holds roles (b_approver p) (100 + b_role p) &&
                  (Z.min (b_approved_at p + delay) (2 ^ 63 - 1) <=? now) &&
                  negb (b_open b) && (b_ix b =? b_ix p) && (nexec' =? nexec + 1) && (d' =? delay)
              | None => false
              end && oracle_hist ((id, b) :: seen) roles n d' now' nexec' rest
          | TIncreaseDelay caller delta, None =>
              holds roles caller 1 && (0 <? delta) && (d' =? delay + delta) && (d' <=? 2 ^ 32 - 1) && (nexec' =? nexec) &&
              oracle_hist seen roles n d' now' nexec' rest
          | TGrant _ _, None | TRevoke _ _, None =>
              (d' =? delay) && (now' =? now) && (nexec' =? nexec) &&
              oracle_hist seen (roles_after roles o) n d' now' nexec' rest
          | TTick dt, None =>
              (0 <=? dt) && (now' =? now + dt) && (d' =? delay) && (nexec' =? nexec) &&
              oracle_hist seen roles n d' now' nexec' rest
          | _, _ => false
          end
      end
  end.

Definition oracle_b (c : case) : bool :=
  match c with
  | Ix _ _ _ _ program data accts signers wallet r appr => oracle_ix data program accts signers wallet r appr
  | Hist delay roles now ops => oracle_hist [] roles 0 delay now 0 ops
  end.

Definition known_b (c : case) : Z := 0.
