(* C17 — correspondence and oracle predicates for the cases printed by harness/src/bin/c17.rs
   (the REAL Market::init run natively on a zeroed account under a stubbed Clock).
   Imports Model.v and the hand-written spec only. *)
From GV Require Import lib.Base gen.C17Tables C17.Model C17.DefaultsSpec.
From Coq Require Export String.
Open Scope string_scope.
Open Scope Z_scope.

Inductive case :=
| ConstVal (name : string) (v : Z)          (* real value of gmsol_store::constants::<name> *)
| ConstBool (name : string) (v : bool)
| InitFailed (same : bool)                  (* Market::init returned Err on valid arguments *)
| MktFlags (same enabled is_pure is_enabled : bool)
    (* same = long and short token mints passed to init coincide; observed Market::is_pure/is_enabled *)
| CfgNameMismatch (same : bool) (name : string)   (* get_config(str) <> get_config_by_key(enum) *)
| CfgDefault (same : bool) (key : string) (v : option Z)     (* Market::get_config_by_key after init *)
| FlagDefault (same : bool) (flag : string) (v : bool)       (* Market::get_config_flag_by_key after init *)
| PoolDefault (same : bool) (kind : string) (present : bool) (byte long short beh_long beh_short : Z).
    (* Market::pool(kind): raw is_pure byte, raw long/short amounts; (beh_long, beh_short) = change of
       (long_amount(), short_amount()) after apply_delta_to_short_amount(3): (2,1) in a pure pool, (0,3) otherwise *)

Definition obeqb (a : option bool) (b : bool) : bool :=
  match a with Some x => Bool.eqb x b | None => false end.

Definition args_of (same : bool) : string -> Z := mints 1 (if same then 1 else 2).

Definition beh_ok (pure : bool) (bl bs : Z) : bool :=
  if pure then (bl =? 2) && (bs =? 1) else (bl =? 0) && (bs =? 3).

(* model (interpreting the translated tables) == implementation *)
Definition corr_b (c : case) : bool :=
  match c with
  | ConstVal n v => oeqb (lookup n const_value) (Some v)
  | ConstBool n v => obeqb (lookup n const_bool) v
  | InitFailed _ => false
  | MktFlags same en p e =>
      obeqb (market_pure_flag (args_of same)) p
      && (if mem CALL_SET_ENABLED market_init_calls then Bool.eqb e en else negb e)
  | CfgNameMismatch _ _ => false
  | CfgDefault _ k v => oeqb (market_cfg_value k) v
  | FlagDefault _ f v => obeqb (market_cfg_flag f) v
  | PoolDefault same kind present byte l s bl bs =>
      match market_pool (args_of same) kind with
      | Some p => present && (byte =? p_byte p) && (l =? p_long p) && (s =? p_short p) && beh_ok (pool_is_pure p) bl bs
      | None => negb present
      end
  end.

(* the PROPERTY on the implementation's outputs: every value/flag equals the documented default
   constant (hand-written spec: DefaultsSpec.v; the constants' values are the translated table, which
   the ConstVal/ConstBool cases of the same run validate against the real constants); pools pure
   exactly when the tokens coincide except the always-impure ones; all pool amounts zero *)
Definition oracle_b (c : case) : bool :=
  match c with
  | ConstVal _ _ | ConstBool _ _ | InitFailed _ | CfgNameMismatch _ _ => true
  | MktFlags same _ p _ => Bool.eqb p same
  | CfgDefault _ k v =>
      match v, lookup (documented_default k) const_value with
      | Some x, Some d => x =? d
      | _, _ => false
      end
  | FlagDefault _ f v =>
      match documented_flag_default f with
      | Some cst => obeqb (lookup cst const_bool) v
      | None => negb v
      end
  | PoolDefault same kind present byte l s bl bs =>
      present && (l =? 0) && (s =? 0)
      && Bool.eqb (negb (byte =? 0)) (expected_pool_pure same kind)
      && beh_ok (expected_pool_pure same kind) bl bs
  end.

Definition known_b (c : case) : Z := 0.
