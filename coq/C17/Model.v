(* C17 — executable model of what `Market::init` leaves in a freshly zeroed market account,
   INTERPRETING the tables that translate/c17.py regenerates from the Rust source on every
   check (coq/gen/C17Tables.v).  Definitions only.

   The interpreter is generic in the tables (so that Props.v can show on hand-made tables that
   the theorems are not vacuous); the instances at the bottom plug in the translated ones. *)
From GV Require Import lib.Base gen.C17Tables.
From Coq Require Import String.
Open Scope string_scope.
Open Scope Z_scope.

(* first match wins — as in a Rust `match` *)
Fixpoint lookup {A} (k : string) (l : list (string * A)) : option A :=
  match l with
  | [] => None
  | (k', v) :: r => if String.eqb k k' then Some v else lookup k r
  end.

Definition mem (k : string) (l : list string) : bool := existsb (String.eqb k) l.

(* ---------- MarketConfig: Factor fields as a function, zeroed account first ---------- *)
Definition st := string -> Z.
Definition st0 : st := fun _ => 0.
Definition upd (s : st) (f : string) (v : Z) : st := fun g => if String.eqb g f then v else s g.

(* `self.f = constants::C;` executed in source order *)
Definition run_assign (cv : list (string * Z)) (asg : list (string * string)) : option st :=
  fold_left (fun os fc => s <- os ;; v <- lookup (snd fc) cv ;; Some (upd s (fst fc) v)) asg (Some st0).

(* MarketConfig::get(key) after init *)
Definition init_value_of (arms asg : list (string * string)) (cv : list (string * Z)) (k : string) : option Z :=
  f <- lookup k arms ;; s <- run_assign cv asg ;; Some (s f).

(* flags: bit container, zeroed first; `set_flag(F, constants::C)` / literal *)
Definition flag_src (cbl : list (string * bool)) (c : string) : option bool :=
  if String.eqb c "#true" then Some true else if String.eqb c "#false" then Some false else lookup c cbl.

Definition bst := string -> bool.
Definition run_flags (cbl : list (string * bool)) (asg : list (string * string)) : option bst :=
  fold_left (fun os fc => s <- os ;; v <- flag_src cbl (snd fc) ;;
                          Some (fun g => if String.eqb g (fst fc) then v else s g)) asg (Some (fun _ => false)).

Definition init_flag_of (flags : list string) (asg : list (string * string)) (cbl : list (string * bool)) (f : string) : option bool :=
  if mem f flags then s <- run_flags cbl asg ;; Some (s f) else None.

(* ---------- Pools ---------- *)
Record pool := mkPool { p_byte : Z; p_long : Z; p_short : Z }.
Definition pool0 : pool := mkPool 0 0 0.
Definition pool_is_pure (p : pool) : bool := negb (p_byte p =? 0).       (* Pool::is_pure: !matches!(byte, 0) *)

(* Pools::init(is_pure): only `set_is_pure` statements exist (the translator rejects anything else),
   so the amounts keep the zeroed value *)
Definition pools_after (pv : Z) (pinit : list (string * option bool)) (is_pure : bool) : string -> pool :=
  fold_left (fun s fa =>
               let b := match snd fa with None => is_pure | Some b => b end in
               fun g => if String.eqb g (fst fa)
                        then mkPool (if b then pv else 0) (p_long (s g)) (p_short (s g)) else s g)
            pinit (fun _ => pool0).

Definition pool_after_of (parms : list (string * string)) (pv : Z) (pinit : list (string * option bool))
           (is_pure : bool) (kind : string) : option pool :=
  f <- lookup kind parms ;; Some (pools_after pv pinit is_pure f).

(* ---------- Market::init ---------- *)
(* is_pure = (meta.A == meta.B) where both were assigned from parameters *)
Definition market_is_pure_of (meta : list (string * string)) (cmp : string * string) (arg : string -> Z) : option bool :=
  a <- lookup (fst cmp) meta ;; b <- lookup (snd cmp) meta ;; Some (arg a =? arg b).

Definition CALL_CONFIG_INIT := "self.config.init()".
Definition CALL_POOLS_INIT := "self.state.pools.init(is_pure)".
Definition CALL_SET_PURE := "self.set_flag(MarketFlag::Pure, is_pure)".
Definition CALL_SET_ENABLED := "self.set_enabled(is_enabled)".

(* ---------- instances on the translated tables ---------- *)
Definition init_value : string -> option Z := init_value_of get_arm init_assign const_value.
Definition init_flag : string -> option bool := init_flag_of config_flags init_flag_assign const_bool.
Definition pool_after_init : bool -> string -> option pool := pool_after_of pool_get_arm pure_value pools_init.
Definition market_is_pure : (string -> Z) -> option bool := market_is_pure_of market_meta_assign market_pure_cmp.

(* the market right after Market::init, as far as C17 looks at it *)
Definition market_cfg_value (k : string) : option Z :=
  if mem CALL_CONFIG_INIT market_init_calls then init_value k else (f <- lookup k get_arm ;; Some 0).
Definition market_cfg_flag (f : string) : option bool :=
  if mem CALL_CONFIG_INIT market_init_calls then init_flag f else (if mem f config_flags then Some false else None).
Definition market_pool (arg : string -> Z) (kind : string) : option pool :=
  if mem CALL_POOLS_INIT market_init_calls
  then p <- market_is_pure arg ;; pool_after_init p kind
  else (f <- lookup kind pool_get_arm ;; Some pool0).
Definition market_pure_flag (arg : string -> Z) : option bool :=
  if mem CALL_SET_PURE market_init_calls then market_is_pure arg else Some false.

(* arguments of Market::init that matter: the two pool token mints, as numbers *)
Definition mints (long short : Z) : string -> Z :=
  fun a => if String.eqb a "long_token_mint" then long else if String.eqb a "short_token_mint" then short else (-1).
