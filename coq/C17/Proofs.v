(* C17 — proofs.  The domain (config keys, flags, pool kinds of the REGENERATED tables) is finite,
   so each statement is decided by vm_compute over the tables and lifted to a universally
   quantified statement with filter/forallb lemmas.  The proofs are re-checked on every run against
   freshly translated tables. *)
From GV Require Import lib.Base gen.C17Tables C17.Model C17.DefaultsSpec.
From Coq Require Import String.
Open Scope string_scope.
Open Scope Z_scope.

Lemma filter_nil_forall {A} (f : A -> bool) (l : list A) :
  filter f l = [] -> forall x, In x l -> f x = false.
Proof.
  induction l as [|a l IH]; intros H x Hin; [destruct Hin|].
  cbn in H. destruct (f a) eqn:Fa; [discriminate|].
  destruct Hin as [->|Hin]; [exact Fa| exact (IH H x Hin)].
Qed.

(* ---------- config values ---------- *)
Definition key_ok (k : string) : bool :=
  match market_cfg_value k, lookup (documented_default k) const_value with
  | Some v, Some d => v =? d
  | _, _ => false
  end.

(* the keys whose initial value is NOT the documented default — printed in the error if non-empty *)
Definition mismatched_keys : list string := filter (fun k => negb (key_ok k)) config_keys.

Lemma no_mismatched_keys : mismatched_keys = [].
Proof. vm_compute. reflexivity. Qed.

Lemma defaults_match : forall k, In k config_keys ->
  exists v, market_cfg_value k = Some v /\ lookup (documented_default k) const_value = Some v.
Proof.
  intros k Hin. pose proof (filter_nil_forall _ _ no_mismatched_keys k Hin) as H.
  apply Bool.negb_false_iff in H. unfold key_ok in H.
  destruct (market_cfg_value k) as [v|]; [|discriminate].
  destruct (lookup (documented_default k) const_value) as [d|]; [|discriminate].
  apply Z.eqb_eq in H. subst d. exists v. split; reflexivity.
Qed.

(* ---------- config flags ---------- *)
Definition flag_ok (f : string) : bool :=
  match market_cfg_flag f, documented_flag_default f with
  | Some v, Some c => match lookup c const_bool with Some d => Bool.eqb v d | None => false end
  | Some v, None => negb v
  | None, _ => false
  end.

Definition mismatched_flags : list string := filter (fun f => negb (flag_ok f)) config_flags.

Lemma no_mismatched_flags : mismatched_flags = [].
Proof. vm_compute. reflexivity. Qed.

Lemma flags_match : forall f, In f config_flags ->
  exists v, market_cfg_flag f = Some v /\
            match documented_flag_default f with
            | Some c => lookup c const_bool = Some v
            | None => v = false
            end.
Proof.
  intros f Hin. pose proof (filter_nil_forall _ _ no_mismatched_flags f Hin) as H.
  apply Bool.negb_false_iff in H. unfold flag_ok in H.
  destruct (market_cfg_flag f) as [v|]; [|discriminate]. exists v. split; [reflexivity|].
  destruct (documented_flag_default f) as [c|].
  - destruct (lookup c const_bool) as [d|]; [|discriminate].
    apply Bool.eqb_prop in H. subst; reflexivity.
  - destruct v; [discriminate|reflexivity].
Qed.

(* ---------- purity ---------- *)
Definition pure_args : option (string * string) :=
  a <- lookup (fst market_pure_cmp) market_meta_assign ;;
  b <- lookup (snd market_pure_cmp) market_meta_assign ;; Some (a, b).

Lemma pure_args_eq : pure_args = Some ("long_token_mint", "short_token_mint").
Proof. vm_compute. reflexivity. Qed.

Lemma market_is_pure_spec : forall long short, market_is_pure (mints long short) = Some (long =? short).
Proof.
  intros long short. pose proof pure_args_eq as H.
  unfold pure_args in H. unfold market_is_pure, market_is_pure_of.
  destruct (lookup (fst market_pure_cmp) market_meta_assign) as [a|]; [|discriminate].
  destruct (lookup (snd market_pure_cmp) market_meta_assign) as [b|]; [|discriminate].
  cbn [obind] in *. injection H as -> ->. reflexivity.
Qed.

Lemma calls_pure_flag : mem CALL_SET_PURE market_init_calls = true.
Proof. vm_compute. reflexivity. Qed.
Lemma calls_pools_init : mem CALL_POOLS_INIT market_init_calls = true.
Proof. vm_compute. reflexivity. Qed.

Lemma market_pure_flag_spec : forall long short, market_pure_flag (mints long short) = Some (long =? short).
Proof. intros. unfold market_pure_flag. rewrite calls_pure_flag. apply market_is_pure_spec. Qed.

(* ---------- pools ---------- *)
Definition pool_ok (b : bool) (kind : string) : bool :=
  match pool_after_init b kind with
  | Some p => Bool.eqb (pool_is_pure p) (expected_pool_pure b kind) && (p_long p =? 0) && (p_short p =? 0)
  | None => false
  end.

Definition bad_pools : list (bool * string) :=
  filter (fun bk => negb (pool_ok (fst bk) (snd bk)))
         (map (pair true) pool_kinds ++ map (pair false) pool_kinds).

Lemma no_bad_pools : bad_pools = [].
Proof. vm_compute. reflexivity. Qed.

Lemma pool_ok_all : forall b kind, In kind pool_kinds -> pool_ok b kind = true.
Proof.
  intros b kind Hin.
  assert (In (b, kind) (map (pair true) pool_kinds ++ map (pair false) pool_kinds)) as Hin'.
  { apply in_or_app. destruct b; [left|right]; apply in_map; exact Hin. }
  pose proof (filter_nil_forall _ _ no_bad_pools (b, kind) Hin') as H.
  apply Bool.negb_false_iff in H. exact H.
Qed.

Lemma pools_after_market_init : forall long short kind, In kind pool_kinds ->
  exists p, market_pool (mints long short) kind = Some p
            /\ pool_is_pure p = expected_pool_pure (long =? short) kind
            /\ p_long p = 0 /\ p_short p = 0.
Proof.
  intros long short kind Hin. unfold market_pool. rewrite calls_pools_init, market_is_pure_spec.
  cbn [obind]. pose proof (pool_ok_all (long =? short) kind Hin) as H. unfold pool_ok in H.
  destruct (pool_after_init (long =? short) kind) as [p|]; [|discriminate].
  apply andb_prop in H as [H Hs]. apply andb_prop in H as [Hp Hl].
  exists p. split; [reflexivity|]. split; [apply Bool.eqb_prop; exact Hp|].
  split; apply Z.eqb_eq; assumption.
Qed.

(* ---------- every Factor field of MarketConfig is written by init, exactly once ----------
   (stronger than the property text: a field whose documented default is 0 would also read
   correctly from the zeroed account; the missing-default regression the property mentions is
   exactly a dropped assignment, so it is pinned) *)
Definition times_assigned (f : string) : nat := List.length (filter (String.eqb f) (map fst init_assign)).
Definition not_assigned_once : list string := filter (fun f => negb (Nat.eqb (times_assigned f) 1)) cfg_fields.

Lemma all_assigned_once : not_assigned_once = [].
Proof. vm_compute. reflexivity. Qed.

Lemma every_field_assigned_once : forall f, In f cfg_fields -> times_assigned f = 1%nat.
Proof.
  intros f Hin. pose proof (filter_nil_forall _ _ all_assigned_once f Hin) as H.
  apply Bool.negb_false_iff in H. apply Nat.eqb_eq in H. exact H.
Qed.

(* ---------- spec hygiene: every exception names an existing key/flag and an existing constant ---------- *)
Definition stale_exceptions : list string :=
  map fst (filter (fun kc => negb (mem (fst kc) config_keys && is_some (lookup (snd kc) const_value))) default_exceptions)
  ++ map fst (filter (fun kc => negb (mem (fst kc) config_flags
                                      && match snd kc with Some c => is_some (lookup c const_bool) | None => true end))
                     flag_exceptions)
  ++ filter (fun k => negb (mem k pool_kinds)) always_impure.

Lemma no_stale_exceptions : stale_exceptions = [].
Proof. vm_compute. reflexivity. Qed.
