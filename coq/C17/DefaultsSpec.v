(* C17 — the SPECIFICATION side, hand-written (never generated): which constant documents the
   default of which setting.

   Rule (constants/market.rs: `/// Default <setting>.  pub const DEFAULT_<SETTING>`): the default
   of config key `k` is the constant named DEFAULT_<K>.  The legitimate exceptions — settings whose
   documented default is a differently named constant — are listed explicitly (DESIGN.md §6 C17):
     * the four fee receiver factors share "Default receiver factor." DEFAULT_RECEIVER_FACTOR;
     * two keys whose constant abbreviates the name (…_FOR_OPEN_INTEREST_FOR_*, …_DEPOSIT_*_TOKEN);
     * the three market-closed parameters start from the corresponding open-market default.
   `reserve_factor` is NOT an exception: "Default reserve factor." DEFAULT_RESERVE_FACTOR exists. *)
From GV Require Import lib.Base.
From Coq Require Import String Ascii.
Open Scope string_scope.
Open Scope Z_scope.

Definition up_ascii (a : ascii) : ascii :=
  let n := nat_of_ascii a in
  if (Nat.leb 97 n && Nat.leb n 122)%bool then ascii_of_nat (n - 32) else a.

Fixpoint upper (s : string) : string :=
  match s with EmptyString => EmptyString | String a r => String (up_ascii a) (upper r) end.

Fixpoint slookup (k : string) (l : list (string * string)) : option string :=
  match l with [] => None | (k', v) :: r => if String.eqb k k' then Some v else slookup k r end.

Definition default_exceptions : list (string * string) := [
  ("swap_fee_receiver_factor", "DEFAULT_RECEIVER_FACTOR");
  ("order_fee_receiver_factor", "DEFAULT_RECEIVER_FACTOR");
  ("liquidation_fee_receiver_factor", "DEFAULT_RECEIVER_FACTOR");
  ("borrowing_fee_receiver_factor", "DEFAULT_RECEIVER_FACTOR");
  ("min_collateral_factor_for_open_interest_multiplier_for_long", "DEFAULT_MIN_COLLATERAL_FACTOR_FOR_OPEN_INTEREST_FOR_LONG");
  ("min_collateral_factor_for_open_interest_multiplier_for_short", "DEFAULT_MIN_COLLATERAL_FACTOR_FOR_OPEN_INTEREST_FOR_SHORT");
  ("max_pool_value_for_deposit_for_long_token", "DEFAULT_MAX_POOL_VALUE_FOR_DEPOSIT_LONG_TOKEN");
  ("max_pool_value_for_deposit_for_short_token", "DEFAULT_MAX_POOL_VALUE_FOR_DEPOSIT_SHORT_TOKEN");
  ("market_closed_min_collateral_factor_for_liquidation", "DEFAULT_MIN_COLLATERAL_FACTOR_FOR_LIQUIDATION");
  ("market_closed_borrowing_fee_base_factor", "DEFAULT_BORROWING_FEE_BASE_FACTOR_FOR_LONG");
  ("market_closed_borrowing_fee_above_optimal_usage_factor", "DEFAULT_BORROWING_FEE_ABOVE_OPTIMAL_USAGE_FACTOR_FOR_LONG")
].

(* the constant that documents the default of config key k *)
Definition documented_default (k : string) : string :=
  match slookup k default_exceptions with Some c => c | None => "DEFAULT_" ++ upper k end.

(* flags: Some c = the bool constant c; None = no constant, the flag starts cleared *)
Definition flag_exceptions : list (string * option string) := [
  (* opt-in switch for the market-closed parameter set: off in a new market *)
  ("enable_market_closed_params", None);
  (* the market-closed variant starts from the open-market default *)
  ("market_closed_skip_borrowing_fee_for_smaller_side", Some "DEFAULT_SKIP_BORROWING_FEE_FOR_SMALLER_SIDE")
].

Fixpoint flookup (k : string) (l : list (string * option string)) : option (option string) :=
  match l with [] => None | (k', v) :: r => if String.eqb k k' then Some v else flookup k r end.

Definition documented_flag_default (f : string) : option string :=
  match flookup f flag_exceptions with Some c => c | None => Some ("DEFAULT_" ++ upper f) end.

(* pools that are never pure (they do not hold the two pool tokens side by side):
   position impact (index-token amount), borrowing factor and total borrowing (per-side factors) *)
Definition always_impure : list string := ["position_impact"; "borrowing_factor"; "total_borrowing"].

Definition expected_pool_pure (tokens_coincide : bool) (kind : string) : bool :=
  if existsb (String.eqb kind) always_impure then false else tokens_coincide.
