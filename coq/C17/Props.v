(* C17 — property theorems (pinned statements).  All tables mentioned (config_keys, config_flags,
   pool_kinds, const_value, ... inside market_cfg_value etc.) are the ones REGENERATED from the Rust
   source by translate/c17.py before this file is compiled; the quantifiers range over the complete,
   finite key sets of those tables. *)
From GV Require Import lib.Base gen.C17Tables C17.Model C17.DefaultsSpec C17.Proofs.
From Coq Require Import String.
Open Scope string_scope.
Open Scope Z_scope.

(* every config key: value right after Market::init = value of the documented default constant *)
Theorem c17_defaults_match : forall k, In k config_keys ->
  exists v, market_cfg_value k = Some v /\ lookup (documented_default k) const_value = Some v.
Proof. exact defaults_match. Qed.

(* every config flag: initial value = documented bool constant (or cleared where there is none) *)
Theorem c17_flags_match : forall f, In f config_flags ->
  exists v, market_cfg_flag f = Some v /\
            match documented_flag_default f with
            | Some c => lookup c const_bool = Some v
            | None => v = false
            end.
Proof. exact flags_match. Qed.

(* the market is flagged pure exactly when the long and short token mints coincide *)
Theorem c17_market_pure_iff_tokens_coincide : forall long short,
  market_pure_flag (mints long short) = Some (long =? short).
Proof. exact market_pure_flag_spec. Qed.

(* every pool kind: present, pure exactly when the tokens coincide — except position impact,
   borrowing factor and total borrowing, which are always impure — and both amounts zero *)
Theorem c17_pools_pure_flags_and_zero : forall long short kind, In kind pool_kinds ->
  exists p, market_pool (mints long short) kind = Some p
            /\ pool_is_pure p = expected_pool_pure (long =? short) kind
            /\ p_long p = 0 /\ p_short p = 0.
Proof. exact pools_after_market_init. Qed.

(* MarketConfig::init writes every Factor field of the struct exactly once (no default is left to
   the zeroed account, none is overwritten later in init) *)
Theorem c17_every_field_assigned_once : forall f, In f cfg_fields -> times_assigned f = 1%nat.
Proof. exact every_field_assigned_once. Qed.

(* the hand-written exception lists mention only existing keys, flags, kinds and constants *)
Theorem c17_spec_has_no_stale_entries : stale_exceptions = [].
Proof. exact no_stale_exceptions. Qed.

(* ---- non-vacuity ---- *)
Example c17_keys_nonempty : (60 <=? Z.of_nat (List.length config_keys)) = true /\ In "reserve_factor" config_keys.
Proof. split; [vm_compute; reflexivity|]. vm_compute. tauto. Qed.

Example c17_pure_and_impure_differ :
  (exists p, market_pool (mints 7 7) "primary" = Some p /\ pool_is_pure p = true) /\
  (exists p, market_pool (mints 7 8) "primary" = Some p /\ pool_is_pure p = false) /\
  (exists p, market_pool (mints 7 7) "position_impact" = Some p /\ pool_is_pure p = false).
Proof. repeat split; eexists; split; vm_compute; reflexivity. Qed.

(* the decision procedure is falsifiable: on hand-made tables with the historical defect
   (reserve_factor initialised from the receiver-factor constant) the value differs from the
   documented default *)
Example c17_defect_shape_is_detected :
  let cv := [("DEFAULT_RECEIVER_FACTOR", 7); ("DEFAULT_RESERVE_FACTOR", 5)] in
  init_value_of [("reserve_factor", "reserve_factor")] [("reserve_factor", "DEFAULT_RECEIVER_FACTOR")] cv "reserve_factor" = Some 7
  /\ lookup (documented_default "reserve_factor") cv = Some 5.
Proof. split; vm_compute; reflexivity. Qed.
