(* C03 — correspondence and oracle predicates for harness/src/bin/c03.rs.
   Depends on Model.v only.  Error codes: see Model.v (99 = anything else). *)
From GV Require Import lib.Base C01.Model.
From GV Require Export C03.Model.
Open Scope Z_scope.

Inductive case :=
(* PoolDelta::try_new(pool (la,sa), delta usd values dl ds, prices pl ps).price_impact(p) *)
| CImpact (w dec : Z) (p : piparams) (la sa pl ps dl ds : Z) (r : res (Z * bchange))
(* PoolDelta::try_from_delta_amounts(.., delta amounts dal das, ..).price_impact(p) *)
| CImpactA (w dec : Z) (p : piparams) (la sa pl ps dal das : Z) (r : res (Z * bchange))
(* round trip: r1 on pool (la,sa) with (dal,das); r2 on pool (la+dal, sa+das) with (-dal,-das) *)
| CRound (w dec : Z) (p : piparams) (la sa pl ps dal das : Z) (r1 r2 : res (Z * bchange))
(* swap_impact_value with include_virtual_inventory_impact = false (r_real) and [incl] (r) *)
| CSwap (w dec : Z) (p : piparams) (la sa pl ps dl ds : Z) (vi : option (Z * Z)) (incl : bool)
        (r_real r : res (Z * bchange))
(* position_price_impact, same convention *)
| CPosI (w dec : Z) (p : piparams) (oll ols osl oss : Z) (vi : option (Z * Z)) (is_long : bool)
        (size_delta : Z) (incl : bool) (r_real r : res (Z * bchange)).

Definition bceqb (a b : bchange) : bool :=
  match a, b with Improved, Improved | Worsened, Worsened | Unchanged, Unchanged => true | _, _ => false end.
Definition rveqb (a b : res (Z * bchange)) : bool :=
  match a, b with
  | Ok (x, c), Ok (y, d) => (x =? y) && bceqb c d
  | Err x, Err y => x =? y
  | _, _ => false
  end.

Definition corr_b (c : case) : bool :=
  match c with
  | CImpact w dec p la sa pl ps dl ds r =>
      rveqb (d <-- pd_new w la sa pl ps dl ds ;; price_impact w (10 ^ dec) p d) r
  | CImpactA w dec p la sa pl ps dal das r =>
      rveqb (d <-- pd_from_amounts w la sa pl ps dal das ;; price_impact w (10 ^ dec) p d) r
  | CRound w dec p la sa pl ps dal das r1 r2 =>
      rveqb (d <-- pd_from_amounts w la sa pl ps dal das ;; price_impact w (10 ^ dec) p d) r1 &&
      rveqb (d <-- pd_from_amounts w (la + dal) (sa + das) pl ps (- dal) (- das) ;; price_impact w (10 ^ dec) p d) r2
  | CSwap w dec p la sa pl ps dl ds vi incl r_real r =>
      rveqb (swap_impact_value w (10 ^ dec) p la sa pl ps dl ds vi false) r_real &&
      rveqb (swap_impact_value w (10 ^ dec) p la sa pl ps dl ds vi incl) r
  | CPosI w dec p oll ols osl oss vi is_long sd incl r_real r =>
      rveqb (position_price_impact w (10 ^ dec) p oll ols osl oss vi is_long sd false) r_real &&
      rveqb (position_price_impact w (10 ^ dec) p oll ols osl oss vi is_long sd incl) r
  end.

(* ---------- the property on the implementation's outputs ----------
   Sign rules in terms of the signed imbalance before (D0 = long - short usd value) and after
   (D1) the change:
     |D1| > |D0| (worsened)   -> impact <= 0
     |D1| = |D0| (unchanged)  -> impact <= 0, and = 0 if the heavier side did not change
     |D1| < |D0| (improved)   -> impact >= 0            [strict only; see class 1]
   and the reported balance change is the comparison of |D1| with |D0|. *)
Definition same_side_b (D0 D1 : Z) : bool := Bool.eqb (D0 <=? 0) (D1 <=? 0).

Definition sign_ok (strict : bool) (D0 D1 : Z) (r : Z * bchange) : bool :=
  let '(v, bc) := r in
  let i := Z.abs D0 in let n := Z.abs D1 in
  if i <? n then bceqb bc Worsened && (v <=? 0)
  else if i =? n then bceqb bc Unchanged && (v <=? 0) && (negb (same_side_b D0 D1) || (v =? 0))
  else bceqb bc Improved && (same_side_b D0 D1 || negb strict || (0 <=? v)) &&
       (negb (same_side_b D0 D1) || (0 <=? v)).

Definition err_ok (e : Z) : bool := negb (e =? 99) && negb (e =? 7) && negb (e =? 8).

Definition res_sign_ok (strict : bool) (D0 D1 : Z) (r : res (Z * bchange)) : bool :=
  match r with Ok x => sign_ok strict D0 D1 x | Err e => err_ok e end.

(* the result with the virtual inventory is never better than the real impact, is the real
   impact itself when that is non-negative / no virtual inventory / not requested, and when it
   differs it obeys the sign rules of the virtual pool (imbalance V0 -> V1) *)
Definition virt_ok (strict : bool) (has_vi incl : bool) (V0 V1 : Z) (r_real r : res (Z * bchange)) : bool :=
  match r_real, r with
  | Err e, Err e' => e =? e'
  | Err _, Ok _ => false
  | Ok (v0, b0), Ok (v, b) =>
      (v <=? v0) &&
      (if (0 <=? v0) || negb incl || negb has_vi then (v =? v0) && bceqb b b0
       else ((v =? v0) && bceqb b b0) || sign_ok strict V0 V1 (v, b))
  | Ok (v0, _), Err e => (v0 <? 0) && incl && has_vi && err_ok e
  end.

Definition oracle_gen (strict : bool) (c : case) : bool :=
  match c with
  | CImpact w dec p la sa pl ps dl ds r =>
      res_sign_ok strict (la * pl - sa * ps) (la * pl + dl - (sa * ps + ds)) r
  | CImpactA w dec p la sa pl ps dal das r =>
      res_sign_ok strict (la * pl - sa * ps) ((la + dal) * pl - (sa + das) * ps) r
  | CRound w dec p la sa pl ps dal das r1 r2 =>
      let D0 := la * pl - sa * ps in
      let D1 := (la + dal) * pl - (sa + das) * ps in
      res_sign_ok strict D0 D1 r1 && res_sign_ok strict D1 D0 r2 &&
      match r1, r2 with
      | Ok (v1, _), Ok (v2, _) =>
          (* a change followed by its exact reverse never yields a positive total *)
          if strict then v1 + v2 <=? 0
          else if same_side_b D0 D1 then v1 + v2 <=? 1 else v1 + v2 <=? 0
      | _, _ => true
      end
  | CSwap w dec p la sa pl ps dl ds vi incl r_real r =>
      let D0 := la * pl - sa * ps in
      res_sign_ok strict D0 (D0 + dl - ds) r_real &&
      match vi with
      | Some (vl, vs) => virt_ok strict true incl (vl * pl - vs * ps) (vl * pl - vs * ps + dl - ds) r_real r
      | None => virt_ok strict false incl 0 0 r_real r
      end
  | CPosI w dec p oll ols osl oss vi is_long sd incl r_real r =>
      let D0 := oll + ols - (osl + oss) in
      let dd := if is_long then sd else - sd in
      res_sign_ok strict D0 (D0 + dd) r_real &&
      match vi with
      | Some (vl, vs) => virt_ok strict true incl (vl - vs) (vl - vs + dd) r_real r
      | None => virt_ok strict false incl 0 0 r_real r
      end
  end.

Definition oracle_b (c : case) : bool := oracle_gen true c.

(* Known finding classes (inherited from the GMX formula):
   1 = CrossOverImproved: a cross-over rebalance that improves the balance gets a negative
       impact (next^e * negative factor > initial^e * positive factor).
   2 = RoundTripFloorResidue: a same-side round trip nets exactly +1 unit of 10^-DEC usd
       because the two legs are floored independently.
   A class is reported only if every other clause of the oracle holds. *)
Definition round_total (c : case) : option (Z * bool) :=
  match c with
  | CRound w dec p la sa pl ps dal das (Ok (v1, _)) (Ok (v2, _)) =>
      Some (v1 + v2, same_side_b (la * pl - sa * ps) ((la + dal) * pl - (sa + das) * ps))
  | _ => None
  end.

Definition known_b (c : case) : Z :=
  if oracle_gen true c then 0
  else if negb (oracle_gen false c) then 0
  else match round_total c with
       | Some (t, true) => if t =? 1 then 2 else 0   (* same-side legs cannot be in class 1 *)
       | _ => 1
       end.
