(* C03 — model of price impact: crates/model/src/pool/delta.rs (PoolValue, PoolDelta,
   price_impact), params/price_impact.rs (adjusted_factors), market/swap.rs
   (swap_impact_value), position.rs (position_price_impact), pool/mod.rs
   (checked_cancel_amounts, default implementation) over the harness pool.
   Parametric in [w] and [unit].  Exponents are unit multiples (C01.pow_fixed).
   Definitions only.

   Error codes: 1 PowComputation, 2 Overflow, 3 "next delta long usd value",
   4 "next delta short usd value", 6 Convert, 7 "same side rebalance: negating delta",
   8 "cross over rebalance: negating delta", 9 "delta long token usd value",
   10 "delta short token usd value", 11 "calculating virtual open interest offset",
   12 "to opposite signed", 13 "decreasing long amount", 14 "decreasing short amount". *)
From GV Require Import lib.Base C01.Model.
Open Scope Z_scope.

Inductive bchange := Improved | Worsened | Unchanged.

(* PriceImpactParams *)
Record piparams := MkPI { pi_exp : Z; pi_pos : Z; pi_neg : Z }.

(* PriceImpactParams::adjusted_factors : (positive, negative) with the positive one capped *)
Definition adjusted (p : piparams) : Z * Z :=
  if pi_neg p <? pi_pos p then (pi_neg p, pi_neg p) else (pi_pos p, pi_neg p).

(* PoolDelta: current and next usd values, and the deltas *)
Record pdelta := MkPD { cur_l : Z; cur_s : Z; nxt_l : Z; nxt_s : Z; dlt_l : Z; dlt_s : Z }.

Definition initial_diff (d : pdelta) : Z := Z.abs (cur_l d - cur_s d).
Definition next_diff (d : pdelta) : Z := Z.abs (nxt_l d - nxt_s d).
Definition same_side (d : pdelta) : bool :=
  Bool.eqb (cur_l d <=? cur_s d) (nxt_l d <=? nxt_s d).
Definition bc_of (initial next : Z) : bchange :=
  if next =? initial then Unchanged else if initial <? next then Worsened else Improved.

Section Impact.
  Variables w unit : Z.

  (* PoolValue::try_new + PoolDelta::try_new on a pool (la, sa) at prices (pl, ps) *)
  Definition pd_new (la sa pl ps dl ds : Z) : res pdelta :=
    cl <-- of_opt 2 (umul w la pl) ;;
    cs <-- of_opt 2 (umul w sa ps) ;;
    nl <-- of_opt 3 (add_with_signed w cl dl) ;;
    ns <-- of_opt 4 (add_with_signed w cs ds) ;;
    Ok (MkPD cl cs nl ns dl ds).

  (* PoolDelta::try_from_delta_amounts *)
  Definition pd_from_amounts (la sa pl ps dal das : Z) : res pdelta :=
    dl <-- of_opt 9 (mul_with_signed w pl dal) ;;
    ds <-- of_opt 10 (mul_with_signed w ps das) ;;
    pd_new la sa pl ps dl ds.

  (* price_impact_for_same_side_rebalance *)
  Definition impact_same (p : piparams) (initial next : Z) : res Z :=
    let has_pos := next <? initial in
    let '(pf, nf) := adjusted p in
    let f := if has_pos then pf else nf in
    a <-- apply_factors w unit initial f (pi_exp p) ;;
    b <-- apply_factors w unit next f (pi_exp p) ;;
    d <-- of_opt 6 (to_signed w (Z.abs (a - b))) ;;
    if has_pos then Ok d else of_opt 7 (sneg w d).

  (* price_impact_for_cross_over_rebalance *)
  Definition impact_cross (p : piparams) (initial next : Z) : res Z :=
    let '(pf, nf) := adjusted p in
    a <-- apply_factors w unit initial pf (pi_exp p) ;;
    b <-- apply_factors w unit next nf (pi_exp p) ;;
    let has_pos := b <? a in
    d <-- of_opt 6 (to_signed w (Z.abs (a - b))) ;;
    if has_pos then Ok d else of_opt 8 (sneg w d).

  (* PoolDelta::price_impact *)
  Definition price_impact (p : piparams) (d : pdelta) : res (Z * bchange) :=
    let initial := initial_diff d in
    let next := next_diff d in
    v <-- (if same_side d then impact_same p initial next else impact_cross p initial next) ;;
    Ok (v, bc_of initial next).

  (* "worse of real and virtual": evaluated only when the real impact is negative *)
  Definition worse_of (real : Z * bchange) (virt : res (Z * bchange)) : res (Z * bchange) :=
    v <-- virt ;; if fst v <? fst real then Ok v else Ok real.

  (* SwapMarketExt::swap_impact_value ; [vi] = virtual inventory for swaps (amounts) *)
  Definition swap_impact_value (p : piparams) (la sa pl ps dl ds : Z) (vi : option (Z * Z))
             (incl : bool) : res (Z * bchange) :=
    d <-- pd_new la sa pl ps dl ds ;;
    real <-- price_impact p d ;;
    if (0 <=? fst real) || negb incl then Ok real else
    match vi with
    | None => Ok real
    | Some (vl, vs) =>
        worse_of real (dv <-- pd_new vl vs pl ps dl ds ;; price_impact p dv)
    end.

  (* Pool::checked_cancel_amounts (default implementation) on the harness pool *)
  Definition cancel_amounts (l s : Z) : res (Z * Z) :=
    let x := if s <=? l then s else l in
    sx <-- of_opt 6 (to_signed w x) ;;
    nx <-- of_opt 12 (sneg w sx) ;;
    l' <-- of_opt 13 (usub w l (Z.abs nx)) ;;
    s' <-- of_opt 14 (usub w s (Z.abs nx)) ;;
    Ok (l', s').

  (* PositionExt::position_price_impact.  Open interest pools (oll, ols) for longs and
     (osl, oss) for shorts are merged; the usd price is one. *)
  Definition position_price_impact (p : piparams) (oll ols osl oss : Z) (vi : option (Z * Z))
             (is_long : bool) (size_delta : Z) (incl : bool) : res (Z * bchange) :=
    let dl := if is_long then size_delta else 0 in
    let ds := if is_long then 0 else size_delta in
    ol <-- of_opt 2 (uadd w oll ols) ;;
    os <-- of_opt 2 (uadd w osl oss) ;;
    d <-- pd_new ol os 1 1 dl ds ;;
    real <-- price_impact p d ;;
    if (0 <=? fst real) || negb incl then Ok real else
    match vi with
    | None => Ok real
    | Some (vl, vs) =>
        lo <-- cancel_amounts vl vs ;;
        lo2 <-- (if size_delta <? 0 then
                   off <-- of_opt 11 (sneg w size_delta) ;;
                   l2 <-- of_opt 2 (uadd w (fst lo) off) ;;
                   s2 <-- of_opt 2 (uadd w (snd lo) off) ;;
                   Ok (l2, s2)
                 else Ok lo) ;;
        worse_of real (dv <-- pd_new (fst lo2) (snd lo2) 1 1 dl ds ;; price_impact p dv)
    end.
End Impact.
