(* C03 — lemmas about the price impact model. *)
From GV Require Import lib.Base lib.DivLemmas C01.Model C01.Proofs C03.Model.
Open Scope Z_scope.
Ltac Zify.zify_post_hook ::= Z.div_mod_to_equations.

Lemma rbind_ok {A B} (a : res A) (f : A -> res B) r :
  rbind a f = Ok r <-> exists x, a = Ok x /\ f x = Ok r.
Proof.
  destruct a; simpl; split; intros H; eauto.
  - destruct H as [x [E H]]. injection E as <-. exact H.
  - discriminate.
  - destruct H as [x [E _]]; discriminate.
Qed.
Lemma of_opt_ok {A} e (o : option A) x : of_opt e o = Ok x <-> o = Some x.
Proof. destruct o; simpl; split; intros H; try discriminate; congruence. Qed.

Definition wf_pi (p : piparams) : Prop := 0 <= pi_exp p /\ 0 <= pi_pos p /\ 0 <= pi_neg p.

(* PriceImpactParams::adjusted_factors caps the positive factor *)
Lemma adjusted_spec p :
  fst (adjusted p) = Z.min (pi_pos p) (pi_neg p) /\ snd (adjusted p) = pi_neg p /\
  fst (adjusted p) <= snd (adjusted p).
Proof. unfold adjusted. destruct (pi_neg p <? pi_pos p) eqn:E; simpl; lia. Qed.

Definition reverse (d : pdelta) : pdelta :=
  MkPD (nxt_l d) (nxt_s d) (cur_l d) (cur_s d) (- dlt_l d) (- dlt_s d).

Lemma same_side_reverse d : same_side (reverse d) = same_side d.
Proof. unfold same_side, reverse. simpl. destruct (cur_l d <=? cur_s d), (nxt_l d <=? nxt_s d); reflexivity. Qed.

Section P.
  Variable w : Z.
  Hypothesis Hw : 1 <= w.
  Variable unit : Z.
  Hypothesis Hunit : 0 < unit < 2 ^ w.

  Let P2' : 0 < 2 ^ (w - 1). Proof. apply pow2_pos; lia. Qed.

  (* ---- monotonicity of x |-> x^e and of x, f |-> x^e * f ---- *)
  Lemma pow_loop_ge_unit b n r : unit <= b -> pow_loop w unit b n = Some r -> unit <= r.
  Proof.
    intros Hb. revert r. induction n as [|n IH] using N.peano_ind; intros r.
    - rewrite pow_loop_0. intros H; injection H as <-. lia.
    - rewrite pow_loop_succ, obind_some. intros (a & Ha & Hf). specialize (IH a Ha).
      unfold fmul in Hf. apply mul_div_exact in Hf; [|lia..]. destruct Hf as (_ & -> & _).
      apply Z.div_le_lower_bound; [lia|]. nia.
  Qed.

  Lemma aef_nonneg v e r : 0 <= v -> apply_exponent_factor w unit v e = Some r -> 0 <= r.
  Proof.
    intros Hv. unfold apply_exponent_factor.
    destruct (v <? unit) eqn:E1; [intros H; injection H as <-; lia|].
    destruct (v =? unit) eqn:E2; [intros H; injection H as <-; lia|].
    destruct (e =? 0) eqn:E3; [intros H; injection H as <-; lia|].
    destruct (e =? unit) eqn:E4; [intros H; injection H as <-; lia|].
    unfold pow_fixed. destruct (e mod unit =? 0); [|discriminate].
    intros H. apply pow_loop_upper in H; [|lia..]. lia.
  Qed.

  Lemma aef_mono v1 v2 e r1 r2 : 0 <= v1 <= v2 ->
    apply_exponent_factor w unit v1 e = Some r1 -> apply_exponent_factor w unit v2 e = Some r2 -> r1 <= r2.
  Proof.
    intros Hv H1 H2. pose proof (aef_nonneg v2 e r2 ltac:(lia) H2) as Hr2.
    unfold apply_exponent_factor in *.
    destruct (v1 <? unit) eqn:A1; [injection H1 as <-; lia|].
    destruct (v2 <? unit) eqn:B1; [lia|].
    destruct (v1 =? unit) eqn:A2.
    - injection H1 as <-.
      destruct (v2 =? unit) eqn:B2; [injection H2 as <-; lia|].
      destruct (e =? 0) eqn:E3; [injection H2 as <-; lia|].
      destruct (e =? unit) eqn:E4; [injection H2 as <-; lia|].
      unfold pow_fixed in H2. destruct (e mod unit =? 0); [|discriminate].
      apply pow_loop_ge_unit in H2; lia.
    - destruct (v2 =? unit) eqn:B2; [lia|].
      destruct (e =? 0) eqn:E3; [injection H1 as <-; injection H2 as <-; lia|].
      destruct (e =? unit) eqn:E4; [injection H1 as <-; injection H2 as <-; lia|].
      unfold pow_fixed in *. destruct (e mod unit =? 0); [|discriminate].
      exact (pow_loop_mono w Hw unit ltac:(lia) v1 v2 _ r1 r2 ltac:(lia) H1 H2).
  Qed.

  (* apply_factors x f e = floor(X * f / unit) with X = x^e *)
  Lemma af_form x f e r : 0 <= x -> 0 <= f -> apply_factors w unit x f e = Ok r ->
    exists X, apply_exponent_factor w unit x e = Some X /\ 0 <= X /\ r = X * f / unit.
  Proof.
    intros Hx Hf. unfold apply_factors. rewrite rbind_ok. intros (X & H1 & H2).
    apply of_opt_ok in H1. apply of_opt_ok in H2. pose proof (aef_nonneg x e X Hx H1).
    unfold fmul in H2. apply mul_div_exact in H2; [|lia..]. exists X. repeat split; [assumption|lia|tauto].
  Qed.

  Lemma af_mono x1 x2 f1 f2 e r1 r2 : 0 <= x1 <= x2 -> 0 <= f1 <= f2 ->
    apply_factors w unit x1 f1 e = Ok r1 -> apply_factors w unit x2 f2 e = Ok r2 -> 0 <= r1 <= r2.
  Proof.
    intros Hx Hf H1 H2. apply af_form in H1; [|lia..]. apply af_form in H2; [|lia..].
    destruct H1 as (X1 & A1 & B1 & ->). destruct H2 as (X2 & A2 & B2 & ->).
    pose proof (aef_mono x1 x2 e X1 X2 Hx A1 A2). split.
    - apply div_nonneg; nia.
    - apply div_mono_num; nia.
  Qed.

  Lemma af_det x f e r1 r2 : apply_factors w unit x f e = Ok r1 -> apply_factors w unit x f e = Ok r2 -> r1 = r2.
  Proof. congruence. Qed.

  (* ---- the two branches compute a - b ---- *)
  Section WithP.
    Variable p : piparams.
    Hypothesis Hp : wf_pi p.
    Let pf := fst (adjusted p).
    Let nf := snd (adjusted p).
    Let Hpf : 0 <= pf <= nf.
    Proof. subst pf nf. destruct (adjusted_spec p) as (A & B & C). destruct Hp as (_ & H1 & H2). lia. Qed.

    Lemma impact_same_form i n v : 0 <= i -> 0 <= n -> impact_same w unit p i n = Ok v ->
      let f := if n <? i then pf else nf in
      exists a b, apply_factors w unit i f (pi_exp p) = Ok a /\
                  apply_factors w unit n f (pi_exp p) = Ok b /\ v = a - b.
    Proof.
      intros Hi Hn. unfold impact_same. subst pf nf. destruct (adjusted p) as [pf0 nf0] eqn:EA. simpl in *.
      rewrite rbind_ok. intros (a & H1 & H2). rewrite rbind_ok in H2. destruct H2 as (b & H2 & H3).
      rewrite rbind_ok in H3. destruct H3 as (d & H3 & H4). apply of_opt_ok in H3. apply to_signed_some in H3.
      destruct H3 as [_ ->]. exists a, b. split; [exact H1|]. split; [exact H2|].
      destruct (n <? i) eqn:E.
      - injection H4 as <-. pose proof (af_mono n i pf0 pf0 (pi_exp p) b a ltac:(lia) ltac:(lia) H2 H1). lia.
      - apply of_opt_ok in H4. unfold sneg in H4. apply chk_s_some in H4. destruct H4 as [_ ->].
        pose proof (af_mono i n nf0 nf0 (pi_exp p) a b ltac:(lia) ltac:(lia) H1 H2). lia.
    Qed.

    Lemma impact_cross_form i n v : impact_cross w unit p i n = Ok v ->
      exists a b, apply_factors w unit i pf (pi_exp p) = Ok a /\
                  apply_factors w unit n nf (pi_exp p) = Ok b /\ v = a - b.
    Proof.
      unfold impact_cross. subst pf nf. destruct (adjusted p) as [pf0 nf0] eqn:EA. simpl in *.
      rewrite rbind_ok. intros (a & H1 & H2). rewrite rbind_ok in H2. destruct H2 as (b & H2 & H3).
      rewrite rbind_ok in H3. destruct H3 as (d & H3 & H4). apply of_opt_ok in H3. apply to_signed_some in H3.
      destruct H3 as [_ ->]. exists a, b. split; [exact H1|]. split; [exact H2|].
      destruct (b <? a) eqn:E.
      - injection H4 as <-. lia.
      - apply of_opt_ok in H4. unfold sneg in H4. apply chk_s_some in H4. destruct H4 as [_ ->]. lia.
    Qed.

    (* ---- sign rules ---- *)
    Lemma impact_same_worsened i n v : 0 <= i -> i < n -> impact_same w unit p i n = Ok v -> v <= 0.
    Proof.
      intros Hi Hn H. apply impact_same_form in H; [|lia..]. cbv zeta in H.
      replace (n <? i) with false in H by lia. destruct H as (a & b & H1 & H2 & ->).
      pose proof (af_mono i n nf nf (pi_exp p) a b ltac:(lia) ltac:(lia) H1 H2). lia.
    Qed.
    Lemma impact_same_unchanged i v : 0 <= i -> impact_same w unit p i i = Ok v -> v = 0.
    Proof.
      intros Hi H. apply impact_same_form in H; [|lia..]. cbv zeta in H.
      destruct H as (a & b & H1 & H2 & ->). rewrite H1 in H2. injection H2 as <-. lia.
    Qed.
    Lemma impact_same_improved i n v : 0 <= n -> n < i -> impact_same w unit p i n = Ok v -> 0 <= v.
    Proof.
      intros Hn Hi H. apply impact_same_form in H; [|lia..]. cbv zeta in H.
      replace (n <? i) with true in H by lia. destruct H as (a & b & H1 & H2 & ->).
      pose proof (af_mono n i pf pf (pi_exp p) b a ltac:(lia) ltac:(lia) H2 H1). lia.
    Qed.
    Lemma impact_cross_not_improved i n v : 0 <= i -> i <= n -> impact_cross w unit p i n = Ok v -> v <= 0.
    Proof.
      intros Hi Hn H. apply impact_cross_form in H. destruct H as (a & b & H1 & H2 & ->).
      pose proof (af_mono i n pf nf (pi_exp p) a b ltac:(lia) ltac:(lia) H1 H2). lia.
    Qed.

    Lemma diffs_nonneg d : 0 <= initial_diff d /\ 0 <= next_diff d.
    Proof. unfold initial_diff, next_diff. lia. Qed.

    Lemma price_impact_ok d v bc : price_impact w unit p d = Ok (v, bc) ->
      bc = bc_of (initial_diff d) (next_diff d) /\
      (if same_side d then impact_same w unit p (initial_diff d) (next_diff d)
       else impact_cross w unit p (initial_diff d) (next_diff d)) = Ok v.
    Proof.
      unfold price_impact. rewrite rbind_ok. intros (v' & H1 & H2). injection H2 as <- <-. auto.
    Qed.

    Theorem worsened_nonpos d v bc : price_impact w unit p d = Ok (v, bc) ->
      initial_diff d < next_diff d -> v <= 0 /\ bc = Worsened.
    Proof.
      intros H Hlt. apply price_impact_ok in H. destruct H as [-> H]. destruct (diffs_nonneg d) as [Hi Hn].
      split.
      - destruct (same_side d); [exact (impact_same_worsened _ _ _ Hi Hlt H)|exact (impact_cross_not_improved (initial_diff d) (next_diff d) v Hi ltac:(lia) H)].
      - unfold bc_of. replace (next_diff d =? initial_diff d) with false by lia.
        replace (initial_diff d <? next_diff d) with true by lia. reflexivity.
    Qed.

    Theorem unchanged_nonpos d v bc : price_impact w unit p d = Ok (v, bc) ->
      initial_diff d = next_diff d -> v <= 0 /\ bc = Unchanged /\ (same_side d = true -> v = 0).
    Proof.
      intros H Heq. apply price_impact_ok in H. destruct H as [-> H]. destruct (diffs_nonneg d) as [Hi Hn].
      rewrite <- Heq in *. repeat split.
      - destruct (same_side d).
        + apply impact_same_unchanged in H; lia.
        + exact (impact_cross_not_improved (initial_diff d) (initial_diff d) v Hi ltac:(lia) H).
      - unfold bc_of. rewrite Z.eqb_refl. reflexivity.
      - intros E. rewrite E in H. apply impact_same_unchanged in H; lia.
    Qed.

    Theorem improved_same_side_nonneg d v bc : price_impact w unit p d = Ok (v, bc) ->
      next_diff d < initial_diff d -> bc = Improved /\ (same_side d = true -> 0 <= v).
    Proof.
      intros H Hlt. apply price_impact_ok in H. destruct H as [-> H]. destruct (diffs_nonneg d) as [Hi Hn].
      split.
      - unfold bc_of. replace (next_diff d =? initial_diff d) with false by lia.
        replace (initial_diff d <? next_diff d) with false by lia. reflexivity.
      - intros E. rewrite E in H. exact (impact_same_improved _ _ _ Hn Hlt H).
    Qed.

    (* ---- round trip ---- *)
    Lemma floor_residue X0 X1 f1 f2 : 0 <= X0 <= X1 -> 0 <= f1 <= f2 ->
      (X1 * f1 / unit - X0 * f1 / unit) - (X1 * f2 / unit - X0 * f2 / unit) <= 1.
    Proof.
      intros HX Hf.
      pose proof (div_floor_spec (X1 * f1) unit ltac:(lia)).
      pose proof (div_floor_spec (X0 * f1) unit ltac:(lia)).
      pose proof (div_floor_spec (X1 * f2) unit ltac:(lia)).
      pose proof (div_floor_spec (X0 * f2) unit ltac:(lia)).
      assert ((X1 - X0) * (f1 - f2) <= 0) by nia.
      set (q1 := X1 * f1 / unit) in *. set (q0 := X0 * f1 / unit) in *.
      set (r1 := X1 * f2 / unit) in *. set (r0 := X0 * f2 / unit) in *.
      assert (unit * (q1 - q0 - r1 + r0) < 2 * unit) by nia. nia.
    Qed.

    Lemma round_trip_same i n v1 v2 : 0 <= i -> 0 <= n ->
      impact_same w unit p i n = Ok v1 -> impact_same w unit p n i = Ok v2 -> v1 + v2 <= 1.
    Proof.
      intros Hi Hn H1 H2.
      apply impact_same_form in H1; [|lia..]. apply impact_same_form in H2; [|lia..]. cbv zeta in *.
      destruct H1 as (a1 & b1 & A1 & B1 & ->). destruct H2 as (a2 & b2 & A2 & B2 & ->).
      destruct (Z.lt_trichotomy i n) as [L|[E|L]].
      - replace (n <? i) with false in * by lia. replace (i <? n) with true in * by lia.
        apply af_form in A1; [|lia..]. apply af_form in B1; [|lia..].
        apply af_form in A2; [|lia..]. apply af_form in B2; [|lia..].
        destruct A1 as (Xi & Ei & Pi & ->). destruct B1 as (Xn & En & Pn & ->).
        destruct A2 as (Xn' & En' & _ & ->). destruct B2 as (Xi' & Ei' & _ & ->).
        rewrite En in En'. injection En' as <-. rewrite Ei in Ei'. injection Ei' as <-.
        pose proof (aef_mono i n (pi_exp p) Xi Xn ltac:(lia) Ei En).
        pose proof (floor_residue Xi Xn pf nf ltac:(lia) ltac:(lia)). lia.
      - subst n. rewrite A1 in B1. injection B1 as <-. rewrite A2 in B2. injection B2 as <-. lia.
      - replace (n <? i) with true in * by lia. replace (i <? n) with false in * by lia.
        apply af_form in A1; [|lia..]. apply af_form in B1; [|lia..].
        apply af_form in A2; [|lia..]. apply af_form in B2; [|lia..].
        destruct A1 as (Xi & Ei & Pi & ->). destruct B1 as (Xn & En & Pn & ->).
        destruct A2 as (Xn' & En' & _ & ->). destruct B2 as (Xi' & Ei' & _ & ->).
        rewrite En in En'. injection En' as <-. rewrite Ei in Ei'. injection Ei' as <-.
        pose proof (aef_mono n i (pi_exp p) Xn Xi ltac:(lia) En Ei).
        pose proof (floor_residue Xn Xi pf nf ltac:(lia) ltac:(lia)). lia.
    Qed.

    Lemma round_trip_cross i n v1 v2 : 0 <= i -> 0 <= n ->
      impact_cross w unit p i n = Ok v1 -> impact_cross w unit p n i = Ok v2 -> v1 + v2 <= 0.
    Proof.
      intros Hi Hn H1 H2.
      apply impact_cross_form in H1. apply impact_cross_form in H2.
      destruct H1 as (a1 & b1 & A1 & B1 & ->). destruct H2 as (a2 & b2 & A2 & B2 & ->).
      pose proof (af_mono i i pf nf (pi_exp p) a1 b2 ltac:(lia) ltac:(lia) A1 B2).
      pose proof (af_mono n n pf nf (pi_exp p) a2 b1 ltac:(lia) ltac:(lia) A2 B1). lia.
    Qed.

    Theorem round_trip d v1 b1 v2 b2 :
      price_impact w unit p d = Ok (v1, b1) -> price_impact w unit p (reverse d) = Ok (v2, b2) ->
      (same_side d = false -> v1 + v2 <= 0) /\ (same_side d = true -> v1 + v2 <= 1).
    Proof.
      intros H1 H2. apply price_impact_ok in H1. apply price_impact_ok in H2.
      destruct H1 as [_ H1]. destruct H2 as [_ H2]. rewrite same_side_reverse in H2.
      destruct (diffs_nonneg d) as [Hi Hn].
      replace (initial_diff (reverse d)) with (next_diff d) in H2 by reflexivity.
      replace (next_diff (reverse d)) with (initial_diff d) in H2 by reflexivity.
      destruct (same_side d); split; intros E; try discriminate.
      - exact (round_trip_same _ _ _ _ Hi Hn H1 H2).
      - exact (round_trip_cross _ _ _ _ Hi Hn H1 H2).
    Qed.
  End WithP.

  (* the reverse delta amounts on the moved pool give exactly [reverse d] *)
  Lemma mul_with_signed_val a s r : 0 <= a -> mul_with_signed w a s = Some r -> r = a * s.
  Proof. intros Ha H. apply mul_with_signed_exact in H; [|lia..]. tauto. Qed.

  Theorem reverse_by_amounts la sa pl ps dal das d d' : 0 <= la -> 0 <= sa -> 0 <= pl -> 0 <= ps ->
    pd_from_amounts w la sa pl ps dal das = Ok d ->
    pd_from_amounts w (la + dal) (sa + das) pl ps (- dal) (- das) = Ok d' -> d' = reverse d.
  Proof.
    intros Hla Hsa Hpl Hps. unfold pd_from_amounts, pd_new.
    rewrite rbind_ok. intros (dl & A1 & A2). apply of_opt_ok in A1. apply mul_with_signed_val in A1; [|lia].
    rewrite rbind_ok in A2. destruct A2 as (ds & A2 & A3). apply of_opt_ok in A2. apply mul_with_signed_val in A2; [|lia].
    rewrite rbind_ok in A3. destruct A3 as (cl & A3 & A4). apply of_opt_ok in A3. apply chk_u_some in A3. destruct A3 as [_ ->].
    rewrite rbind_ok in A4. destruct A4 as (cs & A4 & A5). apply of_opt_ok in A4. apply chk_u_some in A4. destruct A4 as [_ ->].
    rewrite rbind_ok in A5. destruct A5 as (nl & A5 & A6). apply of_opt_ok in A5. apply add_with_signed_exact in A5; [|lia..]. destruct A5 as [-> _].
    rewrite rbind_ok in A6. destruct A6 as (ns & A6 & A7). apply of_opt_ok in A6. apply add_with_signed_exact in A6; [|lia..]. destruct A6 as [-> _].
    injection A7 as <-.
    rewrite rbind_ok. intros (dl' & B1 & B2). apply of_opt_ok in B1. apply mul_with_signed_val in B1; [|lia].
    rewrite rbind_ok in B2. destruct B2 as (ds' & B2 & B3). apply of_opt_ok in B2. apply mul_with_signed_val in B2; [|lia].
    rewrite rbind_ok in B3. destruct B3 as (cl' & B3 & B4). apply of_opt_ok in B3. apply chk_u_some in B3. destruct B3 as [B3r ->].
    rewrite rbind_ok in B4. destruct B4 as (cs' & B4 & B5). apply of_opt_ok in B4. apply chk_u_some in B4. destruct B4 as [B4r ->].
    rewrite rbind_ok in B5. destruct B5 as (nl' & B5 & B6). apply of_opt_ok in B5. apply add_with_signed_exact in B5; [|lia..]. destruct B5 as [-> _].
    rewrite rbind_ok in B6. destruct B6 as (ns' & B6 & B7). apply of_opt_ok in B6. apply add_with_signed_exact in B6; [|lia..]. destruct B6 as [-> _].
    injection B7 as <-. subst. unfold reverse. simpl. f_equal; lia.
  Qed.

  (* ---- worse of real and virtual ---- *)
  Lemma worse_of_spec real virt r : worse_of real virt = Ok r ->
    exists v, virt = Ok v /\ fst r <= fst real /\ (r = real \/ (r = v /\ fst v < fst real)).
  Proof.
    unfold worse_of. rewrite rbind_ok. intros (v & H1 & H2). exists v. split; [exact H1|].
    destruct (fst v <? fst real) eqn:E; injection H2 as <-; split; try lia; auto. right. split; [reflexivity|lia].
  Qed.

  Theorem swap_virtual_only_worsens p la sa pl ps dl ds vi incl r :
    swap_impact_value w unit p la sa pl ps dl ds vi incl = Ok r ->
    exists d real, pd_new w la sa pl ps dl ds = Ok d /\ price_impact w unit p d = Ok real /\
      swap_impact_value w unit p la sa pl ps dl ds vi false = Ok real /\
      fst r <= fst real /\ (0 <= fst real -> r = real) /\
      (r = real \/ exists vl vs dv, vi = Some (vl, vs) /\ incl = true /\
                     pd_new w vl vs pl ps dl ds = Ok dv /\ price_impact w unit p dv = Ok r /\ fst r < fst real).
  Proof.
    unfold swap_impact_value. rewrite rbind_ok. intros (d & H1 & H2). rewrite rbind_ok in H2.
    destruct H2 as (real & H2 & H3). exists d, real. rewrite H1. cbn [rbind]. rewrite H2. cbn [rbind].
    split; [reflexivity|]. split; [reflexivity|].
    split; [rewrite orb_true_r; reflexivity|].
    destruct ((0 <=? fst real) || negb incl) eqn:E.
    - injection H3 as <-. split; [lia|]. split; auto.
    - apply orb_false_iff in E. destruct E as [E1 E2]. destruct vi as [[vl vs]|].
      + apply worse_of_spec in H3. destruct H3 as (v & Hv & Hle & Hor). split; [exact Hle|]. split; [lia|].
        destruct Hor as [->|[-> Hlt]]; [left; reflexivity|]. right.
        rewrite rbind_ok in Hv. destruct Hv as (dv & Hv1 & Hv2).
        exists vl, vs, dv. repeat split; auto. destruct incl; [reflexivity|discriminate].
      + injection H3 as <-. split; [lia|]. split; auto.
  Qed.

  Theorem position_virtual_only_worsens p oll ols osl oss vi is_long sd incl r :
    position_price_impact w unit p oll ols osl oss vi is_long sd incl = Ok r ->
    exists ol os d real,
      uadd w oll ols = Some ol /\ uadd w osl oss = Some os /\
      pd_new w ol os 1 1 (if is_long then sd else 0) (if is_long then 0 else sd) = Ok d /\
      price_impact w unit p d = Ok real /\
      position_price_impact w unit p oll ols osl oss vi is_long sd false = Ok real /\
      fst r <= fst real /\ (0 <= fst real -> r = real) /\
      (r = real \/ (incl = true /\ vi <> None /\ fst r < fst real)).
  Proof.
    unfold position_price_impact. rewrite rbind_ok. intros (ol & H1 & H2). rewrite rbind_ok in H2.
    destruct H2 as (os & H2 & H3). rewrite rbind_ok in H3. destruct H3 as (d & H3 & H4).
    rewrite rbind_ok in H4. destruct H4 as (real & H4 & H5). exists ol, os, d, real.
    rewrite H1. cbn [rbind]. rewrite H2. cbn [rbind]. rewrite H3. cbn [rbind]. rewrite H4. cbn [rbind].
    apply of_opt_ok in H1. apply of_opt_ok in H2.
    split; [exact H1|]. split; [exact H2|]. split; [reflexivity|]. split; [reflexivity|].
    split; [rewrite orb_true_r; reflexivity|].
    destruct ((0 <=? fst real) || negb incl) eqn:E.
    - injection H5 as <-. split; [lia|]. split; auto.
    - apply orb_false_iff in E. destruct E as [E1 E2]. destruct vi as [[vl vs]|].
      + rewrite rbind_ok in H5. destruct H5 as (lo & _ & H5). rewrite rbind_ok in H5. destruct H5 as (lo2 & _ & H5).
        apply worse_of_spec in H5. destruct H5 as (v & Hv & Hle & Hor). split; [exact Hle|]. split; [lia|].
        destruct Hor as [->|[-> Hlt]]; [left; reflexivity|]. right.
        repeat split; auto; [destruct incl; [reflexivity|discriminate]|discriminate].
      + injection H5 as <-. split; [lia|]. split; auto.
  Qed.

  (* ---- sign rules at the API level (with or without virtual inventory) ---- *)
  Theorem swap_sign_rules p la sa pl ps dl ds vi incl v bc : wf_pi p ->
    swap_impact_value w unit p la sa pl ps dl ds vi incl = Ok (v, bc) ->
    exists d, pd_new w la sa pl ps dl ds = Ok d /\
      (initial_diff d <= next_diff d -> v <= 0) /\
      (next_diff d < initial_diff d -> same_side d = true -> 0 <= v /\ bc = Improved).
  Proof.
    intros Hp H. apply swap_virtual_only_worsens in H.
    destruct H as (d & [v0 b0] & Hd & Hr & _ & Hle & Heq & _). exists d. split; [exact Hd|]. cbn [fst] in *. split.
    - intros Hcmp. destruct (Z.eq_dec (initial_diff d) (next_diff d)) as [E|E].
      + pose proof (unchanged_nonpos p Hp d v0 b0 Hr E). lia.
      + pose proof (worsened_nonpos p Hp d v0 b0 Hr ltac:(lia)). lia.
    - intros Hlt Hs. pose proof (improved_same_side_nonneg p Hp d v0 b0 Hr Hlt) as [Hb Hv]. specialize (Hv Hs).
      specialize (Heq Hv). injection Heq as -> ->. split; assumption.
  Qed.

  Theorem position_sign_rules p oll ols osl oss vi is_long sd incl v bc : wf_pi p ->
    position_price_impact w unit p oll ols osl oss vi is_long sd incl = Ok (v, bc) ->
    exists d, pd_new w (oll + ols) (osl + oss) 1 1 (if is_long then sd else 0) (if is_long then 0 else sd) = Ok d /\
      (initial_diff d <= next_diff d -> v <= 0) /\
      (next_diff d < initial_diff d -> same_side d = true -> 0 <= v /\ bc = Improved).
  Proof.
    intros Hp H. apply position_virtual_only_worsens in H.
    destruct H as (ol & os & d & [v0 b0] & Ho1 & Ho2 & Hd & Hr & _ & Hle & Heq & _).
    apply chk_u_some in Ho1. destruct Ho1 as [_ ->]. apply chk_u_some in Ho2. destruct Ho2 as [_ ->].
    exists d. split; [exact Hd|]. cbn [fst] in *. split.
    - intros Hcmp. destruct (Z.eq_dec (initial_diff d) (next_diff d)) as [E|E].
      + pose proof (unchanged_nonpos p Hp d v0 b0 Hr E). lia.
      + pose proof (worsened_nonpos p Hp d v0 b0 Hr ltac:(lia)). lia.
    - intros Hlt Hs. pose proof (improved_same_side_nonneg p Hp d v0 b0 Hr Hlt) as [Hb Hv]. specialize (Hv Hs).
      specialize (Heq Hv). injection Heq as -> ->. split; assumption.
  Qed.
End P.
