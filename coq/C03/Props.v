(* C03 — property theorems only (price impact penalises imbalance and cannot be farmed by
   round trips).  Each is closed by a lemma of Proofs.v; statements are pinned here. *)
From GV Require Import lib.Base C01.Model C03.Model C03.Proofs.
Open Scope Z_scope.

(* the positive factor is never allowed to exceed the negative one *)
Theorem c03_positive_factor_capped : forall p,
  fst (adjusted p) = Z.min (pi_pos p) (pi_neg p) /\ snd (adjusted p) = pi_neg p /\
  fst (adjusted p) <= snd (adjusted p).
Proof. exact adjusted_spec. Qed.

(* a change that worsens the balance never receives a positive impact *)
Theorem c03_worsened_nonpos : forall w, 1 <= w -> forall unit, 0 < unit < 2 ^ w -> forall p, wf_pi p ->
  forall d v bc, price_impact w unit p d = Ok (v, bc) ->
  initial_diff d < next_diff d -> v <= 0 /\ bc = Worsened.
Proof. exact worsened_nonpos. Qed.

(* an unchanged imbalance: never positive; exactly zero if the heavier side is the same *)
Theorem c03_unchanged_nonpos : forall w, 1 <= w -> forall unit, 0 < unit < 2 ^ w -> forall p, wf_pi p ->
  forall d v bc, price_impact w unit p d = Ok (v, bc) ->
  initial_diff d = next_diff d -> v <= 0 /\ bc = Unchanged /\ (same_side d = true -> v = 0).
Proof. exact unchanged_nonpos. Qed.

(* a same-side change that improves the balance never receives a negative impact
   (complement of known-finding class 1, CrossOverImproved) *)
Theorem c03_improved_same_side_nonneg : forall w, 1 <= w -> forall unit, 0 < unit < 2 ^ w -> forall p, wf_pi p ->
  forall d v bc, price_impact w unit p d = Ok (v, bc) ->
  next_diff d < initial_diff d -> bc = Improved /\ (same_side d = true -> 0 <= v).
Proof. exact improved_same_side_nonneg. Qed.

(* known finding 1: a cross-over rebalance that improves the balance gets a negative impact
   (long 20u / short 10u, +19u short, e = 1, pf = 0.1, nf = 0.2 -> -0.8u, Improved) *)
Theorem c03_improved_cross_over_refuted :
  exists p d v, wf_pi p /\ next_diff d < initial_diff d /\ same_side d = false /\
    price_impact 64 (10 ^ 9) p d = Ok (v, Improved) /\ v < 0.
Proof.
  exists (MkPI 1000000000 100000000 200000000),
         (MkPD 20000000000 10000000000 20000000000 29000000000 0 19000000000), (-800000000).
  split; [unfold wf_pi; simpl; lia|]. split; [vm_compute; reflexivity|]. split; [vm_compute; reflexivity|].
  split; [vm_compute; reflexivity|lia].
Qed.

(* a balance change followed by its exact reverse: never positive when the heavier side flips,
   at most one unit of 10^-DEC usd otherwise (complement of class 2, RoundTripFloorResidue) *)
Theorem c03_round_trip : forall w, 1 <= w -> forall unit, 0 < unit < 2 ^ w -> forall p, wf_pi p ->
  forall d v1 b1 v2 b2,
  price_impact w unit p d = Ok (v1, b1) -> price_impact w unit p (reverse d) = Ok (v2, b2) ->
  (same_side d = false -> v1 + v2 <= 0) /\ (same_side d = true -> v1 + v2 <= 1).
Proof. exact round_trip. Qed.

(* ... where [reverse d] is exactly what the code builds from the moved pool and the negated amounts *)
Theorem c03_reverse_by_amounts : forall w, 1 <= w -> forall la sa pl ps dal das d d',
  0 <= la -> 0 <= sa -> 0 <= pl -> 0 <= ps ->
  pd_from_amounts w la sa pl ps dal das = Ok d ->
  pd_from_amounts w (la + dal) (sa + das) pl ps (- dal) (- das) = Ok d' -> d' = reverse d.
Proof. intros w Hw. apply (reverse_by_amounts w Hw 1). split; [lia|]. apply Z.pow_gt_1; lia. Qed.

(* known finding 2: a same-side round trip nets exactly +1 (pf = 0.02, nf = 0.03, e = 1,
   imbalance 2u+34 <-> 2u+50: 0 + 1) *)
Theorem c03_round_trip_same_side_refuted :
  exists p d v1 b1 v2 b2, wf_pi p /\ same_side d = true /\
    price_impact 64 (10 ^ 9) p d = Ok (v1, b1) /\ price_impact 64 (10 ^ 9) p (reverse d) = Ok (v2, b2) /\
    v1 + v2 = 1.
Proof.
  exists (MkPI 1000000000 20000000 30000000), (MkPD 2000000034 0 2000000050 0 16 0), 0, Worsened, 1, Improved.
  split; [unfold wf_pi; simpl; lia|]. split; [vm_compute; reflexivity|].
  split; [vm_compute; reflexivity|]. split; [vm_compute; reflexivity|reflexivity].
Qed.

(* swap_impact_value / position_price_impact take the worse of the real and the virtual impact:
   the result never exceeds the real impact, and is the real impact when that is non-negative *)
Theorem c03_swap_virtual_only_worsens : forall w unit p la sa pl ps dl ds vi incl r,
  swap_impact_value w unit p la sa pl ps dl ds vi incl = Ok r ->
  exists d real, pd_new w la sa pl ps dl ds = Ok d /\ price_impact w unit p d = Ok real /\
    swap_impact_value w unit p la sa pl ps dl ds vi false = Ok real /\
    fst r <= fst real /\ (0 <= fst real -> r = real) /\
    (r = real \/ exists vl vs dv, vi = Some (vl, vs) /\ incl = true /\
                   pd_new w vl vs pl ps dl ds = Ok dv /\ price_impact w unit p dv = Ok r /\ fst r < fst real).
Proof. exact swap_virtual_only_worsens. Qed.

Theorem c03_position_virtual_only_worsens : forall w unit p oll ols osl oss vi is_long sd incl r,
  position_price_impact w unit p oll ols osl oss vi is_long sd incl = Ok r ->
  exists ol os d real,
    uadd w oll ols = Some ol /\ uadd w osl oss = Some os /\
    pd_new w ol os 1 1 (if is_long then sd else 0) (if is_long then 0 else sd) = Ok d /\
    price_impact w unit p d = Ok real /\
    position_price_impact w unit p oll ols osl oss vi is_long sd false = Ok real /\
    fst r <= fst real /\ (0 <= fst real -> r = real) /\
    (r = real \/ (incl = true /\ vi <> None /\ fst r < fst real)).
Proof. exact position_virtual_only_worsens. Qed.

(* the sign rules hold at the API level, with or without virtual inventory: a swap / position change
   that does not improve the (real) balance never gets a positive impact, a same-side improvement
   never a negative one *)
Theorem c03_swap_sign_rules : forall w, 1 <= w -> forall unit, 0 < unit < 2 ^ w ->
  forall p la sa pl ps dl ds vi incl v bc, wf_pi p ->
  swap_impact_value w unit p la sa pl ps dl ds vi incl = Ok (v, bc) ->
  exists d, pd_new w la sa pl ps dl ds = Ok d /\
    (initial_diff d <= next_diff d -> v <= 0) /\
    (next_diff d < initial_diff d -> same_side d = true -> 0 <= v /\ bc = Improved).
Proof. exact swap_sign_rules. Qed.

Theorem c03_position_sign_rules : forall w, 1 <= w -> forall unit, 0 < unit < 2 ^ w ->
  forall p oll ols osl oss vi is_long sd incl v bc, wf_pi p ->
  position_price_impact w unit p oll ols osl oss vi is_long sd incl = Ok (v, bc) ->
  exists d, pd_new w (oll + ols) (osl + oss) 1 1 (if is_long then sd else 0) (if is_long then 0 else sd) = Ok d /\
    (initial_diff d <= next_diff d -> v <= 0) /\
    (next_diff d < initial_diff d -> same_side d = true -> 0 <= v /\ bc = Improved).
Proof. exact position_sign_rules. Qed.

(* non-vacuity *)
Example c03_ex1 :
  (d <-- pd_new 64 100 300 7 3 (-50) 0 ;; price_impact 64 (10 ^ 9) (MkPI 2000000000 4 8) d) = Ok (0, Worsened)
  /\ (d <-- pd_new 64 102834581000000 999999995 1 1 1000000000 (-1) ;;
      price_impact 64 (10 ^ 9) (MkPI 2000000000 1000000724 1000000000) d) = Ok (-205668162205679, Worsened).
Proof. vm_compute. split; reflexivity. Qed.
Example c03_ex2 :
  swap_impact_value 64 (10 ^ 9) (MkPI 1000000000 100000000 200000000) 20000000000 10000000000 1 1 5000000000 0
                    (Some (40000000000, 10000000000)) true = Ok (-1000000000, Worsened).
Proof. vm_compute. reflexivity. Qed.
