(* C40 — correspondence and oracle predicates for harness/src/bin/c40.rs: the SAME account bytes seen through
   the program's types and through the SDK's. *)
From GV Require Import lib.Base gen.C16Tables gen.C40Tables.
From GV Require Export C40.Model.
From Coq Require Export String.
Open Scope string_scope.
Open Scope Z_scope.

Inductive case :=
| Size (name : string) (prog sdk : Z)                                   (* size_of of a zero-copy account type *)
| Decode (kind : string) (obs : list (string * oval * oval))            (* observable, program value, SDK value *)
| ByteMap (lo hi : Z) (prog sdk : list string)                          (* observables fed by bytes lo..hi on each side *)
| PoolOp (op : string) (byte l s dl ds : Z) (prog sdk : pres)
| Discount (max_rank rank : Z) (referred : bool) (rank_factor referred_factor : Z) (prog sdk : pres)
| Act (kind : string) (args : list Z) (prog sdk : list (string * oval)).   (* an action simulated on both sides: report + resulting state *)

Definition oval_eqb (a b : oval) : bool :=
  match a, b with VZ x, VZ y => x =? y | VNone, VNone | VErr, VErr | VPanic, VPanic => true | _, _ => false end.
Definition pres_eqb (a b : pres) : bool :=
  match a, b with
  | RNum x, RNum y => x =? y
  | RPool a1 a2 a3, RPool b1 b2 b3 => (a1 =? b1) && (a2 =? b2) && (a3 =? b3)
  | RErr, RErr | RPanic, RPanic => true
  | _, _ => false
  end.
Definition smem (k : string) (l : list string) : bool := existsb (String.eqb k) l.
Fixpoint slist_eqb (a b : list string) : bool :=
  match a, b with [], [] => true | x :: r, y :: s => String.eqb x y && slist_eqb r s | _, _ => false end.
Fixpoint nodup_b (l : list string) : bool := match l with [] => true | x :: r => negb (smem x r) && nodup_b r end.

(* ---------- model / structure checks ---------- *)
Definition pool_model (sdk : bool) (op : string) (byte l s dl ds : Z) : option pres :=
  if String.eqb op "long_amount" then Some (RNum (long_amount byte l s))
  else if String.eqb op "short_amount" then Some (RNum (short_amount byte l s))
  else if String.eqb op "apply_long" then Some (apply_long byte l s dl)
  else if String.eqb op "apply_short" then Some (apply_short byte l s ds)
  else if String.eqb op "apply_both" then Some (apply_both byte l s dl ds)
  else if String.eqb op "cancel" then Some (if sdk then cancel_sdk byte l s else cancel_prog byte l s)
  else None.

Definition corr_b (c : case) : bool :=
  match c with
  | Size _ p s => (0 <? p) && (0 <? s)
  | Decode _ obs =>
      let names := map (fun x => fst (fst x)) obs in
      nodup_b names
      (* the observation covers every config key, config flag, pool kind and program parameter slot of the translated tables *)
      && forallb (fun k => smem ("cfg:" ++ k) names) config_keys
      && forallb (fun k => smem ("cfgflag:" ++ k) names) config_flags
      && forallb (fun k => smem ("poolraw:" ++ k ++ ".long_token_amount") names && smem ("pool:" ++ k ++ ".long_amount") names) pool_kinds
      && forallb (fun k => smem ("clock:" ++ k) names) clock_kinds
      && forallb (fun sk => smem ("param:" ++ fst sk) names || existsb (fun n => String.prefix ("param:" ++ fst sk) n) names) p_params
  | ByteMap lo hi p s => (0 <=? lo) && (lo <=? hi)
  | PoolOp op byte l s dl ds p sd =>
      (* the pool is well-formed (pure => short = 0): otherwise the debug assertions of long_amount fire *)
      (if pure byte then s =? 0 else true)
      && match pool_model false op byte l s dl ds, pool_model true op byte l s dl ds with
         | Some mp, Some ms => pres_eqb mp p && pres_eqb ms sd
         | _, _ => false
         end
  | Discount max_rank rank referred rf ff p s =>
      pres_eqb (discount max_rank rank referred rf ff) p && pres_eqb (discount max_rank rank referred rf ff) s
  | Act _ _ p s => nodup_b (map fst p) && slist_eqb (map fst p) (map fst s)
  end.

(* ---------- the PROPERTY: both sides see the same ---------- *)
Definition oracle_b (c : case) : bool :=
  match c with
  | Size _ p s => p =? s
  | Decode _ obs => forallb (fun x => match x with (_, a, b) => oval_eqb a b end) obs
  | ByteMap _ _ p s => slist_eqb p s
  | PoolOp _ _ _ _ _ _ p s => pres_eqb p s
  | Discount _ _ _ _ _ p s => pres_eqb p s
  | Act _ _ p s =>
      slist_eqb (map fst p) (map fst s)
      && forallb (fun x => match x with ((_, a), (_, b)) => oval_eqb a b end) (combine p s)
  end.

(* No known finding: class 1 (SdkCancelAmountsAboveI128Max) was repaired by fix c40-sdk-pool-cancel-override;
   the SDK's old failing output is a plain violation again (negative/C40.txt). *)
Definition known_b (c : case) : Z := 0.
