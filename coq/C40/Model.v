(* C40 — models used to tie the SDK/program comparison down:
   the `gmsol_model::Pool` operations of the store's Pool type (program and — since fix
   c40-sdk-pool-cancel-override — SDK override checked_cancel_amounts with the same unsigned netting; the
   trait's default, which goes through signed deltas, is kept as `cancel_default`), and the order-fee discount formula
   (identical text on both sides).  Definitions only. *)
From GV Require Import lib.Base C01.Model.
From Coq Require Import String.
Open Scope string_scope.
Open Scope Z_scope.

Inductive oval := VZ (z : Z) | VNone | VErr | VPanic.
Inductive pres := RNum (z : Z) | RPool (byte l s : Z) | RErr | RPanic.

Definition pure (byte : Z) : bool := negb (byte =? 0).        (* !matches!(is_pure, 0) *)

(* u128::checked_add_signed *)
Definition add_signed (a d : Z) : option Z := chk_u 128 (a + d).

(* Balance (pools with is_pure set and a non-zero short amount violate the type's invariant and are excluded) *)
Definition long_amount (byte l s : Z) : Z := if pure byte then (l + 1) / 2 else l.      (* div_ceil(2) *)
Definition short_amount (byte l s : Z) : Z := if pure byte then l / 2 else s.

Definition apply_long (byte l s d : Z) : pres :=
  match add_signed l d with Some l' => RPool byte l' s | None => RErr end.
Definition apply_short (byte l s d : Z) : pres :=
  if pure byte then match add_signed l d with Some l' => RPool byte l' s | None => RErr end
  else match add_signed s d with Some s' => RPool byte l s' | None => RErr end.
Definition apply_both (byte l s dl ds : Z) : pres :=
  match apply_long byte l s dl with
  | RPool b l' s' => apply_short b l' s' ds
  | r => r
  end.

(* program: Pool::checked_cancel_amounts override (never fails) *)
Definition cancel_prog (byte l s : Z) : pres :=
  if pure byte then RPool byte (l mod 2) s
  else if s <=? l then RPool byte (l - s) 0 else RPool byte 0 (s - l).

(* SDK: Pool::checked_cancel_amounts override in crates/programs/src/model/pool.rs — written out again from the
   SDK source (pure: `&= 1`; otherwise its own `cancel_amounts`: the larger side keeps the difference) *)
Definition cancel_sdk (byte l s : Z) : pres :=
  if pure byte then RPool byte (l mod 2) s
  else if s <=? l then RPool byte (Z.abs (l - s)) 0 else RPool byte 0 (Z.abs (l - s)).

(* the trait's DEFAULT (crates/model/src/pool/mod.rs): min(l, s) is negated as an i128 on both sides.
   No Pool type of the store / SDK uses it any more; kept to state why the override is needed. *)
Definition cancel_default (byte l s : Z) : pres :=
  if pure byte then cancel_prog byte l s
  else if 2 ^ 127 - 1 <? Z.min l s then RErr else cancel_prog byte l s.

(* Store::order_fee_discount_factor (program) = Store::order_fee_discount_factor (SDK, feature "model") *)
Definition UNIT : Z := 10 ^ 20.
Definition discount (max_rank rank : Z) (referred : bool) (rank_factor referred_factor : Z) : pres :=
  if max_rank <? rank then RErr
  else if 16 <=? rank then RPanic                          (* index past the 16-slot array (only with a corrupt max_rank) *)
  else if negb referred then RNum rank_factor
  else match usub 128 UNIT referred_factor with
       | None => RErr
       | Some c =>
           match apply_factor 128 UNIT rank_factor c with
           | None => RErr
           | Some f => match uadd 128 referred_factor f with Some d => RNum d | None => RErr end
           end
       end.
