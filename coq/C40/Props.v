(* C40 — property theorems (pinned).  Tables are REGENERATED from both the program's and the SDK's source
   before this file is compiled (coq/gen/C16Tables.v by translate/c16.py, coq/gen/C40Tables.v by translate/c40.py). *)
From GV Require Import lib.Base gen.C16Tables gen.C40Tables C16.Model C16.ParamSpec C16.Proofs C40.Model C40.Proofs.
From Coq Require Import String.
Open Scope string_scope.
Open Scope Z_scope.

(* every table the SDK duplicates by hand equals the program's: pool arms, clock arms, config key arms, flag
   orders (hence bit positions), closed-market helper rows, shared constants, the bodies of the shared
   Balance / Pool trait methods *)
Theorem c40_sdk_tables_eq_program_tables :
  (forall k, lookup k s_pool_get = lookup k p_pool_get)
  /\ (forall k, lookup k s_pool_get_mut = lookup k p_pool_get_mut)
  /\ (forall k, lookup k s_clock_get = lookup k p_clock_get)
  /\ (forall k, lookup k s_get = lookup k p_get)
  /\ s_config_flags = config_flags /\ s_market_flags = market_flags
  /\ s_helpers = p_helpers /\ s_zero_is_none = p_zero_is_none /\ s_enable_flag = p_enable_flag
  /\ const_mismatch = [] /\ body_mismatch = []
  /\ kinds_without_pool = [] /\ kinds_without_clock = [].
Proof.
  destruct pool_tables_agree as [A [B _]]. destruct clock_tables_agree as [C _].
  destruct sdk_flag_enums as [F1 F2]. destruct sdk_helpers_eq as [H1 [H2 H3]].
  split; [exact (agree_b_sound _ _ A)|]. split; [exact (agree_b_sound _ _ B)|]. split; [exact (agree_b_sound _ _ C)|].
  split; [exact (agree_b_sound _ _ sdk_get_agree)|].
  split; [exact F1|]. split; [exact F2|]. split; [exact H1|]. split; [exact H2|]. split; [exact H3|].
  split; [exact constants_agree|]. split; [exact pool_bodies_agree|]. split; [exact all_kinds_have_pools|exact all_kinds_have_clocks].
Qed.

(* every parameter slot of the program Market is read from the same cell by the SDK MarketModel, for both
   states of the closed-market switch *)
Theorem c40_sdk_param_slots_eq_program : slot_mismatch = [].
Proof. exact sdk_slots_agree. Qed.

(* checked_cancel_amounts: the SDK's override and the program's override agree on ALL pools *)
Theorem c40_cancel_agree : forall byte l s, cancel_sdk byte l s = cancel_prog byte l s.
Proof. exact cancel_agree. Qed.

(* statically: the SDK Pool type overrides every Pool method the program overrides (checked_cancel_amounts was
   missing until fix c40-sdk-pool-cancel-override), with identical bodies (body_mismatch = [] above covers
   checked_cancel_amounts and the helper cancel_amounts) *)
Theorem c40_sdk_has_all_overrides : sdk_missing_overrides = [] /\ is_some (lookup "checked_cancel_amounts" s_pool_impl) = true.
Proof. exact sdk_has_all_overrides. Qed.

(* for the record: the trait default both types replace fails above i128::MAX *)
Lemma c40_default_cancel_refuted :
  exists l s, 0 <= l < 2 ^ 128 /\ 0 <= s < 2 ^ 128
    /\ cancel_prog 0 l s = RPool 0 (2 ^ 127 - 1) 0 /\ cancel_sdk 0 l s = RPool 0 (2 ^ 127 - 1) 0 /\ cancel_default 0 l s = RErr.
Proof. exact default_cancel_refuted. Qed.

(* the program's cancel leaves (long - m, short - m) with m = min(long, short) *)
Theorem c40_cancel_prog_spec : forall byte l s, 0 <= l -> 0 <= s -> pure byte = false ->
  cancel_prog byte l s = RPool byte (l - Z.min l s) (s - Z.min l s).
Proof. exact cancel_prog_spec. Qed.

(* ---- non-vacuity ---- *)
Example c40_tables_nontrivial :
  (16 <=? Z.of_nat (List.length p_pool_get)) = true /\ (5 <=? Z.of_nat (List.length p_clock_get)) = true
  /\ lookup "position_impact" s_pool_get = Some "position_impact"
  /\ sdk_slots_of "swap_fee_params/fee_receiver_factor" = ["swap_fee_params/pricing_swap.fee_receiver_factor"; "swap_fee_params/pricing_deposit.fee_receiver_factor"; "swap_fee_params/pricing_withdrawal.fee_receiver_factor"].
Proof. repeat split; vm_compute; reflexivity. Qed.

Example c40_discount_example :
  discount 9 5 true (UNIT / 8) (UNIT / 10) = RNum (UNIT / 10 + (UNIT / 8) * (UNIT - UNIT / 10) / UNIT)
  /\ discount 9 10 false 0 0 = RErr /\ discount 9 5 true (UNIT / 8) (UNIT + 1) = RErr.
Proof. repeat split; vm_compute; reflexivity. Qed.
