From GV Require Import lib.Base gen.C16Tables gen.C40Tables C16.Model C16.ParamSpec C16.Proofs C40.Model.
From Coq Require Import String.
Open Scope string_scope.
Open Scope Z_scope.

(* ---------- the SDK's hand-duplicated tables against the program's (regenerated tables) ---------- *)
Lemma pool_tables_agree :
  agree_b s_pool_get p_pool_get = true /\ agree_b s_pool_get_mut p_pool_get_mut = true
  /\ agree_b p_pool_get p_pool_get_mut = true /\ inj_b p_pool_get = true.
Proof. vm_compute. repeat split. Qed.

Definition kinds_without_pool : list string :=
  filter (fun k => negb (is_some (lookup k p_pool_get) && is_some (lookup k s_pool_get))) pool_kinds.
Lemma all_kinds_have_pools : kinds_without_pool = []. Proof. vm_compute. reflexivity. Qed.

Lemma clock_tables_agree :
  agree_b s_clock_get p_clock_get = true /\ agree_b p_clock_get p_clock_get_mut = true /\ inj_b p_clock_get = true.
Proof. vm_compute. repeat split. Qed.
Definition kinds_without_clock : list string :=
  filter (fun k => negb (is_some (lookup k p_clock_get) && is_some (lookup k s_clock_get))) clock_kinds.
Lemma all_kinds_have_clocks : kinds_without_clock = []. Proof. vm_compute. reflexivity. Qed.

Definition const_mismatch : list string :=
  map (fun x => fst (fst x)) (filter (fun x => negb (snd (fst x) =? snd x)) const_pairs).
Lemma constants_agree : const_mismatch = []. Proof. vm_compute. reflexivity. Qed.

(* shared Balance / Pool trait methods have identical bodies; is_pure too *)
Definition body_mismatch : list string :=
  map fst (filter (fun kv => negb (oseqb (lookup (fst kv) p_pool_impl) (Some (snd kv)))) s_pool_impl)
  ++ map fst (filter (fun kv => negb (oseqb (lookup (fst kv) p_balance_impl) (Some (snd kv)))) s_balance_impl)
  ++ map fst (filter (fun kv => negb (is_some (lookup (fst kv) s_balance_impl))) p_balance_impl)
  ++ map fst (filter (fun kv => negb (is_some (lookup (fst kv) s_pool_impl))) p_pool_impl)
  ++ (if String.eqb p_pool_is_pure s_pool_is_pure then [] else ["is_pure"])
  ++ (if String.eqb p_cancel_amounts_fn s_cancel_amounts_fn && negb (String.eqb p_cancel_amounts_fn "") then [] else ["cancel_amounts"]).
Lemma pool_bodies_agree : body_mismatch = []. Proof. vm_compute. reflexivity. Qed.

(* the Pool trait methods the program overrides and the SDK leaves to the trait default: none
   (checked_cancel_amounts was missing until fix c40-sdk-pool-cancel-override) *)
Definition sdk_missing_overrides : list string :=
  map fst (filter (fun kv => negb (is_some (lookup (fst kv) s_pool_impl))) p_pool_impl).
Lemma sdk_has_all_overrides : sdk_missing_overrides = [] /\ is_some (lookup "checked_cancel_amounts" s_pool_impl) = true.
Proof. vm_compute. split; reflexivity. Qed.

(* parameter slots: the SDK slot reads the same cell as the program slot (swap_fee_params: under the
   swap / deposit / withdrawal pricing kinds; under `shift` the two impact fee factors are the literal 0
   on both sides — RevertibleMarket::swap_fee_params does the same in the program) *)
Definition src_eqb (a b : option (src * bool)) : bool :=
  match a, b with
  | Some (SField x, z1), Some (SField y, z2) => String.eqb x y && Bool.eqb z1 z2
  | Some (SFlag x, z1), Some (SFlag y, z2) => String.eqb x y && Bool.eqb z1 z2
  | Some (SLit x, _), Some (SLit y, _) => x =? y
  | None, None => true
  | _, _ => false
  end.

Definition sdk_slots_of (slot : string) : list string :=
  if String.prefix "swap_fee_params/" slot
  then let f := substring 16 (String.length slot - 16) slot in
       map (fun p => "swap_fee_params/pricing_" ++ p ++ "." ++ f) ["swap"; "deposit"; "withdrawal"]
  else [slot].

Definition cell_of (params : list (string * src)) (helpers : list (string * list (option bool * option bool * src)))
           (zn : list string) (uc : bool) (slot : string) : option (src * bool) :=
  match lookup slot params with Some s => slot_cell helpers zn uc s | None => None end.

Definition slot_mismatch : list (string * bool) :=
  filter (fun su =>
            negb (forallb (fun ss => is_some (lookup ss s_params)
                                     && src_eqb (cell_of s_params s_helpers s_zero_is_none (snd su) ss)
                                                (cell_of p_params p_helpers p_zero_is_none (snd su) (fst su)))
                          (sdk_slots_of (fst su))))
         (map (fun s => (s, false)) (map fst p_params) ++ map (fun s => (s, true)) (map fst p_params)).
Lemma sdk_slots_agree : slot_mismatch = []. Proof. vm_compute. reflexivity. Qed.

(* ---------- pool operations (models of Model.v, tied to both Pool types by the PoolOp cases) ---------- *)
(* SDK and program netting agree on ALL pools (any flag byte, any amounts) *)
Lemma cancel_agree : forall byte l s, cancel_sdk byte l s = cancel_prog byte l s.
Proof.
  intros byte l s. unfold cancel_sdk, cancel_prog. destruct (pure byte); [reflexivity|].
  destruct (s <=? l) eqn:E; [apply Z.leb_le in E|apply Z.leb_gt in E]; f_equal; lia.
Qed.

Lemma cancel_prog_spec : forall byte l s, 0 <= l -> 0 <= s -> pure byte = false ->
  cancel_prog byte l s = RPool byte (l - Z.min l s) (s - Z.min l s).
Proof.
  intros byte l s Hl Hs P. unfold cancel_prog. rewrite P.
  destruct (s <=? l) eqn:E; [apply Z.leb_le in E|apply Z.leb_gt in E]; f_equal; lia.
Qed.

(* why both types override: the trait default fails above i128::MAX where the override succeeds *)
Lemma default_cancel_refuted :
  exists l s, 0 <= l < 2 ^ 128 /\ 0 <= s < 2 ^ 128
    /\ cancel_prog 0 l s = RPool 0 (2 ^ 127 - 1) 0 /\ cancel_sdk 0 l s = RPool 0 (2 ^ 127 - 1) 0 /\ cancel_default 0 l s = RErr.
Proof. exists (2 ^ 128 - 1), (2 ^ 127). vm_compute. repeat split; discriminate. Qed.
