(* C01 — model of crates/model/src/{num,utils,fixed}.rs.
   Everything is parametric in the bit width [w] (64 or 128) and in
   [unit] = 10^DECIMALS.  Definitions only. *)
From GV Require Import lib.Base.
Open Scope Z_scope.

Section Num.
  Variable w : Z.

  (* MulDiv::checked_mul_div : floor(a*b/d), None if d = 0 or result does not fit.
     The implementation widens to 2w bits (u128 / U256) first, so the product
     itself never overflows. *)
  Definition mul_div (a b d : Z) : option Z :=
    if d =? 0 then None else chk_u w (a * b / d).

  (* MulDiv::checked_mul_div_ceil : uses div_ceil on the widened product *)
  Definition mul_div_ceil (a b d : Z) : option Z :=
    if d =? 0 then None
    else chk_u w (if (a * b) mod d =? 0 then a * b / d else a * b / d + 1).

  (* MulDiv::checked_mul_div_with_signed_numerator *)
  Definition mul_div_signed (a n d : Z) : option Z :=
    r <- mul_div a (Z.abs n) d ;;
    s <- to_signed w r ;;
    if 0 <? n then Some s else sneg w s.

  (* Unsigned::checked_round_up_div *)
  Definition round_up_div (a d : Z) : option Z :=
    if d =? 0 then None
    else s <- uadd w a d ;; t <- usub w s 1 ;; udiv w t d.

  (* Unsigned::as_divisor_to_round_up_magnitude_div (self = d) *)
  Definition round_up_mag_div (d x : Z) : option Z :=
    if d =? 0 then None
    else ds <- to_signed w d ;;
      if x <? 0 then s <- ssub w x ds ;; t <- sadd w s 1 ;; sdiv w t ds
      else s <- sadd w x ds ;; t <- ssub w s 1 ;; sdiv w t ds.

  (* Unsigned::to_signed_with_sign / to_opposite_signed *)
  Definition to_opposite_signed (a : Z) : option Z := s <- to_signed w a ;; sneg w s.
  Definition to_signed_with_sign (a : Z) (neg : bool) : option Z :=
    if neg then to_opposite_signed a else to_signed w a.

  (* Unsigned::bound_magnitude : error kinds 1 = min > max, 2 = conversion failure *)
  Definition bound_magnitude (v mn mx : Z) : res Z :=
    if mx <? mn then Err 1
    else
      let mag := Z.abs v in
      let neg := v <? 0 in
      if mag <? mn then of_opt 2 (to_signed_with_sign mn neg)
      else if mx <? mag then of_opt 2 (to_signed_with_sign mx neg)
      else Ok v.

  (* Unsigned::diff / checked_signed_sub *)
  Definition diff (a b : Z) : Z := Z.abs (a - b).
  Definition signed_sub (a b : Z) : option Z :=
    if b <=? a then to_signed w (diff a b) else to_opposite_signed (diff a b).

  (* Unsigned::checked_{add,sub,mul}_with_signed *)
  Definition add_with_signed (a s : Z) : option Z :=
    if 0 <? s then uadd w a (Z.abs s) else usub w a (Z.abs s).
  Definition sub_with_signed (a s : Z) : option Z :=
    if 0 <? s then usub w a (Z.abs s) else uadd w a (Z.abs s).
  Definition mul_with_signed (a s : Z) : option Z :=
    if s <? 0 then p <- umul w a (Z.abs s) ;; t <- to_signed w p ;; sneg w t
    else p <- umul w a (Z.abs s) ;; to_signed w p.

  Section Fixed.
    Variable unit : Z.

    (* utils::apply_factor *)
    Definition apply_factor (v f : Z) : option Z := mul_div v f unit.

    (* utils::div_to_factor / div_to_factor_signed *)
    Definition div_to_factor (v d : Z) (round_up : bool) : option Z :=
      if d =? 0 then Some 0
      else if round_up then mul_div_ceil v unit d else mul_div v unit d.
    Definition div_to_factor_signed (v d : Z) : option Z :=
      if d =? 0 then Some 0 else mul_div_signed unit v d.

    (* Fixed::checked_mul *)
    Definition fmul (a b : Z) : option Z := mul_div a b unit.

    (* checked_pow_fixed, integer-exponent branch: n-fold fixed multiplication.
       [None] for non-unit-multiple exponents: outside the property's
       quantifier ("unit multiples"); the correspondence generators never
       produce them. *)
    Definition pow_loop (base : Z) (n : N) : option Z :=
      N.iter n (fun acc => a <- acc ;; fmul a base) (Some unit).
    Definition pow_fixed (base e : Z) : option Z :=
      if e mod unit =? 0 then pow_loop base (Z.to_N (e / unit)) else None.

    (* utils::apply_exponent_factor *)
    Definition apply_exponent_factor (v e : Z) : option Z :=
      if v <? unit then Some 0
      else if v =? unit then Some unit
      else if e =? 0 then Some unit
      else if e =? unit then Some v
      else pow_fixed v e.

    (* utils::apply_factors : error kinds 1 = pow, 2 = overflow *)
    Definition apply_factors (v f e : Z) : res Z :=
      x <-- of_opt 1 (apply_exponent_factor v e) ;;
      of_opt 2 (fmul x f).
  End Fixed.

  (* utils::usd_to_market_token_amount *)
  Definition usd_to_mt (usd pool supply divisor : Z) : option Z :=
    if divisor =? 0 then None
    else if (supply =? 0) && (pool =? 0) then udiv w usd divisor
    else if (supply =? 0) && negb (pool =? 0) then
      s <- uadd w pool usd ;; udiv w s divisor
    else mul_div supply usd pool.

  (* utils::market_token_amount_to_usd *)
  Definition mt_to_usd (amount pool supply : Z) : option Z := mul_div pool amount supply.
End Num.
