(* C01 — property theorems only.  Each is closed by [exact] of a lemma from
   Proofs.v; statements are pinned so they cannot be weakened silently. *)
From GV Require Import lib.Base C01.Model C01.Proofs.
Open Scope Z_scope.

(* [use L]: close the goal by lemma L; section hypotheses that L's proof did not
   need (1 <= w, 0 < unit) are simply dropped. *)
Ltac use L := first [ exact L | intros w _; exact (L w) | intros w Hw u _; exact (L w Hw u)
                    | intros w _ u Hu; exact (L w u Hu) | intros w _ u _; exact (L w u) ].

(* multiply-then-divide: exactly floor(a*b/d), or failure exactly when d = 0 or
   the floor does not fit *)
Theorem c01_mul_div_exact : forall w, 1 <= w -> forall a b d r, 0 <= a -> 0 <= b -> 0 <= d ->
  mul_div w a b d = Some r <-> (d <> 0 /\ r = a * b / d /\ r < 2 ^ w).
Proof. use mul_div_exact. Qed.

Theorem c01_mul_div_none : forall w, 1 <= w -> forall a b d, 0 <= a -> 0 <= b -> 0 <= d ->
  mul_div w a b d = None <-> (d = 0 \/ 2 ^ w <= a * b / d).
Proof. use mul_div_none. Qed.

(* ceiling variant: d*(r-1) < a*b <= d*r *)
Theorem c01_mul_div_ceil_exact : forall w, 1 <= w -> forall a b d r, 0 <= a -> 0 <= b -> 0 <= d ->
  mul_div_ceil w a b d = Some r -> d <> 0 /\ d * (r - 1) < a * b <= d * r /\ 0 <= r < 2 ^ w.
Proof. use mul_div_ceil_exact. Qed.

Theorem c01_mul_div_ceil_none : forall w, 1 <= w -> forall a b d, 0 <= a -> 0 <= b -> 0 <= d ->
  mul_div_ceil w a b d = None <-> (d = 0 \/ 2 ^ w <= ceil_div (a * b) d).
Proof. use mul_div_ceil_none. Qed.

(* signed numerator: magnitude floors toward zero, sign follows the numerator *)
Theorem c01_mul_div_signed_exact : forall w, 1 <= w -> forall a n d r, 0 <= a -> 0 <= d ->
  mul_div_signed w a n d = Some r ->
  d <> 0 /\ Z.abs r = a * Z.abs n / d /\ Z.abs r < 2 ^ (w - 1) /\ (0 < n -> 0 <= r) /\ (n <= 0 -> r <= 0).
Proof. use mul_div_signed_exact. Qed.

Theorem c01_mul_div_signed_none : forall w, 1 <= w -> forall a n d, 0 <= a -> 0 <= d ->
  mul_div_signed w a n d = None <-> (d = 0 \/ 2 ^ (w - 1) <= a * Z.abs n / d).
Proof. use mul_div_signed_none. Qed.

(* round-up division: ceil(a/d); fails exactly when d = 0 or a + d overflows *)
Theorem c01_round_up_div_sound : forall w, 1 <= w -> forall a d r, 0 <= a -> 0 <= d ->
  round_up_div w a d = Some r -> d <> 0 /\ d * (r - 1) < a <= d * r.
Proof. use round_up_div_sound. Qed.

Theorem c01_round_up_div_none : forall w, 1 <= w -> forall a d, 0 <= a -> 0 <= d ->
  round_up_div w a d = None <-> (d = 0 \/ 2 ^ w <= a + d).
Proof. use round_up_div_none. Qed.

(* signed magnitude rounding: |r| = ceil(|x|/d), sign kept *)
Theorem c01_round_up_mag_div_sound : forall w, 1 <= w -> forall d x r, 0 <= d ->
  round_up_mag_div w d x = Some r ->
  d <> 0 /\ d * (Z.abs r - 1) < Z.abs x <= d * Z.abs r /\ (0 <= x -> 0 <= r) /\ (x < 0 -> r <= 0).
Proof. use round_up_mag_div_sound. Qed.

(* clamping of the magnitude *)
Theorem c01_bound_magnitude_spec : forall w, 1 <= w -> forall v mn mx r,
  0 <= mn -> 0 <= mx -> in_s w v = true ->
  bound_magnitude w v mn mx = Ok r ->
  mn <= mx /\ Z.abs r = clampZ (Z.abs v) mn mx /\ (v < 0 -> r <= 0) /\ (0 <= v -> 0 <= r) /\ in_s w r = true.
Proof. use bound_magnitude_spec. Qed.

Theorem c01_bound_magnitude_err : forall w, 1 <= w -> forall v mn mx e, 0 <= mn -> 0 <= mx ->
  bound_magnitude w v mn mx = Err e ->
  (e = 1 /\ mx < mn) \/ (e = 2 /\ mn <= mx /\ 2 ^ (w - 1) <= clampZ (Z.abs v) mn mx).
Proof. use bound_magnitude_err. Qed.

(* mixed-sign helpers are exact *)
Theorem c01_add_with_signed_exact : forall w, 1 <= w -> forall a s r, 0 <= a ->
  add_with_signed w a s = Some r <-> (r = a + s /\ 0 <= r < 2 ^ w).
Proof. use add_with_signed_exact. Qed.
Theorem c01_sub_with_signed_exact : forall w, 1 <= w -> forall a s r, 0 <= a ->
  sub_with_signed w a s = Some r <-> (r = a - s /\ 0 <= r < 2 ^ w).
Proof. use sub_with_signed_exact. Qed.
Theorem c01_mul_with_signed_exact : forall w, 1 <= w -> forall a s r, 0 <= a ->
  mul_with_signed w a s = Some r -> r = a * s /\ Z.abs r < 2 ^ (w - 1).
Proof. use mul_with_signed_exact. Qed.
Theorem c01_signed_sub_exact : forall w, 1 <= w -> forall a b r, 0 <= a -> 0 <= b ->
  signed_sub w a b = Some r -> r = a - b /\ Z.abs r < 2 ^ (w - 1).
Proof. use signed_sub_exact. Qed.

(* factor application / conversion *)
Theorem c01_apply_factor_exact : forall w, 1 <= w -> forall unit, 0 < unit -> forall v f r, 0 <= v -> 0 <= f ->
  apply_factor w unit v f = Some r <-> (r = v * f / unit /\ r < 2 ^ w).
Proof. use apply_factor_exact. Qed.

Theorem c01_div_to_factor_exact : forall w, 1 <= w -> forall unit, 0 < unit -> forall v d ru r, 0 <= v -> 0 <= d ->
  div_to_factor w unit v d ru = Some r ->
  (d = 0 /\ r = 0) \/
  (d <> 0 /\ ru = false /\ d * r <= v * unit < d * r + d) \/
  (d <> 0 /\ ru = true /\ d * (r - 1) < v * unit <= d * r).
Proof. use div_to_factor_exact. Qed.

Theorem c01_div_to_factor_signed_exact : forall w, 1 <= w -> forall unit, 0 < unit -> forall v d r, 0 <= d ->
  div_to_factor_signed w unit v d = Some r ->
  (d = 0 /\ r = 0) \/
  (d <> 0 /\ Z.abs r = unit * Z.abs v / d /\ (0 < v -> 0 <= r) /\ (v <= 0 -> r <= 0)).
Proof. use div_to_factor_signed_exact. Qed.

(* fixed-point power with whole exponents: never above the exact power, monotone *)
Theorem c01_pow_upper : forall w, 1 <= w -> forall unit, 0 < unit -> forall b n r, 0 <= b ->
  pow_loop w unit b n = Some r -> 0 <= r /\ r * unit ^ (Z.of_N n) <= unit * b ^ (Z.of_N n).
Proof. use pow_loop_upper. Qed.
Theorem c01_pow_mono : forall w, 1 <= w -> forall unit, 0 < unit -> forall b1 b2 n r1 r2, 0 <= b1 <= b2 ->
  pow_loop w unit b1 n = Some r1 -> pow_loop w unit b2 n = Some r2 -> r1 <= r2.
Proof. use pow_loop_mono. Qed.

(* USD <-> market-token conversions *)
Theorem c01_usd_to_mt_cases : forall w, 1 <= w -> forall usd pool supply divisor r,
  0 <= usd -> 0 <= pool -> 0 <= supply -> 0 <= divisor ->
  usd_to_mt w usd pool supply divisor = Some r ->
  divisor <> 0 /\
  ((supply = 0 /\ pool = 0 /\ r = usd / divisor) \/
   (supply = 0 /\ pool <> 0 /\ r = (pool + usd) / divisor /\ pool + usd < 2 ^ w) \/
   (supply <> 0 /\ pool <> 0 /\ pool * r <= supply * usd < pool * r + pool /\ r < 2 ^ w)).
Proof. use usd_to_mt_cases. Qed.
Theorem c01_mt_to_usd_exact : forall w, 1 <= w -> forall amount pool supply r,
  0 <= amount -> 0 <= pool -> 0 <= supply ->
  mt_to_usd w amount pool supply = Some r ->
  supply <> 0 /\ supply * r <= pool * amount < supply * r + supply.
Proof. use mt_to_usd_exact. Qed.

(* non-vacuity: concrete instances at the type limits *)
Example c01_ex1 : mul_div 64 18446744073709551615 18446744073709551615 18446744073709551615 = Some 18446744073709551615.
Proof. vm_compute. reflexivity. Qed.
Example c01_ex2 : mul_div_ceil 128 7 3 2 = Some 11 /\ mul_div 64 (2^63) 2 1 = None.
Proof. vm_compute. split; reflexivity. Qed.
Example c01_ex3 : round_up_mag_div 64 3 (-1) = Some (-1) /\ bound_magnitude 64 (-123) 124 256 = Ok (-124).
Proof. vm_compute. split; reflexivity. Qed.
