From GV Require Import lib.Base lib.DivLemmas C01.Model.
Open Scope Z_scope.
Ltac Zify.zify_post_hook ::= Z.div_mod_to_equations.

Lemma chk_u_some w z r : chk_u w z = Some r <-> (0 <= z < 2 ^ w /\ r = z).
Proof. unfold chk_u, in_u. destruct (0 <=? z) eqn:A, (z <? 2 ^ w) eqn:B; simpl; split; intros H; try discriminate; try (injection H as <-); try lia; destruct H as [? ->]; try reflexivity; lia. Qed.
Lemma chk_u_none w z : chk_u w z = None <-> (z < 0 \/ 2 ^ w <= z).
Proof. unfold chk_u, in_u. destruct (0 <=? z) eqn:A, (z <? 2 ^ w) eqn:B; simpl; split; intros H; try discriminate; try lia; reflexivity. Qed.
Lemma chk_s_some w z r : chk_s w z = Some r <-> (- 2 ^ (w-1) <= z < 2 ^ (w-1) /\ r = z).
Proof. unfold chk_s, in_s. destruct (- 2 ^ (w-1) <=? z) eqn:A, (z <? 2 ^ (w-1)) eqn:B; simpl; split; intros H; try discriminate; try (injection H as <-); try lia; destruct H as [? ->]; try reflexivity; lia. Qed.
Lemma chk_s_none w z : chk_s w z = None <-> (z < - 2 ^ (w-1) \/ 2 ^ (w-1) <= z).
Proof. unfold chk_s, in_s. destruct (- 2 ^ (w-1) <=? z) eqn:A, (z <? 2 ^ (w-1)) eqn:B; simpl; split; intros H; try discriminate; try lia; reflexivity. Qed.
Lemma to_signed_some w a r : to_signed w a = Some r <-> (a < 2 ^ (w-1) /\ r = a).
Proof. unfold to_signed. destruct (a <? 2 ^ (w-1)) eqn:A; split; intros H; try discriminate; try (injection H as <-); try lia. destruct H as [? ->]; reflexivity. Qed.
Lemma to_signed_none w a : to_signed w a = None <-> 2 ^ (w-1) <= a.
Proof. unfold to_signed. destruct (a <? 2 ^ (w-1)) eqn:A; split; intros H; try discriminate; try lia; reflexivity. Qed.

Lemma obind_some {A B} (a : option A) (f : A -> option B) r :
  obind a f = Some r <-> exists x, a = Some x /\ f x = Some r.
Proof. destruct a; simpl; split; intros H; try discriminate; eauto. - destruct H as [x [E H]]. injection E as <-. exact H. - destruct H as [x [E _]]; discriminate. Qed.

Section P.
  Variable w : Z.
  Hypothesis Hw : 1 <= w.

  Let P2 : 0 < 2 ^ w. Proof. apply pow2_pos; lia. Qed.
  Let P2' : 0 < 2 ^ (w - 1). Proof. apply pow2_pos; lia. Qed.
  Let P2'' : 2 ^ w = 2 * 2 ^ (w - 1).
  Proof. replace w with (1 + (w - 1)) at 1 by lia. rewrite Z.pow_add_r by lia. reflexivity. Qed.

  (* ---- mul_div ---- *)
  Theorem mul_div_exact a b d r : 0 <= a -> 0 <= b -> 0 <= d ->
    mul_div w a b d = Some r <-> (d <> 0 /\ r = a * b / d /\ r < 2 ^ w).
  Proof.
    intros Ha Hb Hd. unfold mul_div. destruct (d =? 0) eqn:E.
    - split; [discriminate|]. lia.
    - rewrite chk_u_some. assert (0 <= a * b / d) by (apply div_nonneg; nia). split; intros H0; lia.
  Qed.

  Theorem mul_div_floor a b d r : 0 <= a -> 0 <= b -> 0 <= d ->
    mul_div w a b d = Some r -> d * r <= a * b < d * r + d /\ 0 <= r < 2 ^ w.
  Proof.
    intros Ha Hb Hd H. apply mul_div_exact in H; try assumption. destruct H as (H1 & -> & H3).
    pose proof (div_floor_spec (a*b) d ltac:(lia)). assert (0 <= a * b / d) by (apply div_nonneg; nia). lia.
  Qed.

  Theorem mul_div_none a b d : 0 <= a -> 0 <= b -> 0 <= d ->
    mul_div w a b d = None <-> (d = 0 \/ 2 ^ w <= a * b / d).
  Proof.
    intros Ha Hb Hd. unfold mul_div. destruct (d =? 0) eqn:E.
    - split; [lia|reflexivity].
    - rewrite chk_u_none. assert (0 <= a * b / d) by (apply div_nonneg; nia). split; intros H0; lia.
  Qed.

  (* ---- mul_div_ceil ---- *)
  Definition ceil_div (n d : Z) : Z := if n mod d =? 0 then n / d else n / d + 1.

  Lemma ceil_div_spec n d : 0 < d -> d * (ceil_div n d - 1) < n <= d * ceil_div n d.
  Proof. intros Hd. unfold ceil_div. destruct (n mod d =? 0) eqn:E; lia. Qed.

  Theorem mul_div_ceil_exact a b d r : 0 <= a -> 0 <= b -> 0 <= d ->
    mul_div_ceil w a b d = Some r ->
    d <> 0 /\ d * (r - 1) < a * b <= d * r /\ 0 <= r < 2 ^ w.
  Proof.
    intros Ha Hb Hd. unfold mul_div_ceil. destruct (d =? 0) eqn:E; [discriminate|].
    fold (ceil_div (a*b) d). rewrite chk_u_some. intros [H ->].
    pose proof (ceil_div_spec (a*b) d ltac:(lia)). lia.
  Qed.

  Theorem mul_div_ceil_none a b d : 0 <= a -> 0 <= b -> 0 <= d ->
    mul_div_ceil w a b d = None <-> (d = 0 \/ 2 ^ w <= ceil_div (a * b) d).
  Proof.
    intros Ha Hb Hd. unfold mul_div_ceil. destruct (d =? 0) eqn:E.
    - split; [lia|reflexivity].
    - fold (ceil_div (a*b) d). rewrite chk_u_none.
      pose proof (ceil_div_spec (a*b) d ltac:(lia)). assert (0 <= ceil_div (a*b) d) by nia.
      split; intros H1; lia.
  Qed.

  Theorem mul_div_ceil_ge_floor a b d r r' : 0 <= a -> 0 <= b -> 0 <= d ->
    mul_div w a b d = Some r -> mul_div_ceil w a b d = Some r' -> r <= r' <= r + 1.
  Proof.
    intros Ha Hb Hd H1 H2. apply mul_div_floor in H1; try assumption.
    apply mul_div_ceil_exact in H2; try assumption. nia.
  Qed.

  (* ---- signed numerator ---- *)
  Theorem mul_div_signed_exact a n d r : 0 <= a -> 0 <= d ->
    mul_div_signed w a n d = Some r ->
    d <> 0 /\ Z.abs r = a * Z.abs n / d /\ Z.abs r < 2 ^ (w - 1) /\
    (0 < n -> 0 <= r) /\ (n <= 0 -> r <= 0).
  Proof.
    intros Ha Hd. unfold mul_div_signed. rewrite obind_some. intros (x & H1 & H2).
    apply mul_div_exact in H1; [|lia..]. destruct H1 as (Hd0 & -> & Hlt).
    rewrite obind_some in H2. destruct H2 as (s & Hs & H2). apply to_signed_some in Hs. destruct Hs as [Hs ->].
    assert (0 <= a * Z.abs n / d) by (apply div_nonneg; nia).
    destruct (0 <? n) eqn:En.
    - injection H2 as <-. lia.
    - unfold sneg in H2. apply chk_s_some in H2. destruct H2 as [_ ->]. lia.
  Qed.

  Theorem mul_div_signed_none a n d : 0 <= a -> 0 <= d ->
    mul_div_signed w a n d = None <-> (d = 0 \/ 2 ^ (w - 1) <= a * Z.abs n / d).
  Proof.
    intros Ha Hd. unfold mul_div_signed.
    destruct (mul_div w a (Z.abs n) d) as [x|] eqn:E1; simpl.
    - apply mul_div_exact in E1; [|lia..]. destruct E1 as (Hd0 & -> & Hlt).
      assert (0 <= a * Z.abs n / d) by (apply div_nonneg; nia).
      destruct (to_signed w (a * Z.abs n / d)) as [s|] eqn:E2; simpl.
      + apply to_signed_some in E2. destruct E2 as [E2 ->].
        destruct (0 <? n); [split; [discriminate|lia]|].
        unfold sneg. split; intros H1; [apply chk_s_none in H1; lia| lia].
      + apply to_signed_none in E2. split; [lia|reflexivity].
    - apply mul_div_none in E1; [|lia..]. split; [|reflexivity]. intros _. lia.
  Qed.

  (* ---- round-up division ---- *)
  Theorem round_up_div_sound a d r : 0 <= a -> 0 <= d ->
    round_up_div w a d = Some r -> d <> 0 /\ d * (r - 1) < a <= d * r.
  Proof.
    intros Ha Hd. unfold round_up_div. destruct (d =? 0) eqn:E; [discriminate|].
    rewrite obind_some. intros (s & H1 & H2). apply chk_u_some in H1. destruct H1 as [_ ->].
    rewrite obind_some in H2. destruct H2 as (t & H2 & H3). apply chk_u_some in H2. destruct H2 as [_ ->].
    unfold udiv in H3. rewrite E in H3. injection H3 as <-.
    pose proof (ceil_spec a d ltac:(lia)). simpl in H. lia.
  Qed.

  Theorem round_up_div_none a d : 0 <= a -> 0 <= d ->
    round_up_div w a d = None <-> (d = 0 \/ 2 ^ w <= a + d).
  Proof.
    intros Ha Hd. unfold round_up_div. destruct (d =? 0) eqn:E; [split; [lia|reflexivity]|].
    unfold uadd, usub, udiv. destruct (chk_u w (a + d)) as [s|] eqn:E1; simpl.
    - apply chk_u_some in E1. destruct E1 as [E1 ->].
      destruct (chk_u w (a + d - 1)) as [t|] eqn:E2; simpl.
      + rewrite E. split; [discriminate|lia].
      + apply chk_u_none in E2. lia.
    - apply chk_u_none in E1. split; [lia|reflexivity].
  Qed.

  Lemma sdiv_some a b r : sdiv w a b = Some r -> b <> 0 /\ r = Z.quot a b.
  Proof. unfold sdiv. destruct (b =? 0) eqn:E; [discriminate|]. intros H. apply chk_s_some in H. lia. Qed.

  Theorem round_up_mag_div_sound d x r : 0 <= d ->
    round_up_mag_div w d x = Some r ->
    d <> 0 /\ d * (Z.abs r - 1) < Z.abs x <= d * Z.abs r /\ (0 <= x -> 0 <= r) /\ (x < 0 -> r <= 0).
  Proof.
    intros Hd. unfold round_up_mag_div. destruct (d =? 0) eqn:E; [discriminate|].
    rewrite obind_some. intros (ds & H1 & H2). apply to_signed_some in H1. destruct H1 as [_ ->].
    destruct (x <? 0) eqn:Ex.
    - rewrite obind_some in H2. destruct H2 as (s & H2 & H3). apply chk_s_some in H2. destruct H2 as [_ ->].
      rewrite obind_some in H3. destruct H3 as (t & H3 & H4). apply chk_s_some in H3. destruct H3 as [_ ->].
      apply sdiv_some in H4. destruct H4 as [_ ->].
      rewrite quot_neg_num by lia.
      replace (- (x - d + 1)) with ((-x) + d - 1) by lia.
      pose proof (ceil_spec (-x) d ltac:(lia)) as HC. simpl in HC.
      assert (0 <= (- x + d - 1) / d) by (apply div_nonneg; lia). lia.
    - rewrite obind_some in H2. destruct H2 as (s & H2 & H3). apply chk_s_some in H2. destruct H2 as [_ ->].
      rewrite obind_some in H3. destruct H3 as (t & H3 & H4). apply chk_s_some in H3. destruct H3 as [_ ->].
      apply sdiv_some in H4. destruct H4 as [_ ->].
      rewrite quot_nonneg_div by lia.
      pose proof (ceil_spec x d ltac:(lia)) as HC. simpl in HC.
      assert (0 <= (x + d - 1) / d) by (apply div_nonneg; lia). lia.
  Qed.

  (* ---- clamp ---- *)
  Definition clampZ (v lo hi : Z) := Z.max lo (Z.min v hi).

  Theorem bound_magnitude_spec v mn mx r : 0 <= mn -> 0 <= mx -> in_s w v = true ->
    bound_magnitude w v mn mx = Ok r ->
    mn <= mx /\ Z.abs r = clampZ (Z.abs v) mn mx /\ (v < 0 -> r <= 0) /\ (0 <= v -> 0 <= r) /\ in_s w r = true.
  Proof.
    intros Hmn Hmx Hv. unfold bound_magnitude, clampZ. destruct (mx <? mn) eqn:E0; [discriminate|].
    unfold in_s in *. 
    destruct (Z.abs v <? mn) eqn:E1.
    - unfold to_signed_with_sign, to_opposite_signed. destruct (v <? 0) eqn:Ev.
      + destruct (to_signed w mn) as [s|] eqn:E2; simpl; [|discriminate]. apply to_signed_some in E2. destruct E2 as [E2 ->].
        unfold sneg. destruct (chk_s w (- mn)) eqn:E3; simpl; [|discriminate]. apply chk_s_some in E3. destruct E3 as [E3 ->].
        intros H; injection H as <-. lia.
      + destruct (to_signed w mn) as [s|] eqn:E2; simpl; [|discriminate]. apply to_signed_some in E2. destruct E2 as [E2 ->].
        intros H; injection H as <-. lia.
    - destruct (mx <? Z.abs v) eqn:E2.
      + unfold to_signed_with_sign, to_opposite_signed. destruct (v <? 0) eqn:Ev.
        * destruct (to_signed w mx) as [s|] eqn:E3; simpl; [|discriminate]. apply to_signed_some in E3. destruct E3 as [E3 ->].
          unfold sneg. destruct (chk_s w (- mx)) eqn:E4; simpl; [|discriminate]. apply chk_s_some in E4. destruct E4 as [E4 ->].
          intros H; injection H as <-. lia.
        * destruct (to_signed w mx) as [s|] eqn:E3; simpl; [|discriminate]. apply to_signed_some in E3. destruct E3 as [E3 ->].
          intros H; injection H as <-. lia.
      + intros H; injection H as <-. lia.
  Qed.

  Theorem bound_magnitude_err v mn mx e : 0 <= mn -> 0 <= mx ->
    bound_magnitude w v mn mx = Err e ->
    (e = 1 /\ mx < mn) \/ (e = 2 /\ mn <= mx /\ 2 ^ (w - 1) <= clampZ (Z.abs v) mn mx).
  Proof.
    intros Hmn Hmx. unfold bound_magnitude, clampZ. destruct (mx <? mn) eqn:E0.
    - intros H; injection H as <-. left; lia.
    - destruct (Z.abs v <? mn) eqn:E1.
      + unfold to_signed_with_sign, to_opposite_signed. destruct (v <? 0) eqn:Ev;
          destruct (to_signed w mn) as [s|] eqn:E2; simpl.
        * apply to_signed_some in E2. destruct E2 as [E2 ->]. unfold sneg.
          destruct (chk_s w (- mn)) eqn:E3; simpl; [discriminate|]. apply chk_s_none in E3. lia.
        * apply to_signed_none in E2. intros H; injection H as <-. right. lia.
        * discriminate.
        * apply to_signed_none in E2. intros H; injection H as <-. right. lia.
      + destruct (mx <? Z.abs v) eqn:E2; [|discriminate].
        unfold to_signed_with_sign, to_opposite_signed. destruct (v <? 0) eqn:Ev;
          destruct (to_signed w mx) as [s|] eqn:E3; simpl.
        * apply to_signed_some in E3. destruct E3 as [E3 ->]. unfold sneg.
          destruct (chk_s w (- mx)) eqn:E4; simpl; [discriminate|]. apply chk_s_none in E4. lia.
        * apply to_signed_none in E3. intros H; injection H as <-. right. lia.
        * discriminate.
        * apply to_signed_none in E3. intros H; injection H as <-. right. lia.
  Qed.

  (* ---- mixed signed / unsigned ---- *)
  Theorem add_with_signed_exact a s r : 0 <= a ->
    add_with_signed w a s = Some r <-> (r = a + s /\ 0 <= r < 2 ^ w).
  Proof.
    intros Ha. unfold add_with_signed, uadd, usub. destruct (0 <? s) eqn:E; rewrite chk_u_some; lia.
  Qed.
  Theorem sub_with_signed_exact a s r : 0 <= a ->
    sub_with_signed w a s = Some r <-> (r = a - s /\ 0 <= r < 2 ^ w).
  Proof.
    intros Ha. unfold sub_with_signed, uadd, usub. destruct (0 <? s) eqn:E; rewrite chk_u_some; lia.
  Qed.
  Theorem mul_with_signed_exact a s r : 0 <= a ->
    mul_with_signed w a s = Some r -> r = a * s /\ Z.abs r < 2 ^ (w - 1).
  Proof.
    intros Ha. unfold mul_with_signed, umul. destruct (s <? 0) eqn:E.
    - rewrite obind_some. intros (p & H1 & H2). apply chk_u_some in H1. destruct H1 as [H1 ->].
      rewrite obind_some in H2. destruct H2 as (t & H2 & H3). apply to_signed_some in H2. destruct H2 as [H2 ->].
      unfold sneg in H3. apply chk_s_some in H3. destruct H3 as [H3 ->]. nia.
    - rewrite obind_some. intros (p & H1 & H2). apply chk_u_some in H1. destruct H1 as [H1 ->].
      apply to_signed_some in H2. destruct H2 as [H2 ->]. nia.
  Qed.
  Theorem signed_sub_exact a b r : 0 <= a -> 0 <= b ->
    signed_sub w a b = Some r -> r = a - b /\ Z.abs r < 2 ^ (w - 1).
  Proof.
    intros Ha Hb. unfold signed_sub, diff, to_opposite_signed. destruct (b <=? a) eqn:E.
    - intros H. apply to_signed_some in H. lia.
    - rewrite obind_some. intros (s & H1 & H2). apply to_signed_some in H1. destruct H1 as [H1 ->].
      unfold sneg in H2. apply chk_s_some in H2. lia.
  Qed.

  (* ---- factor helpers ---- *)
  Section F.
    Variable unit : Z.
    Hypothesis Hunit : 0 < unit.

    Theorem apply_factor_exact v f r : 0 <= v -> 0 <= f ->
      apply_factor w unit v f = Some r <-> (r = v * f / unit /\ r < 2 ^ w).
    Proof. intros. unfold apply_factor. rewrite mul_div_exact by lia. intuition lia. Qed.

    Theorem div_to_factor_exact v d ru r : 0 <= v -> 0 <= d ->
      div_to_factor w unit v d ru = Some r ->
      (d = 0 /\ r = 0) \/
      (d <> 0 /\ ru = false /\ d * r <= v * unit < d * r + d) \/
      (d <> 0 /\ ru = true /\ d * (r - 1) < v * unit <= d * r).
    Proof.
      intros Hv Hd. unfold div_to_factor. destruct (d =? 0) eqn:E.
      - intros H; injection H as <-. left; lia.
      - destruct ru; intros H.
        + apply mul_div_ceil_exact in H; [|lia..]. right; right. lia.
        + apply mul_div_floor in H; [|lia..]. right; left. lia.
    Qed.

    Theorem div_to_factor_signed_exact v d r : 0 <= d ->
      div_to_factor_signed w unit v d = Some r ->
      (d = 0 /\ r = 0) \/
      (d <> 0 /\ Z.abs r = unit * Z.abs v / d /\ (0 < v -> 0 <= r) /\ (v <= 0 -> r <= 0)).
    Proof.
      intros Hd. unfold div_to_factor_signed. destruct (d =? 0) eqn:E.
      - intros H; injection H as <-. left; lia.
      - intros H. apply mul_div_signed_exact in H; [|lia..]. right. intuition lia.
    Qed.

    (* fixed-point power, integer exponent *)
    Lemma pow_loop_succ b n :
      pow_loop w unit b (N.succ n) = (a <- pow_loop w unit b n ;; fmul w unit a b).
    Proof. unfold pow_loop. rewrite N.iter_succ. reflexivity. Qed.

    Theorem pow_loop_0 b : pow_loop w unit b 0 = Some unit.
    Proof. reflexivity. Qed.

    Theorem pow_loop_1 b : 0 <= b < 2 ^ w -> unit < 2 ^ w -> pow_loop w unit b 1 = Some b.
    Proof.
      intros Hb Hu. change 1%N with (N.succ 0). rewrite pow_loop_succ, pow_loop_0. simpl.
      unfold fmul, mul_div. replace (unit =? 0) with false by lia.
      rewrite Z.mul_comm, Z.div_mul by lia. unfold chk_u, in_u.
      replace (0 <=? b) with true by lia. replace (b <? 2 ^ w) with true by lia. reflexivity.
    Qed.

    (* the result never exceeds the exact power: r * unit^n <= unit * b^n *)
    Theorem pow_loop_upper b n r : 0 <= b ->
      pow_loop w unit b n = Some r -> 0 <= r /\ r * unit ^ (Z.of_N n) <= unit * b ^ (Z.of_N n).
    Proof.
      intros Hb. revert r. induction n as [|n IH] using N.peano_ind; intros r.
      - rewrite pow_loop_0. intros H; injection H as <-. simpl. lia.
      - rewrite pow_loop_succ, obind_some. intros (a & Ha & Hf).
        destruct (IH a Ha) as [IH0 IH1]. unfold fmul in Hf. apply mul_div_floor in Hf; [|lia..].
        rewrite N2Z.inj_succ, !Z.pow_succ_r by lia.
        assert (0 < unit ^ Z.of_N n) by (apply Z.pow_pos_nonneg; lia).
        split; [lia|]. nia.
    Qed.

    (* monotone in the base *)
    Theorem pow_loop_mono b1 b2 n r1 r2 : 0 <= b1 <= b2 ->
      pow_loop w unit b1 n = Some r1 -> pow_loop w unit b2 n = Some r2 -> r1 <= r2.
    Proof.
      intros Hb. revert r1 r2. induction n as [|n IH] using N.peano_ind; intros r1 r2.
      - rewrite !pow_loop_0. intros H1 H2. injection H1 as <-. injection H2 as <-. lia.
      - rewrite !pow_loop_succ, !obind_some. intros (a1 & Ha1 & Hf1) (a2 & Ha2 & Hf2).
        specialize (IH a1 a2 Ha1 Ha2).
        apply pow_loop_upper in Ha1; [|lia..]. apply pow_loop_upper in Ha2; [|lia..].
        unfold fmul in *. apply mul_div_exact in Hf1; [|lia..]. apply mul_div_exact in Hf2; [|lia..].
        destruct Hf1 as (_ & -> & _). destruct Hf2 as (_ & -> & _).
        apply Z.div_le_mono; [lia|]. nia.
    Qed.

    Theorem apply_exponent_factor_cases v e r : 0 <= v -> 0 <= e ->
      apply_exponent_factor w unit v e = Some r ->
      (v < unit /\ r = 0) \/ (v = unit /\ r = unit) \/
      (unit < v /\ e = 0 /\ r = unit) \/ (unit < v /\ e = unit /\ r = v) \/
      (unit < v /\ e <> 0 /\ e <> unit /\ pow_fixed w unit v e = Some r).
    Proof.
      intros Hv He. unfold apply_exponent_factor.
      destruct (v <? unit) eqn:E1; [intros H; injection H as <-; lia|].
      destruct (v =? unit) eqn:E2; [intros H; injection H as <-; lia|].
      destruct (e =? 0) eqn:E3; [intros H; injection H as <-; lia|].
      destruct (e =? unit) eqn:E4; [intros H; injection H as <-; lia|].
      intros H. right; right; right; right. repeat split; try lia. exact H.
    Qed.
  End F.

  (* ---- USD <-> market token ---- *)
  Theorem usd_to_mt_cases usd pool supply divisor r :
    0 <= usd -> 0 <= pool -> 0 <= supply -> 0 <= divisor ->
    usd_to_mt w usd pool supply divisor = Some r ->
    divisor <> 0 /\
    ((supply = 0 /\ pool = 0 /\ r = usd / divisor) \/
     (supply = 0 /\ pool <> 0 /\ r = (pool + usd) / divisor /\ pool + usd < 2 ^ w) \/
     (supply <> 0 /\ pool <> 0 /\ pool * r <= supply * usd < pool * r + pool /\ r < 2 ^ w)).
  Proof.
    intros Hu Hp Hs Hd. unfold usd_to_mt. destruct (divisor =? 0) eqn:E0; [discriminate|].
    intros H. split; [lia|]. revert H.
    destruct (supply =? 0) eqn:E1, (pool =? 0) eqn:E2; cbn [andb negb].
    - unfold udiv. rewrite E0. intros H; injection H as <-. left; lia.
    - rewrite obind_some. intros (s & H1 & H2). apply chk_u_some in H1. destruct H1 as [H1 ->].
      unfold udiv in H2. rewrite E0 in H2. injection H2 as <-. right; left. lia.
    - unfold mul_div. rewrite E2. discriminate.
    - intros H. apply mul_div_floor in H; [|lia..]. right; right. lia.
  Qed.

  Theorem usd_to_mt_never_rounds_up usd pool supply divisor r :
    0 <= usd -> 0 <= pool -> 0 < supply -> 0 < divisor ->
    usd_to_mt w usd pool supply divisor = Some r -> r * pool <= supply * usd.
  Proof.
    intros Hu Hp Hs Hd H. apply usd_to_mt_cases in H; [|lia..]. lia.
  Qed.

  Theorem mt_to_usd_exact amount pool supply r : 0 <= amount -> 0 <= pool -> 0 <= supply ->
    mt_to_usd w amount pool supply = Some r ->
    supply <> 0 /\ supply * r <= pool * amount < supply * r + supply.
  Proof. intros Ha Hp Hs H. unfold mt_to_usd in H. apply mul_div_floor in H; lia. Qed.
End P.
