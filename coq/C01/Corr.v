(* C01 — correspondence and oracle predicates evaluated on cases produced by
   the Rust harness (harness/src/bin/c01.rs).  Depends on Model.v only, so it
   still runs when a proof breaks. *)
From GV Require Import lib.Base C01.Model.
Open Scope Z_scope.

Inductive case :=
| MulDiv (w a b d : Z) (r : option Z)
| MulDivCeil (w a b d : Z) (r : option Z)
| MulDivSigned (w a n d : Z) (r : option Z)
| RoundUpDiv (w a d : Z) (r : option Z)
| RoundUpMagDiv (w d x : Z) (r : option Z)
| BoundMag (w v mn mx : Z) (r : res Z)       (* Err 1 = InvalidArgument, Err 2 = Convert/Computation *)
| SignedSub (w a b : Z) (r : option Z)
| AddSigned (w a s : Z) (r : option Z)
| SubSigned (w a s : Z) (r : option Z)
| MulSigned (w a s : Z) (r : option Z)
| ApplyFactor (w dec v f : Z) (r : option Z)
| DivToFactor (w dec v d : Z) (ru : bool) (r : option Z)
| DivToFactorSigned (w dec v d : Z) (r : option Z)
| PowFixed (w dec b e : Z) (r : option Z)
| ApplyExpFactor (w dec v e : Z) (r : option Z)
| ApplyFactors (w dec v f e : Z) (r : res Z)  (* Err 1 = PowComputation, Err 2 = Overflow *)
| UsdToMt (w usd pool supply divisor : Z) (r : option Z)
| MtToUsd (w amount pool supply : Z) (r : option Z).

Definition reqb (a b : res Z) : bool :=
  match a, b with
  | Ok x, Ok y => x =? y
  | Err x, Err y => x =? y
  | _, _ => false
  end.

Definition corr_b (c : case) : bool :=
  match c with
  | MulDiv w a b d r => oeqb (mul_div w a b d) r
  | MulDivCeil w a b d r => oeqb (mul_div_ceil w a b d) r
  | MulDivSigned w a n d r => oeqb (mul_div_signed w a n d) r
  | RoundUpDiv w a d r => oeqb (round_up_div w a d) r
  | RoundUpMagDiv w d x r => oeqb (round_up_mag_div w d x) r
  | BoundMag w v mn mx r => reqb (bound_magnitude w v mn mx) r
  | SignedSub w a b r => oeqb (signed_sub w a b) r
  | AddSigned w a s r => oeqb (add_with_signed w a s) r
  | SubSigned w a s r => oeqb (sub_with_signed w a s) r
  | MulSigned w a s r => oeqb (mul_with_signed w a s) r
  | ApplyFactor w dec v f r => oeqb (apply_factor w (10 ^ dec) v f) r
  | DivToFactor w dec v d ru r => oeqb (div_to_factor w (10 ^ dec) v d ru) r
  | DivToFactorSigned w dec v d r => oeqb (div_to_factor_signed w (10 ^ dec) v d) r
  | PowFixed w dec b e r => oeqb (pow_fixed w (10 ^ dec) b e) r
  | ApplyExpFactor w dec v e r => oeqb (apply_exponent_factor w (10 ^ dec) v e) r
  | ApplyFactors w dec v f e r => reqb (apply_factors w (10 ^ dec) v f e) r
  | UsdToMt w usd pool supply divisor r => oeqb (usd_to_mt w usd pool supply divisor) r
  | MtToUsd w amount pool supply r => oeqb (mt_to_usd w amount pool supply) r
  end.

(* The property stated directly on the implementation's outputs, independent of
   the model's definitions: exact rounding in the documented direction when a
   value is returned; a failure only when the divisor is zero or the exact
   result (or, for round-up division, the documented intermediate sum) does not
   fit the type. *)
Definition floor_ok (n d r : Z) : bool := (d * r <=? n) && (n <? d * r + d).
Definition ceil_ok (n d r : Z) : bool := (d * (r - 1) <? n) && (n <=? d * r).
Definition sign_ok (x r : Z) : bool := if 0 <? x then 0 <=? r else if x <? 0 then r <=? 0 else r =? 0.

Definition oracle_b (c : case) : bool :=
  match c with
  | MulDiv w a b d r =>
      match r with
      | Some q => negb (d =? 0) && floor_ok (a * b) d q && in_u w q
      | None => (d =? 0) || (2 ^ w <=? a * b / d)
      end
  | MulDivCeil w a b d r =>
      match r with
      | Some q => negb (d =? 0) && ceil_ok (a * b) d q && in_u w q
      | None => (d =? 0) || (2 ^ w <=? (a * b + d - 1) / d)
      end
  | MulDivSigned w a n d r =>
      match r with
      | Some q => negb (d =? 0) && floor_ok (a * Z.abs n) d (Z.abs q) && sign_ok n q && in_s w q
      | None => (d =? 0) || (2 ^ (w - 1) <=? a * Z.abs n / d)
      end
  | RoundUpDiv w a d r =>
      match r with
      | Some q => negb (d =? 0) && ceil_ok a d q && in_u w q
      | None => (d =? 0) || (2 ^ w <=? a + d)
      end
  | RoundUpMagDiv w d x r =>
      match r with
      | Some q => negb (d =? 0) && ceil_ok (Z.abs x) d (Z.abs q) && sign_ok x q && in_s w q
      | None => (d =? 0) || (2 ^ (w - 1) <=? d) || (2 ^ (w - 1) <=? Z.abs x + d)
      end
  | BoundMag w v mn mx r =>
      match r with
      | Ok q => (mn <=? mx) && (Z.abs q =? Z.max mn (Z.min (Z.abs v) mx)) && in_s w q
                && (if v <? 0 then q <=? 0 else 0 <=? q)
      | Err e => if mx <? mn then e =? 1 else (e =? 2) && (2 ^ (w - 1) <=? Z.max mn (Z.min (Z.abs v) mx))
      end
  | SignedSub w a b r =>
      match r with Some q => (q =? a - b) && in_s w q | None => 2 ^ (w - 1) <=? Z.abs (a - b) end
  | AddSigned w a s r =>
      match r with Some q => (q =? a + s) && in_u w q | None => negb (in_u w (a + s)) end
  | SubSigned w a s r =>
      match r with Some q => (q =? a - s) && in_u w q | None => negb (in_u w (a - s)) end
  | MulSigned w a s r =>
      match r with Some q => (q =? a * s) && in_s w q | None => 2 ^ (w - 1) <=? Z.abs (a * s) end
  | ApplyFactor w dec v f r =>
      match r with
      | Some q => floor_ok (v * f) (10 ^ dec) q && in_u w q
      | None => 2 ^ w <=? v * f / 10 ^ dec
      end
  | DivToFactor w dec v d ru r =>
      if d =? 0 then oeqb r (Some 0) else
      match r with
      | Some q => (if ru then ceil_ok (v * 10 ^ dec) d q else floor_ok (v * 10 ^ dec) d q) && in_u w q
      | None => 2 ^ w <=? (if ru then (v * 10 ^ dec + d - 1) / d else v * 10 ^ dec / d)
      end
  | DivToFactorSigned w dec v d r =>
      if d =? 0 then oeqb r (Some 0) else
      match r with
      | Some q => floor_ok (10 ^ dec * Z.abs v) d (Z.abs q) && sign_ok v q && in_s w q
      | None => 2 ^ (w - 1) <=? 10 ^ dec * Z.abs v / d
      end
  | PowFixed w dec b e r =>
      (* whole exponents: result never exceeds the exact power, and equals it
         exactly for exponents 0, 1 and 2 *)
      let u := 10 ^ dec in let n := e / u in
      match r with
      | Some q => in_u w q && (q * u ^ n <=? u * b ^ n)
                  && (if n =? 0 then q =? u else if n =? 1 then q =? b else if n =? 2 then q =? b * b / u else true)
      | None => negb (n <=? 1)
      end
  | ApplyExpFactor w dec v e r =>
      let u := 10 ^ dec in
      if v <? u then oeqb r (Some 0)
      else if v =? u then oeqb r (Some u)
      else if e =? 0 then oeqb r (Some u)
      else if e =? u then oeqb r (Some v)
      else match r with Some q => in_u w q && (q * u ^ (e / u) <=? u * v ^ (e / u)) | None => true end
  | ApplyFactors w dec v f e r =>
      let u := 10 ^ dec in
      match r with
      | Ok q => in_u w q && (if v <? u then q =? 0 else if (v =? u) || (e =? 0) then q =? u * f / u
                             else if e =? u then q =? v * f / u else true)
      | Err _ => true
      end
  | UsdToMt w usd pool supply divisor r =>
      match r with
      | Some q =>
          negb (divisor =? 0) && in_u w q &&
          (if supply =? 0 then if pool =? 0 then q =? usd / divisor else q =? (pool + usd) / divisor
           else floor_ok (supply * usd) pool q)
      | None =>
          (divisor =? 0) ||
          (if supply =? 0 then negb (pool =? 0) && (2 ^ w <=? pool + usd)
           else (pool =? 0) || (2 ^ w <=? supply * usd / pool))
      end
  | MtToUsd w amount pool supply r =>
      match r with
      | Some q => negb (supply =? 0) && floor_ok (pool * amount) supply q && in_u w q
      | None => (supply =? 0) || (2 ^ w <=? pool * amount / supply)
      end
  end.

Definition known_b (c : case) : Z := 0.
