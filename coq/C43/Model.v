(* C43 — model of crates/sdk/src/utils/fixed.rs and of the rust_decimal 1.37.2
   operations it uses.  Definitions only.

   A rust_decimal [Decimal] is (sign flag, 96-bit magnitude, scale).  The scale
   lives in 8 bits of the flags word; the public constructors keep it <= 28,
   [rescale] can exceed 28 when asked to (it never checks the new scale).

   Panic sites of the Rust code are explicit: [FPanic] (forward direction) and
   the arithmetic guards below ([u32] subtraction underflow and [pow] overflow
   panic in a debug build; they are modelled so that "never panics" is a
   statement about the model and not an assumption). *)
From GV Require Import lib.Base.
Open Scope Z_scope.

Record dec := mkDec { dneg : bool; dm : Z; dsc : Z }.

Definition MAX_REPR : Z := 2 ^ 96 - 1.         (* fixed.rs MAX_REPR = rust_decimal MAX_I128_REPR *)
Definition MAX_SCALE : Z := 28.                 (* Decimal::MAX_SCALE *)
Definition MARKET_DECIMALS : Z := 20.

(* u128::ilog10 for n >= 1 (fuel 40 covers 2^128 < 10^39) *)
Fixpoint ilog10_fuel (fuel : nat) (n : Z) : Z :=
  match fuel with
  | O => 0
  | S f => if n <? 10 then 0 else 1 + ilog10_fuel f (n / 10)
  end.
Definition ilog10 (n : Z) : Z := ilog10_fuel 40 n.

Definition TARGET_SCALE : Z := ilog10 MAX_REPR - 1.   (* = 27 *)

(* ---- rust_decimal ---- *)

(* Decimal::try_from_i128_with_scale; Err 1 scale, Err 2 too large, Err 3 too small *)
Definition try_from_i128_with_scale (num scale : Z) : res dec :=
  if MAX_SCALE <? scale then Err 1
  else if MAX_REPR <? num then Err 2
  else if num <? - MAX_REPR then Err 3
  else Ok (mkDec (num <? 0) (Z.abs num) scale).

(* Decimal::mantissa *)
Definition mantissa (d : dec) : Z := if dneg d then - dm d else dm d.

(* Neg for Decimal: flips the sign flag, also on zero *)
Definition dec_neg (d : dec) : dec := mkDec (negb (dneg d)) (dm d) (dsc d).

(* ops::array::rescale::<true>, the loops as written.
   down: [diff] iterations of div_by_u32(value,10); early return when the value
   is already zero; afterwards round up when the LAST remainder is >= 5. *)
Fixpoint rescale_down_loop (diff : nat) (m rem : Z) : Z * Z * bool :=
  match diff with
  | O => (m, rem, false)
  | S k => if m =? 0 then (m, rem, true)          (* early return, no rounding *)
           else rescale_down_loop k (m / 10) (m mod 10)
  end.
Definition rescale_down (m diff : Z) : Z :=
  match rescale_down_loop (Z.to_nat diff) m 0 with
  | (m', rem, early) => if early then m' else if 5 <=? rem then (m' + 1) mod 2 ^ 96 else m'
  end.
(* up: multiply by ten while the product still fits 96 bits, at most [diff] times;
   returns the new magnitude and the number of multiplications NOT done *)
Fixpoint rescale_up_loop (diff : nat) (m : Z) : Z * Z :=
  match diff with
  | O => (m, 0)
  | S k => if m * 10 <? 2 ^ 96 then rescale_up_loop k (m * 10) else (m, Z.of_nat diff)
  end.

(* Decimal::rescale *)
Definition rescale (d : dec) (new_scale : Z) : dec :=
  if dsc d =? new_scale then d
  else if dm d =? 0 then mkDec (dneg d) 0 (Z.min new_scale MAX_SCALE)
  else if new_scale <? dsc d then mkDec (dneg d) (rescale_down (dm d) (dsc d - new_scale)) new_scale
  else match rescale_up_loop (Z.to_nat (new_scale - dsc d)) (dm d) with
       | (m', rest) => mkDec (dneg d) m' (new_scale - rest)
       end.

(* ---- fixed.rs, forward direction ---- *)
Inductive fwd := FSome (d : dec) | FNone | FPanic.

(* Decimal::from_i128_with_scale panics on any error (no longer called by fixed.rs) *)
Definition from_i128_with_scale (num scale : Z) : fwd :=
  match try_from_i128_with_scale num scale with Ok d => FSome d | Err _ => FPanic end.

(* convert_by_change_the_scale (num > MAX_REPR) *)
Definition convert_by_change_the_scale (num scale : Z) : fwd :=
  let digits := ilog10 num in
  if digits <? TARGET_SCALE then FPanic                 (* debug_assert / u32 underflow *)
  else
    let scale_diff := digits - TARGET_SCALE in
    if scale <? scale_diff then FNone
    else if 38 <? scale_diff then FPanic                 (* 10u128.pow overflow *)
    else match try_from_i128_with_scale (num / 10 ^ scale_diff) (scale - scale_diff) with
         | Ok d => FSome d | Err _ => FNone end.   (* try_from_i128_with_scale(..).ok() *)

Definition unsigned_fixed_to_decimal (num decimals : Z) : fwd :=
  if MAX_REPR <? num then convert_by_change_the_scale num decimals
  else match try_from_i128_with_scale num decimals with Ok d => FSome d | Err _ => FNone end.

Definition fwd_neg (is_negative : bool) (f : fwd) : fwd :=
  match f with FSome d => FSome (if is_negative then dec_neg d else d) | o => o end.

Definition signed_fixed_to_decimal (num decimals : Z) : fwd :=
  fwd_neg (num <? 0) (unsigned_fixed_to_decimal (Z.abs num) decimals).

(* .expect("must be `Some`") *)
Definition expect (f : fwd) : fwd := match f with FNone => FPanic | o => o end.

Definition DEC_ZERO : dec := mkDec false 0 0.

Definition unsigned_amount_to_decimal (num decimals : Z) : fwd :=
  if MAX_SCALE <? decimals then
    let scale_diff := decimals - MAX_SCALE in
    if 19 <? scale_diff then FSome DEC_ZERO
    else expect (unsigned_fixed_to_decimal (num / 10 ^ scale_diff) MAX_SCALE)
  else expect (unsigned_fixed_to_decimal num decimals).

Definition signed_amount_to_decimal (num decimals : Z) : fwd :=
  fwd_neg (num <? 0) (unsigned_amount_to_decimal (Z.abs num) decimals).

Definition unsigned_value_to_decimal (num : Z) : fwd := expect (unsigned_fixed_to_decimal num MARKET_DECIMALS).
Definition signed_value_to_decimal (num : Z) : fwd := expect (signed_fixed_to_decimal num MARKET_DECIMALS).

(* ---- fixed.rs, backward direction ----
   Err 1 = "`value` is too big", Err 2 = "invalid scale", Err 3 = integer conversion failed,
   Err 0 = PANIC (see E_PANIC) *)
(* Before the repair the error value was built with format!("... value={value} ...") of the RESCALED value.
   Display for Decimal (str.rs to_str_internal) writes into 32-byte ArrayVec/ArrayString
   buffers: "0." followed by [scale] digits does not fit once scale >= 31 (and the zero padding
   itself overflows from scale 33), and arrayvec's push panics.  [rescale] can leave such a
   scale behind because it never checks the requested scale against MAX_SCALE.
   A panic of the backward direction is encoded as [Err E_PANIC] (the model no longer produces it). *)
Definition E_PANIC : Z := 0.
Definition DISPLAY_PANIC_SCALE : Z := 31.

Definition i128_pow10 (k : Z) : option Z := chk_s 128 (10 ^ k).   (* 10i128.checked_pow(k) *)

Definition rescale_to_mantissa (d : dec) (decimals : Z) : res Z :=
  let d' := rescale d decimals in
  let scale := dsc d' in
  let mant := mantissa d' in
  if scale <? decimals then
    match (m <- i128_pow10 (decimals - scale) ;; smul 128 mant m) with
    | Some v => Ok v
    | None => Err 1          (* the message formats the ORIGINAL value: no panic *)
    end
  else if scale =? decimals then Ok mant
  else Err 2.

Definition decimal_to_amount (d : dec) (decimals : Z) : res Z :=
  v <-- rescale_to_mantissa d decimals ;; of_opt 3 (chk_u 64 v).
Definition decimal_to_signed_value (d : dec) (decimals : Z) : res Z := rescale_to_mantissa d decimals.
Definition decimal_to_value (d : dec) (decimals : Z) : res Z :=
  v <-- decimal_to_signed_value d decimals ;; of_opt 3 (chk_u 128 v).

(* ---- the six round trips the driver runs ----
   kind 0: unsigned_fixed_to_decimal      / decimal_to_value         (u128)
   kind 1: signed_fixed_to_decimal        / decimal_to_signed_value  (i128)
   kind 2: unsigned_amount_to_decimal     / decimal_to_amount        (u64)
   kind 3: signed_amount_to_decimal       / decimal_to_signed_value  (i64)
   kind 4: unsigned_value_to_decimal      / decimal_to_value   at MARKET_DECIMALS (u128)
   kind 5: signed_value_to_decimal        / decimal_to_signed_value at MARKET_DECIMALS (i128) *)
Definition forward (k num decimals : Z) : fwd :=
  if k =? 0 then unsigned_fixed_to_decimal num decimals
  else if k =? 1 then signed_fixed_to_decimal num decimals
  else if k =? 2 then unsigned_amount_to_decimal num decimals
  else if k =? 3 then signed_amount_to_decimal num decimals
  else if k =? 4 then unsigned_value_to_decimal num
  else signed_value_to_decimal num.

Definition backward (k : Z) (d : dec) (decimals : Z) : res Z :=
  if (k =? 0) || (k =? 4) then decimal_to_value d decimals
  else if k =? 2 then decimal_to_amount d decimals
  else decimal_to_signed_value d decimals.

Definition kind_decimals (k decimals : Z) : Z := if (k =? 4) || (k =? 5) then MARKET_DECIMALS else decimals.

(* the input type of each kind *)
Definition kind_in_range (k num : Z) : bool :=
  if (k =? 0) || (k =? 4) then in_u 128 num
  else if (k =? 1) || (k =? 5) then in_s 128 num
  else if k =? 2 then in_u 64 num
  else in_s 64 num.

Definition roundtrip (k num decimals : Z) : fwd * option (res Z) :=
  let f := forward k num decimals in
  (f, match f with FSome d => Some (backward k d (kind_decimals k decimals)) | _ => None end).
