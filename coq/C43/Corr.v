(* C43 — correspondence, oracle and known-finding classes for the cases printed by
   harness-sdk/src/bin/c43.rs.  Imports Model.v only.

   Rt k num decimals f bk    round trip of kind k (Model.forward / Model.backward):
                             f  = what the forward conversion returned (FSome d / FNone / FPanic)
                             bk = what the backward conversion returned on d
   Back k d decimals bk      k = 0 decimal_to_amount (u64), 1 decimal_to_signed_value (i128),
                             2 decimal_to_value (u128) on an arbitrary valid Decimal d
   Errors of the backward direction: Err 1 "`value` is too big", Err 2 "invalid scale",
   Err 3 integer conversion (TryFromIntError). *)
From GV Require Import lib.Base.
From GV Require Export C43.Model.   (* the case lines use mkDec / FSome / ... *)
Open Scope Z_scope.

Inductive bck := BNA | BPanic | BRes (r : res Z).

Inductive case :=
| Rt (k num decimals : Z) (f : fwd) (bk : bck)
| Back (k : Z) (d : dec) (decimals : Z) (bk : bck).

Definition dec_eqb (a b : dec) : bool :=
  Bool.eqb (dneg a) (dneg b) && (dm a =? dm b) && (dsc a =? dsc b).
Definition fwd_eqb (a b : fwd) : bool :=
  match a, b with
  | FSome x, FSome y => dec_eqb x y
  | FNone, FNone => true
  | FPanic, FPanic => true
  | _, _ => false
  end.
Definition reqb (a b : res Z) : bool :=
  match a, b with Ok x, Ok y => x =? y | Err x, Err y => x =? y | _, _ => false end.
(* the model encodes a panic of the backward direction as Err 0 (Model.E_PANIC); the driver
   never prints (BRes (Err 0)) *)
Definition bck_eqb (m : option (res Z)) (b : bck) : bool :=
  match m, b with
  | None, BNA => true
  | Some (Err 0), BPanic => true
  | Some (Err 0), BRes _ => false
  | Some r, BRes r' => reqb r r'
  | _, _ => false
  end.

Definition back_kind (k : Z) (d : dec) (decimals : Z) : res Z :=
  if k =? 0 then decimal_to_amount d decimals
  else if k =? 1 then decimal_to_signed_value d decimals
  else decimal_to_value d decimals.

Definition corr_b (c : case) : bool :=
  match c with
  | Rt k num decimals f bk =>
      let '(f', b') := roundtrip k num decimals in fwd_eqb f' f && bck_eqb b' bk
  | Back k d decimals bk => bck_eqb (Some (back_kind k d decimals)) bk
  end.

(* ---------- the property, on the implementation's outputs ---------- *)
Definition M96 : Z := 79228162514264337593543950335.            (* 2^96 - 1 *)
Definition I128_MAX : Z := 170141183460469231731687303715884105727.
Definition dec_of_kind (k decimals : Z) : Z := if (k =? 4) || (k =? 5) then 20 else decimals.

Definition valid_dec (d : dec) : bool :=
  (0 <=? dm d) && (dm d <=? M96) && (0 <=? dsc d) && (dsc d <=? 28).
Definition sgn_mant (d : dec) : Z := if dneg d then - dm d else dm d.
(* the Decimal denotes exactly num / 10^D *)
Definition exact_b (d : dec) (num D : Z) : bool := sgn_mant d * 10 ^ D =? num * 10 ^ dsc d.
(* num / 10^D has a Decimal representation: some scale s <= 28 makes |num| * 10^s / 10^D
   an integer that fits 96 bits *)
Definition repr_b (num D : Z) : bool :=
  existsb (fun s => let n := Z.abs num * 10 ^ s in (n mod 10 ^ D =? 0) && (n / 10 ^ D <=? M96))
          (map Z.of_nat (seq 0 29)).

Definition is_fsome (f : fwd) : bool := match f with FSome _ => true | _ => false end.

(* half-up rounding of a signed mantissa when [drop] digits are removed *)
Definition round_half_up (mant drop : Z) : Z :=
  let p := 10 ^ drop in
  let q := Z.abs mant / p in
  let r := Z.abs mant mod p in
  let q' := if p <=? 2 * r then q + 1 else q in
  if mant <? 0 then - q' else q'.
Definition back_target (d : dec) (decimals : Z) : Z :=
  if dsc d <=? decimals then sgn_mant d * 10 ^ (decimals - dsc d)
  else round_half_up (sgn_mant d) (dsc d - decimals).
Definition back_range (k v : Z) : bool :=
  if k =? 0 then in_u 64 v else if k =? 1 then in_s 128 v else in_u 128 v.

Definition oracle_b (c : case) : bool :=
  match c with
  | Rt k num decimals f bk =>
      let D := dec_of_kind k decimals in
      (* never panics *)
      negb (fwd_eqb f FPanic) && negb (match bk with BPanic => true | _ => false end)
      (* a returned Decimal is valid and denotes num / 10^D exactly: nothing scaled or truncated *)
      && match f with FSome d => valid_dec d && exact_b d num D | _ => true end
      (* the way back returns the original integer or reports an error *)
      && match bk with
         | BRes (Ok v) => v =? num
         | BRes (Err _) => true
         | BNA => negb (is_fsome f)
         | BPanic => false
         end
      (* supported decimals and representable value: the round trip succeeds *)
      && (if (D <=? 28) && repr_b num D
          then is_fsome f && match bk with BRes (Ok v) => v =? num | _ => false end
          else true)
  | Back k d decimals bk =>
      let T := back_target d decimals in
      match bk with
      | BRes (Ok v) => (v =? T) && back_range k v
      | BRes (Err e) =>
          if e =? 1 then ((dm d =? 0) && (67 <=? decimals)) || negb (in_s 128 T)
          else if e =? 3 then in_s 128 T && negb (back_range k T)
          else false
      | _ => false
      end
  end.

(* ---------- known-finding classes (see notes/C43.md, known/C43.json) ----------
   All are stated by explicit arithmetic on the case, not through the model. *)
Fixpoint digits10 (fuel : nat) (n : Z) : Z :=       (* number of decimal digits - 1 *)
  match fuel with O => 0 | S f => if n <? 10 then 0 else 1 + digits10 f (n / 10) end.
Definition lost_digits (a : Z) : Z := digits10 40 a - 27.   (* scale_diff of the > 96-bit path *)
Definition sign_of (num v : Z) : Z := if num <? 0 then - v else v.

Definition known_b (c : case) : Z :=
  match c with
  | Rt k num decimals f bk =>
      let D := dec_of_kind k decimals in
      let a := Z.abs num in
      if ((k =? 0) || (k =? 1) || (k =? 4) || (k =? 5)) && (M96 <? a) then
        let sd := lost_digits a in
        match f with
        | FSome d =>
            if (dm d =? a / 10 ^ sd) && (dsc d =? D - sd) && Bool.eqb (dneg d) (num <? 0)
               && negb (a mod 10 ^ sd =? 0)
            then (* class 1: digits below 10^sd silently dropped *)
              match bk with
              | BRes (Ok v) => if v =? sign_of num (a - a mod 10 ^ sd) then 1 else 0
              | BRes (Err 1) => 1
              | _ => 0
              end
            else if exact_b d num D && (I128_MAX <? num) then
              (* class 5: exact Decimal, but the way back goes through i128 *)
              match bk with BRes (Err 1) => 5 | _ => 0 end
            else 0
        | FPanic => 0   (* class 3 (from_i128_with_scale with a scale above 28) is fixed: any panic is a violation *)
        | FNone =>
            (* class 4: representable large value rejected because decimals < dropped digits *)
            if (D <? sd) && (D <=? 28) && repr_b num D then match bk with BNA => 4 | _ => 0 end else 0
        end
      else if ((k =? 2) || (k =? 3)) && (28 <? decimals) then
        (* class 2: amounts with more than 28 decimals are divided, or flushed to zero *)
        let sd := decimals - 28 in
        match f with
        | FSome d =>
            if 19 <? sd then
              if (dm d =? 0) && (dsc d =? 0) && negb (num =? 0)
              then match bk with BRes (Ok 0) => 2 | BRes (Err 1) => 2 | _ => 0 end else 0
            else
              if (dm d =? a / 10 ^ sd) && (dsc d =? 28) && negb (a mod 10 ^ sd =? 0)
              then match bk with
                   | BRes (Ok v) => if v =? sign_of num (a - a mod 10 ^ sd) then 2 else 0
                   | _ => 0
                   end
              else 0
        | _ => 0
        end
      else 0
  | Back k d decimals bk => 0   (* class 6 (panic while formatting the error) is fixed: any panic is a violation *)
  end.
