(* C43 — lemmas about the model of fixed.rs / rust_decimal. *)
From GV Require Import lib.Base lib.DivLemmas C01.Proofs C43.Model.
Open Scope Z_scope.

Ltac Zify.zify_post_hook ::= Z.div_mod_to_equations.

(* ---------- constants ---------- *)
Lemma MAX_REPR_val : MAX_REPR = 79228162514264337593543950335.
Proof. reflexivity. Qed.
Lemma TARGET_SCALE_val : TARGET_SCALE = 27.
Proof. vm_compute. reflexivity. Qed.
Lemma pow10_28_le_max : 10 ^ 28 <= MAX_REPR.
Proof. vm_compute. discriminate. Qed.

Lemma pow10_pos k : 0 <= k -> 0 < 10 ^ k.
Proof. intros; apply Z.pow_pos_nonneg; lia. Qed.

(* ---------- ilog10 ---------- *)
Lemma ilog10_fuel_spec fuel : forall n, 1 <= n < 10 ^ Z.of_nat fuel ->
  0 <= ilog10_fuel fuel n < Z.of_nat fuel /\
  10 ^ ilog10_fuel fuel n <= n < 10 ^ (ilog10_fuel fuel n + 1).
Proof.
  induction fuel as [|f IH]; intros n Hn.
  - cbn in Hn. lia.
  - cbn [ilog10_fuel]. destruct (n <? 10) eqn:E.
    + apply Z.ltb_lt in E. cbn. lia.
    + apply Z.ltb_ge in E.
      assert (Hf : 1 <= Z.of_nat f).
      { destruct f; [cbn in Hn; lia | lia]. }
      assert (Hn' : 1 <= n / 10 < 10 ^ Z.of_nat f).
      { split. - apply Z.div_le_lower_bound; lia.
        - apply Z.div_lt_upper_bound; [lia|].
          replace (Z.of_nat (S f)) with (Z.of_nat f + 1) in Hn by lia.
          rewrite Z.pow_add_r in Hn by lia. lia. }
      destruct (IH _ Hn') as [Hr [Hlo Hhi]].
      set (l := ilog10_fuel f (n / 10)) in *.
      split; [lia|].
      replace (1 + l + 1) with ((l + 1) + 1) by lia.
      replace (1 + l) with (l + 1) by lia.
      rewrite (Z.pow_add_r 10 (l + 1) 1) by lia.
      rewrite (Z.pow_add_r 10 l 1) in * by lia.
      change (10 ^ 1) with 10 in *. lia.
Qed.

Lemma ilog10_spec n : 1 <= n < 2 ^ 128 ->
  0 <= ilog10 n <= 38 /\ 10 ^ ilog10 n <= n < 10 ^ (ilog10 n + 1).
Proof.
  intros Hn. unfold ilog10.
  assert (H : 1 <= n < 10 ^ Z.of_nat 40).
  { split; [lia|]. assert (2 ^ 128 < 10 ^ Z.of_nat 40) by (vm_compute; reflexivity). lia. }
  destruct (ilog10_fuel_spec 40 n H) as [Hr Hb]. split; [|exact Hb].
  set (l := ilog10_fuel 40 n) in *.
  destruct (Z_le_gt_dec l 38) as [|Hgt]; [lia|].
  exfalso. assert (10 ^ 39 <= 10 ^ l) by (apply Z.pow_le_mono_r; lia).
  assert (2 ^ 128 < 10 ^ 39) by (vm_compute; reflexivity). lia.
Qed.

Lemma ilog10_large n : MAX_REPR < n < 2 ^ 128 -> 28 <= ilog10 n <= 38.
Proof.
  intros Hn. destruct (ilog10_spec n) as [Hr [Hlo Hhi]]; [rewrite MAX_REPR_val in Hn; lia|].
  split; [|lia].
  destruct (Z_le_gt_dec 28 (ilog10 n)) as [|Hlt]; [lia|].
  exfalso. assert (10 ^ (ilog10 n + 1) <= 10 ^ 28) by (apply Z.pow_le_mono_r; lia).
  pose proof pow10_28_le_max. lia.
Qed.

(* ---------- rescale: scale-down loop ---------- *)
Definition rd_finish (t : Z * Z * bool) : Z :=
  match t with (m', rem, early) => if early then m' else if 5 <=? rem then m' + 1 else m' end.

Definition round_digit (m rem : Z) (n : nat) : Z :=
  match n with O => rem | S k => (m / 10 ^ Z.of_nat k) mod 10 end.

Lemma rescale_down_loop_spec n : forall m rem, 0 <= m ->
  rd_finish (rescale_down_loop n m rem) =
  m / 10 ^ Z.of_nat n + (if 5 <=? round_digit m rem n then 1 else 0).
Proof.
  induction n as [|k IH]; intros m rem Hm.
  - cbn [rescale_down_loop rd_finish round_digit]. change (10 ^ Z.of_nat 0) with 1.
    rewrite Z.div_1_r. destruct (5 <=? rem); lia.
  - cbn [rescale_down_loop]. destruct (m =? 0) eqn:E.
    + apply Z.eqb_eq in E. subst m. cbn [rd_finish round_digit].
      rewrite !Z.div_0_l by (apply Z.pow_nonzero; lia). cbn. reflexivity.
    + apply Z.eqb_neq in E.
      rewrite IH by (apply Z.div_pos; lia).
      replace (Z.of_nat (S k)) with (1 + Z.of_nat k) by lia.
      rewrite Z.pow_add_r by lia. change (10 ^ 1) with 10.
      rewrite Z.div_div by (try apply pow10_pos; lia).
      f_equal. destruct k as [|j].
      * cbn [round_digit]. change (10 ^ Z.of_nat 0) with 1. rewrite Z.div_1_r. reflexivity.
      * cbn [round_digit].
        replace (Z.of_nat (S j)) with (1 + Z.of_nat j) by lia.
        rewrite Z.pow_add_r by lia. change (10 ^ 1) with 10.
        rewrite Z.div_div by (try apply pow10_pos; lia). reflexivity.
Qed.

(* closed form: floor plus one when the first dropped digit is >= 5 *)
Lemma rescale_down_closed m diff : 0 <= m < 2 ^ 96 -> 1 <= diff ->
  rescale_down m diff = m / 10 ^ diff + (if 5 <=? (m / 10 ^ (diff - 1)) mod 10 then 1 else 0).
Proof.
  intros Hm Hd. unfold rescale_down.
  pose proof (rescale_down_loop_spec (Z.to_nat diff) m 0 (proj1 Hm)) as H.
  destruct (Z.to_nat diff) as [|k] eqn:Ek; [lia|].
  assert (Hk : Z.of_nat k = diff - 1) by lia.
  assert (HS : Z.of_nat (S k) = diff) by lia.
  rewrite HS in H. cbn [round_digit] in H. rewrite Hk in H.
  assert (Hq : 0 <= m / 10 ^ diff <= m / 10).
  { split; [apply Z.div_pos; [lia|apply pow10_pos; lia]|].
    apply Z.div_le_compat_l; [lia|]. split; [lia|].
    replace diff with (1 + (diff - 1)) by lia. rewrite Z.pow_add_r by lia.
    pose proof (pow10_pos (diff - 1)). change (10 ^ 1) with 10. lia. }
  destruct (rescale_down_loop (S k) m 0) as [[m' rem] early].
  cbn [rd_finish] in H. rewrite <- H.
  destruct early; [reflexivity|].
  destruct (5 <=? rem) eqn:E5; [|reflexivity].
  (* no wrap: m' + 1 <= m/10 + 1 < 2^96 *)
  destruct (5 <=? (m / 10 ^ (diff - 1)) mod 10); apply Z.mod_small; lia.
Qed.

(* first dropped digit >= 5  <->  dropped part is at least half a unit *)
Lemma half_up_digit m diff : 0 <= m -> 1 <= diff ->
  (5 <=? (m / 10 ^ (diff - 1)) mod 10) = (10 ^ diff <=? 2 * (m mod 10 ^ diff)).
Proof.
  intros Hm Hd.
  set (p := 10 ^ (diff - 1)).
  assert (Hp : 0 < p) by (apply pow10_pos; lia).
  assert (E : 10 ^ diff = 10 * p).
  { unfold p. replace diff with (1 + (diff - 1)) at 1 by lia. rewrite Z.pow_add_r by lia. reflexivity. }
  rewrite E.
  assert (Hmod : m mod (10 * p) = ((m / p) mod 10) * p + m mod p).
  { rewrite (Z.mul_comm 10 p). rewrite Z.rem_mul_r by lia. lia. }
  rewrite Hmod.
  pose proof (Z.mod_pos_bound m p Hp). pose proof (Z.mod_pos_bound (m / p) 10 ltac:(lia)).
  destruct (5 <=? (m / p) mod 10) eqn:E5; symmetry.
  - apply Z.leb_le in E5. apply Z.leb_le. nia.
  - apply Z.leb_gt in E5. apply Z.leb_gt. nia.
Qed.

(* ---------- rescale: scale-up loop ---------- *)
Lemma rescale_up_loop_spec n : forall m, 0 < m < 2 ^ 96 ->
  exists j, 0 <= j <= Z.of_nat n /\
    rescale_up_loop n m = (m * 10 ^ j, Z.of_nat n - j) /\
    m * 10 ^ j < 2 ^ 96 /\
    (j < Z.of_nat n -> 2 ^ 96 <= m * 10 ^ j * 10).
Proof.
  induction n as [|k IH]; intros m Hm.
  - exists 0. cbn. split; [lia|]. split; [f_equal; lia|]. split; lia.
  - cbn [rescale_up_loop]. destruct (m * 10 <? 2 ^ 96) eqn:E.
    + apply Z.ltb_lt in E. destruct (IH (m * 10) ltac:(lia)) as [j [Hj [Hl [Hb Hs]]]].
      exists (j + 1). rewrite Z.pow_add_r by lia. change (10 ^ 1) with 10.
      replace (m * (10 ^ j * 10)) with (m * 10 * 10 ^ j) by ring.
      split; [lia|]. split; [rewrite Hl; f_equal; lia|]. split; [lia|]. intros; apply Hs; lia.
    + apply Z.ltb_ge in E. exists 0. change (10 ^ 0) with 1. rewrite Z.mul_1_r.
      split; [lia|]. split; [f_equal; lia|]. split; [lia|]. intros; lia.
Qed.

(* ---------- backward direction ---------- *)
Definition valid (d : dec) : Prop := 0 <= dm d < 2 ^ 96 /\ 0 <= dsc d <= 28.

(* the exact image: mantissa * 10^(decimals - scale), or half-up rounding when digits are dropped *)
Definition half_up (mant drop : Z) : Z :=
  let q := Z.abs mant / 10 ^ drop + (if 10 ^ drop <=? 2 * (Z.abs mant mod 10 ^ drop) then 1 else 0) in
  if mant <? 0 then - q else q.
Definition target (d : dec) (decimals : Z) : Z :=
  if dsc d <=? decimals then mantissa d * 10 ^ (decimals - dsc d)
  else half_up (mantissa d) (dsc d - decimals).

Lemma i128_pow10_some k : 0 <= k -> forall v, i128_pow10 k = Some v <-> (v = 10 ^ k /\ 10 ^ k < 2 ^ 127).
Proof.
  intros Hk v. unfold i128_pow10. rewrite chk_s_some. change (128 - 1) with 127.
  pose proof (pow10_pos k Hk). split; intros; (split; [lia|]); lia.
Qed.

Lemma abs_mantissa d : 0 <= dm d -> Z.abs (mantissa d) = dm d.
Proof. unfold mantissa. destruct (dneg d); lia. Qed.

Lemma mantissa_neg d : 0 <= dm d -> (mantissa d <? 0) = dneg d && negb (dm d =? 0).
Proof.
  unfold mantissa. intros. destruct (dneg d); cbn [andb negb].
  - destruct (dm d =? 0) eqn:E; [apply Z.eqb_eq in E | apply Z.eqb_neq in E]; cbn; [apply Z.ltb_ge | apply Z.ltb_lt]; lia.
  - apply Z.ltb_ge; lia.
Qed.

Theorem rescale_to_mantissa_spec d decimals : valid d -> 0 <= decimals <= 255 ->
  rescale_to_mantissa d decimals =
    if (dm d =? 0) && (67 <=? decimals) then Err 1
    else if in_s 128 (target d decimals) then Ok (target d decimals) else Err 1.
Proof.
  intros [Hm Hs] Hd. unfold rescale_to_mantissa, rescale, target.
  destruct (dsc d =? decimals) eqn:Eeq.
  { (* same scale: untouched *)
    apply Z.eqb_eq in Eeq. rewrite Eeq, Z.ltb_irrefl, Z.eqb_refl, Z.leb_refl.
    replace (decimals - decimals) with 0 by lia. rewrite Z.mul_1_r.
    replace ((dm d =? 0) && (67 <=? decimals)) with false
      by (symmetry; apply andb_false_intro2; apply Z.leb_gt; lia).
    replace (in_s 128 (mantissa d)) with true; [reflexivity|].
    symmetry. unfold in_s, mantissa. change (128 - 1) with 127.
    assert (2 ^ 96 < 2 ^ 127) by (vm_compute; reflexivity).
    destruct (dneg d); apply andb_true_intro; split; (apply Z.leb_le || apply Z.ltb_lt); lia. }
  apply Z.eqb_neq in Eeq.
  destruct (dm d =? 0) eqn:Ez.
  { (* zero: scale becomes min(decimals, 28) *)
    apply Z.eqb_eq in Ez. cbn [andb].
    assert (Hmant : mantissa d = 0) by (unfold mantissa; destruct (dneg d); lia).
    assert (Ht : (if dsc d <=? decimals then mantissa d * 10 ^ (decimals - dsc d)
                  else half_up (mantissa d) (dsc d - decimals)) = 0).
    { rewrite Hmant. destruct (dsc d <=? decimals) eqn:El; [lia|]. apply Z.leb_gt in El.
      unfold half_up. cbn [Z.abs]. rewrite Z.div_0_l, Z.mod_0_l by (apply Z.pow_nonzero; lia).
      replace (10 ^ (dsc d - decimals) <=? 2 * 0) with false; [reflexivity|].
      symmetry. apply Z.leb_gt. pose proof (pow10_pos (dsc d - decimals)). lia. }
    rewrite Ht. change (in_s 128 0) with true. cbn match.
    unfold mantissa. cbn [dsc dneg dm].
    replace (if dneg d then - 0 else 0) with 0 by (destruct (dneg d); reflexivity).
    unfold MAX_SCALE.
    destruct (Z_le_gt_dec decimals 28) as [Hle|Hgt].
    - rewrite Z.min_l by lia. rewrite Z.ltb_irrefl, Z.eqb_refl.
      replace (67 <=? decimals) with false by (symmetry; apply Z.leb_gt; lia). reflexivity.
    - rewrite Z.min_r by lia.
      replace (28 <? decimals) with true by (symmetry; apply Z.ltb_lt; lia).
      destruct (67 <=? decimals) eqn:E67.
      + apply Z.leb_le in E67.
        replace (i128_pow10 (decimals - 28)) with (@None Z); [reflexivity|].
        symmetry. unfold i128_pow10. apply chk_s_none. right. change (128 - 1) with 127.
        assert (10 ^ 39 <= 10 ^ (decimals - 28)) by (apply Z.pow_le_mono_r; lia).
        assert (2 ^ 127 < 10 ^ 39) by (vm_compute; reflexivity). lia.
      + apply Z.leb_gt in E67.
        assert (Hp : i128_pow10 (decimals - 28) = Some (10 ^ (decimals - 28))).
        { apply i128_pow10_some; [lia|]. split; [reflexivity|].
          assert (10 ^ (decimals - 28) <= 10 ^ 38) by (apply Z.pow_le_mono_r; lia).
          assert (10 ^ 38 < 2 ^ 127) by (vm_compute; reflexivity). lia. }
        rewrite Hp. cbn [obind]. unfold smul. rewrite Z.mul_0_l. reflexivity. }
  apply Z.eqb_neq in Ez. cbn [andb].
  destruct (decimals <? dsc d) eqn:Edn.
  { (* scale down: always reaches the requested scale; half-up rounding *)
    apply Z.ltb_lt in Edn. cbn [dsc mantissa dneg dm].
    rewrite Z.ltb_irrefl, Z.eqb_refl.
    replace (dsc d <=? decimals) with false by (symmetry; apply Z.leb_gt; lia).
    set (diff := dsc d - decimals).
    rewrite rescale_down_closed by lia.
    rewrite half_up_digit by lia.
    unfold half_up. rewrite abs_mantissa by lia.
    set (q := dm d / 10 ^ diff + (if 10 ^ diff <=? 2 * (dm d mod 10 ^ diff) then 1 else 0)).
    assert (Hq : 0 <= q <= dm d).
    { subst q. pose proof (pow10_pos diff ltac:(lia)).
      assert (10 <= 10 ^ diff).
      { replace diff with (1 + (diff - 1)) by lia. rewrite Z.pow_add_r by lia.
        pose proof (pow10_pos (diff - 1)). change (10 ^ 1) with 10. lia. }
      destruct (10 ^ diff <=? 2 * (dm d mod 10 ^ diff)) eqn:E; [apply Z.leb_le in E|]; nia. }
    assert (H96 : 2 ^ 96 < 2 ^ 127) by (vm_compute; reflexivity).
    assert (Hsame : (if dneg d then - q else q) = (if mantissa d <? 0 then - q else q)).
    { rewrite mantissa_neg by lia. replace (dm d =? 0) with false by (symmetry; apply Z.eqb_neq; lia).
      rewrite andb_true_r. reflexivity. }
    rewrite <- Hsame.
    replace (in_s 128 (if dneg d then - q else q)) with true; [reflexivity|].
    symmetry. unfold in_s. change (128 - 1) with 127.
    destruct (dneg d); apply andb_true_intro; split; (apply Z.leb_le || apply Z.ltb_lt); lia. }
  (* scale up *)
  apply Z.ltb_ge in Edn. assert (Hlt : dsc d < decimals) by lia.
  replace (dsc d <=? decimals) with true by (symmetry; apply Z.leb_le; lia).
  destruct (rescale_up_loop_spec (Z.to_nat (decimals - dsc d)) (dm d) ltac:(lia)) as [j [Hj [Hl [Hb Hstop]]]].
  rewrite Hl. cbn [dsc mantissa dneg dm].
  rewrite Z2Nat.id in * by lia.
  set (k := decimals - dsc d) in *.
  replace (decimals - (k - j)) with (dsc d + j) by lia.
  set (sm := if dneg d then - (dm d * 10 ^ j) else dm d * 10 ^ j).
  assert (Hmant : mantissa d * 10 ^ k = sm * 10 ^ (k - j)).
  { subst sm. unfold mantissa. replace k with (j + (k - j)) at 1 by lia.
    rewrite Z.pow_add_r by lia. destruct (dneg d); ring. }
  rewrite Hmant.
  assert (Hm2 : forall s, mantissa {| dneg := dneg d; dm := dm d * 10 ^ j; dsc := s |} = sm) by reflexivity.
  rewrite !Hm2.
  destruct (Z.eq_dec j k) as [Ejk|Ejk].
  - (* reached the requested scale *)
    replace (dsc d + j <? decimals) with false by (symmetry; apply Z.ltb_ge; lia).
    replace (dsc d + j =? decimals) with true by (symmetry; apply Z.eqb_eq; lia).
    replace (k - j) with 0 by lia. rewrite Z.mul_1_r.
    replace (in_s 128 sm) with true; [reflexivity|].
    symmetry. unfold in_s. change (128 - 1) with 127.
    assert (H96 : 2 ^ 96 < 2 ^ 127) by (vm_compute; reflexivity).
    assert (0 <= dm d * 10 ^ j) by (pose proof (pow10_pos j); nia).
    subst sm. destruct (dneg d); apply andb_true_intro; split; (apply Z.leb_le || apply Z.ltb_lt); lia.
  - (* stopped early: compensation in i128 *)
    replace (dsc d + j <? decimals) with true by (symmetry; apply Z.ltb_lt; lia).
    replace (decimals - (dsc d + j)) with (k - j) by lia.
    unfold i128_pow10, smul. change (128 - 1) with 127.
    assert (Hp : 0 < 10 ^ (k - j)) by (apply pow10_pos; lia).
    assert (Hsm : 1 <= Z.abs sm) by (subst sm; pose proof (pow10_pos j); destruct (dneg d); nia).
    destruct (chk_s 128 (10 ^ (k - j))) as [p|] eqn:Ep.
    + apply chk_s_some in Ep. destruct Ep as [_ ->]. cbn [obind].
      unfold chk_s. destruct (in_s 128 (sm * 10 ^ (k - j))); reflexivity.
    + cbn [obind of_opt]. apply chk_s_none in Ep. change (128 - 1) with 127 in Ep.
      replace (in_s 128 (sm * 10 ^ (k - j))) with false; [reflexivity|].
      symmetry. unfold in_s. change (128 - 1) with 127.
      set (P := 10 ^ (k - j)) in *. assert (HP : 2 ^ 127 < P).
      { assert (P = 10 * 10 ^ (k - j - 1)).
        { subst P. replace (k - j) with (1 + (k - j - 1)) at 1 by lia. rewrite Z.pow_add_r by lia. reflexivity. }
        lia. }
      clearbody sm P. clear Hmant Hm2 Ep.
      destruct (Z_le_gt_dec 0 sm).
      * apply andb_false_intro2. apply Z.ltb_ge.
        assert (1 <= sm) by lia. assert (0 <= (sm - 1) * P) by (apply Z.mul_nonneg_nonneg; lia). lia.
      * apply andb_false_intro1. apply Z.leb_gt.
        assert (sm <= -1) by lia. assert (0 <= (- sm - 1) * P) by (apply Z.mul_nonneg_nonneg; lia). lia.
Qed.

(* a magnitude of at least 28 digits can be multiplied by ten at most once *)
Lemma rescale_scale_bound d Dk : valid d -> dsc d <= Dk -> 10 ^ 27 <= dm d ->
  dsc (rescale d Dk) <= dsc d + 1.
Proof.
  intros [Hm Hs] HD Hbig. unfold rescale.
  destruct (dsc d =? Dk) eqn:E1; [lia|]. apply Z.eqb_neq in E1.
  destruct (dm d =? 0) eqn:E2; [apply Z.eqb_eq in E2; assert (0 < 10 ^ 27) by (vm_compute; reflexivity); lia|].
  replace (Dk <? dsc d) with false by (symmetry; apply Z.ltb_ge; lia).
  assert (H27 : 0 < 10 ^ 27) by (vm_compute; reflexivity).
  destruct (rescale_up_loop_spec (Z.to_nat (Dk - dsc d)) (dm d) ltac:(lia)) as [j [Hj [Hl [Hb Hstop]]]].
  rewrite Hl. cbn [dsc]. rewrite Z2Nat.id in * by lia.
  destruct (Z_le_gt_dec j 1); [lia|]. exfalso.
  assert (10 ^ 2 <= 10 ^ j) by (apply Z.pow_le_mono_r; lia).
  assert (2 ^ 96 < 10 ^ 27 * 10 ^ 2) by (vm_compute; reflexivity). nia.
Qed.

(* the backward direction never panics *)
Theorem back_never_panics d decimals : valid d -> 0 <= decimals <= 255 ->
  rescale_to_mantissa d decimals <> Err E_PANIC.
Proof.
  intros Hv Hd. rewrite rescale_to_mantissa_spec by assumption.
  destruct ((dm d =? 0) && (67 <=? decimals)); [discriminate|].
  destruct (in_s 128 (target d decimals)); discriminate.
Qed.

(* the scale [rescale] reaches when scaling up: as many multiplications by ten as fit 96 bits *)
Lemma rescale_up_scale d decimals : valid d -> dm d <> 0 -> dsc d < decimals ->
  exists j, 0 <= j /\ dsc (rescale d decimals) = dsc d + j /\ dsc d + j <= decimals /\
            dm d * 10 ^ j < 2 ^ 96 /\ (dsc d + j < decimals -> 2 ^ 96 <= dm d * 10 ^ (j + 1)).
Proof.
  intros [Hm Hs] Hz Hlt. unfold rescale.
  replace (dsc d =? decimals) with false by (symmetry; apply Z.eqb_neq; lia).
  replace (dm d =? 0) with false by (symmetry; apply Z.eqb_neq; lia).
  replace (decimals <? dsc d) with false by (symmetry; apply Z.ltb_ge; lia).
  destruct (rescale_up_loop_spec (Z.to_nat (decimals - dsc d)) (dm d) ltac:(lia)) as [j [Hj [Hl [Hb Hstop]]]].
  rewrite Hl. cbn [dsc]. rewrite Z2Nat.id in * by lia.
  exists j. split; [lia|]. split; [lia|]. split; [lia|]. split; [exact Hb|].
  intros Hlt'. rewrite Z.pow_add_r by lia. change (10 ^ 1) with 10. rewrite Z.mul_assoc. apply Hstop. lia.
Qed.

(* ---------- forward direction ---------- *)
(* number of low decimal digits that the > 96-bit path removes *)
Definition lost (a : Z) : Z := ilog10 a - 27.

Lemma lost_quot_big a : MAX_REPR < a < 2 ^ 128 -> 10 ^ 27 <= a / 10 ^ lost a.
Proof.
  intros Ha. unfold lost. pose proof (ilog10_large a Ha) as Hl.
  destruct (ilog10_spec a) as [_ [Hlo Hhi]]; [rewrite MAX_REPR_val in Ha; lia|].
  set (sd := ilog10 a - 27) in *.
  assert (Hp : 0 < 10 ^ sd) by (apply pow10_pos; lia).
  apply Z.div_le_lower_bound; [lia|].
  rewrite <- Z.pow_add_r by lia. replace (sd + 27) with (ilog10 a) by lia. lia.
Qed.

Lemma lost_range a : MAX_REPR < a < 2 ^ 128 -> 1 <= lost a <= 11 /\ 0 < a / 10 ^ lost a < 10 ^ 28.
Proof.
  intros Ha. unfold lost. pose proof (ilog10_large a Ha) as Hl.
  destruct (ilog10_spec a) as [_ [Hlo Hhi]]; [rewrite MAX_REPR_val in Ha; lia|].
  split; [lia|]. set (sd := ilog10 a - 27) in *.
  assert (Hp : 0 < 10 ^ sd) by (apply pow10_pos; lia).
  split.
  - apply Z.div_str_pos. split; [lia|].
    assert (10 ^ sd <= 10 ^ ilog10 a) by (apply Z.pow_le_mono_r; lia). lia.
  - apply Z.div_lt_upper_bound; [lia|].
    rewrite <- Z.pow_add_r by lia. replace (sd + 28) with (ilog10 a + 1) by lia. lia.
Qed.

Lemma ufixed_small a D : 0 <= a <= MAX_REPR -> 0 <= D ->
  unsigned_fixed_to_decimal a D = if D <=? 28 then FSome (mkDec false a D) else FNone.
Proof.
  intros Ha HD. unfold unsigned_fixed_to_decimal, try_from_i128_with_scale, MAX_SCALE.
  replace (MAX_REPR <? a) with false by (symmetry; apply Z.ltb_ge; lia).
  replace (a <? - MAX_REPR) with false by (symmetry; apply Z.ltb_ge; rewrite MAX_REPR_val in *; lia).
  destruct (D <=? 28) eqn:E; [apply Z.leb_le in E | apply Z.leb_gt in E].
  - replace (28 <? D) with false by (symmetry; apply Z.ltb_ge; lia).
    replace (a <? 0) with false by (symmetry; apply Z.ltb_ge; lia). rewrite Z.abs_eq by lia. reflexivity.
  - replace (28 <? D) with true by (symmetry; apply Z.ltb_lt; lia). reflexivity.
Qed.

Lemma ufixed_large a D : MAX_REPR < a < 2 ^ 128 -> 0 <= D ->
  unsigned_fixed_to_decimal a D =
    if D <? lost a then FNone
    else if 28 <? D - lost a then FNone
    else FSome (mkDec false (a / 10 ^ lost a) (D - lost a)).
Proof.
  intros Ha HD. destruct (lost_range a Ha) as [Hsd Hq]. pose proof (ilog10_large a Ha) as Hl.
  unfold unsigned_fixed_to_decimal, convert_by_change_the_scale.
  replace (MAX_REPR <? a) with true by (symmetry; apply Z.ltb_lt; lia).
  rewrite TARGET_SCALE_val. fold (lost a).
  replace (ilog10 a <? 27) with false by (symmetry; apply Z.ltb_ge; lia).
  destruct (D <? lost a); [reflexivity|].
  replace (38 <? lost a) with false by (symmetry; apply Z.ltb_ge; lia).
  unfold try_from_i128_with_scale, MAX_SCALE.
  destruct (28 <? D - lost a); [reflexivity|].
  pose proof pow10_28_le_max.
  replace (MAX_REPR <? a / 10 ^ lost a) with false by (symmetry; apply Z.ltb_ge; lia).
  replace (a / 10 ^ lost a <? - MAX_REPR) with false by (symmetry; apply Z.ltb_ge; lia).
  replace (a / 10 ^ lost a <? 0) with false by (symmetry; apply Z.ltb_ge; lia).
  rewrite Z.abs_eq by lia. reflexivity.
Qed.

(* ---------- the six round trips through one "core" on magnitudes ---------- *)
Definition sign_of (num v : Z) : Z := if num <? 0 then - v else v.

Definition core (k a D : Z) : fwd :=
  if (k =? 0) || (k =? 1) then unsigned_fixed_to_decimal a D
  else if (k =? 2) || (k =? 3) then unsigned_amount_to_decimal a D
  else expect (unsigned_fixed_to_decimal a MARKET_DECIMALS).

Lemma expect_fwd_neg b f : expect (fwd_neg b f) = fwd_neg b (expect f).
Proof. destruct f; reflexivity. Qed.

Lemma forward_core k num D : 0 <= k <= 5 -> kind_in_range k num = true ->
  forward k num D = fwd_neg (num <? 0) (core k (Z.abs num) D).
Proof.
  intros Hk Hr. unfold forward, core, kind_in_range in *.
  assert (Hu : forall w, in_u w num = true -> (num <? 0) = false /\ Z.abs num = num).
  { intros w H. unfold in_u in H. apply andb_prop in H. destruct H as [H _]. apply Z.leb_le in H.
    split; [apply Z.ltb_ge; lia | lia]. }
  assert (Hid : forall f, fwd_neg false f = f) by (intros []; reflexivity).
  destruct (k =? 0) eqn:E0; cbn [orb] in *.
  { destruct (Hu _ Hr) as [-> ->]. rewrite Hid. reflexivity. }
  destruct (k =? 1) eqn:E1; cbn [orb] in *; [reflexivity|].
  destruct (k =? 2) eqn:E2; cbn [orb] in *.
  { destruct (k =? 4) eqn:E4; [lia|]. cbn [orb] in Hr. destruct (k =? 5) eqn:E5; [lia|].
    destruct (Hu _ Hr) as [-> ->]. rewrite Hid. reflexivity. }
  destruct (k =? 3) eqn:E3; cbn [orb] in *; [reflexivity|].
  destruct (k =? 4) eqn:E4; cbn [orb] in *.
  { destruct (Hu _ Hr) as [-> ->]. rewrite Hid. reflexivity. }
  unfold signed_value_to_decimal, signed_fixed_to_decimal. apply expect_fwd_neg.
Qed.

(* digits dropped by the forward conversion of kind k *)
Definition drop (k a D : Z) : Z :=
  if (k =? 2) || (k =? 3) then (if 28 <? D then D - 28 else 0)
  else (if MAX_REPR <? a then lost a else 0).

Definition mag_range (k a : Z) : Prop :=
  0 <= a /\ (if (k =? 2) || (k =? 3) then a <= 2 ^ 63 \/ (k = 2 /\ a < 2 ^ 64)
             else a <= 2 ^ 127 \/ ((k = 0 \/ k = 4) /\ a < 2 ^ 128)).

Lemma kind_mag_range k num : 0 <= k <= 5 -> kind_in_range k num = true -> mag_range k (Z.abs num).
Proof.
  intros Hk Hr. unfold kind_in_range, mag_range, in_u, in_s in *. split; [lia|].
  change (128 - 1) with 127 in Hr. change (64 - 1) with 63 in Hr.
  destruct (k =? 0) eqn:E0; cbn [orb] in *.
  { apply Z.eqb_eq in E0. subst. cbn. apply andb_prop in Hr. destruct Hr as [H1 H2].
    apply Z.leb_le in H1. apply Z.ltb_lt in H2. right. split; lia. }
  destruct (k =? 4) eqn:E4; cbn [orb] in *.
  { apply Z.eqb_eq in E4. subst. cbn. apply andb_prop in Hr. destruct Hr as [H1 H2].
    apply Z.leb_le in H1. apply Z.ltb_lt in H2. right. split; lia. }
  destruct (k =? 1) eqn:E1; cbn [orb] in *.
  { apply Z.eqb_eq in E1. subst. cbn. apply andb_prop in Hr. destruct Hr as [H1 H2].
    apply Z.leb_le in H1. apply Z.ltb_lt in H2. left. lia. }
  destruct (k =? 5) eqn:E5; cbn [orb] in *.
  { apply Z.eqb_eq in E5. subst. cbn. apply andb_prop in Hr. destruct Hr as [H1 H2].
    apply Z.leb_le in H1. apply Z.ltb_lt in H2. left. lia. }
  destruct (k =? 2) eqn:E2; cbn [orb] in *.
  { apply Z.eqb_eq in E2. subst. apply andb_prop in Hr. destruct Hr as [H1 H2].
    apply Z.leb_le in H1. apply Z.ltb_lt in H2. right. split; lia. }
  assert (k = 3) by lia. subst. cbn. apply andb_prop in Hr. destruct Hr as [H1 H2].
  apply Z.leb_le in H1. apply Z.ltb_lt in H2. left. lia.
Qed.

(* what the core returns: exactly one of three outcomes *)
Inductive core_out (k a D : Z) : fwd -> Prop :=
| CoNone : (k = 0 \/ k = 1) ->
    (a <= MAX_REPR /\ 28 < D) \/ (MAX_REPR < a /\ (D < lost a \/ 28 < D - lost a)) -> core_out k a D FNone
| CoSome m s : m = a / 10 ^ drop k a D -> 0 <= m < 2 ^ 96 -> 0 <= s <= 28 ->
    s <= kind_decimals k D -> (s = kind_decimals k D - drop k a D \/ (m = 0 /\ 47 < D /\ (k = 2 \/ k = 3))) ->
    0 <= drop k a D ->
    core_out k a D (FSome (mkDec false m s)).

Lemma div_pow_small a x : 0 <= a -> 0 <= x -> a < 10 ^ x -> a / 10 ^ x = 0.
Proof. intros. apply Z.div_small. lia. Qed.

Lemma core_spec k a D : 0 <= k <= 5 -> mag_range k a -> 0 <= D <= 255 -> core_out k a D (core k a D).
Proof.
  intros Hk [Ha Hr] HD. unfold core.
  assert (H96 : MAX_REPR + 1 = 2 ^ 96) by reflexivity.
  assert (H64 : 2 ^ 64 < MAX_REPR) by (vm_compute; reflexivity).
  assert (H127 : 2 ^ 127 < 2 ^ 128) by (vm_compute; reflexivity).
  destruct ((k =? 0) || (k =? 1)) eqn:E01.
  { (* fixed *)
    assert (Hk01 : k = 0 \/ k = 1) by (apply orb_prop in E01; destruct E01 as [E|E]; apply Z.eqb_eq in E; lia).
    assert (E23 : (k =? 2) || (k =? 3) = false).
    { apply orb_false_intro; apply Z.eqb_neq; lia. }
    rewrite E23 in Hr.
    assert (Hkd : kind_decimals k D = D).
    { unfold kind_decimals. replace (k =? 4) with false by (symmetry; apply Z.eqb_neq; lia).
      replace (k =? 5) with false by (symmetry; apply Z.eqb_neq; lia). reflexivity. }
    assert (Hdrop : drop k a D = if MAX_REPR <? a then lost a else 0) by (unfold drop; rewrite E23; reflexivity).
    destruct (Z_le_gt_dec a MAX_REPR) as [Hs|Hl].
    - rewrite ufixed_small by lia.
      destruct (D <=? 28) eqn:E; [apply Z.leb_le in E | apply Z.leb_gt in E].
      + replace (MAX_REPR <? a) with false in Hdrop by (symmetry; apply Z.ltb_ge; lia).
        apply CoSome; rewrite ?Hdrop, ?Hkd; try lia; try (change (10 ^ 0) with 1; rewrite Z.div_1_r; reflexivity).
      + apply CoNone; [exact Hk01|]. left. lia.
    - assert (Ha' : MAX_REPR < a < 2 ^ 128) by lia.
      rewrite ufixed_large by lia. destruct (lost_range a Ha') as [Hsd Hq].
      replace (MAX_REPR <? a) with true in Hdrop by (symmetry; apply Z.ltb_lt; lia).
      destruct (D <? lost a) eqn:E1; [apply Z.ltb_lt in E1 | apply Z.ltb_ge in E1].
      + apply CoNone; [exact Hk01|]. right. lia.
      + destruct (28 <? D - lost a) eqn:E2; [apply Z.ltb_lt in E2 | apply Z.ltb_ge in E2].
        * apply CoNone; [exact Hk01|]. right. lia.
        * pose proof pow10_28_le_max.
          apply CoSome; rewrite ?Hdrop, ?Hkd; try lia; try reflexivity. }
  destruct ((k =? 2) || (k =? 3)) eqn:E23.
  { (* amounts *)
    assert (Hk23 : k = 2 \/ k = 3) by (apply orb_prop in E23; destruct E23 as [E|E]; apply Z.eqb_eq in E; lia).
    assert (Ha64 : a <= 2 ^ 64) by (assert (2 ^ 63 < 2 ^ 64) by (vm_compute; reflexivity); lia).
    assert (Hkd : kind_decimals k D = D).
    { unfold kind_decimals. replace (k =? 4) with false by (symmetry; apply Z.eqb_neq; lia).
      replace (k =? 5) with false by (symmetry; apply Z.eqb_neq; lia). reflexivity. }
    assert (Hdrop : drop k a D = if 28 <? D then D - 28 else 0) by (unfold drop; rewrite E23; reflexivity).
    unfold unsigned_amount_to_decimal, MAX_SCALE.
    destruct (28 <? D) eqn:E28; [apply Z.ltb_lt in E28 | apply Z.ltb_ge in E28].
    - destruct (19 <? D - 28) eqn:E19; [apply Z.ltb_lt in E19 | apply Z.ltb_ge in E19].
      + unfold DEC_ZERO. apply CoSome; rewrite ?Hdrop, ?Hkd; try lia.
        symmetry. apply div_pow_small; [lia|lia|].
        assert (10 ^ 20 <= 10 ^ (D - 28)) by (apply Z.pow_le_mono_r; lia).
        assert (2 ^ 64 < 10 ^ 20) by (vm_compute; reflexivity). lia.
      + assert (Hp : 0 < 10 ^ (D - 28)) by (apply pow10_pos; lia).
        assert (Hq : 0 <= a / 10 ^ (D - 28) <= a).
        { split; [apply Z.div_pos; lia|]. apply div_le_self; lia. }
        rewrite ufixed_small by lia. cbn [Z.leb expect]. change (28 <=? 28) with true. cbn [expect].
        apply CoSome; rewrite ?Hdrop, ?Hkd; try lia.
    - rewrite ufixed_small by lia.
      replace (D <=? 28) with true by (symmetry; apply Z.leb_le; lia). cbn [expect].
      apply CoSome; rewrite ?Hdrop, ?Hkd; try lia; try (change (10 ^ 0) with 1; rewrite Z.div_1_r; reflexivity). }
  (* values at MARKET_DECIMALS *)
  assert (Hk45 : k = 4 \/ k = 5).
  { apply orb_false_elim in E01. apply orb_false_elim in E23. destruct E01 as [A B], E23 as [C E].
    apply Z.eqb_neq in A, B, C, E. lia. }
  assert (Hkd : kind_decimals k D = 20).
  { unfold kind_decimals, MARKET_DECIMALS. destruct Hk45; subst; reflexivity. }
  assert (Hdrop : drop k a D = if MAX_REPR <? a then lost a else 0) by (unfold drop; rewrite E23; reflexivity).
  unfold MARKET_DECIMALS.
  destruct (Z_le_gt_dec a MAX_REPR) as [Hs|Hl].
  - rewrite ufixed_small by lia. cbn [Z.leb expect]. change (20 <=? 28) with true. cbn [expect].
    replace (MAX_REPR <? a) with false in Hdrop by (symmetry; apply Z.ltb_ge; lia).
    apply CoSome; rewrite ?Hdrop, ?Hkd; try lia; try (change (10 ^ 0) with 1; rewrite Z.div_1_r; reflexivity).
  - assert (Ha' : MAX_REPR < a < 2 ^ 128) by lia.
    rewrite ufixed_large by lia. destruct (lost_range a Ha') as [Hsd Hq].
    replace (MAX_REPR <? a) with true in Hdrop by (symmetry; apply Z.ltb_lt; lia).
    replace (20 <? lost a) with false by (symmetry; apply Z.ltb_ge; lia).
    replace (28 <? 20 - lost a) with false by (symmetry; apply Z.ltb_ge; lia). cbn [expect].
    pose proof pow10_28_le_max.
    apply CoSome; rewrite ?Hdrop, ?Hkd; try lia; try reflexivity.
Qed.

(* ---------- master characterisation of the round trips ---------- *)
(* the integer that survives: the low [drop] digits of the magnitude are removed *)
Definition trunc (k num D : Z) : Z :=
  sign_of num (Z.abs num - Z.abs num mod 10 ^ drop k (Z.abs num) D).

Definition back_result (d : dec) (Dk T : Z) : res Z :=
  if (dm d =? 0) && (67 <=? Dk) then Err 1 else if in_s 128 T then Ok T else Err 1.

Inductive rt_out (k num D : Z) : fwd * option (res Z) -> Prop :=
| RtNone : (k = 0 \/ k = 1) ->
    (Z.abs num <= MAX_REPR /\ 28 < D) \/
    (MAX_REPR < Z.abs num /\ (D < lost (Z.abs num) \/ 28 < D - lost (Z.abs num))) ->
    rt_out k num D (FNone, None)
| RtSome d : valid d -> dsc d <= kind_decimals k D -> dneg d = (num <? 0) ->
    dm d = Z.abs num / 10 ^ drop k (Z.abs num) D ->
    (dsc d = kind_decimals k D - drop k (Z.abs num) D \/ (dm d = 0 /\ 47 < D /\ (k = 2 \/ k = 3))) ->
    mantissa d * 10 ^ kind_decimals k D = trunc k num D * 10 ^ dsc d ->
    rt_out k num D (FSome d, Some (back_result d (kind_decimals k D) (trunc k num D))).

Lemma kind_decimals_range k D : 0 <= D <= 255 -> 0 <= kind_decimals k D <= 255.
Proof. unfold kind_decimals, MARKET_DECIMALS. destruct ((k =? 4) || (k =? 5)); lia. Qed.

Lemma sign_of_mul num v c : sign_of num v * c = sign_of num (v * c).
Proof. unfold sign_of. destruct (num <? 0); ring. Qed.

Lemma trunc_bounds_pre k num D : 0 <= drop k (Z.abs num) D -> Z.abs (trunc k num D) <= Z.abs num.
Proof.
  intros Hx. unfold trunc, sign_of.
  pose proof (Z.mod_pos_bound (Z.abs num) (10 ^ drop k (Z.abs num) D) (pow10_pos _ Hx)).
  pose proof (Z.mod_le (Z.abs num) (10 ^ drop k (Z.abs num) D) ltac:(lia) (pow10_pos _ Hx)).
  destruct (num <? 0); lia.
Qed.

Theorem roundtrip_spec k num D : 0 <= k <= 5 -> kind_in_range k num = true -> 0 <= D <= 255 ->
  rt_out k num D (roundtrip k num D).
Proof.
  intros Hk Hr HD. unfold roundtrip. rewrite forward_core by assumption.
  pose proof (kind_mag_range k num Hk Hr) as Hmag.
  pose proof (kind_decimals_range k D HD) as HDk.
  set (a := Z.abs num) in *. set (Dk := kind_decimals k D) in *.
  destruct (core_spec k a D Hk Hmag HD) as [H1 H2 | m s Hm Hm96 Hs HsD Hms Hx].
  - cbn [fwd_neg]. apply RtNone; assumption.
  - cbn [fwd_neg].
    set (x := drop k a D) in *.
    set (d := if num <? 0 then dec_neg (mkDec false m s) else mkDec false m s).
    assert (Hd : d = mkDec (num <? 0) m s) by (subst d; destruct (num <? 0); reflexivity).
    clearbody d. subst d.
    assert (Hp : 0 < 10 ^ x) by (apply pow10_pos; lia).
    assert (Hdm : a = 10 ^ x * m + a mod 10 ^ x) by (subst m; apply Z.div_mod; lia).
    assert (Hmant : mantissa (mkDec (num <? 0) m s) = sign_of num m) by reflexivity.
    (* the image of the Decimal at Dk decimals is the truncated integer *)
    assert (HT : mantissa (mkDec (num <? 0) m s) * 10 ^ (Dk - s) = trunc k num D).
    { rewrite Hmant, sign_of_mul. unfold trunc. fold a. fold x. f_equal.
      destruct Hms as [Hsx | [Hz _]].
      - replace (Dk - s) with x by lia. lia.
      - rewrite Hz in *. lia. }
    assert (Hval : valid (mkDec (num <? 0) m s)) by (split; cbn; lia).
    assert (Hback : backward k (mkDec (num <? 0) m s) Dk = back_result (mkDec (num <? 0) m s) Dk (trunc k num D)).
    { assert (Hrm : rescale_to_mantissa (mkDec (num <? 0) m s) Dk
                    = back_result (mkDec (num <? 0) m s) Dk (trunc k num D)).
      { rewrite rescale_to_mantissa_spec by (assumption || lia).
        unfold back_result, target. cbn [dsc dm].
        replace (s <=? Dk) with true by (symmetry; apply Z.leb_le; lia).
        cbn [dsc] in HT. rewrite HT.
        reflexivity. }
      unfold backward, decimal_to_value, decimal_to_amount, decimal_to_signed_value.
      destruct ((k =? 0) || (k =? 4)) eqn:E04.
      { rewrite Hrm. unfold back_result. destruct ((dm _ =? 0) && (67 <=? Dk)); [reflexivity|].
        destruct (in_s 128 (trunc k num D)) eqn:Ein; [|reflexivity]. cbn [rbind].
        (* unsigned input: the truncated integer is in [0, num] *)
        assert (Hk04 : k = 0 \/ k = 4) by (apply orb_prop in E04; destruct E04 as [E|E]; apply Z.eqb_eq in E; lia).
        assert (Hnn : (num <? 0) = false /\ a < 2 ^ 128).
        { unfold kind_in_range in Hr. rewrite E04 in Hr. unfold in_u in Hr. apply andb_prop in Hr.
          destruct Hr as [A B]. apply Z.leb_le in A. apply Z.ltb_lt in B. split; [apply Z.ltb_ge; lia | subst a; lia]. }
        destruct Hnn as [Hn Ha].
        assert (0 <= trunc k num D < 2 ^ 128).
        { unfold trunc, sign_of. rewrite Hn. fold a. fold x.
          pose proof (Z.mod_pos_bound a (10 ^ x) Hp). nia. }
        replace (chk_u 128 (trunc k num D)) with (Some (trunc k num D)); [reflexivity|].
        symmetry. apply chk_u_some. lia. }
      destruct (k =? 2) eqn:E2.
      { rewrite Hrm. unfold back_result. destruct ((dm _ =? 0) && (67 <=? Dk)); [reflexivity|].
        destruct (in_s 128 (trunc k num D)) eqn:Ein; [|reflexivity]. cbn [rbind].
        apply Z.eqb_eq in E2.
        assert (Hnn : (num <? 0) = false /\ a < 2 ^ 64).
        { unfold kind_in_range in Hr. rewrite E04 in Hr. subst k. cbn in Hr.
          unfold in_u in Hr. apply andb_prop in Hr.
          destruct Hr as [A B]. apply Z.leb_le in A. apply Z.ltb_lt in B. split; [apply Z.ltb_ge; lia | subst a; lia]. }
        destruct Hnn as [Hn Ha].
        assert (0 <= trunc k num D < 2 ^ 64).
        { unfold trunc, sign_of. rewrite Hn. fold a. fold x.
          pose proof (Z.mod_pos_bound a (10 ^ x) Hp). nia. }
        replace (chk_u 64 (trunc k num D)) with (Some (trunc k num D)); [reflexivity|].
        symmetry. apply chk_u_some. lia. }
      exact Hrm. }
    rewrite Hback.
    apply RtSome; cbn [dsc dm dneg]; try assumption; try reflexivity; try lia.
    (* exactness equation *)
    rewrite <- HT. cbn [dsc]. rewrite <- Z.mul_assoc, <- Z.pow_add_r by lia.
    replace (Dk - s + s) with Dk by lia. reflexivity.
Qed.

(* ---------- corollaries ---------- *)
Lemma drop_zero k a D : a <= MAX_REPR -> D <= 28 -> drop k a D = 0.
Proof.
  intros Ha HD. unfold drop.
  replace (28 <? D) with false by (symmetry; apply Z.ltb_ge; lia).
  replace (MAX_REPR <? a) with false by (symmetry; apply Z.ltb_ge; lia).
  destruct ((k =? 2) || (k =? 3)); reflexivity.
Qed.

Lemma kind_decimals_le28 k D : D <= 28 -> kind_decimals k D <= 28.
Proof. unfold kind_decimals, MARKET_DECIMALS. destruct ((k =? 4) || (k =? 5)); lia. Qed.

Lemma drop_kind45 k a D : k = 4 \/ k = 5 -> drop k a D = drop k a 0.
Proof. intros [->| ->]; reflexivity. Qed.

Lemma sign_of_abs num : sign_of num (Z.abs num) = num.
Proof. unfold sign_of. destruct (num <? 0) eqn:E; [apply Z.ltb_lt in E | apply Z.ltb_ge in E]; lia. Qed.

Lemma trunc_eq_iff k num D : 0 <= drop k (Z.abs num) D ->
  trunc k num D = num <-> Z.abs num mod 10 ^ drop k (Z.abs num) D = 0.
Proof.
  intros Hx. unfold trunc, sign_of.
  destruct (num <? 0) eqn:E; [apply Z.ltb_lt in E | apply Z.ltb_ge in E]; lia.
Qed.

Lemma trunc_bounds k num D : 0 <= drop k (Z.abs num) D -> Z.abs (trunc k num D) <= Z.abs num.
Proof.
  intros Hx. unfold trunc, sign_of.
  pose proof (Z.mod_pos_bound (Z.abs num) (10 ^ drop k (Z.abs num) D) (pow10_pos _ Hx)).
  pose proof (Z.mod_le (Z.abs num) (10 ^ drop k (Z.abs num) D) ltac:(lia) (pow10_pos _ Hx)).
  destruct (num <? 0); lia.
Qed.

(* supported range: exact round trip *)
Theorem roundtrip_supported k num D : 0 <= k <= 5 -> kind_in_range k num = true ->
  0 <= D <= 255 -> (k <= 3 -> D <= 28) -> Z.abs num <= MAX_REPR ->
  roundtrip k num D = (FSome (mkDec (num <? 0) (Z.abs num) (kind_decimals k D)), Some (Ok num)).
Proof.
  intros Hk Hr HD HD28 Ha.
  assert (HDk : kind_decimals k D <= 28).
  { unfold kind_decimals, MARKET_DECIMALS. destruct ((k =? 4) || (k =? 5)) eqn:E; [lia|].
    apply orb_false_elim in E. destruct E as [A B]. apply Z.eqb_neq in A, B. lia. }
  assert (Hdrop : drop k (Z.abs num) D = 0).
  { destruct (Z_le_gt_dec k 3); [apply drop_zero; lia|].
    rewrite drop_kind45 by lia. apply drop_zero; lia. }
  destruct (roundtrip_spec k num D Hk Hr HD) as [H1 H2 | d Hv Hs Hn Hm Hsc Hex].
  - lia.
  - rewrite Hdrop in *. change (10 ^ 0) with 1 in Hm. rewrite Z.div_1_r in Hm.
    assert (Hsc' : dsc d = kind_decimals k D) by lia.
    assert (Hd : d = mkDec (num <? 0) (Z.abs num) (kind_decimals k D)).
    { destruct d as [n m s]. cbn in *. subst. reflexivity. }
    assert (HT : trunc k num D = num).
    { apply trunc_eq_iff; rewrite Hdrop; [lia|]. change (10 ^ 0) with 1. apply Z.mod_1_r. }
    rewrite HT, Hd. unfold back_result. cbn [dm].
    replace (67 <=? kind_decimals k D) with false by (symmetry; apply Z.leb_gt; lia).
    rewrite andb_false_r.
    replace (in_s 128 num) with true; [reflexivity|].
    symmetry. unfold in_s. change (128 - 1) with 127.
    assert (MAX_REPR < 2 ^ 127) by (vm_compute; reflexivity).
    apply andb_true_intro; split; [apply Z.leb_le | apply Z.ltb_lt]; lia.
Qed.

(* the forward conversion never panics *)
Theorem forward_never_panics k num D : 0 <= k <= 5 -> kind_in_range k num = true -> 0 <= D <= 255 ->
  forward k num D <> FPanic.
Proof.
  intros Hk Hr HD E.
  pose proof (roundtrip_spec k num D Hk Hr HD) as H. unfold roundtrip in H. rewrite E in H. inversion H.
Qed.

(* nothing is scaled or truncated unless digits are dropped, and digits are dropped only
   above 96 bits (fixed/value kinds) or above 28 decimals (amount kinds) *)
Theorem forward_exact_iff k num D d : 0 <= k <= 5 -> kind_in_range k num = true -> 0 <= D <= 255 ->
  forward k num D = FSome d ->
  valid d /\
  (mantissa d * 10 ^ kind_decimals k D = num * 10 ^ dsc d <->
   Z.abs num mod 10 ^ drop k (Z.abs num) D = 0).
Proof.
  intros Hk Hr HD E.
  pose proof (roundtrip_spec k num D Hk Hr HD) as H. unfold roundtrip in H. rewrite E in H.
  inversion H as [ | d' Hv Hs Hn Hm Hsc Hex]. subst d'.
  split; [exact Hv|].
  assert (Hx : 0 <= drop k (Z.abs num) D).
  { unfold drop. destruct ((k =? 2) || (k =? 3)).
    - destruct (28 <? D) eqn:E28; [apply Z.ltb_lt in E28|]; lia.
    - destruct (MAX_REPR <? Z.abs num) eqn:El; [|lia]. apply Z.ltb_lt in El.
      pose proof (kind_mag_range k num Hk Hr) as [_ Hmag].
      assert (2 ^ 127 < 2 ^ 128) by (vm_compute; reflexivity).
      assert (Ha' : MAX_REPR < Z.abs num < 2 ^ 128).
      { destruct ((k =? 2) || (k =? 3)); [|lia].
        assert (2 ^ 64 < MAX_REPR) by (vm_compute; reflexivity).
        assert (2 ^ 63 < 2 ^ 64) by (vm_compute; reflexivity). lia. }
      pose proof (lost_range _ Ha'). lia. }
  rewrite <- trunc_eq_iff by exact Hx. rewrite Hex.
  pose proof (pow10_pos (dsc d) ltac:(destruct Hv; lia)).
  split; intros; [|congruence]. nia.
Qed.

(* the way back returns the truncated integer (the original when nothing was dropped),
   or "value is too big" *)
Theorem backward_result k num D d : 0 <= k <= 5 -> kind_in_range k num = true -> 0 <= D <= 255 ->
  forward k num D = FSome d ->
  backward k d (kind_decimals k D) = back_result d (kind_decimals k D) (trunc k num D).
Proof.
  intros Hk Hr HD E.
  pose proof (roundtrip_spec k num D Hk Hr HD) as H. unfold roundtrip in H. rewrite E in H.
  inversion H. reflexivity.
Qed.

Theorem backward_ok_original k num D d v : 0 <= k <= 5 -> kind_in_range k num = true -> 0 <= D <= 255 ->
  forward k num D = FSome d ->
  Z.abs num mod 10 ^ drop k (Z.abs num) D = 0 ->
  backward k d (kind_decimals k D) = Ok v -> v = num.
Proof.
  intros Hk Hr HD E Hz Hb.
  rewrite (backward_result k num D d) in Hb by assumption.
  pose proof (proj1 (forward_exact_iff k num D d Hk Hr HD E)) as Hv.
  assert (HT : trunc k num D = num).
  { unfold trunc. rewrite Hz, Z.sub_0_r. apply sign_of_abs. }
  rewrite HT in Hb. unfold back_result in Hb.
  destruct ((dm d =? 0) && (67 <=? kind_decimals k D)); [discriminate|].
  destruct (in_s 128 num); [congruence | discriminate].
Qed.

Lemma kind_range_cases k num : 0 <= k <= 5 -> kind_in_range k num = true ->
  ((k = 0 \/ k = 4) /\ 0 <= num < 2 ^ 128) \/ ((k = 1 \/ k = 5) /\ - 2 ^ 127 <= num < 2 ^ 127) \/
  (k = 2 /\ 0 <= num < 2 ^ 64) \/ (k = 3 /\ - 2 ^ 63 <= num < 2 ^ 63).
Proof.
  intros Hk Hr.
  assert (Hcases : k = 0 \/ k = 1 \/ k = 2 \/ k = 3 \/ k = 4 \/ k = 5) by lia.
  unfold kind_in_range, in_u, in_s in Hr. change (128 - 1) with 127 in Hr. change (64 - 1) with 63 in Hr.
  destruct Hcases as [-> | [-> | [-> | [-> | [-> | ->]]]]]; cbn [Z.eqb orb] in Hr;
    apply andb_prop in Hr; destruct Hr as [A1 A2]; apply Z.leb_le in A1; apply Z.ltb_lt in A2; lia.
Qed.

Lemma trunc_sign k num D : 0 <= drop k (Z.abs num) D ->
  (0 <= num -> 0 <= trunc k num D <= num) /\ (num <= 0 -> num <= trunc k num D <= 0).
Proof.
  intros Hx. unfold trunc, sign_of.
  pose proof (Z.mod_pos_bound (Z.abs num) (10 ^ drop k (Z.abs num) D) (pow10_pos _ Hx)).
  pose proof (Z.mod_le (Z.abs num) (10 ^ drop k (Z.abs num) D) ltac:(lia) (pow10_pos _ Hx)).
  destruct (num <? 0) eqn:E; [apply Z.ltb_lt in E | apply Z.ltb_ge in E]; lia.
Qed.

(* errors on the way back: only "value is too big", and for at most 66 decimals only for
   unsigned inputs above i128::MAX *)
Theorem backward_err k num D d e : 0 <= k <= 5 -> kind_in_range k num = true -> 0 <= D <= 255 ->
  forward k num D = FSome d ->
  backward k d (kind_decimals k D) = Err e ->
  e = 1 /\ ((dm d = 0 /\ 67 <= D /\ (k = 2 \/ k = 3)) \/ ((k = 0 \/ k = 4) /\ 2 ^ 127 <= num)).
Proof.
  intros Hk Hr HD E Hb.
  rewrite (backward_result k num D d) in Hb by assumption. unfold back_result in Hb.
  destruct ((dm d =? 0) && (67 <=? kind_decimals k D)) eqn:Ez.
  - inversion Hb. split; [reflexivity|]. left.
    apply andb_prop in Ez. destruct Ez as [A B]. apply Z.eqb_eq in A. apply Z.leb_le in B.
    split; [exact A|].
    unfold kind_decimals, MARKET_DECIMALS in B.
    destruct ((k =? 4) || (k =? 5)) eqn:E45; [lia|].
    split; [lia|].
    (* fixed kinds never return a Decimal for more than 39 decimals *)
    apply orb_false_elim in E45. destruct E45 as [E4 E5]. apply Z.eqb_neq in E4, E5.
    destruct (Z_le_gt_dec 2 k); [lia|]. exfalso.
    pose proof (roundtrip_spec k num D Hk Hr HD) as H. unfold roundtrip in H. rewrite E in H.
    inversion H as [ | d' Hv Hs Hn Hm Hsc Hex]. subst d'.
    assert (Hkd : kind_decimals k D = D).
    { unfold kind_decimals. replace (k =? 4) with false by (symmetry; apply Z.eqb_neq; lia).
      replace (k =? 5) with false by (symmetry; apply Z.eqb_neq; lia). reflexivity. }
    pose proof (kind_mag_range k num Hk Hr) as [Ha0 Hmag].
    replace ((k =? 2) || (k =? 3)) with false in Hmag
        by (symmetry; apply orb_false_intro; apply Z.eqb_neq; lia).
    assert (2 ^ 127 < 2 ^ 128) by (vm_compute; reflexivity).
    unfold drop in Hsc, Hm. replace ((k =? 2) || (k =? 3)) with false in Hsc, Hm
        by (symmetry; apply orb_false_intro; apply Z.eqb_neq; lia).
    rewrite Hkd in *. destruct Hv as [_ Hs28].
    destruct (MAX_REPR <? Z.abs num) eqn:El; [apply Z.ltb_lt in El | apply Z.ltb_ge in El].
    + pose proof (lost_range (Z.abs num) ltac:(lia)) as [Hsd Hq]. lia.
    + lia.
  - destruct (in_s 128 (trunc k num D)) eqn:Ein; [discriminate|]. inversion Hb. split; [reflexivity|]. right.
    assert (Hx : 0 <= drop k (Z.abs num) D).
    { pose proof (roundtrip_spec k num D Hk Hr HD) as H. unfold roundtrip in H. rewrite E in H.
      inversion H as [ | d' Hv Hs Hn Hm Hsc Hex]. subst d'.
      destruct (Z_le_gt_dec 0 (drop k (Z.abs num) D)); [lia|]. exfalso.
      unfold drop in *. destruct ((k =? 2) || (k =? 3)).
      - destruct (28 <? D) eqn:E28; [apply Z.ltb_lt in E28|]; lia.
      - destruct (MAX_REPR <? Z.abs num) eqn:El; [|lia]. apply Z.ltb_lt in El.
        pose proof (kind_mag_range k num Hk Hr) as [_ Hmag].
        assert (2 ^ 127 < 2 ^ 128) by (vm_compute; reflexivity).
        destruct ((k =? 2) || (k =? 3)) eqn:E23.
        + assert (2 ^ 64 < MAX_REPR) by (vm_compute; reflexivity).
          assert (2 ^ 63 < 2 ^ 64) by (vm_compute; reflexivity). lia.
        + pose proof (lost_range (Z.abs num) ltac:(lia)). lia. }
    pose proof (trunc_sign k num D Hx) as [Hs1 Hs2].
    pose proof (kind_range_cases k num Hk Hr) as Hc.
    unfold in_s in Ein. change (128 - 1) with 127 in Ein.
    assert (2 ^ 63 < 2 ^ 127) by (vm_compute; reflexivity).
    assert (2 ^ 64 < 2 ^ 127) by (vm_compute; reflexivity).
    apply andb_false_elim in Ein. destruct Ein as [A | A]; [apply Z.leb_gt in A | apply Z.ltb_ge in A]; lia.
Qed.

(* ---------- the known-finding classes as predicates on the inputs ---------- *)
Definition fixed_kind (k : Z) : Prop := k = 0 \/ k = 1 \/ k = 4 \/ k = 5.
Definition amount_kind (k : Z) : Prop := k = 2 \/ k = 3.
(* class 1: magnitude above 96 bits with non-zero low digits *)
Definition class_truncated (k num D : Z) : Prop :=
  fixed_kind k /\ MAX_REPR < Z.abs num /\ Z.abs num mod 10 ^ lost (Z.abs num) <> 0.
(* class 2: amount with more than 28 decimals whose low digits are non-zero *)
Definition class_scaled (k num D : Z) : Prop :=
  amount_kind k /\ 28 < D /\ Z.abs num mod 10 ^ (D - 28) <> 0.

Lemma drop_mod_zero_outside k num D : 0 <= k <= 5 ->
  ~ class_truncated k num D -> ~ class_scaled k num D ->
  Z.abs num mod 10 ^ drop k (Z.abs num) D = 0.
Proof.
  intros Hk H1 H2. unfold drop, class_truncated, class_scaled, fixed_kind, amount_kind in *.
  destruct ((k =? 2) || (k =? 3)) eqn:E23.
  - assert (k = 2 \/ k = 3) by (apply orb_prop in E23; destruct E23 as [E|E]; apply Z.eqb_eq in E; lia).
    destruct (28 <? D) eqn:E28; [apply Z.ltb_lt in E28 | change (10 ^ 0) with 1; apply Z.mod_1_r].
    destruct (Z.eq_dec (Z.abs num mod 10 ^ (D - 28)) 0); [assumption|]. exfalso. apply H2. auto.
  - apply orb_false_elim in E23. destruct E23 as [A B]. apply Z.eqb_neq in A, B.
    destruct (MAX_REPR <? Z.abs num) eqn:El; [apply Z.ltb_lt in El | change (10 ^ 0) with 1; apply Z.mod_1_r].
    destruct (Z.eq_dec (Z.abs num mod 10 ^ lost (Z.abs num)) 0); [assumption|]. exfalso. apply H1.
    split; [lia|]. auto.
Qed.

Theorem no_silent_loss_outside_classes k num D d :
  0 <= k <= 5 -> kind_in_range k num = true -> 0 <= D <= 255 ->
  ~ class_truncated k num D -> ~ class_scaled k num D ->
  forward k num D = FSome d ->
  valid d /\ mantissa d * 10 ^ kind_decimals k D = num * 10 ^ dsc d /\
  (forall v, backward k d (kind_decimals k D) = Ok v -> v = num).
Proof.
  intros Hk Hr HD H1 H2 E.
  pose proof (drop_mod_zero_outside k num D Hk H1 H2) as Hz.
  destruct (forward_exact_iff k num D d Hk Hr HD E) as [Hv Hex].
  split; [exact Hv|]. split; [apply Hex; exact Hz|].
  intros v Hb. exact (backward_ok_original k num D d v Hk Hr HD E Hz Hb).
Qed.

(* inside class 1 / class 2 the loss is real: the Decimal does not denote num / 10^D *)
Theorem silent_loss_inside_classes k num D d :
  0 <= k <= 5 -> kind_in_range k num = true -> 0 <= D <= 255 ->
  class_truncated k num D \/ class_scaled k num D ->
  forward k num D = FSome d ->
  mantissa d * 10 ^ kind_decimals k D <> num * 10 ^ dsc d.
Proof.
  intros Hk Hr HD Hc E.
  destruct (forward_exact_iff k num D d Hk Hr HD E) as [Hv Hex].
  intros Heq. apply Hex in Heq. clear Hex E Hv Hr.
  unfold class_truncated, class_scaled, fixed_kind, amount_kind in Hc.
  destruct Hc as [[Hk1 [Ha Hm]] | [Hk2 [HD' Hm]]].
  - assert (Hd : drop k (Z.abs num) D = lost (Z.abs num)).
    { unfold drop. replace ((k =? 2) || (k =? 3)) with false
        by (clear - Hk1; symmetry; apply orb_false_intro; apply Z.eqb_neq; lia).
      replace (MAX_REPR <? Z.abs num) with true by (symmetry; apply Z.ltb_lt; exact Ha). reflexivity. }
    rewrite Hd in Heq. contradiction.
  - assert (Hd : drop k (Z.abs num) D = D - 28).
    { unfold drop. replace ((k =? 2) || (k =? 3)) with true
        by (clear - Hk2; symmetry; apply orb_true_intro; destruct Hk2; [left|right]; apply Z.eqb_eq; lia).
      replace (28 <? D) with true by (symmetry; apply Z.ltb_lt; exact HD'). reflexivity. }
    rewrite Hd in Heq. contradiction.
Qed.

(* after a successful forward conversion the way back never panics *)
Theorem backward_never_panics k num D d : 0 <= k <= 5 -> kind_in_range k num = true -> 0 <= D <= 255 ->
  forward k num D = FSome d -> backward k d (kind_decimals k D) <> Err E_PANIC.
Proof.
  intros Hk Hr HD E. rewrite (backward_result k num D d) by assumption. unfold back_result.
  destruct ((dm d =? 0) && (67 <=? kind_decimals k D)); [discriminate|].
  destruct (in_s 128 (trunc k num D)); discriminate.
Qed.
