(* C43 — property theorems.  Model: crates/sdk/src/utils/fixed.rs + the rust_decimal
   operations it calls (C43/Model.v).  Kinds k of round trip (Model.forward / Model.backward):
     0 unsigned_fixed_to_decimal / decimal_to_value           (u128, any decimals)
     1 signed_fixed_to_decimal   / decimal_to_signed_value    (i128)
     2 unsigned_amount_to_decimal/ decimal_to_amount          (u64)
     3 signed_amount_to_decimal  / decimal_to_signed_value    (i64)
     4 unsigned_value_to_decimal / decimal_to_value at 20 decimals (u128)
     5 signed_value_to_decimal   / decimal_to_signed_value at 20 decimals (i128)
   [kind_in_range k num] is the Rust input type; decimals range over all of u8. *)
From GV Require Import lib.Base C43.Model C43.Proofs.
Open Scope Z_scope.

(* Round trip, supported range: magnitude <= 2^96-1 and decimals <= 28 give back the original. *)
Theorem c43_roundtrip_supported : forall k num D,
  0 <= k <= 5 -> kind_in_range k num = true -> 0 <= D <= 255 -> (k <= 3 -> D <= 28) ->
  Z.abs num <= MAX_REPR ->
  roundtrip k num D = (FSome (mkDec (num <? 0) (Z.abs num) (kind_decimals k D)), Some (Ok num)).
Proof. exact roundtrip_supported. Qed.

(* Complete characterisation of every round trip, all inputs (u8 decimals):
   None exactly under the stated conditions; otherwise a valid Decimal that denotes
   trunc/10^D where trunc = the input with its low [drop] digits zeroed, and the way back
   returns trunc or "value is too big". *)
Theorem c43_roundtrip_characterised : forall k num D,
  0 <= k <= 5 -> kind_in_range k num = true -> 0 <= D <= 255 ->
  rt_out k num D (roundtrip k num D).
Proof. exact roundtrip_spec. Qed.

(* The forward conversions never panic (class 3 repaired: a scale above 28 is reported as None). *)
Theorem c43_forward_never_panics : forall k num D,
  0 <= k <= 5 -> kind_in_range k num = true -> 0 <= D <= 255 -> forward k num D <> FPanic.
Proof. exact forward_never_panics. Qed.

(* Outside classes 1 and 2 nothing is scaled or truncated: the Decimal denotes num/10^D exactly
   and the way back returns the original or an error. *)
Theorem c43_no_silent_loss_outside_classes : forall k num D d,
  0 <= k <= 5 -> kind_in_range k num = true -> 0 <= D <= 255 ->
  ~ class_truncated k num D -> ~ class_scaled k num D ->
  forward k num D = FSome d ->
  valid d /\ mantissa d * 10 ^ kind_decimals k D = num * 10 ^ dsc d /\
  (forall v, backward k d (kind_decimals k D) = Ok v -> v = num).
Proof. exact no_silent_loss_outside_classes. Qed.

(* Inside classes 1 and 2 the loss is real (so the classes are not wider than the defect). *)
Theorem c43_silent_loss_inside_classes : forall k num D d,
  0 <= k <= 5 -> kind_in_range k num = true -> 0 <= D <= 255 ->
  class_truncated k num D \/ class_scaled k num D ->
  forward k num D = FSome d ->
  mantissa d * 10 ^ kind_decimals k D <> num * 10 ^ dsc d.
Proof. exact silent_loss_inside_classes. Qed.

(* Errors of the way back after a successful forward conversion: only "value is too big", only
   for a zero amount at >= 67 decimals or an unsigned input above i128::MAX (class 5). *)
Theorem c43_backward_err : forall k num D d e,
  0 <= k <= 5 -> kind_in_range k num = true -> 0 <= D <= 255 ->
  forward k num D = FSome d ->
  backward k d (kind_decimals k D) = Err e ->
  e = 1 /\ ((dm d = 0 /\ 67 <= D /\ (k = 2 \/ k = 3)) \/ ((k = 0 \/ k = 4) /\ 2 ^ 127 <= num)).
Proof. exact backward_err. Qed.

(* Back conversion of an ARBITRARY valid Decimal (96-bit magnitude, scale <= 28) to any u8
   decimals: exact multiplication when decimals >= scale, half-up rounding otherwise; an error
   exactly when the image leaves i128 (or for zero at >= 67 decimals). *)
Theorem c43_rescale_to_mantissa_spec : forall d decimals, valid d -> 0 <= decimals <= 255 ->
  rescale_to_mantissa d decimals =
    if (dm d =? 0) && (67 <=? decimals) then Err 1
    else if in_s 128 (target d decimals) then Ok (target d decimals) else Err 1.
Proof. exact rescale_to_mantissa_spec. Qed.

(* ... and it never panics (class 6 repaired: the error message formats the original value;
   Err E_PANIC is the model's encoding of a panic) *)
Theorem c43_back_never_panics : forall d decimals, valid d -> 0 <= decimals <= 255 ->
  rescale_to_mantissa d decimals <> Err E_PANIC.
Proof. exact back_never_panics. Qed.

(* the scale reached by rescale when scaling up (determines j uniquely) *)
Theorem c43_rescale_up_scale : forall d decimals, valid d -> dm d <> 0 -> dsc d < decimals ->
  exists j, 0 <= j /\ dsc (rescale d decimals) = dsc d + j /\ dsc d + j <= decimals /\
            dm d * 10 ^ j < 2 ^ 96 /\ (dsc d + j < decimals -> 2 ^ 96 <= dm d * 10 ^ (j + 1)).
Proof. exact rescale_up_scale. Qed.

(* In a round trip (Decimal produced by the forward conversion, same decimals) the way back
   never panics. *)
Theorem c43_backward_never_panics : forall k num D d,
  0 <= k <= 5 -> kind_in_range k num = true -> 0 <= D <= 255 ->
  forward k num D = FSome d -> backward k d (kind_decimals k D) <> Err E_PANIC.
Proof. exact backward_never_panics. Qed.

(* rust_decimal's divide-and-round-on-the-last-remainder loop is floor + first dropped digit >= 5 *)
Theorem c43_rescale_down_closed : forall m diff, 0 <= m < 2 ^ 96 -> 1 <= diff ->
  rescale_down m diff = m / 10 ^ diff + (if 10 ^ diff <=? 2 * (m mod 10 ^ diff) then 1 else 0).
Proof. intros m diff Hm Hd. rewrite rescale_down_closed, half_up_digit by lia. reflexivity. Qed.

(* ---------- witnesses: the literal property fails on the unchanged code ---------- *)
(* class 1 *)
Theorem c43_above96_truncated_refuted : exists num D d v,
  kind_in_range 1 num = true /\ 0 <= D <= 28 /\
  roundtrip 1 num D = (FSome d, Some (Ok v)) /\ v <> num /\
  mantissa d * 10 ^ D <> num * 10 ^ dsc d.
Proof.
  exists 70849174009812161477555991609872364776, 21,
         (mkDec false 7084917400981216147755599160 11), 70849174009812161477555991600000000000.
  vm_compute. repeat split; congruence.
Qed.
(* class 2 *)
Theorem c43_decimals_above28_scaled_refuted : exists num D d v,
  kind_in_range 2 num = true /\ 28 < D <= 255 /\
  roundtrip 2 num D = (FSome d, Some (Ok v)) /\ v <> num.
Proof.
  exists 18446744073709551615, 29, (mkDec false 1844674407370955161 28), 18446744073709551610.
  vm_compute. repeat split; congruence.
Qed.
(* class 3 (repaired): the former panic input is now reported as None *)
Example c43_ex_former_panic_is_none : forward 0 340282366920938463463374607431768211455 48 = FNone.
Proof. vm_compute. reflexivity. Qed.
(* class 4: representable (10^30 / 10^2 = 10^28 < 2^96) but rejected *)
Theorem c43_large_representable_rejected_refuted : exists num D m s,
  kind_in_range 0 num = true /\ 0 <= D <= 28 /\ 0 <= m <= MAX_REPR /\ 0 <= s <= 28 /\
  m * 10 ^ D = num * 10 ^ s /\ forward 0 num D = FNone.
Proof. exists (10 ^ 30), 2, (10 ^ 28), 0. vm_compute. repeat split; congruence. Qed.
(* class 5: exact Decimal, cannot come back *)
Theorem c43_back_above_i128_refuted : exists num D d,
  kind_in_range 0 num = true /\ 0 <= D <= 28 /\
  roundtrip 0 num D = (FSome d, Some (Err 1)) /\ mantissa d * 10 ^ D = num * 10 ^ dsc d.
Proof.
  exists (3 * 10 ^ 38), 20, (mkDec false (3 * 10 ^ 27) 9). vm_compute. repeat split; congruence.
Qed.

(* class 6 (repaired): the former panic input is now an error *)
Example c43_ex_former_back_panic_is_err : decimal_to_signed_value (mkDec false 1 28) 67 = Err 1.
Proof. vm_compute. reflexivity. Qed.

(* ---------- non-vacuity ---------- *)
Example c43_ex_supported_nontrivial :
  roundtrip 1 (-429663361044608151) 20 = (FSome (mkDec true 429663361044608151 20), Some (Ok (-429663361044608151))).
Proof. vm_compute. reflexivity. Qed.
Example c43_ex_large_exact :   (* above 96 bits but no digit lost: round trip exact *)
  roundtrip 0 (79228162514264337593543950340 * 10) 10
  = (FSome (mkDec false 7922816251426433759354395034 8), Some (Ok (79228162514264337593543950340 * 10))).
Proof. vm_compute. reflexivity. Qed.
Example c43_ex_rescale_compensated :   (* fixed.rs test: dec!(1234567891) to 20 decimals *)
  decimal_to_signed_value (mkDec false 1234567891 0) 20 = Ok 123456789100000000000000000000.
Proof. vm_compute. reflexivity. Qed.
Example c43_ex_half_up : decimal_to_signed_value (mkDec false 145 2) 1 = Ok 15
                          /\ decimal_to_signed_value (mkDec false 1449 3) 1 = Ok 14.
Proof. vm_compute. split; reflexivity. Qed.
