(* C16 — correspondence and oracle predicates for the observations printed by
   harness/src/bin/c16.rs (real program `Market` / `Store`, real SDK `Market` / `MarketModel`).
   Imports the model and the hand-written spec only. *)
From GV Require Import lib.Base gen.C16Tables C16.ParamSpec.
From GV Require Export C16.Model.
From Coq Require Export String.
Open Scope string_scope.
Open Scope Z_scope.

Inductive case :=
| Snap (side : Z) (closed : bool) (flags : list (string * bool)) (keys : list (string * option Z))
       (slots : list (string * pval))
    (* side 0 = program Market, 1 = SDK Market/MarketModel decoded from the same bytes.
       flags: every MarketConfigFlag; keys: every MarketConfigKey read by enum; slots: every parameter slot *)
| KeyWrite (side : Z) (k : string) (v : Z) (ok : bool) (before after : list (string * option Z))
    (* `*market.get_config_mut(k)? = v` on the program Market; all keys read before/after on `side` *)
| FlagWrite (f : string) (v ok prev : bool) (before after : list (string * bool))
    (* `market.set_config_flag(f, v)` -> Ok(prev) *)
| StoreWrite (kind k : string) (v : Z) (ok : bool) (before after sdk_after : list (string * option Z)).
    (* `*store.get_<kind>_mut(k)? = v`; all keys of that kind before/after; the same after-state read
       field by field through the SDK's Store struct *)

(* ---------- helpers ---------- *)
Definition pval_eqb (a b : pval) : bool :=
  match a, b with
  | PNum x, PNum y => x =? y
  | PBool x, PBool y => Bool.eqb x y
  | PNone, PNone => true
  | POpaque, POpaque => true
  | _, _ => false
  end.
Definition opval_eqb (a b : option pval) : bool :=
  match a, b with Some x, Some y => pval_eqb x y | None, None => true | _, _ => false end.

Fixpoint list_eqb {A} (eq : A -> A -> bool) (a b : list A) : bool :=
  match a, b with
  | [], [] => true
  | x :: r, y :: s => eq x y && list_eqb eq r s
  | _, _ => false
  end.
Definition kv_eqb (a b : string * option Z) : bool := String.eqb (fst a) (fst b) && oeqb (snd a) (snd b).
Definition fv_eqb (a b : string * bool) : bool := String.eqb (fst a) (fst b) && Bool.eqb (snd a) (snd b).

(* functional update of an observed association list *)
Definition kv_set (l : list (string * option Z)) (k : string) (v : Z) : list (string * option Z) :=
  map (fun kv => if String.eqb (fst kv) k then (fst kv, Some v) else kv) l.
Definition fv_set (l : list (string * bool)) (k : string) (v : bool) : list (string * bool) :=
  map (fun kv => if String.eqb (fst kv) k then (fst kv, v) else kv) l.

(* record whose field f holds the observed value of the first key whose arm reads f *)
Definition rec_of (arms : list (string * string)) (obs : list (string * option Z)) : @rec Z :=
  fun f =>
    match find (fun kv => match lookup (fst kv) arms with Some g => String.eqb g f | None => false end) obs with
    | Some (_, Some v) => v
    | _ => 0
    end.
(* flag bits from the observed flag list, by enum position *)
Definition bits_of (enum : list string) (obs : list (string * bool)) : bits :=
  fun i => existsb (fun fv => match index_of (fst fv) enum with Some j => (j =? i) && snd fv | None => false end) obs.

(* all reads through `get` of a record agree with an observed list *)
Definition reads_agree (get : @rec Z -> string -> option Z) (c : @rec Z) (obs : list (string * option Z)) : bool :=
  forallb (fun kv => oeqb (get c (fst kv)) (snd kv)) obs.

Definition params_of (side : Z) := if side =? 0 then p_params else s_params.
Definition get_of (side : Z) := if side =? 0 then p_get else s_get.
Definition flags_of (side : Z) := if side =? 0 then config_flags else s_config_flags.
Definition slot_value_of (side : Z) := if side =? 0 then p_slot_value else s_slot_value.

(* ---------- model == implementation ---------- *)
Definition corr_b (c : case) : bool :=
  match c with
  | Snap side closed flags keys slots =>
      let cfg := rec_of (get_of side) keys in
      let b := bits_of (flags_of side) flags in
      list_eqb String.eqb (map fst keys) config_keys
      && list_eqb String.eqb (map fst flags) config_flags
      && reads_agree (tget (get_of side)) cfg keys
      && forallb (fun sv => opval_eqb (slot_value_of side cfg b closed (fst sv)) (Some (snd sv))) slots
      && forallb (fun s => is_some (lookup s slots)) (map fst (params_of side))
  | KeyWrite side k v ok before after =>
      let cfg := rec_of (get_of side) before in
      list_eqb String.eqb (map fst before) config_keys
      && reads_agree (tget (get_of side)) cfg before
      && match p_set_key cfg k v with
         | Some cfg' => ok && reads_agree (tget (get_of side)) cfg' after && list_eqb String.eqb (map fst after) config_keys
         | None => negb ok && list_eqb kv_eqb after before
         end
  | FlagWrite f v ok prev before after =>
      let b := bits_of config_flags before in
      list_eqb String.eqb (map fst before) config_flags
      && match p_set_flag b f v, p_get_flag b f with
         | Some b', Some old =>
             ok && Bool.eqb prev old
             && forallb (fun fv => match p_get_flag b' (fst fv) with Some x => Bool.eqb x (snd fv) | None => false end) after
             && list_eqb String.eqb (map fst after) config_flags
         | _, _ => negb ok && list_eqb fv_eqb after before
         end
  | StoreWrite kind k v ok before after sdk_after =>
      let '(keys, get, set) :=
        if String.eqb kind "amount" then (amount_keys, amount_get_key, amount_set_key)
        else if String.eqb kind "factor" then (factor_keys, factor_get_key, factor_set_key)
        else (address_keys, address_get_key, address_set_key) in
      let arms := if String.eqb kind "amount" then amount_get else if String.eqb kind "factor" then factor_get else address_get in
      let cfg := rec_of arms before in
      list_eqb String.eqb (map fst before) keys
      && reads_agree get cfg before
      && match set cfg k v with
         | Some cfg' => ok && reads_agree get cfg' after && list_eqb String.eqb (map fst after) keys
         | None => negb ok && list_eqb kv_eqb after before
         end
      (* the SDK struct field named like the key holds the value the program reads through the key *)
      && list_eqb kv_eqb sdk_after after
  end.

(* ---------- the PROPERTY on the observations (hand-written spec only; no translated arm table) ---------- *)
Fixpoint alookup {A} (k : string) (l : list (string * A)) : option A :=
  match l with [] => None | (k', v) :: r => if String.eqb k k' then Some v else alookup k r end.

(* value a slot must show: the observed value of the key (flag) it is named after *)
Definition view_key (flags : list (string * bool)) (keys : list (string * option Z)) (slot k : string) : option pval :=
  match alookup k flags with
  | Some b => Some (PBool b)
  | None =>
      match alookup k keys with
      | Some (Some x) => Some (if existsb (String.eqb slot) zero_means_unset && (x =? 0) then PNone else PNum x)
      | _ => None
      end
  end.

Definition expected_slot (side : Z) (closed : bool) (flags : list (string * bool)) (keys : list (string * option Z))
           (slot : string) : option pval :=
  match alookup closed_switch_flag flags with
  | None => None
  | Some en =>
      if side =? 0 then
        match named_key (closed && en) slot with Some k => view_key flags keys slot k | None => None end
      else
        match sdk_named_key (closed && en) slot with
        | Some (NKey k) =>
            (* zero_means_unset is keyed by the program slot id; SDK ids coincide for those slots *)
            view_key flags keys slot k
        | Some NZero => Some (PNum 0)
        | Some NNotConfig => Some POpaque
        | None => None
        end
  end.

Definition spec_store_guard (kind k : string) : bool :=
  String.eqb kind "amount" && String.eqb k "claimable_time_window".   (* documented: changes prohibited *)

Definition oracle_b (c : case) : bool :=
  match c with
  | Snap side closed flags keys slots =>
      (* every key is readable *)
      forallb (fun kv => is_some (snd kv)) keys
      (* every slot shows the value of the key it is named after (for this closed / enable state) *)
      && forallb (fun sv => opval_eqb (expected_slot side closed flags keys (fst sv)) (Some (snd sv))) slots
      (* and every named slot is present *)
      && forallb (fun sk =>
                    if (side =? 0) || negb (String.prefix "swap_fee_params/" (fst sk))
                    then is_some (alookup (fst sk) slots) else true) param_key
  | KeyWrite side k v ok before after =>
      if is_some (alookup k before)
      then ok && list_eqb kv_eqb after (kv_set before k v)
      else negb ok && list_eqb kv_eqb after before
  | FlagWrite f v ok prev before after =>
      match alookup f before with
      | Some old => ok && Bool.eqb prev old && list_eqb fv_eqb after (fv_set before f v)
      | None => negb ok && list_eqb fv_eqb after before
      end
  | StoreWrite kind k v ok before after sdk_after =>
      (if is_some (alookup k before) && negb (spec_store_guard kind k)
       then ok && list_eqb kv_eqb after (kv_set before k v)
       else negb ok && list_eqb kv_eqb after before)
      && forallb (fun kv => is_some (snd kv)) before
      && list_eqb kv_eqb sdk_after after
  end.

Definition known_b (c : case) : Z := 0.
