(* C16 — property theorems (pinned statements).  Tables named here (p_get, p_get_mut, p_params,
   config_keys, s_get, amount_get, ...) are REGENERATED from the Rust source before this file is
   compiled; `param_key`, `closed_key`, `named_key`, `sdk_named_key` are the hand-written spec. *)
From GV Require Import lib.Base gen.C16Tables C16.Model C16.ParamSpec C16.Proofs.
From Coq Require Import String.
Open Scope string_scope.
Open Scope Z_scope.

(* GENERIC: for ANY pair of arm tables that agree and are injective, any value type, any record:
   a write through key k is read back through k and through no other key *)
Theorem c16_table_law : forall (V : Type) (garms sarms : list (string * string)) (guard : list string),
  (forall k, lookup k garms = lookup k sarms) ->
  (forall k k' f, lookup k garms = Some f -> lookup k' garms = Some f -> k = k') ->
  forall (c c' : @rec V) k v, tset sarms guard c k v = Some c' ->
  forall k', tget garms c' k' = if String.eqb k k' then Some v else tget garms c k'.
Proof. intros V g s gd Ha Hi. exact (table_law g s gd Ha Hi). Qed.

(* market config keys (program): the law holds for the real get / get_mut arms, all records, all values *)
Theorem c16_market_config_key_law : forall (c c' : @rec Z) k v, p_set_key c k v = Some c' ->
  forall k', p_get_key c' k' = if String.eqb k k' then Some v else p_get_key c k'.
Proof. exact p_table_law. Qed.

(* every variant of MarketConfigKey is readable and writable (no key falls into `_ => None`) *)
Theorem c16_every_config_key_has_arms : forall k, In k config_keys ->
  (exists f, lookup k p_get = Some f) /\ forall (c : @rec Z) v, exists c', p_set_key c k v = Some c'.
Proof. intros k H. split; [exact (p_key_has_arm k H)|exact (p_key_writable k H)]. Qed.

(* market config flags: same law for the flag container (bit = enum position) *)
Theorem c16_market_config_flag_law : forall (b b' : bits) f v, p_set_flag b f v = Some b' ->
  forall f', p_get_flag b' f' = if String.eqb f f' then Some v else p_get_flag b f'.
Proof. intros b b' f v H f'. exact (flag_law config_flags b b' f v H f'). Qed.

(* every market-model parameter slot of the program Market reads exactly the key (or flag) it is named
   after — the closed-market key while the market is closed and the switch flag is set *)
Theorem c16_param_reads_named_key : forall slot, In slot (map fst p_params) -> forall (c : @rec Z) b closed en,
  p_get_flag b closed_switch_flag = Some en ->
  exists k, named_key (closed && en) slot = Some k /\ p_slot_value c b closed slot = key_view c b slot k.
Proof. exact param_reads_named_key. Qed.

(* hence: a value written through key k shows up in exactly the slots named after k, others unchanged *)
Theorem c16_write_observed_through_parameter : forall slot, In slot (map fst p_params) ->
  forall (c c' : @rec Z) b closed en k v,
  p_set_key c k v = Some c' -> p_get_flag b closed_switch_flag = Some en ->
  exists kn, named_key (closed && en) slot = Some kn /\
    p_slot_value c' b closed slot =
      if mem kn config_flags then p_slot_value c b closed slot
      else if String.eqb k kn then Some (if mem slot zero_means_unset && (v =? 0) then PNone else PNum v)
      else p_slot_value c b closed slot.
Proof. exact write_observed. Qed.

(* long/short: the slot taken for is_long = true is named after the `..long..` key, its twin for
   is_long = false after the same key with long replaced by short; unsided slots use unsided keys *)
Theorem c16_long_short_named : forall slot k, In (slot, k) param_key -> long_short_ok (slot, k) = true.
Proof. exact long_short_law. Qed.

(* the spec table and the code have the same slots; the keys / flags that name no parameter are the listed ones *)
Theorem c16_spec_covers_code :
  stale_spec_rows = [] /\ unread_keys = keys_without_parameter /\ unread_flags = flags_without_parameter.
Proof. split; [exact no_stale_spec_rows|exact unread_keys_eq]. Qed.

(* store amounts / factors / addresses *)
Theorem c16_store_amount_law : forall (c c' : @rec Z) k v, amount_set_key c k v = Some c' ->
  forall k', amount_get_key c' k' = if String.eqb k k' then Some v else amount_get_key c k'.
Proof. exact amount_table_law. Qed.
Theorem c16_store_factor_law : forall (c c' : @rec Z) k v, factor_set_key c k v = Some c' ->
  forall k', factor_get_key c' k' = if String.eqb k k' then Some v else factor_get_key c k'.
Proof. exact factor_table_law. Qed.
Theorem c16_store_address_law : forall (c c' : @rec Z) k v, address_set_key c k v = Some c' ->
  forall k', address_get_key c' k' = if String.eqb k k' then Some v else address_get_key c k'.
Proof. exact address_table_law. Qed.
(* every store key has arms; every key is writable except the documented `claimable_time_window` *)
Theorem c16_store_keys_total :
  store_keys_without_arm = []
  /\ store_writable_b amount_keys amount_get_mut amount_write_guard = filter (fun k => negb (String.eqb k "claimable_time_window")) amount_keys
  /\ store_writable_b factor_keys factor_get_mut factor_write_guard = factor_keys
  /\ store_writable_b address_keys address_get_mut address_write_guard = address_keys
  /\ forall (c : @rec Z) v, amount_set_key c "claimable_time_window" v = None.
Proof.
  split; [exact store_all_keys_have_arms|]. destruct store_writable_keys as [A [B C]].
  split; [exact A|]. split; [exact B|]. split; [exact C|]. exact claimable_time_window_write_rejected.
Qed.

(* SDK: its hand-duplicated tables equal the program's, and its MarketModel slots read the named keys *)
Theorem c16_sdk_tables_agree :
  (forall k, lookup k s_get = lookup k p_get)
  /\ s_config_flags = config_flags /\ s_market_flags = market_flags
  /\ s_helpers = p_helpers /\ s_zero_is_none = p_zero_is_none /\ s_enable_flag = p_enable_flag.
Proof.
  split; [exact (agree_b_sound _ _ sdk_get_agree)|]. destruct sdk_flag_enums as [A B]. destruct sdk_helpers_eq as [C [D E]].
  repeat split; assumption.
Qed.
Theorem c16_sdk_param_slots_named : forall slot uc, In slot (map fst s_params) -> s_slot_ok slot uc = true.
Proof.
  intros slot uc Hin.
  assert (In (slot, uc) (map (fun s => (s, false)) (map fst s_params) ++ map (fun s => (s, true)) (map fst s_params))) as H.
  { apply in_or_app. destruct uc; [right|left]; apply (in_map (fun s => (s, _))); exact Hin. }
  pose proof (filter_nil_forall _ _ s_no_bad_slots _ H) as H'. apply Bool.negb_false_iff in H'. exact H'.
Qed.

(* ---- non-vacuity ---- *)
Example c16_law_is_falsifiable_without_injectivity :
  (* two keys sharing one field break the law: writing "a" is visible through "b" *)
  let arms := [("a", "f"); ("b", "f")] in
  exists c', tset arms [] (fun _ => 0) "a" 7 = Some c' /\ tget arms c' "b" = Some 7 /\ tget arms (fun _ => 0) "b" = Some 0.
Proof. eexists. repeat split. Qed.

Example c16_closed_switch_is_real :
  named_key false "borrowing_fee_kink_model_params/short.base_borrowing_factor" = Some "borrowing_fee_base_factor_for_short"
  /\ named_key true "borrowing_fee_kink_model_params/short.base_borrowing_factor" = Some "market_closed_borrowing_fee_base_factor"
  /\ In "borrowing_fee_kink_model_params/short.base_borrowing_factor" (map fst p_params)
  /\ (60 <=? Z.of_nat (List.length p_params)) = true.
Proof. repeat split; vm_compute; try reflexivity. tauto. Qed.

Example c16_slot_value_example :
  let c : @rec Z := fun f => if String.eqb f "max_pool_amount_for_short_token" then 42 else 1 in
  p_slot_value c (fun _ => false) false "max_pool_amount/short" = Some (PNum 42)
  /\ p_slot_value c (fun _ => false) false "max_pool_amount/long" = Some (PNum 1).
Proof. split; vm_compute; reflexivity. Qed.
