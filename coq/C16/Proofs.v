(* C16 — proofs.  Part 1: the generic table law (any tables, any values, all keys).
   Part 2: its side conditions, and the parameter-slot / naming / SDK agreement facts, decided by
   vm_compute over the REGENERATED tables (finite domains) and lifted to quantified statements. *)
From GV Require Import lib.Base gen.C16Tables C16.Model C16.ParamSpec.
From Coq Require Import String.
Open Scope string_scope.
Open Scope Z_scope.

(* ------------------------------------------------------------------ list / lookup facts *)
Lemma lookup_in {A} (k : string) (l : list (string * A)) v : lookup k l = Some v -> In k (map fst l).
Proof.
  induction l as [|[k' v'] l IH]; cbn; [discriminate|].
  destruct (String.eqb k k') eqn:E; intros H.
  - apply String.eqb_eq in E. left. symmetry. exact E.
  - right. exact (IH H).
Qed.

Lemma lookup_not_in {A} (k : string) (l : list (string * A)) : ~ In k (map fst l) -> lookup k l = None.
Proof.
  intros H. destruct (lookup k l) eqn:E; [|reflexivity]. exfalso. apply H. eapply lookup_in. exact E.
Qed.

Lemma mem_true_iff k l : mem k l = true <-> In k l.
Proof.
  unfold mem. rewrite existsb_exists. split.
  - intros [x [Hin E]]. apply String.eqb_eq in E. subst. exact Hin.
  - intros H. exists k. split; [exact H|apply String.eqb_refl].
Qed.

Lemma filter_nil_forall {A} (f : A -> bool) (l : list A) :
  filter f l = [] -> forall x, In x l -> f x = false.
Proof.
  induction l as [|a l IH]; intros H x Hin; [destruct Hin|].
  cbn in H. destruct (f a) eqn:Fa; [discriminate|].
  destruct Hin as [->|Hin]; [exact Fa| exact (IH H x Hin)].
Qed.

Definition oseqb (a b : option string) : bool :=
  match a, b with
  | Some x, Some y => String.eqb x y
  | None, None => true
  | _, _ => false
  end.

Lemma oseqb_eq a b : oseqb a b = true -> a = b.
Proof.
  destruct a, b; cbn; try discriminate; try reflexivity.
  intros H. apply String.eqb_eq in H. subst. reflexivity.
Qed.

(* boolean side conditions on a pair of arm tables *)
Definition agree_b (g s : list (string * string)) : bool :=
  forallb (fun k => oseqb (lookup k g) (lookup k s)) (map fst g ++ map fst s).

Definition inj_b (g : list (string * string)) : bool :=
  forallb (fun k => forallb (fun k' =>
     match lookup k g, lookup k' g with
     | Some f, Some f' => implb (String.eqb f f') (String.eqb k k')
     | _, _ => true
     end) (map fst g)) (map fst g).

Lemma agree_b_sound g s : agree_b g s = true -> forall k, lookup k g = lookup k s.
Proof.
  unfold agree_b. rewrite forallb_forall. intros H k.
  destruct (in_dec string_dec k (map fst g ++ map fst s)) as [Hin|Hnin].
  - apply oseqb_eq. exact (H k Hin).
  - rewrite (lookup_not_in k g), (lookup_not_in k s); [reflexivity| |];
      intro Hc; apply Hnin; apply in_or_app; [right|left]; exact Hc.
Qed.

Lemma inj_b_sound g : inj_b g = true ->
  forall k k' f, lookup k g = Some f -> lookup k' g = Some f -> k = k'.
Proof.
  unfold inj_b. rewrite forallb_forall. intros H k k' f Hk Hk'.
  pose proof (H k (lookup_in _ _ _ Hk)) as H1. rewrite forallb_forall in H1.
  pose proof (H1 k' (lookup_in _ _ _ Hk')) as H2. rewrite Hk, Hk' in H2.
  rewrite String.eqb_refl in H2. cbn in H2. apply String.eqb_eq. exact H2.
Qed.

(* ------------------------------------------------------------------ Part 1: the generic law *)
Section TableLaw.
  Context {V : Type}.
  Variables (garms sarms : list (string * string)) (guard : list string).
  Hypothesis Hagree : forall k, lookup k garms = lookup k sarms.
  Hypothesis Hinj : forall k k' f, lookup k garms = Some f -> lookup k' garms = Some f -> k = k'.

  (* writing v through key k is read back through k, and through no other key *)
  Theorem table_law : forall (c c' : @rec V) k v, tset sarms guard c k v = Some c' ->
    forall k', tget garms c' k' = if String.eqb k k' then Some v else tget garms c k'.
  Proof.
    intros c c' k v Hset k'. unfold tset in Hset.
    destruct (mem k guard); [discriminate|].
    destruct (lookup k sarms) as [f|] eqn:Ef; [|discriminate]. cbn in Hset. injection Hset as <-.
    unfold tget. destruct (String.eqb k k') eqn:Ek.
    - apply String.eqb_eq in Ek. subst k'. rewrite Hagree, Ef. cbn. unfold upd. rewrite String.eqb_refl. reflexivity.
    - destruct (lookup k' garms) as [f'|] eqn:Ef'; [|reflexivity]. cbn. unfold upd.
      destruct (String.eqb f' f) eqn:Eff; [|reflexivity].
      apply String.eqb_eq in Eff. subst f'. rewrite <- Hagree in Ef.
      rewrite (Hinj k k' f Ef Ef'), String.eqb_refl in Ek. discriminate.
  Qed.

  (* a write succeeds exactly for unguarded keys that have an arm; a rejected write yields no state *)
  Theorem tset_defined : forall (c : @rec V) k v,
    tset sarms guard c k v = None <-> (mem k guard = true \/ lookup k garms = None).
  Proof.
    intros c k v. unfold tset. rewrite Hagree. destruct (mem k guard); [split; [left; reflexivity|reflexivity]|].
    destruct (lookup k sarms); cbn; split; intros H; try discriminate; try reflexivity.
    - destruct H; discriminate.
    - right. reflexivity.
  Qed.

  (* and the write touches nothing but the one field (so nothing outside the table changes either) *)
  Theorem tset_frame : forall (c c' : @rec V) k v f, tset sarms guard c k v = Some c' ->
    lookup k sarms = Some f -> forall g, g <> f -> c' g = c g.
  Proof.
    intros c c' k v f Hset Hf g Hne. unfold tset in Hset. destruct (mem k guard); [discriminate|].
    rewrite Hf in Hset. cbn in Hset. injection Hset as <-. unfold upd.
    destruct (String.eqb g f) eqn:E; [apply String.eqb_eq in E; contradiction|reflexivity].
  Qed.
End TableLaw.

(* flag containers: the law needs no side condition (the index of the first occurrence is injective) *)
Lemma index_of_inj l : forall f f' i, index_of f l = Some i -> index_of f' l = Some i -> f = f'.
Proof.
  induction l as [|g l IH]; intros f f' i Hf Hf'; [discriminate|]. cbn in Hf, Hf'.
  destruct (String.eqb f g) eqn:E1, (String.eqb f' g) eqn:E2.
  - apply String.eqb_eq in E1, E2. congruence.
  - injection Hf as <-. destruct (index_of f' l) as [j|] eqn:Ej; [|discriminate]. cbn in Hf'. injection Hf' as Hj.
    assert (0 <= j) by (clear -Ej; revert j Ej; induction l as [|h l IH]; intros j Ej; [discriminate|]; cbn in Ej;
      destruct (String.eqb f' h); [injection Ej as <-; lia|]; destruct (index_of f' l) as [j'|]; [|discriminate];
      cbn in Ej; injection Ej as <-; specialize (IH j' eq_refl); lia). lia.
  - injection Hf' as <-. destruct (index_of f l) as [j|] eqn:Ej; [|discriminate]. cbn in Hf. injection Hf as Hj.
    assert (0 <= j) by (clear -Ej; revert j Ej; induction l as [|h l IH]; intros j Ej; [discriminate|]; cbn in Ej;
      destruct (String.eqb f h); [injection Ej as <-; lia|]; destruct (index_of f l) as [j'|]; [|discriminate];
      cbn in Ej; injection Ej as <-; specialize (IH j' eq_refl); lia). lia.
  - destruct (index_of f l) as [j|] eqn:Ej; [|discriminate]. destruct (index_of f' l) as [j'|] eqn:Ej'; [|discriminate].
    cbn in Hf, Hf'. injection Hf as Hj. injection Hf' as Hj'. apply (IH f f' j); [exact Ej|]. rewrite Ej'. f_equal. lia.
Qed.

Theorem flag_law : forall enum (b b' : bits) f v, fset enum b f v = Some b' ->
  forall f', fget enum b' f' = if String.eqb f f' then Some v else fget enum b f'.
Proof.
  intros enum b b' f v Hset f'. unfold fset in Hset.
  destruct (index_of f enum) as [i|] eqn:Ei; [|discriminate]. cbn in Hset. injection Hset as <-.
  unfold fget. destruct (String.eqb f f') eqn:E.
  - apply String.eqb_eq in E. subst f'. rewrite Ei. cbn. rewrite Z.eqb_refl. reflexivity.
  - destruct (index_of f' enum) as [j|] eqn:Ej; [|reflexivity]. cbn.
    destruct (j =? i) eqn:Eji; [|reflexivity]. apply Z.eqb_eq in Eji. subst j.
    rewrite (index_of_inj enum f f' i Ei Ej), String.eqb_refl in E. discriminate.
Qed.

(* ------------------------------------------------------------------ Part 2: the regenerated tables *)
(* market config keys *)
Lemma p_agree : agree_b p_get p_get_mut = true. Proof. vm_compute. reflexivity. Qed.
Lemma p_inj : inj_b p_get = true. Proof. vm_compute. reflexivity. Qed.
Definition keys_without_arm : list string := filter (fun k => negb (is_some (lookup k p_get))) config_keys.
Lemma p_all_keys_have_arms : keys_without_arm = []. Proof. vm_compute. reflexivity. Qed.
Definition arms_without_key : list string := filter (fun k => negb (mem k config_keys)) (map fst p_get).
Lemma p_no_foreign_arms : arms_without_key = []. Proof. vm_compute. reflexivity. Qed.

Lemma p_key_has_arm : forall k, In k config_keys -> exists f, lookup k p_get = Some f.
Proof.
  intros k Hin. pose proof (filter_nil_forall _ _ p_all_keys_have_arms k Hin) as H.
  apply Bool.negb_false_iff in H. destruct (lookup k p_get) as [f|]; [exists f; reflexivity|discriminate].
Qed.

(* store tables *)
Lemma amount_agree : agree_b amount_get amount_get_mut = true. Proof. vm_compute. reflexivity. Qed.
Lemma amount_inj : inj_b amount_get = true. Proof. vm_compute. reflexivity. Qed.
Lemma factor_agree : agree_b factor_get factor_get_mut = true. Proof. vm_compute. reflexivity. Qed.
Lemma factor_inj : inj_b factor_get = true. Proof. vm_compute. reflexivity. Qed.
Lemma address_agree : agree_b address_get address_get_mut = true. Proof. vm_compute. reflexivity. Qed.
Lemma address_inj : inj_b address_get = true. Proof. vm_compute. reflexivity. Qed.
Definition store_keys_without_arm : list string :=
  filter (fun k => negb (is_some (lookup k amount_get))) amount_keys
  ++ filter (fun k => negb (is_some (lookup k factor_get))) factor_keys
  ++ filter (fun k => negb (is_some (lookup k address_get))) address_keys.
Lemma store_all_keys_have_arms : store_keys_without_arm = []. Proof. vm_compute. reflexivity. Qed.
(* the only write-guarded store key is the documented one *)
Lemma store_guards : amount_write_guard = ["claimable_time_window"] /\ factor_write_guard = [] /\ address_write_guard = [].
Proof. vm_compute. repeat split. Qed.

(* SDK tables against program tables *)
Lemma sdk_get_agree : agree_b s_get p_get = true. Proof. vm_compute. reflexivity. Qed.
Lemma sdk_flag_enums : s_config_flags = config_flags /\ s_market_flags = market_flags.
Proof. vm_compute. split; reflexivity. Qed.
Lemma sdk_helpers_eq : s_helpers = p_helpers /\ s_zero_is_none = p_zero_is_none /\ s_enable_flag = p_enable_flag.
Proof. vm_compute. repeat split. Qed.

(* ---------- parameter slots read the key they are named after ---------- *)
Definition src_is (cz : option (src * bool)) (get : list (string * string)) (k : string) (zn : bool) : bool :=
  match cz with
  | Some (SField f, z) => negb (mem k config_flags) && oseqb (lookup k get) (Some f) && Bool.eqb z zn
  | Some (SFlag f, z) => mem k config_flags && String.eqb f k && negb z && negb zn
  | _ => false
  end.

Definition p_slot_ok (slot : string) (uc : bool) : bool :=
  match lookup slot p_params, named_key uc slot with
  | Some s, Some k => src_is (slot_cell p_helpers p_zero_is_none uc s) p_get k (mem slot zero_means_unset)
  | _, _ => false
  end.

Definition p_bad_slots : list (string * bool) :=
  filter (fun su => negb (p_slot_ok (fst su) (snd su)))
         (map (fun s => (s, false)) (map fst p_params) ++ map (fun s => (s, true)) (map fst p_params)).
Lemma p_no_bad_slots : p_bad_slots = []. Proof. vm_compute. reflexivity. Qed.
Lemma p_enable_is_spec : p_enable_flag = closed_switch_flag. Proof. vm_compute. reflexivity. Qed.

Lemma p_slot_ok_all : forall slot uc, In slot (map fst p_params) -> p_slot_ok slot uc = true.
Proof.
  intros slot uc Hin.
  assert (In (slot, uc) (map (fun s => (s, false)) (map fst p_params) ++ map (fun s => (s, true)) (map fst p_params))) as H.
  { apply in_or_app. destruct uc; [right|left]; apply (in_map (fun s => (s, _))); exact Hin. }
  pose proof (filter_nil_forall _ _ p_no_bad_slots _ H) as H'. apply Bool.negb_false_iff in H'. exact H'.
Qed.

(* what reading the named key gives, as a parameter value *)
Definition key_view (c : @rec Z) (b : bits) (slot k : string) : option pval :=
  if mem k config_flags then (v <- p_get_flag b k ;; Some (PBool v))
  else (v <- p_get_key c k ;; Some (if mem slot zero_means_unset && (v =? 0) then PNone else PNum v)).

Lemma param_reads_named_key : forall slot, In slot (map fst p_params) -> forall c b closed en,
  p_get_flag b closed_switch_flag = Some en ->
  exists k, named_key (closed && en) slot = Some k /\ p_slot_value c b closed slot = key_view c b slot k.
Proof.
  intros slot Hin c b closed en Hen.
  pose proof (p_slot_ok_all slot (closed && en) Hin) as H. unfold p_slot_ok in H.
  unfold p_slot_value, slot_value. rewrite p_enable_is_spec. unfold p_get_flag in Hen. rewrite Hen. cbn [obind].
  destruct (lookup slot p_params) as [s|]; [|discriminate].
  destruct (named_key (closed && en) slot) as [k|]; [|discriminate]. exists k. split; [reflexivity|].
  cbn [obind]. unfold src_is in H.
  destruct (slot_cell p_helpers p_zero_is_none (closed && en) s) as [[cell z]|]; [|discriminate].
  cbn [obind]. unfold key_view, cell_value. cbn [fst snd].
  destruct cell as [f|f|fn fl|lit|e]; try discriminate.
  - apply andb_prop in H as [H Hz]. apply andb_prop in H as [Hnf Hl].
    apply Bool.negb_true_iff in Hnf. rewrite Hnf. apply oseqb_eq in Hl. apply Bool.eqb_prop in Hz. subst z.
    unfold p_get_key, tget. rewrite Hl. reflexivity.
  - apply andb_prop in H as [H Hzn]. apply andb_prop in H as [H Hz]. apply andb_prop in H as [Hf He].
    rewrite Hf. apply String.eqb_eq in He. subst f. unfold p_get_flag. reflexivity.
Qed.

(* SDK slots *)
Definition s_slot_ok (slot : string) (uc : bool) : bool :=
  match lookup slot s_params, sdk_named_key uc slot with
  | Some s, Some (NKey k) =>
      src_is (slot_cell s_helpers s_zero_is_none uc s) s_get k
             (existsb (fun z => String.eqb slot z) zero_means_unset)
  | Some (SLit 0), Some NZero => true
  | Some (SOther _), Some NNotConfig => true
  | _, _ => false
  end.
Definition s_bad_slots : list (string * bool) :=
  filter (fun su => negb (s_slot_ok (fst su) (snd su)))
         (map (fun s => (s, false)) (map fst s_params) ++ map (fun s => (s, true)) (map fst s_params)).
Lemma s_no_bad_slots : s_bad_slots = []. Proof. vm_compute. reflexivity. Qed.

(* ---------- coverage: which keys / flags name no parameter ---------- *)
Definition slot_reads_key (k : string) : bool :=
  existsb (fun slot => oseqb (named_key false slot) (Some k) || oseqb (named_key true slot) (Some k)) (map fst p_params).
Definition unread_keys : list string := filter (fun k => negb (slot_reads_key k)) config_keys.
Definition unread_flags : list string := filter (fun k => negb (slot_reads_key k)) config_flags.
Lemma unread_keys_eq : unread_keys = keys_without_parameter /\ unread_flags = flags_without_parameter.
Proof. vm_compute. split; reflexivity. Qed.
(* and every spec row is a real slot with a real key *)
Definition stale_spec_rows : list string :=
  map fst (filter (fun sk => negb (is_some (lookup (fst sk) p_params) && (mem (snd sk) config_keys || mem (snd sk) config_flags))) (param_key ++ closed_key)).
Lemma no_stale_spec_rows : stale_spec_rows = []. Proof. vm_compute. reflexivity. Qed.

(* ---------- long / short naming law on the hand-written spec ---------- *)
Fixpoint contains (pat s : string) : bool :=
  match s with
  | EmptyString => String.eqb pat EmptyString
  | String _ r => String.prefix pat s || contains pat r
  end.

Definition long_short_ok (sk : string * string) : bool :=
  let '(slot, k) := sk in
  if contains "long" slot
  then contains "long" k && negb (contains "short" k)
       && oseqb (slookup (replace_long slot) param_key) (Some (replace_long k))
       && negb (String.eqb (replace_long k) k)
  else if contains "short" slot
  then contains "short" k && negb (contains "long" k)
  else negb (contains "_long" k) && negb (contains "_short" k).
Definition bad_long_short : list string := map fst (filter (fun sk => negb (long_short_ok sk)) param_key).
Lemma no_bad_long_short : bad_long_short = []. Proof. vm_compute. reflexivity. Qed.

(* ---------- instances of the generic law on the regenerated tables ---------- *)
Lemma p_table_law : forall (c c' : @rec Z) k v, p_set_key c k v = Some c' ->
  forall k', p_get_key c' k' = if String.eqb k k' then Some v else p_get_key c k'.
Proof.
  intros c c' k v H k'. unfold p_get_key, p_set_key in *.
  exact (table_law p_get p_get_mut [] (agree_b_sound _ _ p_agree) (inj_b_sound _ p_inj) c c' k v H k').
Qed.

Lemma p_key_writable : forall k, In k config_keys -> forall (c : @rec Z) v, exists c', p_set_key c k v = Some c'.
Proof.
  intros k Hin c v. destruct (p_key_has_arm k Hin) as [f Hf].
  unfold p_set_key, tset. cbn [mem existsb]. rewrite <- (agree_b_sound _ _ p_agree), Hf. cbn. eexists. reflexivity.
Qed.

(* writing a key is observed through exactly the parameter slots named after it *)
Lemma write_observed : forall slot, In slot (map fst p_params) -> forall (c c' : @rec Z) b closed en k v,
  p_set_key c k v = Some c' -> p_get_flag b closed_switch_flag = Some en ->
  exists kn, named_key (closed && en) slot = Some kn /\
    p_slot_value c' b closed slot =
      if mem kn config_flags then p_slot_value c b closed slot
      else if String.eqb k kn then Some (if mem slot zero_means_unset && (v =? 0) then PNone else PNum v)
      else p_slot_value c b closed slot.
Proof.
  intros slot Hin c c' b closed en k v Hset Hen.
  destruct (param_reads_named_key slot Hin c b closed en Hen) as [kn [Hk Hv]].
  destruct (param_reads_named_key slot Hin c' b closed en Hen) as [kn' [Hk' Hv']].
  rewrite Hk in Hk'. injection Hk' as <-. exists kn. split; [exact Hk|].
  rewrite Hv', Hv. unfold key_view. destruct (mem kn config_flags); [reflexivity|].
  rewrite (p_table_law c c' k v Hset kn). destruct (String.eqb k kn); reflexivity.
Qed.

(* store *)
Lemma amount_table_law : forall (c c' : @rec Z) k v, amount_set_key c k v = Some c' ->
  forall k', amount_get_key c' k' = if String.eqb k k' then Some v else amount_get_key c k'.
Proof. intros c c' k v H k'. exact (table_law amount_get amount_get_mut amount_write_guard (agree_b_sound _ _ amount_agree) (inj_b_sound _ amount_inj) c c' k v H k'). Qed.
Lemma factor_table_law : forall (c c' : @rec Z) k v, factor_set_key c k v = Some c' ->
  forall k', factor_get_key c' k' = if String.eqb k k' then Some v else factor_get_key c k'.
Proof. intros c c' k v H k'. exact (table_law factor_get factor_get_mut factor_write_guard (agree_b_sound _ _ factor_agree) (inj_b_sound _ factor_inj) c c' k v H k'). Qed.
Lemma address_table_law : forall (c c' : @rec Z) k v, address_set_key c k v = Some c' ->
  forall k', address_get_key c' k' = if String.eqb k k' then Some v else address_get_key c k'.
Proof. intros c c' k v H k'. exact (table_law address_get address_get_mut address_write_guard (agree_b_sound _ _ address_agree) (inj_b_sound _ address_inj) c c' k v H k'). Qed.

Definition store_writable_b (keys : list string) (arms : list (string * string)) (guard : list string) : list string :=
  filter (fun k => negb (mem k guard) && is_some (lookup k arms)) keys.
Lemma store_writable_keys :
  store_writable_b amount_keys amount_get_mut amount_write_guard = filter (fun k => negb (String.eqb k "claimable_time_window")) amount_keys
  /\ store_writable_b factor_keys factor_get_mut factor_write_guard = factor_keys
  /\ store_writable_b address_keys address_get_mut address_write_guard = address_keys.
Proof. vm_compute. repeat split. Qed.

Lemma claimable_time_window_write_rejected : forall (c : @rec Z) v, amount_set_key c "claimable_time_window" v = None.
Proof. intros. unfold amount_set_key, tset. destruct store_guards as [-> _]. reflexivity. Qed.

Lemma long_short_law : forall slot k, In (slot, k) param_key -> long_short_ok (slot, k) = true.
Proof.
  intros slot k Hin. destruct (long_short_ok (slot, k)) eqn:E; [reflexivity|].
  assert (In (slot, k) (filter (fun sk => negb (long_short_ok sk)) param_key)) as H.
  { apply filter_In. split; [exact Hin|]. rewrite E. reflexivity. }
  pose proof no_bad_long_short as Hn. unfold bad_long_short in Hn.
  destruct (filter (fun sk => negb (long_short_ok sk)) param_key); [destruct H|discriminate].
Qed.
