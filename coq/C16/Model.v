(* C16 — executable model of "configuration by key": records as functions from cell names to
   values, key -> cell association lists (the Rust match arms), flag containers indexed by enum
   position, and the market-model parameter slots reading cells (directly or through the
   closed-market helpers).  Generic in the tables; the instances at the bottom use the tables
   REGENERATED from the Rust source by translate/c16.py (coq/gen/C16Tables.v).  Definitions only. *)
From GV Require Import lib.Base gen.C16Tables.
From Coq Require Import String.
Open Scope string_scope.
Open Scope Z_scope.

Fixpoint lookup {A} (k : string) (l : list (string * A)) : option A :=
  match l with
  | [] => None
  | (k', v) :: r => if String.eqb k k' then Some v else lookup k r
  end.

Definition mem (k : string) (l : list string) : bool := existsb (String.eqb k) l.

(* ---------- a keyed table over a record-as-function ---------- *)
Section Table.
  Context {V : Type}.
  Definition rec := string -> V.                       (* field name -> value *)
  Definition upd (c : rec) (f : string) (v : V) : rec := fun g => if String.eqb g f then v else c g.

  (* `get(key)`: `match key { K => &self.f, .., _ => return None }` *)
  Definition tget (arms : list (string * string)) (c : rec) (k : string) : option V :=
    f <- lookup k arms ;; Some (c f).
  (* `*get_mut(key)? = v` ; `guard` = keys whose mutable access is rejected before the match *)
  Definition tset (arms : list (string * string)) (guard : list string) (c : rec) (k : string) (v : V) : option rec :=
    if mem k guard then None else f <- lookup k arms ;; Some (upd c f v).
End Table.

(* ---------- flag containers: bit index = position of the variant in the enum ---------- *)
Fixpoint index_of (f : string) (l : list string) : option Z :=
  match l with
  | [] => None
  | g :: r => if String.eqb f g then Some 0 else i <- index_of f r ;; Some (i + 1)
  end.

Definition bits := Z -> bool.
Definition fget (enum : list string) (b : bits) (f : string) : option bool := i <- index_of f enum ;; Some (b i).
Definition fset (enum : list string) (b : bits) (f : string) (v : bool) : option bits :=
  i <- index_of f enum ;; Some (fun j => if j =? i then v else b j).

(* ---------- parameter slots ---------- *)
Definition obool_matches (pat : option bool) (x : option bool) : bool :=
  match pat, x with
  | None, _ => true
  | Some p, Some b => Bool.eqb p b
  | Some _, None => false
  end.

(* first matching row of a closed-market helper: (use_closed, for_long) *)
Fixpoint helper_row (rows : list (option bool * option bool * src)) (uc : bool) (fl : option bool) : option src :=
  match rows with
  | [] => None
  | (puc, pfl, cell) :: r =>
      if obool_matches puc (Some uc) && obool_matches pfl fl then Some cell else helper_row r uc fl
  end.

(* the storage cell a slot reads, given use_market_closed_params = uc; and whether 0 reads as None *)
Definition slot_cell (helpers : list (string * list (option bool * option bool * src))) (zn : list string)
           (uc : bool) (s : src) : option (src * bool) :=
  match s with
  | SCall fn fl => rows <- lookup fn helpers ;; c <- helper_row rows uc fl ;; Some (c, mem fn zn)
  | _ => Some (s, false)
  end.

Inductive pval := PNum (z : Z) | PBool (b : bool) | PNone | POpaque.

Definition cell_value (c : @rec Z) (enum : list string) (b : bits) (cz : src * bool) : option pval :=
  match fst cz with
  | SField f => Some (if snd cz && (c f =? 0) then PNone else PNum (c f))
  | SFlag f => v <- fget enum b f ;; Some (PBool v)
  | SLit z => Some (PNum z)
  | SOther _ => Some POpaque
  | SCall _ _ => None
  end.

(* value of a parameter slot on a market with config record c, config flag bits b, closed flag *)
Definition slot_value (params : list (string * src)) (helpers : list (string * list (option bool * option bool * src)))
           (zn : list string) (enable : string) (enum : list string)
           (c : @rec Z) (b : bits) (closed : bool) (slot : string) : option pval :=
  s <- lookup slot params ;;
  en <- fget enum b enable ;;
  cz <- slot_cell helpers zn (closed && en) s ;;
  cell_value c enum b cz.

(* ---------- instances ---------- *)
Definition p_get_key : @rec Z -> string -> option Z := tget p_get.
Definition p_set_key : @rec Z -> string -> Z -> option (@rec Z) := tset p_get_mut [].
Definition p_get_flag : bits -> string -> option bool := fget config_flags.
Definition p_set_flag : bits -> string -> bool -> option bits := fset config_flags.
Definition s_get_key : @rec Z -> string -> option Z := tget s_get.
Definition s_get_flag : bits -> string -> option bool := fget s_config_flags.
Definition p_slot_value : @rec Z -> bits -> bool -> string -> option pval :=
  slot_value p_params p_helpers p_zero_is_none p_enable_flag config_flags.
Definition s_slot_value : @rec Z -> bits -> bool -> string -> option pval :=
  slot_value s_params s_helpers s_zero_is_none s_enable_flag s_config_flags.

Definition amount_get_key : @rec Z -> string -> option Z := tget amount_get.
Definition amount_set_key : @rec Z -> string -> Z -> option (@rec Z) := tset amount_get_mut amount_write_guard.
Definition factor_get_key : @rec Z -> string -> option Z := tget factor_get.
Definition factor_set_key : @rec Z -> string -> Z -> option (@rec Z) := tset factor_get_mut factor_write_guard.
Definition address_get_key : @rec Z -> string -> option Z := tget address_get.
Definition address_set_key : @rec Z -> string -> Z -> option (@rec Z) := tset address_get_mut address_write_guard.
