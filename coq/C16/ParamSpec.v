(* C16 — SPECIFICATION, hand-written (never generated): which configuration key every
   market-model parameter is NAMED after.  Slot ids are `<trait fn>/<builder field path>`;
   a `long`/`short` path element is the `is_long` / `is_long_token` argument (true -> long).

   Source of the names: the doc comments of `MarketConfigKey` (crates/utils/src/market.rs),
   e.g. "Max pool amount for long token." <-> `max_pool_amount(is_long_token = true)`,
   "Borrowing fee base factor when market is closed." <-> kink-model base factor while the
   market is closed and `enable_market_closed_params` is set. *)
From GV Require Import lib.Base.
From Coq Require Import String.
Open Scope string_scope.
Open Scope Z_scope.

(* slot -> key (or flag) it reads while the closed-market parameter set is NOT in use *)
Definition param_key : list (string * string) := [
  ("max_pool_amount/long", "max_pool_amount_for_long_token");
  ("max_pool_amount/short", "max_pool_amount_for_short_token");
  ("pnl_factor_config/max_after_deposit.long", "max_pnl_factor_for_long_deposit");
  ("pnl_factor_config/max_after_deposit.short", "max_pnl_factor_for_short_deposit");
  ("pnl_factor_config/max_after_withdrawal.long", "max_pnl_factor_for_long_withdrawal");
  ("pnl_factor_config/max_after_withdrawal.short", "max_pnl_factor_for_short_withdrawal");
  ("pnl_factor_config/max_for_trader.long", "max_pnl_factor_for_long_trader");
  ("pnl_factor_config/max_for_trader.short", "max_pnl_factor_for_short_trader");
  ("pnl_factor_config/for_adl.long", "max_pnl_factor_for_long_adl");
  ("pnl_factor_config/for_adl.short", "max_pnl_factor_for_short_adl");
  ("pnl_factor_config/min_after_adl.long", "min_pnl_factor_after_long_adl");
  ("pnl_factor_config/min_after_adl.short", "min_pnl_factor_after_short_adl");
  ("reserve_factor/", "reserve_factor");
  ("open_interest_reserve_factor/", "open_interest_reserve_factor");
  ("max_open_interest/long", "max_open_interest_for_long");
  ("max_open_interest/short", "max_open_interest_for_short");
  ("ignore_open_interest_for_usage_factor/", "ignore_open_interest_for_usage_factor");
  ("swap_impact_params/exponent", "swap_impact_exponent");
  ("swap_impact_params/positive_factor", "swap_impact_positive_factor");
  ("swap_impact_params/negative_factor", "swap_impact_negative_factor");
  ("swap_fee_params/fee_receiver_factor", "swap_fee_receiver_factor");
  ("swap_fee_params/positive_impact_fee_factor", "swap_fee_factor_for_positive_impact");
  ("swap_fee_params/negative_impact_fee_factor", "swap_fee_factor_for_negative_impact");
  ("position_impact_params/exponent", "position_impact_exponent");
  ("position_impact_params/positive_factor", "position_impact_positive_factor");
  ("position_impact_params/negative_factor", "position_impact_negative_factor");
  ("position_impact_distribution_params/distribute_factor", "position_impact_distribute_factor");
  ("position_impact_distribution_params/min_position_impact_pool_amount", "min_position_impact_pool_amount");
  ("borrowing_fee_params/receiver_factor", "borrowing_fee_receiver_factor");
  ("borrowing_fee_params/factor_for_long", "borrowing_fee_factor_for_long");
  ("borrowing_fee_params/factor_for_short", "borrowing_fee_factor_for_short");
  ("borrowing_fee_params/exponent_for_long", "borrowing_fee_exponent_for_long");
  ("borrowing_fee_params/exponent_for_short", "borrowing_fee_exponent_for_short");
  ("borrowing_fee_params/skip_borrowing_fee_for_smaller_side", "skip_borrowing_fee_for_smaller_side");
  ("borrowing_fee_kink_model_params/long.optimal_usage_factor", "borrowing_fee_optimal_usage_factor_for_long");
  ("borrowing_fee_kink_model_params/long.base_borrowing_factor", "borrowing_fee_base_factor_for_long");
  ("borrowing_fee_kink_model_params/long.above_optimal_usage_borrowing_factor", "borrowing_fee_above_optimal_usage_factor_for_long");
  ("borrowing_fee_kink_model_params/short.optimal_usage_factor", "borrowing_fee_optimal_usage_factor_for_short");
  ("borrowing_fee_kink_model_params/short.base_borrowing_factor", "borrowing_fee_base_factor_for_short");
  ("borrowing_fee_kink_model_params/short.above_optimal_usage_borrowing_factor", "borrowing_fee_above_optimal_usage_factor_for_short");
  ("funding_fee_params/exponent", "funding_fee_exponent");
  ("funding_fee_params/funding_factor", "funding_fee_factor");
  ("funding_fee_params/max_factor_per_second", "funding_fee_max_factor_per_second");
  ("funding_fee_params/min_factor_per_second", "funding_fee_min_factor_per_second");
  ("funding_fee_params/increase_factor_per_second", "funding_fee_increase_factor_per_second");
  ("funding_fee_params/decrease_factor_per_second", "funding_fee_decrease_factor_per_second");
  ("funding_fee_params/threshold_for_stable_funding", "funding_fee_threshold_for_stable_funding");
  ("funding_fee_params/threshold_for_decrease_funding", "funding_fee_threshold_for_decrease_funding");
  ("position_params/min_position_size_usd", "min_position_size_usd");
  ("position_params/min_collateral_value", "min_collateral_value");
  ("position_params/min_collateral_factor", "min_collateral_factor");
  ("position_params/max_positive_position_impact_factor", "max_positive_position_impact_factor");
  ("position_params/max_negative_position_impact_factor", "max_negative_position_impact_factor");
  ("position_params/max_position_impact_factor_for_liquidations", "max_position_impact_factor_for_liquidations");
  ("position_params/min_collateral_factor_for_liquidation", "min_collateral_factor_for_liquidation");
  ("order_fee_params/fee_receiver_factor", "order_fee_receiver_factor");
  ("order_fee_params/positive_impact_fee_factor", "order_fee_factor_for_positive_impact");
  ("order_fee_params/negative_impact_fee_factor", "order_fee_factor_for_negative_impact");
  ("min_collateral_factor_for_open_interest_multiplier/long", "min_collateral_factor_for_open_interest_multiplier_for_long");
  ("min_collateral_factor_for_open_interest_multiplier/short", "min_collateral_factor_for_open_interest_multiplier_for_short");
  ("liquidation_fee_params/factor", "liquidation_fee_factor");
  ("liquidation_fee_params/receiver_factor", "liquidation_fee_receiver_factor");
  ("max_pool_value_for_deposit/long", "max_pool_value_for_deposit_for_long_token");
  ("max_pool_value_for_deposit/short", "max_pool_value_for_deposit_for_short_token")
].

(* closed-market parameter switch: while the market is closed AND `enable_market_closed_params`
   is set these slots read the market-closed key instead (both sides share one closed value) *)
Definition closed_switch_flag : string := "enable_market_closed_params".
Definition closed_key : list (string * string) := [
  ("position_params/min_collateral_factor_for_liquidation", "market_closed_min_collateral_factor_for_liquidation");
  ("borrowing_fee_params/skip_borrowing_fee_for_smaller_side", "market_closed_skip_borrowing_fee_for_smaller_side");
  ("borrowing_fee_kink_model_params/long.base_borrowing_factor", "market_closed_borrowing_fee_base_factor");
  ("borrowing_fee_kink_model_params/short.base_borrowing_factor", "market_closed_borrowing_fee_base_factor");
  ("borrowing_fee_kink_model_params/long.above_optimal_usage_borrowing_factor", "market_closed_borrowing_fee_above_optimal_usage_factor");
  ("borrowing_fee_kink_model_params/short.above_optimal_usage_borrowing_factor", "market_closed_borrowing_fee_above_optimal_usage_factor")
].

(* slots for which the value 0 means "not set" (the model then falls back to min_collateral_factor) *)
Definition zero_means_unset : list string := ["position_params/min_collateral_factor_for_liquidation"].

(* config keys that name no market-model parameter (read nowhere in the market model) *)
Definition keys_without_parameter : list string := ["min_tokens_for_first_deposit"].
(* flags that name no parameter of their own: the switch itself *)
Definition flags_without_parameter : list string := ["enable_market_closed_params"].

Fixpoint slookup (k : string) (l : list (string * string)) : option string :=
  match l with [] => None | (k', v) :: r => if String.eqb k k' then Some v else slookup k r end.

(* the key a program slot is named after, given whether the closed parameter set is in use *)
Definition named_key (use_closed : bool) (slot : string) : option string :=
  match (if use_closed then slookup slot closed_key else None) with
  | Some k => Some k
  | None => slookup slot param_key
  end.

(* ---- SDK MarketModel: same slots, except that swap_fee_params depends on the swap pricing kind
   (a shift charges no swap fee: both impact fee factors are the literal 0) and order_fee_params
   carries the model's own discount factor (not a config key) ---- *)
Inductive sdk_named := NKey (k : string) | NZero | NNotConfig.

Definition sdk_named_key (use_closed : bool) (slot : string) : option sdk_named :=
  let pricing (p f : string) := "swap_fee_params/pricing_" ++ p ++ "." ++ f in
  if String.eqb slot "order_fee_params/discount_factor" then Some NNotConfig
  else if String.eqb slot (pricing "shift" "positive_impact_fee_factor") || String.eqb slot (pricing "shift" "negative_impact_fee_factor") then Some NZero
  else
    let unpriced :=
      fold_left (fun acc p => fold_left (fun acc f => if String.eqb slot (pricing p f) then Some ("swap_fee_params/" ++ f) else acc)
                                         ["fee_receiver_factor"; "positive_impact_fee_factor"; "negative_impact_fee_factor"] acc)
                ["shift"; "swap"; "deposit"; "withdrawal"] None in
    match unpriced with
    | Some s => match named_key use_closed s with Some k => Some (NKey k) | None => None end
    | None => if String.eqb (substring 0 16 slot) "swap_fee_params/" then None
              else match named_key use_closed slot with Some k => Some (NKey k) | None => None end
    end.

(* long/short naming law used to cross-check this hand-written table against itself:
   replacing the path element `long` by `short` in a slot replaces `long` by `short` in its key *)
Fixpoint replace_long_from (skip : nat) (s : string) : string :=
  match s with
  | EmptyString => EmptyString
  | String a r =>
      match skip with
      | S n => replace_long_from n r
      | O => if String.prefix "long" s then "short" ++ replace_long_from 3 r else String a (replace_long_from 0 r)
      end
  end.
Definition replace_long : string -> string := replace_long_from 0.
