(* C05 — lemmas: value bound of a swap, funded impact, zero-fee / zero-impact conversion. *)
From GV Require Import lib.Base lib.DivLemmas C01.Model C01.Proofs MK.Market MK.Swap MK.MarketProofs MK.SwapProofs.
Open Scope Z_scope.
Ltac Zify.zify_post_hook ::= Z.div_mod_to_equations.

(* USD value of the positive price impact actually funded by the two swap-impact pools *)
Definition funded_impact_value (ps : prices) (il : bool) (r : swap_report) (t : swap_trace) : Z :=
  if 0 <? sr_impact_value r
  then sr_impact_amount r * pr_max (side_price ps (negb il)) + st_capped_in t * pr_min (side_price ps il)
  else 0.

Section P.
  Variable w : Z.
  Hypothesis Hw : 1 <= w.
  Variable unit : Z.
  Hypothesis Hunit : 0 < unit.
  Variable cfg : config.

  (* out * p_out.max <= in_after_fees * p_in.min + funded positive impact value *)
  Lemma swap_value_bound s il a ps s' r t :
    wf_state w s -> wf_prices w ps -> in_range w a ->
    swap_exec_trace w unit cfg s il a ps = Ok (s', r, t) ->
    sr_out r * pr_max (side_price ps (negb il))
      <= st_after_fees t * pr_min (side_price ps il) + funded_impact_value ps il r t.
  Proof.
    intros Hs Hp Ha H. pose proof (side_price_wf w ps il Hp) as [[Hmin _] _].
    app swap_exec_trace_ok H. destruct H. unfold funded_impact_value.
    destruct (0 <? sr_impact_value r) eqn:E.
    - destruct sf_pos as (T & O & _); [lia|]. rewrite O, T in *. nia.
    - destruct sf_nonpos as (T & O & _); [lia|]. rewrite O, T in *. nia.
  Qed.

  (* the funded amounts are bounded by the impact-pool balances they are paid from, they are
     exactly what leaves those pools, and (for p_in.min <= p_in.max) their value never exceeds
     the impact value earned *)
  Lemma swap_funded_bounds s il a ps s' r t :
    wf_state w s -> wf_prices w ps -> in_range w a ->
    swap_exec_trace w unit cfg s il a ps = Ok (s', r, t) -> 0 < sr_impact_value r ->
    0 <= sr_impact_amount r <= pamount (swap_impact s) (negb il) /\
    0 <= st_capped_in t <= pamount (swap_impact s) il /\
    pamount (swap_impact s') (negb il) = pamount (swap_impact s) (negb il) - sr_impact_amount r /\
    pamount (swap_impact s') il = pamount (swap_impact s) il - st_capped_in t /\
    sr_impact_amount r * pr_max (side_price ps (negb il)) + st_capped_in t * pr_max (side_price ps il)
      <= sr_impact_value r /\
    (pr_min (side_price ps il) <= pr_max (side_price ps il) ->
       funded_impact_value ps il r t <= sr_impact_value r).
  Proof.
    intros Hs Hp Ha H Hpos. app swap_exec_trace_ok H. destruct H. unfold funded_impact_value.
    replace (0 <? sr_impact_value r) with true by lia.
    destruct (sf_pos Hpos) as (T & O & B1 & B2 & B3).
    repeat split; try lia. intros Hmm. nia.
  Qed.

  (* no positive impact: the output is worth at most the input after fees (and after the
     negative impact amount), converted at p_in.min / p_out.max and rounded down *)
  Lemma swap_nonpositive_impact s il a ps s' r t :
    wf_state w s -> wf_prices w ps -> in_range w a ->
    swap_exec_trace w unit cfg s il a ps = Ok (s', r, t) -> sr_impact_value r <= 0 ->
    sr_out r = (st_after_fees t - sr_impact_amount r) * pr_min (side_price ps il) / pr_max (side_price ps (negb il)) /\
    sr_out r * pr_max (side_price ps (negb il)) <= a * pr_min (side_price ps il) /\
    pamount (swap_impact s') il = pamount (swap_impact s) il + sr_impact_amount r /\
    pamount (swap_impact s') (negb il) = pamount (swap_impact s) (negb il).
  Proof.
    intros Hs Hp Ha H Hneg. pose proof (side_price_wf w ps il Hp) as [[Hmin _] _].
    app swap_exec_trace_ok H. destruct H.
    destruct (sf_nonpos Hneg) as (T & O & C & P & _).
    split; [|split; [|split]]; try lia.
    rewrite O, <- T. symmetry. apply div_floor_unique; lia.
  Qed.

  (* zero fee factors and zero price impact: the output is the input converted at the least
     favourable prices, rounded down *)
  Lemma swap_zero_fee_zero_impact s il a ps s' r t :
    wf_state w s -> wf_prices w ps -> in_range w a ->
    fp_positive (c_swap_fee cfg) = 0 -> fp_negative (c_swap_fee cfg) = 0 ->
    swap_exec_trace w unit cfg s il a ps = Ok (s', r, t) -> sr_impact_value r = 0 ->
    sr_out r = a * pr_min (side_price ps il) / pr_max (side_price ps (negb il)) /\
    f_receiver (sr_fees r) = 0 /\ f_pool (sr_fees r) = 0 /\ sr_impact_amount r = 0.
  Proof.
    intros Hs Hp Ha Hf1 Hf2 H Hz.
    pose proof (swap_exec_trace_parts w unit cfg _ _ _ _ _ _ _ H) as (d & bc & _ & F).
    assert (Hff : fee_factor (c_swap_fee cfg) bc = 0) by (destruct bc; cbn; assumption).
    eapply apply_fees_zero in F; eauto. destruct F as (Faft & Fr & Fp).
    pose proof H as K. app swap_nonpositive_impact K. destruct K as (O & _).
    app swap_exec_trace_ok H. destruct H.
    destruct sf_nonpos as (_ & _ & _ & _ & Z0 & _); [lia|]. specialize (Z0 Hz).
    rewrite O, Faft, Z0, Z.sub_0_r. auto.
  Qed.

  (* a market configured with zero impact factors always has zero price impact *)
  Lemma swap_zero_impact_config s il a ps s' r t :
    ip_positive (c_swap_impact cfg) = 0 -> ip_negative (c_swap_impact cfg) = 0 ->
    swap_exec_trace w unit cfg s il a ps = Ok (s', r, t) -> sr_impact_value r = 0.
  Proof.
    intros Hp Hn H.
    pose proof (swap_exec_trace_parts w unit cfg _ _ _ _ _ _ _ H) as (d & bc & I & _).
    eapply swap_impact_value_zero_factors; eassumption.
  Qed.
End P.
