(* C05 — correspondence and oracle over the histories printed by harness/src/bin/c05.rs
   (same syntax and driver as C04; swap-heavy mix with more zero-fee / zero-impact markets). *)
From GV Require Export lib.Base C01.Model MK.Market MK.Swap MK.Liquidity MK.Case.
Open Scope Z_scope.

Definition case := MK.Case.case.

(* model vs implementation on every action of the history *)
Definition corr_b (c : case) : bool :=
  match c with Hist w dec cfg init ops => corr_ops_all w (10 ^ dec) cfg init ops end.

(* The property on the implementation's own outputs, without the model.
   For a successful swap with report (out, impact value, impact amount, fees):
     after      := amount - receiver fee - pool fee          (input after fees)
     capped_in  := decrease of the input token's impact pool  (0 unless positive impact was capped)
   positive impact:  out * p_out.max <= after * p_in.min + impact_amount * p_out.max + capped_in * p_in.min,
                     each impact amount is at most the impact-pool balance it is paid from and
                     the pools are debited by exactly these amounts, and the funded value never
                     exceeds the earned impact value;
                     exactly: out - impact_amount = floor((after + capped_in) * p_in.min / p_out.max)
   non-positive:     out * p_out.max <= (after - impact_amount) * p_in.min, exactly the floor;
                     the input token's impact pool is credited with impact_amount
   zero fees and zero impact: out = floor(amount * p_in.min / p_out.max). *)
Definition floor_ok (n d r : Z) : bool := (d * r <=? n) && (n <? d * r + d).

Definition swap_value_b (pre post : mstate) (il : bool) (a : Z) (ps : prices) (r : swap_report) : bool :=
  let pin := side_price ps il in
  let pout := side_price ps (negb il) in
  let after := a - f_receiver (sr_fees r) - f_pool (sr_fees r) in
  let imp_in0 := pamount (swap_impact pre) il in
  let imp_in1 := pamount (swap_impact post) il in
  let imp_out0 := pamount (swap_impact pre) (negb il) in
  let imp_out1 := pamount (swap_impact post) (negb il) in
  let out := sr_out r in
  let pia := sr_impact_amount r in
  (0 <=? after) && (0 <=? f_receiver (sr_fees r)) && (0 <=? f_pool (sr_fees r)) && (0 <=? pia) &&
  (if 0 <? sr_impact_value r then
     let cin := imp_in0 - imp_in1 in
     (0 <=? cin) && (pia <=? imp_out0) && (cin <=? imp_in0) && (imp_out1 =? imp_out0 - pia) &&
     (out * pr_max pout <=? after * pr_min pin + pia * pr_max pout + cin * pr_min pin) &&
     (pia * pr_max pout + cin * pr_max pin <=? sr_impact_value r) &&
     floor_ok ((after + cin) * pr_min pin) (pr_max pout) (out - pia)
   else
     (imp_in1 =? imp_in0 + pia) && (imp_out1 =? imp_out0) &&
     (out * pr_max pout <=? after * pr_min pin) &&
     floor_ok ((after - pia) * pr_min pin) (pr_max pout) out &&
     (if sr_impact_value r =? 0 then pia =? 0 else true) &&
     (if (sr_impact_value r =? 0) && (after =? a) then out =? a * pr_min pin / pr_max pout else true)).

Definition op_oracle (pre : mstate) (o : op) : bool :=
  match o with
  | OSwap il a ps (Ok r) _ => swap_value_b pre (op_post pre o) il a ps r
  | _ => true
  end.

Fixpoint oracle_ops (s : mstate) (ops : list op) : bool :=
  match ops with
  | [] => true
  | o :: rest => op_oracle s o && oracle_ops (op_post s o) rest
  end.

Definition oracle_b (c : case) : bool :=
  match c with Hist _ _ _ init ops => oracle_ops init ops end.

Definition known_b (c : case) : Z := 0.
