(* C05 — "A swap never pays out more value than it takes in, beyond capped impact": theorems only. *)
From GV Require Import lib.Base C01.Model MK.Market MK.Swap MK.MarketProofs MK.SwapProofs C05.Proofs MK.Examples.
Open Scope Z_scope.

(* [use L]: apply lemma L to the hypothesis stating that the swap succeeded (this fixes w, unit, cfg
   and the request), discharge its premises from the context *)
Ltac use L := intros; lazymatch goal with H : _ = Ok _ |- _ => eapply L in H; [exact H|eassumption..] end.

(* [swap_exec_trace] is [swap_exec] that additionally returns the intermediate amounts of
   Swap::try_execute: the input after fees, the amount converted, the amount taken from the
   input token's impact pool when positive impact was capped, and the pool amount out. *)
Theorem c05_trace_is_exec : forall w unit cfg s il a ps,
  swap_exec w unit cfg s il a ps =
  match swap_exec_trace w unit cfg s il a ps with Ok (s', r, _) => Ok (s', r) | Err e => Err e end.
Proof. intros. unfold swap_exec. destruct (swap_exec_trace w unit cfg s il a ps) as [[[s' r] t]|e]; reflexivity. Qed.

(* value of the output at the maximum output price <= value of the input after fees at the
   minimum input price + the positive impact funded by the two swap-impact pools *)
Theorem c05_swap_value_bound : forall w, 1 <= w -> forall unit, 0 < unit -> forall cfg s il a ps s' r t,
  wf_state w s -> wf_prices w ps -> in_range w a ->
  swap_exec_trace w unit cfg s il a ps = Ok (s', r, t) ->
  sr_out r * pr_max (side_price ps (negb il))
    <= st_after_fees t * pr_min (side_price ps il) + funded_impact_value ps il r t.
Proof. use swap_value_bound. Qed.

(* the funded impact: each amount is at most the impact-pool balance it is paid from, it is
   exactly what leaves that pool, and its value is at most the impact value earned *)
Theorem c05_swap_funded_bounds : forall w, 1 <= w -> forall unit, 0 < unit -> forall cfg s il a ps s' r t,
  wf_state w s -> wf_prices w ps -> in_range w a ->
  swap_exec_trace w unit cfg s il a ps = Ok (s', r, t) -> 0 < sr_impact_value r ->
  0 <= sr_impact_amount r <= pamount (swap_impact s) (negb il) /\
  0 <= st_capped_in t <= pamount (swap_impact s) il /\
  pamount (swap_impact s') (negb il) = pamount (swap_impact s) (negb il) - sr_impact_amount r /\
  pamount (swap_impact s') il = pamount (swap_impact s) il - st_capped_in t /\
  sr_impact_amount r * pr_max (side_price ps (negb il)) + st_capped_in t * pr_max (side_price ps il)
    <= sr_impact_value r /\
  (pr_min (side_price ps il) <= pr_max (side_price ps il) ->
     funded_impact_value ps il r t <= sr_impact_value r).
Proof. use swap_funded_bounds. Qed.

(* no positive impact: exact conversion, rounded down, of the input after fees and after the
   negative impact amount; never more than the gross input is worth *)
Theorem c05_swap_nonpositive_impact : forall w, 1 <= w -> forall unit, 0 < unit -> forall cfg s il a ps s' r t,
  wf_state w s -> wf_prices w ps -> in_range w a ->
  swap_exec_trace w unit cfg s il a ps = Ok (s', r, t) -> sr_impact_value r <= 0 ->
  sr_out r = (st_after_fees t - sr_impact_amount r) * pr_min (side_price ps il) / pr_max (side_price ps (negb il)) /\
  sr_out r * pr_max (side_price ps (negb il)) <= a * pr_min (side_price ps il) /\
  pamount (swap_impact s') il = pamount (swap_impact s) il + sr_impact_amount r /\
  pamount (swap_impact s') (negb il) = pamount (swap_impact s) (negb il).
Proof. use swap_nonpositive_impact. Qed.

(* zero fees and zero impact: out = floor(in * p_in.min / p_out.max) *)
Theorem c05_swap_zero_fee_zero_impact : forall w, 1 <= w -> forall unit, 0 < unit -> forall cfg s il a ps s' r t,
  wf_state w s -> wf_prices w ps -> in_range w a ->
  fp_positive (c_swap_fee cfg) = 0 -> fp_negative (c_swap_fee cfg) = 0 ->
  swap_exec_trace w unit cfg s il a ps = Ok (s', r, t) -> sr_impact_value r = 0 ->
  sr_out r = a * pr_min (side_price ps il) / pr_max (side_price ps (negb il)) /\
  f_receiver (sr_fees r) = 0 /\ f_pool (sr_fees r) = 0 /\ sr_impact_amount r = 0.
Proof. use swap_zero_fee_zero_impact. Qed.

(* zero impact factors in the configuration give zero impact on every swap *)
Theorem c05_swap_zero_impact_config : forall w, 1 <= w -> forall unit, 0 < unit -> forall cfg s il a ps s' r t,
  ip_positive (c_swap_impact cfg) = 0 -> ip_negative (c_swap_impact cfg) = 0 ->
  swap_exec_trace w unit cfg s il a ps = Ok (s', r, t) -> sr_impact_value r = 0.
Proof. use swap_zero_impact_config. Qed.

(* ---------- non-vacuity: concrete u64/9 markets ---------- *)
(* capped positive impact: 5 long tokens from the long impact pool, 7 short tokens from the
   short impact pool; funded value 5*121 + 7*1 = 612 <= impact value 1600 *)
Example c05_ex_capped :
  exists s' r t, swap_exec_trace 64 (10 ^ 9) cfg64 ex_market_small_impact false 10000000000 ex_prices = Ok (s', r, t) /\
    sr_out r = 82603310 /\ sr_impact_value r = 1600 /\ sr_impact_amount r = 5 /\ st_capped_in t = 7 /\
    st_after_fees t = 9995000000 /\ funded_impact_value ex_prices false r t = 612.
Proof. eexists. eexists. eexists. split; [vm_compute; reflexivity|]. repeat split. Qed.

(* negative impact *)
Example c05_ex_negative :
  exists s' r t, swap_exec_trace 64 (10 ^ 9) cfg64 ex_market true 1000000 ex_prices = Ok (s', r, t) /\
    sr_out r = 119915880 /\ sr_impact_value r = -77 /\ sr_impact_amount r = 1 /\ st_after_fees t = 999300.
Proof. eexists. eexists. eexists. split; [vm_compute; reflexivity|]. repeat split. Qed.

(* zero fees, zero impact factors: plain conversion 1000000 * 120 / 1 *)
Example c05_ex_zero :
  exists s' r t, swap_exec_trace 64 (10 ^ 9) cfg64_zero ex_market true 1000000 ex_prices = Ok (s', r, t) /\
    sr_out r = 120000000 /\ sr_impact_value r = 0.
Proof. eexists. eexists. eexists. split; [vm_compute; reflexivity|]. repeat split. Qed.
