(* C08 — Market token accounting is conserved and funding payouts stay backed (position operations).
   Statements only.  macc m t = liquidity + swap impact + claimable fees + collateral sums of token t.

   PARTIAL with respect to the property text:
   * proved: the exact ledger identity of every position operation (increase, decrease, liquidation order; fee-state
     updates do not touch the ledger pools), with the funding fees collected as the only residual term, and the
     per-round backing of claimable funding (pure arithmetic about the packing / unpacking of the funding indices);
   * not proved: the accumulation of the per-round backing over whole histories (the accrual invariant
     A*cash_residual + accrued_payable - accrued_claimable >= 0 is checked by the oracle on every generated history);
     deposits / withdrawals / swaps belong to the liquidity checks (C04-C06);
   * two known findings (witnesses below): the CASH residual can be negative (class 1), and a cost remainder that
     converts to zero secondary-output tokens is treated as paid (class 2). *)
From GV Require Import lib.Base C01.Model PS.Model PS.Actions PS.Hist C07.Props C08.Model C08.Proofs C08.Waterfall C08.Ledger C08.Funding C08.Corr.
Open Scope Z_scope.

(* close a goal by a lemma whose section hypotheses (1 <= w, 0 < unit) may or may not have been used *)
Ltac usel L := first [ exact L | intros w Hw unit; first [exact (L w Hw unit) | exact (L w unit)] | intros w Hw unit Hu; first [exact (L w Hw unit Hu) | exact (L w Hw unit) | exact (L w unit)] ].

(* 1. increase: the collateral token's accounted holdings grow by the deposit minus the funding fee collected
      (which stays in the vault as funding residual); the other token is untouched *)
Theorem c08_ledger_increase : forall w, 1 <= w -> forall unit p m pr ci sd acc p1 m' rep,
  increase w unit p m pr ci sd acc = Ok (p1, m', rep) ->
  forall t, macc m' t = macc m t + on (coll_long p) t (ci - f_fund (ir_fees rep)).
Proof. usel ledger_increase. Qed.

(* 2. decrease (plain / ADL flags): holdings change exactly by the tokens handed out (output, secondary output,
      claimable collateral for the holding account and for the user) and by K - D, where
      K = funding fees collected in the collateral token (0 <= K <= charged; K = charged up to a remainder worth less
          than one base unit of the pnl token when nothing was paid in the secondary token and the close did not
          stop at the funding step),
      D = fees credited to the pools although not paid: D = 0 when pnl token = collateral token, and in general
          D is worth less than one base unit of the pnl token (known class 2) *)
Theorem c08_ledger_decrease_partial : forall w, 1 <= w -> forall unit p m pr sd0 acc cw fl p1 m' rep,
  0 <= size_usd p -> 0 <= coll p -> 0 <= c_funding_adj (m_cfg m) ->
  0 < pmin (out_price pr p) -> 0 < pmin (pnl_price pr p) -> 0 < pmax (pnl_price pr p) ->
  decrease w unit p m pr sd0 acc cw fl = Ok (p1, m', rep) ->
  exists K D,
    (forall t, macc m' t = macc m t - dec_out p rep t - on (coll_long p) t (K - D)) /\
    0 <= K <= f_fund (dr_fees rep) /\ 0 <= D /\ D * pmin (out_price pr p) < pmin (pnl_price pr p) /\
    (same_tokens p = true -> D = 0) /\
    (dr_insolvent_step rep <> Some S_FUNDING -> dr_hold_sec rep = 0 ->
       (f_fund (dr_fees rep) - K) * pmin (out_price pr p) < pmin (pnl_price pr p)).
Proof. usel ledger_decrease. Qed.

Theorem c08_ledger_liquidation_partial : forall w, 1 <= w -> forall unit p m pr sd acc cw p1 m' rep,
  0 <= size_usd p -> 0 <= coll p -> 0 <= c_funding_adj (m_cfg m) ->
  0 < pmin (out_price pr p) -> 0 < pmin (pnl_price pr p) -> 0 < pmax (pnl_price pr p) ->
  liquidate w unit p m pr sd acc cw = Ok (p1, m', rep) ->
  exists K D,
    (forall t, macc m' t = macc m t - dec_out p rep t - on (coll_long p) t (K - D)) /\
    0 <= K <= f_fund (dr_fees rep) /\ 0 <= D /\ D * pmin (out_price pr p) < pmin (pnl_price pr p) /\
    (same_tokens p = true -> D = 0) /\
    (dr_insolvent_step rep <> Some S_FUNDING -> dr_hold_sec rep = 0 ->
       (f_fund (dr_fees rep) - K) * pmin (out_price pr p) < pmin (pnl_price pr p)).
Proof. usel ledger_liquidate. Qed.

(* 2'. exact identity outside class 2: same token for pnl and collateral, funding fully collected *)
Theorem c08_ledger_decrease_same_token : forall w, 1 <= w -> forall unit p m pr sd0 acc cw fl p1 m' rep,
  0 <= size_usd p -> 0 <= coll p -> 0 <= c_funding_adj (m_cfg m) ->
  0 < pmin (out_price pr p) -> 0 < pmax (pnl_price pr p) -> same_tokens p = true ->
  decrease w unit p m pr sd0 acc cw fl = Ok (p1, m', rep) ->
  dr_insolvent_step rep <> Some S_FUNDING -> dr_hold_sec rep = 0 ->
  forall t, macc m' t = macc m t - dec_out p rep t - on (coll_long p) t (f_fund (dr_fees rep)).
Proof.
  intros w Hw unit p m pr sd0 acc cw fl p1 m' rep HS HC Ha Hcp Hppx Hs H Hstep Hh t.
  assert (Hpp : pmin (pnl_price pr p) = pmin (out_price pr p)) by (apply same_tokens_prices; exact Hs).
  assert (Hpp' : 0 < pmin (pnl_price pr p)) by (rewrite Hpp; exact Hcp).
  destruct (ledger_decrease w Hw unit _ _ _ _ _ _ _ _ _ _ HS HC Ha Hcp Hpp' Hppx H) as (K & D & L & BK & BD & _ & Z0 & Full).
  specialize (Full Hstep Hh). rewrite Hpp in Full. rewrite (Z0 Hs) in L.
  assert (K = f_fund (dr_fees rep)) by nia. rewrite L. subst K. replace (f_fund (dr_fees rep) - 0) with (f_fund (dr_fees rep)) by lia. reflexivity.
Qed.

(* 3. the waterfall itself: CollateralProcessor::process conserves tokens (pools + buckets) up to K and D *)
Theorem c08_process_costs_conserves : forall w, 1 <= w -> forall pr p,
  0 < pmin (out_price pr p) -> 0 < pmin (pnl_price pr p) -> 0 < pmax (pnl_price pr p) ->
  forall m fs pnl piv diff ins st stp,
  0 <= coll p -> 0 <= f_fund fs -> 0 <= diff ->
  process_costs w pr p m fs pnl piv diff ins = Ok (st, stp) ->
  exists K D,
    delta p (MkPState m 0 0 (coll p) 0 0 0 0 fs) st (K - D) /\ nn st /\ f_fund (st_fees st) = f_fund fs /\
    0 <= K <= f_fund fs /\ 0 <= D /\ D * pmin (out_price pr p) < pmin (pnl_price pr p) /\ (same_tokens p = true -> D = 0) /\
    (stp <> Some S_FUNDING -> st_hold_sec st = 0 -> (f_fund fs - K) * pmin (out_price pr p) < pmin (pnl_price pr p)).
Proof. intros w Hw pr p H1 H2 H3. exact (process_costs_ledger w Hw pr p H1 H2 H3). Qed.

(* 4. a funding round is backed, per collateral token: what the receivers can claim for the round (index packed
      rounding down, amounts unpacked rounding down) never exceeds what the payers are charged for it (index packed
      rounding up, amounts unpacked rounding up).  payers / receivers = position sizes; by C07 their sums are the
      open-interest pool amounts the real update divides by. *)
Theorem c08_funding_round_backed_partial : forall w, 1 <= w -> forall unit, 0 < unit ->
  forall adj fv price dpay drec (payers receivers : list Z),
  0 <= fv -> 0 < adj -> 0 < price -> 0 <= zsum payers -> 0 <= zsum receivers ->
  (zsum payers = 0 -> fv = 0) ->
  pack_funding w unit adj fv (zsum payers) price true = Some dpay ->
  pack_funding w unit adj fv (zsum receivers) price false = Some drec ->
  claimable (adj * unit) drec receivers <= charged (adj * unit) dpay payers.
Proof. usel funding_round_backed. Qed.

(* 4'. settling a position: the payer is charged at least, the receiver credited at most, the exact accrued share *)
Theorem c08_unpack_rounding : forall w, 1 <= w -> forall unit, 0 < unit -> forall adj latest pv size ru r,
  0 <= size -> 0 < adj ->
  unpack_funding w unit adj latest pv size ru = Some r ->
  0 <= latest - pv /\ r = if ru then cdivZ (size * (latest - pv)) (adj * unit) else size * (latest - pv) / (adj * unit).
Proof. usel unpack_funding_val. Qed.

(* ---- known finding, class 2 (UnpaidCostTreatedAsPaid): witness on the model = the scripted replay executed on
        the real code (ps --mode c08, case 0): long position, collateral in the short token (price 1), pnl token
        worth 901500000 per unit; the loss eats the collateral, the remaining 101500000 + the order fee 500000000
        convert to 0 pnl tokens and count as paid: the pools are credited 500000000 tokens that nobody paid *)
Definition w2_s0 : mstate := let z := MkPool 0 0 in MkMState (MkPool 1000000 100000000000000) z z z z z z z z z z z z z z z None None.
Definition w2_ps0 := [MkPos true false 0 0 0 0 0 0 0; MkPos false false 0 0 0 0 0 0 0].
Definition w2_pr (x : Z) := MkPrices (MkPrice x x) (MkPrice x x) (MkPrice 1 1).
Definition w2_world := step 64 (10 ^ 9) ex_cfg (w2_s0, w2_ps0) (OpInc 0 (w2_pr 1000000000) 100000000000 1000000000000 None).
Definition w2_p := get_pos (snd w2_world) 0.
Definition w2_m := mk_market ex_cfg (fst w2_world).
Definition w2_out := Eval vm_compute in
  (decrease 64 (10 ^ 9) w2_p w2_m (w2_pr 901500000) 1000000000000 None 0 (MkFlags false false false)).

Theorem c08_unpaid_cost_treated_as_paid_refuted :
  decrease 64 (10 ^ 9) w2_p w2_m (w2_pr 901500000) 1000000000000 None 0 (MkFlags false false false) = w2_out /\
  match w2_out with
  | Ok (_, m', rep) =>
      same_tokens w2_p = false /\ f_fund (dr_fees rep) = 0 /\ dr_insolvent_step rep = None /\
      macc m' false = macc w2_m false - dec_out w2_p rep false + 500000000
  | Err _ => False
  end.
Proof. split; [vm_compute; reflexivity|]. vm_compute. repeat split; reflexivity. Qed.

(* ---- known finding, class 1 (ClaimBeforeCollection): witness = a history executed on the real code
        (ps --mode c08, case 1): long and short opened, one hour of funding, the short (receiver) closes first and
        is paid 2926829 long tokens of claimable funding before any funding fee was collected *)
Definition wit_claim_first : case :=
  H8 (Hist 64 9 (MkConfig (MkPosParams 1000000000 1000000000 10000000 None 5000000 5000000 2500000) (MkImpactParams 2000000000 1 2) (MkFeeParams 500000
    700000 370000000 None) 370000000 2000000 370000000 1000000000 1000000000 500000000 500000000 0 18446744073709551615 0 10000) (MkMState (MkPool
    1000000000000 100000000000000) (MkPool 0 0) (MkPool 0 0) (MkPool 0 0) (MkPool 0 0) (MkPool 0 0) (MkPool 0 0) (MkPool 0 0) (MkPool 0 0) (MkPool 0
    0) (MkPool 0 0) (MkPool 0 0) (MkPool 0 0) (MkPool 0 0) (MkPool 0 0) (MkPool 0 0) None None) [(MkPos true true 0 0 0 0 0 0 0); (MkPos false false 0
    0 0 0 0 0 0)] [(OpFees (MkMState (MkPool 1000000000000 100000000000000) (MkPool 0 0) (MkPool 0 0) (MkPool 0 0) (MkPool 0 0) (MkPool 0 0) (MkPool 0
    0) (MkPool 0 0) (MkPool 0 0) (MkPool 0 0) (MkPool 0 0) (MkPool 0 0) (MkPool 0 0) (MkPool 0 0) (MkPool 0 0) (MkPool 0 0) None None), OutFees, MkAux
    false (Ok None) (Ok None)); (OpInc 0 (MkPrices (MkPrice 123 123) (MkPrice 123 123) (MkPrice 1 1)) 20000000000 10000000000000 None, OutInc (Ok
    ((MkPos true true 19943089431 10000000000000 81299186991 0 0 0 0), (MkMState (MkPool 1000035853659 100000000000000) (MkPool 0 0) (MkPool 21056910
    0) (MkPool 10000000000000 0) (MkPool 0 0) (MkPool 81299186991 0) (MkPool 0 0) (MkPool 1626017 0) (MkPool 0 0) (MkPool 0 0) (MkPool 0 0) (MkPool 0
    0) (MkPool 0 0) (MkPool 0 0) (MkPool 19943089431 0) (MkPool 0 0) None None), (MkIncReport (-200000000) (-1626017) 81299186991 123 19943089431
    (MkFees 7000000000 35853659 21056910 7000000000 0 0 0 0 0 None) 0 0))), MkAux false (Err 1) (Ok None)); (OpInc 1 (MkPrices (MkPrice 123 123)
    (MkPrice 123 123) (MkPrice 1 1)) 2000000000000 5000000000000 None, OutInc (Ok ((MkPos false false 1997500000000 5000000000000 40649796749 0 0 0
    0), (MkMState (MkPool 1000035853659 100001575000000) (MkPool 0 0) (MkPool 21056910 925000000) (MkPool 10000000000000 0) (MkPool 0 5000000000000)
    (MkPool 81299186991 0) (MkPool 0 40649796749) (MkPool 1016261 0) (MkPool 0 0) (MkPool 0 0) (MkPool 0 0) (MkPool 0 0) (MkPool 0 0) (MkPool 0 0)
    (MkPool 19943089431 0) (MkPool 0 1997500000000) None None), (MkIncReport 75000000 609756 40649796749 123 1997500000000 (MkFees 2500000000
    1575000000 925000000 2500000000 0 0 0 0 0 None) 0 0))), MkAux false (Err 1) (Ok None)); (OpFees (MkMState (MkPool 1000035853659 100001575000000)
    (MkPool 0 0) (MkPool 21056910 925000000) (MkPool 10000000000000 0) (MkPool 0 5000000000000) (MkPool 81299186991 0) (MkPool 0 40649796749) (MkPool
    1016261 0) (MkPool 3600 0) (MkPool 0 0) (MkPool 2926830 0) (MkPool 0 0) (MkPool 0 0) (MkPool 5853658 0) (MkPool 19943089431 0) (MkPool 0
    1997500000000) None None), OutFees, MkAux false (Ok None) (Ok None)); (OpDec 1 (MkPrices (MkPrice 123 123) (MkPrice 123 123) (MkPrice 1 1))
    5000000000000 None 0 (MkFlags false false false), OutDec (Ok ((MkPos false false 0 0 0 0 0 5853658 0), (MkMState (MkPool 1000035853659
    100003855000127) (MkPool 0 0) (MkPool 21056910 2220000000) (MkPool 10000000000000 0) (MkPool 0 0) (MkPool 81299186991 0) (MkPool 0 0) (MkPool
    2235773 0) (MkPool 3600 0) (MkPool 0 0) (MkPool 2926830 0) (MkPool 0 0) (MkPool 0 0) (MkPool 5853658 0) (MkPool 19943089431 0) (MkPool 0 0) None
    None), (MkDecReport (-150000000) 0 123 40649796749 0 5000000000000 (MkFees 3500000000 2205000000 1295000000 3500000000 0 0 0 2926829 0 None)
    74999873 74999873 None true 1993924999873 0 2926829 0 0 0 0 0))), MkAux false (Ok None) (Ok None))]).

Theorem c08_claim_before_collection_refuted :
  corr_b wit_claim_first = true /\ oracle_b wit_claim_first = false /\ known_b wit_claim_first = 1.
Proof. vm_compute. repeat split; reflexivity. Qed.

(* non-vacuity *)
Example c08_ex_pack : pack_funding 64 (10 ^ 9) 10000 1800000000 10000000000000 123 true = Some 14634147
                      /\ is_some (pack_funding 64 (10 ^ 9) 10000 1800000000 5000000000000 123 false) = true.
Proof. vm_compute. split; reflexivity. Qed.
