(* C08 — the model of the position operations lives in PS/Model.v, PS/Actions.v, PS/Hist.v (re-exported);
   this file adds the packing of funding values into per-size indices
   (action/update_funding_state.rs: pack_to_funding_amount_per_size).  The unpacking
   (unpack_to_funding_amount_delta) is PS.Actions.unpack_funding.  Definitions only. *)
From GV Require Export lib.Base C01.Model PS.Model PS.Actions PS.Hist.
Open Scope Z_scope.

Definition pack_funding (w unit adj fv oi price : Z) (round_up : bool) : option Z :=
  if (fv =? 0) || (oi =? 0) then Some 0 else
  num <- umul w adj unit ;;
  per <- (if round_up then mul_div_ceil w fv num oi else mul_div w fv num oi) ;;
  if round_up then round_up_div w per price else udiv w per price.
