(* C08 — token ledger of the position operations: lemmas. *)
From GV Require Import lib.Base lib.DivLemmas C01.Model C01.Proofs PS.Model PS.Lemmas PS.Actions PS.Frame C07.Proofs.
Open Scope Z_scope.
Ltac Zify.zify_post_hook ::= Z.div_mod_to_equations.

(* accounted holdings of token t: liquidity + swap impact + claimable fees + collateral sums *)
Definition macc (m : market) (t : bool) : Z :=
  amount (m_primary m) t + amount (m_swap_impact m) t + amount (m_fee m) t + amount (m_cs_long m) t + amount (m_cs_short m) t.
(* the same without the collateral sums *)
Definition lacc (m : market) (t : bool) : Z :=
  amount (m_primary m) t + amount (m_swap_impact m) t + amount (m_fee m) t.
Definition csacc (m : market) (t : bool) : Z := amount (m_cs_long m) t + amount (m_cs_short m) t.

Definition on (t t' : bool) (v : Z) : Z := if Bool.eqb t t' then v else 0.

Lemma macc_split m t : macc m t = lacc m t + csacc m t.
Proof. unfold macc, lacc, csacc. lia. Qed.

Lemma amount_on p p' l t d :
  amount p' l = amount p l + d -> amount p' (negb l) = amount p (negb l) -> amount p' t = amount p t + on l t d.
Proof. unfold on. destruct l, t; cbn; intros; lia. Qed.

Section P.
  Variable w : Z.
  Hypothesis Hw : 1 <= w.
  Variable unit : Z.
  Hypothesis Hunit : 0 < unit.

  (* ---- effect of the primitive updates on the ledger ---- *)
  Lemma apply_delta_acc m l d m' : apply_delta w m l d = Ok m' ->
    (forall t, lacc m' t = lacc m t + on l t d) /\ (forall t, csacc m' t = csacc m t) /\ view m' = view m.
  Proof.
    intros H. pose proof (apply_delta_view _ _ _ _ _ H) as V. split; [|split; [|exact V]].
    - unfold apply_delta in H. bind_ok H as pp E. apply pool_apply_spec in E. destruct E as (A1 & A2 & _).
      intros t. pose proof (amount_on _ _ _ t _ A1 A2) as A.
      destruct (m_vi_swap m); [bind_ok H as v' E2|]; injection H as <-; unfold lacc; cbn; lia.
    - intros t. unfold view in V. injection V as _ _ _ _ _ V1 V2. unfold csacc. congruence.
  Qed.

  Lemma apply_fee_delta_acc m l d m' : apply_fee_delta w m l d = Ok m' ->
    (forall t, lacc m' t = lacc m t + on l t d) /\ (forall t, csacc m' t = csacc m t) /\ view m' = view m.
  Proof.
    intros H. pose proof (apply_fee_delta_view _ _ _ _ _ H) as V. split; [|split; [|exact V]].
    - unfold apply_fee_delta in H. bind_ok H as pp E. apply pool_apply_spec in E. destruct E as (A1 & A2 & _).
      intros t. pose proof (amount_on _ _ _ t _ A1 A2) as A. injection H as <-. unfold lacc; cbn; lia.
    - intros t. unfold view in V. injection V as _ _ _ _ _ V1 V2. unfold csacc. congruence.
  Qed.

  Lemma apply_impact_delta_acc m d m' : apply_impact_delta w m d = Ok m' -> forall t, lacc m' t = lacc m t /\ csacc m' t = csacc m t.
  Proof. unfold apply_impact_delta. intros H t. bind_ok H as pp E. injection H as <-. split; reflexivity. Qed.

  Lemma update_total_borrowing_acc p m a b m' : update_total_borrowing w unit p m a b = Ok m' ->
    forall t, lacc m' t = lacc m t /\ csacc m' t = csacc m t.
  Proof. unfold update_total_borrowing. intros H t. ok_all H; injection H as <-; split; reflexivity. Qed.

  Lemma apply_delta_to_oi_acc m l c d m' : apply_delta_to_oi w m l c d = Ok m' ->
    forall t, lacc m' t = lacc m t /\ csacc m' t = csacc m t.
  Proof. unfold apply_delta_to_oi. intros H t. ok_all H; injection H as <-; destruct l; split; reflexivity. Qed.

  Lemma update_open_interest_acc p m a b m' : update_open_interest w p m a b = Ok m' ->
    forall t, lacc m' t = lacc m t /\ csacc m' t = csacc m t.
  Proof.
    unfold update_open_interest. intros H t. destruct (a =? 0); [injection H as <-; split; reflexivity|].
    bind_ok H as m1 E1. bind_ok H as tt' E2. injection H as <-.
    destruct (apply_delta_to_oi_acc _ _ _ _ _ E1 t) as [L C]. rewrite <- L, <- C. destruct (is_long p); split; reflexivity.
  Qed.

  Lemma set_cs_acc m l cs c d :
    amount cs c = amount (cs_pool m l) c + d -> amount cs (negb c) = amount (cs_pool m l) (negb c) ->
    forall t, lacc (set_cs m l cs) t = lacc m t /\ csacc (set_cs m l cs) t = csacc m t + on c t d.
  Proof.
    intros A1 A2 t. pose proof (amount_on _ _ _ t _ A1 A2) as A.
    destruct l; split; try reflexivity; unfold csacc; cbn in *; lia.
  Qed.

  (* ---- fees: pool part + receiver part = total cost excluding funding ---- *)
  Lemma fees_split f fr fp te :
    fees_for_receiver w f = Ok fr -> fees_for_pool w f = Ok fp -> fees_total_excl_funding w f = Ok te ->
    fr + fp = te /\ 0 <= fr /\ 0 <= fp.
  Proof.
    unfold fees_for_receiver, fees_for_pool, fees_total_excl_funding. intros H1 H2 H3.
    bind_ok H1 as t1 E1. apply uadd_ok in E1. destruct E1 as [R1 ->].
    bind_ok H2 as bp E2. apply usub_ok in E2. destruct E2 as [R2 ->].
    bind_ok H2 as t2 E3. apply uadd_ok in E3. destruct E3 as [R3 ->].
    bind_ok H3 as t3 E4. apply uadd_ok in E4. destruct E4 as [R4 ->].
    bind_ok H3 as t4 E5. apply uadd_ok in E5. destruct E5 as [R5 ->].
    destruct (f_liq f) as [[[lv la] lr]|].
    - ok_inj H1. apply uadd_ok in H1. destruct H1 as [R6 ->].
      bind_ok H2 as lp E6. apply usub_ok in E6. destruct E6 as [R7 ->].
      ok_inj H2. apply uadd_ok in H2. destruct H2 as [R8 ->].
      ok_inj H3. apply uadd_ok in H3. destruct H3 as [R9 ->]. lia.
    - injection H1 as <-. injection H2 as <-. injection H3 as <-. lia.
  Qed.

  (* ---- ledger of an increase: the collateral token gains the deposit minus the funding fee
          (which stays in the vault as funding residual); the other token is untouched ---- *)
  Theorem ledger_increase p m pr ci sd acc p1 m' rep :
    increase w unit p m pr ci sd acc = Ok (p1, m', rep) ->
    forall t, macc m' t = macc m t + on (coll_long p) t (ci - f_fund (ir_fees rep)).
  Proof.
    unfold increase. intros H t.
    destruct (negb (prices_valid w pr)); [discriminate|].
    remember (if size_usd p =? 0 then _ else p) as p0 eqn:Hp0 in H.
    assert (C0 : coll_long p0 = coll_long p) by (subst p0; destruct (size_usd p =? 0); reflexivity).
    clear Hp0.
    bind_ok H as ex Eex. destruct ex as [[[[piv pia] sdt] ep] change]. clear Eex.
    bind_ok H as cda0 E1. apply rsigned_ok in E1. destruct E1 as [_ ->].
    bind_ok H as fs E2. bind_ok H as tc E3.
    bind_ok H as tcs E4. apply rsigned_ok in E4. destruct E4 as [_ ->].
    bind_ok H as cda E5. apply ssub_ok in E5. destruct E5 as [_ ->].
    bind_ok H as fr E6. bind_ok H as frs E7. apply rsigned_ok in E7. destruct E7 as [_ ->].
    bind_ok H as m1 E8. bind_ok H as fpl E9. bind_ok H as fps E10. apply rsigned_ok in E10. destruct E10 as [_ ->].
    bind_ok H as m2 E11. bind_ok H as cs E12. bind_ok H as coll' E13. bind_ok H as npia E14. bind_ok H as m4 E15.
    bind_ok H as next_size E16. bind_ok H as m5 E17. bind_ok H as next_tok E18.
    bind_ok H as sds E19. bind_ok H as sdts E20. bind_ok H as m6 E21.
    bind_ok H as u1 E22. bind_ok H as u2 E23. injection H as <- <- <-. cbn [ir_fees].
    unfold fees_total in E3. bind_ok E3 as te E3a. ok_inj E3. apply uadd_ok in E3. destruct E3 as [_ ->].
    destruct (fees_split _ _ _ _ E6 E9 E3a) as (Hsum & _ & _).
    apply apply_fee_delta_acc in E8. destruct E8 as (L1 & C1 & _).
    apply apply_delta_acc in E11. destruct E11 as (L2 & C2 & _).
    apply pool_apply_spec in E12. destruct E12 as (A1 & A2 & _).
    destruct (set_cs_acc m2 (is_long p0) cs (coll_long p0) _ A1 A2 t) as [L3 C3].
    destruct (apply_impact_delta_acc _ _ _ E15 t) as [L4 C4].
    destruct (update_total_borrowing_acc _ _ _ _ _ E17 t) as [L5 C5].
    destruct (update_open_interest_acc _ _ _ _ _ E21 t) as [L6 C6].
    rewrite !macc_split. rewrite L6, C6, L5, C5, L4, C4, L3, C3, L2, C2, L1, C1. rewrite C0.
    unfold on. destruct (Bool.eqb (coll_long p) t); lia.
  Qed.
End P.
