(* C08 — a funding round is backed: what all receivers can claim for the round (index rounded down,
   amounts rounded down) never exceeds what all payers are charged for it (index rounded up, amounts
   rounded up).  Pure arithmetic about pack_funding / unpack_funding. *)
From GV Require Import lib.Base lib.DivLemmas C01.Model C01.Proofs PS.Model PS.Lemmas PS.Actions C08.Model.
Open Scope Z_scope.
Ltac Zify.zify_post_hook ::= Z.div_mod_to_equations.

Definition zsum (l : list Z) : Z := fold_right Z.add 0 l.
Definition cdivZ (a b : Z) : Z := (a + b - 1) / b.
(* total charged to positions of sizes [l] for an index delta [d] (amounts rounded up) *)
Definition charged (A d : Z) (l : list Z) : Z := fold_right (fun x a => cdivZ (x * d) A + a) 0 l.
(* total claimable by positions of sizes [l] for an index delta [d] (amounts rounded down) *)
Definition claimable (A d : Z) (l : list Z) : Z := fold_right (fun x a => x * d / A + a) 0 l.

Lemma charged_ge A d l : 0 < A -> zsum l * d <= A * charged A d l.
Proof.
  intros HA. induction l as [|x r IH]; [cbn; lia|].
  change (zsum (x :: r)) with (x + zsum r). change (charged A d (x :: r)) with (cdivZ (x * d) A + charged A d r).
  pose proof (ceil_spec (x * d) A HA) as Hc. cbv zeta in Hc. unfold cdivZ. nia.
Qed.
Lemma claimable_le A d l : 0 < A -> A * claimable A d l <= zsum l * d.
Proof.
  intros HA. induction l as [|x r IH]; [cbn; lia|].
  change (zsum (x :: r)) with (x + zsum r). change (claimable A d (x :: r)) with (x * d / A + claimable A d r).
  pose proof (div_floor_spec (x * d) A HA). nia.
Qed.

Section P.
  Variable w : Z.
  Hypothesis Hw : 1 <= w.
  Variable unit : Z.
  Hypothesis Hunit : 0 < unit.

  (* unpack = the rounded share used by [charged] / [claimable] *)
  Lemma unpack_funding_val adj latest pv size ru r : 0 <= size -> 0 < adj ->
    unpack_funding w unit adj latest pv size ru = Some r ->
    0 <= latest - pv /\ r = if ru then cdivZ (size * (latest - pv)) (adj * unit) else size * (latest - pv) / (adj * unit).
  Proof.
    intros Hs Ha H. unfold unpack_funding in H.
    destruct (usub w latest pv) as [d|] eqn:E1; [|discriminate]. cbn in H. apply usub_ok in E1. destruct E1 as [R1 ->].
    destruct (umul w adj unit) as [a|] eqn:E2; [|discriminate]. cbn in H. apply umul_ok in E2. destruct E2 as [R2 ->].
    split; [lia|]. destruct ru.
    - apply mul_div_ceil_exact in H; [|lia..]. destruct H as (_ & Hc & _). unfold cdivZ. symmetry. apply ceil_unique; [nia|lia].
    - apply mul_div_exact in H; [|lia..]. destruct H as (_ & -> & _). reflexivity.
  Qed.

  (* payer index: rounded up twice, so dpay * price * oi >= fv * A *)
  Lemma pack_up_ge adj fv oi price d : 0 <= fv -> 0 <= oi -> 0 < adj -> 0 < price ->
    pack_funding w unit adj fv oi price true = Some d -> (oi = 0 -> fv = 0) ->
    0 <= d /\ fv * (adj * unit) <= d * price * oi.
  Proof.
    intros Hf Ho Ha Hp H Hz. unfold pack_funding in H.
    destruct ((fv =? 0) || (oi =? 0)) eqn:E0.
    - injection H as <-. apply orb_true_iff in E0. destruct E0 as [E|E]; apply Z.eqb_eq in E; [subst fv; lia|rewrite (Hz E); lia].
    - apply orb_false_iff in E0. destruct E0 as [E1 E2]. apply Z.eqb_neq in E1, E2.
      destruct (umul w adj unit) as [a|] eqn:E3; [|discriminate]. cbn in H. apply umul_ok in E3. destruct E3 as [R3 ->].
      destruct (mul_div_ceil w fv (adj * unit) oi) as [per|] eqn:E4; [|discriminate]. cbn in H.
      apply mul_div_ceil_exact in E4; [|lia..]. destruct E4 as (_ & Hc & Hr).
      apply round_up_div_sound in H; [|lia..]. destruct H as (_ & Hd). split; nia.
  Qed.

  (* receiver index: rounded down twice, so drec * price * oi <= fv * A *)
  Lemma pack_down_le adj fv oi price d : 0 <= fv -> 0 <= oi -> 0 < adj -> 0 < price ->
    pack_funding w unit adj fv oi price false = Some d ->
    0 <= d /\ d * price * oi <= fv * (adj * unit).
  Proof.
    intros Hf Ho Ha Hp H. unfold pack_funding in H.
    destruct ((fv =? 0) || (oi =? 0)) eqn:E0.
    - injection H as <-. apply orb_true_iff in E0. destruct E0 as [E|E]; apply Z.eqb_eq in E; subst; nia.
    - apply orb_false_iff in E0. destruct E0 as [E1 E2]. apply Z.eqb_neq in E1, E2.
      destruct (umul w adj unit) as [a|] eqn:E3; [|discriminate]. cbn in H. apply umul_ok in E3. destruct E3 as [R3 ->].
      destruct (mul_div w fv (adj * unit) oi) as [per|] eqn:E4; [|discriminate]. cbn in H.
      apply mul_div_floor in E4; [|lia..]. destruct E4 as (Hc & Hr).
      apply udiv_ok in H. destruct H as [_ ->].
      pose proof (div_floor_spec per price Hp). assert (0 <= per / price) by (apply div_nonneg; lia). split; nia.
  Qed.

  (* one funding round, one collateral token: fv = funding value assigned to the token, payers = sizes of
     the paying positions holding this collateral (sum = their open-interest pool), receivers = sizes of all
     positions of the receiving side (sum = the receiving side's open interest) *)
  Theorem funding_round_backed adj fv price dpay drec (payers receivers : list Z) :
    0 <= fv -> 0 < adj -> 0 < price -> 0 <= zsum payers -> 0 <= zsum receivers ->
    (zsum payers = 0 -> fv = 0) ->
    pack_funding w unit adj fv (zsum payers) price true = Some dpay ->
    pack_funding w unit adj fv (zsum receivers) price false = Some drec ->
    claimable (adj * unit) drec receivers <= charged (adj * unit) dpay payers.
  Proof.
    intros Hf Ha Hp Hsp Hsr Hz Hpay Hrec.
    assert (HA : 0 < adj * unit) by nia.
    destruct (pack_up_ge _ _ _ _ _ Hf Hsp Ha Hp Hpay Hz) as [Hd1 P2].
    destruct (pack_down_le _ _ _ _ _ Hf Hsr Ha Hp Hrec) as [Hd2 R2].
    pose proof (charged_ge (adj * unit) dpay payers HA) as P1.
    pose proof (claimable_le (adj * unit) drec receivers HA) as R1.
    set (A := adj * unit) in *. set (C := claimable A drec receivers) in *. set (P := charged A dpay payers) in *.
    assert (A * price * C <= A * price * P) by nia.
    assert (0 < A * price) by nia. nia.
  Qed.
End P.
