(* C08 — market token accounting is conserved and funding payouts stay backed (position operations).
   Case type, model run and correspondence: PS/Hist.v.  The oracle recomputes, from the states and
   reports recorded from the IMPLEMENTATION only:
     (1) per operation and per token: the change of the accounted holdings
           acc = liquidity + swap impact + claimable fees + collateral sums
         equals tokens paid in - tokens paid out - funding fees collected (kept in the vault as the funding residual);
     (2) per fee-state update (funding round) and per token: the claimable funding accrued by all stored positions
         (index delta, rounded down) is at most the funding accrued as payable by all stored positions (rounded up);
     (3) the cash funding residual  (collected - claimed)  per token, see the known class below. *)
From GV Require Export lib.Base C01.Model PS.Model PS.Actions PS.Hist C08.Model.
Open Scope Z_scope.

Definition acc (s : mstate) (t : bool) : Z :=
  amount (s_primary s) t + amount (s_swap_impact s) t + amount (s_fee s) t + amount (s_cs_long s) t + amount (s_cs_short s) t.

(* [on t t' v] = v when t = t' *)
Definition on (t t' : bool) (v : Z) : Z := if Bool.eqb t t' then v else 0.

(* token flows of a step, per token t: (paid in, paid out excluding claimable funding, claimable funding paid out,
   funding fee charged, fully collected in the collateral token?) *)
Record flows := MkFlows { fl_in : Z; fl_out : Z; fl_claim : Z; fl_fund : Z; fl_fund_full : bool }.

Definition dec_flows (p : position) (dr : dec_report) (t : bool) : flows :=
  let c := coll_long p in let q := is_long p in
  MkFlows 0
    (on c t (dr_output dr + dr_user_out dr + dr_hold_out dr) + on q t (dr_secondary dr + dr_hold_sec dr + dr_user_sec dr))
    (if t then dr_claim_l dr else dr_claim_s dr)
    (on c t (f_fund (dr_fees dr)))
    ((dr_hold_sec dr =? 0) && negb (oeqb (dr_insolvent_step dr) (Some S_FUNDING))).

Definition step_flows (x : op * outcome * aux) (t : bool) : flows :=
  match x with
  | (OpInc _ _ ci _ _, OutInc (Ok (p, _, ir)), _) =>
      MkFlows (on (coll_long p) t ci) 0 (if t then ir_claim_l ir else ir_claim_s ir) (on (coll_long p) t (f_fund (ir_fees ir))) true
  | (_, OutDec (Ok (p, _, dr)), _) => dec_flows p dr t
  | (_, OutAdl (Ok (p, _, dr, _, _)), _) => dec_flows p dr t
  | _ => MkFlows 0 0 0 0 true
  end.

(* (1) ledger identity for one step and one token; returns the funding actually collected *)
Definition collected (before after : world) (x : op * outcome * aux) (t : bool) : Z :=
  let f := step_flows x t in fl_in f - fl_out f - (acc (fst after) t - acc (fst before) t).
Definition ledger_ok (before after : world) (x : op * outcome * aux) (t : bool) : bool :=
  let f := step_flows x t in
  let paid := collected before after x t in
  if fl_fund_full f then paid =? fl_fund f else (0 <=? paid) && (paid <=? fl_fund f).

(* (2) per funding round *)
Definition cdiv (a b : Z) : Z := (a + b - 1) / b.
Definition s_fa (s : mstate) (long : bool) := if long then s_fa_long s else s_fa_short s.
Definition s_cfa (s : mstate) (long : bool) := if long then s_cfa_long s else s_cfa_short s.
Definition round_payable (A : Z) (s s' : mstate) (ps : list position) (t : bool) : Z :=
  fold_right (fun p a => (if Bool.eqb (coll_long p) t
                          then cdiv (size_usd p * (amount (s_fa s' (is_long p)) t - amount (s_fa s (is_long p)) t)) A else 0) + a) 0 ps.
Definition round_claimable (A : Z) (s s' : mstate) (ps : list position) (t : bool) : Z :=
  fold_right (fun p a => size_usd p * (amount (s_cfa s' (is_long p)) t - amount (s_cfa s (is_long p)) t) / A + a) 0 ps.
Definition round_ok (A : Z) (before : world) (x : op * outcome * aux) (t : bool) : bool :=
  match x with
  | (OpFees s', _, _) => round_claimable A (fst before) s' (snd before) t <=? round_payable A (fst before) s' (snd before) t
  | _ => true
  end.

Definition step_ok (A : Z) (tr : world * (op * outcome * aux) * world) : bool :=
  let '(before, x, after) := tr in
  ledger_ok before after x true && ledger_ok before after x false && round_ok A before x true && round_ok A before x false.

(* (3) cash residual per token along the trace: (residual long, residual short, shortfall reported so far?) *)
Fixpoint residual_ok (tr : list (world * (op * outcome * aux) * world)) (rl rs : Z) (reported : bool) : bool :=
  match tr with
  | [] => true
  | (before, x, after) :: r =>
      let fl := step_flows x true in let fs := step_flows x false in
      let rl' := rl + collected before after x true - fl_claim fl in
      let rs' := rs + collected before after x false - fl_claim fs in
      let rep' := reported || negb (fl_fund_full fl) in
      (rep' || ((0 <=? rl') && (0 <=? rs'))) && residual_ok r rl' rs' rep'
  end.

(* (4) accrual form of the backing, in units of 1/A token (A = adjustment * unit):
       A * cash residual + funding accrued as payable by the stored positions - funding accrued as claimable >= 0 *)
Definition accrued (A : Z) (wd : world) (t : bool) : Z :=
  let '(s, ps) := wd in
  fold_right (fun p a =>
      (if Bool.eqb (coll_long p) t then size_usd p * (amount (s_fa s (is_long p)) t - ffa p) else 0)
      - size_usd p * (amount (s_cfa s (is_long p)) t - (if t then cfa_l p else cfa_s p)) + a) 0 ps.
Fixpoint accrual_ok (A : Z) (tr : list (world * (op * outcome * aux) * world)) (rl rs : Z) (reported : bool) : bool :=
  match tr with
  | [] => true
  | (before, x, after) :: r =>
      let fl := step_flows x true in let fs := step_flows x false in
      let rl' := rl + collected before after x true - fl_claim fl in
      let rs' := rs + collected before after x false - fl_claim fs in
      let rep' := reported || negb (fl_fund_full fl) in
      (rep' || ((0 <=? A * rl' + accrued A after true) && (0 <=? A * rs' + accrued A after false)))
      && accrual_ok A r rl' rs' rep'
  end.

(* ---- class 2: a cost remainder that converts to zero secondary-output tokens is treated as paid ---- *)
(* discrepancy of a failing ledger step in the collateral token of a decrease whose pnl token differs from the
   collateral token: positive and worth less than two base units of the pnl token (one for the funding step,
   one for the fee step) *)
Definition leak_step (tr : world * (op * outcome * aux) * world) (t : bool) : bool :=
  let '(before, x, after) := tr in
  let f := step_flows x t in
  let paid := collected before after x t in
  match x with
  | (o, OutDec (Ok (p, _, dr)), _) | (o, OutAdl (Ok (p, _, dr, _, _)), _) =>
      match op_prices o with
      | Some pr =>
          let cpm := pmin (coll_price pr (coll_long p)) in let ppm := pmin (coll_price pr (is_long p)) in
          let d := (if fl_fund_full f then fl_fund f else 0) - paid in
          Bool.eqb (coll_long p) t && negb (Bool.eqb (coll_long p) (is_long p))
          && (0 <? d) && (d * cpm <? 2 * ppm) && (paid <=? fl_fund f)
      | None => false
      end
  | _ => false
  end.
Definition step_class2 (A : Z) (tr : world * (op * outcome * aux) * world) : Z :=
  let '(before, x, after) := tr in
  let ok t := ledger_ok before after x t || leak_step tr t in
  if step_ok A tr then 0
  else if ok true && ok false && round_ok A before x true && round_ok A before x false then 2 else 99.

Definition trace_of (c : Hist.case) := match c with Hist w dec cfg s0 ps0 steps => impl_trace (s0, ps0) steps end.
Definition adj_unit (c : Hist.case) := match c with Hist w dec cfg _ _ _ => c_funding_adj cfg * 10 ^ dec end.

Definition ledger_b (c : Hist.case) : bool := forallb (step_ok (adj_unit c)) (trace_of c).
Definition residual_b (c : Hist.case) : bool := residual_ok (trace_of c) 0 0 false.
Definition accrual_b (c : Hist.case) : bool := accrual_ok (adj_unit c) (trace_of c) 0 0 false.

(* ---- direct cases for the packing / unpacking of funding amounts ---- *)
Inductive case :=
| H8 (h : Hist.case)
| Pack8 (w dec adj fv oi price : Z) (round_up : bool) (r : option Z)
| Unpack8 (w dec adj latest pv size : Z) (round_up : bool) (r : option Z).

Definition corr_b (c : case) : bool :=
  match c with
  | H8 h => Hist.corr_b h
  | Pack8 w dec adj fv oi price ru r => oeqb (pack_funding w (10 ^ dec) adj fv oi price ru) r
  | Unpack8 w dec adj latest pv size ru r => oeqb (unpack_funding w (10 ^ dec) adj latest pv size ru) r
  end.

Definition floor_ok (n d r : Z) : bool := (d * r <=? n) && (n <? d * r + d).
Definition ceil_ok (n d r : Z) : bool := (d * (r - 1) <? n) && (n <=? d * r).

Definition oracle_b (c : case) : bool :=
  match c with
  | H8 h => ledger_b h && accrual_b h && residual_b h
  | Pack8 w dec adj fv oi price ru r =>
      (* payer index never below, receiver index never above the exact per-size amount fv*A/(oi*price) *)
      match r with
      | Some d =>
          if (fv =? 0) || (oi =? 0) then d =? 0
          else negb (price =? 0) &&
               (if ru then (fv * (adj * 10 ^ dec) <=? d * price * oi)
                           && ceil_ok (cdiv (fv * (adj * 10 ^ dec)) oi) price d
                else (d * price * oi <=? fv * (adj * 10 ^ dec)) && floor_ok (fv * (adj * 10 ^ dec) / oi) price d)
      | None => true
      end
  | Unpack8 w dec adj latest pv size ru r =>
      match r with
      | Some a => (pv <=? latest) && negb (adj * 10 ^ dec =? 0) &&
                  (if ru then ceil_ok (size * (latest - pv)) (adj * 10 ^ dec) a else floor_ok (size * (latest - pv)) (adj * 10 ^ dec) a)
      | None => true
      end
  end.

(* Known findings.
   class 1 (ClaimBeforeCollection): the ledger identity, the per-round backing and the accrual form of the backing
     all hold; only the CASH residual (funding collected so far - claimable funding paid out so far) dips below
     zero: a receiver settled its claimable funding before the payers of the same rounds were charged (their debt
     is still accrued against their positions).
   class 2 (UnpaidCostTreatedAsPaid): every step whose ledger identity fails is a decrease with pnl token <>
     collateral token whose pools were credited (fees) or whose funding was considered collected although the
     trader's remaining shortfall, converted to pnl tokens, rounded to zero; the discrepancy is worth less than
     two base units of the pnl token. *)
Definition known_b (c : case) : Z :=
  match c with
  | H8 h =>
      if ledger_b h then (if accrual_b h && negb (residual_b h) then 1 else 0)
      else
        let cls := map (step_class2 (adj_unit h)) (trace_of h) in
        if existsb (fun k => k =? 99) cls then 0 else if existsb (fun k => k =? 2) cls then 2 else 0
  | _ => 0
  end.
