(* C08 — ledger of a decrease (plain, liquidation, ADL). *)
From GV Require Import lib.Base lib.DivLemmas C01.Model C01.Proofs PS.Model PS.Lemmas PS.Actions PS.Frame C07.Proofs C08.Proofs C08.Waterfall.
Open Scope Z_scope.
Ltac Zify.zify_post_hook ::= Z.div_mod_to_equations.

Section P.
  Variable w : Z.
  Hypothesis Hw : 1 <= w.
  Variable unit : Z.
  Hypothesis Hunit : 0 < unit.

  Lemma unpack_funding_nonneg adj latest pv size ru r :
    0 <= size -> 0 <= adj -> unpack_funding w unit adj latest pv size ru = Some r -> 0 <= r.
  Proof.
    intros Hs Ha H. unfold unpack_funding in H.
    destruct (usub w latest pv) as [d|] eqn:E1; [|discriminate]. cbn in H. apply usub_ok in E1. destruct E1 as [R1 ->].
    destruct (umul w adj unit) as [a|] eqn:E2; [|discriminate]. cbn in H. apply umul_ok in E2. destruct E2 as [R2 ->].
    destruct ru.
    - apply mul_div_ceil_exact in H; [|lia..]. lia.
    - apply mul_div_floor in H; [|lia..]. lia.
  Qed.

  Lemma position_fees_fund_nonneg p m cp sd change liq fs :
    0 <= size_usd p -> 0 <= c_funding_adj (m_cfg m) ->
    position_fees w unit p m cp sd change liq = Ok fs -> 0 <= f_fund fs.
  Proof.
    intros Hs Ha H. unfold position_fees in H.
    bind_ok H as lq E0. bind_ok H as u E1. bind_ok H as fv E2. bind_ok H as fa E3. bind_ok H as fr E4.
    bind_ok H as fpool E5. bind_ok H as bv E6. bind_ok H as ba E7. bind_ok H as paid E8. bind_ok H as br E9.
    bind_ok H as ff E10. injection H as <-. cbn [f_fund].
    unfold pending_funding_fees in E10. bind_ok E10 as a F1. bind_ok E10 as cl F2. bind_ok E10 as cs F3.
    injection E10 as <-. cbn [fst]. exact (unpack_funding_nonneg _ _ _ _ _ _ Hs Ha F1).
  Qed.

  Lemma capped_impact_diff_nonneg p m index sd v ch diff :
    capped_impact w unit p m index sd = Ok (v, ch, diff) -> 0 <= diff.
  Proof.
    unfold capped_impact. intros H. bind_ok H as imp E1. bind_ok H as c E2. injection H as _ _ <-.
    unfold cap_negative_impact in E2. destruct (fst imp <? 0); [|injection E2 as <-; cbn; lia].
    bind_ok E2 as v1 F1. bind_ok E2 as mn F2.
    destruct (fst imp <? mn); [|injection E2 as <-; cbn; lia].
    bind_ok E2 as d F3. injection E2 as <-. cbn. apply Z.abs_nonneg.
  Qed.

  (* the tokens a decrease hands out, per token *)
  Definition dec_out (p : position) (rep : dec_report) (t : bool) : Z :=
    on (coll_long p) t (dr_output rep + dr_user_out rep + dr_hold_out rep)
    + on (is_long p) t (dr_secondary rep + dr_hold_sec rep + dr_user_sec rep).

  (* Ledger of a successful decrease.  K = funding fees collected in the collateral token (they stay in the
     vault as funding residual), D = fees credited to the pools although the trader did not pay them. *)
  Theorem ledger_decrease p m pr sd0 acc cw fl p1 m' rep :
    0 <= size_usd p -> 0 <= coll p -> 0 <= c_funding_adj (m_cfg m) ->
    0 < pmin (out_price pr p) -> 0 < pmin (pnl_price pr p) -> 0 < pmax (pnl_price pr p) ->
    decrease w unit p m pr sd0 acc cw fl = Ok (p1, m', rep) ->
    exists K D,
      (forall t, macc m' t = macc m t - dec_out p rep t - on (coll_long p) t (K - D)) /\
      0 <= K <= f_fund (dr_fees rep) /\ 0 <= D /\ D * pmin (out_price pr p) < pmin (pnl_price pr p) /\
      (same_tokens p = true -> D = 0) /\
      (dr_insolvent_step rep <> Some S_FUNDING -> dr_hold_sec rep = 0 ->
         (f_fund (dr_fees rep) - K) * pmin (out_price pr p) < pmin (pnl_price pr p)).
  Proof.
    intros HS HC Hadj Hcp Hpp Hppx H. unfold decrease in H.
    destruct (negb (prices_valid w pr)); [discriminate|].
    destruct ((size_usd p =? 0) && (size_tok p =? 0) && (coll p =? 0)); [discriminate|].
    bind_ok H as sd1 Esd1. bind_ok H as pc Epc. destruct pc as [sd wd1]. clear Esd1 Epc.
    bind_ok H as u1 Eliq. clear Eliq.
    bind_ok H as ex Eex. destruct ex as [[[piv change] diff] ep].
    assert (Hdiff : 0 <= diff).
    { destruct (sd =? 0); [injection Eex as _ _ <- _; lia|].
      bind_ok Eex as nsd G1. bind_ok Eex as imp G2. destruct imp as [[piv' ch'] diff'].
      bind_ok Eex as ep' G3. injection Eex as _ _ <- _. exact (capped_impact_diff_nonneg _ _ _ _ _ _ _ G2). }
    clear Eex.
    bind_ok H as pn Epn. destruct pn as [[base_pnl uncapped_pnl] sdt]. clear Epn.
    bind_ok H as fs Efs. pose proof (position_fees_fund_nonneg _ _ _ _ _ _ _ HS Hadj Efs) as Hfund. clear Efs.
    bind_ok H as pr_ Eproc. destruct pr_ as [st step].
    pose proof (process_costs_good w _ _ _ _ _ _ _ _ _ _ HC Eproc) as [Vst _].
    destruct (process_costs_ledger w Hw pr p Hcp Hpp Hppx _ _ _ _ _ _ _ _ HC Hfund Hdiff Eproc)
      as (K & D & Dl & (N1 & N2 & N3) & Ff & BK & BD & BD' & BD'' & Full).
    clear Eproc.
    bind_ok H as wd3 Ewd3. clear Ewd3.
    set (wd := if st_coll st <? wd3 then st_coll st else wd3) in *.
    bind_ok H as x Ex. destruct x as [rem_coll out1].
    assert (Hx : rem_coll + out1 = st_coll st + st_out st).
    { destruct (wd =? 0); [injection Ex as <- <-; lia|]. bind_ok Ex as o Eo. apply uadd_ok in Eo. destruct Eo as [_ ->].
      injection Ex as <- <-. lia. }
    clear Ex.
    bind_ok H as next_size Ens. bind_ok H as m2 Em2. bind_ok H as next_tok Ent.
    bind_ok H as y Ey. destruct y as [[[ns nt] nc] out2].
    assert (Hy : nc + out2 = rem_coll + out1).
    { destruct (_ || _); [bind_ok Ey as o Eo; apply uadd_ok in Eo; destruct Eo as [_ ->]; injection Ey as _ _ <- <-; lia|].
      injection Ey as _ _ <- <-. lia. }
    clear Ey.
    bind_ok H as cdelta Ecd. apply usub_ok in Ecd. destruct Ecd as [_ ->].
    bind_ok H as ncd Encd. apply ropp_val in Encd; [|exact Hw]. subst ncd.
    bind_ok H as cs Ecs. apply pool_apply_spec in Ecs. destruct Ecs as (A1 & A2 & _).
    bind_ok H as nsd Ensd. bind_ok H as nsdt Ensdt. bind_ok H as m4 Em4.
    bind_ok H as u2 Eval. clear Eval.
    bind_ok H as zz Ez. destruct zz as [out3 sec3].
    injection H as _ <- <-.
    exists K, D. split; [|cbn [dr_fees dr_insolvent_step dr_hold_sec]; rewrite Ff; exact (conj BK (conj BD (conj BD' (conj BD'' Full))))].
    intros t.
    destruct (update_total_borrowing_acc w unit _ _ _ _ _ Em2 t) as [L2 C2].
    destruct (set_cs_acc m2 (is_long p) cs (coll_long p) _ A1 A2 t) as [L3 C3].
    destruct (update_open_interest_acc w _ _ _ _ _ Em4 t) as [L4 C4].
    assert (Ccs : csacc (st_m st) t = csacc m t).
    { unfold view in Vst. injection Vst as _ _ _ _ _ V1 V2. unfold csacc. congruence. }
    specialize (Dl t). unfold W, bucket_c, bucket_q in Dl.
    cbn [st_m st_out st_sec st_coll st_hold_out st_hold_sec st_user_out st_user_sec] in Dl.
    rewrite !macc_split, L4, C4, L3, C3, L2, C2, Ccs.
    unfold dec_out. cbn [dr_output dr_secondary dr_user_out dr_user_sec dr_hold_out dr_hold_sec].
    (* merging of the secondary output when the pnl token is the collateral token *)
    assert (Hm : on (coll_long p) t out3 + on (is_long p) t sec3 = on (coll_long p) t out2 + on (is_long p) t (st_sec st)).
    { destruct (same_tokens p && negb (st_sec st =? 0)) eqn:Es.
      - bind_ok Ez as o Eo. apply uadd_ok in Eo. destruct Eo as [_ ->]. injection Ez as <- <-.
        apply andb_prop in Es. destruct Es as [Es _]. unfold same_tokens in Es. apply Bool.eqb_prop in Es. rewrite <- Es.
        unfold on. destruct (Bool.eqb (is_long p) t); lia.
      - injection Ez as <- <-. reflexivity. }
    unfold on in *. destruct (Bool.eqb (coll_long p) t), (Bool.eqb (is_long p) t); lia.
  Qed.

  Theorem ledger_liquidate p m pr sd acc cw p1 m' rep :
    0 <= size_usd p -> 0 <= coll p -> 0 <= c_funding_adj (m_cfg m) ->
    0 < pmin (out_price pr p) -> 0 < pmin (pnl_price pr p) -> 0 < pmax (pnl_price pr p) ->
    liquidate w unit p m pr sd acc cw = Ok (p1, m', rep) ->
    exists K D,
      (forall t, macc m' t = macc m t - dec_out p rep t - on (coll_long p) t (K - D)) /\
      0 <= K <= f_fund (dr_fees rep) /\ 0 <= D /\ D * pmin (out_price pr p) < pmin (pnl_price pr p) /\
      (same_tokens p = true -> D = 0) /\
      (dr_insolvent_step rep <> Some S_FUNDING -> dr_hold_sec rep = 0 ->
         (f_fund (dr_fees rep) - K) * pmin (out_price pr p) < pmin (pnl_price pr p)).
  Proof.
    intros HS HC Hadj Hcp Hpp Hppx H. unfold liquidate in H. destruct (sd <? size_usd p); [discriminate|].
    exact (ledger_decrease _ _ _ _ _ _ _ _ _ _ HS HC Hadj Hcp Hpp Hppx H).
  Qed.
End P.
