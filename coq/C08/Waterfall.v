(* C08 — token conservation through the CollateralProcessor (process_costs). *)
From GV Require Import lib.Base lib.DivLemmas C01.Model C01.Proofs PS.Model PS.Lemmas PS.Actions PS.Frame C07.Proofs C08.Proofs.
Open Scope Z_scope.
Ltac Zify.zify_post_hook ::= Z.div_mod_to_equations.

(* tokens held for the trader / holding account inside the processor state *)
Definition bucket_c (s : pstate) : Z := st_out s + st_coll s + st_user_out s + st_hold_out s.   (* collateral token *)
Definition bucket_q (s : pstate) : Z := st_sec s + st_hold_sec s + st_user_sec s.               (* pnl token *)
(* conserved quantity per token: ledger pools without collateral sums + processor buckets *)
Definition W (p : position) (s : pstate) (t : bool) : Z :=
  lacc (st_m s) t + on (coll_long p) t (bucket_c s) + on (is_long p) t (bucket_q s).

Definition nn (s : pstate) : Prop := 0 <= st_out s /\ 0 <= st_coll s /\ 0 <= st_sec s.
(* [delta p s s' N]: going from s to s' the collateral token lost N from the conserved quantity, the other nothing *)
Definition delta (p : position) (s s' : pstate) (N : Z) : Prop :=
  forall t, W p s' t = W p s t - on (coll_long p) t N.

Lemma delta_trans p s1 s2 s3 N1 N2 : delta p s1 s2 N1 -> delta p s2 s3 N2 -> delta p s1 s3 (N1 + N2).
Proof. intros H1 H2 t. rewrite H2, H1. unfold on. destruct (Bool.eqb (coll_long p) t); lia. Qed.
Lemma delta_refl p s : delta p s s 0.
Proof. intros t. unfold on. destruct (Bool.eqb (coll_long p) t); lia. Qed.

Section P.
  Variable w : Z.
  Hypothesis Hw : 1 <= w.
  Variable unit : Z.
  Hypothesis Hunit : 0 < unit.
  Variable pr : prices.
  Variable p : position.
  Notation cpm := (pmin (out_price pr p)).
  Notation ppm := (pmin (pnl_price pr p)).
  Hypothesis Hcp : 0 < cpm.
  Hypothesis Hpp : 0 < ppm.
  Hypothesis Hppx : 0 < pmax (pnl_price pr p).

  Lemma same_tokens_prices : same_tokens p = true -> ppm = cpm.
  Proof. unfold same_tokens, out_price, pnl_price. intros H. apply Bool.eqb_prop in H. rewrite H. reflexivity. Qed.

  Lemma round_up_div_val a d r : 0 <= a -> 0 < d -> round_up_div w a d = Some r -> r = (a + d - 1) / d.
  Proof.
    intros Ha Hd H. unfold round_up_div in H. replace (d =? 0) with false in H by (symmetry; apply Z.eqb_neq; lia).
    destruct (uadd w a d) as [s|] eqn:E1; [|discriminate]. cbn in H. apply uadd_ok in E1. destruct E1 as [_ ->].
    destruct (usub w (a + d) 1) as [u|] eqn:E2; [|discriminate]. cbn in H. apply usub_ok in E2. destruct E2 as [_ ->].
    apply udiv_ok in H. destruct H as [_ ->]. reflexivity.
  Qed.

  Lemma ceil_mul a d : 0 <= a -> 0 < d -> (a * d + d - 1) / d = a.
  Proof. intros Ha Hd. apply div_floor_unique; [lia|]. nia. Qed.

  (* State::do_pay_for_cost *)
  Lemma do_pay_spec s cost s' pc psec rem :
    nn s -> 0 <= cost ->
    do_pay_for_cost w pr p s cost = Ok (s', pc, psec, rem) ->
    st_m s' = st_m s /\ st_hold_out s' = st_hold_out s /\ st_hold_sec s' = st_hold_sec s /\
    st_user_out s' = st_user_out s /\ st_user_sec s' = st_user_sec s /\ st_fees s' = st_fees s /\
    nn s' /\ 0 <= pc /\ 0 <= psec /\ 0 <= rem /\
    st_out s' + st_coll s' + pc = st_out s + st_coll s /\ st_sec s' + psec = st_sec s /\
    pc <= (cost + cpm - 1) / cpm /\
    (rem = 0 -> psec = 0 -> ((cost + cpm - 1) / cpm - pc) * cpm < ppm).
  Proof.
    intros (N1 & N2 & N3) Hc H. unfold do_pay_for_cost in H.
    destruct (cost =? 0) eqn:E0.
    - apply Z.eqb_eq in E0. subst cost. injection H as <- <- <- <-.
      replace ((0 + cpm - 1) / cpm) with 0 by (symmetry; apply Z.div_small; lia).
      unfold nn. repeat split; try lia.
    - apply Z.eqb_neq in E0. bind_ok H as rem0 Er. apply round_up_div_val in Er; [|lia..].
      set (R := (cost + cpm - 1) / cpm) in *. subst rem0.
      assert (HR : 0 <= R) by (apply div_nonneg; lia).
      destruct (pay_from (st_out s) R) as [[p1 o1] r1] eqn:P1.
      apply pay_from_spec in P1; [|lia..]. destruct P1 as (A1 & A2 & A3 & A4 & A5). cbv zeta in H.
      destruct (r1 =? 0) eqn:E1.
      { apply Z.eqb_eq in E1. injection H as <- <- <- <-. cbn. unfold nn; cbn. repeat split; try lia. }
      cbn [st_coll st_m st_out st_sec st_hold_out st_hold_sec st_user_out st_user_sec st_fees] in H.
      destruct (pay_from (st_coll s) r1) as [[p2 c2] r2] eqn:P2.
      apply pay_from_spec in P2; [|lia..]. destruct P2 as (B1 & B2 & B3 & B4 & B5).
      bind_ok H as paidc Epc. apply uadd_ok in Epc. destruct Epc as [_ ->].
      cbn [st_coll st_m st_out st_sec st_hold_out st_hold_sec st_user_out st_user_sec st_fees] in H.
      destruct (r2 =? 0) eqn:E2.
      { apply Z.eqb_eq in E2. injection H as <- <- <- <-. cbn. unfold nn; cbn. repeat split; try lia. }
      bind_ok H as rs Ers. apply mul_div_exact in Ers; [|lia..]. destruct Ers as (_ & -> & _).
      cbn [st_coll st_m st_out st_sec st_hold_out st_hold_sec st_user_out st_user_sec st_fees] in H.
      assert (Hrs : 0 <= r2 * cpm / ppm) by (apply div_nonneg; nia).
      destruct (pay_from (st_sec s) (r2 * cpm / ppm)) as [[p3 s3] rs1] eqn:P3.
      apply pay_from_spec in P3; [|lia..]. destruct P3 as (C1 & C2 & C3 & C4 & C5).
      bind_ok H as c Ec. apply umul_ok in Ec. destruct Ec as [_ ->].
      injection H as <- <- <- <-. cbn. unfold nn; cbn.
      repeat split; try lia; try nia.
  Qed.

  Definition same_buckets (s s' : pstate) : Prop :=
    st_out s' = st_out s /\ st_sec s' = st_sec s /\ st_coll s' = st_coll s /\ st_hold_out s' = st_hold_out s /\
    st_hold_sec s' = st_hold_sec s /\ st_user_out s' = st_user_out s /\ st_user_sec s' = st_user_sec s.

  Ltac wsolve t :=
    unfold W, bucket_c, bucket_q, set_st_m in *;
    cbn [st_m st_out st_sec st_coll st_hold_out st_hold_sec st_user_out st_user_sec st_fees] in *;
    unfold on in *;
    destruct (Bool.eqb (coll_long p) t), (Bool.eqb (is_long p) t); lia.

  Lemma pay_to_primary_pool_spec s pc psec s2 :
    pay_to_primary_pool w pr p s pc psec = Ok s2 ->
    (forall t, lacc (st_m s2) t = lacc (st_m s) t + on (coll_long p) t pc + on (is_long p) t psec) /\
    same_buckets s s2 /\ st_fees s2 = st_fees s.
  Proof.
    unfold pay_to_primary_pool. intros H.
    bind_ok H as pcs E1. apply rsigned_ok in E1. destruct E1 as [_ ->].
    bind_ok H as pss E2. apply rsigned_ok in E2. destruct E2 as [_ ->].
    bind_ok H as m1 E3. bind_ok H as m2 E4. injection H as <-. cbn [st_m set_st_m].
    assert (L1 : forall t, lacc m1 t = lacc (st_m s) t + on (coll_long p) t pc).
    { destruct (pc =? 0) eqn:E0.
      - injection E3 as <-. apply Z.eqb_eq in E0. subst pc. intros t. unfold on. destruct (Bool.eqb _ t); lia.
      - apply apply_delta_acc in E3. destruct E3 as [L _]. exact L. }
    assert (L2 : forall t, lacc m2 t = lacc m1 t + on (is_long p) t psec).
    { destruct (psec =? 0) eqn:E0.
      - injection E4 as <-. apply Z.eqb_eq in E0. subst psec. intros t. unfold on. destruct (Bool.eqb _ t); lia.
      - apply apply_delta_acc in E4. destruct E4 as [L _]. exact L. }
    split; [intros t; rewrite L2, L1; lia|]. split; [repeat split; reflexivity|reflexivity].
  Qed.

  Lemma pay_for_cost_cases s cost stp receive :
    (exists e, pay_for_cost w pr p s cost stp receive = PErr e) \/
    exists s1 pc psec rem s2,
      do_pay_for_cost w pr p s cost = Ok (s1, pc, psec, rem) /\ receive s1 pc psec rem = Ok s2 /\
      pay_for_cost w pr p s cost stp receive = (if rem =? 0 then PCont s2 else PStop stp s2).
  Proof.
    unfold pay_for_cost, plift.
    destruct (do_pay_for_cost w pr p s cost) as [[[[s1 pc] psec] rem]|e] eqn:E1; [|left; eexists; reflexivity].
    destruct (receive s1 pc psec rem) as [s2|e] eqn:E2; [|left; eexists; reflexivity].
    right. exists s1, pc, psec, rem, s2. split; [reflexivity|]. split; [exact E2|reflexivity].
  Qed.

  (* what a pay step guarantees about its resulting state: continuing, or stopping at the step [stp] *)
  Definition after (r : pres) (stp : Z) (Q : bool -> pstate -> Prop) : Prop :=
    match r with PCont s => Q true s | PStop k s => k = stp /\ Q false s | PErr _ => True end.

  Lemma after_pay s cost stp receive (Q : bool -> pstate -> Prop) :
    (forall s1 pc psec rem s2, do_pay_for_cost w pr p s cost = Ok (s1, pc, psec, rem) -> receive s1 pc psec rem = Ok s2 ->
        Q (rem =? 0) s2) ->
    after (pay_for_cost w pr p s cost stp receive) stp Q.
  Proof.
    intros HQ. destruct (pay_for_cost_cases s cost stp receive) as [[e ->]|(s1 & pc & psec & rem & s2 & E1 & E2 & ->)]; [exact I|].
    specialize (HQ _ _ _ _ _ E1 E2). destruct (rem =? 0); cbn; [exact HQ|split; [reflexivity|exact HQ]].
  Qed.

  (* effect of the payment itself on the conserved quantity *)
  Lemma do_pay_W s cost s1 pc psec rem :
    nn s -> 0 <= cost -> do_pay_for_cost w pr p s cost = Ok (s1, pc, psec, rem) ->
    (forall t, W p s1 t = W p s t - on (coll_long p) t pc - on (is_long p) t psec) /\
    nn s1 /\ st_fees s1 = st_fees s /\ st_hold_sec s1 = st_hold_sec s /\ 0 <= pc /\ 0 <= psec /\
    pc <= (cost + cpm - 1) / cpm /\ (rem = 0 -> psec = 0 -> ((cost + cpm - 1) / cpm - pc) * cpm < ppm).
  Proof.
    intros Hn Hc H. destruct (do_pay_spec _ _ _ _ _ _ Hn Hc H) as (M & H1 & H2 & H3 & H4 & F & N' & P1 & P2 & _ & B1 & B2 & B3 & B4).
    split; [|exact (conj N' (conj F (conj H2 (conj P1 (conj P2 (conj B3 B4))))))].
    intros t. unfold W. rewrite M. wsolve t.
  Qed.

  (* the common shape: nothing leaves the ledger *)
  Definition kept (s : pstate) (s' : pstate) : Prop :=
    delta p s s' 0 /\ nn s' /\ st_fees s' = st_fees s /\ st_hold_sec s' = st_hold_sec s.

  Lemma kept_refl s : nn s -> kept s s.
  Proof. intros Hn. split; [apply delta_refl|]. split; [exact Hn|]. split; reflexivity. Qed.

  (* pnl < 0 and negative impact: everything paid goes to the primary pool *)
  Lemma pay_primary_step s cost stp receive :
    nn s -> 0 <= cost ->
    (forall s1 pc psec rem s2, receive s1 pc psec rem = Ok s2 ->
       (forall t, lacc (st_m s2) t = lacc (st_m s1) t + on (coll_long p) t pc + on (is_long p) t psec) /\
       same_buckets s1 s2 /\ st_fees s2 = st_fees s1) ->
    after (pay_for_cost w pr p s cost stp receive) stp (fun _ s' => kept s s').
  Proof.
    intros Hn Hc Hr. apply after_pay. intros s1 pc psec rem s2 E1 E2.
    destruct (do_pay_W _ _ _ _ _ _ Hn Hc E1) as (W1 & N1 & F1 & HS1 & _).
    destruct (Hr _ _ _ _ _ E2) as (L & (B1 & B2 & B3 & B4 & B5 & B6 & B7) & F2).
    split; [|split; [|split; congruence]].
    - intros t. specialize (W1 t). specialize (L t). unfold W in *. rewrite L.
      unfold bucket_c, bucket_q in *. rewrite B1, B2, B3, B4, B5, B6, B7. wsolve t.
    - destruct N1 as (A1 & A2 & A3). unfold nn. rewrite B1, B2, B3. repeat split; assumption.
  Qed.

  Lemma step_pnl_negative_spec s pnl :
    nn s -> after (step_pnl_negative w pr p s pnl) S_PNL (fun _ s' => kept s s').
  Proof.
    intros Hn. unfold step_pnl_negative. destruct (pnl <? 0).
    - apply pay_primary_step; [exact Hn|lia|]. intros s1 pc psec rem s2 H. exact (pay_to_primary_pool_spec _ _ _ _ H).
    - cbn. apply kept_refl. exact Hn.
  Qed.

  Lemma step_impact_negative_spec s piv :
    nn s -> after (step_impact_negative w pr p s piv) S_IMPACT (fun _ s' => kept s s').
  Proof.
    intros Hn. unfold step_impact_negative. destruct (piv <? 0).
    - apply pay_primary_step; [exact Hn|lia|]. intros s1 pc psec rem s2 H.
      bind_ok H as s2' E1. destruct (pay_to_primary_pool_spec _ _ _ _ E1) as (L & B & F).
      bind_ok H as m1 E2. bind_ok H as m2 E3. injection H as <-. cbn [st_m set_st_m].
      assert (L1 : forall t, lacc m1 t = lacc (st_m s2') t).
      { destruct (pc =? 0); [injection E2 as <-; reflexivity|].
        bind_ok E2 as d Ed. bind_ok E2 as ds Eds. intros t. exact (proj1 (apply_impact_delta_acc w _ _ _ E2 t)). }
      assert (L2 : forall t, lacc m2 t = lacc m1 t).
      { destruct (psec =? 0); [injection E3 as <-; reflexivity|].
        bind_ok E3 as d Ed. bind_ok E3 as ds Eds. intros t. exact (proj1 (apply_impact_delta_acc w _ _ _ E3 t)). }
      split; [intros t; rewrite L2, L1; apply L|]. split; [exact B|exact F].
    - cbn. apply kept_refl. exact Hn.
  Qed.

  (* price impact diff: what is paid becomes claimable collateral for the user *)
  Lemma step_impact_diff_spec s diff :
    nn s -> 0 <= diff -> after (step_impact_diff w pr p s diff) S_DIFF (fun _ s' => kept s s').
  Proof.
    intros Hn Hd. unfold step_impact_diff. destruct (diff =? 0).
    - cbn. apply kept_refl. exact Hn.
    - apply after_pay. intros s1 pc psec rem s2 E1 E2.
      destruct (do_pay_W _ _ _ _ _ _ Hn Hd E1) as (W1 & N1 & F1 & HS1 & _).
      bind_ok E2 as uo Euo. bind_ok E2 as us Eus. injection E2 as <-.
      assert (Huo : uo = st_user_out s1 + pc).
      { destruct (pc =? 0) eqn:E0; [injection Euo as <-; apply Z.eqb_eq in E0; lia|]. ok_inj Euo. apply uadd_ok in Euo. lia. }
      assert (Hus : us = st_user_sec s1 + psec).
      { destruct (psec =? 0) eqn:E0; [injection Eus as <-; apply Z.eqb_eq in E0; lia|]. ok_inj Eus. apply uadd_ok in Eus. lia. }
      split; [|split; [exact N1|split; [exact F1|exact HS1]]].
      intros t. specialize (W1 t). subst uo us. wsolve t.
  Qed.

  (* funding fees: what is paid in the collateral token leaves the ledger (it stays in the vault as the funding
     residual), what is paid in the secondary token becomes claimable for the holding account *)
  Lemma step_funding_spec s :
    nn s -> 0 <= f_fund (st_fees s) ->
    after (step_funding w pr p s) S_FUNDING (fun cont s' =>
      exists K, delta p s s' K /\ nn s' /\ st_fees s' = st_fees s /\ 0 <= K <= f_fund (st_fees s) /\
                (cont = true -> st_hold_sec s' = st_hold_sec s -> (f_fund (st_fees s) - K) * cpm < ppm)).
  Proof.
    intros Hn Hf. unfold step_funding. destruct (f_fund (st_fees s) =? 0) eqn:E0.
    - cbn. exists 0. apply Z.eqb_eq in E0. rewrite E0. split; [apply delta_refl|]. split; [exact Hn|]. repeat split; lia.
    - unfold plift. destruct (of_opt E_COMP (umul w (f_fund (st_fees s)) cpm)) as [cost|] eqn:Ec; [|exact I].
      apply of_opt_ok in Ec. apply umul_ok in Ec. destruct Ec as [_ ->].
      apply after_pay. intros s1 pc psec rem s2 E1 E2.
      assert (Hc : 0 <= f_fund (st_fees s) * cpm) by nia.
      destruct (do_pay_W _ _ _ _ _ _ Hn Hc E1) as (W1 & N1 & F1 & HS & P1 & P2 & B3 & B4).
      rewrite ceil_mul in B3, B4 by lia.
      exists pc. destruct (psec =? 0) eqn:Eps.
      + injection E2 as <-. apply Z.eqb_eq in Eps. subst psec.
        split; [intros t; specialize (W1 t); wsolve t|].
        split; [exact N1|]. split; [exact F1|]. split; [lia|].
        intros Hct _. apply Z.eqb_eq in Hct. apply B4; [exact Hct|reflexivity].
      + bind_ok E2 as h Eh. apply uadd_ok in Eh. destruct Eh as [_ ->]. injection E2 as <-. apply Z.eqb_neq in Eps.
        split; [intros t; specialize (W1 t); wsolve t|].
        split; [exact N1|]. split; [exact F1|]. split; [lia|].
        intros _ Hh. cbn in Hh. lia.
  Qed.

  Lemma fees_total_excl_nonneg f te : fees_total_excl_funding w f = Ok te -> 0 <= te.
  Proof.
    unfold fees_total_excl_funding. intros H.
    bind_ok H as t1 E1. apply uadd_ok in E1. bind_ok H as t2 E2. apply uadd_ok in E2.
    destruct (f_liq f) as [[[lv la] lr]|]; [ok_inj H; apply uadd_ok in H; lia|injection H as <-; lia].
  Qed.

  (* fees: pool and receiver parts are credited in full when the step "completes" in the collateral token;
     D = the part of the fees that was credited although it was not paid (cost remainder converting to zero
     secondary-output tokens) *)
  Lemma step_fees_spec s :
    nn s ->
    after (step_fees w pr p s) S_FEES (fun _ s' =>
      exists D, delta p s s' (- D) /\ nn s' /\ f_fund (st_fees s') = f_fund (st_fees s) /\ st_hold_sec s' = st_hold_sec s /\
                0 <= D /\ D * cpm < ppm /\ (same_tokens p = true -> D = 0)).
  Proof.
    intros Hn. unfold step_fees, plift.
    destruct (fees_total_excl_funding w (st_fees s)) as [ca|] eqn:Eca; [|exact I].
    pose proof (fees_total_excl_nonneg _ _ Eca) as Hca.
    assert (Z0 : exists D, delta p s s (- D) /\ nn s /\ f_fund (st_fees s) = f_fund (st_fees s) /\ st_hold_sec s = st_hold_sec s /\
                    0 <= D /\ D * cpm < ppm /\ (same_tokens p = true -> D = 0)).
    { exists 0. split; [apply delta_refl|]. split; [exact Hn|]. repeat split; lia. }
    destruct (ca =? 0); [exact Z0|].
    destruct (of_opt E_COMP (umul w ca cpm)) as [cost|] eqn:Ec; [|exact I].
    apply of_opt_ok in Ec. apply umul_ok in Ec. destruct Ec as [_ ->].
    apply after_pay. intros s1 pc psec rem s2 E1 E2.
    assert (Hc : 0 <= ca * cpm) by nia.
    destruct (do_pay_W _ _ _ _ _ _ Hn Hc E1) as (W1 & N1 & F1 & HS & P1 & P2 & B3 & B4).
    rewrite ceil_mul in B3, B4 by lia.
    destruct ((rem =? 0) && (psec =? 0)) eqn:Eb.
    - apply andb_prop in Eb. destruct Eb as [Er Ep]. apply Z.eqb_eq in Er, Ep. subst psec.
      bind_ok E2 as fpl G1. bind_ok E2 as fps G2. apply rsigned_ok in G2. destruct G2 as [_ ->].
      bind_ok E2 as m1 G3. bind_ok E2 as fr G4. bind_ok E2 as frs G5. apply rsigned_ok in G5. destruct G5 as [_ ->].
      bind_ok E2 as m2 G6. injection E2 as <-.
      rewrite F1 in G1, G4. destruct (fees_split w _ _ _ _ G4 G1 Eca) as (Hsum & _ & _).
      apply apply_delta_acc in G3. destruct G3 as (L1 & _ & _).
      apply apply_fee_delta_acc in G6. destruct G6 as (L2 & _ & _).
      exists (ca - pc). split.
      { intros t. specialize (W1 t). specialize (L1 t). specialize (L2 t). unfold W in *. cbn [st_m set_st_m] in *. rewrite L2, L1. wsolve t. }
      split; [exact N1|]. split; [cbn; rewrite F1; reflexivity|]. split; [exact HS|]. split; [lia|].
      split; [apply B4; [exact Er|reflexivity]|].
      intros Hs. specialize (B4 Er eq_refl). rewrite (same_tokens_prices Hs) in B4. nia.
    - bind_ok E2 as s2' G1. destruct (pay_to_primary_pool_spec _ _ _ _ G1) as (L & (B1 & B2 & B3' & B4' & B5 & B6 & B7) & F2).
      injection E2 as <-. exists 0.
      split.
      { intros t. specialize (W1 t). specialize (L t). unfold W in *.
        cbn [st_m st_out st_sec st_coll st_hold_out st_hold_sec st_user_out st_user_sec]. rewrite L.
        unfold bucket_c, bucket_q in *. cbn [st_m st_out st_sec st_coll st_hold_out st_hold_sec st_user_out st_user_sec].
        rewrite B1, B2, B3', B4', B5, B6, B7. wsolve t. }
      split; [destruct N1 as (A1 & A2 & A3); unfold nn; cbn; rewrite B1, B2, B3'; repeat split; assumption|].
      split; [cbn; rewrite F2, F1; reflexivity|]. split; [cbn; congruence|]. repeat split; lia.
  Qed.

  (* profit and positive impact: tokens leave the primary pool of the pnl token and are handed to the trader *)
  Lemma add_pnl_token_amount_spec s a s' :
    add_pnl_token_amount w p s a = Ok s' ->
    st_m s' = st_m s /\ st_fees s' = st_fees s /\ st_hold_sec s' = st_hold_sec s /\ st_coll s' = st_coll s /\
    st_user_out s' = st_user_out s /\ st_user_sec s' = st_user_sec s /\ st_hold_out s' = st_hold_out s /\
    ((same_tokens p = true /\ st_out s' = st_out s + a /\ st_sec s' = st_sec s) \/
     (same_tokens p = false /\ st_out s' = st_out s /\ st_sec s' = st_sec s + a)).
  Proof.
    unfold add_pnl_token_amount. intros H. destruct (same_tokens p) eqn:Es.
    - bind_ok H as o E. apply uadd_ok in E. destruct E as [_ ->]. injection H as <-. cbn. repeat split; try reflexivity. left. repeat split; reflexivity.
    - bind_ok H as o E. apply uadd_ok in E. destruct E as [_ ->]. injection H as <-. cbn. repeat split; try reflexivity. right. repeat split; reflexivity.
  Qed.

  Lemma credit_pnl_tokens s m1 a s' :
    nn s -> 0 <= a ->
    (forall t, lacc m1 t = lacc (st_m s) t + on (is_long p) t (- a)) ->
    add_pnl_token_amount w p (set_st_m s m1) a = Ok s' -> kept s s'.
  Proof.
    intros (N1 & N2 & N3) Ha L H.
    destruct (add_pnl_token_amount_spec _ _ _ H) as (M & F & HS & C & U1 & U2 & HO & Hcase).
    unfold set_st_m in *. cbn [st_m st_out st_sec st_coll st_hold_out st_hold_sec st_user_out st_user_sec st_fees] in *.
    split; [|split; [|split; assumption]].
    - intros t. specialize (L t). unfold W. rewrite M, L. unfold bucket_c, bucket_q. rewrite HS, C, U1, U2, HO.
      destruct Hcase as [(Es & O & S)|(Es & O & S)]; rewrite O, S.
      + unfold same_tokens in Es. apply Bool.eqb_prop in Es. rewrite <- Es. unfold on. destruct (Bool.eqb (is_long p) t); lia.
      + unfold on. destruct (Bool.eqb (coll_long p) t), (Bool.eqb (is_long p) t); lia.
    - unfold nn. rewrite C. destruct Hcase as [(_ & O & S)|(_ & O & S)]; rewrite O, S; repeat split; lia.
  Qed.

  Lemma step_add_pnl_spec s pnl s' : nn s -> step_add_pnl w pr p s pnl = Ok s' -> kept s s'.
  Proof.
    intros Hn H. unfold step_add_pnl in H. destruct (0 <? pnl); [|injection H as <-; apply kept_refl; exact Hn].
    bind_ok H as a Ea. apply udiv_ok in Ea. destruct Ea as [_ ->].
    bind_ok H as na Ena. apply ropp_val in Ena; [|exact Hw]. subst na.
    bind_ok H as m1 Em. apply apply_delta_acc in Em. destruct Em as (L & _ & _).
    assert (Ha : 0 <= Z.abs pnl / pmax (pnl_price pr p)) by (apply div_nonneg; [apply Z.abs_nonneg|exact Hppx]).
    exact (credit_pnl_tokens _ _ _ _ Hn Ha L H).
  Qed.

  Lemma step_add_impact_spec s piv s' : nn s -> step_add_impact w pr p s piv = Ok s' -> kept s s'.
  Proof.
    intros Hn H. unfold step_add_impact in H. destruct (0 <? piv); [|injection H as <-; apply kept_refl; exact Hn].
    bind_ok H as a Ea. bind_ok H as na Ena. bind_ok H as m1 Em1.
    bind_ok H as d Ed. apply udiv_ok in Ed. destruct Ed as [_ ->].
    bind_ok H as nd End_. apply ropp_val in End_; [|exact Hw]. subst nd.
    bind_ok H as m2 Em2. apply apply_delta_acc in Em2. destruct Em2 as (L & _ & _).
    assert (Ha : 0 <= Z.abs piv / pmax (pnl_price pr p)) by (apply div_nonneg; [apply Z.abs_nonneg|exact Hppx]).
    assert (L' : forall t, lacc m2 t = lacc (st_m s) t + on (is_long p) t (- (Z.abs piv / pmax (pnl_price pr p)))).
    { intros t. rewrite L. rewrite (proj1 (apply_impact_delta_acc w _ _ _ Em1 t)). reflexivity. }
    exact (credit_pnl_tokens _ _ _ _ Hn Ha L' H).
  Qed.

  Lemma kept_trans s1 s2 s3 : kept s1 s2 -> kept s2 s3 -> kept s1 s3.
  Proof.
    intros (D1 & N1 & F1 & H1) (D2 & N2 & F2 & H2). split; [|split; [exact N2|split; congruence]].
    pose proof (delta_trans _ _ _ _ _ _ D1 D2) as D. exact D.
  Qed.

  (* ---- the whole waterfall ----
     K = funding fees collected in the collateral token, D = fees credited although not paid *)
  Theorem process_costs_ledger m fs pnl piv diff ins st stp :
    0 <= coll p -> 0 <= f_fund fs -> 0 <= diff ->
    process_costs w pr p m fs pnl piv diff ins = Ok (st, stp) ->
    exists K D,
      delta p (MkPState m 0 0 (coll p) 0 0 0 0 fs) st (K - D) /\ nn st /\ f_fund (st_fees st) = f_fund fs /\
      0 <= K <= f_fund fs /\ 0 <= D /\ D * cpm < ppm /\ (same_tokens p = true -> D = 0) /\
      (stp <> Some S_FUNDING -> st_hold_sec st = 0 -> (f_fund fs - K) * cpm < ppm).
  Proof.
    intros Hc Hf Hd H. unfold process_costs in H.
    set (s0 := MkPState m 0 0 (coll p) 0 0 0 0 fs) in *.
    assert (N0 : nn s0) by (unfold nn, s0; cbn; lia).
    unfold plift in H.
    destruct (step_add_pnl w pr p s0 pnl) as [s1|] eqn:E1; [|discriminate].
    pose proof (step_add_pnl_spec _ _ _ N0 E1) as K1.
    destruct (step_add_impact w pr p s1 piv) as [s2|] eqn:E2; [|discriminate].
    pose proof (step_add_impact_spec _ _ _ (proj1 (proj2 K1)) E2) as K2'.
    pose proof (kept_trans _ _ _ K1 K2') as K2. clear K1 K2' E1 E2.
    destruct K2 as (D2 & N2 & F2 & H2). cbn [st_fees st_hold_sec s0] in F2, H2.
    assert (Hf2 : 0 <= f_fund (st_fees s2)) by (rewrite F2; exact Hf).
    pose proof (step_funding_spec s2 N2 Hf2) as S3.
    (* a generic closer for the cases: given the accumulated facts about the final state *)
    assert (Fin : forall K D, delta p s0 st (K - D) -> nn st -> f_fund (st_fees st) = f_fund fs ->
                   0 <= K <= f_fund fs -> 0 <= D -> D * cpm < ppm -> (same_tokens p = true -> D = 0) ->
                   (stp <> Some S_FUNDING -> st_hold_sec st = 0 -> (f_fund fs - K) * cpm < ppm) ->
                   exists K D, delta p s0 st (K - D) /\ nn st /\ f_fund (st_fees st) = f_fund fs /\
                     0 <= K <= f_fund fs /\ 0 <= D /\ D * cpm < ppm /\ (same_tokens p = true -> D = 0) /\
                     (stp <> Some S_FUNDING -> st_hold_sec st = 0 -> (f_fund fs - K) * cpm < ppm)).
    { intros K D A1 A2 A3 A4 A5 A6 A7 A8. exists K, D. exact (conj A1 (conj A2 (conj A3 (conj A4 (conj A5 (conj A6 (conj A7 A8))))))). }
    destruct (step_funding w pr p s2) as [s3|k3 s3|e3]; cbn [pbind after] in H, S3; [| |discriminate].
    2: { (* stopped while paying funding fees *)
      destruct S3 as (-> & K & D3 & N3 & F3 & B3 & _). destruct ins; [|discriminate]. injection H as <- <-.
      assert (DD : delta p s0 s3 (K - 0)) by (replace (K - 0) with (0 + K) by lia; exact (delta_trans _ _ _ _ _ _ D2 D3)).
      apply (Fin K 0); [exact DD|exact N3|congruence|rewrite F2 in B3; exact B3|lia|lia|intros; lia|intros C; exfalso; apply C; reflexivity]. }
    destruct S3 as (K & D3 & N3 & F3 & B3 & Full). rewrite F2 in B3, Full. rewrite H2 in Full. specialize (Full eq_refl).
    assert (D03 : delta p s0 s3 K) by (replace K with (0 + K) by lia; exact (delta_trans _ _ _ _ _ _ D2 D3)).
    assert (F03 : st_fees s3 = fs) by congruence.
    pose proof (step_pnl_negative_spec s3 pnl N3) as S4.
    destruct (step_pnl_negative w pr p s3 pnl) as [s4|k4 s4|e4]; cbn [pbind after] in H, S4; [| |discriminate].
    2: { destruct S4 as (-> & D4 & N4 & F4 & H4). destruct ins; [|discriminate]. injection H as <- <-.
      assert (DD : delta p s0 s4 (K - 0)) by (replace (K - 0) with (K + 0) by lia; exact (delta_trans _ _ _ _ _ _ D03 D4)).
      apply (Fin K 0); [exact DD|exact N4|congruence|exact B3|lia|lia|intros; lia|intros _ Hh; apply Full; congruence]. }
    destruct S4 as (D4 & N4 & F4 & H4).
    assert (D04 : delta p s0 s4 K) by (replace K with (K + 0) by lia; exact (delta_trans _ _ _ _ _ _ D03 D4)).
    pose proof (step_fees_spec s4 N4) as S5.
    destruct (step_fees w pr p s4) as [s5|k5 s5|e5]; cbn [pbind after] in H, S5; [| |discriminate].
    2: { destruct S5 as (-> & D & D5 & N5 & F5 & H5 & B5 & B5' & B5''). destruct ins; [|discriminate]. injection H as <- <-.
      assert (DD : delta p s0 s5 (K - D)) by (replace (K - D) with (K + - D) by lia; exact (delta_trans _ _ _ _ _ _ D04 D5)).
      apply (Fin K D); [exact DD|exact N5|congruence|exact B3|exact B5|exact B5'|exact B5''|intros _ Hh; apply Full; congruence]. }
    destruct S5 as (D & D5 & N5 & F5 & H5 & B5 & B5' & B5'').
    assert (D05 : delta p s0 s5 (K - D)) by (replace (K - D) with (K + - D) by lia; exact (delta_trans _ _ _ _ _ _ D04 D5)).
    assert (F05 : f_fund (st_fees s5) = f_fund fs) by congruence.
    assert (H05 : st_hold_sec s5 = st_hold_sec s3) by congruence.
    pose proof (step_impact_negative_spec s5 piv N5) as S6.
    destruct (step_impact_negative w pr p s5 piv) as [s6|k6 s6|e6]; cbn [pbind after] in H, S6; [| |discriminate].
    2: { destruct S6 as (-> & D6 & N6 & F6 & H6). destruct ins; [|discriminate]. injection H as <- <-.
      assert (DD : delta p s0 s6 (K - D)) by (replace (K - D) with (K - D + 0) by lia; exact (delta_trans _ _ _ _ _ _ D05 D6)).
      apply (Fin K D); [exact DD|exact N6|congruence|exact B3|exact B5|exact B5'|exact B5''|intros _ Hh; apply Full; congruence]. }
    destruct S6 as (D6 & N6 & F6 & H6).
    assert (D06 : delta p s0 s6 (K - D)) by (replace (K - D) with (K - D + 0) by lia; exact (delta_trans _ _ _ _ _ _ D05 D6)).
    pose proof (step_impact_diff_spec s6 diff N6 Hd) as S7.
    destruct (step_impact_diff w pr p s6 diff) as [s7|k7 s7|e7]; cbn [after] in H, S7; [| |discriminate].
    - destruct S7 as (D7 & N7 & F7 & H7). injection H as <- <-.
      assert (DD : delta p s0 s7 (K - D)) by (replace (K - D) with (K - D + 0) by lia; exact (delta_trans _ _ _ _ _ _ D06 D7)).
      apply (Fin K D); [exact DD|exact N7|congruence|exact B3|exact B5|exact B5'|exact B5''|intros _ Hh; apply Full; congruence].
    - destruct S7 as (-> & D7 & N7 & F7 & H7). destruct ins; [|discriminate]. injection H as <- <-.
      assert (DD : delta p s0 s7 (K - D)) by (replace (K - D) with (K - D + 0) by lia; exact (delta_trans _ _ _ _ _ _ D06 D7)).
      apply (Fin K D); [exact DD|exact N7|congruence|exact B3|exact B5|exact B5'|exact B5''|intros _ Hh; apply Full; congruence].
  Qed.
End P.
