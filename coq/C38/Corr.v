(* C38 — correspondence and oracle predicates for harness/src/bin/c38.rs.  Depends on Model.v only. *)
From GV Require Import lib.Base.
From GV Require Export C01.Model C38.Model.
Open Scope Z_scope.

(* gradient printed as: base value for all 53 buckets + overrides (applied in order) *)
Fixpoint overrides (g : list Z) (idx vals : list Z) : list Z :=
  match idx, vals with
  | i :: ri, v :: rv => overrides (set_nth g (Z.to_nat i) v) ri rv
  | _, _ => g
  end.
Definition mk_grad (base : Z) (idx vals : list Z) : list Z := overrides (repeat base 53) idx vals.

Inductive obs :=
| O (rc mint transfer : Z) (close : bool) (p : option (Z * Z * Z * Z)) (vault npos : Z) (claim : bool) (min : Z)
| OGr (rc : Z) (grad : list Z).

Definition Sp (o : op) (b : obs) : op * obs := (o, b).

Inductive case :=
| Twa (start now base : Z) (idx vals : list Z) (r : option Z)
| Rew (value duration aps integral : Z) (r : res Z)
| Hist (base : Z) (idx vals : list Z) (min : Z) (claim enabled : bool) (dis_at dis_cum npos amount value start cum vault : Z)
       (l : list (op * obs)).

Fixpoint list_eqb (a b : list Z) : bool :=
  match a, b with
  | [], [] => true
  | x :: r, y :: s => (x =? y) && list_eqb r s
  | _, _ => false
  end.
Definition reqb (a b : res Z) : bool :=
  match a, b with Ok x, Ok y => x =? y | Err x, Err y => x =? y | _, _ => false end.
Definition pos_eqb (a : option pos) (b : option (Z * Z * Z * Z)) : bool :=
  match a, b with
  | None, None => true
  | Some p, Some (am, v, st, c) => (p_amount p =? am) && (p_value p =? v) && (p_start p =? st) && (p_cum p =? c)
  | _, _ => false
  end.

Fixpoint corr_hist (s : state) (l : list (op * obs)) : bool :=
  match l with
  | [] => true
  | (o, ob) :: r =>
      let '(rc, s', e) := match step s o with Ok (s', e) => (0, s', e) | Err k => (k, s, no_eff) end in
      (match ob with
       | O rc' mint transfer close p vault npos claim min =>
           (rc =? rc') && (e_mint e =? mint) && (e_transfer e =? transfer) && Bool.eqb (e_close e) close
           && pos_eqb (s_pos s') p && (s_vault s' =? vault) && (s_npos s' =? npos)
           && Bool.eqb (s_claim s') claim && (s_min s' =? min)
       | OGr rc' grad => (rc =? rc') && list_eqb (s_grad s') grad
       end) && corr_hist s' r
  end.

Definition corr_b (c : case) : bool :=
  match c with
  | Twa start now base idx vals r => oeqb (twa start now (mk_grad base idx vals)) r
  | Rew value duration aps integral r => reqb (reward_amount value duration aps integral) r
  | Hist base idx vals min claim enabled dis_at dis_cum npos amount value start cum vault l =>
      corr_hist (mkstate (mk_grad base idx vals) min claim enabled dis_at dis_cum npos
                         (Some (mkpos amount value start cum)) vault) l
  end.

(* ================= the property on the implementation's outputs ================= *)

(* seconds of [0, T) that fall into weekly bucket k (the last bucket takes everything beyond) *)
Definition secs_in (T k : Z) : Z :=
  if k =? 52 then Z.max 0 (T - 52 * 604800)
  else Z.max 0 (Z.min 604800 (T - k * 604800)).
Definition per_second_sum (T : Z) (grad : list Z) : Z :=
  fold_left (fun acc k => acc + nth (Z.to_nat k) grad 0 * secs_in T k) (map Z.of_nat (seq 0 53)) 0.

Definition twa_ok (start now : Z) (grad : list Z) (r : option Z) : bool :=
  if now <=? start then oeqb r (Some (nth 0 grad 0))
  else oeqb r (Some (per_second_sum (now - start) grad / (now - start))).

Definition floor2 (value aps integral : Z) : Z := (value * aps / 10 ^ 20) * integral / 10 ^ 20.

(* tracked: position, vault, flags, gradient — all from the observations *)
Record track := mktrack {
  t_pos : option (Z * Z * Z * Z); t_vault : Z; t_npos : Z; t_claim : bool; t_min : Z; t_grad : list Z }.

Definition op_ok (enabled : bool) (dis_at dis_cum : Z) (t : track) (o : op) (ob : obs) : bool :=
  match o, ob with
  | Unstake amount now cum, O rc mint transfer close p' vault' npos' claim' min' =>
      match t_pos t with
      | None => negb (rc =? 0)
      | Some (am, v, st, c) =>
          if rc =? 0 then
            (0 <? amount) && (amount <=? am)
            (* claims disabled => only full exits *)
            && (t_claim t || (amount =? am))
            && match p' with
               | None =>
                   (* full exit: sweeps the whole vault, closes it *)
                   (transfer =? t_vault t) && close && (vault' =? 0) && (npos' =? t_npos t - 1)
                   && ((amount =? am) || ((am - amount) * v / am <? t_min t))
               | Some (am', v', st', c') =>
                   (* partial: exactly the requested tokens, proportional rounded-down value *)
                   (transfer =? amount) && negb close && (am' =? am - amount) && (0 <? am')
                   && (v' * am <=? v * am') && (v * am' <? (v' + 1) * am)
                   && (t_min t <=? v') && (vault' =? t_vault t - amount) && (st' =? st) && (npos' =? t_npos t)
               end
            (* reward: follows the schedule for the elapsed window *)
            && (let '(cum_now, end_) := if enabled then (cum, now) else (dis_cum, dis_at) in
                (c <=? cum_now)
                && (if (end_ <=? st) then true
                    else mint =? Z.min (2 ^ 64 - 1)
                                  (floor2 v (per_second_sum (end_ - st) (t_grad t) / (end_ - st) / 31557600) (cum_now - c)))
                && match p' with Some (_, _, _, c') => c' =? cum_now | None => true end)
          else true
      end
  | Claim now cum, O rc mint transfer close p' vault' npos' claim' min' =>
      match t_pos t with
      | None => negb (rc =? 0)
      | Some (am, v, st, c) =>
          if rc =? 0 then
            t_claim t && (transfer =? 0) && negb close && (vault' =? t_vault t)
            && (let '(cum_now, end_) := if enabled then (cum, now) else (dis_cum, dis_at) in
                (c <=? cum_now)
                && match p' with Some (am', v', st', c') => (am' =? am) && (v' =? v) && (st' =? st) && (c' =? cum_now) | None => false end
                && (if (end_ <=? st) then true
                    else mint =? Z.min (2 ^ 64 - 1)
                                  (floor2 v (per_second_sum (end_ - st) (t_grad t) / (end_ - st) / 31557600) (cum_now - c))))
          else true
      end
  | SetClaim b ok, O rc _ _ _ p' vault' _ claim' _ =>
      if rc =? 0 then ok && Bool.eqb claim' b else negb ok
  | SetMin v ok, O rc _ _ _ _ _ _ _ min' =>
      if rc =? 0 then ok && (min' =? v) else negb ok
  | Dust k, O rc _ _ _ _ vault' _ _ _ => (rc =? 0) && (vault' =? t_vault t + k)
  | GradSparse _ _, OGr rc g | GradRange _ _ _, OGr rc g =>
      (* the stored gradient always stays within the cap, and a rejected update changes nothing *)
      forallb (fun x => (0 <=? x) && (x <=? 2 * 10 ^ 20)) g && (length g =? 53)%nat
      && (if rc =? 0 then true else list_eqb g (t_grad t))
  | _, _ => false
  end.

Definition track_step (t : track) (ob : obs) : track :=
  match ob with
  | O _ _ _ _ p' vault' npos' claim' min' => mktrack p' vault' npos' claim' min' (t_grad t)
  | OGr _ g => mktrack (t_pos t) (t_vault t) (t_npos t) (t_claim t) (t_min t) g
  end.

Fixpoint oracle_hist (enabled : bool) (dis_at dis_cum : Z) (t : track) (l : list (op * obs)) : bool :=
  match l with
  | [] => true
  | (o, ob) :: r => op_ok enabled dis_at dis_cum t o ob && oracle_hist enabled dis_at dis_cum (track_step t ob) r
  end.

Definition oracle_b (c : case) : bool :=
  match c with
  | Twa start now base idx vals r => twa_ok start now (mk_grad base idx vals) r
  | Rew value duration aps integral r =>
      match r with
      | Ok q => (0 <=? duration) && (q =? Z.min (2 ^ 64 - 1) (floor2 value aps integral))
                && (value * aps / 10 ^ 20 <? 2 ^ 128) && (floor2 value aps integral <? 2 ^ 128)
      | Err e => if duration <? 0 then e =? 1
                 else (e =? 3) && ((2 ^ 128 <=? value * aps / 10 ^ 20) || (2 ^ 128 <=? floor2 value aps integral))
      end
  | Hist base idx vals min claim enabled dis_at dis_cum npos amount value start cum vault l =>
      oracle_hist enabled dis_at dis_cum
        (mktrack (Some (amount, value, start, cum)) vault npos claim min (mk_grad base idx vals)) l
  end.

(* known finding class 1 (ApySaturation): the exact per-second sum exceeds u128::MAX, the saturating
   accumulation caps it and the returned average is too small *)
Definition known_b (c : case) : Z :=
  match c with
  | Twa start now base idx vals r =>
      let g := mk_grad base idx vals in
      if (start <? now) && (2 ^ 128 - 1 <? per_second_sum (now - start) g)
         && negb (twa_ok start now g r)
         && oeqb r (Some ((2 ^ 128 - 1) / (now - start)))
      then 1 else 0
  | _ => 0
  end.
