(* C38 — Gallina model of programs/liquidity-provider/src/lib.rs: compute_time_weighted_apy,
   calculate_gt_reward_amount, compute_reward_with_cpi (the part after the CPI), claim_gt,
   unstake_lp, and the configuration instructions.  Definitions only.

   Error classes: 1 Unauthorized, 2 InvalidArgument, 3 MathOverflow, 4 ApyTooLarge, 5 ClaimDisabled,
   7 rejected by the account constraints (wrong authority), 8 position account missing (closed),
   99 unused (the i64 overflow of now - stake_start_time was repaired with abs_diff). *)
From GV Require Import lib.Base C01.Model.
Open Scope Z_scope.

Definition UNIT : Z := 10 ^ 20.
Definition U128MAX : Z := 2 ^ 128 - 1.
Definition U64MAX : Z := 2 ^ 64 - 1.
Definition I64MAX : Z := 2 ^ 63 - 1.
Definition I64MIN : Z := - 2 ^ 63.
Definition APY_MAX : Z := 2 * 10 ^ 20.
Definition WEEK : Z := 604800.
Definition YEAR : Z := 31557600.
Definition LAST : Z := 52.                       (* APY_LAST_INDEX; 53 buckets *)

Definition sat_add (a b : Z) : Z := Z.min U128MAX (a + b).
Definition sat_mul (a b : Z) : Z := Z.min U128MAX (a * b).
Definition sat_i64 (z : Z) : Z := Z.max I64MIN (Z.min I64MAX z).

Definition bucket (grad : list Z) (k : Z) : Z := nth (Z.to_nat k) grad 0.

(* ---- compute_time_weighted_apy (total; the option type is kept for the callers) ---- *)
Definition twa (start now : Z) (grad : list Z) : option Z :=
  if now <=? start then Some (bucket grad 0) else
  let total := now - start in                    (* now.abs_diff(start): exact, cannot overflow *)
  let full := total / WEEK in
  let rem := total mod WEEK in
  let capped := Z.min full LAST in
  let acc1 := fold_left (fun acc v => sat_add acc (sat_mul v WEEK)) (firstn (Z.to_nat capped) grad) 0 in
  let acc2 := if LAST <? full then sat_add acc1 (sat_mul (bucket grad LAST) (sat_mul WEEK (full - LAST))) else acc1 in
  let acc3 := if 0 <? rem then sat_add acc2 (sat_mul (bucket grad (Z.min full LAST)) rem) else acc2 in
  Some (acc3 / total).

(* ---- calculate_gt_reward_amount ---- *)
Definition reward_amount (value duration aps integral : Z) : res Z :=
  if duration <? 0 then Err 1 else
  match apply_factor 128 UNIT value aps with
  | None => Err 3
  | Some per_sec =>
      match apply_factor 128 UNIT per_sec integral with
      | None => Err 3
      | Some raw => Ok (Z.min raw U64MAX)
      end
  end.

(* ---- state ---- *)
Record pos := mkpos { p_amount : Z; p_value : Z; p_start : Z; p_cum : Z }.
Record state := mkstate {
  s_grad : list Z; s_min : Z; s_claim : bool;
  s_enabled : bool; s_dis_at : Z; s_dis_cum : Z; s_npos : Z;
  s_pos : option pos;                 (* None once the position account is closed *)
  s_vault : Z }.                      (* token balance of the position vault *)

(* compute_reward_with_cpi: (cum_now, end) come from the CPI / clock when the controller is
   enabled, from the controller snapshot otherwise *)
Definition compute_reward (s : state) (p : pos) (now cum_cpi : Z) : res (Z * Z) :=
  let '(cum_now, end_) := if s_enabled s then (cum_cpi, now) else (s_dis_cum s, s_dis_at s) in
  if cum_now <? p_cum p then Err 2 else
  let integral := cum_now - p_cum p in
  let duration := sat_i64 (end_ - p_start p) in
  match twa (p_start p) end_ (s_grad s) with
  | None => Err 99
  | Some avg =>
      r <-- reward_amount (p_value p) duration (avg / YEAR) integral ;;
      Ok (r, cum_now)
  end.

Definition set_pos (s : state) (p : option pos) (vault npos : Z) : state :=
  mkstate (s_grad s) (s_min s) (s_claim s) (s_enabled s) (s_dis_at s) (s_dis_cum s) npos p vault.

(* what an instruction asks other programs to do *)
Record effects := mkeff { e_mint : Z;            (* GT minted to the owner (0 = no CPI) *)
                          e_transfer : Z;        (* LP tokens moved vault -> owner (0 = no CPI) *)
                          e_close : bool }.      (* vault token account closed *)

Inductive op :=
| SetClaim (b auth_ok : bool)
| SetMin (v : Z) (auth_ok : bool)
| GradSparse (idx vals : list Z)
| GradRange (s e : Z) (vals : list Z)
| Claim (now cum : Z)
| Unstake (amount now cum : Z)
| Dust (k : Z).                       (* somebody sends k tokens to the vault *)

Fixpoint set_nth (l : list Z) (i : nat) (v : Z) : list Z :=
  match l, i with
  | [], _ => []
  | _ :: r, O => v :: r
  | a :: r, S j => a :: set_nth r j v
  end.

(* update_apy_gradient_sparse: pairs are applied in order; the first bad pair aborts (the
   transaction then rolls back) *)
Fixpoint sparse_apply (g : list Z) (idx vals : list Z) : res (list Z) :=
  match idx, vals with
  | i :: ri, v :: rv =>
      if negb (i <? 53) then Err 2 else
      if APY_MAX <? v then Err 4 else sparse_apply (set_nth g (Z.to_nat i) v) ri rv
  | _, _ => Ok g                      (* zip stops at the shorter list; lengths were checked equal *)
  end.

Fixpoint range_apply (g : list Z) (i : Z) (vals : list Z) : res (list Z) :=
  match vals with
  | [] => Ok g
  | v :: r => if APY_MAX <? v then Err 4 else range_apply (set_nth g (Z.to_nat i) v) (i + 1) r
  end.

Definition set_grad (s : state) (g : list Z) : state :=
  mkstate g (s_min s) (s_claim s) (s_enabled s) (s_dis_at s) (s_dis_cum s) (s_npos s) (s_pos s) (s_vault s).

Definition no_eff : effects := mkeff 0 0 false.

Definition step (s : state) (o : op) : res (state * effects) :=
  match o with
  | SetClaim b auth_ok =>
      if negb auth_ok then Err 7 else
      Ok (mkstate (s_grad s) (s_min s) b (s_enabled s) (s_dis_at s) (s_dis_cum s) (s_npos s) (s_pos s) (s_vault s), no_eff)
  | SetMin v auth_ok =>
      if negb auth_ok then Err 7 else
      Ok (mkstate (s_grad s) v (s_claim s) (s_enabled s) (s_dis_at s) (s_dis_cum s) (s_npos s) (s_pos s) (s_vault s), no_eff)
  | GradSparse idx vals =>
      if negb (Z.of_nat (length idx) =? Z.of_nat (length vals)) then Err 2 else
      g <-- sparse_apply (s_grad s) idx vals ;; Ok (set_grad s g, no_eff)
  | GradRange a b vals =>
      if negb ((a <? 53) && (b <? 53)) then Err 2 else
      if negb (a <=? b) then Err 2 else
      if negb (Z.of_nat (length vals) =? b - a + 1) then Err 2 else
      g <-- range_apply (s_grad s) a vals ;; Ok (set_grad s g, no_eff)
  | Claim now cum =>
      match s_pos s with
      | None => Err 8
      | Some p =>
          if negb (s_claim s) then Err 5 else
          rc <-- compute_reward s p now cum ;;
          let '(reward, cum_now) := rc in
          Ok (set_pos s (Some (mkpos (p_amount p) (p_value p) (p_start p) cum_now)) (s_vault s) (s_npos s),
              mkeff reward 0 false)
      end
  | Unstake amount now cum =>
      match s_pos s with
      | None => Err 8
      | Some p =>
          if negb (0 <? amount) then Err 2 else
          rc <-- compute_reward s p now cum ;;
          let '(reward, cum_now) := rc in
          let old_amount := p_amount p in
          let old_value := p_value p in
          if negb (amount <=? old_amount) then Err 2 else
          if negb (s_claim s) && negb (amount =? old_amount) then Err 2 else
          let remaining := old_amount - amount in
          nv <-- (if remaining =? 0 then Ok 0
                  else of_opt 3 (mul_div 128 old_value remaining old_amount)) ;;
          let full_exit := (remaining =? 0) || (nv <? s_min s) in
          if full_exit then
            npos <-- of_opt 3 (chk_u 64 (s_npos s - 1)) ;;
            Ok (set_pos s None 0 npos, mkeff reward (s_vault s) true)       (* sweeps the whole vault *)
          else
            Ok (set_pos s (Some (mkpos remaining nv (p_start p) cum_now)) (s_vault s - amount) (s_npos s),
                mkeff reward amount false)
      end
  | Dust k => Ok (set_pos s (s_pos s) (s_vault s + k) (s_npos s), no_eff)
  end.

Definition step_total (s : state) (o : op) : state :=
  match step s o with Ok (s', _) => s' | Err _ => s end.
Definition run (s : state) (ops : list op) : state := fold_left step_total ops s.
