(* C38 — proofs about the LP staking model. *)
From GV Require Import lib.Base lib.DivLemmas C01.Model C01.Proofs C38.Model.
Open Scope Z_scope.
Ltac Zify.zify_post_hook ::= Z.div_mod_to_equations.

(* ================= time-weighted APY ================= *)
Section Twa.
  Variable grad : list Z.
  Hypothesis Hlen : length grad = 53%nat.
  Hypothesis Hcap : forall x, In x grad -> 0 <= x <= APY_MAX.

  (* bucket used by elapsed second t (weeks past the last bucket use the last one) *)
  Definition G (k : Z) : Z := bucket grad (Z.min k LAST).

  (* the average the property talks about: sum over every elapsed second *)
  Fixpoint sec_sum (n : nat) : Z :=
    match n with O => 0 | S k => sec_sum k + G (Z.of_nat k / WEEK) end.

  Fixpoint wsum (m : nat) : Z :=
    match m with O => 0 | S k => wsum k + G (Z.of_nat k) end.

  Lemma bucket_range k : 0 <= k <= LAST -> 0 <= bucket grad k <= APY_MAX.
  Proof.
    intros Hk. unfold bucket. apply Hcap. apply nth_In. rewrite Hlen. unfold LAST in Hk. lia.
  Qed.

  Lemma G_range k : 0 <= k -> 0 <= G k <= APY_MAX.
  Proof. intros Hk. unfold G. apply bucket_range. unfold LAST. lia. Qed.

  Lemma wsum_range m : 0 <= wsum m <= Z.of_nat m * APY_MAX.
  Proof.
    induction m as [|m IH]; [simpl; lia|]. cbn [wsum]. pose proof (G_range (Z.of_nat m) ltac:(lia)). lia.
  Qed.

  (* closed form of the per-second sum *)
  Lemma sec_sum_closed n :
    sec_sum n = WEEK * wsum (Z.to_nat (Z.of_nat n / WEEK)) + (Z.of_nat n mod WEEK) * G (Z.of_nat n / WEEK).
  Proof.
    induction n as [|n IH]; [reflexivity|].
    cbn [sec_sum]. rewrite IH. clear IH.
    set (N := Z.of_nat n). replace (Z.of_nat (S n)) with (N + 1) by lia.
    assert (HW : WEEK = 604800) by reflexivity.
    assert (HN : 0 <= N) by lia.
    destruct (Z_lt_dec (N mod WEEK + 1) WEEK) as [Hlt|Hge].
    - assert (E1 : (N + 1) / WEEK = N / WEEK) by (rewrite HW in *; lia).
      assert (E2 : (N + 1) mod WEEK = N mod WEEK + 1) by (rewrite HW in *; lia).
      rewrite E1, E2. lia.
    - assert (E1 : (N + 1) / WEEK = N / WEEK + 1) by (rewrite HW in *; lia).
      assert (E2 : (N + 1) mod WEEK = 0) by (rewrite HW in *; lia).
      assert (E3 : N mod WEEK = WEEK - 1) by (rewrite HW in *; lia).
      rewrite E1, E2, E3.
      assert (Hq : 0 <= N / WEEK) by (rewrite HW; lia).
      rewrite Z2Nat.inj_add by lia. replace (Z.to_nat 1) with 1%nat by reflexivity.
      rewrite Nat.add_1_r. cbn [wsum]. rewrite Z2Nat.id by lia. lia.
  Qed.

  Lemma sec_sum_range n : 0 <= sec_sum n <= Z.of_nat n * APY_MAX.
  Proof.
    induction n as [|n IH]; [simpl; lia|]. cbn [sec_sum].
    assert (0 <= Z.of_nat n / WEEK) by (unfold WEEK; lia).
    pose proof (G_range (Z.of_nat n / WEEK) H). lia.
  Qed.

  (* weeks beyond the last bucket *)
  Lemma wsum_beyond m : (52 <= m)%nat -> wsum m = wsum 52 + (Z.of_nat m - 52) * bucket grad LAST.
  Proof.
    intros Hm. remember 52%nat as n52 eqn:En. induction Hm as [|m Hm IH].
    - subst n52. replace (Z.of_nat 52 - 52) with 0 by reflexivity. rewrite Z.mul_0_l, Z.add_0_r. reflexivity.
    - cbn [wsum]. rewrite IH. unfold G. rewrite Z.min_r by (unfold LAST; subst n52; lia). subst n52. lia.
  Qed.

  (* the fold over the first m buckets *)
  Definition plain_fold (l : list Z) (a : Z) : Z := fold_left (fun acc v => acc + v * WEEK) l a.
  Definition sat_fold (l : list Z) (a : Z) : Z := fold_left (fun acc v => sat_add acc (sat_mul v WEEK)) l a.

  Lemma plain_fold_ge l : forall a, (forall x, In x l -> 0 <= x) -> a <= plain_fold l a.
  Proof.
    induction l as [|v l IH]; intros a H; [simpl; lia|]. cbn [plain_fold fold_left].
    pose proof (H v (or_introl eq_refl)). specialize (IH (a + v * WEEK) (fun x Hx => H x (or_intror Hx))).
    unfold plain_fold in IH. unfold WEEK in *. lia.
  Qed.

  Lemma sat_fold_plain l : forall a, 0 <= a -> (forall x, In x l -> 0 <= x) -> plain_fold l a <= U128MAX ->
    sat_fold l a = plain_fold l a.
  Proof.
    induction l as [|v l IH]; intros a Ha H Hb; [reflexivity|]. cbn [sat_fold plain_fold fold_left] in *.
    pose proof (H v (or_introl eq_refl)) as Hv.
    pose proof (plain_fold_ge l (a + v * WEEK) (fun x Hx => H x (or_intror Hx))) as Hge. unfold plain_fold in Hge.
    assert (E : sat_add a (sat_mul v WEEK) = a + v * WEEK).
    { unfold sat_add, sat_mul, WEEK in *. lia. }
    rewrite E. apply IH; [unfold WEEK; lia|intros x Hx; apply H; right; exact Hx|exact Hb].
  Qed.

  Lemma firstn_S_nth_gen (l : list Z) : forall m, (m < length l)%nat -> firstn (S m) l = firstn m l ++ [nth m l 0].
  Proof.
    induction l as [|a l IH]; intros m Hm; [simpl in Hm; lia|].
    destruct m as [|m]; [reflexivity|]. simpl in Hm. cbn [firstn nth app]. f_equal. apply IH. lia.
  Qed.
  Lemma firstn_S_nth (m : nat) : (m < length grad)%nat -> firstn (S m) grad = firstn m grad ++ [nth m grad 0].
  Proof. apply firstn_S_nth_gen. Qed.

  Lemma plain_fold_firstn m : (m <= 52)%nat -> plain_fold (firstn m grad) 0 = WEEK * wsum m.
  Proof.
    induction m as [|m IH]; intros Hm; [simpl; lia|].
    rewrite firstn_S_nth by (rewrite Hlen; lia). unfold plain_fold in *. rewrite fold_left_app. rewrite IH by lia.
    cbn [fold_left wsum]. unfold G, bucket. rewrite Z.min_l by (unfold LAST; lia). rewrite Nat2Z.id. lia.
  Qed.

  Theorem twa_is_average start now :
    start < now -> (now - start) * APY_MAX <= U128MAX ->
    twa start now grad = Some (sec_sum (Z.to_nat (now - start)) / (now - start)).
  Proof.
    intros Hlt Hb. unfold twa.
    destruct (now <=? start) eqn:E1; [lia|].
    set (T := now - start) in *. f_equal. f_equal.
    assert (HW : WEEK = 604800) by reflexivity.
    assert (HT : 0 < T) by lia.
    set (full := T / WEEK). set (rem := T mod WEEK).
    assert (Hfull : 0 <= full) by (unfold full; rewrite HW; lia).
    assert (Hrem : 0 <= rem < WEEK) by (unfold rem; rewrite HW; lia).
    assert (HTd : T = WEEK * full + rem) by (unfold full, rem; rewrite HW; lia).
    (* target *)
    rewrite sec_sum_closed. rewrite Z2Nat.id by lia. fold full. fold rem.
    pose proof (sec_sum_range (Z.to_nat T)) as HSR. rewrite sec_sum_closed in HSR. rewrite Z2Nat.id in HSR by lia.
    fold full in HSR. fold rem in HSR.
    pose proof (wsum_range (Z.to_nat full)) as HWR. rewrite Z2Nat.id in HWR by lia.
    pose proof (G_range full Hfull) as HGR.
    (* first part *)
    set (capped := Z.min full LAST).
    assert (Hc52 : (Z.to_nat capped <= 52)%nat) by (unfold capped, LAST; lia).
    assert (Hpos : forall x, In x (firstn (Z.to_nat capped) grad) -> 0 <= x).
    { intros x Hx. apply (Hcap x). rewrite <- (firstn_skipn (Z.to_nat capped) grad). apply in_or_app. left. exact Hx. }
    pose proof (plain_fold_firstn (Z.to_nat capped) Hc52) as HP.
    pose proof (wsum_range (Z.to_nat capped)) as HWC.
    assert (Hcz : Z.of_nat (Z.to_nat capped) = capped) by (apply Z2Nat.id; unfold capped, LAST; lia).
    assert (Hacc1 : sat_fold (firstn (Z.to_nat capped) grad) 0 = WEEK * wsum (Z.to_nat capped)).
    { rewrite sat_fold_plain; [exact HP|lia|exact Hpos|]. rewrite HP. rewrite Hcz in HWC.
      assert (capped <= full) by (unfold capped; lia). unfold U128MAX, APY_MAX, WEEK in *. nia. }
    unfold sat_fold in Hacc1. rewrite Hacc1. clear Hacc1.
    pose proof (bucket_range LAST ltac:(unfold LAST; lia)) as HB52.
    destruct (LAST <? full) eqn:E3.
    - (* past the last bucket *)
      assert (Hcap' : capped = LAST) by (unfold capped; lia). rewrite Hcap'.
      assert (HWB : wsum (Z.to_nat full) = wsum 52 + (full - 52) * bucket grad LAST).
      { rewrite wsum_beyond by (unfold LAST in *; lia). rewrite Z2Nat.id by lia. reflexivity. }
      replace (Z.to_nat LAST) with 52%nat by reflexivity.
      assert (HG : G full = bucket grad LAST) by (unfold G; rewrite Z.min_r by lia; reflexivity).
      pose proof (wsum_range 52) as HW52.
      assert (E4 : sat_mul WEEK (full - LAST) = WEEK * (full - LAST)).
      { unfold sat_mul, U128MAX, APY_MAX, WEEK, LAST in *. nia. }
      assert (E5 : sat_mul (bucket grad LAST) (WEEK * (full - LAST)) = bucket grad LAST * (WEEK * (full - LAST))).
      { unfold sat_mul, U128MAX, APY_MAX, WEEK, LAST in *. nia. }
      assert (E6 : sat_add (WEEK * wsum 52) (bucket grad LAST * (WEEK * (full - LAST))) = WEEK * wsum (Z.to_nat full)).
      { rewrite HWB. unfold sat_add, U128MAX, APY_MAX, WEEK, LAST in *. nia. }
      rewrite E4, E5, E6.
      destruct (0 <? rem) eqn:E7.
      + assert (E8 : sat_mul (bucket grad LAST) rem = bucket grad LAST * rem).
        { unfold sat_mul, U128MAX, APY_MAX, WEEK, LAST in *. nia. }
        rewrite E8, HG. unfold sat_add. rewrite HG in HSR. unfold U128MAX, APY_MAX in *. nia.
      + assert (rem = 0) by lia. rewrite H. lia.
    - assert (Hcap' : capped = full) by (unfold capped; lia). rewrite Hcap'.
      destruct (0 <? rem) eqn:E7.
      + assert (HGb : G full = bucket grad full) by (unfold G; rewrite Z.min_l by lia; reflexivity).
        rewrite <- HGb.
        assert (E8 : sat_mul (G full) rem = G full * rem).
        { unfold sat_mul, U128MAX, APY_MAX, WEEK in *. nia. }
        rewrite E8. unfold sat_add, U128MAX, APY_MAX in *. nia.
      + assert (rem = 0) by lia. rewrite H. lia.
  Qed.
End Twa.

(* ================= reward ================= *)
Lemma UNIT_pos : 0 < UNIT. Proof. unfold UNIT. lia. Qed.

Theorem reward_exact value duration aps integral r :
  0 <= value -> 0 <= aps -> 0 <= integral ->
  reward_amount value duration aps integral = Ok r <->
  (0 <= duration /\ value * aps / UNIT < 2 ^ 128 /\ (value * aps / UNIT) * integral / UNIT < 2 ^ 128 /\
   r = Z.min ((value * aps / UNIT) * integral / UNIT) U64MAX).
Proof.
  intros Hv Ha Hi. unfold reward_amount. destruct (duration <? 0) eqn:E.
  - split; [discriminate|]. lia.
  - destruct (apply_factor 128 UNIT value aps) as [ps|] eqn:E1.
    + apply (apply_factor_exact 128 ltac:(lia) UNIT UNIT_pos) in E1; [|exact Hv|exact Ha]. destruct E1 as [-> L1].
      assert (Hps : 0 <= value * aps / UNIT) by (apply div_nonneg; [nia|exact UNIT_pos]).
      destruct (apply_factor 128 UNIT (value * aps / UNIT) integral) as [raw|] eqn:E2.
      * apply (apply_factor_exact 128 ltac:(lia) UNIT UNIT_pos) in E2; [|exact Hps|exact Hi]. destruct E2 as [-> L2].
        split; [intros H; injection H as <-; repeat split; auto; lia|intros (_ & _ & _ & ->); reflexivity].
      * split; [discriminate|]. intros (_ & _ & L2 & _).
        assert (X : apply_factor 128 UNIT (value * aps / UNIT) integral = Some ((value * aps / UNIT) * integral / UNIT)).
        { apply (apply_factor_exact 128 ltac:(lia) UNIT UNIT_pos); auto. }
        congruence.
    + split; [discriminate|]. intros (_ & L1 & _).
      assert (X : apply_factor 128 UNIT value aps = Some (value * aps / UNIT)).
      { apply (apply_factor_exact 128 ltac:(lia) UNIT UNIT_pos); auto. }
      congruence.
Qed.

(* rewards never decrease with a larger stake value or a larger cost integral *)
Theorem reward_monotone v1 v2 d a i1 i2 r1 r2 :
  0 <= v1 <= v2 -> 0 <= a -> 0 <= i1 <= i2 ->
  reward_amount v1 d a i1 = Ok r1 -> reward_amount v2 d a i2 = Ok r2 -> r1 <= r2.
Proof.
  intros Hv Ha Hi H1 H2.
  apply reward_exact in H1; [|lia|lia|lia]. apply reward_exact in H2; [|lia|lia|lia].
  destruct H1 as (_ & _ & _ & ->). destruct H2 as (_ & _ & _ & ->).
  assert (P1 : v1 * a / UNIT <= v2 * a / UNIT) by (apply div_mono_num; [exact UNIT_pos|nia]).
  assert (P0 : 0 <= v1 * a / UNIT) by (apply div_nonneg; [nia|exact UNIT_pos]).
  assert (P2 : (v1 * a / UNIT) * i1 / UNIT <= (v2 * a / UNIT) * i2 / UNIT) by (apply div_mono_num; [exact UNIT_pos|nia]).
  lia.
Qed.

(* ================= unstaking ================= *)
Lemma rbind_ok {A B} (a : res A) (f : A -> res B) r :
  rbind a f = Ok r -> exists x, a = Ok x /\ f x = Ok r.
Proof. destruct a; simpl; intros H; [eauto|discriminate]. Qed.

Lemma of_opt_ok_local e w z x : of_opt e (chk_u w z) = Ok x -> x = z /\ 0 <= z < 2 ^ w.
Proof.
  destruct (chk_u w z) as [y|] eqn:E; simpl; [|discriminate]. intros H; injection H as <-.
  apply chk_u_some in E. lia.
Qed.

(* complete case analysis of a successful unstake *)
Theorem unstake_cases s amount now cum s' e :
  step s (Unstake amount now cum) = Ok (s', e) ->
  exists p reward cum_now, s_pos s = Some p /\ compute_reward s p now cum = Ok (reward, cum_now) /\
    e_mint e = reward /\ 0 < amount <= p_amount p /\
    (s_claim s = false -> amount = p_amount p) /\
    ((* full exit: everything in the vault is swept and the vault is closed *)
     (s_pos s' = None /\ e_transfer e = s_vault s /\ e_close e = true /\ s_vault s' = 0 /\ s_npos s' = s_npos s - 1 /\
      (amount = p_amount p \/
       (amount < p_amount p /\ p_value p * (p_amount p - amount) / p_amount p < s_min s))) \/
     (* partial: exactly the requested tokens; proportional, rounded-down value; position kept *)
     (exists nv, s_pos s' = Some (mkpos (p_amount p - amount) nv (p_start p) cum_now) /\
      amount < p_amount p /\ nv = p_value p * (p_amount p - amount) / p_amount p /\ s_min s <= nv /\
      e_transfer e = amount /\ e_close e = false /\ s_vault s' = s_vault s - amount /\ s_npos s' = s_npos s)) /\
    s_grad s' = s_grad s /\ s_min s' = s_min s /\ s_claim s' = s_claim s.
Proof.
  unfold step. destruct (s_pos s) as [p|] eqn:EP; [|discriminate].
  destruct (0 <? amount) eqn:E0; simpl; [|discriminate]. intros H.
  apply rbind_ok in H. destruct H as ([reward cum_now] & HC & H).
  destruct (amount <=? p_amount p) eqn:E1; simpl in H; [|discriminate].
  destruct (negb (s_claim s) && negb (amount =? p_amount p)) eqn:E2; [discriminate|].
  apply rbind_ok in H. destruct H as (nv & HN & H).
  exists p, reward, cum_now.
  assert (Hclaim : s_claim s = false -> amount = p_amount p).
  { intros Hc. rewrite Hc in E2. simpl in E2. destruct (amount =? p_amount p) eqn:E3; [lia|discriminate]. }
  destruct (p_amount p - amount =? 0) eqn:ER.
  - injection HN as <-. simpl in H. apply rbind_ok in H. destruct H as (npos & HNP & H).
    apply of_opt_ok_local in HNP. injection H as <- <-. simpl.
    split; [reflexivity|]. split; [exact HC|]. split; [reflexivity|]. split; [lia|]. split; [exact Hclaim|].
    split; [|auto]. left. repeat split; auto; try lia.
  - assert (Hlt : amount < p_amount p) by lia.
    assert (HNV : nv = p_value p * (p_amount p - amount) / p_amount p).
    { destruct (mul_div 128 (p_value p) (p_amount p - amount) (p_amount p)) as [q|] eqn:EM; simpl in HN; [|discriminate].
      injection HN as <-. unfold mul_div in EM. destruct (p_amount p =? 0) eqn:EZ; [discriminate|].
      unfold chk_u in EM. destruct (in_u 128 _); [injection EM as <-; auto|discriminate]. }
    simpl in H. destruct (nv <? s_min s) eqn:EF.
    + apply rbind_ok in H. destruct H as (npos & HNP & H). apply of_opt_ok_local in HNP. injection H as <- <-. simpl.
      split; [reflexivity|]. split; [exact HC|]. split; [reflexivity|]. split; [lia|]. split; [exact Hclaim|].
      split; [|auto]. left. repeat split; auto; try lia.
    + injection H as <- <-. simpl.
      split; [reflexivity|]. split; [exact HC|]. split; [reflexivity|]. split; [lia|]. split; [exact Hclaim|].
      split; [|auto]. right. exists nv. repeat split; auto; lia.
Qed.

Theorem claim_cases s now cum s' e :
  step s (Claim now cum) = Ok (s', e) ->
  s_claim s = true /\
  exists p reward cum_now, s_pos s = Some p /\ compute_reward s p now cum = Ok (reward, cum_now) /\
    e = mkeff reward 0 false /\
    s_pos s' = Some (mkpos (p_amount p) (p_value p) (p_start p) cum_now) /\
    s_vault s' = s_vault s /\ s_npos s' = s_npos s /\ s_grad s' = s_grad s /\ s_min s' = s_min s /\ s_claim s' = s_claim s.
Proof.
  unfold step. destruct (s_pos s) as [p|] eqn:EP; [|discriminate].
  destruct (s_claim s) eqn:EC; simpl; [|discriminate]. intros H.
  apply rbind_ok in H. destruct H as ([reward cum_now] & HC & H). injection H as <- <-.
  split; [reflexivity|]. exists p, reward, cum_now. simpl. repeat split; auto.
Qed.

(* while claims are disabled only full exits are possible, and claim_gt is rejected *)
Theorem claims_disabled_only_full s : s_claim s = false ->
  (forall now cum, exists k, step s (Claim now cum) = Err k) /\
  (forall amount now cum s' e, step s (Unstake amount now cum) = Ok (s', e) ->
     s_pos s' = None /\ e_transfer e = s_vault s /\ e_close e = true).
Proof.
  intros Hc. split.
  - intros now cum. destruct (step s (Claim now cum)) as [[s' e]|k] eqn:E; [|eauto].
    apply claim_cases in E. destruct E as [E _]. congruence.
  - intros amount now cum s' e H. apply unstake_cases in H.
    destruct H as (p & reward & cum_now & EP & _ & _ & Ha & Hfull & [(P1 & P2 & P3 & _)|(nv & _ & Hlt & _)] & _).
    + auto.
    + specialize (Hfull Hc). lia.
Qed.

(* ================= histories ================= *)
Definition op_wf (o : op) : Prop :=
  match o with
  | GradSparse _ vals | GradRange _ _ vals => Forall (fun v => 0 <= v) vals
  | Dust k => 0 <= k
  | _ => True
  end.

Lemma set_nth_length l : forall i v, length (set_nth l i v) = length l.
Proof. induction l as [|a l IH]; intros [|i] v; simpl; auto. Qed.

Lemma set_nth_In l : forall i v x, In x (set_nth l i v) -> x = v \/ In x l.
Proof.
  induction l as [|a l IH]; intros [|i] v x; simpl; try tauto.
  - intros [H|H]; auto.
  - intros [H|H]; auto. destruct (IH i v x H); auto.
Qed.

Definition grad_ok (g : list Z) : Prop := length g = 53%nat /\ forall x, In x g -> 0 <= x <= APY_MAX.

Lemma sparse_apply_ok : forall idx vals g g', grad_ok g -> Forall (fun v => 0 <= v) vals ->
  sparse_apply g idx vals = Ok g' -> grad_ok g'.
Proof.
  induction idx as [|i ri IH]; intros vals g g' HG HV H; simpl in H.
  - injection H as <-. exact HG.
  - destruct vals as [|v rv]; [injection H as <-; exact HG|].
    destruct (negb (i <? 53)); [discriminate|]. destruct (APY_MAX <? v) eqn:E; [discriminate|].
    inversion HV; subst. apply (IH rv (set_nth g (Z.to_nat i) v)); auto.
    destruct HG as [L A]. split; [rewrite set_nth_length; exact L|].
    intros x Hx. apply set_nth_In in Hx. destruct Hx as [->|Hx]; [lia|auto].
Qed.

Lemma range_apply_ok : forall vals g i g', grad_ok g -> Forall (fun v => 0 <= v) vals ->
  range_apply g i vals = Ok g' -> grad_ok g'.
Proof.
  induction vals as [|v rv IH]; intros g i g' HG HV H; simpl in H.
  - injection H as <-. exact HG.
  - destruct (APY_MAX <? v) eqn:E; [discriminate|]. inversion HV; subst.
    apply (IH (set_nth g (Z.to_nat i) v) (i + 1)); auto.
    destruct HG as [L A]. split; [rewrite set_nth_length; exact L|].
    intros x Hx. apply set_nth_In in Hx. destruct Hx as [->|Hx]; [lia|auto].
Qed.

(* invariant: the stored gradient is within the cap; the vault holds at least the staked amount;
   the recorded value never exceeds the proportional share of the value staked initially *)
Record Inv (A0 V0 : Z) (s : state) : Prop := mkInv {
  i_grad : grad_ok (s_grad s);
  i_pos : forall p, s_pos s = Some p ->
            0 < p_amount p <= s_vault s /\ p_amount p <= A0 /\ 0 <= p_value p /\ p_value p * A0 <= V0 * p_amount p
}.

Lemma step_Inv A0 V0 s o s' e : 0 < A0 -> 0 <= V0 -> Inv A0 V0 s -> op_wf o -> step s o = Ok (s', e) -> Inv A0 V0 s'.
Proof.
  intros HA HV I W H. destruct o as [b ok|v ok|idx vals|a b vals|now cum|amount now cum|k].
  - simpl in H. destruct ok; [|discriminate]. injection H as <- <-. destruct I; constructor; auto.
  - simpl in H. destruct ok; [|discriminate]. injection H as <- <-. destruct I; constructor; auto.
  - simpl in H. destruct (negb _); [discriminate|]. apply rbind_ok in H. destruct H as (g & HG & H). injection H as <- <-.
    destruct I as [IG IP]. constructor; simpl; auto. eapply sparse_apply_ok; eauto.
  - simpl in H. destruct (negb _); [discriminate|]. destruct (negb _); [discriminate|]. destruct (negb _); [discriminate|].
    apply rbind_ok in H. destruct H as (g & HG & H). injection H as <- <-.
    destruct I as [IG IP]. constructor; simpl; auto. eapply range_apply_ok; eauto.
  - apply claim_cases in H. destruct H as (_ & p & reward & cum_now & EP & _ & _ & EP' & EV & _ & EG & _).
    destruct I as [IG IP]. constructor; [rewrite EG; exact IG|].
    intros p' Hp'. rewrite EP' in Hp'. injection Hp' as <-. simpl. rewrite EV. apply IP. exact EP.
  - apply unstake_cases in H.
    destruct H as (p & reward & cum_now & EP & _ & _ & Ha & _ & [(P1 & _)|(nv & P1 & Hlt & Hnv & Hmin & _ & _ & PV & _)] & EG & _).
    + destruct I as [IG IP]. constructor; [rewrite EG; exact IG|]. intros p' Hp'. congruence.
    + destruct I as [IG IP]. constructor; [rewrite EG; exact IG|].
      intros p' Hp'. rewrite P1 in Hp'. injection Hp' as <-. simpl.
      destruct (IP p EP) as (Q1 & Q2 & Q3 & Q4). rewrite PV.
      assert (Hnv0 : 0 <= nv) by (rewrite Hnv; apply div_nonneg; nia).
      assert (Hfl : nv * p_amount p <= p_value p * (p_amount p - amount)).
      { rewrite Hnv. pose proof (div_floor_spec (p_value p * (p_amount p - amount)) (p_amount p) ltac:(lia)). lia. }
      repeat split; try lia.
      (* nv * A0 <= V0 * remaining *)
      assert (nv * A0 * p_amount p <= V0 * (p_amount p - amount) * p_amount p) by nia.
      nia.
  - simpl in H, W. injection H as <- <-. destruct I as [IG IP]. constructor; simpl; auto.
    intros p Hp. destruct (IP p Hp) as (Q1 & Q2 & Q3 & Q4). repeat split; lia.
Qed.

Theorem run_Inv A0 V0 ops : 0 < A0 -> 0 <= V0 -> forall s, Inv A0 V0 s -> Forall op_wf ops -> Inv A0 V0 (run s ops).
Proof.
  intros HA HV. induction ops as [|o ops IH]; intros s I F; [exact I|]. inversion F; subst.
  unfold run. simpl. apply IH; [|assumption]. unfold step_total.
  destruct (step s o) as [[s' e]|] eqn:E; [eapply step_Inv; eauto|exact I].
Qed.

(* token conservation: what the vault holds plus what was returned equals the initial balance
   plus everything anybody sent to the vault *)
Fixpoint returned (s : state) (ops : list op) : Z :=
  match ops with
  | [] => 0
  | o :: r => (match step s o with Ok (_, e) => e_transfer e | Err _ => 0 end) + returned (step_total s o) r
  end.
Fixpoint dust_of (ops : list op) : Z :=
  match ops with
  | [] => 0
  | Dust k :: r => k + dust_of r          (* sending tokens to the vault never fails *)
  | _ :: r => dust_of r
  end.

Lemma step_vault s o s' e : step s o = Ok (s', e) ->
  s_vault s' + e_transfer e = s_vault s + match o with Dust k => k | _ => 0 end.
Proof.
  intros H. destruct o as [b ok|v ok|idx vals|a b vals|now cum|amount now cum|k].
  - simpl in H. destruct ok; [|discriminate]. injection H as <- <-. simpl. lia.
  - simpl in H. destruct ok; [|discriminate]. injection H as <- <-. simpl. lia.
  - simpl in H. destruct (negb _); [discriminate|]. apply rbind_ok in H. destruct H as (g & HG & H). injection H as <- <-. simpl. lia.
  - simpl in H. destruct (negb _); [discriminate|]. destruct (negb _); [discriminate|]. destruct (negb _); [discriminate|].
    apply rbind_ok in H. destruct H as (g & HG & H). injection H as <- <-. simpl. lia.
  - apply claim_cases in H. destruct H as (_ & p & reward & cum_now & _ & _ & -> & _ & EV & _). simpl. lia.
  - apply unstake_cases in H.
    destruct H as (p & reward & cum_now & _ & _ & _ & _ & _ & [(_ & T & _ & V & _)|(nv & _ & _ & _ & _ & T & _ & V & _)] & _); lia.
  - simpl in H. injection H as <- <-. simpl. lia.
Qed.

Theorem token_conservation ops : forall s,
  s_vault (run s ops) + returned s ops = s_vault s + dust_of ops.
Proof.
  induction ops as [|o ops IH]; intros s; [simpl; lia|].
  unfold run. cbn [fold_left returned]. fold (run (step_total s o) ops). specialize (IH (step_total s o)).
  unfold step_total in *. destruct (step s o) as [[s' e]|k] eqn:E.
  - pose proof (step_vault s o s' e E) as HV. clear E. destruct o; cbn [dust_of] in *; lia.
  - destruct o; cbn [dust_of] in *; try lia. simpl in E. discriminate.
Qed.

Lemma nth_In_repeat (v : Z) (n : nat) k : (Z.to_nat k < n)%nat -> nth (Z.to_nat k) (repeat v n) 0 = v.
Proof.
  intros H. assert (In (nth (Z.to_nat k) (repeat v n) 0) (repeat v n)) by (apply nth_In; rewrite repeat_length; exact H).
  eapply repeat_spec; eauto.
Qed.

(* the saturating accumulation deviates from the per-second average once T * APY_MAX > u128::MAX *)
Lemma apy_saturation_refuted :
  exists start now grad, length grad = 53%nat /\ (forall x, In x grad -> 0 <= x <= APY_MAX) /\
    start < now /\ now - start <= I64MAX /\
    twa start now grad <> Some (sec_sum grad (Z.to_nat (now - start)) / (now - start)).
Proof.
  exists (- 2 ^ 62), (2 ^ 62 - 1), (repeat APY_MAX 53).
  split; [reflexivity|]. split.
  { intros x Hx. apply repeat_spec in Hx. subst. unfold APY_MAX. lia. }
  split; [lia|]. split; [unfold I64MAX; lia|].
  assert (HL : length (repeat APY_MAX 53) = 53%nat) by reflexivity.
  assert (HC : forall x, In x (repeat APY_MAX 53) -> 0 <= x <= APY_MAX).
  { intros x Hx. apply repeat_spec in Hx. subst. unfold APY_MAX. lia. }
  rewrite (sec_sum_closed (repeat APY_MAX 53)).
  set (T := 2 ^ 62 - 1 - - 2 ^ 62).
  rewrite Z2Nat.id by (unfold T; lia).
  assert (HG : forall k, 0 <= k -> G (repeat APY_MAX 53) k = APY_MAX).
  { intros k Hk. unfold G, bucket. apply nth_In_repeat. unfold LAST. lia. }
  (* wsum m = m * APY_MAX *)
  assert (HW : forall m, wsum (repeat APY_MAX 53) m = Z.of_nat m * APY_MAX).
  { induction m as [|m IH]; [reflexivity|]. cbn [wsum]. rewrite IH, HG by lia. lia. }
  rewrite HW, HG by (unfold T, WEEK; lia). rewrite Z2Nat.id by (unfold T, WEEK; lia).
  intros H. vm_compute in H. discriminate.
  Unshelve. all: assumption.
Qed.
