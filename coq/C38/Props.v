(* C38 — property theorems only. *)
From GV Require Import lib.Base C01.Model C38.Model C38.Proofs.
Open Scope Z_scope.

(* Vocabulary: [twa start now grad] = compute_time_weighted_apy (None = arithmetic panic);
   [sec_sum grad n] = sum over the first n elapsed seconds t of the weekly bucket of that second,
   bucket index min(t / 604800, 52) ("weeks past the last bucket use the last one");
   [reward_amount] = calculate_gt_reward_amount; [step] = instruction semantics returning the new
   state and the requested effects (GT minted, LP tokens moved vault -> owner, vault closed). *)

(* time-weighted APY = floor(per-second sum / T), under the no-saturation bound T * cap <= u128::MAX,
   for gradients within the cap (the program keeps them there: c38_gradient_stays_capped) *)
Theorem c38_apy_is_average : forall grad, length grad = 53%nat -> (forall x, In x grad -> 0 <= x <= APY_MAX) ->
  forall start now, start < now -> (now - start) * APY_MAX <= U128MAX ->
  twa start now grad = Some (sec_sum grad (Z.to_nat (now - start)) / (now - start)).
Proof. exact twa_is_average. Qed.

(* beyond the bound the code deviates (known finding class 1) *)
Theorem c38_apy_saturation_refuted :
  exists start now grad, length grad = 53%nat /\ (forall x, In x grad -> 0 <= x <= APY_MAX) /\
    start < now /\ now - start <= I64MAX /\
    twa start now grad <> Some (sec_sum grad (Z.to_nat (now - start)) / (now - start)).
Proof. exact apy_saturation_refuted. Qed.

Theorem c38_reward_exact : forall value duration aps integral r,
  0 <= value -> 0 <= aps -> 0 <= integral ->
  reward_amount value duration aps integral = Ok r <->
  (0 <= duration /\ value * aps / UNIT < 2 ^ 128 /\ (value * aps / UNIT) * integral / UNIT < 2 ^ 128 /\
   r = Z.min ((value * aps / UNIT) * integral / UNIT) U64MAX).
Proof. exact reward_exact. Qed.

Theorem c38_reward_monotone : forall v1 v2 d a i1 i2 r1 r2,
  0 <= v1 <= v2 -> 0 <= a -> 0 <= i1 <= i2 ->
  reward_amount v1 d a i1 = Ok r1 -> reward_amount v2 d a i2 = Ok r2 -> r1 <= r2.
Proof. exact reward_monotone. Qed.

(* unstake: partial returns exactly the requested tokens and keeps the proportional rounded-down
   value; a full exit (requested, or promoted because the remaining value falls below the minimum)
   sweeps the whole vault and closes it *)
Theorem c38_unstake_cases : forall s amount now cum s' e,
  step s (Unstake amount now cum) = Ok (s', e) ->
  exists p reward cum_now, s_pos s = Some p /\ compute_reward s p now cum = Ok (reward, cum_now) /\
    e_mint e = reward /\ 0 < amount <= p_amount p /\
    (s_claim s = false -> amount = p_amount p) /\
    ((s_pos s' = None /\ e_transfer e = s_vault s /\ e_close e = true /\ s_vault s' = 0 /\ s_npos s' = s_npos s - 1 /\
      (amount = p_amount p \/
       (amount < p_amount p /\ p_value p * (p_amount p - amount) / p_amount p < s_min s))) \/
     (exists nv, s_pos s' = Some (mkpos (p_amount p - amount) nv (p_start p) cum_now) /\
      amount < p_amount p /\ nv = p_value p * (p_amount p - amount) / p_amount p /\ s_min s <= nv /\
      e_transfer e = amount /\ e_close e = false /\ s_vault s' = s_vault s - amount /\ s_npos s' = s_npos s)) /\
    s_grad s' = s_grad s /\ s_min s' = s_min s /\ s_claim s' = s_claim s.
Proof. exact unstake_cases. Qed.

Theorem c38_claims_disabled_only_full : forall s, s_claim s = false ->
  (forall now cum, exists k, step s (Claim now cum) = Err k) /\
  (forall amount now cum s' e, step s (Unstake amount now cum) = Ok (s', e) ->
     s_pos s' = None /\ e_transfer e = s_vault s /\ e_close e = true).
Proof. exact claims_disabled_only_full. Qed.

(* histories: the gradient stays within the cap, the vault covers the staked amount, the recorded
   value never exceeds the proportional share of the initially staked value *)
Theorem c38_history_invariant : forall A0 V0 ops, 0 < A0 -> 0 <= V0 -> forall s, Inv A0 V0 s -> Forall op_wf ops ->
  Inv A0 V0 (run s ops).
Proof. exact run_Inv. Qed.

Theorem c38_gradient_stays_capped : forall A0 V0 ops s, 0 < A0 -> 0 <= V0 -> Inv A0 V0 s -> Forall op_wf ops ->
  length (s_grad (run s ops)) = 53%nat /\ forall x, In x (s_grad (run s ops)) -> 0 <= x <= APY_MAX.
Proof. intros A0 V0 ops s HA HV I F. apply (i_grad _ _ _ (run_Inv A0 V0 ops HA HV s I F)). Qed.

(* tokens: vault balance + everything returned = initial balance + everything sent to the vault *)
Theorem c38_token_conservation : forall ops s,
  s_vault (run s ops) + returned s ops = s_vault s + dust_of ops.
Proof. exact token_conservation. Qed.

(* non-vacuity *)
Example c38_ex_twa :
  twa 1000 (1000 + 604800 * 2 + 100) (150 * 10 ^ 18 :: 100 * 10 ^ 18 :: repeat (50 * 10 ^ 18) 51)
  = Some ((150 * 10 ^ 18 * 604800 + 100 * 10 ^ 18 * 604800 + 50 * 10 ^ 18 * 100) / (604800 * 2 + 100)).
Proof. vm_compute. reflexivity. Qed.

Example c38_ex_unstake :
  let s := mkstate (repeat (10 ^ 20) 53) 500 true false 2000000 (3 * 10 ^ 24) 1 (Some (mkpos 1000 9999 1000000 (10 ^ 24))) 1007 in
  (exists s' e, step s (Unstake 400 0 0) = Ok (s', e) /\ e_transfer e = 400 /\
      s_pos s' = Some (mkpos 600 5999 1000000 (3 * 10 ^ 24)) /\ s_vault s' = 607) /\
  (exists s' e, step s (Unstake 960 0 0) = Ok (s', e) /\ e_transfer e = 1007 /\ s_pos s' = None /\ e_close e = true).
Proof. split; eexists; eexists; vm_compute; repeat split; reflexivity. Qed.

(* total on all i64 inputs: the former panic on i64 overflow of now - start is repaired *)
Theorem c38_apy_total : forall start now grad, exists r, twa start now grad = Some r.
Proof. intros start now grad. unfold twa. destruct (now <=? start); eauto. Qed.
