(* C39 — Gallina model of programs/competition: the `on_executed` trade callback
   (trade_callback.rs: volume accounting, merge window, time extension, leaderboard
   update), `create_participant_idempotent`, `close_participant` (participant.rs) and
   `Competition::is_ongoing` (states.rs).  Definitions only.

   Addresses are integers (the driver maps trader id k to a fixed public key; id 0 is
   `Pubkey::default()`).  A leaderboard entry is a pair (address, volume). *)
From GV Require Import lib.Base.
Open Scope Z_scope.

Definition MAX_LEN : nat := 5.                 (* MAX_LEADERBOARD_LEN *)
Definition U128MAX : Z := 2 ^ 128 - 1.
Definition I64MAX : Z := 2 ^ 63 - 1.
Definition I64MIN : Z := - 2 ^ 63.

(* saturating arithmetic *)
Definition sat_i64 (z : Z) : Z := Z.max I64MIN (Z.min I64MAX z).
Definition sat_u128 (z : Z) : Z := Z.max 0 (Z.min U128MAX z).

Definition entry := (Z * Z)%type.

(* ---------- update_leaderboard ---------- *)

(* `iter().position(|e| e.address == trader)` + `remove(pos)`: drop the FIRST entry of the trader *)
Fixpoint remove_first (a : Z) (l : list entry) : list entry :=
  match l with
  | [] => []
  | e :: r => if fst e =? a then r else e :: remove_first a r
  end.

(* `iter().rposition(|e| e.volume >= v).map(|p| p + 1).unwrap_or(0)` *)
Fixpoint insert_pos (v : Z) (l : list entry) : nat :=
  match l with
  | [] => O
  | e :: r =>
      match insert_pos v r with
      | O => if v <=? snd e then 1%nat else O
      | S p => S (S p)
      end
  end.

(* `Vec::insert(pos, e)` for pos <= len *)
Definition insert_at (n : nat) (e : entry) (l : list entry) : list entry :=
  firstn n l ++ e :: skipn n l.

Definition update_leaderboard (board : list entry) (trader vol : Z) : list entry :=
  let b1 := remove_first trader board in
  let pos := insert_pos vol b1 in
  if (pos <? MAX_LEN)%nat
  then firstn MAX_LEN (insert_at pos (trader, vol) b1)   (* insert, then truncate when longer *)
  else b1.

(* ---------- extend_competition_time ---------- *)
Definition extend_end (end_ dur cap now : Z) : Z :=
  let proposed := sat_i64 (end_ + dur) in
  let max_end := sat_i64 (now + cap) in
  Z.max (Z.min proposed max_end) end_.

(* ---------- state ---------- *)
Record comp := mkcomp {
  c_start : Z; c_end : Z; c_board : list entry;
  c_thr : Z; c_dur : Z; c_cap : Z; c_trig : option Z;
  c_only_inc : bool; c_win : Z }.

Record part := mkpart { p_vol : Z; p_last : Z; p_merged : Z }.

(* participants: association list trader -> account (one PDA per trader) *)
Definition parts := list (Z * part).

Fixpoint pget (ps : parts) (a : Z) : option part :=
  match ps with
  | [] => None
  | (x, p) :: r => if x =? a then Some p else pget r a
  end.
Fixpoint pset (ps : parts) (a : Z) (p : part) : parts :=
  match ps with
  | [] => [(a, p)]
  | (x, q) :: r => if x =? a then (x, p) :: r else (x, q) :: pset r a p
  end.
Fixpoint pdel (ps : parts) (a : Z) : parts :=
  match ps with
  | [] => []
  | (x, q) :: r => if x =? a then pdel r a else (x, q) :: pdel r a
  end.

Record state := mkstate { s_comp : comp; s_parts : parts }.

Definition is_ongoing (c : comp) (now : Z) : bool := (c_start c <=? now) && (now <=? c_end c).

Definition set_board (c : comp) (b : list entry) : comp :=
  mkcomp (c_start c) (c_end c) b (c_thr c) (c_dur c) (c_cap c) (c_trig c) (c_only_inc c) (c_win c).
Definition set_end_trig (c : comp) (e : Z) (t : option Z) : comp :=
  mkcomp (c_start c) e (c_board c) (c_thr c) (c_dur c) (c_cap c) t (c_only_inc c) (c_win c).

(* ---------- operations ---------- *)
Definition ORDER_KIND : Z := 3.                 (* ActionKind::Order as u8 *)

(* trade event as seen by the callback: (event.user, before.size_in_usd, after.size_in_usd) *)
Definition event := (Z * Z * Z)%type.

Inductive op :=
| Trade (trader now : Z) (success : bool) (ev : option event) (cv kind extra : Z) (auth_ok : bool)
| Create (trader now : Z)
| Close (trader now : Z).

Definition op_trader (o : op) : Z :=
  match o with Trade t _ _ _ _ _ _ _ => t | Create t _ => t | Close t _ => t end.
Definition op_now (o : op) : Z :=
  match o with Trade _ n _ _ _ _ _ _ => n | Create _ n => n | Close _ n => n end.

(* error classes (Corr.v documents the mapping from program error codes):
   1 callback parameters, 2 invalid trade event, 3 participant account missing/invalid,
   4 rejected by the account constraints (authority), 5 zero trader address,
   6 competition in progress (close) *)

Definition trade_volume (only_inc : bool) (before after : Z) : Z :=
  if only_inc then Z.max 0 (after - before)      (* saturating_sub *)
  else Z.abs (after - before).                   (* abs_diff *)

(* the closure run by `with_participant` *)
Definition apply_trade (c : comp) (trader : Z) (p : part) (now volume : Z) : comp * part :=
  let vol' := sat_u128 (p_vol p + volume) in
  let diff := sat_i64 (now - p_last p) in
  let '(c1, merged') :=
    if diff <=? c_win c then
      let mg := sat_u128 (p_merged p + volume) in
      if c_thr c <=? mg
      then (set_end_trig c (extend_end (c_end c) (c_dur c) (c_cap c) now) (Some trader), 0)
      else (c, mg)
    else
      if c_thr c <=? volume
      then (set_end_trig c (extend_end (c_end c) (c_dur c) (c_cap c) now) (Some trader), 0)
      else (c, volume) in
  let p' := mkpart vol' now merged' in
  (set_board c1 (update_leaderboard (c_board c1) trader vol'), p').

Definition step (s : state) (o : op) : res state :=
  let c := s_comp s in
  match o with
  | Trade trader now success ev cv kind extra auth_ok =>
      if negb auth_ok then Err 4 else
      if negb (cv =? 0) then Err 1 else
      if negb (kind =? ORDER_KIND) then Err 1 else
      if extra <? 2 then Err 1 else
      if negb success then Ok s else
      if negb (is_ongoing c now) then Ok s else
      match ev with
      | None => Ok s
      | Some (user, before, after) =>
          if negb (user =? trader) then Err 2 else
          let volume := trade_volume (c_only_inc c) before after in
          if volume =? 0 then Ok s else
          match pget (s_parts s) trader with
          | None => Err 3
          | Some p =>
              let '(c', p') := apply_trade c trader p now volume in
              Ok (mkstate c' (pset (s_parts s) trader p'))
          end
      end
  | Create trader now =>
      match pget (s_parts s) trader with
      | Some _ => Ok s                                   (* idempotent *)
      | None => if trader =? 0 then Err 5
                else Ok (mkstate c (pset (s_parts s) trader (mkpart 0 now 0)))
      end
  | Close trader now =>
      match pget (s_parts s) trader with
      | None => Err 3
      | Some _ => if (now <? c_start c) || (c_end c <? now)
                  then Ok (mkstate c (pdel (s_parts s) trader))
                  else Err 6
      end
  end.

(* failed transactions leave the state unchanged *)
Definition step_total (s : state) (o : op) : state :=
  match step s o with Ok s' => s' | Err _ => s end.

Definition run (s : state) (ops : list op) : state := fold_left step_total ops s.

(* initialize_competition: validation of the parameters *)
Definition init_ok (now start end_ thr dur cap win : Z) : bool :=
  (now <? start) && (start <? end_) && (0 <? dur) && (0 <? thr) && (0 <? cap) && (dur <=? cap) && (0 <? win).
Definition init_state (start end_ thr dur cap : Z) (only_inc : bool) (win : Z) : state :=
  mkstate (mkcomp start end_ [] thr dur cap None only_inc win) [].

(* initialize_competition: the `require!`s in source order; 0 = accepted, else the class of
   the first failing check (13 InvalidTimeRange, 14 InvalidTimeExtension,
   15 InvalidVolumeThreshold, 16 InvalidMaxExtension, 18 InvalidVolumeMergeWindow) *)
Definition init_rc (now start end_ thr dur cap win : Z) : Z :=
  if negb (now <? start) then 13 else
  if negb (start <? end_) then 13 else
  if negb (0 <? dur) then 14 else
  if negb (0 <? thr) then 15 else
  if negb (0 <? cap) then 16 else
  if negb (dur <=? cap) then 16 else
  if negb (0 <? win) then 18 else 0.
