(* C39 — property theorems only; each closed by [exact] of a lemma from Proofs.v. *)
From GV Require Import lib.Base C39.Model C39.Proofs.
Open Scope Z_scope.

(* The vocabulary (Proofs.v):
     board s            = the leaderboard of the competition account
     top_board s        = at most 5 entries, pairwise distinct traders, volumes non-increasing
     shows_latest s     = every entry (a, w): participant a exists and its cumulative volume is w
     off_board_bounded s= a participant that is not shown has volume <= the last entry of a full
                          board, and volume 0 while the board is not full
     Inv s              = the three together + participant volumes in the u128 range
     run s ops          = fold of the instruction semantics (a failed instruction changes nothing) *)

(* update_leaderboard on ANY well-formed board (called with any trader / volume) *)
Theorem c39_update_keeps_wellformed : forall b t v, board_inv b -> board_inv (update_leaderboard b t v).
Proof. exact upd_inv. Qed.

Theorem c39_update_shows_trader_or_full : forall b t v, board_inv b ->
  In (t, v) (update_leaderboard b t v) \/
  (update_leaderboard b t v = b /\ ~ In t (addrs b) /\ length b = 5%nat /\ forall y, In y b -> v <= snd y).
Proof. exact upd_trader. Qed.

Theorem c39_update_only_drops_the_lowest : forall b t v, board_inv b -> forall x, In x b -> fst x <> t ->
  In x (update_leaderboard b t v) \/
  (length (update_leaderboard b t v) = 5%nat /\ forall y, In y (update_leaderboard b t v) -> snd x <= snd y).
Proof. exact upd_others. Qed.

(* histories of trade reports and participant creations at ARBITRARY times, from any state that
   satisfies the invariant (in particular the freshly initialised competition) *)
Theorem c39_leaderboard_history : forall s ops, Inv s -> Forall not_close ops ->
  let s' := run s ops in top_board s' /\ shows_latest s' /\ off_board_bounded s'.
Proof. exact history_no_close. Qed.

Theorem c39_init_satisfies_invariant : forall start end_ thr dur cap oi win,
  Inv (init_state start end_ thr dur cap oi win).
Proof. exact Inv_init. Qed.

(* participant volumes are monotone along such histories (the fact the last clause rests on) *)
Theorem c39_participant_volumes_monotone : forall ops s a p, Inv s -> Forall not_close ops ->
  pget (s_parts s) a = Some p -> exists p', pget (s_parts (run s ops)) a = Some p' /\ p_vol p <= p_vol p'.
Proof. exact history_volumes_monotone. Qed.

(* all three instructions (trade report, create, CLOSE participant) under a monotone clock, from
   an accepted initialize_competition at time t0: the board is always well-formed, and up to and
   including the end time it shows the latest volumes and bounds everybody who is not shown *)
Theorem c39_leaderboard_history_with_close : forall t0 start end_ thr dur cap oi win ops,
  init_rc t0 start end_ thr dur cap win = 0 -> mono_from t0 ops ->
  let s' := run (init_state start end_ thr dur cap oi win) ops in
  top_board s' /\
  (last_time t0 ops <= c_end (s_comp s') -> shows_latest s' /\ off_board_bounded s').
Proof. exact history_monotone_clock. Qed.

(* ... and once the end time has passed, the competition account (board, end time) is frozen *)
Theorem c39_frozen_after_end : forall ops s, Forall (fun o => c_end (s_comp s) < op_now o) ops ->
  s_comp (run s ops) = s_comp s.
Proof. exact run_frozen_after_end. Qed.

(* extension: one instruction *)
Theorem c39_extension_bounds : forall s o s', I64MIN <= c_end (s_comp s) -> step s o = Ok s' ->
  c_end (s_comp s) <= c_end (s_comp s') <= Z.max (c_end (s_comp s)) (op_now o + c_cap (s_comp s)) /\
  (c_end (s_comp s') <> c_end (s_comp s) -> exists t sc ev cv k x au, o = Trade t (op_now o) sc ev cv k x au).
Proof. exact step_end_bounds. Qed.

(* extension: the function itself, all integers *)
Theorem c39_extend_end_bounds : forall e d c n, I64MIN <= e ->
  e <= extend_end e d c n <= Z.max e (n + c).
Proof. intros e d c n H. split; [apply extend_end_ge|apply extend_end_le; exact H]. Qed.

(* extension: whole histories *)
Theorem c39_extension_bounds_history : forall ops s tmax, I64MIN <= c_end (s_comp s) ->
  Forall (fun o => op_now o <= tmax) ops ->
  c_end (s_comp s) <= c_end (s_comp (run s ops)) <= Z.max (c_end (s_comp s)) (tmax + c_cap (s_comp s)) /\
  c_cap (s_comp (run s ops)) = c_cap (s_comp s).
Proof. exact run_end_bounds. Qed.

(* non-vacuity: six traders, the sixth evicts the lowest; an extension is triggered *)
Example c39_ex_history :
  let ops := [Create 1 5; Create 2 5; Create 3 5; Create 4 5; Create 5 5; Create 6 5;
              Trade 1 10 true (Some (1, 0, 50)) 0 3 2 true; Trade 2 11 true (Some (2, 0, 40)) 0 3 2 true;
              Trade 3 12 true (Some (3, 0, 30)) 0 3 2 true; Trade 4 13 true (Some (4, 0, 20)) 0 3 2 true;
              Trade 5 14 true (Some (5, 0, 10)) 0 3 2 true; Trade 6 15 true (Some (6, 0, 25)) 0 3 2 true;
              Trade 5 95 true (Some (5, 10, 210)) 0 3 2 true] in
  let s := run (init_state 10 100 100 30 60 false 5) ops in
  board s = [(5, 210); (1, 50); (2, 40); (3, 30); (6, 25)] /\ c_end (s_comp s) = 130 /\
  c_trig (s_comp s) = Some 5 /\ init_rc 0 10 100 100 30 60 5 = 0 /\ mono_from 0 ops.
Proof. vm_compute. repeat split; intros; discriminate. Qed.

Example c39_ex_cap_binds : extend_end 100 30 20 95 = 115 /\ extend_end 100 30 20 70 = 100.
Proof. vm_compute. split; reflexivity. Qed.
