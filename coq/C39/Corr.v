(* C39 — correspondence and oracle predicates on the cases printed by
   harness/src/bin/c39.rs.  Depends on Model.v only.

   Error classes printed by the driver (Anchor / program error numbers):
     1 = callback parameters (2501 RequireEqViolated, 2506 RequireGteViolated, 6002 InvalidActionKind)
     2 = 6001 InvalidTradeEvent          3 = participant account missing (3012/3007/3001..3003)
     4 = authority rejected by the account constraints (2006 ConstraintSeeds, 3010 not signer)
     5 = 2504 RequireKeysNeqViolated (zero trader)      6 = 6007 CompetitionInProgress
     13/14/15/16/18 = 6003/6004/6005/6006/6008 (initialize_competition) *)
From GV Require Import lib.Base.
From GV Require Export C39.Model.
Open Scope Z_scope.

(* observation after an instruction: result class, end time, triggerer, board, and the
   participant account of the instruction's trader (volume, last_updated_at, merged_volume).
   `Same rc p` abbreviates an observation whose end time, triggerer and board are identical to
   the previous observation (the driver prints it exactly in that case). *)
Inductive obs :=
| Obs (rc end_ : Z) (trig : option Z) (board : list entry) (p : option (Z * Z * Z))
| Same (rc : Z) (p : option (Z * Z * Z)).

(* notation-free constructors used by the driver (coqc parses the tuple / list notations slowly) *)
Definition E (a v : Z) : entry := (a, v).
Definition P3 (a b c : Z) : option (Z * Z * Z) := Some (a, b, c).
Definition S (o : op) (b : obs) : op * obs := (o, b).

(* abbreviation printed for a well-formed successful trade report *)
Definition T (trader now before after : Z) : op :=
  Trade trader now true (Some (trader, before, after)) 0 ORDER_KIND 2 true.

Inductive case :=
| Init (t0 start end_ thr dur cap : Z) (only_inc : bool) (win : Z) (rc : Z)
| Hist (t0 start end_ thr dur cap : Z) (only_inc : bool) (win : Z) (l : list (op * obs))
| Upd (board : list entry) (trader vol : Z) (r : option (list entry))
| Ext (end_ dur cap now : Z) (r : option Z) (trig_ok : bool).

Definition entry_eqb (a b : entry) : bool := (fst a =? fst b) && (snd a =? snd b).
Fixpoint board_eqb (a b : list entry) : bool :=
  match a, b with
  | [], [] => true
  | x :: r, y :: s => entry_eqb x y && board_eqb r s
  | _, _ => false
  end.
Definition part_eqb (a : option part) (b : option (Z * Z * Z)) : bool :=
  match a, b with
  | None, None => true
  | Some p, Some (v, l, mg) => (p_vol p =? v) && (p_last p =? l) && (p_merged p =? mg)
  | _, _ => false
  end.

Fixpoint corr_hist (s : state) (l : list (op * obs)) : bool :=
  match l with
  | [] => true
  | (o, ob) :: r =>
      let '(rc_m, s') := match step s o with Ok s' => (0, s') | Err k => (k, s) end in
      let '(rc, e, trig, board, p) :=
        match ob with
        | Obs rc e trig board p => (rc, e, trig, board, p)
        | Same rc p => (rc, c_end (s_comp s), c_trig (s_comp s), c_board (s_comp s), p)
        end in
      (rc_m =? rc) && (c_end (s_comp s') =? e) && oeqb (c_trig (s_comp s')) trig
      && board_eqb (c_board (s_comp s')) board && part_eqb (pget (s_parts s') (op_trader o)) p
      && corr_hist s' r
  end.

Definition corr_b (c : case) : bool :=
  match c with
  | Init t0 start end_ thr dur cap _ win rc =>
      (init_rc t0 start end_ thr dur cap win =? rc) && negb (rc =? 0)
  | Hist t0 start end_ thr dur cap only_inc win l =>
      (init_rc t0 start end_ thr dur cap win =? 0)
      && corr_hist (init_state start end_ thr dur cap only_inc win) l
  | Upd board trader vol r =>
      match r with Some b => board_eqb (update_leaderboard board trader vol) b | None => false end
  | Ext end_ dur cap now r trig_ok =>
      match r with Some e => (extend_end end_ dur cap now =? e) && trig_ok | None => false end
  end.

(* ---------- the property, on the implementation's outputs only ---------- *)

Fixpoint sorted_b (l : list entry) : bool :=
  match l with
  | [] => true
  | x :: r => match r with [] => true | y :: _ => (snd y <=? snd x) && sorted_b r end
  end.
Fixpoint mem_addr (a : Z) (l : list entry) : bool :=
  match l with [] => false | x :: r => (fst x =? a) || mem_addr a r end.
Fixpoint distinct_b (l : list entry) : bool :=
  match l with [] => true | x :: r => negb (mem_addr (fst x) r) && distinct_b r end.
Definition board_ok (l : list entry) : bool :=
  (length l <=? 5)%nat && distinct_b l && sorted_b l.

(* volume of the last entry of a FULL board; 0 while the board is not full *)
Definition floor_of (l : list entry) : Z :=
  if (length l =? 5)%nat then snd (last l (0, 0)) else 0.

(* latest known volume per participant, from the observations *)
Fixpoint vget (vs : list (Z * Z)) (a : Z) : option Z :=
  match vs with [] => None | (x, v) :: r => if x =? a then Some v else vget r a end.
Fixpoint vdel (vs : list (Z * Z)) (a : Z) : list (Z * Z) :=
  match vs with [] => [] | (x, v) :: r => if x =? a then vdel r a else (x, v) :: vdel r a end.
Definition vset (vs : list (Z * Z)) (a v : Z) : list (Z * Z) := (a, v) :: vdel vs a.

Definition entries_latest (vs : list (Z * Z)) (board : list entry) : bool :=
  forallb (fun e => oeqb (vget vs (fst e)) (Some (snd e))) board.
Definition offboard_bounded (vs : list (Z * Z)) (board : list entry) : bool :=
  forallb (fun av => mem_addr (fst av) board || (snd av <=? floor_of board)) vs.

(* accumulators: known volumes, previous board, previous end, "an on-board participant was
   closed" (only possible after the end under a monotone clock), previous time, clock monotone so far *)
Fixpoint oracle_hist (cap : Z) (vs : list (Z * Z)) (board : list entry) (e : Z) (stale : bool)
         (tprev : Z) (mono : bool) (l : list (op * obs)) : bool :=
  match l with
  | [] => true
  | (o, ob) :: r =>
      let '(rc, e', board', p) :=
        match ob with
        | Obs rc e' _ board' p => (rc, e', board', p)
        | Same rc p => (rc, e, board, p)
        end in
      let a := op_trader o in
      let now := op_now o in
      let mono' := mono && (tprev <=? now) in
      let vs' := match p with Some (v, _, _) => vset vs a v | None => vdel vs a end in
      let closed_on_board :=
        match o with Close _ _ => (rc =? 0) && mem_addr a board | _ => false end in
      let stale' := stale || closed_on_board in
      board_ok board'
      (* a failed instruction changes nothing *)
      && (if rc =? 0 then true else board_eqb board board' && (e =? e') && oeqb (vget vs a) (vget vs' a))
      (* extension bounds *)
      && (e <=? e')
      && (if e =? e' then true
          else match o with Trade _ _ _ _ _ _ _ _ => e' <=? Z.max e (now + cap) | _ => false end)
      (* only trades change the board; participant volumes never decrease in a trade *)
      && match o with
         | Trade _ _ _ _ _ _ _ _ =>
             match vget vs a, vget vs' a with
             | Some v, Some v' => v <=? v'
             | None, None => board_eqb board board'
             | _, _ => false
             end
         | _ => board_eqb board board'
         end
      (* under a monotone clock a participant closed while on the board freezes the board *)
      && (if stale && mono' then board_eqb board board' else true)
      (* entries show the latest volume; participants off a full board are not above its last entry *)
      && (if stale' then true else entries_latest vs' board' && offboard_bounded vs' board')
      (* closing an on-board participant needs the competition to be over (monotone clock) *)
      && (if closed_on_board && mono' then e' <? now else true)
      && oracle_hist cap vs' board' e' stale' now mono' r
  end.

Definition oracle_b (c : case) : bool :=
  match c with
  | Init t0 start end_ thr dur cap _ win rc =>
      (* a rejected initialisation has a reason *)
      negb ((t0 <? start) && (start <? end_) && (0 <? dur) && (0 <? thr) && (0 <? cap) && (dur <=? cap) && (0 <? win))
  | Hist t0 start end_ thr dur cap only_inc win l =>
      (t0 <? start) && (start <? end_) && (0 <? dur) && (0 <? thr) && (0 <? cap) && (dur <=? cap) && (0 <? win)
      && oracle_hist cap [] [] end_ false t0 true l
  | Upd board trader vol r =>
      match r with
      | None => false                       (* never panics *)
      | Some b =>
          if board_ok board then
            board_ok b
            && (* the trader is shown with exactly the new volume, or is legitimately left off a full board *)
               (if mem_addr trader b then forallb (fun e => negb (fst e =? trader) || (snd e =? vol)) b
                else (length b =? 5)%nat && (vol <=? floor_of b) && negb (mem_addr trader board))
            && (* everybody else keeps the shown volume; only the lowest may drop out, and only for somebody not lower *)
               forallb (fun e => (fst e =? trader) || existsb (entry_eqb e) board) b
            && forallb (fun e => (fst e =? trader) || existsb (entry_eqb e) b
                                 || ((length b =? 5)%nat && (snd e <=? floor_of b))) board
          else true
      end
  | Ext end_ dur cap now r trig_ok =>
      match r with
      | None => false
      | Some e => (end_ <=? e) && (e <=? Z.max end_ (now + cap)) && trig_ok
      end
  end.

Definition known_b (c : case) : Z := 0.
