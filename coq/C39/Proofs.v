(* C39 — proofs: list-level specification of update_leaderboard, the state invariant of the
   competition, extension bounds. *)
From GV Require Import lib.Base C39.Model.
From Coq Require Import Permutation.
Open Scope Z_scope.

(* ================= list-level facts ================= *)

(* non-increasing by volume (strong form) *)
Inductive desc : list entry -> Prop :=
| desc_nil : desc []
| desc_cons x l : Forall (fun y => snd y <= snd x) l -> desc l -> desc (x :: l).

Definition addrs (l : list entry) : list Z := map fst l.

Definition board_inv (b : list entry) : Prop :=
  (length b <= 5)%nat /\ NoDup (addrs b) /\ desc b.

Lemma desc_app l1 l2 :
  desc (l1 ++ l2) <-> desc l1 /\ desc l2 /\ (forall x y, In x l1 -> In y l2 -> snd y <= snd x).
Proof.
  induction l1 as [|a l1 IH]; simpl.
  - split. + intros H. repeat split; [constructor|exact H|]. intros x y []. + intros (_ & H & _). exact H.
  - split.
    + intros H. inversion H as [|? ? HF HD]; subst. apply IH in HD. destruct HD as (D1 & D2 & D3).
      rewrite Forall_app in HF. destruct HF as [F1 F2]. repeat split.
      * constructor; assumption.
      * assumption.
      * intros x y [<-|Hx] Hy. -- rewrite Forall_forall in F2. apply F2. exact Hy. -- apply D3; assumption.
    + intros (D1 & D2 & D3). inversion D1 as [|? ? HF HD]; subst. constructor.
      * rewrite Forall_app. split; [assumption|]. rewrite Forall_forall. intros y Hy. apply D3; [left; reflexivity|exact Hy].
      * apply IH. repeat split; try assumption. intros x y Hx Hy. apply D3; [right; exact Hx|exact Hy].
Qed.

Lemma desc_firstn n l : desc l -> desc (firstn n l).
Proof. intros H. rewrite <- (firstn_skipn n l) in H. apply desc_app in H. tauto. Qed.
Lemma desc_skipn n l : desc l -> desc (skipn n l).
Proof. intros H. rewrite <- (firstn_skipn n l) in H. apply desc_app in H. tauto. Qed.
Lemma desc_first_skip n l x y : desc l -> In x (firstn n l) -> In y (skipn n l) -> snd y <= snd x.
Proof. intros H. rewrite <- (firstn_skipn n l) in H. apply desc_app in H. destruct H as (_ & _ & H). apply H. Qed.

Lemma desc_In_head x l y : desc (x :: l) -> In y (x :: l) -> snd y <= snd x.
Proof. intros H [<-|Hy]; [lia|]. inversion H as [|? ? HF _]; subst. rewrite Forall_forall in HF. apply HF. exact Hy. Qed.

Lemma firstn_In {A} n (l : list A) x : In x (firstn n l) -> In x l.
Proof. intros H. rewrite <- (firstn_skipn n l). apply in_or_app. left. exact H. Qed.

Lemma last_app {A} (l1 l2 : list A) d : l2 <> [] -> last (l1 ++ l2) d = last l2 d.
Proof.
  intros H. induction l1 as [|a l1 IH]; [reflexivity|]. simpl app.
  destruct (l1 ++ l2) eqn:E; [destruct l1; simpl in E; [congruence|discriminate]|]. rewrite <- IH. reflexivity.
Qed.

Lemma last_In {A} (l : list A) d : l <> [] -> In (last l d) l.
Proof.
  intros H. destruct (exists_last H) as (l' & z & ->). rewrite last_last. apply in_or_app. right. left. reflexivity.
Qed.

(* the last element of a non-increasing list is a minimum *)
Lemma desc_last_min l d y : desc l -> In y l -> snd (last l d) <= snd y.
Proof.
  induction l as [|a l IH]; intros HD Hy; [destruct Hy|].
  destruct l as [|b l].
  - simpl. destruct Hy as [<-|[]]. lia.
  - change (last (a :: b :: l) d) with (last (b :: l) d).
    inversion HD as [|? ? HF HD']; subst.
    destruct Hy as [<-|Hy].
    + rewrite Forall_forall in HF. apply HF. apply last_In. discriminate.
    + apply IH; assumption.
Qed.

(* ---- remove_first ---- *)
Lemma remove_first_In a l x : In x (remove_first a l) -> In x l.
Proof. induction l as [|e l IH]; simpl; [tauto|]. destruct (fst e =? a); [tauto|]. intros [<-|H]; [left; reflexivity|right; auto]. Qed.

Lemma remove_first_other a l x : fst x <> a -> In x l -> In x (remove_first a l).
Proof.
  induction l as [|e l IH]; simpl; [tauto|]. intros Hx [<-|H].
  - destruct (fst e =? a) eqn:E; [lia|left; reflexivity].
  - destruct (fst e =? a); [exact H|right; auto].
Qed.

Lemma remove_first_notin a l : ~ In a (addrs l) -> remove_first a l = l.
Proof.
  induction l as [|e l IH]; simpl; [reflexivity|]. intros H. destruct (fst e =? a) eqn:E.
  - exfalso. apply H. left. lia.
  - f_equal. apply IH. tauto.
Qed.

Lemma remove_first_nodup a l : NoDup (addrs l) -> NoDup (addrs (remove_first a l)) /\ ~ In a (addrs (remove_first a l)).
Proof.
  induction l as [|e l IH]; simpl; intros H.
  - split; [constructor|tauto].
  - inversion H as [|? ? Hn Hd]; subst. destruct (fst e =? a) eqn:E.
    + split; [exact Hd|]. assert (fst e = a) by lia. subst a. exact Hn.
    + destruct (IH Hd) as [I1 I2]. split.
      * simpl. constructor; [|exact I1]. intros Hin. apply Hn. unfold addrs in *. rewrite in_map_iff in *.
        destruct Hin as (x & Hx & Hi). exists x. split; [exact Hx|]. eapply remove_first_In; eauto.
      * simpl. intros [H0|H0]; [lia|tauto].
Qed.

Lemma remove_first_length_in a l : In a (addrs l) -> S (length (remove_first a l)) = length l.
Proof.
  induction l as [|e l IH]; simpl; [tauto|]. intros H. destruct (fst e =? a) eqn:E; [reflexivity|].
  simpl. f_equal. apply IH. destruct H; [lia|assumption].
Qed.

Lemma remove_first_desc a l : desc l -> desc (remove_first a l).
Proof.
  induction l as [|e l IH]; simpl; intros H; [constructor|]. inversion H as [|? ? HF HD]; subst.
  destruct (fst e =? a); [exact HD|]. constructor; [|auto].
  rewrite Forall_forall in *. intros y Hy. apply HF. eapply remove_first_In; eauto.
Qed.

(* ---- insert_pos ---- *)
Lemma insert_pos_spec v l : desc l ->
  (insert_pos v l <= length l)%nat /\
  Forall (fun e => v <= snd e) (firstn (insert_pos v l) l) /\
  Forall (fun e => snd e < v) (skipn (insert_pos v l) l).
Proof.
  induction l as [|e l IH]; intros HD.
  - simpl. repeat split; auto.
  - inversion HD as [|? ? HF HD']; subst. destruct (IH HD') as (L & F1 & F2).
    simpl insert_pos. destruct (insert_pos v l) as [|p] eqn:EP.
    + destruct (v <=? snd e) eqn:EV.
      * simpl. repeat split; [lia| |exact F2]. constructor; [lia|constructor].
      * simpl. repeat split; [lia|constructor|]. constructor; [lia|exact F2].
    + repeat split.
      * simpl. lia.
      * change (firstn (S (S p)) (e :: l)) with (e :: firstn (S p) l). constructor; [|exact F1].
        destruct l as [|y l']; [simpl in L; lia|]. simpl in F1. inversion F1; subst.
        rewrite Forall_forall in HF. specialize (HF y (or_introl eq_refl)). lia.
      * exact F2.
Qed.

(* ---- insert_at ---- *)
Lemma insert_at_In n e l x : In x (insert_at n e l) <-> x = e \/ In x l.
Proof.
  unfold insert_at. rewrite in_app_iff. simpl.
  assert (E : In x l <-> In x (firstn n l) \/ In x (skipn n l)) by (rewrite <- in_app_iff, firstn_skipn; tauto).
  rewrite E. intuition.
Qed.

Lemma insert_at_length n e l : length (insert_at n e l) = S (length l).
Proof. unfold insert_at. rewrite app_length. simpl. rewrite <- plus_n_Sm, <- app_length, firstn_skipn. reflexivity. Qed.

Lemma insert_at_perm n e l : Permutation (insert_at n e l) (e :: l).
Proof. unfold insert_at. rewrite <- (firstn_skipn n l) at 3. symmetry. apply Permutation_middle. Qed.

Lemma insert_at_desc v t l :
  desc l -> desc (insert_at (insert_pos v l) (t, v) l).
Proof.
  intros HD. destruct (insert_pos_spec v l HD) as (L & F1 & F2). unfold insert_at.
  apply desc_app. repeat split.
  - apply desc_firstn. exact HD.
  - constructor; [|apply desc_skipn; exact HD]. eapply Forall_impl; [|exact F2]. simpl. intros; lia.
  - intros x y Hx [<-|Hy].
    + rewrite Forall_forall in F1. apply F1. exact Hx.
    + eapply desc_first_skip; eauto.
Qed.

(* ---- firstn on NoDup / lengths ---- *)
Lemma NoDup_firstn {A} n (l : list A) : NoDup l -> NoDup (firstn n l).
Proof.
  revert l. induction n as [|n IH]; intros l H; [constructor|]. destruct l as [|a l]; [constructor|].
  simpl. inversion H; subst. constructor; [|auto]. intros Hin. apply firstn_In in Hin. contradiction.
Qed.

Lemma addrs_firstn n l : addrs (firstn n l) = firstn n (addrs l).
Proof. unfold addrs. symmetry. apply firstn_map. Qed.

Lemma In_addrs a l : In a (addrs l) <-> exists v, In (a, v) l.
Proof.
  unfold addrs. rewrite in_map_iff. split.
  - intros ([x v] & E & H). simpl in E. subst. eauto.
  - intros (v & H). exists (a, v). auto.
Qed.

Lemma nodup_fun l a v w : NoDup (addrs l) -> In (a, v) l -> In (a, w) l -> v = w.
Proof.
  induction l as [|e l IH]; simpl; [tauto|]. intros H. inversion H as [|? ? Hn Hd]; subst.
  intros [->|H1] [E|H2].
  - congruence.
  - exfalso. apply Hn. apply In_addrs. eauto.
  - exfalso. apply Hn. subst e. apply In_addrs. eauto.
  - eauto.
Qed.

(* ================= specification of update_leaderboard ================= *)

Definition floor_of (l : list entry) : Z :=
  if (length l =? 5)%nat then snd (last l (0, 0)) else 0.

Section Upd.
  Variables (b : list entry) (t v : Z).
  Hypothesis HB : board_inv b.
  Let b' := update_leaderboard b t v.

  Let b1 := remove_first t b.
  Let pos := insert_pos v b1.

  Let HB1 : NoDup (addrs b1) /\ ~ In t (addrs b1) /\ desc b1 /\ (length b1 <= length b)%nat.
  Proof.
    destruct HB as (L & N & D). destruct (remove_first_nodup t b N) as [N1 N2]. repeat split; auto.
    - apply remove_first_desc; exact D.
    - subst b1. destruct (in_dec Z.eq_dec t (addrs b)) as [H|H].
      + pose proof (remove_first_length_in t b H). lia.
      + rewrite remove_first_notin by exact H. lia.
  Qed.

  Lemma upd_cases :
    ((pos < 5)%nat /\ b' = firstn 5 (insert_at pos (t, v) b1)) \/
    ((5 <= pos)%nat /\ b' = b /\ ~ In t (addrs b) /\ length b = 5%nat /\ Forall (fun e => v <= snd e) b).
  Proof.
    subst b'. unfold update_leaderboard. fold b1. fold pos. unfold MAX_LEN.
    destruct (pos <? 5)%nat eqn:E.
    - left. apply Nat.ltb_lt in E. split; [exact E|reflexivity].
    - right. apply Nat.ltb_ge in E. destruct HB1 as (N1 & N2 & D1 & L1). destruct HB as (L & N & D).
      destruct (insert_pos_spec v b1 D1) as (LP & F1 & F2). fold pos in LP, F1, F2.
      assert (Hnot : ~ In t (addrs b)).
      { intros Hin. pose proof (remove_first_length_in t b Hin). fold b1 in H. lia. }
      assert (E1 : b1 = b) by (apply remove_first_notin; exact Hnot).
      rewrite E1 in *. repeat split; auto; try lia.
      assert (pos = length b) by lia. rewrite H in F1. rewrite firstn_all in F1. exact F1.
  Qed.

  Lemma upd_inv : board_inv b'.
  Proof.
    destruct upd_cases as [(P & ->)|(P & -> & _)]; [|exact HB].
    destruct HB1 as (N1 & N2 & D1 & L1). repeat split.
    - rewrite firstn_length. lia.
    - rewrite addrs_firstn. apply NoDup_firstn.
      assert (Pm : Permutation (addrs (insert_at pos (t, v) b1)) (t :: addrs b1)).
      { unfold addrs. change (t :: map fst b1) with (map fst ((t, v) :: b1)). apply Permutation_map. apply insert_at_perm. }
      eapply Permutation_NoDup; [symmetry; exact Pm|]. constructor; assumption.
    - apply desc_firstn. apply insert_at_desc. exact D1.
  Qed.

  (* who is on the new board *)
  Lemma upd_sub x : In x b' -> x = (t, v) \/ (In x b /\ fst x <> t).
  Proof.
    destruct HB1 as (N1 & N2 & D1 & L1).
    destruct upd_cases as [(P & ->)|(P & -> & Hn & _)].
    - intros H. apply firstn_In in H. apply insert_at_In in H. destruct H as [H|H]; [left; exact H|right].
      split; [eapply remove_first_In; exact H|]. intros E. apply N2. unfold addrs. apply in_map_iff. exists x. auto.
    - intros H. right. split; [exact H|]. intros E. apply Hn. apply in_map_iff. exists x. auto.
  Qed.

  (* the trader is shown with the new volume, or is left off a full board whose entries are all >= v *)
  Lemma upd_trader :
    In (t, v) b' \/ (b' = b /\ ~ In t (addrs b) /\ length b = 5%nat /\ forall y, In y b -> v <= snd y).
  Proof.
    destruct upd_cases as [(P & E)|(P & E & Hn & L5 & F)].
    - left. rewrite E. unfold insert_at.
      destruct HB1 as (N1 & N2 & D1 & L1). destruct (insert_pos_spec v b1 D1) as (LP & _). fold pos in LP.
      rewrite firstn_app. rewrite firstn_length. rewrite Nat.min_l by exact LP.
      apply in_or_app. right. destruct (5 - pos)%nat eqn:E5; [lia|]. simpl. left. reflexivity.
    - right. rewrite Forall_forall in F. auto.
  Qed.

  (* everybody else stays, except possibly one entry that is <= every entry of the new, full board *)
  Lemma upd_others x : In x b -> fst x <> t ->
    In x b' \/ (length b' = 5%nat /\ forall y, In y b' -> snd x <= snd y).
  Proof.
    intros Hx Hne. destruct upd_cases as [(P & E)|(P & E & _)]; [|left; rewrite E; exact Hx].
    destruct HB1 as (N1 & N2 & D1 & L1).
    assert (Hx1 : In x (insert_at pos (t, v) b1)).
    { apply insert_at_In. right. apply remove_first_other; assumption. }
    rewrite <- (firstn_skipn 5 (insert_at pos (t, v) b1)) in Hx1. apply in_app_or in Hx1.
    destruct Hx1 as [H|H]; [left; rewrite E; exact H|right].
    assert (LL : (5 < length (insert_at pos (t, v) b1))%nat).
    { destruct (le_lt_dec (length (insert_at pos (t, v) b1)) 5) as [Hl|Hl]; [|exact Hl].
      rewrite skipn_all2 in H by exact Hl. destruct H. }
    split.
    - rewrite E, firstn_length. lia.
    - intros y Hy. rewrite E in Hy. eapply desc_first_skip; [|exact Hy|exact H].
      apply insert_at_desc. exact D1.
  Qed.

  Lemma upd_length : (length b <= length b')%nat.
  Proof.
    destruct upd_cases as [(P & E)|(P & E & _)]; [|rewrite E; lia].
    rewrite E, firstn_length, insert_at_length. destruct HB as (L & N & D).
    destruct (in_dec Z.eq_dec t (addrs b)) as [H|H].
    - pose proof (remove_first_length_in t b H). fold b1 in H0. lia.
    - assert (b1 = b) by (apply remove_first_notin; exact H). rewrite H0. lia.
  Qed.

  (* a newcomer that makes it onto a full board is strictly above the old last entry *)
  Lemma upd_newcomer : ~ In t (addrs b) -> In (t, v) b' -> length b = 5%nat -> snd (last b (0, 0)) < v.
  Proof.
    intros Hn Hin L5. destruct upd_cases as [(P & E)|(P & E & _)].
    - assert (E1 : b1 = b) by (apply remove_first_notin; exact Hn).
      destruct HB1 as (N1 & N2 & D1 & L1). destruct (insert_pos_spec v b1 D1) as (LP & F1 & F2). fold pos in LP, F1, F2.
      rewrite E1 in *. rewrite Forall_forall in F2. apply F2.
      assert (Hne : skipn pos b <> []).
      { intros Hs. pose proof (f_equal (@length _) Hs) as Hl. rewrite skipn_length in Hl. simpl in Hl. lia. }
      pose proof (last_In (skipn pos b) (0, 0) Hne) as Hl.
      assert (last (skipn pos b) (0, 0) = last b (0, 0)).
      { rewrite <- (firstn_skipn pos b) at 2. rewrite last_app by exact Hne. reflexivity. }
      rewrite <- H. exact Hl.
    - exfalso. apply Hn. rewrite E in Hin. apply In_addrs. eauto.
  Qed.
End Upd.

(* ================= participants map ================= *)
Lemma pget_pset ps a p x : pget (pset ps a p) x = if x =? a then Some p else pget ps x.
Proof.
  induction ps as [|[y q] ps IH]; simpl.
  - rewrite (Z.eqb_sym a x). reflexivity.
  - destruct (y =? a) eqn:E; simpl.
    + assert (y = a) by lia. subst y. rewrite (Z.eqb_sym a x). destruct (x =? a); reflexivity.
    + rewrite IH. destruct (y =? x) eqn:E2; [|reflexivity].
      assert (y = x) by lia. subst y. rewrite E. reflexivity.
Qed.

Lemma pget_pdel ps a x : pget (pdel ps a) x = if x =? a then None else pget ps x.
Proof.
  induction ps as [|[y q] ps IH]; simpl.
  - destruct (x =? a); reflexivity.
  - destruct (y =? a) eqn:E; simpl.
    + rewrite IH. destruct (x =? a) eqn:E1; [reflexivity|]. destruct (y =? x) eqn:E2; [lia|reflexivity].
    + rewrite IH. destruct (y =? x) eqn:E2; [|reflexivity]. assert (y = x) by lia. subst y. rewrite E. reflexivity.
Qed.

(* ================= the state invariant ================= *)
Definition board (s : state) : list entry := c_board (s_comp s).

Record Inv (s : state) : Prop := mkInv {
  inv_board : board_inv (board s);
  inv_range : forall a p, pget (s_parts s) a = Some p -> 0 <= p_vol p <= U128MAX;
  (* every entry shows the participant's current volume *)
  inv_latest : forall a w, In (a, w) (board s) -> exists p, pget (s_parts s) a = Some p /\ p_vol p = w;
  (* a participant that is not shown has no more volume than the last entry of a full board
     (and no volume at all while the board is not full) *)
  inv_off : forall a p, pget (s_parts s) a = Some p -> ~ In a (addrs (board s)) -> p_vol p <= floor_of (board s)
}.

Lemma floor_nonneg s : Inv s -> 0 <= floor_of (board s).
Proof.
  intros I. unfold floor_of. destruct (length (board s) =? 5)%nat eqn:E; [|lia].
  apply Nat.eqb_eq in E. assert (Hne : board s <> []) by (intros H; rewrite H in E; discriminate).
  pose proof (last_In (board s) (0, 0) Hne) as Hl. destruct (last (board s) (0, 0)) as [a w] eqn:EL.
  destruct (inv_latest s I a w Hl) as (p & Hp & <-). simpl. apply (inv_range s I a p Hp).
Qed.

Lemma floor_le_entries s y : Inv s -> In y (board s) -> floor_of (board s) <= snd y.
Proof.
  intros I Hy. unfold floor_of. destruct (length (board s) =? 5)%nat.
  - apply desc_last_min; [apply (inv_board s I)|exact Hy].
  - destruct y as [a w]. destruct (inv_latest s I a w Hy) as (p & Hp & <-). simpl. apply (inv_range s I a p Hp).
Qed.

(* updating the board with a participant whose volume did not decrease preserves the invariant *)
Lemma Inv_update s c' t p p' :
  Inv s -> pget (s_parts s) t = Some p ->
  p_vol p <= p_vol p' <= U128MAX ->
  c_board c' = update_leaderboard (board s) t (p_vol p') ->
  Inv (mkstate c' (pset (s_parts s) t p')).
Proof.
  intros I Hp Hv Hb.
  pose proof (inv_board s I) as HB.
  pose proof (inv_range s I t p Hp) as Hr.
  set (v := p_vol p') in *. set (b := board s) in *. set (b' := update_leaderboard b t v) in *.
  assert (HB' : board_inv b') by (apply upd_inv; exact HB).
  (* every entry of the new board is >= the old floor *)
  assert (Hfl : forall y, In y b' -> floor_of b <= snd y).
  { intros y Hy. destruct (upd_sub b t v HB y Hy) as [->|[Hy' _]].
    - cbn [snd]. destruct (in_dec Z.eq_dec t (addrs b)) as [Hin|Hnin].
      + apply In_addrs in Hin. destruct Hin as (w & Hw).
        destruct (inv_latest s I t w Hw) as (q & Hq & <-). rewrite Hp in Hq. injection Hq as <-.
        pose proof (floor_le_entries s (t, p_vol p) I Hw) as H. cbn [snd] in H. fold b in H. lia.
      + unfold floor_of. destruct (length b =? 5)%nat eqn:E5; [|lia]. apply Nat.eqb_eq in E5.
        pose proof (upd_newcomer b t v HB Hnin Hy E5). lia.
    - apply (floor_le_entries s y I Hy'). }
  assert (Hmono : floor_of b <= floor_of b').
  { unfold floor_of at 2. destruct (length b' =? 5)%nat eqn:E5.
    - apply Nat.eqb_eq in E5. apply Hfl. apply last_In. intros H0. rewrite H0 in E5. discriminate.
    - unfold floor_of. destruct (length b =? 5)%nat eqn:E5'; [|lia].
      apply Nat.eqb_eq in E5'. apply Nat.eqb_neq in E5. assert (H : (length b <= length b')%nat) by exact (upd_length b t v HB).
      destruct HB' as (L & _). lia. }
  constructor; unfold board; simpl; try rewrite Hb.
  - exact HB'.
  - intros a q. rewrite pget_pset. destruct (a =? t) eqn:E.
    + intros H; injection H as <-. fold v. lia.
    + apply (inv_range s I).
  - intros a w Hin. rewrite pget_pset. destruct (upd_sub b t v HB (a, w) Hin) as [H|[H Hne]].
    + injection H as -> ->. rewrite Z.eqb_refl. eauto.
    + simpl in Hne. destruct (a =? t) eqn:E; [lia|]. apply (inv_latest s I a w H).
  - intros a q. rewrite pget_pset. destruct (a =? t) eqn:E.
    + intros H Hnin. injection H as <-. assert (a = t) by lia. subst a. fold v.
      destruct (upd_trader b t v HB) as [Hin|(Eb & _ & L5 & Hall)].
      * exfalso. apply Hnin. apply In_addrs. eauto.
      * assert (Eb' : b' = b) by exact Eb. rewrite Eb'. unfold floor_of. rewrite L5. simpl. apply Hall. apply last_In.
        intros H0. rewrite H0 in L5. discriminate.
    + intros Hq Hnin. destruct (in_dec Z.eq_dec a (addrs b)) as [Hin|Hnin'].
      * apply In_addrs in Hin. destruct Hin as (w & Hw).
        destruct (inv_latest s I a w Hw) as (q' & Hq' & <-). rewrite Hq in Hq'. injection Hq' as <-.
        destruct (upd_others b t v HB (a, p_vol q) Hw ltac:(simpl; lia)) as [Hin'|(L5 & Hall)].
        -- exfalso. apply Hnin. apply In_addrs. eauto.
        -- unfold floor_of. assert (L5' : length b' = 5%nat) by exact L5. rewrite L5'. simpl. apply (Hall (last b' (0, 0))). apply last_In.
           intros H0. rewrite H0 in L5. discriminate.
      * pose proof (inv_off s I a q Hq Hnin'). fold b in H. lia.
Qed.

(* ---- arithmetic of the callback ---- *)
Lemma trade_volume_nonneg oi x y : 0 <= trade_volume oi x y.
Proof. unfold trade_volume. destruct oi; lia. Qed.

Lemma sat_u128_add v d : 0 <= v <= U128MAX -> 0 <= d -> v <= sat_u128 (v + d) <= U128MAX.
Proof. unfold sat_u128, U128MAX. intros. lia. Qed.

Lemma apply_trade_spec c t p now vol c' p' :
  apply_trade c t p now vol = (c', p') ->
  p_vol p' = sat_u128 (p_vol p + vol) /\
  c_board c' = update_leaderboard (c_board c) t (p_vol p') /\
  c_start c' = c_start c /\ c_cap c' = c_cap c /\ c_dur c' = c_dur c /\
  (c_end c' = c_end c \/ c_end c' = extend_end (c_end c) (c_dur c) (c_cap c) now).
Proof.
  unfold apply_trade. intros H.
  destruct (sat_i64 (now - p_last p) <=? c_win c);
    [destruct (c_thr c <=? sat_u128 (p_merged p + vol))|destruct (c_thr c <=? vol)];
    injection H as <- <-; simpl; auto 10.
Qed.

(* ---- one instruction ---- *)
Definition not_close (o : op) : Prop := match o with Close _ _ => False | _ => True end.

Lemma step_Inv s o s' : Inv s -> not_close o -> step s o = Ok s' -> Inv s'.
Proof.
  intros I NC H. destruct o as [t now success ev cv kind extra auth_ok|t now|t now]; [| |destruct NC]; simpl in H.
  - destruct auth_ok; [|discriminate]. simpl in H.
    destruct (cv =? 0); [|discriminate]. destruct (kind =? ORDER_KIND); [|discriminate]. simpl in H.
    destruct (extra <? 2); [discriminate|].
    destruct success; simpl in H; [|injection H as <-; exact I].
    destruct (is_ongoing (s_comp s) now); simpl in H; [|injection H as <-; exact I].
    destruct ev as [[[user before] after]|]; [|injection H as <-; exact I].
    destruct (user =? t); simpl in H; [|discriminate].
    destruct (trade_volume (c_only_inc (s_comp s)) before after =? 0) eqn:EV; [injection H as <-; exact I|].
    destruct (pget (s_parts s) t) as [p|] eqn:Hp; [|discriminate].
    destruct (apply_trade (s_comp s) t p now (trade_volume (c_only_inc (s_comp s)) before after)) as [c' p'] eqn:EA.
    injection H as <-. apply apply_trade_spec in EA. destruct EA as (Ev & Eb & _).
    pose proof (trade_volume_nonneg (c_only_inc (s_comp s)) before after).
    pose proof (inv_range s I t p Hp).
    eapply Inv_update; eauto. rewrite Ev. apply sat_u128_add; lia.
  - destruct (pget (s_parts s) t) as [p|] eqn:Hp; [injection H as <-; exact I|].
    destruct (t =? 0); [discriminate|]. injection H as <-.
    constructor; unfold board; simpl.
    + apply (inv_board s I).
    + intros a q. rewrite pget_pset. destruct (a =? t); [|apply (inv_range s I)].
      intros H; injection H as <-. simpl. unfold U128MAX. lia.
    + intros a w Hin. rewrite pget_pset. destruct (a =? t) eqn:E; [|apply (inv_latest s I a w Hin)].
      assert (a = t) by lia. subst a. destruct (inv_latest s I t w Hin) as (q & Hq & _). congruence.
    + intros a q. rewrite pget_pset. destruct (a =? t); [|apply (inv_off s I)].
      intros H _. injection H as <-. simpl. apply floor_nonneg. exact I.
Qed.

Lemma step_Inv' s o s' : step s o = Ok s' -> not_close o -> Inv s -> Inv s'.
Proof. intros; eapply step_Inv; eauto. Qed.

(* participant volumes never decrease in a trade or a creation *)
Lemma step_vol_mono s o s' a p : Inv s -> not_close o -> step s o = Ok s' ->
  pget (s_parts s) a = Some p -> exists p', pget (s_parts s') a = Some p' /\ p_vol p <= p_vol p'.
Proof.
  intros I NC H Ha. destruct o as [t now success ev cv kind extra auth_ok|t now|t now]; [| |destruct NC]; simpl in H.
  - destruct auth_ok; [|discriminate]. simpl in H.
    destruct (cv =? 0); [|discriminate]. destruct (kind =? ORDER_KIND); [|discriminate]. simpl in H.
    destruct (extra <? 2); [discriminate|].
    destruct success; simpl in H; [|injection H as <-; exists p; split; [auto|lia]].
    destruct (is_ongoing (s_comp s) now); simpl in H; [|injection H as <-; exists p; split; [auto|lia]].
    destruct ev as [[[user before] after]|]; [|injection H as <-; exists p; split; [auto|lia]].
    destruct (user =? t); simpl in H; [|discriminate].
    destruct (trade_volume (c_only_inc (s_comp s)) before after =? 0) eqn:EV; [injection H as <-; exists p; split; [auto|lia]|].
    destruct (pget (s_parts s) t) as [q|] eqn:Hp; [|discriminate].
    destruct (apply_trade (s_comp s) t q now (trade_volume (c_only_inc (s_comp s)) before after)) as [c' p'] eqn:EA.
    injection H as <-. apply apply_trade_spec in EA. destruct EA as (Ev & _). simpl. rewrite pget_pset.
    destruct (a =? t) eqn:E; [|exists p; split; [auto|lia]].
    assert (a = t) by lia. subst a. rewrite Hp in Ha. injection Ha as ->. exists p'. split; [reflexivity|].
    pose proof (trade_volume_nonneg (c_only_inc (s_comp s)) before after).
    pose proof (inv_range s I t p Hp). rewrite Ev. apply sat_u128_add; lia.
  - destruct (pget (s_parts s) t) as [q|] eqn:Hp.
    + injection H as <-. exists p; split; [auto|lia].
    + destruct (t =? 0); [discriminate|]. injection H as <-. simpl. rewrite pget_pset.
      destruct (a =? t) eqn:E; [assert (a = t) by lia; subst a; congruence|]. exists p; split; [auto|lia].
Qed.

(* ================= histories ================= *)

Lemma step_total_Inv s o : Inv s -> not_close o -> Inv (step_total s o).
Proof. intros I NC. unfold step_total. destruct (step s o) eqn:E; [eapply step_Inv; eauto|exact I]. Qed.

(* trades and participant creations, at ARBITRARY times *)
Theorem Inv_run_no_close ops : forall s, Inv s -> Forall not_close ops -> Inv (run s ops).
Proof.
  induction ops as [|o ops IH]; intros s I F; [exact I|]. inversion F; subst.
  unfold run. simpl. apply IH; [apply step_total_Inv; assumption|assumption].
Qed.

Lemma Inv_init start end_ thr dur cap oi win : Inv (init_state start end_ thr dur cap oi win).
Proof.
  constructor; unfold board; simpl.
  - repeat split; [simpl; lia|constructor|constructor].
  - intros a p H; discriminate.
  - intros a w [].
  - intros a p H; discriminate.
Qed.

(* ---- with participant closing: the clock is monotone ---- *)
Fixpoint mono_from (t : Z) (ops : list op) : Prop :=
  match ops with [] => True | o :: r => t <= op_now o /\ mono_from (op_now o) r end.
Fixpoint last_time (t : Z) (ops : list op) : Z :=
  match ops with [] => t | o :: r => last_time (op_now o) r end.

(* invariant relative to the time of the last instruction *)
Definition TInv (tl : Z) (s : state) : Prop :=
  board_inv (board s) /\ c_start (s_comp s) <= c_end (s_comp s) /\
  (tl <= c_end (s_comp s) -> Inv s) /\
  (tl < c_start (s_comp s) -> board s = []).

Lemma extend_end_ge e d c n : e <= extend_end e d c n.
Proof. unfold extend_end. lia. Qed.

Lemma step_frame s o s' : step s o = Ok s' ->
  c_start (s_comp s') = c_start (s_comp s) /\ c_cap (s_comp s') = c_cap (s_comp s) /\
  c_end (s_comp s) <= c_end (s_comp s') /\
  (is_ongoing (s_comp s) (op_now o) = false -> s_comp s' = s_comp s).
Proof.
  intros H. destruct o as [t now success ev cv kind extra auth_ok|t now|t now]; simpl in H.
  - destruct auth_ok; [|discriminate]. simpl in H.
    destruct (cv =? 0); [|discriminate]. destruct (kind =? ORDER_KIND); [|discriminate]. simpl in H.
    destruct (extra <? 2); [discriminate|].
    destruct success; simpl in H; [|injection H as <-; repeat split; auto; lia].
    simpl op_now. destruct (is_ongoing (s_comp s) now) eqn:EO; simpl in H; [|injection H as <-; repeat split; auto; lia].
    destruct ev as [[[user before] after]|]; [|injection H as <-; repeat split; auto; lia].
    destruct (user =? t); simpl in H; [|discriminate].
    destruct (trade_volume (c_only_inc (s_comp s)) before after =? 0); [injection H as <-; repeat split; auto; lia|].
    destruct (pget (s_parts s) t) as [p|]; [|discriminate].
    destruct (apply_trade (s_comp s) t p now (trade_volume (c_only_inc (s_comp s)) before after)) as [c' p'] eqn:EA.
    injection H as <-. apply apply_trade_spec in EA. destruct EA as (_ & _ & Es & Ec & _ & Ee). simpl.
    repeat split; auto; [|discriminate]. destruct Ee as [->| ->]; [lia|apply extend_end_ge].
  - destruct (pget (s_parts s) t); [injection H as <-; repeat split; auto; lia|].
    destruct (t =? 0); [discriminate|]. injection H as <-. simpl. repeat split; auto; lia.
  - destruct (pget (s_parts s) t); [|discriminate].
    destruct ((now <? c_start (s_comp s)) || (c_end (s_comp s) <? now)); [|discriminate].
    injection H as <-. simpl. repeat split; auto; lia.
Qed.

Lemma step_total_TInv tl s o : TInv tl s -> tl <= op_now o -> TInv (op_now o) (step_total s o).
Proof.
  intros (HB & HSE & HI & HE) Ht. unfold step_total. destruct (step s o) as [s'|e] eqn:E.
  2:{ split; [exact HB|split; [exact HSE|split]]; intros; [apply HI|apply HE]; lia. }
  destruct (step_frame s o s' E) as (Es & _ & Ee & Hout).
  destruct o as [t now success ev cv kind extra auth_ok|t now|t now]; simpl op_now in *.
  - (* trade *)
    destruct (is_ongoing (s_comp s) now) eqn:EO.
    + unfold is_ongoing in EO. apply andb_prop in EO. destruct EO as [E1 E2].
      assert (I' : Inv s') by (apply (step_Inv' _ _ _ E); [exact I|apply HI; lia]).
      split; [apply (inv_board s' I')|split; [lia|split]]; [intros _; exact I'|intros; lia].
    + assert (EC : s_comp s' = s_comp s) by (apply Hout; reflexivity).
      unfold TInv, board in *. rewrite EC.
      split; [exact HB|split; [exact HSE|split]].
      * intros Hle. apply (step_Inv' _ _ _ E); [exact I|apply HI; lia].
      * intros Hlt. apply HE. lia.
  - (* create *)
    assert (EC : s_comp s' = s_comp s).
    { simpl in E. destruct (pget (s_parts s) t); [injection E as <-; reflexivity|].
      destruct (t =? 0); [discriminate|]. injection E as <-. reflexivity. }
    unfold TInv, board in *. rewrite EC.
    split; [exact HB|split; [exact HSE|split]].
    + intros Hle. apply (step_Inv' _ _ _ E); [exact I|apply HI; lia].
    + intros Hlt. apply HE. lia.
  - (* close *)
    simpl in E. destruct (pget (s_parts s) t) as [p|] eqn:Hp; [|discriminate].
    destruct ((now <? c_start (s_comp s)) || (c_end (s_comp s) <? now)) eqn:EW; [|discriminate].
    injection E as <-. unfold TInv, board in *. simpl in *.
    split; [exact HB|split; [exact HSE|split]].
    + intros Hle. apply orb_prop in EW. destruct EW as [EW|EW]; [|lia].
      assert (Hb : c_board (s_comp s) = []) by (apply HE; lia).
      assert (I : Inv s) by (apply HI; lia).
      constructor; unfold board; simpl; rewrite ?Hb.
      * split; [simpl; lia|split; constructor].
      * intros a q. rewrite pget_pdel. destruct (a =? t); [discriminate|apply (inv_range s I)].
      * intros a w [].
      * intros a q. rewrite pget_pdel. destruct (a =? t); [discriminate|].
        intros Hq _. pose proof (inv_off s I a q Hq) as H. unfold board in H. rewrite Hb in H. apply H. intros [].
    + intros Hlt. apply HE. lia.
Qed.

Theorem TInv_run ops : forall tl s, TInv tl s -> mono_from tl ops -> TInv (last_time tl ops) (run s ops).
Proof.
  induction ops as [|o ops IH]; intros tl s HT HM; [exact HT|]. destruct HM as [H1 H2].
  unfold run. simpl. apply IH; [apply (step_total_TInv tl); assumption|exact H2].
Qed.

Lemma TInv_init t0 start end_ thr dur cap oi win :
  init_rc t0 start end_ thr dur cap win = 0 -> TInv t0 (init_state start end_ thr dur cap oi win).
Proof.
  intros H. unfold init_rc in H.
  destruct (t0 <? start) eqn:E1; simpl in H; [|discriminate].
  destruct (start <? end_) eqn:E2; simpl in H; [|discriminate].
  split; [|split; [|split]]; unfold board; simpl; try lia.
  - split; [simpl; lia|split; constructor].
  - intros _. apply Inv_init.
  - reflexivity.
Qed.

(* once the end time has passed nothing on the competition account changes *)
Lemma frozen_after_end s o : c_end (s_comp s) < op_now o -> s_comp (step_total s o) = s_comp s.
Proof.
  intros H. unfold step_total. destruct (step s o) as [s'|] eqn:E; [|reflexivity].
  apply (step_frame s o s' E). unfold is_ongoing. apply andb_false_intro2. lia.
Qed.

(* ================= extension bounds ================= *)
Lemma extend_end_le e d c n : I64MIN <= e -> extend_end e d c n <= Z.max e (n + c).
Proof. unfold extend_end, sat_i64, I64MIN, I64MAX. intros. lia. Qed.

Lemma extend_end_range e d c n : I64MIN <= e <= I64MAX -> I64MIN <= extend_end e d c n <= I64MAX.
Proof. unfold extend_end, sat_i64, I64MIN, I64MAX. intros. lia. Qed.

(* one instruction: the end time never moves earlier; when it moves, the instruction is a trade
   report at time `now` and the new end is not past max(old end, now + cap) *)
Theorem step_end_bounds s o s' : I64MIN <= c_end (s_comp s) -> step s o = Ok s' ->
  c_end (s_comp s) <= c_end (s_comp s') <= Z.max (c_end (s_comp s)) (op_now o + c_cap (s_comp s)) /\
  (c_end (s_comp s') <> c_end (s_comp s) -> exists t sc ev cv k x au, o = Trade t (op_now o) sc ev cv k x au).
Proof.
  intros HR H. pose proof (step_frame s o s' H) as (_ & _ & Hge & _).
  destruct o as [t now success ev cv kind extra auth_ok|t now|t now]; simpl in H; simpl op_now.
  - split; [|intros _; eauto 10].
    destruct auth_ok; [|discriminate]. simpl in H.
    destruct (cv =? 0); [|discriminate]. destruct (kind =? ORDER_KIND); [|discriminate]. simpl in H.
    destruct (extra <? 2); [discriminate|].
    destruct success; simpl in H; [|injection H as <-; lia].
    destruct (is_ongoing (s_comp s) now) eqn:EO; simpl in H; [|injection H as <-; lia].
    destruct ev as [[[user before] after]|]; [|injection H as <-; lia].
    destruct (user =? t); simpl in H; [|discriminate].
    destruct (trade_volume (c_only_inc (s_comp s)) before after =? 0); [injection H as <-; lia|].
    destruct (pget (s_parts s) t) as [p|]; [|discriminate].
    destruct (apply_trade (s_comp s) t p now (trade_volume (c_only_inc (s_comp s)) before after)) as [c' p'] eqn:EA.
    injection H as <-. apply apply_trade_spec in EA. destruct EA as (_ & _ & _ & _ & _ & Ee). simpl in *.
    destruct Ee as [->| ->]; [lia|]. split; [apply extend_end_ge|apply extend_end_le; exact HR].
  - assert (EC : s_comp s' = s_comp s).
    { destruct (pget (s_parts s) t); [injection H as <-; reflexivity|].
      destruct (t =? 0); [discriminate|]. injection H as <-. reflexivity. }
    rewrite EC. split; [lia|congruence].
  - assert (EC : s_comp s' = s_comp s).
    { destruct (pget (s_parts s) t); [|discriminate].
      destruct ((now <? c_start (s_comp s)) || (c_end (s_comp s) <? now)); [|discriminate]. injection H as <-. reflexivity. }
    rewrite EC. split; [lia|congruence].
Qed.

(* whole histories: non-decreasing, and bounded by the latest instruction time plus the cap *)
Theorem run_end_bounds ops : forall s tmax, I64MIN <= c_end (s_comp s) ->
  Forall (fun o => op_now o <= tmax) ops ->
  c_end (s_comp s) <= c_end (s_comp (run s ops)) <= Z.max (c_end (s_comp s)) (tmax + c_cap (s_comp s)) /\
  c_cap (s_comp (run s ops)) = c_cap (s_comp s).
Proof.
  induction ops as [|o ops IH]; intros s tmax HR HF; [simpl; split; [lia|reflexivity]|].
  inversion HF as [|? ? Ho HF']; subst. unfold run. simpl. fold (run (step_total s o) ops).
  unfold step_total at 1 2 3. destruct (step s o) as [s'|e] eqn:E.
  - pose proof (step_end_bounds s o s' HR E) as ((B1 & B2) & _).
    pose proof (step_frame s o s' E) as (_ & Ecap & _ & _).
    destruct (IH s' tmax ltac:(lia) HF') as ((C1 & C2) & C3). rewrite Ecap in *. split; [lia|exact C3].
  - apply IH; assumption.
Qed.

(* ================= readable forms used by Props.v ================= *)
Lemma desc_nth l d : desc l -> forall i j, (i < j < length l)%nat -> snd (nth j l d) <= snd (nth i l d).
Proof.
  induction l as [|x l IH]; intros HD i j Hij; [simpl in Hij; lia|].
  inversion HD as [|? ? HF HD']; subst. destruct j as [|j]; [lia|]. simpl in Hij.
  destruct i as [|i].
  - simpl. rewrite Forall_forall in HF. apply HF. apply nth_In. lia.
  - simpl. apply IH; [exact HD'|lia].
Qed.

Definition top_board (s : state) : Prop :=
  (length (board s) <= 5)%nat /\ NoDup (addrs (board s)) /\
  (forall i j, (i < j < length (board s))%nat -> snd (nth j (board s) (0, 0)) <= snd (nth i (board s) (0, 0))).
Definition shows_latest (s : state) : Prop :=
  forall a w, In (a, w) (board s) -> exists p, pget (s_parts s) a = Some p /\ p_vol p = w.
Definition off_board_bounded (s : state) : Prop :=
  forall a p, pget (s_parts s) a = Some p -> ~ In a (addrs (board s)) ->
    (length (board s) = 5%nat -> p_vol p <= snd (last (board s) (0, 0))) /\
    (length (board s) <> 5%nat -> p_vol p = 0).

Lemma board_inv_top s : board_inv (board s) -> top_board s.
Proof. intros (L & N & D). repeat split; auto. apply desc_nth. exact D. Qed.

Lemma Inv_readable s : Inv s -> top_board s /\ shows_latest s /\ off_board_bounded s.
Proof.
  intros I. split; [apply board_inv_top, (inv_board s I)|split].
  - exact (inv_latest s I).
  - intros a p Hp Hn. pose proof (inv_off s I a p Hp Hn) as H. pose proof (inv_range s I a p Hp) as R.
    unfold floor_of in H. split; intros L.
    + rewrite L in H. exact H.
    + apply Nat.eqb_neq in L. rewrite L in H. lia.
Qed.

Theorem history_no_close s ops : Inv s -> Forall not_close ops ->
  let s' := run s ops in top_board s' /\ shows_latest s' /\ off_board_bounded s'.
Proof. intros I F. apply Inv_readable. apply Inv_run_no_close; assumption. Qed.

Theorem history_monotone_clock t0 start end_ thr dur cap oi win ops :
  init_rc t0 start end_ thr dur cap win = 0 -> mono_from t0 ops ->
  let s' := run (init_state start end_ thr dur cap oi win) ops in
  top_board s' /\
  (last_time t0 ops <= c_end (s_comp s') -> shows_latest s' /\ off_board_bounded s').
Proof.
  intros Hi Hm s'. destruct (TInv_run ops t0 _ (TInv_init t0 start end_ thr dur cap oi win Hi) Hm) as (HB & _ & HI & _).
  split; [apply board_inv_top; exact HB|]. intros Hle. apply Inv_readable. apply HI. exact Hle.
Qed.

Theorem run_frozen_after_end ops : forall s, Forall (fun o => c_end (s_comp s) < op_now o) ops ->
  s_comp (run s ops) = s_comp s.
Proof.
  induction ops as [|o ops IH]; intros s F; [reflexivity|]. inversion F as [|? ? Ho F']; subst.
  unfold run. simpl. fold (run (step_total s o) ops). pose proof (frozen_after_end s o Ho) as E.
  rewrite IH; [exact E|]. rewrite E. exact F'.
Qed.

Theorem history_volumes_monotone ops : forall s a p, Inv s -> Forall not_close ops ->
  pget (s_parts s) a = Some p -> exists p', pget (s_parts (run s ops)) a = Some p' /\ p_vol p <= p_vol p'.
Proof.
  induction ops as [|o ops IH]; intros s a p I F Ha; [exists p; split; [exact Ha|lia]|].
  inversion F as [|? ? Ho F']; subst. unfold run. simpl. fold (run (step_total s o) ops).
  assert (exists q, pget (s_parts (step_total s o)) a = Some q /\ p_vol p <= p_vol q) as (q & Hq & Hle).
  { unfold step_total. destruct (step s o) as [s'|] eqn:E; [|exists p; split; [exact Ha|lia]].
    eapply step_vol_mono; eauto. }
  destruct (IH (step_total s o) a q (step_total_Inv s o I Ho) F' Hq) as (p' & Hp' & Hle').
  exists p'. split; [exact Hp'|lia].
Qed.
