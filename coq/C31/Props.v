(* C31 — property theorems only (order fee discounts are valid fractions combining rank and
   referral).  [reachable unit st]: st is obtained from a zeroed Store by GT init followed by any
   sequence of set_order_fee_discount_factors (accepted or rejected) and referral-factor inserts. *)
From GV Require Import lib.Base C01.Model C31.Model C31.Proofs.
Open Scope Z_scope.

(* the discount is between 0% and 100% *)
Theorem c31_discount_le_unit : forall w, 1 <= w -> forall unit, 0 < unit < 2 ^ w ->
  forall st rank referred d, reachable unit st -> 0 <= rank ->
  discount w unit st rank referred = Ok d -> 0 <= d <= unit.
Proof. exact h_discount_le_unit. Qed.

(* a referred user's discount is at least the unreferred one (and at least the referral discount) *)
Theorem c31_referred_ge_unreferred : forall w, 1 <= w -> forall unit, 0 < unit < 2 ^ w ->
  forall st rank a d, reachable unit st -> 0 <= rank ->
  discount w unit st rank false = Ok a -> discount w unit st rank true = Ok d -> a <= d /\ g_ref st <= d.
Proof. exact h_referred_ge_unreferred. Qed.

(* ... equal to 1 - (1 - rank discount)(1 - referral discount), rounded down by less than one unit *)
Theorem c31_discount_formula : forall w, 1 <= w -> forall unit, 0 < unit < 2 ^ w ->
  forall st rank a d, reachable unit st -> 0 <= rank ->
  discount w unit st rank false = Ok a -> discount w unit st rank true = Ok d ->
  d = g_ref st + a * (unit - g_ref st) / unit /\
  unit * d <= unit * unit - (unit - a) * (unit - g_ref st) < unit * d + unit.
Proof. exact h_discount_formula. Qed.

(* ranks above the configured maximum are rejected *)
Theorem c31_rank_above_max_rejected : forall w unit st rank referred, g_max_rank st < rank ->
  discount w unit st rank referred = Err 1.
Proof. exact rank_above_max_rejected. Qed.

(* valid ranks with a referral discount of at most 100% always get a discount *)
Theorem c31_discount_total : forall w, 1 <= w -> forall unit, 0 < unit < 2 ^ w ->
  forall st rank referred, reachable unit st -> 0 <= rank <= g_max_rank st -> g_ref st <= unit ->
  exists d, discount w unit st rank referred = Ok d.
Proof. exact h_discount_total. Qed.

(* a referral discount above 100% (not validated on insert) makes the referred query fail *)
Theorem c31_referral_above_unit_rejected : forall w unit st rank, 0 <= rank <= g_max_rank st -> unit < g_ref st -> discount w unit st rank true = Err 3.
Proof. exact referral_above_unit_rejected. Qed.

(* the table setter caps factors at 100% and keeps the invariant over whole histories *)
Theorem c31_set_factors_rejects_above_unit : forall unit st fs,
  (exists f, In f fs /\ unit < f) -> set_factors unit st fs = Err 1.
Proof. exact (set_factors_rejects 0). Qed.

Theorem c31_table_invariant : forall w, 1 <= w -> forall unit, 0 < unit < 2 ^ w ->
  forall st, reachable unit st ->
  (0 <= g_max_rank st <= MAX_RANK /\ length (g_table st) = 16%nat /\
   Forall (fun f => 0 <= f <= unit) (g_table st)) /\ 0 <= g_ref st.
Proof. exact reachable_inv. Qed.

(* the SDK computes the same discount as the program *)
Theorem c31_sdk_discount_eq_program : forall w unit st rank referred,
  sdk_discount w unit st rank referred = discount w unit st rank referred.
Proof. exact sdk_eq_program. Qed.

(* non-vacuity: a reachable state with a non-trivial table, and the 2.5% / 10% example *)
Example c31_ex1 : gt_init zero_state false 1 [10; 20] = Ok (MkG 2 (repeat 0 16) 0).
Proof. vm_compute. reflexivity. Qed.
Example c31_ex2 :
  let u := 100000000000000000000 in
  let st := fold_left (apply_op u) [ORef (u / 10); OSet [0; u / 1000 * 25; u / 2]] (MkG 2 (repeat 0 16) 0) in
  discount 128 u st 1 false = Ok (u / 1000 * 25) /\
  discount 128 u st 1 true = Ok 12250000000000000000 /\
  discount 128 u st 3 true = Err 1.
Proof. vm_compute. repeat split; reflexivity. Qed.
