(* C31 — lemmas about the order fee discount model. *)
From GV Require Import lib.Base lib.DivLemmas C01.Model C01.Proofs C31.Model.
Open Scope Z_scope.
Ltac Zify.zify_post_hook ::= Z.div_mod_to_equations.

Lemma rbind_ok {A B} (a : res A) (f : A -> res B) r :
  rbind a f = Ok r <-> exists x, a = Ok x /\ f x = Ok r.
Proof.
  destruct a; simpl; split; intros H; eauto.
  - destruct H as [x [E H]]. injection E as <-. exact H.
  - discriminate.
  - destruct H as [x [E _]]; discriminate.
Qed.
Lemma of_opt_ok {A} e (o : option A) x : of_opt e o = Ok x <-> o = Some x.
Proof. destruct o; simpl; split; intros H; try discriminate; congruence. Qed.

Lemma in_skipn {A} (x : A) n l : In x (skipn n l) -> In x l.
Proof. revert l. induction n as [|n IH]; intros l H; [exact H|]. destruct l as [|a l]; [exact H|]. right. apply IH. exact H. Qed.

Section P.
  Variable w : Z.
  Hypothesis Hw : 1 <= w.
  Variable unit : Z.
  Hypothesis Hunit : 0 < unit < 2 ^ w.

  (* the invariant maintained by GtState: MAX_RANK + 1 entries, each a fraction of at most 100% *)
  Definition inv (st : gstate) : Prop :=
    0 <= g_max_rank st <= MAX_RANK /\ length (g_table st) = 16%nat /\
    Forall (fun f => 0 <= f <= unit) (g_table st).

  Lemma inv_zero : inv zero_state.
  Proof.
    unfold inv, zero_state, MAX_RANK. simpl. split; [lia|]. split; [reflexivity|].
    repeat constructor; lia.
  Qed.

  Lemma inv_init st b gs ranks st' : inv st -> gt_init st b gs ranks = Ok st' -> inv st' /\
    g_max_rank st' = Z.min (Z.of_nat (length ranks)) MAX_RANK /\ g_table st' = g_table st /\ g_ref st' = g_ref st.
  Proof.
    intros (A & B & C). unfold gt_init. destruct b; [discriminate|]. destruct (gs =? 0); [discriminate|].
    destruct (negb _); [discriminate|]. intros H; injection H as <-. unfold inv. simpl.
    repeat split; auto; unfold MAX_RANK in *; lia.
  Qed.

  Lemma set_factors_ok st fs st' : set_factors unit st fs = Ok st' ->
    Z.of_nat (length fs) = g_max_rank st + 1 /\ Forall (fun f => f <= unit) fs /\
    st' = MkG (g_max_rank st) (fs ++ skipn (length fs) (g_table st)) (g_ref st).
  Proof.
    unfold set_factors. destruct (Z.of_nat (length fs) =? g_max_rank st + 1) eqn:E1; [|discriminate].
    destruct (forallb (fun f => f <=? unit) fs) eqn:E2; [|discriminate]. cbn [negb].
    intros H; injection H as <-. split; [lia|]. split; [|reflexivity].
    apply Forall_forall. intros x Hx. rewrite forallb_forall in E2. specialize (E2 x Hx). lia.
  Qed.

  (* GtState::set_order_fee_discount_factors caps factors at 100% *)
  Lemma set_factors_rejects st fs : (exists f, In f fs /\ unit < f) -> set_factors unit st fs = Err 1.
  Proof.
    intros (f & Hin & Hf). unfold set_factors. destruct (negb _); [reflexivity|].
    destruct (forallb (fun f => f <=? unit) fs) eqn:E; [|reflexivity].
    rewrite forallb_forall in E. specialize (E f Hin). lia.
  Qed.

  Lemma inv_set st fs st' : inv st -> Forall (fun f => 0 <= f) fs -> set_factors unit st fs = Ok st' -> inv st'.
  Proof.
    intros (A & B & C) Hnn H. apply set_factors_ok in H. destruct H as (L & F & ->). unfold inv. simpl.
    split; [lia|]. unfold MAX_RANK in *.
    assert (length fs <= 16)%nat by lia. split.
    - rewrite app_length, skipn_length. lia.
    - apply Forall_app. split.
      + rewrite Forall_forall in *. intros x Hx. specialize (F x Hx). specialize (Hnn x Hx). simpl in *. lia.
      + rewrite Forall_forall in *. intros x Hx. apply C. eapply in_skipn; eauto.
  Qed.

  Definition wf_op (o : op) : Prop :=
    match o with OSet fs => Forall (fun f => 0 <= f) fs | ORef f => 0 <= f end.

  Lemma inv_apply_op st o : inv st -> wf_op o -> inv (apply_op unit st o).
  Proof.
    intros Hi Ho. destruct o as [fs|f]; simpl.
    - destruct (set_factors unit st fs) eqn:E; [eapply inv_set; eauto|exact Hi].
    - destruct Hi as (A & B & C). unfold inv, set_ref. simpl. auto.
  Qed.

  Theorem inv_history ops st : inv st -> Forall wf_op ops -> inv (fold_left (apply_op unit) ops st).
  Proof.
    revert st. induction ops as [|o r IH]; intros st Hi Ho; simpl; [exact Hi|].
    inversion Ho; subst. apply IH; [apply inv_apply_op; assumption|assumption].
  Qed.

  Lemma ref_history_nonneg ops st : 0 <= g_ref st -> Forall wf_op ops ->
    0 <= g_ref (fold_left (apply_op unit) ops st).
  Proof.
    revert st. induction ops as [|o r IH]; intros st Hr Ho; simpl; [exact Hr|].
    inversion Ho; subst. apply IH; [|assumption]. destruct o as [fs|f]; simpl.
    - destruct (set_factors unit st fs) eqn:E; [|exact Hr]. apply set_factors_ok in E. destruct E as (_ & _ & ->). exact Hr.
    - exact H1.
  Qed.

  Lemma rank_factor_ok st rank a : inv st -> 0 <= rank -> rank_factor st rank = Ok a ->
    rank <= g_max_rank st /\ 0 <= a <= unit.
  Proof.
    intros (A & B & C) Hr. unfold rank_factor. destruct (g_max_rank st <? rank) eqn:E; [discriminate|].
    intros H; injection H as <-. split; [lia|].
    rewrite Forall_forall in C. apply C. apply nth_In. unfold MAX_RANK in *. lia.
  Qed.

  Lemma combine_ok a b d : 0 <= a <= unit -> 0 <= b -> combine w unit a b = Ok d ->
    b <= unit /\ d = b + a * (unit - b) / unit /\ 0 <= d <= unit /\ a <= d /\ b <= d /\
    unit * d <= unit * unit - (unit - a) * (unit - b) < unit * d + unit.
  Proof.
    intros Ha Hb. unfold combine. rewrite rbind_ok. intros (c & H1 & H2).
    apply of_opt_ok in H1. apply chk_u_some in H1. destruct H1 as [H1 ->].
    apply of_opt_ok in H2. rewrite obind_some in H2. destruct H2 as (f & H2 & H3).
    apply apply_factor_exact in H2; [|lia..]. destruct H2 as [-> H2].
    apply chk_u_some in H3. destruct H3 as [H3 ->].
    pose proof (div_floor_spec (a * (unit - b)) unit ltac:(lia)) as HF.
    set (q := a * (unit - b) / unit) in *.
    assert (0 <= q) by (subst q; apply div_nonneg; nia).
    assert (q <= unit - b) by (subst q; apply Z.div_le_upper_bound; [lia|nia]).
    (* a <= b + q  <->  a - b <= q ; from unit*q > a*(unit-b) - unit *)
    assert (a <= b + q) by nia.
    repeat split; try lia; nia.
  Qed.

  Lemma combine_total a b : 0 <= a <= unit -> 0 <= b <= unit -> exists d, combine w unit a b = Ok d.
  Proof.
    intros Ha Hb. unfold combine.
    assert (E1 : usub w unit b = Some (unit - b)) by (apply chk_u_some; lia). rewrite E1. cbn [of_opt rbind].
    assert (0 <= a * (unit - b) / unit) by (apply div_nonneg; nia).
    assert (a * (unit - b) / unit <= unit - b) by (apply Z.div_le_upper_bound; [lia|nia]).
    assert (E2 : apply_factor w unit a (unit - b) = Some (a * (unit - b) / unit))
      by (apply apply_factor_exact; [lia..|split; [reflexivity|lia]]).
    rewrite E2. cbn [obind].
    assert (E3 : uadd w b (a * (unit - b) / unit) = Some (b + a * (unit - b) / unit)) by (apply chk_u_some; lia).
    rewrite E3. eexists; reflexivity.
  Qed.

  Lemma combine_ref_above_unit a b : unit < b -> combine w unit a b = Err 3.
  Proof.
    intros Hb. unfold combine. assert (E : usub w unit b = None) by (apply chk_u_none; lia). rewrite E. reflexivity.
  Qed.

  (* ---- the property ---- *)
  Theorem discount_le_unit st rank referred d : inv st -> 0 <= g_ref st -> 0 <= rank ->
    discount w unit st rank referred = Ok d -> 0 <= d <= unit.
  Proof.
    intros Hi Hr Hk. unfold discount. rewrite rbind_ok. intros (a & H1 & H2).
    apply rank_factor_ok in H1; [|assumption..]. destruct H1 as [_ Ha].
    destruct referred; [|injection H2 as <-; exact Ha].
    apply combine_ok in H2; [|assumption..]. tauto.
  Qed.

  Theorem referred_ge_unreferred st rank a d : inv st -> 0 <= g_ref st -> 0 <= rank ->
    discount w unit st rank false = Ok a -> discount w unit st rank true = Ok d -> a <= d /\ g_ref st <= d.
  Proof.
    intros Hi Hr Hk. unfold discount. rewrite !rbind_ok. intros (a0 & H1 & H2) (a1 & H3 & H4).
    rewrite H1 in H3. injection H3 as <-. injection H2 as <-.
    apply rank_factor_ok in H1; [|assumption..]. destruct H1 as [_ Ha].
    apply combine_ok in H4; [|assumption..]. lia.
  Qed.

  (* d = 1 - (1 - a)(1 - b), rounded down, in units of [unit] *)
  Theorem discount_formula st rank a d : inv st -> 0 <= g_ref st -> 0 <= rank ->
    discount w unit st rank false = Ok a -> discount w unit st rank true = Ok d ->
    d = g_ref st + a * (unit - g_ref st) / unit /\
    unit * d <= unit * unit - (unit - a) * (unit - g_ref st) < unit * d + unit.
  Proof.
    intros Hi Hr Hk. unfold discount. rewrite !rbind_ok. intros (a0 & H1 & H2) (a1 & H3 & H4).
    rewrite H1 in H3. injection H3 as <-. injection H2 as <-.
    apply rank_factor_ok in H1; [|assumption..]. destruct H1 as [_ Ha].
    apply combine_ok in H4; [|assumption..]. tauto.
  Qed.

  Theorem rank_above_max_rejected st rank referred : g_max_rank st < rank ->
    discount w unit st rank referred = Err 1.
  Proof. intros H. unfold discount, rank_factor. replace (g_max_rank st <? rank) with true by lia. reflexivity. Qed.

  Theorem discount_total st rank referred : inv st -> 0 <= rank <= g_max_rank st -> 0 <= g_ref st <= unit ->
    exists d, discount w unit st rank referred = Ok d.
  Proof.
    intros Hi Hk Hr. unfold discount.
    destruct (rank_factor st rank) as [a|e] eqn:E.
    - cbn [rbind]. pose proof (rank_factor_ok st rank a Hi ltac:(lia) E) as [_ Ha].
      destruct referred; [apply combine_total; assumption|eexists; reflexivity].
    - unfold rank_factor in E. replace (g_max_rank st <? rank) with false in E by lia. discriminate.
  Qed.

  Theorem referral_above_unit_rejected st rank : 0 <= rank <= g_max_rank st -> unit < g_ref st ->
    discount w unit st rank true = Err 3.
  Proof.
    intros Hk Hr. unfold discount, rank_factor. replace (g_max_rank st <? rank) with false by lia.
    cbn [rbind]. apply combine_ref_above_unit. exact Hr.
  Qed.

  (* the SDK copy computes the same function *)
  Theorem sdk_eq_program st rank referred : sdk_discount w unit st rank referred = discount w unit st rank referred.
  Proof.
    unfold sdk_discount, discount, rank_factor, combine. destruct (g_max_rank st <? rank); [reflexivity|].
    cbn [rbind]. destruct referred; reflexivity.
  Qed.

  (* ---- history level: every state reachable from GT init by table / referral updates ---- *)
  Definition reachable (st : gstate) : Prop :=
    exists gs ranks st0 ops, gt_init zero_state false gs ranks = Ok st0 /\ Forall wf_op ops /\
                             st = fold_left (apply_op unit) ops st0.

  Lemma reachable_inv st : reachable st -> inv st /\ 0 <= g_ref st.
  Proof.
    intros (gs & ranks & st0 & ops & Hi & Ho & ->).
    apply inv_init in Hi; [|exact inv_zero]. destruct Hi as (Hi & _ & _ & Hr). split.
    - apply inv_history; assumption.
    - apply ref_history_nonneg; [rewrite Hr; simpl; lia|assumption].
  Qed.

  Theorem h_discount_le_unit st rank referred d : reachable st -> 0 <= rank ->
    discount w unit st rank referred = Ok d -> 0 <= d <= unit.
  Proof. intros H. apply reachable_inv in H. destruct H. apply discount_le_unit; assumption. Qed.

  Theorem h_referred_ge_unreferred st rank a d : reachable st -> 0 <= rank ->
    discount w unit st rank false = Ok a -> discount w unit st rank true = Ok d -> a <= d /\ g_ref st <= d.
  Proof. intros H. apply reachable_inv in H. destruct H. apply referred_ge_unreferred; assumption. Qed.

  Theorem h_discount_formula st rank a d : reachable st -> 0 <= rank ->
    discount w unit st rank false = Ok a -> discount w unit st rank true = Ok d ->
    d = g_ref st + a * (unit - g_ref st) / unit /\
    unit * d <= unit * unit - (unit - a) * (unit - g_ref st) < unit * d + unit.
  Proof. intros H. apply reachable_inv in H. destruct H. apply discount_formula; assumption. Qed.

  Theorem h_discount_total st rank referred : reachable st -> 0 <= rank <= g_max_rank st -> g_ref st <= unit ->
    exists d, discount w unit st rank referred = Ok d.
  Proof. intros H Hk Hr. apply reachable_inv in H. destruct H. apply discount_total; auto; lia. Qed.
End P.
