(* C31 — order fee discount: programs/store/src/states/store.rs (Store::order_fee_discount_factor),
   states/gt.rs (GtState::{init (max_rank only), set_order_fee_discount_factors,
   order_fee_discount_factor}) and the SDK copy crates/programs/src/utils/store.rs.
   Parametric in the width [w] and [unit] (the code instantiates u128 / 10^20).
   Definitions only.

   Error codes: 1 InvalidArgument (program) / "rank .. exceeds max_rank" (SDK),
   3 Internal (program) / "complement calculation overflow" (SDK),
   4 ValueOverflow (program) / "discount factor calculation overflow" (SDK),
   5 InvalidGTConfig, 6 GTStateHasBeenInitialized. *)
From GV Require Import lib.Base C01.Model.
Open Scope Z_scope.

Definition MAX_RANK : Z := 15.

(* the part of Store the discount depends on: gt.max_rank, gt.order_fee_discount_factors
   (MAX_RANK + 1 entries), factor.order_fee_discount_for_referred_user *)
Record gstate := MkG { g_max_rank : Z; g_table : list Z; g_ref : Z }.

Definition zero_state : gstate := MkG 0 (repeat 0 16) 0.

Fixpoint strictly_sorted (l : list Z) : bool :=
  match l with
  | a :: ((b :: _) as r) => (a <? b) && strictly_sorted r
  | _ => true
  end.

(* GtState::init, restricted to what matters here: max_rank = min(len ranks, MAX_RANK);
   [initialized] abstracts `grow_step_amount != 0 || counters != 0` *)
Definition gt_init (st : gstate) (initialized : bool) (grow_step : Z) (ranks : list Z) : res gstate :=
  if initialized then Err 6
  else if grow_step =? 0 then Err 5
  else
    let mr := Z.min (Z.of_nat (length ranks)) MAX_RANK in
    if negb (strictly_sorted (firstn (Z.to_nat mr) ranks)) then Err 5
    else Ok (MkG mr (g_table st) (g_ref st)).

Section Discount.
  Variables w unit : Z.

  (* GtState::set_order_fee_discount_factors *)
  Definition set_factors (st : gstate) (fs : list Z) : res gstate :=
    if negb (Z.of_nat (length fs) =? g_max_rank st + 1) then Err 1
    else if negb (forallb (fun f => f <=? unit) fs) then Err 1
    else Ok (MkG (g_max_rank st) (fs ++ skipn (length fs) (g_table st)) (g_ref st)).

  (* Store factor insert (no validation in the program) *)
  Definition set_ref (st : gstate) (f : Z) : gstate := MkG (g_max_rank st) (g_table st) f.

  (* GtState::order_fee_discount_factor *)
  Definition rank_factor (st : gstate) (rank : Z) : res Z :=
    if g_max_rank st <? rank then Err 1 else Ok (nth (Z.to_nat rank) (g_table st) 0).

  (* 1 - (1 - A)(1 - B) computed as B + floor(A * (unit - B) / unit) *)
  Definition combine (a b : Z) : res Z :=
    c <-- of_opt 3 (usub w unit b) ;;
    of_opt 4 (f <- apply_factor w unit a c ;; uadd w b f).

  (* Store::order_fee_discount_factor (program) *)
  Definition discount (st : gstate) (rank : Z) (referred : bool) : res Z :=
    a <-- rank_factor st rank ;;
    if referred then combine a (g_ref st) else Ok a.

  (* Store::order_fee_discount_factor (SDK, crates/programs): inline rank check and table read *)
  Definition sdk_discount (st : gstate) (rank : Z) (referred : bool) : res Z :=
    if g_max_rank st <? rank then Err 1 else
    let a := nth (Z.to_nat rank) (g_table st) 0 in
    if referred then
      c <-- of_opt 3 (usub w unit (g_ref st)) ;;
      of_opt 4 (f <- apply_factor w unit a c ;; uadd w (g_ref st) f)
    else Ok a.

  (* histories *)
  Inductive op := OSet (fs : list Z) | ORef (f : Z).
  Definition apply_op (st : gstate) (o : op) : gstate :=
    match o with
    | OSet fs => match set_factors st fs with Ok st' => st' | Err _ => st end
    | ORef f => set_ref st f
    end.
End Discount.
