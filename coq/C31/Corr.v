(* C31 — correspondence and oracle for harness/src/bin/c31.rs.  One case = one history on one
   Store: GT init with [nranks] ranks, then steps; each step carries the outputs of the program
   AND of the SDK copy (run on the same account bytes). *)
From GV Require Import lib.Base C01.Model.
From GV Require Export C31.Model.
Open Scope Z_scope.

Inductive step :=
| SSet (fs : list Z) (code : Z)                    (* set_order_fee_discount_factors; 0 = Ok, else error code *)
| SRef (f : Z)                                     (* insert factor order_fee_discount_for_referred_user *)
| SRank (rank : Z) (r : res Z)                     (* GtState::order_fee_discount_factor *)
| SInit (ranks : list Z) (gs : Z) (code : Z)        (* a second GtState::init on the initialised state *)
| SQuery (rank : Z) (p0 s0 p1 s1 : res Z).         (* discount(rank, false) program / SDK, discount(rank, true) program / SDK *)

Inductive case :=
| CHist (w dec : Z) (ranks : list Z) (grow_step : Z) (init_code : Z) (steps : list step).

Definition reqb (a b : res Z) : bool :=
  match a, b with Ok x, Ok y => x =? y | Err x, Err y => x =? y | _, _ => false end.

Definition code_of {A} (r : res A) : Z := match r with Ok _ => 0 | Err e => e end.

Fixpoint corr_steps (w unit : Z) (st : gstate) (l : list step) : bool :=
  match l with
  | [] => true
  | SSet fs code :: r =>
      let res := set_factors unit st fs in
      (code_of res =? code) && corr_steps w unit (match res with Ok st' => st' | Err _ => st end) r
  | SRef f :: r => corr_steps w unit (set_ref st f) r
  | SRank rank x :: r => reqb (rank_factor st rank) x && corr_steps w unit st r
  | SInit ranks gs code :: r => (code_of (gt_init st true gs ranks) =? code) && corr_steps w unit st r
  | SQuery rank p0 s0 p1 s1 :: r =>
      reqb (discount w unit st rank false) p0 && reqb (sdk_discount w unit st rank false) s0 &&
      reqb (discount w unit st rank true) p1 && reqb (sdk_discount w unit st rank true) s1 &&
      corr_steps w unit st r
  end.

Definition corr_b (c : case) : bool :=
  match c with
  | CHist w dec ranks gs code steps =>
      match gt_init zero_state false gs ranks with
      | Ok st => (code =? 0) && corr_steps w (10 ^ dec) st steps
      | Err e => (code =? e) && match steps with [] => true | _ => false end
      end
  end.

(* ---------- the property on the implementations' outputs ----------
   The oracle tracks only what the impl itself reported: the table from the accepted sets,
   the referral factor from the inserts, max_rank = min(#ranks, 15). *)
Fixpoint upd_prefix (fs tbl : list Z) : list Z :=
  match fs, tbl with
  | f :: fr, _ :: tr => f :: upd_prefix fr tr
  | _, _ => tbl
  end.

Fixpoint oracle_steps (w u mr : Z) (tbl : list Z) (b : Z) (l : list step) : bool :=
  match l with
  | [] => true
  | SSet fs code :: r =>
      let valid := (Z.of_nat (length fs) =? mr + 1) && forallb (fun f => f <=? u) fs in
      (* factors above 100% / wrong length are rejected, valid tables accepted *)
      (if valid then code =? 0 else code =? 1) &&
      oracle_steps w u mr (if code =? 0 then upd_prefix fs tbl else tbl) b r
  | SRef f :: r => oracle_steps w u mr tbl f r
  | SRank rank x :: r =>
      (if mr <? rank then reqb x (Err 1) else reqb x (Ok (nth (Z.to_nat rank) tbl 0))) &&
      oracle_steps w u mr tbl b r
  | SInit _ _ code :: r =>
      (* re-initialisation is refused, so max_rank and the table cannot be reset *)
      (code =? 6) && oracle_steps w u mr tbl b r
  | SQuery rank p0 s0 p1 s1 :: r =>
      (* the SDK computes the same discount as the program *)
      reqb p0 s0 && reqb p1 s1 &&
      (if mr <? rank then
         (* ranks above the configured maximum are rejected *)
         reqb p0 (Err 1) && reqb p1 (Err 1)
       else
         match p0 with
         | Ok a =>
             (a =? nth (Z.to_nat rank) tbl 0) && (0 <=? a) && (a <=? u) &&
             (if u <? b then reqb p1 (Err 3)
              else match p1 with
                   | Ok d =>
                       (0 <=? d) && (d <=? u) && (a <=? d) && (b <=? d) &&
                       (* d = 1 - (1-a)(1-b) up to rounding:  u*d <= u*u - (u-a)(u-b) < u*d + u *)
                       (u * d <=? u * u - (u - a) * (u - b)) && (u * u - (u - a) * (u - b) <? u * d + u)
                   | Err _ => false
                   end)
         | Err _ => false
         end) &&
      oracle_steps w u mr tbl b r
  end.

Fixpoint incr_b (l : list Z) : bool :=
  match l with a :: r => match r with b :: _ => (a <? b) && incr_b r | [] => true end | [] => true end.

Definition oracle_b (c : case) : bool :=
  match c with
  | CHist w dec ranks gs code steps =>
      (* GT init succeeds exactly for a non-zero grow step and strictly increasing rank thresholds *)
      let valid := negb (gs =? 0) && incr_b (firstn 15 ranks) in
      if valid then
        (code =? 0) && oracle_steps w (10 ^ dec) (Z.min (Z.of_nat (length ranks)) 15) (repeat 0 16) 0 steps
      else (code =? 5) && match steps with [] => true | _ => false end
  end.

Definition known_b (c : case) : Z := 0.
