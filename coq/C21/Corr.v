(* C21 — correspondence + oracle.  One case = one history on one real Market account:
   clock changes and operations; an operation = RevertibleMarket::new (start), a list of
   accesses with what the caller observed, then commit or drop; after every operation the
   committed storage is read back through Market::pool / Market::clock / Market::state. *)
From GV Require Import lib.Base.
From GV Require Export C21.Model.
Open Scope Z_scope.

Inductive item :=
| ISetTime (ts : Z)
| IOp (acts : list (act * aobs)) (commit : bool)
      (evt : option (Z * list Z * bool * bool))      (* MarketStateUpdated: rev, pool kinds, clocks?, other? *)
      (snap : list (list Z)).                        (* storage values of keys 0..17 after the operation *)
(* one liquidity-market operation: accesses with observations, commit?, token-program CPIs seen *)
Inductive lmop := LMOp (acts : list (lact * aobs)) (cm : bool) (cpis : list (Z * Z)).
Inductive case :=
| Hist (t0 : Z) (h : list item)
| LMHist (supply0 : Z) (h : list lmop).       (* mint supply evolves through the executed CPIs *)

Fixpoint zl_eqb (a b : list Z) : bool :=
  match a, b with [], [] => true | x :: r, y :: s => (x =? y) && zl_eqb r s | _, _ => false end.
Fixpoint zll_eqb (a b : list (list Z)) : bool :=
  match a, b with [], [] => true | x :: r, y :: s => zl_eqb x y && zll_eqb r s | _, _ => false end.
Definition aobs_eqb (a b : aobs) : bool :=
  match a, b with
  | OPair x y, OPair x' y' => (x =? x') && (y =? y')
  | OVal x, OVal y => x =? y
  | OCode x, OCode y => x =? y
  | _, _ => false
  end.
Definition evt_eqb (a b : option (Z * list Z * bool * bool)) : bool :=
  match a, b with
  | None, None => true
  | Some (r, ks, c, o), Some (r', ks', c', o') => (r =? r') && zl_eqb ks ks' && Bool.eqb c c' && Bool.eqb o o'
  | _, _ => false
  end.

(* ---------- model ---------- *)
Fixpoint macts (now : Z) (m : bstate) (l : list (act * aobs)) : option bstate :=
  match l with
  | [] => Some m
  | (a, o) :: r => let '(m', o') := astep now m a in if aobs_eqb o' o then macts now m' r else None
  end.

Definition model_evt (m : bstate) : Z * list Z * bool * bool :=
  (brev m, filter (fun k => k <? 16) (dirty_keys m), dirty m K_CLOCKS, dirty m K_OTHER).

Fixpoint mrun (now : Z) (m : bstate) (h : list item) : bool :=
  match h with
  | [] => true
  | ISetTime ts :: r => mrun ts m r
  | IOp acts cm evt snap :: r =>
      match start m with
      | Err _ => false
      | Ok m0 =>
          match macts now m0 acts with
          | None => false
          | Some m1 =>
              let m2 := if cm then commit m1 else m1 in
              evt_eqb (if cm then Some (model_evt m1) else None) evt
              && zll_eqb (map (fun k => ev (storage m2 k)) all_keys) snap
              && mrun now m2 r
          end
      end
  end.

Fixpoint pl_eqb (a b : list (Z * Z)) : bool :=
  match a, b with
  | [], [] => true
  | (x, y) :: r, (x', y') :: s => (x =? x') && (y =? y') && pl_eqb r s
  | _, _ => false
  end.
Fixpoint lmacts (l : lm) (acts : list (lact * aobs)) : option lm :=
  match acts with
  | [] => Some l
  | (a, o) :: r => let '(l', o') := lm_step l a in if aobs_eqb o' o then lmacts l' r else None
  end.
Fixpoint lmrun (sup : Z) (h : list lmop) : bool :=
  match h with
  | [] => true
  | LMOp acts cm cpis :: r =>
      match lmacts (mklm sup 0 0) acts with
      | None => false
      | Some l => pl_eqb (lm_cpis l cm) cpis && lmrun (lm_finish l cm) r
      end
  end.

Definition corr_b (c : case) : bool :=
  match c with
  | Hist t0 h => mrun t0 (init t0) h
  | LMHist sup h => lmrun sup h
  end.

(* ---------- oracle: plain transaction semantics, no revisions ----------
   committed store S (18 value vectors) and the write-set W of the running operation. *)
Definition getS (S : list (list Z)) (k : Z) : list Z := nth (Z.to_nat k) S [].
Fixpoint setL {A} (l : list A) (i : nat) (v : A) : list A :=
  match l, i with [], _ => [] | _ :: r, O => v :: r | x :: r, S j => x :: setL r j v end.
Definition getW (W : list (option (list Z))) (k : Z) : option (list Z) := nth (Z.to_nat k) W None.
Definition rd (S : list (list Z)) (W : list (option (list Z))) (k : Z) : list Z :=
  match getW W k with Some v => v | None => getS S k end.
(* a mutable access puts the entry into the write-set even if the value does not change *)
Definition wr (S : list (list Z)) (W : list (option (list Z))) (k : Z) (v : list Z) := setL W (Z.to_nat k) (Some v).

Definition ostep (now : Z) (nops : Z) (S : list (list Z)) (W : list (option (list Z))) (a : act) (o : aobs)
  : option (list (option (list Z))) :=
  match a, o with
  | APoolRead k, OPair x y => let v := rd S W k in if (x =? nthz v 0) && (y =? nthz v 1) then Some W else None
  | APoolAdd k is_long d, OCode c =>
      let v := rd S W k in let x := nthz v (side is_long) + d in
      if (0 <=? x) && (x <? 2 ^ 128)
      then (if c =? 0 then Some (wr S W k (setz v (Z.to_nat (side is_long)) x)) else None)
      else (if c =? 1 then Some (wr S W k v) else None)
  | AClockRead c, OVal p => let last := nthz (rd S W 16) c in if p =? Z.max (now - last) 0 then Some W else None
  | AClockTick c, OVal p =>
      let v := rd S W 16 in let last := nthz v c in
      if last <? now then (if p =? now - last then Some (wr S W 16 (setz v (Z.to_nat c) now)) else None)
      else (if p =? 0 then Some (wr S W 16 v) else None)
  | ABalRead is_long, OVal b => if b =? nthz (rd S W 17) (side is_long) then Some W else None
  | ABalIn is_long amt, OCode c =>
      let v := rd S W 17 in let x := nthz v (side is_long) + amt in
      if x <? 2 ^ 64 then (if c =? 0 then Some (wr S W 17 (setz v (Z.to_nat (side is_long)) x)) else None)
      else (if c =? 1 then Some (wr S W 17 v) else None)
  | ABalOut is_long amt, OCode c =>
      let v := rd S W 17 in let x := nthz v (side is_long) - amt in
      if 0 <=? x then (if c =? 0 then Some (wr S W 17 (setz v (Z.to_nat (side is_long)) x)) else None)
      else (if c =? 1 then Some (wr S W 17 v) else None)
  | AFfRead, OVal f => if f =? nthz (rd S W 17) 2 then Some W else None
  | AFfWrite f, OCode c => if c =? 0 then Some (wr S W 17 (setz (rd S W 17) 2 f)) else None
  | ARev, OVal r => if r =? nops + 1 then Some W else None      (* buffer.rev counts the operations started *)
  | _, _ => None
  end.

Fixpoint oacts (now nops : Z) (S : list (list Z)) (W : list (option (list Z))) (l : list (act * aobs))
  : option (list (option (list Z))) :=
  match l with
  | [] => Some W
  | (a, o) :: r => match ostep now nops S W a o with Some W' => oacts now nops S W' r | None => None end
  end.

Fixpoint written_keys (W : list (option (list Z))) (i : Z) : list Z :=
  match W with [] => [] | Some _ :: r => i :: written_keys r (i + 1) | None :: r => written_keys r (i + 1) end.
Fixpoint apply_ws (S : list (list Z)) (W : list (option (list Z))) : list (list Z) :=
  match S, W with
  | s :: r, Some v :: w => v :: apply_ws r w
  | s :: r, None :: w => s :: apply_ws r w
  | _, _ => S
  end.

Definition empty_ws : list (option (list Z)) := repeat None 18.

Fixpoint orun (now nops : Z) (S : list (list Z)) (h : list item) : bool :=
  match h with
  | [] => true
  | ISetTime ts :: r => orun ts nops S r
  | IOp acts cm evt snap :: r =>
      (* every operation starts from an EMPTY write-set: nothing of an abandoned one is visible *)
      match oacts now (nops + 1) S empty_ws acts with
      | None => false
      | Some W =>
          let S' := if cm then apply_ws S W else S in          (* storage changes only on commit *)
          let ws := written_keys W 0 in
          evt_eqb evt (if cm then Some (nops + 2, filter (fun k => k <? 16) ws,
                                        existsb (Z.eqb 16) ws, existsb (Z.eqb 17) ws) else None)
          && zll_eqb S' snap
          && orun now (nops + 1) S' r
      end
  end.

Definition init_store (t0 : Z) : list (list Z) := repeat [0; 0] 16 ++ [[t0; t0; t0]; [0; 0; 0]].

(* oracle for the deferral: nothing reaches the token program unless the operation commits, and a
   commit mints / burns exactly the sum of the successful requests; in-operation supply view = base
   + requested mints - requested burns; requests are refused when they would overflow / overdraw *)
Fixpoint olm (sup tm tb : Z) (acts : list (lact * aobs)) : option (Z * Z) :=
  match acts with
  | [] => Some (tm, tb)
  | (LMint amt, OCode c) :: r =>
      if (amt <? 2 ^ 64) && (sup + tm + amt <? 2 ^ 64)
      then (if c =? 0 then olm sup (tm + amt) tb r else None)
      else (if c =? 1 then olm sup tm tb r else None)
  | (LBurn amt, OCode c) :: r =>
      if (amt <? 2 ^ 64) && (tb + amt <=? sup)
      then (if c =? 0 then olm sup tm (tb + amt) r else None)
      else (if c =? 1 then olm sup tm tb r else None)
  | (LSupply, OVal v) :: r => if v =? sup + tm - tb then olm sup tm tb r else None
  | _ => None
  end.
Fixpoint olmrun (sup : Z) (h : list lmop) : bool :=
  match h with
  | [] => true
  | LMOp acts cm cpis :: r =>
      match olm sup 0 0 acts with
      | None => false
      | Some (tm, tb) =>
          if cm then
            pl_eqb cpis ((if tm =? 0 then [] else [(7, tm)]) ++ (if tb =? 0 then [] else [(8, tb)]))
            && olmrun (sup + tm - tb) r
          else pl_eqb cpis [] && olmrun sup r
      end
  end.

Definition oracle_b (c : case) : bool :=
  match c with
  | Hist t0 h => orun t0 0 (init_store t0) h
  | LMHist sup h => (0 <=? sup) && (sup <? 2 ^ 64) && olmrun sup h
  end.

Definition known_b (c : case) : Z := 0.
