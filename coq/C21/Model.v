(* C21 — executable model of the revertible buffer
   (programs/store/src/states/market/revertible/buffer.rs, driven through
   revertible/market.rs).  Definitions only.

   Storage and buffer hold one entry per key; an entry is a value plus the revision that
   last wrote it.  Keys: 0..15 = the 16 PoolKinds (PoolStorage), 16 = Clocks, 17 = OtherState.
   Values are integer vectors: pools [long; short], clocks [price_impact_distribution;
   borrowing; funding], other [long_token_balance; short_token_balance; funding_factor_per_second].

     start      : buffer.rev = buffer.rev.checked_add(1).expect(..)       (RevertibleMarket::new)
     get k      : if buf[k].rev == buffer.rev { buf[k] } else { storage[k] }       (cache_get_with)
     get_mut k  : if buf[k].rev != buffer.rev { buf[k] = storage[k]; buf[k].rev = buffer.rev }; &mut buf[k]
     commit     : for every k with buf[k].rev == buffer.rev: storage[k] = buf[k]   (commit_to_storage)
     abandon    : the RevertibleMarket is dropped — nothing happens. *)
From GV Require Import lib.Base.
Open Scope Z_scope.

Definition P_REV : Z := 120.          (* "rev overflow" panic *)

Record entry := mke { ev : list Z; erev : Z }.
Record bstate := mkb { storage : Z -> entry; buffer : Z -> entry; brev : Z }.

Definition upd (f : Z -> entry) (k : Z) (e : entry) : Z -> entry := fun j => if j =? k then e else f j.

Definition dirty (m : bstate) (k : Z) : bool := erev (buffer m k) =? brev m.

Definition start (m : bstate) : res bstate :=
  match chk_u 64 (brev m + 1) with
  | Some r => Ok (mkb (storage m) (buffer m) r)
  | None => Err P_REV
  end.

Definition get (m : bstate) (k : Z) : list Z :=
  if dirty m k then ev (buffer m k) else ev (storage m k).

(* get_mut followed by the caller's in-place update [f] of the value *)
Definition get_mut (m : bstate) (k : Z) (f : list Z -> list Z) : bstate :=
  let cur := if dirty m k then buffer m k else mke (ev (storage m k)) (brev m) in
  mkb (storage m) (upd (buffer m) k (mke (f (ev cur)) (brev m))) (brev m).

(* commit over an explicit key list (the code iterates PoolKind::iter(), then clocks, other) *)
Fixpoint commit_keys (m : bstate) (ks : list Z) (st : Z -> entry) : Z -> entry :=
  match ks with
  | [] => st
  | k :: r => commit_keys m r (if dirty m k then upd st k (buffer m k) else st)
  end.
Definition all_keys : list Z := [0;1;2;3;4;5;6;7;8;9;10;11;12;13;14;15;16;17].
Definition commit (m : bstate) : bstate := mkb (commit_keys m all_keys (storage m)) (buffer m) (brev m).
Definition dirty_keys (m : bstate) : list Z := filter (dirty m) all_keys.

(* ---------- the market-level accesses driven by the harness ---------- *)
Definition K_CLOCKS : Z := 16.
Definition K_OTHER : Z := 17.

Definition nthz (l : list Z) (i : Z) : Z := nth (Z.to_nat i) l 0.
Fixpoint setz (l : list Z) (i : nat) (v : Z) : list Z :=
  match l, i with
  | [], _ => []
  | _ :: r, O => v :: r
  | x :: r, S j => x :: setz r j v
  end.

Inductive act :=
| APoolRead (k : Z)                               (* <pool>(kind): long / short amounts *)
| APoolAdd (k : Z) (is_long : bool) (d : Z)       (* <pool>_mut(kind) then apply_delta_amount *)
| AClockRead (c : Z)                              (* passed_in_seconds_for_* *)
| AClockTick (c : Z)                              (* just_passed_in_seconds_for_* *)
| ABalRead (is_long : bool)                       (* Bank::balance *)
| ABalIn (is_long : bool) (amt : Z)               (* record_transferred_in_by_token *)
| ABalOut (is_long : bool) (amt : Z)              (* record_transferred_out_by_token *)
| AFfRead                                         (* funding_factor_per_second *)
| AFfWrite (v : Z)                                (* *funding_factor_per_second_mut() = v *)
| ARev.                                           (* Revision::rev *)

Inductive aobs :=
| OPair (a b : Z)
| OVal (v : Z)
| OCode (c : Z).        (* 0 = Ok, 1 = Err *)

Definition side (is_long : bool) : Z := if is_long then 0 else 1.
Definition passed (now last : Z) : Z := Z.max (now - last) 0.

(* one access inside an operation: new state and what the caller observes ([now] = Clock unix time) *)
Definition astep (now : Z) (m : bstate) (a : act) : bstate * aobs :=
  match a with
  | APoolRead k => let v := get m k in (m, OPair (nthz v 0) (nthz v 1))
  | APoolAdd k is_long d =>
      let m1 := get_mut m k (fun v => v) in                         (* pool_mut marks the entry *)
      let v := get m1 k in
      let x := nthz v (side is_long) + d in
      if in_u 128 x then (get_mut m1 k (fun v => setz v (Z.to_nat (side is_long)) x), OCode 0)
      else (m1, OCode 1)
  | AClockRead c => (m, OVal (passed now (nthz (get m K_CLOCKS) c)))
  | AClockTick c =>
      let m1 := get_mut m K_CLOCKS (fun v => v) in
      let last := nthz (get m1 K_CLOCKS) c in
      if 0 <? now - last then (get_mut m1 K_CLOCKS (fun v => setz v (Z.to_nat c) now), OVal (now - last))
      else (m1, OVal 0)
  | ABalRead is_long => (m, OVal (nthz (get m K_OTHER) (side is_long)))
  | ABalIn is_long amt =>
      let m1 := get_mut m K_OTHER (fun v => v) in
      let x := nthz (get m1 K_OTHER) (side is_long) + amt in
      if in_u 64 x then (get_mut m1 K_OTHER (fun v => setz v (Z.to_nat (side is_long)) x), OCode 0)
      else (m1, OCode 1)
  | ABalOut is_long amt =>
      let m1 := get_mut m K_OTHER (fun v => v) in
      let x := nthz (get m1 K_OTHER) (side is_long) - amt in
      if in_u 64 x then (get_mut m1 K_OTHER (fun v => setz v (Z.to_nat (side is_long)) x), OCode 0)
      else (m1, OCode 1)
  | AFfRead => (m, OVal (nthz (get m K_OTHER) 2))
  | AFfWrite v => (get_mut m K_OTHER (fun l => setz l 2 v), OCode 0)
  | ARev => (m, OVal (brev m))
  end.

(* initial state after Market::init at time t0: zeroed entries (rev 0), clocks = t0, buffer.rev = 1 *)
Definition entry0 (t0 : Z) (k : Z) : entry :=
  if k =? K_CLOCKS then mke [t0; t0; t0] 0
  else if k =? K_OTHER then mke [0; 0; 0] 0
  else mke [0; 0] 0.
Definition init (t0 : Z) : bstate := mkb (entry0 t0) (fun k => mke (ev (entry0 0 k)) 0) 1.
