(* C21 — executable model of the revertible buffer
   (programs/store/src/states/market/revertible/buffer.rs, driven through
   revertible/market.rs).  Definitions only.

   Storage and buffer hold one entry per key; an entry is a value plus the revision that
   last wrote it.  Keys: 0..15 = the 16 PoolKinds (PoolStorage), 16 = Clocks, 17 = OtherState.
   Values are integer vectors: pools [long; short], clocks [price_impact_distribution;
   borrowing; funding], other [long_token_balance; short_token_balance; funding_factor_per_second].

     start      : buffer.rev = buffer.rev.checked_add(1).expect(..)       (RevertibleMarket::new)
     get k      : if buf[k].rev == buffer.rev { buf[k] } else { storage[k] }       (cache_get_with)
     get_mut k  : if buf[k].rev != buffer.rev { buf[k] = storage[k]; buf[k].rev = buffer.rev }; &mut buf[k]
     commit     : for every k with buf[k].rev == buffer.rev: storage[k] = buf[k]   (commit_to_storage)
     abandon    : the RevertibleMarket is dropped — nothing happens. *)
From GV Require Import lib.Base.
Open Scope Z_scope.

Definition P_REV : Z := 120.          (* "rev overflow" panic *)

Record entry := mke { ev : list Z; erev : Z }.
Record bstate := mkb { storage : Z -> entry; buffer : Z -> entry; brev : Z }.

Definition upd (f : Z -> entry) (k : Z) (e : entry) : Z -> entry := fun j => if j =? k then e else f j.

Definition dirty (m : bstate) (k : Z) : bool := erev (buffer m k) =? brev m.

Definition start (m : bstate) : res bstate :=
  match chk_u 64 (brev m + 1) with
  | Some r => Ok (mkb (storage m) (buffer m) r)
  | None => Err P_REV
  end.

Definition get (m : bstate) (k : Z) : list Z :=
  if dirty m k then ev (buffer m k) else ev (storage m k).

(* get_mut followed by the caller's in-place update [f] of the value *)
Definition get_mut (m : bstate) (k : Z) (f : list Z -> list Z) : bstate :=
  let cur := if dirty m k then buffer m k else mke (ev (storage m k)) (brev m) in
  mkb (storage m) (upd (buffer m) k (mke (f (ev cur)) (brev m))) (brev m).

(* commit over an explicit key list (the code iterates PoolKind::iter(), then clocks, other) *)
Fixpoint commit_keys (m : bstate) (ks : list Z) (st : Z -> entry) : Z -> entry :=
  match ks with
  | [] => st
  | k :: r => commit_keys m r (if dirty m k then upd st k (buffer m k) else st)
  end.
Definition all_keys : list Z := [0;1;2;3;4;5;6;7;8;9;10;11;12;13;14;15;16;17].
Definition commit (m : bstate) : bstate := mkb (commit_keys m all_keys (storage m)) (buffer m) (brev m).
Definition dirty_keys (m : bstate) : list Z := filter (dirty m) all_keys.

(* ---------- the market-level accesses driven by the harness ---------- *)
Definition K_CLOCKS : Z := 16.
Definition K_OTHER : Z := 17.

Definition nthz (l : list Z) (i : Z) : Z := nth (Z.to_nat i) l 0.
Fixpoint setz (l : list Z) (i : nat) (v : Z) : list Z :=
  match l, i with
  | [], _ => []
  | _ :: r, O => v :: r
  | x :: r, S j => x :: setz r j v
  end.

Inductive act :=
| APoolRead (k : Z)                               (* <pool>(kind): long / short amounts *)
| APoolAdd (k : Z) (is_long : bool) (d : Z)       (* <pool>_mut(kind) then apply_delta_amount *)
| AClockRead (c : Z)                              (* passed_in_seconds_for_* *)
| AClockTick (c : Z)                              (* just_passed_in_seconds_for_* *)
| ABalRead (is_long : bool)                       (* Bank::balance *)
| ABalIn (is_long : bool) (amt : Z)               (* record_transferred_in_by_token *)
| ABalOut (is_long : bool) (amt : Z)              (* record_transferred_out_by_token *)
| AFfRead                                         (* funding_factor_per_second *)
| AFfWrite (v : Z)                                (* *funding_factor_per_second_mut() = v *)
| ARev.                                           (* Revision::rev *)

Inductive aobs :=
| OPair (a b : Z)
| OVal (v : Z)
| OCode (c : Z).        (* 0 = Ok, 1 = Err *)

Definition side (is_long : bool) : Z := if is_long then 0 else 1.
Definition passed (now last : Z) : Z := Z.max (now - last) 0.

(* one access inside an operation, written once over an abstract store interface
   ([g] = shared access, [gm] = mutable access followed by an in-place update, [rv] = revision):
   new state and what the caller observes ([now] = Clock unix time) *)
Section Generic.
  Variable st : Type.
  Variable g : st -> Z -> list Z.
  Variable gm : st -> Z -> (list Z -> list Z) -> st.
  Variable rv : st -> Z.

  Definition gstep (now : Z) (m : st) (a : act) : st * aobs :=
    match a with
    | APoolRead k => let v := g m k in (m, OPair (nthz v 0) (nthz v 1))
    | APoolAdd k is_long d =>
        let m1 := gm m k (fun v => v) in                         (* pool_mut marks the entry *)
        let v := g m1 k in
        let x := nthz v (side is_long) + d in
        if in_u 128 x then (gm m1 k (fun v => setz v (Z.to_nat (side is_long)) x), OCode 0)
        else (m1, OCode 1)
    | AClockRead c => (m, OVal (passed now (nthz (g m K_CLOCKS) c)))
    | AClockTick c =>
        let m1 := gm m K_CLOCKS (fun v => v) in
        let last := nthz (g m1 K_CLOCKS) c in
        if 0 <? now - last then (gm m1 K_CLOCKS (fun v => setz v (Z.to_nat c) now), OVal (now - last))
        else (m1, OVal 0)
    | ABalRead is_long => (m, OVal (nthz (g m K_OTHER) (side is_long)))
    | ABalIn is_long amt =>
        let m1 := gm m K_OTHER (fun v => v) in
        let x := nthz (g m1 K_OTHER) (side is_long) + amt in
        if in_u 64 x then (gm m1 K_OTHER (fun v => setz v (Z.to_nat (side is_long)) x), OCode 0)
        else (m1, OCode 1)
    | ABalOut is_long amt =>
        let m1 := gm m K_OTHER (fun v => v) in
        let x := nthz (g m1 K_OTHER) (side is_long) - amt in
        if in_u 64 x then (gm m1 K_OTHER (fun v => setz v (Z.to_nat (side is_long)) x), OCode 0)
        else (m1, OCode 1)
    | AFfRead => (m, OVal (nthz (g m K_OTHER) 2))
    | AFfWrite v => (gm m K_OTHER (fun l => setz l 2 v), OCode 0)
    | ARev => (m, OVal (rv m))
    end.

  Fixpoint gacts (now : Z) (m : st) (l : list act) : st * list aobs :=
    match l with
    | [] => (m, [])
    | a :: r => let '(m1, o) := gstep now m a in let '(m2, os) := gacts now m1 r in (m2, o :: os)
    end.
End Generic.

Definition astep := gstep bstate get get_mut brev.

(* a whole operation: RevertibleMarket::new, the accesses, then commit() or drop *)
Definition run_op (now : Z) (m : bstate) (acts : list act) (cm : bool) : res (bstate * list aobs) :=
  m0 <-- start m ;;
  let '(m1, os) := gacts bstate get get_mut brev now m0 acts in
  Ok (if cm then commit m1 else m1, os).

Inductive hitem := HSetTime (ts : Z) | HOp (acts : list act) (cm : bool).

Fixpoint run_hist (now : Z) (m : bstate) (h : list hitem) : res (bstate * list (list aobs)) :=
  match h with
  | [] => Ok (m, [])
  | HSetTime ts :: r => run_hist ts m r
  | HOp acts cm :: r =>
      x <-- run_op now m acts cm ;;
      y <-- run_hist now (fst x) r ;;
      Ok (fst y, snd x :: snd y)
  end.

(* ---------- the specification: transactions over a plain store ----------
   [tS] committed values, [tW] write-set of the running operation, [tn] operation counter *)
Record tstate := mkt { tS : Z -> list Z; tW : Z -> option (list Z); tn : Z }.
Definition tget (t : tstate) (k : Z) : list Z := match tW t k with Some v => v | None => tS t k end.
Definition tget_mut (t : tstate) (k : Z) (f : list Z -> list Z) : tstate :=
  mkt (tS t) (fun j => if j =? k then Some (f (tget t k)) else tW t j) (tn t).
Definition tstart (t : tstate) : tstate := mkt (tS t) (fun _ => None) (tn t + 1).
Definition in_keys (k : Z) : bool := (0 <=? k) && (k <? 18).
Definition tcommit (t : tstate) : tstate :=
  mkt (fun k => if in_keys k then (match tW t k with Some v => v | None => tS t k end) else tS t k) (tW t) (tn t).

Definition trun_op (now : Z) (t : tstate) (acts : list act) (cm : bool) : tstate * list aobs :=
  let '(t1, os) := gacts tstate tget tget_mut tn now (tstart t) acts in
  (if cm then tcommit t1 else t1, os).

Fixpoint trun_hist (now : Z) (t : tstate) (h : list hitem) : tstate * list (list aobs) :=
  match h with
  | [] => (t, [])
  | HSetTime ts :: r => trun_hist ts t r
  | HOp acts cm :: r =>
      let x := trun_op now t acts cm in
      let y := trun_hist now (fst x) r in
      (fst y, snd x :: snd y)
  end.

(* ---------- RevertibleLiquidityMarket: mint / burn are only recorded, executed by commit ----------
   (model only — not driven by the harness, see notes/C21.md) *)
Record lm := mklm { supply : Z; to_mint : Z; to_burn : Z }.
Definition lm_mint (l : lm) (amt : Z) : res lm :=
  if in_u 64 amt then
    let tm := to_mint l + amt in
    if in_u 64 tm && in_u 64 (supply l + tm) then Ok (mklm (supply l) tm (to_burn l)) else Err 1
  else Err 1.
Definition lm_burn (l : lm) (amt : Z) : res lm :=
  if in_u 64 amt then
    let tb := to_burn l + amt in
    if in_u 64 tb && in_u 64 (supply l - tb) then Ok (mklm (supply l) (to_mint l) tb) else Err 1
  else Err 1.
(* token supply after the operation ends *)
Definition lm_finish (l : lm) (cm : bool) : Z := if cm then supply l + to_mint l - to_burn l else supply l.

(* initial state after Market::init at time t0: zeroed entries (rev 0), clocks = t0, buffer.rev = 1 *)
Definition entry0 (t0 : Z) (k : Z) : entry :=
  if k =? K_CLOCKS then mke [t0; t0; t0] 0
  else if k =? K_OTHER then mke [0; 0; 0] 0
  else mke [0; 0] 0.
Definition init (t0 : Z) : bstate := mkb (entry0 t0) (fun k => mke (ev (entry0 0 k)) 0) 1.

Inductive lact := LMint (amt : Z) | LBurn (amt : Z) | LSupply.

(* LiquidityMarket::total_supply: supply.saturating_add(to_mint).saturating_sub(to_burn) in u128 *)
Definition lm_total (l : lm) : Z := Z.max (Z.min (supply l + to_mint l) (2 ^ 128 - 1) - to_burn l) 0.

Definition lm_step (l : lm) (a : lact) : lm * aobs :=
  match a with
  | LMint amt => match lm_mint l amt with Ok l' => (l', OCode 0) | Err _ => (l, OCode 1) end
  | LBurn amt => match lm_burn l amt with Ok l' => (l', OCode 0) | Err _ => (l, OCode 1) end
  | LSupply => (l, OVal (lm_total l))
  end.

Fixpoint lm_run (l : lm) (acts : list lact) : lm * list aobs :=
  match acts with
  | [] => (l, [])
  | a :: r => let '(l1, o) := lm_step l a in let '(l2, os) := lm_run l1 r in (l2, o :: os)
  end.

(* token-program CPIs issued when the operation ends: (7 = MintTo, amount), (8 = Burn, amount) *)
Definition lm_cpis (l : lm) (cm : bool) : list (Z * Z) :=
  if cm then (if to_mint l =? 0 then [] else [(7, to_mint l)]) ++ (if to_burn l =? 0 then [] else [(8, to_burn l)])
  else [].

