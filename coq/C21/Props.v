(* C21 — uncommitted market operations never leak into stored state.
   [bstate] = storage entries, buffer entries (each value + revision) and the buffer revision;
   [tstate] = the specification: a plain store [tS], the write-set [tW] of the running
   operation and an operation counter.  [R m t] = invariant (no buffer entry carries a future
   revision) + "t is the abstraction of m". *)
From GV Require Import lib.Base C21.Model C21.Proofs.
Open Scope Z_scope.

(* the state left by Market::init satisfies the relation *)
Theorem c21_init : forall t0, R (init t0) (mkt (fun k => ev (entry0 t0 k)) (fun _ => None) 1).
Proof. exact R_init. Qed.

(* REFINEMENT over arbitrary histories (clock changes; operations = start, any accesses,
   commit or abandon; abandoned operations may follow each other, commits may be empty):
   every observation equals that of plain transactions, and the stored values after the
   history are the transactional store.  The only hypothesis is that the u64 revision
   counter does not overflow (start panics with "rev overflow" otherwise). *)
Theorem c21_refines_transactions : forall h now m t, R m t -> 0 <= brev m -> brev m + n_ops h < 2 ^ 64 ->
  exists m', run_hist now m h = Ok (m', snd (trun_hist now t h)) /\ R m' (fst (trun_hist now t h)).
Proof. exact run_hist_sim. Qed.

(* one operation: observations as in the specification; the revision advances by one; and
   STORAGE CHANGES ONLY ON COMMIT: an abandoned operation leaves every storage entry
   (value and revision) exactly as it was *)
Theorem c21_storage_changes_only_on_commit : forall now m t acts cm,
  R m t -> 0 <= brev m -> brev m + 1 < 2 ^ 64 ->
  exists m', run_op now m acts cm = Ok (m', snd (trun_op now t acts cm)) /\
             R m' (fst (trun_op now t acts cm)) /\ brev m' = brev m + 1 /\
             (cm = false -> storage m' = storage m).
Proof. exact run_op_sim. Qed.

(* accesses never touch storage *)
Theorem c21_access_keeps_storage : forall now m t a, R m t ->
  storage (fst (astep now m a)) = storage m /\ brev (fst (astep now m a)) = brev m.
Proof. intros now m t a HR. destruct (gstep_sim now m t a HR) as (_ & _ & S & B). auto. Qed.

(* COMMIT WRITES EXACTLY THE WRITE-SET: a key in the write-set gets the buffered value, any
   other entry is untouched *)
Theorem c21_commit_exact : forall m k, in_keys k = true ->
  ev (storage (commit m) k) = match absW m k with Some v => v | None => ev (storage m k) end.
Proof. exact commit_exact. Qed.
Theorem c21_commit_untouched : forall m k, dirty m k = false -> storage (commit m) k = storage m k.
Proof. exact commit_untouched. Qed.

(* READ YOUR WRITES (and only yours) *)
Theorem c21_read_your_writes : forall m k f, get (get_mut m k f) k = f (get m k).
Proof. exact read_your_writes. Qed.
Theorem c21_write_is_local : forall m k j f, j <> k -> get (get_mut m k f) j = get m j.
Proof. exact write_other_key. Qed.

(* NOTHING LEAKS FROM AN ABANDONED OPERATION: whatever the buffer contains, a freshly started
   operation reads the stored value of every key *)
Theorem c21_no_leak_from_abandoned : forall m m', inv m -> start m = Ok m' ->
  forall k, get m' k = ev (storage m k).
Proof. exact no_leak. Qed.

(* the invariant entry.rev <= buffer.rev is preserved by start / accesses / commit *)
Theorem c21_invariant : forall m m', inv m -> start m = Ok m' -> inv m' /\ forall k, dirty m' k = false.
Proof. intros m m' I E. destruct (start_clean m m' I E) as (_ & _ & _ & I' & D). auto. Qed.

(* MINT / BURN DEFERRAL of RevertibleLiquidityMarket: requests only accumulate ([lm_sums] is an
   independent account of the accepted requests); an abandoned operation issues no token-program
   CPI and leaves the supply alone; a committed one mints / burns exactly the accumulated totals
   and the supply stays within u64 *)
Theorem c21_mint_burn_deferred : forall acts sup, 0 <= sup < 2 ^ 64 ->
  let l := fst (lm_run (mklm sup 0 0) acts) in
  supply l = sup /\
  (to_mint l, to_burn l) = lm_sums sup 0 0 acts /\
  lm_cpis l false = [] /\ lm_finish l false = sup /\
  lm_finish l true = sup + to_mint l - to_burn l /\ 0 <= lm_finish l true < 2 ^ 64.
Proof. exact mint_burn_deferred. Qed.

(* non-vacuity: abandon, then commit, then an empty commit *)
Example c21_ex :
  match run_hist 100 (init 100)
        [HOp [APoolAdd 0 true 5; APoolRead 0; ABalIn true 7] false;
         HOp [APoolRead 0; ABalRead true; APoolAdd 3 false 9; ARev] true;
         HSetTime 130;
         HOp [] true;
         HOp [AClockTick 1; APoolRead 3] false] with
  | Ok (m, obs) =>
      obs = [[OCode 0; OPair 5 0; OCode 0]; [OPair 0 0; OVal 0; OCode 0; OVal 3]; []; [OVal 30; OPair 0 9]]
      /\ ev (storage m 0) = [0; 0] /\ ev (storage m 3) = [0; 9] /\ ev (storage m 16) = [100; 100; 100]
  | Err _ => False
  end.
Proof. vm_compute. repeat split; reflexivity. Qed.
