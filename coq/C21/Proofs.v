(* C21 — the revision-stamped copy-on-write buffer refines plain transactions. *)
From GV Require Import lib.Base C21.Model.
Open Scope Z_scope.

(* invariant: no buffer entry is stamped with a future revision *)
Definition inv (m : bstate) : Prop := forall k, erev (buffer m k) <= brev m.

(* the write-set an operation has accumulated so far *)
Definition absW (m : bstate) (k : Z) : option (list Z) :=
  if dirty m k then Some (ev (buffer m k)) else None.

(* simulation relation *)
Definition R (m : bstate) (t : tstate) : Prop :=
  inv m /\ (forall k, tS t k = ev (storage m k)) /\ (forall k, tW t k = absW m k) /\ tn t = brev m.

Lemma inv_init t0 : inv (init t0).
Proof. intros k. cbn. lia. Qed.

Lemma R_init t0 : R (init t0) (mkt (fun k => ev (entry0 t0 k)) (fun _ => None) 1).
Proof.
  split; [apply inv_init|]. split; [reflexivity|]. split; [|reflexivity].
  intros k. unfold absW, dirty. cbn. reflexivity.
Qed.

(* ---------------------------------------------------------------- start *)
Lemma start_ok m : brev m + 1 < 2 ^ 64 -> 0 <= brev m ->
  start m = Ok (mkb (storage m) (buffer m) (brev m + 1)).
Proof.
  intros H H0. unfold start, chk_u, in_u.
  destruct (Z.leb_spec 0 (brev m + 1)); destruct (Z.ltb_spec (brev m + 1) (2 ^ 64)); cbn; try lia. reflexivity.
Qed.

Lemma start_clean m m' : inv m -> start m = Ok m' ->
  storage m' = storage m /\ buffer m' = buffer m /\ brev m' = brev m + 1 /\ inv m' /\
  forall k, dirty m' k = false.
Proof.
  intros I E. unfold start in E. destruct (chk_u 64 (brev m + 1)) as [r|] eqn:C; [|discriminate].
  inversion E; subst m'; clear E. cbn.
  assert (r = brev m + 1).
  { unfold chk_u in C. destruct (in_u 64 (brev m + 1)); inversion C. reflexivity. }
  subst r. repeat split; auto.
  - intros k. cbn. specialize (I k). lia.
  - intros k. unfold dirty. cbn. specialize (I k). apply Z.eqb_neq. lia.
Qed.

Lemma R_start m t m' : R m t -> start m = Ok m' -> R m' (tstart t).
Proof.
  intros (I & HS & HW & Hn) E.
  destruct (start_clean m m' I E) as (Es & Eb & Er & I' & D).
  split; [exact I'|]. split; [|split].
  - intros k. cbn. rewrite Es. apply HS.
  - intros k. cbn. unfold absW. now rewrite D.
  - cbn. lia.
Qed.

(* ---------------------------------------------------------------- accesses *)
Lemma get_R m t k : R m t -> get m k = tget t k.
Proof.
  intros (I & HS & HW & Hn). unfold get, tget. rewrite HW. unfold absW.
  destruct (dirty m k); [reflexivity|]. symmetry. apply HS.
Qed.

Lemma get_mut_storage m k f : storage (get_mut m k f) = storage m /\ brev (get_mut m k f) = brev m.
Proof. split; reflexivity. Qed.

Lemma get_mut_R m t k f : R m t -> R (get_mut m k f) (tget_mut t k f).
Proof.
  intros HR. pose proof (get_R m t k HR) as G. destruct HR as (I & HS & HW & Hn).
  split; [|split; [|split]].
  - intros j. unfold get_mut, upd. cbn. destruct (Z.eqb_spec j k); cbn; [lia|apply I].
  - intros j. cbn. apply HS.
  - intros j. cbn. unfold absW, dirty, get_mut, upd. cbn.
    destruct (Z.eqb_spec j k) as [->|N].
    + cbn. rewrite Z.eqb_refl. f_equal. f_equal. rewrite <- G. unfold get, dirty.
      destruct (erev (buffer m k) =? brev m); reflexivity.
    + rewrite HW. reflexivity.
  - cbn. exact Hn.
Qed.

Lemma gstep_sim now m t a : R m t ->
  R (fst (astep now m a)) (fst (gstep tstate tget tget_mut tn now t a)) /\
  snd (astep now m a) = snd (gstep tstate tget tget_mut tn now t a) /\
  storage (fst (astep now m a)) = storage m /\ brev (fst (astep now m a)) = brev m.
Proof.
  intros HR. unfold astep.
  destruct a as [k|k is_long d|c|c|is_long|is_long amt|is_long amt| |v| ]; cbn [gstep].
  - rewrite (get_R m t k HR). cbn. auto.
  - pose proof (get_mut_R m t k (fun v => v) HR) as R1.
    rewrite (get_R _ _ k R1).
    destruct (in_u 128 _); cbn [fst snd].
    + split; [now apply get_mut_R|]. auto.
    + auto.
  - rewrite (get_R m t K_CLOCKS HR). cbn. auto.
  - pose proof (get_mut_R m t K_CLOCKS (fun v => v) HR) as R1.
    rewrite (get_R _ _ K_CLOCKS R1).
    destruct (0 <? _); cbn [fst snd].
    + split; [now apply get_mut_R|]. auto.
    + auto.
  - rewrite (get_R m t K_OTHER HR). cbn. auto.
  - pose proof (get_mut_R m t K_OTHER (fun v => v) HR) as R1.
    rewrite (get_R _ _ K_OTHER R1).
    destruct (in_u 64 _); cbn [fst snd].
    + split; [now apply get_mut_R|]. auto.
    + auto.
  - pose proof (get_mut_R m t K_OTHER (fun v => v) HR) as R1.
    rewrite (get_R _ _ K_OTHER R1).
    destruct (in_u 64 _); cbn [fst snd].
    + split; [now apply get_mut_R|]. auto.
    + auto.
  - rewrite (get_R m t K_OTHER HR). cbn. auto.
  - cbn [fst snd]. split; [now apply get_mut_R|]. auto.
  - destruct HR as (I & HS & HW & Hn). cbn. rewrite Hn. repeat split; auto.
Qed.

Lemma gacts_sim now acts : forall m t, R m t ->
  R (fst (gacts bstate get get_mut brev now m acts)) (fst (gacts tstate tget tget_mut tn now t acts)) /\
  snd (gacts bstate get get_mut brev now m acts) = snd (gacts tstate tget tget_mut tn now t acts) /\
  storage (fst (gacts bstate get get_mut brev now m acts)) = storage m /\
  brev (fst (gacts bstate get get_mut brev now m acts)) = brev m.
Proof.
  induction acts as [|a r IH]; intros m t HR; cbn [gacts].
  - cbn. auto.
  - destruct (gstep_sim now m t a HR) as (R1 & O1 & S1 & B1). unfold astep in *.
    destruct (gstep bstate get get_mut brev now m a) as [m1 o1].
    destruct (gstep tstate tget tget_mut tn now t a) as [t1 o1'].
    cbn [fst snd] in *.
    destruct (IH m1 t1 R1) as (R2 & O2 & S2 & B2).
    destruct (gacts bstate get get_mut brev now m1 r) as [m2 os].
    destruct (gacts tstate tget tget_mut tn now t1 r) as [t2 os'].
    cbn [fst snd] in *. split; [exact R2|]. split; [rewrite O1, O2; reflexivity|].
    split; [rewrite S2; exact S1 | rewrite B2; exact B1].
Qed.

(* ---------------------------------------------------------------- commit *)
Lemma commit_keys_spec m ks : forall st k,
  commit_keys m ks st k = if existsb (Z.eqb k) ks && dirty m k then buffer m k else st k.
Proof.
  induction ks as [|j r IH]; intros st k; cbn [commit_keys existsb].
  - reflexivity.
  - rewrite IH. destruct (Z.eqb_spec k j) as [->|N]; cbn [orb].
    + destruct (dirty m j) eqn:D.
      * rewrite Bool.andb_true_r. destruct (existsb (Z.eqb j) r); cbn; [reflexivity|].
        unfold upd. now rewrite Z.eqb_refl.
      * rewrite Bool.andb_false_r. reflexivity.
    + destruct (existsb (Z.eqb k) r && dirty m k); [reflexivity|].
      destruct (dirty m j); [|reflexivity]. unfold upd. destruct (Z.eqb_spec k j); [contradiction|reflexivity].
Qed.

Lemma all_keys_spec k : existsb (Z.eqb k) all_keys = in_keys k.
Proof.
  unfold in_keys. destruct (Z.leb_spec 0 k); destruct (Z.ltb_spec k 18); cbn [andb].
  - assert (H1 : k = 0 \/ k = 1 \/ k = 2 \/ k = 3 \/ k = 4 \/ k = 5 \/ k = 6 \/ k = 7 \/ k = 8 \/ k = 9 \/
                 k = 10 \/ k = 11 \/ k = 12 \/ k = 13 \/ k = 14 \/ k = 15 \/ k = 16 \/ k = 17) by lia.
    repeat (destruct H1 as [->|H1]; [reflexivity|]). subst. reflexivity.
  - cbn. repeat match goal with |- context [k =? ?c] => replace (k =? c) with false by (symmetry; apply Z.eqb_neq; lia) end. reflexivity.
  - cbn. repeat match goal with |- context [k =? ?c] => replace (k =? c) with false by (symmetry; apply Z.eqb_neq; lia) end. reflexivity.
  - cbn. repeat match goal with |- context [k =? ?c] => replace (k =? c) with false by (symmetry; apply Z.eqb_neq; lia) end. reflexivity.
Qed.

Lemma commit_storage m k :
  storage (commit m) k = if in_keys k && dirty m k then buffer m k else storage m k.
Proof. unfold commit. cbn [storage]. rewrite commit_keys_spec. now rewrite all_keys_spec. Qed.

Lemma R_commit m t : R m t -> R (commit m) (tcommit t).
Proof.
  intros (I & HS & HW & Hn). split; [|split; [|split]].
  - exact I.
  - intros k. cbn [tcommit tS]. rewrite commit_storage. rewrite HW. unfold absW.
    destruct (in_keys k); cbn [andb]; [|apply HS].
    destruct (dirty m k); [reflexivity|apply HS].
  - intros k. cbn. apply HW.
  - exact Hn.
Qed.

(* ---------------------------------------------------------------- operations and histories *)
Lemma run_op_sim now m t acts cm : R m t -> 0 <= brev m -> brev m + 1 < 2 ^ 64 ->
  exists m', run_op now m acts cm = Ok (m', snd (trun_op now t acts cm)) /\
             R m' (fst (trun_op now t acts cm)) /\ brev m' = brev m + 1 /\
             (cm = false -> storage m' = storage m).
Proof.
  intros HR H0 Hb. unfold run_op, trun_op. rewrite (start_ok m Hb H0). cbn [rbind].
  set (m0 := mkb (storage m) (buffer m) (brev m + 1)).
  assert (R0 : R m0 (tstart t)) by (apply (R_start m t m0 HR); apply start_ok; assumption).
  destruct (gacts_sim now acts m0 (tstart t) R0) as (R1 & O1 & S1 & B1).
  destruct (gacts bstate get get_mut brev now m0 acts) as [m1 os].
  destruct (gacts tstate tget tget_mut tn now (tstart t) acts) as [t1 os'].
  cbn [fst snd] in *. subst os'.
  destruct cm.
  - exists (commit m1). split; [reflexivity|]. split; [now apply R_commit|]. split; [exact B1|]. discriminate.
  - exists m1. split; [reflexivity|]. split; [exact R1|]. split; [exact B1|]. intros _. exact S1.
Qed.

Fixpoint n_ops (h : list hitem) : Z :=
  match h with [] => 0 | HSetTime _ :: r => n_ops r | HOp _ _ :: r => 1 + n_ops r end.

Lemma n_ops_nonneg h : 0 <= n_ops h.
Proof. induction h as [|[ts|a c] r IH]; cbn [n_ops]; lia. Qed.

Lemma run_hist_sim h : forall now m t, R m t -> 0 <= brev m -> brev m + n_ops h < 2 ^ 64 ->
  exists m', run_hist now m h = Ok (m', snd (trun_hist now t h)) /\ R m' (fst (trun_hist now t h)).
Proof.
  induction h as [|[ts|acts cm] r IH]; intros now m t HR H0 Hb; cbn [run_hist trun_hist n_ops] in *.
  - exists m. auto.
  - apply IH; auto.
  - pose proof (n_ops_nonneg r).
    destruct (run_op_sim now m t acts cm HR H0) as (m1 & E1 & R1 & B1 & _); [lia|].
    rewrite E1. cbn [rbind fst snd].
    destruct (IH now m1 _ R1) as (m2 & E2 & R2); [lia|lia|].
    rewrite E2. cbn [rbind fst snd]. exists m2. auto.
Qed.

(* ---------------------------------------------------------------- direct statements *)
Lemma read_your_writes m k f : get (get_mut m k f) k = f (get m k).
Proof.
  unfold get, get_mut, dirty, upd. cbn. rewrite !Z.eqb_refl. cbn.
  destruct (erev (buffer m k) =? brev m); reflexivity.
Qed.

Lemma write_other_key m k j f : j <> k -> get (get_mut m k f) j = get m j.
Proof.
  intros N. unfold get, get_mut, dirty, upd. cbn. destruct (Z.eqb_spec j k); [contradiction|reflexivity].
Qed.

Lemma no_leak m m' : inv m -> start m = Ok m' -> forall k, get m' k = ev (storage m k).
Proof.
  intros I E k. destruct (start_clean m m' I E) as (Es & _ & _ & _ & D).
  unfold get. rewrite D, Es. reflexivity.
Qed.

Lemma commit_exact m k : in_keys k = true ->
  ev (storage (commit m) k) = match absW m k with Some v => v | None => ev (storage m k) end.
Proof.
  intros K. rewrite commit_storage, K. cbn [andb]. unfold absW. destruct (dirty m k); reflexivity.
Qed.

Lemma commit_untouched m k : dirty m k = false -> storage (commit m) k = storage m k.
Proof. intros D. rewrite commit_storage, D. now rewrite Bool.andb_false_r. Qed.

(* ---------------------------------------------------------------- mint / burn deferral *)

(* independent account of what a list of requests amounts to *)
Fixpoint lm_sums (sup tm tb : Z) (acts : list lact) : Z * Z :=
  match acts with
  | [] => (tm, tb)
  | LMint amt :: r =>
      if in_u 64 amt && (in_u 64 (tm + amt) && in_u 64 (sup + (tm + amt))) then lm_sums sup (tm + amt) tb r
      else lm_sums sup tm tb r
  | LBurn amt :: r =>
      if in_u 64 amt && (in_u 64 (tb + amt) && in_u 64 (sup - (tb + amt))) then lm_sums sup tm (tb + amt) r
      else lm_sums sup tm tb r
  | LSupply :: r => lm_sums sup tm tb r
  end.

Lemma lm_run_sums acts : forall l,
  fst (lm_run l acts) =
    mklm (supply l) (fst (lm_sums (supply l) (to_mint l) (to_burn l) acts))
                    (snd (lm_sums (supply l) (to_mint l) (to_burn l) acts)).
Proof.
  induction acts as [|a r IH]; intros [sup tm tb]; cbn [lm_run lm_sums supply to_mint to_burn].
  - reflexivity.
  - destruct a as [amt|amt|]; cbn [lm_step].
    + unfold lm_mint. cbn [supply to_mint to_burn].
      destruct (in_u 64 amt); cbn [andb].
      * destruct (in_u 64 (tm + amt) && in_u 64 (sup + (tm + amt))).
        -- specialize (IH (mklm sup (tm + amt) tb)). destruct (lm_run (mklm sup (tm + amt) tb) r). exact IH.
        -- specialize (IH (mklm sup tm tb)). destruct (lm_run (mklm sup tm tb) r). exact IH.
      * specialize (IH (mklm sup tm tb)). destruct (lm_run (mklm sup tm tb) r). exact IH.
    + unfold lm_burn. cbn [supply to_mint to_burn].
      destruct (in_u 64 amt); cbn [andb].
      * destruct (in_u 64 (tb + amt) && in_u 64 (sup - (tb + amt))).
        -- specialize (IH (mklm sup tm (tb + amt))). destruct (lm_run (mklm sup tm (tb + amt)) r). exact IH.
        -- specialize (IH (mklm sup tm tb)). destruct (lm_run (mklm sup tm tb) r). exact IH.
      * specialize (IH (mklm sup tm tb)). destruct (lm_run (mklm sup tm tb) r). exact IH.
    + specialize (IH (mklm sup tm tb)). destruct (lm_run (mklm sup tm tb) r). exact IH.
Qed.

Lemma in_u64 x : in_u 64 x = true <-> 0 <= x < 2 ^ 64.
Proof. unfold in_u. rewrite andb_true_iff, Z.leb_le, Z.ltb_lt. tauto. Qed.

Lemma lm_sums_bounds acts : forall sup tm tb, 0 <= tm -> 0 <= tb -> sup + tm < 2 ^ 64 -> tb <= sup ->
  let '(tm', tb') := lm_sums sup tm tb acts in
  tm <= tm' /\ tb <= tb' /\ sup + tm' < 2 ^ 64 /\ tb' <= sup.
Proof.
  induction acts as [|a r IH]; intros sup tm tb H1 H2 H3 H4; cbn [lm_sums].
  - lia.
  - destruct a as [amt|amt|].
    + destruct (in_u 64 amt && (in_u 64 (tm + amt) && in_u 64 (sup + (tm + amt)))) eqn:C.
      * apply andb_prop in C as [C1 C]. apply andb_prop in C as [C2 C3].
        apply in_u64 in C1, C2, C3.
        specialize (IH sup (tm + amt) tb). destruct (lm_sums sup (tm + amt) tb r). lia.
      * apply IH; assumption.
    + destruct (in_u 64 amt && (in_u 64 (tb + amt) && in_u 64 (sup - (tb + amt)))) eqn:C.
      * apply andb_prop in C as [C1 C]. apply andb_prop in C as [C2 C3].
        apply in_u64 in C1, C2, C3.
        specialize (IH sup tm (tb + amt)). destruct (lm_sums sup tm (tb + amt) r). lia.
      * apply IH; assumption.
    + apply IH; assumption.
Qed.

(* the deferral: the operation only accumulates; an abandoned operation reaches the token
   program with nothing; a committed one mints / burns exactly the accumulated totals, and the
   resulting supply stays a u64 *)
Lemma mint_burn_deferred acts sup : 0 <= sup < 2 ^ 64 ->
  let l := fst (lm_run (mklm sup 0 0) acts) in
  supply l = sup /\
  (to_mint l, to_burn l) = lm_sums sup 0 0 acts /\
  lm_cpis l false = [] /\ lm_finish l false = sup /\
  lm_finish l true = sup + to_mint l - to_burn l /\ 0 <= lm_finish l true < 2 ^ 64.
Proof.
  intros Hs. cbn zeta. rewrite (lm_run_sums acts (mklm sup 0 0)). cbn [supply to_mint to_burn lm_cpis lm_finish].
  pose proof (lm_sums_bounds acts sup 0 0) as B.
  destruct (lm_sums sup 0 0 acts) as [tm tb]. cbn [fst snd].
  assert (B' : 0 <= tm /\ 0 <= tb /\ sup + tm < 2 ^ 64 /\ tb <= sup) by (apply B; lia).
  repeat split; try reflexivity; lia.
Qed.
