(* C45 — lemmas *)
From GV Require Import lib.Base lib.DivLemmas C01.Model C01.Proofs C45.Model.
Open Scope Z_scope.

Ltac inv H := inversion H; subst; clear H.

Lemma W_pos : 1 <= W.
Proof. unfold W. lia. Qed.

(* ------------------------------------------------------------------ composition *)
Definition grun (g : glv) (ops : list gop) : glv :=
  fold_left (fun g o => match gstep g o with Ok g' => g' | Err _ => g end) ops g.

(* all accounts ever shown for one market token agree on its tokens (Market.meta is immutable and the
   market address is derived from the market token) *)
Definition consistent (accts : list macct) : Prop :=
  forall a b, In a accts -> In b accts -> ma_mt a = ma_mt b -> ma_long a = ma_long b /\ ma_short a = ma_short b.

Definition inserted (ops : list gop) : list macct :=
  flat_map (fun o => match o with GInsert m => [m] | _ => [] end) ops.

Definition ginv (accts : list macct) (g : glv) : Prop :=
  (forall c, In c (g_markets g) ->
     exists a, In a accts /\ ma_mt a = c_mt c /\ ma_long a = g_long g /\ ma_short a = g_short g) /\
  NoDup (map c_mt (g_markets g)).

Lemma lookup_In l mt c : lookup l mt = Some c -> In c l /\ c_mt c = mt.
Proof.
  induction l; cbn; [discriminate|]. destruct (c_mt a =? mt) eqn:E.
  - intro H. inv H. apply Z.eqb_eq in E. auto.
  - intro H. destruct (IHl H). auto.
Qed.

Lemma lookup_None l mt : lookup l mt = None -> ~ In mt (map c_mt l).
Proof.
  induction l; cbn; auto. destruct (c_mt a =? mt) eqn:E; [discriminate|].
  apply Z.eqb_neq in E. intros H [H1|H1]; auto. apply IHl; auto.
Qed.

Lemma replace_mts l c' : map c_mt (replace l c') = map c_mt l.
Proof.
  induction l; cbn; auto. destruct (c_mt a =? c_mt c') eqn:E; cbn; [|congruence].
  apply Z.eqb_eq in E. congruence.
Qed.

Lemma replace_In l c' x : In x (replace l c') -> x = c' \/ In x l.
Proof.
  induction l; cbn; auto. destruct (c_mt a =? c_mt c'); cbn; intros [H|H]; auto.
  destruct (IHl H); auto.
Qed.

Lemma remove_In l mt x : In x (remove l mt) -> In x l.
Proof.
  induction l; cbn; auto. destruct (c_mt a =? mt); cbn; auto. intros [H|H]; auto.
Qed.

Lemma remove_NoDup l mt : NoDup (map c_mt l) -> NoDup (map c_mt (remove l mt)).
Proof.
  induction l; cbn; auto. intro H. inv H. destruct (c_mt a =? mt); auto. cbn.
  constructor; auto. intro Hin. apply H2. apply in_map_iff in Hin as (x & Hx & Hi).
  apply in_map_iff. exists x. split; auto. eapply remove_In; eauto.
Qed.

Lemma NoDup_snoc (l : list Z) x : NoDup l -> ~ In x l -> NoDup (l ++ [x]).
Proof.
  induction l; cbn; intros H Hn.
  - constructor; auto; constructor.
  - inv H. constructor.
    + intro Hin. apply in_app_or in Hin as [Hin|[<-|[]]]; auto.
    + apply IHl; auto.
Qed.

Lemma ginv_mono accts accts' g : incl accts accts' -> ginv accts g -> ginv accts' g.
Proof.
  intros Hi [H1 H2]. split; auto. intros c Hc. destruct (H1 c Hc) as (a & Ha & E). exists a. auto.
Qed.

Lemma process_markets_spec : forall ms toks seen toks' seen',
  process_markets toks seen ms = Ok (toks', seen') ->
  (forall l s, toks = Some (l, s) -> toks' = Some (l, s)) /\
  (ms <> [] -> toks' <> None) /\
  (forall m, In m ms -> toks' = Some (ma_long m, ma_short m)) /\
  (forall x, In x seen' <-> In x seen \/ In x (map ma_mt ms)) /\
  (NoDup seen -> NoDup seen').
Proof.
  induction ms as [|m r IH]; intros toks seen toks' seen' H; cbn [process_markets] in H.
  - inv H. split; [auto|]. split; [intro Hc; congruence|]. split; [intros m []|].
    split; [intro x; cbn; tauto|auto].
  - destruct (ma_store_ok m); cbn [negb] in H; [|discriminate].
    destruct (ma_enabled m); cbn [negb] in H; [|discriminate].
    unfold rbind in H.
    destruct (match toks with
              | Some (l, s) => if negb (l =? ma_long m) then Err 2 else if negb (s =? ma_short m) then Err 2 else Ok (l, s)
              | None => Ok (ma_long m, ma_short m) end) as [t|] eqn:Et; [|discriminate].
    destruct (existsb (Z.eqb (ma_mt m)) seen) eqn:Es; [discriminate|].
    apply IH in H as (A & B & C & D & E).
    assert (Ht : t = (ma_long m, ma_short m) /\ (forall l s, toks = Some (l, s) -> t = (l, s))).
    { destruct toks as [[l s]|].
      - destruct (l =? ma_long m) eqn:E1; cbn [negb] in Et; [|discriminate].
        destruct (s =? ma_short m) eqn:E2; cbn [negb] in Et; [|discriminate].
        apply Z.eqb_eq in E1, E2. inv Et. split; auto. intros l' s' H. inv H. auto.
      - inv Et. split; auto. discriminate. }
    destruct Ht as [Ht1 Ht2].
    split; [|split; [|split; [|split]]].
    + intros l s Hl. rewrite <- (Ht2 _ _ Hl). destruct t. apply A. auto.
    + intros _. destruct t as [l s]. rewrite (A l s eq_refl). discriminate.
    + intros x [<-|Hx]; auto. rewrite <- Ht1. destruct t as [l s]. apply A. auto.
    + intro x. rewrite D. cbn. tauto.
    + intro Hn. apply E. constructor; auto. intro Hin.
      assert (existsb (Z.eqb (ma_mt m)) seen = true); [|congruence].
      apply existsb_exists. exists (ma_mt m). split; auto. apply Z.eqb_refl.
Qed.

Lemma glv_init_inv ms g : glv_init ms = Ok g -> ginv ms g /\ ms <> [].
Proof.
  unfold glv_init, rbind. intro H.
  destruct (process_markets None [] ms) as [[toks seen]|] eqn:E; [|discriminate].
  destruct toks as [[l s]|]; [|discriminate].
  destruct (MAX_MARKETS <? Z.of_nat (length seen)); [discriminate|]. inv H.
  assert (Hne : ms <> []) by (intro Hc; subst ms; cbn in E; discriminate).
  apply process_markets_spec in E as (_ & B & C & D & N).
  split; [|exact Hne].
  split; cbn [g_markets g_long g_short].
    + intros c Hc. apply in_map_iff in Hc as (mt & <- & Hmt). apply in_rev in Hmt.
      apply D in Hmt as [[]|Hmt]. apply in_map_iff in Hmt as (a & Ha & Hin).
      exists a. cbn. specialize (C a Hin). inv C. auto.
    + rewrite map_map. cbn. rewrite map_id. apply NoDup_rev. apply N. constructor.
Qed.

Lemma gstep_inv accts g o g' :
  ginv accts g -> gstep g o = Ok g' ->
  ginv (match o with GInsert m => m :: accts | _ => accts end) g' /\
  g_long g' = g_long g /\ g_short g' = g_short g.
Proof.
  intros [H1 H2] H. destruct o; cbn [gstep] in H.
  - unfold glv_insert in H.
    destruct (ma_store_ok m); cbn [negb] in H; [|discriminate].
    destruct (ma_enabled m); cbn [negb] in H; [|discriminate].
    destruct (ma_long m =? g_long g) eqn:El; cbn [negb] in H; [|discriminate].
    destruct (ma_short m =? g_short g) eqn:Es; cbn [negb] in H; [|discriminate].
    destruct (lookup (g_markets g) (ma_mt m)) eqn:Ek; [discriminate|].
    destruct (MAX_MARKETS <=? Z.of_nat (length (g_markets g))); [discriminate|]. inv H.
    apply Z.eqb_eq in El, Es. unfold ginv. cbn [g_markets g_long g_short]. split; auto. split.
    + intros c Hc. apply in_app_or in Hc as [Hc|[<-|[]]].
      * destruct (H1 c Hc) as (a & Ha & E). exists a. split; [right; auto|auto].
      * exists m. cbn. split; [left; auto|auto].
    + rewrite map_app. cbn. apply NoDup_snoc; auto. eapply lookup_None; eauto.
  - unfold glv_remove in H. destruct (lookup (g_markets g) mt) eqn:Ek; [|discriminate].
    destruct (c_deposit_allowed g0); [discriminate|]. inv H. unfold ginv. cbn [g_markets g_long g_short]. split; auto. split.
    + intros c Hc. apply H1. eapply remove_In; eauto.
    + apply remove_NoDup. auto.
  - unfold glv_update_config in H. destruct (lookup (g_markets g) mt) eqn:Ek; [|discriminate]. inv H.
    apply lookup_In in Ek as [Hin Hmt]. unfold ginv. cbn [g_markets g_long g_short]. split; auto. split.
    + intros c Hc. apply replace_In in Hc as [->|Hc]; auto.
      destruct (H1 g0 Hin) as (a & Ha & E1 & E2). exists a. cbn. split; auto. split; auto. congruence.
    + rewrite replace_mts. auto.
  - unfold glv_update_balance in H. destruct (lookup (g_markets g) mt) eqn:Ek; [|discriminate]. inv H.
    apply lookup_In in Ek as [Hin Hmt]. unfold ginv. cbn [g_markets g_long g_short]. split; auto. split.
    + intros c Hc. apply replace_In in Hc as [->|Hc]; auto.
      destruct (H1 g0 Hin) as (a & Ha & E1 & E2). exists a. cbn. split; auto. split; auto. congruence.
    + rewrite replace_mts. auto.
Qed.

Lemma grun_cons g o r : grun g (o :: r) = grun (match gstep g o with Ok g' => g' | Err _ => g end) r.
Proof. reflexivity. Qed.

Lemma inserted_cons o r : inserted (o :: r) = (match o with GInsert m => [m] | _ => [] end) ++ inserted r.
Proof. reflexivity. Qed.

Lemma grun_inv ops : forall accts g,
  ginv accts g -> ginv (rev (inserted ops) ++ accts) (grun g ops) /\
                  g_long (grun g ops) = g_long g /\ g_short (grun g ops) = g_short g.
Proof.
  induction ops as [|o r IH]; intros accts g I.
  - cbn. auto.
  - rewrite grun_cons, inserted_cons. destruct (gstep g o) as [g'|] eqn:E.
    + apply (gstep_inv accts) in E as (I' & L & S); auto.
      destruct (IH _ _ I') as (I2 & L2 & S2). split; [|split; congruence].
      destruct o; cbn [app rev]; try exact I2.
      rewrite <- app_assoc. cbn [app]. exact I2.
    + destruct (IH accts g I) as (I2 & L2 & S2). split; auto.
      eapply ginv_mono; [|exact I2]. intros x Hx.
      apply in_app_or in Hx as [Hx|Hx]; apply in_or_app; auto. left.
      rewrite rev_app_distr. apply in_or_app. auto.
Qed.

(* every market of the GLV has the GLV's tokens: under consistency of the accounts, any account shown for a
   member market token carries exactly the GLV's long and short token *)
Theorem markets_share_tokens init ops g0 :
  glv_init init = Ok g0 -> consistent (rev (inserted ops) ++ init) ->
  let g := grun g0 ops in
  NoDup (map c_mt (g_markets g)) /\
  forall c a, In c (g_markets g) -> In a (rev (inserted ops) ++ init) -> ma_mt a = c_mt c ->
              ma_long a = g_long g /\ ma_short a = g_short g.
Proof.
  intros Hi Hc g. apply glv_init_inv in Hi as [I _].
  destruct (grun_inv ops init g0 I) as ((H1 & H2) & L & S). split; auto.
  intros c a Hin Ha Hmt. destruct (H1 c Hin) as (b & Hb & E1 & E2 & E3).
  destruct (Hc a b Ha Hb) as [X Y]; [congruence|]. fold g in E2, E3. split; congruence.
Qed.

(* ------------------------------------------------------------------ limits *)
Lemma mt_to_usd_val amount pool supply r :
  0 <= amount -> 0 <= pool -> 0 <= supply ->
  mt_to_usd W amount pool supply = Some r -> supply <> 0 /\ r = pool * amount / supply.
Proof.
  intros Ha Hp Hs H. apply (mt_to_usd_exact W W_pos) in H as [H1 H2]; auto. split; auto.
  apply Z.div_unique with (r := pool * amount - supply * r); lia.
Qed.

Lemma validate_balance_ok c nb pv supply :
  0 <= c_max_amount c -> 0 <= c_max_value c -> 0 <= nb -> 0 <= supply ->
  validate_balance c nb pv supply = Ok tt ->
  (c_max_amount c = 0 \/ nb <= c_max_amount c) /\
  (c_max_value c = 0 \/ (0 <= pv /\ supply <> 0 /\ pv * nb / supply <= c_max_value c)).
Proof.
  intros Ha Hv Hn Hs H. unfold validate_balance in H.
  destruct ((c_max_amount c =? 0) && (c_max_value c =? 0)) eqn:E0.
  { apply Bool.andb_true_iff in E0 as [E1 E2]. apply Z.eqb_eq in E1, E2. auto. }
  destruct ((0 <? c_max_amount c) && (c_max_amount c <? nb)) eqn:E1; [discriminate|].
  split.
  - destruct (Z.eq_dec (c_max_amount c) 0); auto. right.
    apply Bool.andb_false_iff in E1 as [E1|E1]; [apply Z.ltb_ge in E1; lia|apply Z.ltb_ge in E1; lia].
  - destruct (0 <? c_max_value c) eqn:E2; [|apply Z.ltb_ge in E2; left; lia].
    destruct (pv <? 0) eqn:E3; [discriminate|]. apply Z.ltb_ge in E3.
    destruct (mt_to_usd W nb (Z.abs pv) supply) eqn:E4; [|discriminate].
    destruct (c_max_value c <? z) eqn:E5; [discriminate|]. apply Z.ltb_ge in E5.
    rewrite Z.abs_eq in E4 by lia. apply mt_to_usd_val in E4 as [X ->]; auto.
Qed.

(* ------------------------------------------------------------------ pricing *)
Definition val (p s b : Z) : Z := p * b / s.

Lemma glv_value_for_market_val p s b v :
  0 <= p -> 0 < s -> 0 <= b -> glv_value_for_market p s b = Ok v -> v = val p s b.
Proof.
  intros Hp Hs Hb H. unfold glv_value_for_market in H.
  destruct (b =? 0) eqn:E.
  - apply Z.eqb_eq in E. subst. inv H. unfold val. rewrite Z.mul_0_r. reflexivity.
  - destruct (p <? 0) eqn:E1; [apply Z.ltb_lt in E1; lia|].
    destruct (mt_to_usd W b (Z.abs p) s) eqn:E2; [|discriminate]. inv H.
    rewrite Z.abs_eq in E2 by lia. apply mt_to_usd_val in E2 as [_ ->]; auto; lia.
Qed.

Definition pm_ok (m : pm) : Prop :=
  0 < pm_supply m /\ 0 <= pm_balance m /\ 0 <= pm_pv_min m <= pm_pv_max m.

Fixpoint sum_val (mx : bool) (ms : list pm) : Z :=
  match ms with
  | [] => 0
  | m :: r => val (if mx then pm_pv_max m else pm_pv_min m) (pm_supply m) (pm_balance m) + sum_val mx r
  end.

Lemma glv_value_acc_val mx : forall ms acc r,
  Forall pm_ok ms -> glv_value_acc mx acc ms = Ok r -> r = acc + sum_val mx ms.
Proof.
  induction ms as [|m rest IH]; intros acc r Hok H; cbn [glv_value_acc sum_val] in H |- *.
  - inv H. lia.
  - inv Hok. destruct H2 as (Hs & Hb & Hp). unfold rbind in H.
    destruct (glv_value_for_market (if mx then pm_pv_max m else pm_pv_min m) (pm_supply m) (pm_balance m)) as [z|] eqn:E;
      [|discriminate].
    destruct (2 ^ W <=? acc + z); [discriminate|].
    apply glv_value_for_market_val in E; auto; [|destruct mx; lia].
    apply IH in H; auto. lia.
Qed.

Lemma val_mono p1 p2 s b : 0 < s -> 0 <= b -> p1 <= p2 -> val p1 s b <= val p2 s b.
Proof. intros. unfold val. apply Z.div_le_mono; auto. nia. Qed.

Lemma sum_val_min_le_max ms : Forall pm_ok ms -> sum_val false ms <= sum_val true ms.
Proof.
  induction 1; cbn; [lia|]. destruct H as (Hs & Hb & Hp).
  pose proof (val_mono (pm_pv_min x) (pm_pv_max x) (pm_supply x) (pm_balance x) Hs Hb ltac:(lia)). lia.
Qed.

Lemma sum_val_nonneg mx ms : Forall pm_ok ms -> 0 <= sum_val mx ms.
Proof.
  induction 1; cbn; [lia|]. destruct H as (Hs & Hb & Hp).
  assert (0 <= val (if mx then pm_pv_max x else pm_pv_min x) (pm_supply x) (pm_balance x)).
  { unfold val. apply Z.div_pos; auto. destruct mx; nia. }
  lia.
Qed.

Lemma div_add_le1 a b c : 0 < c -> (a + b) / c <= a / c + b / c + 1.
Proof.
  intro Hc. apply Z.lt_succ_r. apply Z.div_lt_upper_bound; auto.
  pose proof (Z.div_mod a c ltac:(lia)). pose proof (Z.div_mod b c ltac:(lia)).
  pose proof (Z.mod_pos_bound a c Hc). pose proof (Z.mod_pos_bound b c Hc).
  replace (c * Z.succ (a / c + b / c + 1)) with (c * (a / c) + c * (b / c) + 2 * c) by ring. lia.
Qed.

(* adding [d] tokens to one market raises the minimised GLV value by at most val(d) + 1 *)
Lemma sum_val_add_balance ms : forall mt d m,
  Forall pm_ok ms -> 0 <= d -> find_pm ms mt = Some m ->
  sum_val false (add_balance ms mt d) <= sum_val false ms + val (pm_pv_min m) (pm_supply m) d + 1 /\
  Forall pm_ok (add_balance ms mt d) /\
  find_pm (add_balance ms mt d) mt = Some (mkPM mt (pm_balance m + d) (pm_supply m) (pm_pv_min m) (pm_pv_max m)).
Proof.
  induction ms as [|x rest IH]; intros mt d m Hok Hd Hf; cbn in Hf; [discriminate|].
  inv Hok. cbn [add_balance]. destruct (pm_mt x =? mt) eqn:E.
  - inv Hf. destruct H1 as (Hs & Hb & Hp). cbn [sum_val find_pm pm_mt pm_balance pm_supply pm_pv_min pm_pv_max].
    rewrite Z.eqb_refl. split; [|split; auto].
    + unfold val.
      replace (pm_pv_min m * (pm_balance m + d)) with (pm_pv_min m * pm_balance m + pm_pv_min m * d) by lia.
      pose proof (div_add_le1 (pm_pv_min m * pm_balance m) (pm_pv_min m * d) (pm_supply m) Hs) as Y.
      lia.
    + constructor; auto. unfold pm_ok. cbn. repeat split; try lia.
  - cbn [sum_val find_pm]. rewrite E. destruct (IH mt d m H2 Hd Hf) as (A & B & C).
    split; [lia|]. split; auto.
Qed.

(* the arithmetic heart of the round trip *)
Lemma round_trip_core S g Gmin Gmax G' V :
  0 < S -> 0 <= g -> 0 <= Gmin <= Gmax -> 0 <= V ->
  Gmax * g <= S * V -> G' <= Gmin + V + 1 -> 0 <= G' ->
  G' * g / (S + g) <= V.
Proof.
  intros HS Hg HG HV H1 H2 H3.
  apply Z.lt_succ_r. apply Z.div_lt_upper_bound; [lia|]. nia.
Qed.

Theorem round_trip_no_gain c c' ms mt amount S pv_wd_max d g nb back m :
  Forall pm_ok ms -> find_pm ms mt = Some m -> pm_pv_min m <= pv_wd_max ->
  0 < S -> 0 < d -> 0 <= amount ->
  glv_deposit_price c ms mt amount S d = Ok (g, nb) ->
  glv_withdraw_price c' (add_balance ms mt amount) mt g (S + g) pv_wd_max d = Ok back ->
  back <= amount.
Proof.
  intros Hok Hf Hcross HS Hd Ha Hdep Hwd.
  assert (Hm : pm_ok m).
  { clear - Hok Hf. induction ms; cbn in Hf; [discriminate|]. inv Hok.
    destruct (pm_mt a =? mt); [inv Hf; auto|auto]. }
  destruct Hm as (Hs & Hb & Hp).
  (* deposit *)
  unfold glv_deposit_price in Hdep. rewrite Hf in Hdep.
  destruct (U64_MAX <? c_balance c + amount); [discriminate|]. unfold rbind in Hdep.
  destruct (glv_value true ms) as [gv|] eqn:Egv; [|discriminate].
  destruct (glv_value_for_market (pm_pv_min m) (pm_supply m) amount) as [recv|] eqn:Er; [|discriminate].
  destruct (glv_value_for_market (pm_pv_max m) (pm_supply m) amount); [|discriminate].
  destruct (validate_balance c (c_balance c + amount) (pm_pv_max m) (pm_supply m)); [|discriminate].
  destruct (usd_to_mt W recv gv S d) as [minted|] eqn:Em; [|discriminate]. cbn [of_opt] in Hdep.
  destruct (U64_MAX <? minted); [discriminate|]. inv Hdep.
  apply glv_value_for_market_val in Er; auto; [|lia]. subst recv.
  unfold glv_value in Egv. apply glv_value_acc_val in Egv; auto. cbn in Egv.
  pose proof (sum_val_nonneg true ms Hok) as Hgv0.
  assert (HV0 : 0 <= val (pm_pv_min m) (pm_supply m) amount).
  { unfold val. apply Z.div_pos; auto. nia. }
  apply (usd_to_mt_cases W W_pos) in Em as (_ & Hcases); try lia.
  destruct Hcases as [(X & _)|[(X & _)|(_ & Hgv & Hfl & _)]]; try lia.
  (* withdrawal *)
  destruct (sum_val_add_balance ms mt amount m Hok Ha Hf) as (Hadd & Hok' & Hf').
  unfold glv_withdraw_price in Hwd. rewrite Hf' in Hwd. unfold rbind in Hwd.
  cbn [pm_supply pm_balance pm_pv_min pm_pv_max pm_mt] in Hwd.
  destruct (glv_value false (add_balance ms mt amount)) as [gv'|] eqn:Egv'; [|discriminate].
  destruct (mt_to_usd W g gv' (S + g)) as [value|] eqn:Ev; [|discriminate]. cbn [of_opt] in Hwd.
  destruct (market_token_amount_for_glv_value pv_wd_max (pm_supply m) value d) as [amt|] eqn:Eb; [|discriminate].
  destruct (U64_MAX <? amt); [discriminate|]. destruct (c_balance c' <? amt); [discriminate|].
  injection Hwd as <-.
  unfold glv_value in Egv'. apply glv_value_acc_val in Egv'; auto. cbn in Egv'.
  pose proof (sum_val_nonneg false (add_balance ms mt amount) Hok') as Hgv'0.
  assert (Hg0 : 0 <= g).
  { destruct (Z_lt_dec g 0); [|lia]. exfalso. nia. }
  apply mt_to_usd_val in Ev as [_ Ev]; try lia.
  unfold market_token_amount_for_glv_value in Eb.
  destruct (pv_wd_max <? 0) eqn:En; [discriminate|]. apply Z.ltb_ge in En.
  destruct (usd_to_mt W value (Z.abs pv_wd_max) (pm_supply m) d) as [x|] eqn:Ex; [|discriminate].
  cbn [of_opt] in Eb. injection Eb as <-.
  rewrite Z.abs_eq in Ex by lia.
  assert (Hval : value <= val (pm_pv_min m) (pm_supply m) amount).
  { rewrite Ev, Egv'. pose proof (sum_val_min_le_max ms Hok). pose proof (sum_val_nonneg false ms Hok).
    apply round_trip_core with (Gmin := sum_val false ms) (Gmax := sum_val true ms); try lia. }
  assert (Hv0 : 0 <= value).
  { rewrite Ev. apply Z.div_pos; [nia|lia]. }
  apply (usd_to_mt_cases W W_pos) in Ex as (_ & Hc2); try lia.
  destruct Hc2 as [(X & _)|[(X & _)|(_ & Hpw & Hfl2 & _)]]; try lia.
  (* pv_wd * back <= s * value <= s * V <= pv_min * amount <= pv_wd * amount *)
  assert (H1 : pm_supply m * val (pm_pv_min m) (pm_supply m) amount <= pm_pv_min m * amount).
  { unfold val. apply Z.mul_div_le. lia. }
  assert (Hpw0 : 0 < pv_wd_max) by lia.
  apply Z.nlt_ge. intro Hc. nia.
Qed.

(* the deposit leaves the market's GLV balance within the configured limits *)
Theorem deposit_respects_limits c ms mt amount S d g nb m :
  0 <= c_max_amount c -> 0 <= c_max_value c -> 0 <= c_balance c -> 0 <= amount -> 0 <= pm_supply m ->
  find_pm ms mt = Some m ->
  glv_deposit_price c ms mt amount S d = Ok (g, nb) ->
  nb = c_balance c + amount /\ nb <= U64_MAX /\
  (c_max_amount c = 0 \/ nb <= c_max_amount c) /\
  (c_max_value c = 0 \/ (0 <= pm_pv_max m /\ pm_supply m <> 0 /\ pm_pv_max m * nb / pm_supply m <= c_max_value c)).
Proof.
  intros Ha Hv Hb Hamt Hs Hf H. unfold glv_deposit_price in H. rewrite Hf in H.
  destruct (U64_MAX <? c_balance c + amount) eqn:E; [discriminate|]. apply Z.ltb_ge in E. unfold rbind in H.
  destruct (glv_value true ms) as [gv|]; [|discriminate].
  destruct (glv_value_for_market (pm_pv_min m) (pm_supply m) amount) as [rv|]; [|discriminate].
  destruct (glv_value_for_market (pm_pv_max m) (pm_supply m) amount) as [mv|]; [|discriminate].
  destruct (validate_balance c (c_balance c + amount) (pm_pv_max m) (pm_supply m)) as [[]|] eqn:Ev; [|discriminate].
  destruct (usd_to_mt W rv gv S d) as [minted|]; [|discriminate]. cbn [of_opt] in H.
  destruct (U64_MAX <? minted); [discriminate|]. inv H.
  apply validate_balance_ok in Ev; auto; try lia.
Qed.
