(* C45 — GLV composition, balance limits and pricing.  Definitions only.

   Real code modelled:
   * programs/store/src/states/glv.rs   Glv::{process_and_validate_markets_for_init, unchecked_init, insert_market,
                                        unchecked_remove_market, update_market_config, validate_market_token_balance,
                                        update_market_token_balance}, GlvMarketConfig::validate_balance
   * crates/model/src/glv.rs            get_glv_value_for_market, get_market_token_amount_for_glv_value
   * programs/store/src/ops/glv.rs      the pricing part of perform_glv_deposit / perform_glv_withdrawal
                                        (unchecked_get_glv_value, usd_to_market_token_amount, market_token_amount_to_usd)
   The pool values of the markets (gmsol_model pool_value for PnlFactorKind::MaxAfterDeposit /
   MaxAfterWithdrawal, maximised or minimised) are inputs of this model. *)
From GV Require Import lib.Base C01.Model.
Open Scope Z_scope.

(* error codes: 1 InvalidArgument, 2 TokenMintMismatched, 3 NotFound, 4 PreconditionsAreNotMet, 5 AlreadyExist,
   6 ExceedMaxLengthLimit, 7 StoreMismatched, 8 DisabledMarket, 10 ExceedMaxGlvMarketTokenBalanceAmount,
   11 ExceedMaxGlvMarketTokenBalanceValue, 12 GlvNegativeMarketPoolValue, 13 FailedToCalculateGlvValueForMarket,
   14 FailedToCalculateGlvAmountToMint, 15 FailedToCalculateMarketTokenAmountToBurn, 16 TokenAmountOverflow,
   17 NotEnoughTokenAmount, 18 ValueOverflow *)

Definition W : Z := 128.
Definition U64_MAX : Z := 2 ^ 64 - 1.
Definition MAX_MARKETS : Z := 96.

(* a market account as the GLV code sees it *)
Record macct := mkM { ma_mt : Z; ma_long : Z; ma_short : Z; ma_store_ok : bool; ma_enabled : bool }.

Record gconf := mkC { c_mt : Z; c_max_amount : Z; c_max_value : Z; c_balance : Z; c_deposit_allowed : bool }.
Record glv := mkG { g_long : Z; g_short : Z; g_markets : list gconf }.

Fixpoint lookup (l : list gconf) (mt : Z) : option gconf :=
  match l with [] => None | c :: r => if c_mt c =? mt then Some c else lookup r mt end.
Fixpoint replace (l : list gconf) (c' : gconf) : list gconf :=
  match l with [] => [] | c :: r => if c_mt c =? c_mt c' then c' :: r else c :: replace r c' end.
Fixpoint remove (l : list gconf) (mt : Z) : list gconf :=
  match l with [] => [] | c :: r => if c_mt c =? mt then r else c :: remove r mt end.

(* Glv::process_and_validate_markets_for_init: all markets of this store, enabled, same tokens, distinct *)
Fixpoint process_markets (toks : option (Z * Z)) (seen : list Z) (ms : list macct) : res (option (Z * Z) * list Z) :=
  match ms with
  | [] => Ok (toks, seen)
  | m :: r =>
      if negb (ma_store_ok m) then Err 7 else
      if negb (ma_enabled m) then Err 8 else
      t <-- (match toks with
             | Some (l, s) => if negb (l =? ma_long m) then Err 2 else if negb (s =? ma_short m) then Err 2 else Ok (l, s)
             | None => Ok (ma_long m, ma_short m)
             end) ;;
      if existsb (Z.eqb (ma_mt m)) seen then Err 1 else
      process_markets (Some t) (ma_mt m :: seen) r
  end.

(* initialize_glv = process_and_validate_markets_for_init + unchecked_init *)
Definition glv_init (ms : list macct) : res glv :=
  r <-- process_markets None [] ms ;;
  match r with
  | (Some (l, s), mts) =>
      if MAX_MARKETS <? Z.of_nat (length mts) then Err 6 else
      Ok (mkG l s (map (fun mt => mkC mt 0 0 0 false) (rev mts)))
  | (None, _) => Err 1
  end.

(* Glv::insert_market *)
Definition glv_insert (g : glv) (m : macct) : res glv :=
  if negb (ma_store_ok m) then Err 7 else
  if negb (ma_enabled m) then Err 8 else
  if negb (ma_long m =? g_long g) then Err 1 else
  if negb (ma_short m =? g_short g) then Err 1 else
  match lookup (g_markets g) (ma_mt m) with
  | Some _ => Err 5
  | None =>
      if MAX_MARKETS <=? Z.of_nat (length (g_markets g)) then Err 6 else
      Ok (mkG (g_long g) (g_short g) (g_markets g ++ [mkC (ma_mt m) 0 0 0 false]))
  end.

(* Glv::unchecked_remove_market *)
Definition glv_remove (g : glv) (mt : Z) : res glv :=
  match lookup (g_markets g) mt with
  | None => Err 3
  | Some c => if c_deposit_allowed c then Err 4 else Ok (mkG (g_long g) (g_short g) (remove (g_markets g) mt))
  end.

(* Glv::update_market_config *)
Definition glv_update_config (g : glv) (mt : Z) (ma : option Z) (mv : option Z) : res glv :=
  match lookup (g_markets g) mt with
  | None => Err 3
  | Some c =>
      let c' := mkC mt (match ma with Some a => a | None => c_max_amount c end)
                       (match mv with Some v => v | None => c_max_value c end) (c_balance c) (c_deposit_allowed c) in
      Ok (mkG (g_long g) (g_short g) (replace (g_markets g) c'))
  end.

(* GlvMarketConfig::validate_balance *)
Definition validate_balance (c : gconf) (new_balance pool_value supply : Z) : res unit :=
  if (c_max_amount c =? 0) && (c_max_value c =? 0) then Ok tt else
  if (0 <? c_max_amount c) && (c_max_amount c <? new_balance) then Err 10 else
  if 0 <? c_max_value c then
    if pool_value <? 0 then Err 12 else
    match mt_to_usd W new_balance (Z.abs pool_value) supply with
    | None => Err 13
    | Some v => if c_max_value c <? v then Err 11 else Ok tt
    end
  else Ok tt.

Definition glv_validate_balance (g : glv) (mt new_balance pool_value supply : Z) : res unit :=
  match lookup (g_markets g) mt with None => Err 3 | Some c => validate_balance c new_balance pool_value supply end.

Definition glv_update_balance (g : glv) (mt new_balance : Z) : res glv :=
  match lookup (g_markets g) mt with
  | None => Err 3
  | Some c => Ok (mkG (g_long g) (g_short g)
                      (replace (g_markets g) (mkC mt (c_max_amount c) (c_max_value c) new_balance (c_deposit_allowed c))))
  end.

(* ---------- pricing (crates/model/src/glv.rs) ---------- *)
(* value of [balance] market tokens given the market's (signed) pool value and supply *)
Definition glv_value_for_market (pool_value supply balance : Z) : res Z :=
  if balance =? 0 then Ok 0 else
  if pool_value <? 0 then Err 12 else
  of_opt 13 (mt_to_usd W balance (Z.abs pool_value) supply).

Definition market_token_amount_for_glv_value (pool_value supply value divisor : Z) : res Z :=
  if pool_value <? 0 then Err 12 else
  of_opt 15 (usd_to_mt W value (Z.abs pool_value) supply divisor).

(* a GLV market as priced: balance held, supply of the market token, pool values for the deposit kind
   (minimised / maximised) *)
Record pm := mkPM { pm_mt : Z; pm_balance : Z; pm_supply : Z; pm_pv_min : Z; pm_pv_max : Z }.

(* unchecked_get_glv_value: values are accumulated market by market *)
Fixpoint glv_value_acc (maximize : bool) (acc : Z) (ms : list pm) : res Z :=
  match ms with
  | [] => Ok acc
  | m :: r =>
      v <-- glv_value_for_market (if maximize then pm_pv_max m else pm_pv_min m) (pm_supply m) (pm_balance m) ;;
      if 2 ^ W <=? acc + v then Err 18 else glv_value_acc maximize (acc + v) r
  end.
Definition glv_value (maximize : bool) (ms : list pm) : res Z := glv_value_acc maximize 0 ms.

Fixpoint add_balance (ms : list pm) (mt delta : Z) : list pm :=
  match ms with
  | [] => []
  | m :: r => if pm_mt m =? mt then mkPM mt (pm_balance m + delta) (pm_supply m) (pm_pv_min m) (pm_pv_max m) :: r
              else m :: add_balance r mt delta
  end.
Fixpoint find_pm (ms : list pm) (mt : Z) : option pm :=
  match ms with [] => None | m :: r => if pm_mt m =? mt then Some m else find_pm r mt end.

(* pricing part of perform_glv_deposit for [amount] market tokens of market [mt] (no market deposit):
   returns (glv tokens minted, new balance of that market) *)
Definition glv_deposit_price (c : gconf) (ms : list pm) (mt amount glv_supply divisor : Z) : res (Z * Z) :=
  match find_pm ms mt with
  | None => Err 3
  | Some m =>
      let next := c_balance c + amount in
      if U64_MAX <? next then Err 16 else
      gv <-- glv_value true ms ;;
      received <-- glv_value_for_market (pm_pv_min m) (pm_supply m) amount ;;
      (* the maximised evaluation also has to succeed *)
      _ <-- glv_value_for_market (pm_pv_max m) (pm_supply m) amount ;;
      _ <-- validate_balance c next (pm_pv_max m) (pm_supply m) ;;
      minted <-- of_opt 14 (usd_to_mt W received gv glv_supply divisor) ;;
      if U64_MAX <? minted then Err 16 else Ok (minted, next)
  end.

(* pricing part of perform_glv_withdrawal of [g_amount] GLV tokens against market [mt]; [pv_wd_max] is the
   market's maximised pool value for PnlFactorKind::MaxAfterWithdrawal: returns the market tokens taken out *)
Definition glv_withdraw_price (c : gconf) (ms : list pm) (mt g_amount glv_supply pv_wd_max divisor : Z) : res Z :=
  match find_pm ms mt with
  | None => Err 3
  | Some m =>
      gv <-- glv_value false ms ;;
      value <-- of_opt 13 (mt_to_usd W g_amount gv glv_supply) ;;
      amount <-- market_token_amount_for_glv_value pv_wd_max (pm_supply m) value divisor ;;
      if U64_MAX <? amount then Err 16 else
      if c_balance c <? amount then Err 17 else Ok amount
  end.

(* ---------- GLV management history ---------- *)
Inductive gop :=
| GInsert (m : macct)
| GRemove (mt : Z)
| GConfig (mt : Z) (ma mv : option Z)
| GBalance (mt nb : Z).

Definition gstep (g : glv) (o : gop) : res glv :=
  match o with
  | GInsert m => glv_insert g m
  | GRemove mt => glv_remove g mt
  | GConfig mt ma mv => glv_update_config g mt ma mv
  | GBalance mt nb => glv_update_balance g mt nb
  end.
