(* C45 — correspondence and oracle predicates for harness/src/bin/c45.rs.  Imports Model only. *)
From GV Require Export lib.Base C01.Model C45.Model.
Open Scope Z_scope.

Inductive case :=
| Comp (init : list macct) (r0 : res glv) (ops : list (gop * res glv))
| Limit (ms : list gconf) (target nb pv supply : Z) (r : res unit)
| Price (pvd supply balance : Z) (r1 : res Z) (pvw value divisor : Z) (r2 : res Z)
| RoundTrip (c : gconf) (ms : list pm) (mt amount glv_supply pv_wd_max divisor : Z)
            (dep : res (Z * Z)) (wd : option (res Z)).

(* ---------------- helpers ---------------- *)
Definition gconf_eqb (a b : gconf) : bool :=
  (c_mt a =? c_mt b) && (c_max_amount a =? c_max_amount b) && (c_max_value a =? c_max_value b) &&
  (c_balance a =? c_balance b) && Bool.eqb (c_deposit_allowed a) (c_deposit_allowed b).
Definition conf_in (c : gconf) (l : list gconf) : bool := existsb (gconf_eqb c) l.
Definition glv_eqb (a b : glv) : bool :=
  (g_long a =? g_long b) && (g_short a =? g_short b) &&
  (Z.of_nat (length (g_markets a)) =? Z.of_nat (length (g_markets b))) &&
  forallb (fun c => conf_in c (g_markets b)) (g_markets a) &&
  forallb (fun c => conf_in c (g_markets a)) (g_markets b).
Definition res_eqb {A} (eq : A -> A -> bool) (a b : res A) : bool :=
  match a, b with Ok x, Ok y => eq x y | Err x, Err y => x =? y | _, _ => false end.

Fixpoint corr_ops (g : glv) (ops : list (gop * res glv)) : bool :=
  match ops with
  | [] => true
  | (o, r) :: rest =>
      match gstep g o, r with
      | Ok g', Ok g'' => glv_eqb g' g'' && corr_ops g' rest
      | Err e, Err e' => (e =? e') && corr_ops g rest
      | _, _ => false
      end
  end.

Definition corr_b (c : case) : bool :=
  match c with
  | Comp init r0 ops =>
      match glv_init init, r0 with
      | Ok g, Ok g' => glv_eqb g g' && corr_ops g ops
      | Err e, Err e' => (e =? e') && match ops with [] => true | _ => false end
      | _, _ => false
      end
  | Limit ms target nb pv supply r =>
      res_eqb (fun _ _ => true) (glv_validate_balance (mkG 0 1 ms) target nb pv supply) r
  | Price pvd supply balance r1 pvw value divisor r2 =>
      res_eqb Z.eqb (glv_value_for_market pvd supply balance) r1 &&
      res_eqb Z.eqb (market_token_amount_for_glv_value pvw supply value divisor) r2
  | RoundTrip c ms mt amount glv_supply pv_wd_max divisor dep wd =>
      match glv_deposit_price c ms mt amount glv_supply divisor, dep with
      | Err e, Err e' => (e =? e') && match wd with None => true | Some _ => false end
      | Ok (g, nb), Ok (g', nb') =>
          (g =? g') && (nb =? nb') &&
          if g =? 0 then match wd with None => true | Some _ => false end else
          match wd with
          | None => false
          | Some w =>
              let c' := mkC (c_mt c) (c_max_amount c) (c_max_value c) nb (c_deposit_allowed c) in
              res_eqb Z.eqb (glv_withdraw_price c' (add_balance ms mt amount) mt g (glv_supply + g) pv_wd_max divisor) w
          end
      | _, _ => false
      end
  end.

(* ---------------- oracle ---------------- *)
Definition mem (x : Z) (l : list Z) : bool := existsb (Z.eqb x) l.
Fixpoint has_dup (l : list Z) : bool := match l with [] => false | x :: r => mem x r || has_dup r end.

(* the tokens of market token [mt] according to the accounts seen in this case *)
Fixpoint toks (accts : list macct) (mt : Z) : option (Z * Z) :=
  match accts with [] => None | m :: r => if ma_mt m =? mt then Some (ma_long m, ma_short m) else toks r mt end.

(* every market held by the GLV has the GLV's long and short token, and is listed once *)
Definition glv_shares_tokens (accts : list macct) (g : glv) : bool :=
  forallb (fun c => match toks accts (c_mt c) with
                    | Some (l, s) => (l =? g_long g) && (s =? g_short g)
                    | None => false
                    end) (g_markets g) &&
  negb (has_dup (map c_mt (g_markets g))).

Fixpoint oracle_ops (accts : list macct) (ops : list (gop * res glv)) : bool :=
  match ops with
  | [] => true
  | (o, r) :: rest =>
      let accts' := match o with GInsert m => m :: accts | _ => accts end in
      match r with
      | Ok g => glv_shares_tokens accts' g && oracle_ops accts' rest
      | Err _ => oracle_ops accts rest
      end
  end.

(* floor(a*b/c) written out for the oracle *)
Definition fl (a b c : Z) : Z := a * b / c.

Definition oracle_b (c : case) : bool :=
  match c with
  | Comp init r0 ops =>
      match r0 with
      | Ok g => negb (match init with [] => true | _ => false end) && glv_shares_tokens init g && oracle_ops init ops
      | Err _ => true
      end
  | Limit ms target nb pv supply r =>
      match r, lookup ms target with
      | Ok _, Some cf =>
          (* accepted => within the configured maximum amount and maximum value (0 = not configured) *)
          ((c_max_amount cf =? 0) || (nb <=? c_max_amount cf) || ((c_max_amount cf =? 0) && (c_max_value cf =? 0))) &&
          ((c_max_value cf =? 0) || ((0 <=? pv) && negb (supply =? 0) && (fl nb pv supply <=? c_max_value cf)))
      | Ok _, None => false
      | Err _, _ => true
      end
  | Price pvd supply balance r1 pvw value divisor r2 =>
      match r1 with
      | Ok v => if balance =? 0 then v =? 0 else (0 <=? pvd) && negb (supply =? 0) && (v =? fl balance pvd supply)
      | Err _ => true
      end &&
      match r2 with
      | Ok a => (0 <=? pvw) && (if supply =? 0 then true else negb (pvw =? 0) && (a =? fl supply value pvw))
      | Err _ => true
      end
  | RoundTrip c ms mt amount glv_supply pv_wd_max divisor dep wd =>
      match dep with
      | Err _ => true
      | Ok (g, nb) =>
          (nb =? c_balance c + amount) &&
          (* balance limits hold after the deposit *)
          ((c_max_amount c =? 0) || (nb <=? c_max_amount c)) &&
          match find_pm ms mt with
          | Some m => (c_max_value c =? 0) || (fl nb (pm_pv_max m) (pm_supply m) <=? c_max_value c)
          | None => false
          end &&
          (* an immediate withdrawal of the minted GLV tokens never returns more market tokens *)
          match wd with
          | Some (Ok back) => implb (0 <? glv_supply) (back <=? amount)
          | _ => true
          end
      end
  end.

(* known finding class 1: the deposit-side pool value (MaxAfterDeposit, minimised) exceeds the withdrawal-side
   pool value (MaxAfterWithdrawal, maximised) — possible only when max_pnl_factor_for_deposit is configured
   below max_pnl_factor_for_withdrawal and trader pnl lies between the two caps *)
Definition known_b (c : case) : Z :=
  match c with
  | RoundTrip c0 ms mt amount glv_supply pv_wd_max divisor dep wd =>
      match find_pm ms mt with
      | Some m => if pv_wd_max <? pm_pv_min m then 1 else 0
      | None => 0
      end
  | _ => 0
  end.
