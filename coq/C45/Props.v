(* C45 — property theorems (statements pinned; proofs in Proofs.v). *)
From GV Require Import lib.Base C01.Model C45.Model C45.Proofs.
Open Scope Z_scope.

(* ---------- every market in a GLV has the GLV's long and short tokens ----------
   For any initial market list accepted by initialize_glv and any history of insert / remove / config / balance
   operations: market tokens are listed once, the GLV's tokens never change, and every account that can be shown
   for a member market token carries the GLV's long and short token (accounts shown for one market token agree on
   its tokens: Market.meta is immutable). *)
Theorem c45_markets_share_glv_tokens : forall init ops g0,
  glv_init init = Ok g0 -> consistent (rev (inserted ops) ++ init) ->
  let g := grun g0 ops in
  NoDup (map c_mt (g_markets g)) /\
  forall c a, In c (g_markets g) -> In a (rev (inserted ops) ++ init) -> ma_mt a = c_mt c ->
              ma_long a = g_long g /\ ma_short a = g_short g.
Proof. exact markets_share_tokens. Qed.

Theorem c45_glv_tokens_fixed : forall ops accts g,
  ginv accts g -> g_long (grun g ops) = g_long g /\ g_short (grun g ops) = g_short g.
Proof. intros. destruct (grun_inv ops accts g H) as (_ & L & S). auto. Qed.

(* ---------- balance limits after a deposit ---------- *)
Theorem c45_validate_balance_sound : forall c nb pv supply,
  0 <= c_max_amount c -> 0 <= c_max_value c -> 0 <= nb -> 0 <= supply ->
  validate_balance c nb pv supply = Ok tt ->
  (c_max_amount c = 0 \/ nb <= c_max_amount c) /\
  (c_max_value c = 0 \/ (0 <= pv /\ supply <> 0 /\ pv * nb / supply <= c_max_value c)).
Proof. exact validate_balance_ok. Qed.

(* after a successful GLV deposit the market's balance in the GLV is the old balance plus the deposit, and it is
   within the configured maximum amount and (at the maximised pool value) the configured maximum value;
   0 means "not configured" *)
Theorem c45_deposit_respects_limits : forall c ms mt amount S d g nb m,
  0 <= c_max_amount c -> 0 <= c_max_value c -> 0 <= c_balance c -> 0 <= amount -> 0 <= pm_supply m ->
  find_pm ms mt = Some m ->
  glv_deposit_price c ms mt amount S d = Ok (g, nb) ->
  nb = c_balance c + amount /\ nb <= U64_MAX /\
  (c_max_amount c = 0 \/ nb <= c_max_amount c) /\
  (c_max_value c = 0 \/ (0 <= pm_pv_max m /\ pm_supply m <> 0 /\ pm_pv_max m * nb / pm_supply m <= c_max_value c)).
Proof. exact deposit_respects_limits. Qed.

(* ---------- deposit at the maximised value, withdrawal at the minimised value: no round-trip gain ----------
   For every GLV composition, balances, supplies and pool values with min <= max per market, a positive GLV supply,
   and a target market whose deposit-side minimised pool value does not exceed its withdrawal-side maximised pool
   value: depositing [amount] market tokens and immediately withdrawing the GLV tokens just minted returns at most
   [amount] market tokens. *)
Theorem c45_round_trip_no_gain : forall c c' ms mt amount S pv_wd_max d g nb back m,
  Forall pm_ok ms -> find_pm ms mt = Some m -> pm_pv_min m <= pv_wd_max ->
  0 < S -> 0 < d -> 0 <= amount ->
  glv_deposit_price c ms mt amount S d = Ok (g, nb) ->
  glv_withdraw_price c' (add_balance ms mt amount) mt g (S + g) pv_wd_max d = Ok back ->
  back <= amount.
Proof. exact round_trip_no_gain. Qed.

(* the minimised GLV value never exceeds the maximised one *)
Theorem c45_min_value_le_max_value : forall ms vmin vmax,
  Forall pm_ok ms -> glv_value false ms = Ok vmin -> glv_value true ms = Ok vmax -> vmin <= vmax.
Proof.
  intros ms vmin vmax Hok H1 H2. unfold glv_value in *.
  apply glv_value_acc_val in H1, H2; auto. pose proof (sum_val_min_le_max ms Hok). lia.
Qed.

(* ---------- known finding, class 1: the hypothesis pm_pv_min m <= pv_wd_max is necessary ---------- *)
Lemma c45_class1_refuted :
  exists c ms mt amount S pv_wd_max d m g nb back,
    Forall pm_ok ms /\ find_pm ms mt = Some m /\ pv_wd_max < pm_pv_min m /\ 0 < S /\ 0 < d /\
    glv_deposit_price c ms mt amount S d = Ok (g, nb) /\
    glv_withdraw_price (mkC mt 0 0 nb false) (add_balance ms mt amount) mt g (S + g) pv_wd_max d = Ok back /\
    amount < back.
Proof.
  exists (mkC 0 0 0 1000 false), [mkPM 0 1000 10000 700 700], 0, 100, 1000, 500, 1,
         (mkPM 0 1000 10000 700 700), 100, 1100, 140.
  split; [repeat constructor; cbn; lia|]. vm_compute. repeat split; auto.
Qed.

(* ---------- non-vacuity ---------- *)
Example c45_round_trip_demo :
  let ms := [mkPM 0 5000 100000 70000 70500; mkPM 1 2500 40000 91000 92000] in
  glv_deposit_price (mkC 1 4000 0 2500 false) ms 1 1000 7000 1 = Ok (1716, 3500) /\
  glv_withdraw_price (mkC 1 4000 0 3500 false) (add_balance ms 1 1000) 1 1716 (7000 + 1716) 92000 1 = Ok 980.
Proof. vm_compute. split; reflexivity. Qed.

Example c45_composition_demo :
  match glv_init [mkM 0 10 11 true true; mkM 1 10 11 true true] with
  | Ok g0 =>
      let g := grun g0 [GInsert (mkM 2 10 11 true true); GInsert (mkM 3 11 10 true true);
                        GInsert (mkM 4 10 12 true true); GRemove 0; GConfig 1 (Some 5) None] in
      map c_mt (g_markets g) = [1; 2] /\ g_long g = 10 /\ g_short g = 11
  | Err _ => False
  end.
Proof. vm_compute. repeat split. Qed.
