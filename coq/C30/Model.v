(* C30 — Gallina model of the GT state machine (programs/store/src/states/gt.rs), the per-user GT
   fields (states/user.rs) and Order::unchecked_process_gt (states/order.rs).  Definitions only.

   Error classes (the driver maps CoreError variants to these):
     1 TokenAmountOverflow   2 InvalidGTConfig   3 Internal   4 ValueOverflow
     5 NotEnoughTokenAmount  6 PreconditionsAreNotMet  7 InvalidArgument
     8 GTStateHasBeenInitialized  9 InvalidUserAccount *)
From GV Require Import lib.Base C01.Model.
Open Scope Z_scope.

Definition UNIT : Z := 10 ^ 20.                 (* MARKET_USD_UNIT, MARKET_DECIMALS = 20 *)
Definition MAX_RANK : nat := 15.
Definition DEFAULT_WINDOW : Z := 86400.          (* constants::DEFAULT_GT_VAULT_TIME_WINDOW, checked by the driver *)
Definition I64MAX : Z := 2 ^ 63 - 1.
Definition I64MIN : Z := - 2 ^ 63.
Definition sat_i64 (z : Z) : Z := Z.max I64MIN (Z.min I64MAX z).
Definition sat_u128 (z : Z) : Z := Z.max 0 (Z.min (2 ^ 128 - 1) z).

Record gt := mkgt {
  g_last_minted_at : Z; g_total : Z; g_step : Z; g_steps : Z; g_supply : Z;
  g_cum_ts : Z; g_vault : Z; g_cum : Z; g_grow : Z; g_cost : Z; g_window : Z; g_ranks : list Z }.

Record user := mkuser {
  u_rank : Z; u_last : Z; u_total : Z; u_amount : Z; u_paid : Z; u_minted : Z }.

Record vault := mkvault { v_init : bool; v_conf : bool; v_ts : Z; v_win : Z; v_amount : Z }.

Definition gt0 : gt := mkgt 0 0 0 0 0 0 0 0 0 0 0 [].
Definition user0 : user := mkuser 0 0 0 0 0 0.
Definition vault0 : vault := mkvault false false 0 0 0.

(* ---- GtState::init ---- *)
Fixpoint strictly_sorted (l : list Z) : bool :=
  match l with
  | [] => true
  | a :: r => match r with [] => true | b :: _ => (a <? b) && strictly_sorted r end
  end.

Definition gt_init (g : gt) (now cost grow step : Z) (ranks : list Z) : res gt :=
  if negb (g_step g =? 0) then Err 8 else
  if negb (g_last_minted_at g =? 0) then Err 8 else
  if negb (g_total g =? 0) then Err 8 else
  if negb (g_supply g =? 0) then Err 8 else
  if negb (g_vault g =? 0) then Err 8 else
  if step =? 0 then Err 2 else
  let rk := firstn MAX_RANK ranks in
  if negb (strictly_sorted rk) then Err 2 else
  if (match rk with first :: _ => first =? 0 | [] => false end) then Err 2 else     (* a zero threshold is rejected *)
  Ok (mkgt now 0 step (g_steps g) 0 (g_cum_ts g) 0 (g_cum g) grow cost DEFAULT_WINDOW rk).

(* ---- next_minting_cost ---- *)
(* `n` applications of `apply_factor(cost, grow)` with early exit on overflow; binary
   recursion so that a huge `n` that overflows early is still computable *)
Definition grow1 (grow cost : Z) : option Z := apply_factor 128 UNIT cost grow.
Fixpoint grow_pos (p : positive) (grow cost : Z) : option Z :=
  match p with
  | xH => grow1 grow cost
  | xO q => c <- grow_pos q grow cost ;; grow_pos q grow c
  | xI q => c <- grow_pos q grow cost ;; c' <- grow_pos q grow c ;; grow1 grow c'
  end.
Definition grow_n (n : Z) (grow cost : Z) : option Z :=      (* `for _ in a..b` is empty when b <= a *)
  match n with Zpos p => grow_pos p grow cost | _ => Some cost end.

(* Ok None = unchanged; Ok (Some (steps, cost)) *)
Definition next_minting_cost (g : gt) (next_minted : Z) : res (option (Z * Z)) :=
  if g_step g =? 0 then Err 2 else
  let new_steps := next_minted / g_step g in
  if new_steps =? g_steps g then Ok None else
  match grow_n (new_steps - g_steps g) (g_grow g) (g_cost g) with
  | Some c => Ok (Some (new_steps, c))
  | None => Err 3
  end.

(* ---- unchecked_update_rank: binary_search over the strictly increasing thresholds ----
   Ok i when ranks[i] = x, else Err (insertion point) *)
Fixpoint count_lt (x : Z) (l : list Z) : Z :=
  match l with [] => 0 | a :: r => (if a <? x then 1 else 0) + count_lt x r end.
Fixpoint mem_z (x : Z) (l : list Z) : bool :=
  match l with [] => false | a :: r => (a =? x) || mem_z x r end.
Definition rank_of (ranks : list Z) (x : Z) : Z :=
  if mem_z x ranks then count_lt x ranks + 1 else count_lt x ranks.

Definition update_rank (g : gt) (u : user) : user :=
  mkuser (rank_of (g_ranks g) (u_amount u)) (u_last u) (u_total u) (u_amount u) (u_paid u) (u_minted u).

(* ---- update_cumulative_inv_cost_factor ---- *)
Definition update_cum (g : gt) (now : Z) : res gt :=
  let d := sat_i64 (now - g_cum_ts g) in
  let duration := if 0 <? d then d else 0 in
  match div_to_factor 128 UNIT duration (g_cost g) false with
  | None => Err 4
  | Some delta =>
      match chk_u 128 (g_cum g + delta) with
      | None => Err 4
      | Some nf =>
          Ok (mkgt (g_last_minted_at g) (g_total g) (g_step g) (g_steps g) (g_supply g)
                   now (g_vault g) nf (g_grow g) (g_cost g) (g_window g) (g_ranks g))
      end
  end.

(* ---- mint_to ---- *)
Definition mint_to (g : gt) (u : user) (amount now : Z) : res (gt * user) :=
  if amount =? 0 then Ok (g, u) else
  nt <-- of_opt 1 (chk_u 64 (g_total g + amount)) ;;
  nmc <-- next_minting_cost g nt ;;
  nut <-- of_opt 1 (chk_u 64 (u_total u + amount)) ;;
  na <-- of_opt 1 (chk_u 64 (u_amount u + amount)) ;;
  ns <-- of_opt 1 (chk_u 64 (g_supply g + amount)) ;;
  g1 <-- update_cum g now ;;
  let '(steps, cost) := match nmc with Some (s, c) => (s, c) | None => (g_steps g1, g_cost g1) end in
  let g2 := mkgt now nt (g_step g1) steps ns (g_cum_ts g1) (g_vault g1) (g_cum g1) (g_grow g1) cost
                 (g_window g1) (g_ranks g1) in
  let u1 := mkuser (u_rank u) now nut na (u_paid u) (u_minted u) in
  Ok (g2, update_rank g2 u1).

(* ---- unchecked_burn_from ---- *)
Definition burn_from (g : gt) (u : user) (amount : Z) : res (gt * user) :=
  if amount =? 0 then Ok (g, u) else
  if u_amount u <? amount then Err 5 else
  na <-- of_opt 3 (chk_u 64 (u_amount u - amount)) ;;
  ns <-- of_opt 3 (chk_u 64 (g_supply g - amount)) ;;
  let g1 := mkgt (g_last_minted_at g) (g_total g) (g_step g) (g_steps g) ns (g_cum_ts g) (g_vault g)
                 (g_cum g) (g_grow g) (g_cost g) (g_window g) (g_ranks g) in
  let u1 := mkuser (u_rank u) (u_last u) (u_total u) na (u_paid u) (u_minted u) in
  Ok (g1, update_rank g1 u1).

(* ---- get_mint_amount: (minted, minted_value, minting_cost) ---- *)
Definition get_mint_amount (g : gt) (size : Z) : res (Z * Z * Z) :=
  if g_cost g =? 0 then Err 2 else
  let remainder := size mod g_cost g in
  match chk_u 64 (size / g_cost g) with
  | None => Err 1
  | Some minted => Ok (minted, size - remainder, g_cost g)
  end.

(* ---- Order::unchecked_process_gt: returns the new state and the order's gt_reward ---- *)
Definition process_gt (g : gt) (u : user) (paid now : Z) : res (gt * user * option Z) :=
  if paid =? 0 then Ok (g, u, None) else
  let next_paid := sat_u128 (u_paid u + paid) in
  if next_paid <? u_minted u then Err 9 else
  let value := Z.max 0 (next_paid - u_minted u) in
  r <-- get_mint_amount g value ;;
  let '(minted, dv, _) := r in
  nmv <-- of_opt 4 (chk_u 128 (u_minted u + dv)) ;;
  gu <-- mint_to g u minted now ;;
  let '(g', u') := gu in
  Ok (g', mkuser (u_rank u') (u_last u') (u_total u') (u_amount u') next_paid nmv, Some minted).

(* ---- exchange vault ---- *)
Definition window_index (ts win : Z) : Z := Z.quot ts win.      (* i64 division truncates *)

Definition vault_init (v : vault) (now win : Z) : res vault :=
  if v_init v then Err 6 else
  if win =? 0 then Err 7 else
  Ok (mkvault true (v_conf v) now win (v_amount v)).

Definition depositable (v : vault) (now : Z) : res unit :=
  if v_conf v then Err 6 else
  if window_index now (v_win v) =? window_index (v_ts v) (v_win v) then Ok tt else Err 7.

Definition confirmable (v : vault) (now : Z) : res unit :=
  if negb (v_init v) then Err 6 else
  if v_conf v then Err 6 else
  if window_index (v_ts v) (v_win v) <? window_index now (v_win v) then Ok tt else Err 6.

(* unchecked_request_exchange; the exchange account is (initialized?, amount) *)
Definition request_exchange (g : gt) (u_init : bool) (u : user) (v : vault) (x_init : bool) (x : Z) (amount now : Z)
  : res (gt * user * vault * Z) :=
  if negb u_init then Err 7 else
  if negb (v_init v) then Err 7 else
  if negb x_init then Err 7 else
  gu <-- burn_from g u amount ;;
  let '(g', u') := gu in
  _ <-- depositable v now ;;
  va <-- of_opt 1 (chk_u 64 (v_amount v + amount)) ;;
  xa <-- of_opt 1 (chk_u 64 (x + amount)) ;;
  Ok (g', u', mkvault (v_init v) (v_conf v) (v_ts v) (v_win v) va, xa).

(* unchecked_confirm_exchange_vault: returns the confirmed amount *)
Definition confirm_vault (g : gt) (v : vault) (now : Z) : res (gt * vault * Z) :=
  if negb (v_init v) then Err 7 else
  _ <-- confirmable v now ;;
  let v' := mkvault (v_init v) true (v_ts v) (v_win v) (v_amount v) in
  let amount := v_amount v in
  if amount =? 0 then Ok (g, v', amount) else
  nv <-- of_opt 1 (chk_u 64 (g_vault g + amount)) ;;
  Ok (mkgt (g_last_minted_at g) (g_total g) (g_step g) (g_steps g) (g_supply g) (g_cum_ts g) nv
           (g_cum g) (g_grow g) (g_cost g) (g_window g) (g_ranks g), v', amount).

(* ================= histories over several users / vaults ================= *)
Inductive op :=
| Mint (u amount now : Z)
| Burn (u amount : Z)
| Proc (u paid now : Z)
| VInit (v win now : Z)
| Req (u v amount now : Z)
| Conf (v now : Z).

(* users: id -> user (every id exists, initialised by the driver up front);
   vaults: id -> vault; exchanges: (vault, user) -> amount, created on demand by the driver as
   the instruction does *)
Fixpoint aget {A} (d : A) (l : list (Z * A)) (k : Z) : A :=
  match l with [] => d | (x, a) :: r => if x =? k then a else aget d r k end.
Fixpoint aset {A} (l : list (Z * A)) (k : Z) (a : A) : list (Z * A) :=
  match l with
  | [] => [(k, a)]
  | (x, b) :: r => if x =? k then (x, a) :: r else (x, b) :: aset r k a
  end.

Record state := mkstate {
  s_gt : gt; s_users : list (Z * user); s_vaults : list (Z * vault); s_exch : list (Z * Z) }.

Definition xkey (v u : Z) : Z := v * 1000 + u.

Definition step (s : state) (o : op) : res state :=
  match o with
  | Mint u amount now =>
      r <-- mint_to (s_gt s) (aget user0 (s_users s) u) amount now ;;
      let '(g, usr) := r in Ok (mkstate g (aset (s_users s) u usr) (s_vaults s) (s_exch s))
  | Burn u amount =>
      r <-- burn_from (s_gt s) (aget user0 (s_users s) u) amount ;;
      let '(g, usr) := r in Ok (mkstate g (aset (s_users s) u usr) (s_vaults s) (s_exch s))
  | Proc u paid now =>
      r <-- process_gt (s_gt s) (aget user0 (s_users s) u) paid now ;;
      let '(g, usr, _) := r in Ok (mkstate g (aset (s_users s) u usr) (s_vaults s) (s_exch s))
  | VInit v win now =>
      v' <-- vault_init (aget vault0 (s_vaults s) v) now win ;;
      Ok (mkstate (s_gt s) (s_users s) (aset (s_vaults s) v v') (s_exch s))
  | Req u v amount now =>
      r <-- request_exchange (s_gt s) true (aget user0 (s_users s) u) (aget vault0 (s_vaults s) v) true
             (aget 0 (s_exch s) (xkey v u)) amount now ;;
      let '(g, usr, v', x) := r in
      Ok (mkstate g (aset (s_users s) u usr) (aset (s_vaults s) v v') (aset (s_exch s) (xkey v u) x))
  | Conf v now =>
      r <-- confirm_vault (s_gt s) (aget vault0 (s_vaults s) v) now ;;
      let '(g, v', _) := r in Ok (mkstate g (s_users s) (aset (s_vaults s) v v') (s_exch s))
  end.

Definition step_total (s : state) (o : op) : state := match step s o with Ok s' => s' | Err _ => s end.
Definition run (s : state) (ops : list op) : state := fold_left step_total ops s.
