(* C30 — property theorems only. *)
From GV Require Import lib.Base C01.Model C30.Model C30.Proofs.
Open Scope Z_scope.

(* Vocabulary: [run s ops] folds the operation semantics (mint_to, unchecked_burn_from,
   Order::unchecked_process_gt, vault init, unchecked_request_exchange,
   unchecked_confirm_exchange_vault) over a history on several users and vaults; a failed
   operation leaves the state unchanged.  [op_wf] = amounts are unsigned.  [asum f l] sums f over
   the accounts.  [grow_nat n grow c] = n-fold c |-> floor(c * grow / 10^20) with None on u128
   overflow ([c30_growth_step]).  Hypotheses 0 <= cost0, grow, step are the unsigned types. *)

Theorem c30_supply_is_sum_of_balances : forall t0 cost0 grow stp ranks g0,
  0 <= cost0 -> 0 <= grow -> 0 <= stp -> gt_init gt0 t0 cost0 grow stp ranks = Ok g0 -> Forall (fun y => 0 <= y) ranks ->
  forall ops, Forall op_wf ops ->
  let s := run (mkstate g0 [] [] []) ops in
  g_supply (s_gt s) = asum u_amount (s_users s) /\ g_total (s_gt s) = asum u_total (s_users s).
Proof. exact final_supply. Qed.

Theorem c30_total_minted_monotone : forall t0 cost0 grow stp ranks g0,
  0 <= cost0 -> 0 <= grow -> 0 <= stp -> gt_init gt0 t0 cost0 grow stp ranks = Ok g0 -> Forall (fun y => 0 <= y) ranks ->
  forall ops1 ops2, Forall op_wf ops1 -> Forall op_wf ops2 ->
  g_total (s_gt (run (mkstate g0 [] [] []) ops1)) <= g_total (s_gt (run (mkstate g0 [] [] []) (ops1 ++ ops2))).
Proof. exact final_total_monotone. Qed.

(* cost = iter (total / step) grow init, whatever the history *)
Theorem c30_cost_depends_on_total_only : forall t0 cost0 grow stp ranks g0,
  0 <= cost0 -> 0 <= grow -> 0 <= stp -> gt_init gt0 t0 cost0 grow stp ranks = Ok g0 -> Forall (fun y => 0 <= y) ranks ->
  forall ops, Forall op_wf ops ->
  let s := run (mkstate g0 [] [] []) ops in
  g_steps (s_gt s) = g_total (s_gt s) / stp /\
  grow_nat (Z.to_nat (g_total (s_gt s) / stp)) grow cost0 = Some (g_cost (s_gt s)).
Proof. exact final_cost. Qed.

Theorem c30_cost_independent_of_split : forall t0 cost0 grow stp ranks g0,
  0 <= cost0 -> 0 <= grow -> 0 <= stp -> gt_init gt0 t0 cost0 grow stp ranks = Ok g0 -> Forall (fun y => 0 <= y) ranks ->
  forall ops1 ops2, Forall op_wf ops1 -> Forall op_wf ops2 ->
  g_total (s_gt (run (mkstate g0 [] [] []) ops1)) = g_total (s_gt (run (mkstate g0 [] [] []) ops2)) ->
  g_cost (s_gt (run (mkstate g0 [] [] []) ops1)) = g_cost (s_gt (run (mkstate g0 [] [] []) ops2)).
Proof. exact final_cost_split_independent. Qed.

Theorem c30_growth_step : forall n grow c r, 0 <= grow -> 0 <= c ->
  grow_nat (S n) grow c = Some r <->
  exists x, grow_nat n grow c = Some x /\ r = x * grow / UNIT /\ r < 2 ^ 128 /\ 0 <= x.
Proof. exact grow_nat_step. Qed.

(* rank = number of thresholds <= balance, for EVERY user (init rejects a zero threshold) *)
Theorem c30_rank_is_count_le : forall t0 cost0 grow stp ranks g0,
  0 <= cost0 -> 0 <= grow -> 0 <= stp -> gt_init gt0 t0 cost0 grow stp ranks = Ok g0 -> Forall (fun y => 0 <= y) ranks ->
  forall ops k, Forall op_wf ops ->
  let s := run (mkstate g0 [] [] []) ops in
  let u := aget user0 (s_users s) k in
  u_rank u = count_le (u_amount u) (firstn MAX_RANK ranks).
Proof. exact final_rank. Qed.

Theorem c30_zero_threshold_rejected : forall t0 cost grow stp r g, gt_init gt0 t0 cost grow stp (0 :: r) <> Ok g.
Proof. intros t0 cost grow stp r. exact (proj2 (zero_threshold_rejected t0 cost grow stp r)). Qed.

(* the binary search of the code computes the count on strictly increasing tables *)
Theorem c30_binary_search_is_count : forall ranks x, strictly_sorted ranks = true -> rank_of ranks x = count_le x ranks.
Proof. exact rank_of_count_le. Qed.

(* minting for a USD amount: whole units affordable at the current cost, remainder unminted *)
Theorem c30_mint_amount_floor : forall g size m v c, 0 <= size -> 0 <= g_cost g ->
  get_mint_amount g size = Ok (m, v, c) <->
  (g_cost g <> 0 /\ c = g_cost g /\ m = size / g_cost g /\ m < 2 ^ 64 /\ v = m * g_cost g /\ 0 <= size - v < g_cost g).
Proof. exact get_mint_amount_spec. Qed.

Theorem c30_mint_amount_failure : forall g size e, 0 <= size -> 0 <= g_cost g ->
  get_mint_amount g size = Err e -> (e = 2 /\ g_cost g = 0) \/ (e = 1 /\ 2 ^ 64 <= size / g_cost g).
Proof. exact get_mint_amount_err. Qed.

Theorem c30_process_gt_floor_and_remainder : forall g u paid now g' u' reward,
  0 < paid -> 0 <= g_cost g -> 0 <= u_minted u <= u_paid u ->
  process_gt g u paid now = Ok (g', u', reward) ->
  let np := Z.min (2 ^ 128 - 1) (u_paid u + paid) in
  exists m, reward = Some m /\ g_cost g <> 0 /\
    m = (np - u_minted u) / g_cost g /\
    u_paid u' = np /\ u_minted u' = u_minted u + m * g_cost g /\
    0 <= u_paid u' - u_minted u' < g_cost g /\
    u_amount u' = u_amount u + m /\ g_total g' = g_total g + m.
Proof. exact process_gt_spec. Qed.

(* exchange windows (index = timestamp quot window, i64 division) *)
Theorem c30_depositable_iff_same_window : forall v now, depositable v now = Ok tt <->
  (v_conf v = false /\ Z.quot now (v_win v) = Z.quot (v_ts v) (v_win v)).
Proof. exact depositable_spec. Qed.

Theorem c30_confirmable_iff_later_window : forall v now, confirmable v now = Ok tt <->
  (v_init v = true /\ v_conf v = false /\ Z.quot (v_ts v) (v_win v) < Z.quot now (v_win v)).
Proof. exact confirmable_spec. Qed.

Theorem c30_never_both : forall v now, depositable v now = Ok tt -> confirmable v now = Ok tt -> False.
Proof. exact window_exclusive. Qed.

(* the non-buybackable vault equals the confirmed exchange vaults *)
Theorem c30_gt_vault_is_confirmed_vaults : forall t0 cost0 grow stp ranks g0,
  0 <= cost0 -> 0 <= grow -> 0 <= stp -> gt_init gt0 t0 cost0 grow stp ranks = Ok g0 -> Forall (fun y => 0 <= y) ranks ->
  forall ops, Forall op_wf ops ->
  let s := run (mkstate g0 [] [] []) ops in
  g_vault (s_gt s) = asum (fun v => if v_conf v then v_amount v else 0) (s_vaults s).
Proof. exact final_vault. Qed.

(* non-vacuity *)
Example c30_ex_history :
  exists g0, gt_init gt0 100 (5 * 10 ^ 18) (101 * 10 ^ 18) 10 [5; 20; 40] = Ok g0 /\
  let s := run (mkstate g0 [] [] [])
            [Mint 1 7 100; Proc 2 (26 * 10 ^ 19 + 3) 101; VInit 1 50 110; Req 1 1 3 120; Burn 2 1; Conf 1 150; Mint 1 40 200] in
  g_total (s_gt s) = 99 /\ g_supply (s_gt s) = 95 /\ g_vault (s_gt s) = 3 /\ g_steps (s_gt s) = 9 /\
  u_amount (aget user0 (s_users s) 1) = 44 /\ u_rank (aget user0 (s_users s) 1) = 3 /\
  u_amount (aget user0 (s_users s) 2) = 51 /\ g_cost (s_gt s) = 5468426363421804505.
Proof. eexists. split; [vm_compute; reflexivity|vm_compute; repeat split; reflexivity]. Qed.
