(* C30 — correspondence and oracle predicates for harness/src/bin/c30.rs.  Depends on Model.v only. *)
From GV Require Import lib.Base.
From GV Require Export C01.Model C30.Model.
Open Scope Z_scope.

(* observed values *)
Inductive gobs := Gv (total steps supply vault cost cum cum_ts last : Z).
Inductive uobs := Uv (rank last total amount paid minted : Z).
Inductive vobs := Vv (init conf : bool) (ts win amount : Z).

Inductive obs :=
| OU (rc : Z) (g : gobs) (u : uobs) (extra : option Z)       (* Mint / Burn / Proc (extra = order.gt_reward) *)
| OV (rc : Z) (g : gobs) (v : vobs) (extra : option Z)       (* VInit / Conf (extra = confirmed amount) *)
| OR (rc : Z) (g : gobs) (u : uobs) (v : vobs) (x : Z).      (* Req (x = exchange.amount) *)

Definition Sp (o : op) (b : obs) : op * obs := (o, b).

Inductive case :=
| GInit (t0 cost grow step : Z) (ranks : list Z) (rc : Z)
| Hist (t0 cost grow step : Z) (ranks : list Z) (nusers : Z) (l : list (op * obs))
| GMA (cost size : Z) (r : res (Z * Z * Z))
| NMC (cost grow step minted next : Z) (r : res (option (Z * Z)))
| Win (ts win now dep conf : Z).

Definition g_eqb (g : gt) (o : gobs) : bool :=
  match o with Gv total steps supply vault cost cum cum_ts last =>
    (g_total g =? total) && (g_steps g =? steps) && (g_supply g =? supply) && (g_vault g =? vault)
    && (g_cost g =? cost) && (g_cum g =? cum) && (g_cum_ts g =? cum_ts) && (g_last_minted_at g =? last) end.
Definition u_eqb (u : user) (o : uobs) : bool :=
  match o with Uv rank last total amount paid minted =>
    (u_rank u =? rank) && (u_last u =? last) && (u_total u =? total) && (u_amount u =? amount)
    && (u_paid u =? paid) && (u_minted u =? minted) end.
Definition v_eqb (v : vault) (o : vobs) : bool :=
  match o with Vv i c ts win amount =>
    Bool.eqb (v_init v) i && Bool.eqb (v_conf v) c && (v_ts v =? ts) && (v_win v =? win) && (v_amount v =? amount) end.

Definition rc_of {A} (r : res A) : Z := match r with Ok _ => 0 | Err e => e end.

(* extra outputs of the model for an op *)
Definition extra_of (s : state) (o : op) : option Z :=
  match o with
  | Proc u paid now =>
      match process_gt (s_gt s) (aget user0 (s_users s) u) paid now with Ok (_, _, r) => r | Err _ => None end
  | Conf v now =>
      match confirm_vault (s_gt s) (aget vault0 (s_vaults s) v) now with Ok (_, _, a) => Some a | Err _ => None end
  | _ => None
  end.

Fixpoint corr_hist (s : state) (l : list (op * obs)) : bool :=
  match l with
  | [] => true
  | (o, ob) :: r =>
      let s' := step_total s o in
      let rc := rc_of (step s o) in
      (match o, ob with
       | Mint u _ _, OU rc' g uo ex | Burn u _, OU rc' g uo ex | Proc u _ _, OU rc' g uo ex =>
           (rc =? rc') && g_eqb (s_gt s') g && u_eqb (aget user0 (s_users s') u) uo && oeqb (extra_of s o) ex
       | VInit v _ _, OV rc' g vo ex | Conf v _, OV rc' g vo ex =>
           (rc =? rc') && g_eqb (s_gt s') g && v_eqb (aget vault0 (s_vaults s') v) vo && oeqb (extra_of s o) ex
       | Req u v _ _, OR rc' g uo vo x =>
           (rc =? rc') && g_eqb (s_gt s') g && u_eqb (aget user0 (s_users s') u) uo
           && v_eqb (aget vault0 (s_vaults s') v) vo && (aget 0 (s_exch s') (xkey v u) =? x)
       | _, _ => false
       end) && corr_hist s' r
  end.

Definition res3_eqb (a b : res (Z * Z * Z)) : bool :=
  match a, b with
  | Ok (x, y, z), Ok (x', y', z') => (x =? x') && (y =? y') && (z =? z')
  | Err e, Err e' => e =? e'
  | _, _ => false
  end.
Definition resnmc_eqb (a b : res (option (Z * Z))) : bool :=
  match a, b with
  | Ok None, Ok None => true
  | Ok (Some (x, y)), Ok (Some (x', y')) => (x =? x') && (y =? y')
  | Err e, Err e' => e =? e'
  | _, _ => false
  end.

Definition init_state (g : gt) : state := mkstate g [] [] [].

Definition corr_b (c : case) : bool :=
  match c with
  | GInit t0 cost grow step ranks rc =>
      negb (rc =? 0) && (rc_of (gt_init gt0 t0 cost grow step ranks) =? rc)
  | Hist t0 cost grow step ranks _ l =>
      match gt_init gt0 t0 cost grow step ranks with
      | Ok g => corr_hist (init_state g) l
      | Err _ => false
      end
  | GMA cost size r =>
      match gt_init gt0 5 cost UNIT 1 [] with
      | Ok g => res3_eqb (get_mint_amount g size) r
      | Err _ => false
      end
  | NMC cost grow step minted next r =>
      match gt_init gt0 0 cost grow step [] with
      | Ok g => match mint_to g user0 minted 0 with
                | Ok (g', _) => resnmc_eqb (next_minting_cost g' next) r
                | Err _ => false
                end
      | Err _ => false
      end
  | Win ts win now dep conf =>
      match vault_init vault0 ts win with
      | Ok v => (rc_of (depositable v now) =? dep) && (rc_of (confirmable v now) =? conf)
      | Err _ => false
      end
  end.

(* ================= the property, on the implementation's outputs only ================= *)
Definition U64MAX : Z := 2 ^ 64 - 1.
Definition U128MAX : Z := 2 ^ 128 - 1.

Definition count_le (x : Z) (l : list Z) : Z :=
  fold_left (fun acc a => if a <=? x then acc + 1 else acc) l 0.

(* pure cost after n growth steps, None when an intermediate value leaves u128 *)
Fixpoint cost_iter (n : nat) (grow c : Z) : option Z :=
  match n with
  | O => Some c
  | S k => let c' := c * grow / 10 ^ 20 in if c' <=? U128MAX then cost_iter k grow c' else None
  end.

Definition widx (ts win : Z) : Z := Z.quot ts win.

(* tracked from the observations *)
Record track := mktrack {
  t_g : gobs;
  t_users : list (Z * uobs);
  t_vaults : list (Z * vobs);
  t_exch : list (Z * Z);
  t_burned : Z }.

Definition uobs0 := Uv 0 0 0 0 0 0.
Definition vobs0 := Vv false false 0 0 0.
Definition u_amt (u : uobs) := match u with Uv _ _ _ a _ _ => a end.
Definition u_tot (u : uobs) := match u with Uv _ _ t _ _ _ => t end.
Definition u_rk (u : uobs) := match u with Uv r _ _ _ _ _ => r end.
Definition u_pd (u : uobs) := match u with Uv _ _ _ _ p _ => p end.
Definition u_mv (u : uobs) := match u with Uv _ _ _ _ _ m => m end.
Definition g_tot (g : gobs) := match g with Gv t _ _ _ _ _ _ _ => t end.
Definition g_stp (g : gobs) := match g with Gv _ s _ _ _ _ _ _ => s end.
Definition g_sup (g : gobs) := match g with Gv _ _ s _ _ _ _ _ => s end.
Definition g_vlt (g : gobs) := match g with Gv _ _ _ v _ _ _ _ => v end.
Definition g_cst (g : gobs) := match g with Gv _ _ _ _ c _ _ _ => c end.
Definition v_in (v : vobs) := match v with Vv i _ _ _ _ => i end.
Definition v_cf (v : vobs) := match v with Vv _ c _ _ _ => c end.
Definition v_t (v : vobs) := match v with Vv _ _ t _ _ => t end.
Definition v_w (v : vobs) := match v with Vv _ _ _ w _ => w end.
Definition v_am (v : vobs) := match v with Vv _ _ _ _ a => a end.

Definition sumf {A} (f : A -> Z) (l : list (Z * A)) : Z := fold_left (fun acc kv => acc + f (snd kv)) l 0.

(* [lenient]: accept rank 0 for a user that never held GT (known finding class 1) *)
Definition rank_ok (lenient : bool) (ranks : list Z) (u : uobs) : bool :=
  (u_rk u =? count_le (u_amt u) ranks)
  || (lenient && (u_rk u =? 0) && (u_amt u =? 0) && (u_tot u =? 0)).

Definition global_ok (lenient : bool) (cost0 grow step : Z) (ranks : list Z) (nusers : Z) (t : track) : bool :=
  let g := t_g t in
  (* buyback-able supply = sum of balances; total minted = sum of per-user totals *)
  (g_sup g =? sumf u_amt (t_users t))
  && (g_tot g =? sumf u_tot (t_users t))
  (* conservation: everything minted is held, burned directly, or sits in an exchange vault *)
  && (g_tot g =? g_sup g + t_burned t + sumf v_am (t_vaults t))
  && (g_vlt g =? sumf (fun v => if v_cf v then v_am v else 0) (t_vaults t))
  && (sumf v_am (t_vaults t) =? fold_left (fun acc kv => acc + snd kv) (t_exch t) 0)
  (* cost is a function of the total minted only *)
  && (g_stp g =? g_tot g / step)
  && (if 20000 <? g_tot g / step then true
      else oeqb (cost_iter (Z.to_nat (g_tot g / step)) grow cost0) (Some (g_cst g)))
  (* ranks of all users (users that were never touched are all-zero) *)
  && forallb (fun kv => rank_ok lenient ranks (snd kv)) (t_users t)
  && ((Z.of_nat (length (t_users t)) =? nusers) || rank_ok lenient ranks uobs0).

Definition op_ok (t : track) (o : op) (ob : obs) : bool :=
  let g := t_g t in
  match o, ob with
  | Mint u a now, OU rc g' u' _ =>
      let u0 := aget uobs0 (t_users t) u in
      if rc =? 0 then
        (u_amt u' =? u_amt u0 + a) && (u_tot u' =? u_tot u0 + a) && (g_tot g' =? g_tot g + a)
        && (g_sup g' =? g_sup g + a) && (u_pd u' =? u_pd u0) && (u_mv u' =? u_mv u0)
      else true
  | Burn u a, OU rc g' u' _ =>
      let u0 := aget uobs0 (t_users t) u in
      if rc =? 0 then
        (a <=? u_amt u0) && (u_amt u' =? u_amt u0 - a) && (u_tot u' =? u_tot u0) && (g_tot g' =? g_tot g)
        && (g_sup g' =? g_sup g - a)
      else negb (a <=? u_amt u0) || negb (a <=? g_sup g)
  | Proc u paid now, OU rc g' u' reward =>
      let u0 := aget uobs0 (t_users t) u in
      if rc =? 0 then
        if paid =? 0 then (u_amt u' =? u_amt u0) && (g_tot g' =? g_tot g) && (u_pd u' =? u_pd u0)
        else
          let c := g_cst g in
          let np := Z.min U128MAX (u_pd u0 + paid) in
          match reward with
          | None => false
          | Some m =>
              negb (c =? 0)
              (* whole units affordable at the current cost ... *)
              && (m =? (np - u_mv u0) / c) && (0 <=? m) && (m <=? U64MAX)
              && (u_amt u' =? u_amt u0 + m) && (g_tot g' =? g_tot g + m)
              (* ... and the remainder stays unminted (carried in paid - minted) *)
              && (u_pd u' =? np) && (u_mv u' =? u_mv u0 + m * c)
              && (0 <=? u_pd u' - u_mv u') && (u_pd u' - u_mv u' <? c)
          end
      else true
  | VInit v win now, OV rc g' v' _ =>
      let v0 := aget vobs0 (t_vaults t) v in
      if rc =? 0 then negb (v_in v0) && negb (win =? 0) && v_in v' && (v_t v' =? now) && (v_w v' =? win) && (v_am v' =? v_am v0)
      else v_in v0 || (win =? 0)
  | Req u v a now, OR rc g' u' v' x' =>
      let u0 := aget uobs0 (t_users t) u in
      let v0 := aget vobs0 (t_vaults t) v in
      let x0 := aget 0 (t_exch t) (xkey v u) in
      if rc =? 0 then
        v_in v0 && negb (v_cf v0) && (widx now (v_w v0) =? widx (v_t v0) (v_w v0))
        && (a <=? u_amt u0) && (u_amt u' =? u_amt u0 - a) && (v_am v' =? v_am v0 + a) && (x' =? x0 + a)
        && (g_sup g' =? g_sup g - a) && (g_tot g' =? g_tot g) && (g_vlt g' =? g_vlt g)
        && Bool.eqb (v_cf v') false && (v_t v' =? v_t v0) && (v_w v' =? v_w v0)
      else true
  | Conf v now, OV rc g' v' ret =>
      let v0 := aget vobs0 (t_vaults t) v in
      if rc =? 0 then
        v_in v0 && negb (v_cf v0) && (widx (v_t v0) (v_w v0) <? widx now (v_w v0))
        && v_cf v' && (v_am v' =? v_am v0) && oeqb ret (Some (v_am v0)) && (g_vlt g' =? g_vlt g + v_am v0)
        && (g_sup g' =? g_sup g) && (g_tot g' =? g_tot g)
      else negb (v_in v0) || v_cf v0 || negb (widx (v_t v0) (v_w v0) <? widx now (v_w v0)) || (U64MAX <? g_vlt g + v_am v0)
  | _, _ => false
  end.

Definition track_step (t : track) (o : op) (ob : obs) : track :=
  match o, ob with
  | Mint u _ _, OU _ g' u' _ | Proc u _ _, OU _ g' u' _ =>
      mktrack g' (aset (t_users t) u u') (t_vaults t) (t_exch t) (t_burned t)
  | Burn u a, OU rc g' u' _ =>
      mktrack g' (aset (t_users t) u u') (t_vaults t) (t_exch t) (if rc =? 0 then t_burned t + a else t_burned t)
  | VInit v _ _, OV _ g' v' _ | Conf v _, OV _ g' v' _ =>
      mktrack g' (t_users t) (aset (t_vaults t) v v') (t_exch t) (t_burned t)
  | Req u v _ _, OR _ g' u' v' x' =>
      mktrack g' (aset (t_users t) u u') (aset (t_vaults t) v v') (aset (t_exch t) (xkey v u) x') (t_burned t)
  | _, _ => t
  end.

Fixpoint oracle_hist (lenient : bool) (cost0 grow step : Z) (ranks : list Z) (nusers : Z) (t : track) (l : list (op * obs)) : bool :=
  match l with
  | [] => true
  | (o, ob) :: r =>
      let t' := track_step t o ob in
      op_ok t o ob
      && (g_tot (t_g t) <=? g_tot (t_g t'))                     (* total minted never decreases *)
      && global_ok lenient cost0 grow step ranks nusers t'
      && oracle_hist lenient cost0 grow step ranks nusers t' r
  end.

Fixpoint strictly_inc (l : list Z) : bool :=
  match l with a :: ((b :: _) as r) => (a <? b) && strictly_inc r | _ => true end.

Definition oracle_gen (lenient : bool) (c : case) : bool :=
  match c with
  | GInit t0 cost grow step ranks rc =>
      (step =? 0) || negb (strictly_inc (firstn 15 ranks)) || (hd 1 ranks =? 0)
  | Hist t0 cost grow step ranks nusers l =>
      negb (step =? 0) && strictly_inc (firstn 15 ranks) && negb (hd 1 ranks =? 0)
      && oracle_hist lenient cost grow step (firstn 15 ranks) nusers
           (mktrack (Gv 0 0 0 0 cost 0 0 t0) [] [] [] 0) l
  | GMA cost size r =>
      match r with
      | Ok (m, v, c) => negb (cost =? 0) && (c =? cost) && (m =? size / cost) && (m <=? U64MAX)
                        && (v =? m * cost) && (0 <=? size - v) && (size - v <? cost)
      | Err e => (cost =? 0) || (U64MAX <? size / cost)
      end
  | NMC cost grow step minted next r =>
      let s0 := minted / step in
      match cost_iter (Z.to_nat s0) grow cost with
      | None => false
      | Some c0 =>
          match r with
          | Ok None => next / step =? s0
          | Ok (Some (s, c)) => (s =? next / step) && negb (s =? s0)
                                && oeqb (cost_iter (Z.to_nat (s - s0)) grow c0) (Some c)
          | Err e => negb (next / step =? s0) && negb (is_some (cost_iter (Z.to_nat (next / step - s0)) grow c0))
          end
      end
  | Win ts win now dep conf =>
      Bool.eqb (dep =? 0) (widx now win =? widx ts win) && Bool.eqb (conf =? 0) (widx ts win <? widx now win)
  end.

Definition oracle_b (c : case) : bool := oracle_gen false c.

(* ZeroThresholdFreshUser was repaired (init rejects a zero threshold): no known class is left *)
Definition known_b (c : case) : Z := 0.
