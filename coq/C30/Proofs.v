(* C30 — proofs about the GT model. *)
From GV Require Import lib.Base lib.DivLemmas C01.Model C01.Proofs C30.Model.
Open Scope Z_scope.

(* ---------- small tools ---------- *)
Lemma rbind_ok {A B} (a : res A) (f : A -> res B) r :
  rbind a f = Ok r -> exists x, a = Ok x /\ f x = Ok r.
Proof. destruct a; simpl; intros H; [eauto|discriminate]. Qed.

Lemma of_opt_ok {A} e (o : option A) x : of_opt e o = Ok x -> o = Some x.
Proof. destruct o; simpl; intros H; [injection H as ->; reflexivity|discriminate]. Qed.

Lemma chk_u_ok w z x : chk_u w z = Some x -> x = z /\ 0 <= z < 2 ^ w.
Proof. intros H. apply chk_u_some in H. lia. Qed.

(* ---------- growth iteration ---------- *)
Fixpoint grow_nat (n : nat) (grow cost : Z) : option Z :=
  match n with O => Some cost | S k => c <- grow1 grow cost ;; grow_nat k grow c end.

Lemma grow_nat_add a b grow c : grow_nat (a + b) grow c = (x <- grow_nat a grow c ;; grow_nat b grow x).
Proof.
  revert c. induction a as [|a IH]; intros c; simpl; [reflexivity|].
  destruct (grow1 grow c); simpl; [apply IH|reflexivity].
Qed.

Lemma grow_nat_snoc a grow c : grow_nat (S a) grow c = (x <- grow_nat a grow c ;; grow1 grow x).
Proof.
  replace (S a) with (a + 1)%nat by lia. rewrite grow_nat_add. destruct (grow_nat a grow c); simpl; [|reflexivity].
  destruct (grow1 grow z); reflexivity.
Qed.

Lemma grow_pos_nat p grow c : grow_pos p grow c = grow_nat (Pos.to_nat p) grow c.
Proof.
  revert c. induction p as [q IH|q IH|]; intros c; simpl grow_pos.
  - rewrite Pos2Nat.inj_xI. replace (S (2 * Pos.to_nat q)) with (Pos.to_nat q + (Pos.to_nat q + 1))%nat by lia.
    rewrite grow_nat_add. rewrite IH. destruct (grow_nat (Pos.to_nat q) grow c) as [x|]; simpl; [|reflexivity].
    rewrite grow_nat_add. rewrite IH. destruct (grow_nat (Pos.to_nat q) grow x) as [y|]; simpl; [|reflexivity].
    destruct (grow1 grow y); reflexivity.
  - rewrite Pos2Nat.inj_xO. replace (2 * Pos.to_nat q)%nat with (Pos.to_nat q + Pos.to_nat q)%nat by lia.
    rewrite grow_nat_add. rewrite IH. destruct (grow_nat (Pos.to_nat q) grow c) as [x|]; simpl; [apply IH|reflexivity].
  - simpl. destruct (grow1 grow c); reflexivity.
Qed.

Lemma grow_n_nat n grow c : grow_n n grow c = grow_nat (Z.to_nat n) grow c.
Proof. destruct n; simpl; [reflexivity|apply grow_pos_nat|reflexivity]. Qed.

Lemma grow_n_add a b grow c : 0 <= a -> 0 <= b ->
  grow_n (a + b) grow c = (x <- grow_n a grow c ;; grow_n b grow x).
Proof.
  intros Ha Hb. rewrite !grow_n_nat. rewrite Z2Nat.inj_add by lia. rewrite grow_nat_add.
  destruct (grow_nat (Z.to_nat a) grow c); simpl; [rewrite grow_n_nat|]; reflexivity.
Qed.

(* each step is exactly floor(cost * grow / UNIT), in range *)
Lemma grow1_exact grow c r : 0 <= grow -> 0 <= c -> grow1 grow c = Some r <-> (r = c * grow / UNIT /\ r < 2 ^ 128).
Proof.
  intros Hg Hc. unfold grow1. assert (HU : 0 < UNIT) by (unfold UNIT; lia).
  apply (apply_factor_exact 128 ltac:(lia) UNIT HU c grow r Hc Hg).
Qed.

(* ---------- ranks ---------- *)
Fixpoint count_le (x : Z) (l : list Z) : Z :=
  match l with [] => 0 | a :: r => (if a <=? x then 1 else 0) + count_le x r end.

Lemma strictly_sorted_cons a r : strictly_sorted (a :: r) = true ->
  strictly_sorted r = true /\ forall y, In y r -> a < y.
Proof.
  revert a. induction r as [|b r IH]; intros a H.
  - split; [reflexivity|intros y []].
  - simpl in H. apply andb_prop in H. destruct H as [H1 H2]. split; [exact H2|].
    destruct (IH b H2) as [_ Hall]. intros y [<-|Hy]; [lia|]. specialize (Hall y Hy). lia.
Qed.

Lemma rank_of_count_le ranks x : strictly_sorted ranks = true -> rank_of ranks x = count_le x ranks.
Proof.
  unfold rank_of. induction ranks as [|a r IH]; intros HS; [reflexivity|].
  destruct (strictly_sorted_cons a r HS) as [HS' Hall]. specialize (IH HS').
  simpl. destruct (a =? x) eqn:E.
  - assert (a = x) by lia. subst a. simpl.
    assert (Hm : mem_z x r = false).
    { clear -Hall. induction r as [|b r IH]; [reflexivity|]. simpl.
      pose proof (Hall b (or_introl eq_refl)). destruct (b =? x) eqn:E; [lia|]. simpl. apply IH. intros y Hy. apply Hall. right; exact Hy. }
    rewrite Hm in IH. rewrite Z.ltb_irrefl, Z.leb_refl. lia.
  - simpl. destruct (mem_z x r); destruct (a <? x) eqn:E1, (a <=? x) eqn:E2; lia.
Qed.

Lemma count_le_zero ranks : (forall y, In y ranks -> 0 < y) -> count_le 0 ranks = 0.
Proof.
  induction ranks as [|a r IH]; intros H; [reflexivity|]. simpl.
  pose proof (H a (or_introl eq_refl)) as Ha. destruct (a <=? 0) eqn:E; [lia|]. rewrite IH; [lia|]. intros y Hy. apply H. right; exact Hy.
Qed.

(* ---------- association lists ---------- *)
Fixpoint asum {A} (f : A -> Z) (l : list (Z * A)) : Z :=
  match l with [] => 0 | (_, a) :: r => f a + asum f r end.

Lemma asum_aset {A} (f : A -> Z) d l k a : f d = 0 -> asum f (aset l k a) = asum f l - f (aget d l k) + f a.
Proof.
  intros Hd. induction l as [|[x b] l IH]; simpl; [lia|].
  destruct (x =? k); simpl; lia.
Qed.

Lemma aget_aset {A} (d : A) l k a x : aget d (aset l k a) x = if x =? k then a else aget d l x.
Proof.
  induction l as [|[y b] l IH]; simpl.
  - rewrite (Z.eqb_sym k x). reflexivity.
  - destruct (y =? k) eqn:E; simpl.
    + assert (y = k) by lia. subst y. rewrite (Z.eqb_sym k x). destruct (x =? k); reflexivity.
    + rewrite IH. destruct (y =? x) eqn:E2; [|reflexivity]. assert (y = x) by lia. subst y. rewrite E. reflexivity.
Qed.

(* ---------- get_mint_amount: whole units affordable, remainder unminted ---------- *)
Theorem get_mint_amount_spec g size m v c : 0 <= size -> 0 <= g_cost g ->
  get_mint_amount g size = Ok (m, v, c) <->
  (g_cost g <> 0 /\ c = g_cost g /\ m = size / g_cost g /\ m < 2 ^ 64 /\ v = m * g_cost g /\ 0 <= size - v < g_cost g).
Proof.
  intros Hs Hc. unfold get_mint_amount. destruct (g_cost g =? 0) eqn:E.
  - split; [discriminate|]. lia.
  - assert (Hpos : 0 < g_cost g) by lia.
    pose proof (div_floor_spec size (g_cost g) Hpos) as HD.
    assert (Hq : 0 <= size / g_cost g) by (apply div_nonneg; lia).
    assert (Hmod : size mod g_cost g = size - g_cost g * (size / g_cost g)) by (rewrite Z.mod_eq by lia; reflexivity).
    destruct (chk_u 64 (size / g_cost g)) as [q|] eqn:EC.
    + apply chk_u_ok in EC. destruct EC as [-> R]. split.
      * intros H. injection H as <- <- <-. repeat split; try lia.
      * intros (_ & -> & -> & _ & -> & _). do 3 f_equal. lia.
    + apply chk_u_none in EC. split; [discriminate|]. lia.
Qed.

Theorem get_mint_amount_err g size e : 0 <= size -> 0 <= g_cost g ->
  get_mint_amount g size = Err e -> (e = 2 /\ g_cost g = 0) \/ (e = 1 /\ 2 ^ 64 <= size / g_cost g).
Proof.
  intros Hs Hc. unfold get_mint_amount. destruct (g_cost g =? 0) eqn:E; [intros H; injection H as <-; left; lia|].
  destruct (chk_u 64 (size / g_cost g)) eqn:EC; [discriminate|]. apply chk_u_none in EC.
  assert (Hq : 0 <= size / g_cost g) by (apply div_nonneg; lia). intros H; injection H as <-. right. lia.
Qed.

(* ---------- exchange windows ---------- *)
Theorem depositable_spec v now : depositable v now = Ok tt <->
  (v_conf v = false /\ Z.quot now (v_win v) = Z.quot (v_ts v) (v_win v)).
Proof.
  unfold depositable, window_index. destruct (v_conf v).
  - split; [discriminate|intros [H _]; discriminate].
  - destruct (Z.quot now (v_win v) =? Z.quot (v_ts v) (v_win v)) eqn:E.
    + split; [intros _; split; [reflexivity|lia]|reflexivity].
    + split; [discriminate|intros [_ H]; lia].
Qed.

Theorem confirmable_spec v now : confirmable v now = Ok tt <->
  (v_init v = true /\ v_conf v = false /\ Z.quot (v_ts v) (v_win v) < Z.quot now (v_win v)).
Proof.
  unfold confirmable, window_index. destruct (v_init v); simpl.
  2:{ split; [discriminate|intros [H _]; discriminate]. }
  destruct (v_conf v).
  - split; [discriminate|intros (_ & H & _); discriminate].
  - destruct (Z.quot (v_ts v) (v_win v) <? Z.quot now (v_win v)) eqn:E.
    + split; [intros _; repeat split; lia|reflexivity].
    + split; [discriminate|intros (_ & _ & H); lia].
Qed.

(* a vault is never depositable and confirmable at the same instant *)
Theorem window_exclusive v now : depositable v now = Ok tt -> confirmable v now = Ok tt -> False.
Proof. rewrite depositable_spec, confirmable_spec. lia. Qed.

(* ================= inversion of the operations ================= *)
Lemma update_cum_frame g now g1 : update_cum g now = Ok g1 ->
  g_last_minted_at g1 = g_last_minted_at g /\ g_total g1 = g_total g /\ g_step g1 = g_step g /\
  g_steps g1 = g_steps g /\ g_supply g1 = g_supply g /\ g_vault g1 = g_vault g /\ g_grow g1 = g_grow g /\
  g_cost g1 = g_cost g /\ g_window g1 = g_window g /\ g_ranks g1 = g_ranks g.
Proof.
  unfold update_cum. destruct (div_to_factor _ _ _ _ _); [|discriminate].
  destruct (chk_u _ _); [|discriminate]. intros H; injection H as <-. simpl. repeat split.
Qed.

Lemma next_minting_cost_inv g next r : next_minting_cost g next = Ok r -> g_step g <> 0 /\
  ((r = None /\ next / g_step g = g_steps g) \/
   (exists c, r = Some (next / g_step g, c) /\ next / g_step g <> g_steps g /\
              grow_n (next / g_step g - g_steps g) (g_grow g) (g_cost g) = Some c)).
Proof.
  unfold next_minting_cost. destruct (g_step g =? 0) eqn:E; [discriminate|]. intros H0. split; [lia|]. revert H0.
  destruct (next / g_step g =? g_steps g) eqn:E2.
  - intros H; injection H as <-. left. split; [reflexivity|lia].
  - destruct (grow_n _ _ _) as [c|] eqn:EG; [|discriminate]. intros H; injection H as <-. right. exists c. repeat split; auto; lia.
Qed.

Lemma mint_to_inv g u a now g' u' : a <> 0 -> mint_to g u a now = Ok (g', u') ->
  g_total g' = g_total g + a /\ 0 <= g_total g' < 2 ^ 64 /\ g_supply g' = g_supply g + a /\
  u_amount u' = u_amount u + a /\ u_total u' = u_total u + a /\ u_paid u' = u_paid u /\ u_minted u' = u_minted u /\
  u_rank u' = rank_of (g_ranks g) (u_amount u') /\
  g_step g' = g_step g /\ g_grow g' = g_grow g /\ g_ranks g' = g_ranks g /\ g_vault g' = g_vault g /\ g_step g <> 0 /\
  ((g_total g' / g_step g = g_steps g /\ g_steps g' = g_steps g /\ g_cost g' = g_cost g) \/
   (g_total g' / g_step g <> g_steps g /\ g_steps g' = g_total g' / g_step g /\
    grow_n (g_total g' / g_step g - g_steps g) (g_grow g) (g_cost g) = Some (g_cost g'))).
Proof.
  intros Ha. unfold mint_to. destruct (a =? 0) eqn:E; [lia|]. intros H.
  apply rbind_ok in H. destruct H as (nt & H1 & H). apply of_opt_ok, chk_u_ok in H1. destruct H1 as [-> R1].
  apply rbind_ok in H. destruct H as (nmc & H2 & H).
  apply rbind_ok in H. destruct H as (nut & H3 & H). apply of_opt_ok, chk_u_ok in H3. destruct H3 as [-> R3].
  apply rbind_ok in H. destruct H as (na & H4 & H). apply of_opt_ok, chk_u_ok in H4. destruct H4 as [-> R4].
  apply rbind_ok in H. destruct H as (ns & H5 & H). apply of_opt_ok, chk_u_ok in H5. destruct H5 as [-> R5].
  apply rbind_ok in H. destruct H as (g1 & H6 & H).
  apply update_cum_frame in H6. destruct H6 as (_ & _ & F3 & F4 & _ & F6 & F7 & F8 & _ & F10).
  apply next_minting_cost_inv in H2. destruct H2 as [HS H2].
  destruct H2 as [[-> HE]|(c & -> & HN & HG)]; injection H as <- <-; simpl; rewrite ?F3, ?F4, ?F6, ?F7, ?F8, ?F10;
    repeat split; auto; try lia.
Qed.

Lemma burn_from_inv g u a g' u' : a <> 0 -> burn_from g u a = Ok (g', u') ->
  a <= u_amount u /\ g_total g' = g_total g /\ g_supply g' = g_supply g - a /\ 0 <= g_supply g' /\
  u_amount u' = u_amount u - a /\ u_total u' = u_total u /\ u_paid u' = u_paid u /\ u_minted u' = u_minted u /\
  u_rank u' = rank_of (g_ranks g) (u_amount u') /\
  g_step g' = g_step g /\ g_grow g' = g_grow g /\ g_ranks g' = g_ranks g /\ g_vault g' = g_vault g /\
  g_steps g' = g_steps g /\ g_cost g' = g_cost g.
Proof.
  intros Ha. unfold burn_from. destruct (a =? 0) eqn:E; [lia|]. destruct (u_amount u <? a) eqn:E1; [discriminate|]. intros H.
  apply rbind_ok in H. destruct H as (na & H1 & H). apply of_opt_ok, chk_u_ok in H1. destruct H1 as [-> R1].
  apply rbind_ok in H. destruct H as (ns & H2 & H). apply of_opt_ok, chk_u_ok in H2. destruct H2 as [-> R2].
  injection H as <- <-. simpl. repeat split; auto; lia.
Qed.

(* ================= process_gt: whole affordable units, remainder carried ================= *)
Theorem process_gt_spec g u paid now g' u' reward :
  0 < paid -> 0 <= g_cost g -> 0 <= u_minted u <= u_paid u ->
  process_gt g u paid now = Ok (g', u', reward) ->
  let np := Z.min (2 ^ 128 - 1) (u_paid u + paid) in
  exists m, reward = Some m /\ g_cost g <> 0 /\
    m = (np - u_minted u) / g_cost g /\                    (* whole units affordable at the current cost *)
    u_paid u' = np /\ u_minted u' = u_minted u + m * g_cost g /\
    0 <= u_paid u' - u_minted u' < g_cost g /\             (* the remainder stays unminted *)
    u_amount u' = u_amount u + m /\ g_total g' = g_total g + m.
Proof.
  intros Hp Hc Hu. unfold process_gt. destruct (paid =? 0) eqn:E; [lia|].
  assert (Hnp : sat_u128 (u_paid u + paid) = Z.min (2 ^ 128 - 1) (u_paid u + paid)) by (unfold sat_u128; lia).
  rewrite Hnp. set (np := Z.min (2 ^ 128 - 1) (u_paid u + paid)).
  destruct (np <? u_minted u) eqn:E1; [discriminate|]. intros H.
  apply rbind_ok in H. destruct H as ([[m dv] c] & H1 & H).
  assert (Hv : Z.max 0 (np - u_minted u) = np - u_minted u) by lia. rewrite Hv in H1.
  apply get_mint_amount_spec in H1; [|lia|lia]. destruct H1 as (Hc0 & -> & Hm & Hm64 & -> & Hrem).
  apply rbind_ok in H. destruct H as (nmv & H2 & H). apply of_opt_ok, chk_u_ok in H2. destruct H2 as [-> R2].
  apply rbind_ok in H. destruct H as ([g2 u2] & H3 & H). injection H as <- <- <-.
  exists m. simpl. repeat split; auto; try lia.
  - destruct (Z.eq_dec m 0) as [Em|Em].
    + rewrite Em in H3. unfold mint_to in H3. simpl in H3. injection H3 as <- <-. lia.
    + apply mint_to_inv in H3; [|exact Em]. lia.
  - destruct (Z.eq_dec m 0) as [Em|Em].
    + rewrite Em in H3. unfold mint_to in H3. simpl in H3. injection H3 as <- <-. lia.
    + apply mint_to_inv in H3; [|exact Em]. lia.
Qed.

(* ================= histories ================= *)
Definition op_wf (o : op) : Prop :=
  match o with
  | Mint _ a _ => 0 <= a | Burn _ a => 0 <= a | Proc _ p _ => 0 <= p
  | VInit _ w _ => 0 <= w | Req _ _ a _ => 0 <= a | Conf _ _ => True
  end.

Section Hist.
  Variables (cost0 grow stp : Z) (rk : list Z).
  Hypothesis Hstep : 0 < stp.
  Hypothesis Hcost0 : 0 <= cost0.
  Hypothesis Hgrow : 0 <= grow.
  Hypothesis Hrk : strictly_sorted rk = true.

  Definition user_ok (u : user) : Prop :=
    0 <= u_amount u /\ 0 <= u_total u /\ 0 <= u_minted u <= u_paid u /\
    (u_rank u = count_le (u_amount u) rk \/ (u_total u = 0 /\ u_amount u = 0 /\ u_rank u = 0)).

  Record Inv (s : state) : Prop := mkInv {
    i_step : g_step (s_gt s) = stp;
    i_grow : g_grow (s_gt s) = grow;
    i_ranks : g_ranks (s_gt s) = rk;
    i_total : 0 <= g_total (s_gt s);
    i_steps : g_steps (s_gt s) = g_total (s_gt s) / stp;
    (* the minting cost is a function of the total minted *)
    i_cost : grow_n (g_total (s_gt s) / stp) grow cost0 = Some (g_cost (s_gt s));
    (* buyback-able supply = sum of balances; total minted = sum of per-user totals *)
    i_supply : g_supply (s_gt s) = asum u_amount (s_users s);
    i_totals : g_total (s_gt s) = asum u_total (s_users s);
    i_users : forall k, user_ok (aget user0 (s_users s) k);
    (* non-buybackable vault = confirmed exchange vaults *)
    i_vault : g_vault (s_gt s) = asum (fun v => if v_conf v then v_amount v else 0) (s_vaults s)
  }.

  Lemma grow_n_nonneg n c r : 0 <= c -> grow_n n grow c = Some r -> 0 <= r.
  Proof.
    rewrite grow_n_nat. generalize (Z.to_nat n). intros k. revert c. induction k as [|k IH]; intros c Hc; simpl.
    - intros H; injection H as <-. exact Hc.
    - destruct (grow1 grow c) as [x|] eqn:E; simpl; [|discriminate].
      apply grow1_exact in E; [|exact Hgrow|exact Hc]. destruct E as [-> _]. apply IH.
      apply div_nonneg; [nia|unfold UNIT; lia].
  Qed.

  Lemma cost_nonneg s : Inv s -> 0 <= g_cost (s_gt s).
  Proof. intros I. eapply grow_n_nonneg; [exact Hcost0|apply (i_cost s I)]. Qed.

  Lemma user0_ok : user_ok user0.
  Proof. unfold user_ok, user0; simpl. repeat split; try lia. Qed.

  (* the effect of a successful mint on the invariant *)
  Lemma Inv_mint s u a now g' u' : Inv s -> 0 <= a ->
    mint_to (s_gt s) (aget user0 (s_users s) u) a now = Ok (g', u') ->
    Inv (mkstate g' (aset (s_users s) u u') (s_vaults s) (s_exch s)) /\
    g_total g' = g_total (s_gt s) + a /\ u_amount u' = u_amount (aget user0 (s_users s) u) + a /\
    u_paid u' = u_paid (aget user0 (s_users s) u) /\ u_minted u' = u_minted (aget user0 (s_users s) u).
  Proof.
    intros I Ha H. destruct (Z.eq_dec a 0) as [E|E].
    - subst a. unfold mint_to in H. simpl in H. injection H as <- <-. split; [|lia].
      destruct I. constructor; simpl; auto.
      + rewrite (asum_aset u_amount user0); simpl; lia.
      + rewrite (asum_aset u_total user0); simpl; lia.
      + intros k. rewrite aget_aset. destruct (k =? u); auto.
    - pose proof (i_users s I u) as (U1 & U2 & U3 & U4).
      apply mint_to_inv in H; [|exact E].
      destruct H as (T & TR & SP & UA & UT & UP & UM & UR & GS & GG & GR & GV & GS0 & HC).
      rewrite (i_step s I) in *. rewrite (i_grow s I), (i_ranks s I) in *.
      split; [|lia].
      pose proof (i_cost s I) as IC. pose proof (i_steps s I) as IS. pose proof (i_total s I) as IT.
      assert (A5 : g_steps g' = g_total g' / stp).
      { destruct HC as [(H1 & H2 & H3)|(H1 & H2 & H3)]; [|exact H2]. rewrite H2, <- H1. reflexivity. }
      assert (A6 : grow_n (g_total g' / stp) grow cost0 = Some (g_cost g')).
      { destruct HC as [(H1 & H2 & H3)|(H1 & H2 & H3)].
        - rewrite H3, H1, IS. exact IC.
        - assert (Hle : g_total (s_gt s) / stp <= g_total g' / stp) by (apply div_mono_num; lia).
          replace (g_total g' / stp) with (g_total (s_gt s) / stp + (g_total g' / stp - g_steps (s_gt s))) by lia.
          rewrite grow_n_add; [|apply div_nonneg; lia|lia]. rewrite IC. simpl. exact H3. }
      assert (A7 : g_supply g' = asum u_amount (aset (s_users s) u u')).
      { rewrite (asum_aset u_amount user0) by reflexivity. pose proof (i_supply s I). lia. }
      assert (A8 : g_total g' = asum u_total (aset (s_users s) u u')).
      { rewrite (asum_aset u_total user0) by reflexivity. pose proof (i_totals s I). lia. }
      assert (A9 : forall k, user_ok (aget user0 (aset (s_users s) u u') k)).
      { intros k. rewrite aget_aset. destruct (k =? u); [|apply (i_users s I)].
        unfold user_ok. repeat split; try lia. left. rewrite UR. apply rank_of_count_le. exact Hrk. }
      assert (A10 : g_vault g' = asum (fun v => if v_conf v then v_amount v else 0) (s_vaults s)).
      { rewrite GV. apply (i_vault s I). }
      constructor; simpl; auto; lia.
  Qed.

  Lemma Inv_burn s u a g' u' : Inv s -> 0 <= a ->
    burn_from (s_gt s) (aget user0 (s_users s) u) a = Ok (g', u') ->
    Inv (mkstate g' (aset (s_users s) u u') (s_vaults s) (s_exch s)) /\ g_total g' = g_total (s_gt s) /\
    g_vault g' = g_vault (s_gt s).
  Proof.
    intros I Ha H. destruct (Z.eq_dec a 0) as [E|E].
    - subst a. unfold burn_from in H. simpl in H. injection H as <- <-. split; [|lia].
      destruct I. constructor; simpl; auto.
      + rewrite (asum_aset u_amount user0); simpl; lia.
      + rewrite (asum_aset u_total user0); simpl; lia.
      + intros k. rewrite aget_aset. destruct (k =? u); auto.
    - pose proof (i_users s I u) as (U1 & U2 & U3 & U4).
      apply burn_from_inv in H; [|exact E].
      destruct H as (LE & T & SP & SP0 & UA & UT & UP & UM & UR & GS & GG & GR & GV & GST & GC).
      rewrite (i_ranks s I) in *.
      split; [|lia]. destruct I. constructor; simpl; auto; try lia; try congruence.
      + rewrite (asum_aset u_amount user0) by reflexivity. lia.
      + rewrite (asum_aset u_total user0) by reflexivity. lia.
      + intros k. rewrite aget_aset. destruct (k =? u); [|auto].
        unfold user_ok. repeat split; try lia. left. rewrite UR. apply rank_of_count_le. exact Hrk.
  Qed.

  Lemma step_Inv s o s' : Inv s -> op_wf o -> step s o = Ok s' -> Inv s' /\ g_total (s_gt s) <= g_total (s_gt s').
  Proof.
    intros I W H. destruct o as [u a now|u a|u paid now|v win now|u v a now|v now]; simpl in H, W.
    - apply rbind_ok in H. destruct H as ([g' u'] & H1 & H). injection H as <-.
      destruct (Inv_mint s u a now g' u' I W H1) as (I' & T & _). split; [exact I'|simpl; lia].
    - apply rbind_ok in H. destruct H as ([g' u'] & H1 & H). injection H as <-.
      destruct (Inv_burn s u a g' u' I W H1) as (I' & T & _). split; [exact I'|simpl; lia].
    - apply rbind_ok in H. destruct H as ([[g' u'] rw] & H1 & H). injection H as <-.
      unfold process_gt in H1. destruct (paid =? 0) eqn:E.
      + injection H1 as <- <- <-. split; [|simpl; lia]. destruct I. constructor; simpl; auto.
        * rewrite (asum_aset u_amount user0); simpl; lia.
        * rewrite (asum_aset u_total user0); simpl; lia.
        * intros k. rewrite aget_aset. destruct (k =? u); auto.
      + set (u0 := aget user0 (s_users s) u) in *.
        pose proof (i_users s I u) as (U1 & U2 & U3 & U4). fold u0 in U1, U2, U3, U4.
        assert (Hnp : sat_u128 (u_paid u0 + paid) = Z.min (2 ^ 128 - 1) (u_paid u0 + paid)) by (unfold sat_u128; lia).
        rewrite Hnp in H1. set (np := Z.min (2 ^ 128 - 1) (u_paid u0 + paid)) in *.
        destruct (np <? u_minted u0) eqn:E1; [discriminate|].
        apply rbind_ok in H1. destruct H1 as ([[m dv] c] & G1 & H1).
        pose proof (cost_nonneg s I) as HC.
        assert (Hv : Z.max 0 (np - u_minted u0) = np - u_minted u0) by lia. rewrite Hv in G1.
        apply get_mint_amount_spec in G1; [|lia|lia]. destruct G1 as (Hc0 & -> & Hm & Hm64 & -> & Hrem).
        apply rbind_ok in H1. destruct H1 as (nmv & G2 & H1). apply of_opt_ok, chk_u_ok in G2. destruct G2 as [-> R2].
        apply rbind_ok in H1. destruct H1 as ([g2 u2] & G3 & H1). injection H1 as <- <- <-.
        assert (Hm0 : 0 <= m) by (rewrite Hm; apply div_nonneg; lia).
        destruct (Inv_mint s u m now g2 u2 I Hm0 G3) as (I2 & T & UA & UP & UM). fold u0 in UA, UP, UM.
        split; [|simpl; lia].
        destruct I2 as [J1 J2 J3 J4 J5 J6 J7 J8 J9 J10]. simpl in *.
        constructor; simpl; auto.
        * rewrite (asum_aset u_amount user0) by reflexivity. rewrite (asum_aset u_amount user0) in J7 by reflexivity.
          simpl. lia.
        * rewrite (asum_aset u_total user0) by reflexivity. rewrite (asum_aset u_total user0) in J8 by reflexivity.
          simpl. lia.
        * intros k. specialize (J9 k). rewrite aget_aset in *. destruct (k =? u); [|exact J9].
          destruct J9 as (K1 & K2 & K3 & K4). unfold user_ok. simpl. repeat split; try lia; exact K4.
    - apply rbind_ok in H. destruct H as (v' & H1 & H). injection H as <-. split; [|simpl; lia].
      unfold vault_init in H1. destruct (v_init _) eqn:EI; [discriminate|]. destruct (win =? 0); [discriminate|]. injection H1 as <-.
      destruct I. constructor; simpl; auto.
      rewrite (asum_aset _ vault0) by reflexivity. simpl. lia.
    - apply rbind_ok in H. destruct H as ([[[g' u'] v'] x] & H1 & H). injection H as <-.
      unfold request_exchange in H1. simpl in H1. destruct (v_init _) eqn:EI; simpl in H1; [|discriminate].
      apply rbind_ok in H1. destruct H1 as ([g2 u2] & G1 & H1).
      apply rbind_ok in H1. destruct H1 as ([] & G2 & H1). apply depositable_spec in G2. destruct G2 as [GC _].
      apply rbind_ok in H1. destruct H1 as (va & G3 & H1).
      apply rbind_ok in H1. destruct H1 as (xa & G4 & H1). injection H1 as <- <- <- <-.
      destruct (Inv_burn s u a g2 u2 I W G1) as (I2 & T & GV). split; [|simpl; lia].
      destruct I2. constructor; simpl in *; auto.
      rewrite (asum_aset _ vault0) by reflexivity. simpl. rewrite GC. rewrite i_vault0. lia.
    - apply rbind_ok in H. destruct H as ([[g' v'] amt] & H1 & H). injection H as <-.
      unfold confirm_vault in H1. destruct (v_init _) eqn:EI; simpl in H1; [|discriminate].
      apply rbind_ok in H1. destruct H1 as ([] & G2 & H1). apply confirmable_spec in G2. destruct G2 as (_ & GC & _).
      set (v0 := aget vault0 (s_vaults s) v) in *.
      destruct (v_amount v0 =? 0) eqn:EA.
      + injection H1 as <- <- <-. split; [|simpl; lia]. destruct I. constructor; simpl; auto.
        rewrite (asum_aset _ vault0) by reflexivity. simpl. fold v0. rewrite GC. lia.
      + apply rbind_ok in H1. destruct H1 as (nv & G3 & H1). apply of_opt_ok, chk_u_ok in G3. destruct G3 as [-> R3].
        injection H1 as <- <- <-. split; [|simpl; lia]. destruct I. constructor; simpl; auto.
        rewrite (asum_aset _ vault0) by reflexivity. simpl. fold v0. rewrite GC. lia.
  Qed.

  Lemma step_total_Inv s o : Inv s -> op_wf o -> Inv (step_total s o) /\ g_total (s_gt s) <= g_total (s_gt (step_total s o)).
  Proof.
    intros I W. unfold step_total. destruct (step s o) eqn:E; [eapply step_Inv; eauto|split; [exact I|lia]].
  Qed.

  Theorem run_Inv ops : forall s, Inv s -> Forall op_wf ops ->
    Inv (run s ops) /\ g_total (s_gt s) <= g_total (s_gt (run s ops)).
  Proof.
    induction ops as [|o ops IH]; intros s I F; [split; [exact I|simpl; lia]|].
    inversion F; subst. unfold run. simpl. fold (run (step_total s o) ops).
    destruct (step_total_Inv s o I H1) as [I1 L1]. destruct (IH _ I1 H2) as [I2 L2]. split; [exact I2|lia].
  Qed.

  (* the initial state produced by GtState::init *)
  Lemma Inv_init now ranks g :
    gt_init gt0 now cost0 grow stp ranks = Ok g -> rk = firstn MAX_RANK ranks ->
    Inv (mkstate g [] [] []).
  Proof.
    unfold gt_init, gt0. cbn -[firstn strictly_sorted MAX_RANK]. destruct (stp =? 0) eqn:E; [discriminate|].
    intros H Erk. rewrite <- Erk in H. rewrite Hrk in H. cbn -[firstn strictly_sorted MAX_RANK] in H.
    destruct (match rk with first :: _ => first =? 0 | [] => false end); [discriminate|]. injection H as <-.
    constructor; cbn -[Z.div]; auto; try lia.
    intros k. apply user0_ok.
  Qed.
End Hist.

(* ================= final forms ================= *)
Section Final.
  Variables (t0 cost0 grow stp : Z) (ranks : list Z) (g0 : gt).
  Hypothesis Hc : 0 <= cost0.
  Hypothesis Hg : 0 <= grow.
  Hypothesis Hs : 0 <= stp.
  Hypothesis Hinit : gt_init gt0 t0 cost0 grow stp ranks = Ok g0.

  Let rk := firstn MAX_RANK ranks.

  Hypothesis Hranks : Forall (fun y => 0 <= y) ranks.      (* thresholds are u64 *)

  Lemma init_facts : 0 < stp /\ strictly_sorted rk = true /\ (forall y, In y rk -> 0 < y).
  Proof.
    revert Hinit. unfold gt_init, gt0. cbn -[firstn strictly_sorted MAX_RANK].
    destruct (stp =? 0) eqn:E; [discriminate|]. fold rk. destruct (strictly_sorted rk) eqn:ES; [|discriminate].
    cbn -[firstn strictly_sorted MAX_RANK].
    destruct (match rk with first :: _ => first =? 0 | [] => false end) eqn:EF; [discriminate|]. intros _.
    split; [lia|]. split; [reflexivity|].
    assert (Hnn : forall y, In y rk -> 0 <= y).
    { intros y Hy. rewrite Forall_forall in Hranks. apply Hranks. unfold rk in Hy.
      rewrite <- (firstn_skipn MAX_RANK ranks). apply in_or_app. left. exact Hy. }
    destruct rk as [|a r] eqn:ER; [intros y []|].
    destruct (strictly_sorted_cons a r ES) as [_ Hall].
    assert (Ha : 0 < a). { pose proof (Hnn a (or_introl eq_refl)). destruct (a =? 0) eqn:Ea; [discriminate|lia]. }
    intros y [<-|Hy]; [exact Ha|]. specialize (Hall y Hy). lia.
  Qed.

  Lemma Inv0 : Inv cost0 grow stp rk (mkstate g0 [] [] []).
  Proof. destruct init_facts as (H1 & H2 & _). eapply Inv_init; eauto. Qed.

  Theorem final_all ops : Forall op_wf ops ->
    let s := run (mkstate g0 [] [] []) ops in
    Inv cost0 grow stp rk s /\ 0 <= g_total (s_gt s).
  Proof.
    intros F s. destruct init_facts as (H1 & H2 & _).
    destruct (run_Inv cost0 grow stp rk H1 Hc Hg H2 ops _ Inv0 F) as [I L]. split; [exact I|]. apply (i_total _ _ _ _ _ I).
  Qed.

  Theorem final_supply ops : Forall op_wf ops ->
    let s := run (mkstate g0 [] [] []) ops in
    g_supply (s_gt s) = asum u_amount (s_users s) /\ g_total (s_gt s) = asum u_total (s_users s).
  Proof. intros F s. destruct (final_all ops F) as [I _]. split; [apply (i_supply _ _ _ _ _ I)|apply (i_totals _ _ _ _ _ I)]. Qed.

  Theorem final_cost ops : Forall op_wf ops ->
    let s := run (mkstate g0 [] [] []) ops in
    g_steps (s_gt s) = g_total (s_gt s) / stp /\
    grow_nat (Z.to_nat (g_total (s_gt s) / stp)) grow cost0 = Some (g_cost (s_gt s)).
  Proof.
    intros F s. destruct (final_all ops F) as [I _]. split; [apply (i_steps _ _ _ _ _ I)|].
    rewrite <- grow_n_nat. apply (i_cost _ _ _ _ _ I).
  Qed.

  Theorem final_cost_split_independent ops1 ops2 : Forall op_wf ops1 -> Forall op_wf ops2 ->
    g_total (s_gt (run (mkstate g0 [] [] []) ops1)) = g_total (s_gt (run (mkstate g0 [] [] []) ops2)) ->
    g_cost (s_gt (run (mkstate g0 [] [] []) ops1)) = g_cost (s_gt (run (mkstate g0 [] [] []) ops2)).
  Proof.
    intros F1 F2 E. destruct (final_cost ops1 F1) as [_ C1]. destruct (final_cost ops2 F2) as [_ C2].
    rewrite E in C1. rewrite C1 in C2. injection C2 as ->. reflexivity.
  Qed.

  Theorem final_rank ops k : Forall op_wf ops ->
    let s := run (mkstate g0 [] [] []) ops in
    let u := aget user0 (s_users s) k in
    u_rank u = count_le (u_amount u) rk.
  Proof.
    intros F s u. destruct (final_all ops F) as [I _]. destruct init_facts as (_ & _ & Hpos).
    destruct (i_users _ _ _ _ _ I k) as (_ & _ & _ & [H|(H1 & H2 & H3)]); [exact H|].
    fold s in H1, H2, H3. fold u in H1, H2, H3.
    rewrite H3, H2. symmetry. apply count_le_zero. exact Hpos.
  Qed.

  Theorem final_vault ops : Forall op_wf ops ->
    let s := run (mkstate g0 [] [] []) ops in
    g_vault (s_gt s) = asum (fun v => if v_conf v then v_amount v else 0) (s_vaults s).
  Proof. intros F s. destruct (final_all ops F) as [I _]. apply (i_vault _ _ _ _ _ I). Qed.

  Theorem final_total_monotone ops1 ops2 : Forall op_wf ops1 -> Forall op_wf ops2 ->
    g_total (s_gt (run (mkstate g0 [] [] []) ops1)) <= g_total (s_gt (run (mkstate g0 [] [] []) (ops1 ++ ops2))).
  Proof.
    intros F1 F2. destruct init_facts as (H1 & H2 & _). destruct (final_all ops1 F1) as [I _].
    unfold run. rewrite fold_left_app. fold (run (mkstate g0 [] [] []) ops1).
    apply (run_Inv cost0 grow stp rk H1 Hc Hg H2 ops2 _ I F2).
  Qed.
End Final.

(* one growth step is exactly floor(cost * grow / 10^20) *)
Theorem grow_nat_step n grow c r : 0 <= grow -> 0 <= c ->
  grow_nat (S n) grow c = Some r <-> exists x, grow_nat n grow c = Some x /\ r = x * grow / UNIT /\ r < 2 ^ 128 /\ 0 <= x.
Proof.
  intros Hg Hc. rewrite grow_nat_snoc. split.
  - destruct (grow_nat n grow c) as [x|] eqn:E; simpl; [|discriminate]. intros H.
    assert (Hx : 0 <= x).
    { rewrite <- (Nat2Z.id n) in E. rewrite <- grow_n_nat in E. exact (grow_n_nonneg grow Hg (Z.of_nat n) c x Hc E). }
    apply grow1_exact in H; [|exact Hg|exact Hx]. exists x. tauto.
  - intros (x & -> & Hr & Hlt & Hx). simpl. apply grow1_exact; auto.
Qed.

(* a rank table with a zero threshold is rejected by init (repaired defect ZeroThresholdFreshUser) *)
Lemma zero_threshold_rejected t0 cost grow stp r : gt_init gt0 t0 cost grow stp (0 :: r) <> Ok (mkgt t0 0 stp 0 0 0 0 0 grow cost DEFAULT_WINDOW (firstn MAX_RANK (0 :: r)))
  /\ forall g, gt_init gt0 t0 cost grow stp (0 :: r) <> Ok g.
Proof.
  assert (H : forall g, gt_init gt0 t0 cost grow stp (0 :: r) <> Ok g).
  { intros g. unfold gt_init, gt0. cbn -[strictly_sorted firstn]. destruct (stp =? 0); [discriminate|].
    change (firstn MAX_RANK (0 :: r)) with (0 :: firstn 14 r).
    destruct (strictly_sorted (0 :: firstn 14 r)); cbn; discriminate. }
  split; [apply H|exact H].
Qed.
