(* C22 — lemmas *)
From GV Require Import lib.Base C22.Model.
Open Scope Z_scope.

Ltac inv H := inversion H; subst; clear H.

(* ------------------------------------------------------------------ coverage *)
Definition pool_nonneg (p : pool) : Prop := 0 <= p_l p /\ 0 <= p_s p.
Definition pools_nonneg (m : market) : Prop :=
  pool_nonneg (m_liq m) /\ pool_nonneg (m_imp m) /\ pool_nonneg (m_fee m) /\
  pool_nonneg (m_cl m) /\ pool_nonneg (m_cs m).

(* the recorded balance of one pool-token side, minus [ex] still to be paid out, covers liquidity + swap impact +
   claimable fees, and separately covers the collateral of all positions; raw stored amounts *)
Definition covers_side (m : market) (is_long : bool) (ex : Z) : Prop :=
  if pure m then
    p_l (m_liq m) + p_l (m_imp m) + p_l (m_fee m) <= m_bl m - ex /\ p_l (m_cl m) + p_l (m_cs m) <= m_bl m - ex
  else if is_long then
    p_l (m_liq m) + p_l (m_imp m) + p_l (m_fee m) <= m_bl m - ex /\ p_l (m_cl m) + p_l (m_cs m) <= m_bl m - ex
  else
    p_s (m_liq m) + p_s (m_imp m) + p_s (m_fee m) <= m_bs m - ex /\ p_s (m_cl m) + p_s (m_cs m) <= m_bs m - ex.

Definition covers (m : market) : Prop := covers_side m true 0 /\ covers_side m false 0.

Lemma halves x : 0 <= x -> (x + 1) / 2 + x / 2 = x.
Proof.
  intro H. pose proof (Z.div_mod x 2 ltac:(lia)). pose proof (Z.mod_pos_bound x 2 ltac:(lia)).
  pose proof (Z.div_mod (x + 1) 2 ltac:(lia)). pose proof (Z.mod_pos_bound (x + 1) 2 ltac:(lia)).
  assert (x mod 2 = 0 \/ x mod 2 = 1) as [E|E] by lia.
  - assert ((x + 1) mod 2 = 1).
    { replace (x + 1) with (1 + x) by lia. rewrite <- Zplus_mod_idemp_r, E. reflexivity. }
    lia.
  - assert ((x + 1) mod 2 = 0).
    { replace (x + 1) with (1 + x) by lia. rewrite <- Zplus_mod_idemp_r, E. reflexivity. }
    lia.
Qed.

Lemma chk128_ok z r : chk128 z = Ok r -> r = z.
Proof. unfold chk128. destruct (U128_MAX <? z); [discriminate|]. intro H. inv H. auto. Qed.

Lemma min_balance_side_val m sd r :
  min_balance_side m sd = Ok r ->
  r = amt (pure m) (m_liq m) sd + amt (pure m) (m_imp m) sd + amt (pure m) (m_fee m) sd.
Proof.
  unfold min_balance_side, rbind. intro H.
  destruct (chk128 (amt (pure m) (m_liq m) sd + amt (pure m) (m_imp m) sd)) eqn:E; [|discriminate].
  apply chk128_ok in E. apply chk128_ok in H. lia.
Qed.

Lemma collateral_side_val m sd r :
  collateral_side m sd = Ok r -> r = amt (pure m) (m_cl m) sd + amt (pure m) (m_cs m) sd.
Proof. unfold collateral_side. apply chk128_ok. Qed.

Lemma token_side_spec m tok sd :
  token_side m tok = Some sd -> (sd = true /\ tok = m_long m) \/ (sd = false /\ tok = m_short m /\ tok <> m_long m).
Proof.
  unfold token_side. destruct (tok =? m_long m) eqn:E1.
  - intro H. inv H. apply Z.eqb_eq in E1. auto.
  - destruct (tok =? m_short m) eqn:E2; [|discriminate]. intro H. inv H.
    apply Z.eqb_eq in E2. apply Z.eqb_neq in E1. auto.
Qed.

(* validate_market_balance_for_the_given_token accepts only covered states *)
Lemma validate_token_sound m tok ex :
  pools_nonneg m -> 0 <= ex -> validate_token m tok ex = Ok tt ->
  exists sd, token_side m tok = Some sd /\ covers_side m sd ex.
Proof.
  intros (Hl & Hi & Hf & Hc1 & Hc2) Hex H. unfold validate_token in H.
  destruct (token_side m tok) as [sd|] eqn:Et; [|discriminate]. exists sd. split; auto.
  unfold rbind in H.
  destruct (if ex =? 0 then Ok (balance_for m sd)
            else if balance_for m sd - ex <? 0 then Err 4 else Ok (balance_for m sd - ex)) as [b|] eqn:Eb; [|discriminate].
  assert (Hb : b = balance_for m sd - ex).
  { destruct (ex =? 0) eqn:E0; [apply Z.eqb_eq in E0; inv Eb; lia|].
    destruct (balance_for m sd - ex <? 0); [discriminate|]. inv Eb. auto. }
  destruct (min_balance_side m sd) as [mn|] eqn:Em; [|discriminate]. apply min_balance_side_val in Em.
  unfold covers_side, balance_for in *. destruct Hl, Hi, Hf, Hc1, Hc2.
  destruct (pure m) eqn:Ep.
  - destruct (min_balance_side m (negb sd)) as [o|] eqn:Eo; [|discriminate]. apply min_balance_side_val in Eo.
    destruct (chk128 (mn + o)) as [mn2|] eqn:E2; [|discriminate]. apply chk128_ok in E2.
    destruct (b <? mn2) eqn:E3; [discriminate|]. apply Z.ltb_ge in E3.
    destruct (collateral_side m sd) as [c|] eqn:Ec; [|discriminate]. apply collateral_side_val in Ec.
    destruct (collateral_side m (negb sd)) as [oc|] eqn:Eoc; [|discriminate]. apply collateral_side_val in Eoc.
    destruct (chk128 (c + oc)) as [c2|] eqn:E4; [|discriminate]. apply chk128_ok in E4.
    destruct (b <? c2) eqn:E5; [discriminate|]. apply Z.ltb_ge in E5.
    rewrite Ep in *. rewrite Bool.orb_true_r in Hb.
    unfold amt in *.
    pose proof (halves (p_l (m_liq m))). pose proof (halves (p_l (m_imp m))). pose proof (halves (p_l (m_fee m))).
    pose proof (halves (p_l (m_cl m))). pose proof (halves (p_l (m_cs m))).
    destruct sd; cbn [negb] in *; lia.
  - destruct (b <? mn) eqn:E3; [discriminate|]. apply Z.ltb_ge in E3.
    destruct (collateral_side m sd) as [c|] eqn:Ec; [|discriminate]. apply collateral_side_val in Ec.
    destruct (b <? c) eqn:E5; [discriminate|]. apply Z.ltb_ge in E5.
    rewrite Ep in *. rewrite Bool.orb_false_r in Hb. unfold amt in *.
    destruct sd; lia.
Qed.

(* validate_market_balances *)
Lemma validate_sound m ex_l ex_s :
  pools_nonneg m -> 0 <= ex_l -> 0 <= ex_s -> validate m ex_l ex_s = Ok tt ->
  if pure m then covers_side m true (ex_l + ex_s)
  else covers_side m true ex_l /\ covers_side m false ex_s.
Proof.
  intros Hp Hl Hs H. unfold validate, rbind in H. destruct (pure m) eqn:Ep.
  - destruct (U64_MAX <? ex_l + ex_s); [discriminate|].
    destruct (validate_token m (m_long m) (ex_l + ex_s)) as [[]|] eqn:E; [|discriminate].
    apply validate_token_sound in E as (sd & Ht & Hc); auto; [|lia].
    unfold covers_side in *. rewrite Ep in *. auto.
  - destruct (validate_token m (m_long m) ex_l) as [[]|] eqn:E1; [|discriminate].
    apply validate_token_sound in E1 as (sd1 & Ht1 & Hc1); auto.
    apply validate_token_sound in H as (sd2 & Ht2 & Hc2); auto.
    unfold token_side in Ht1, Ht2. rewrite Z.eqb_refl in Ht1. inv Ht1.
    unfold pure in Ep. rewrite Z.eqb_sym in Ep. rewrite Ep, Z.eqb_refl in Ht2. inv Ht2. auto.
Qed.

(* ------------------------------------------------------------------ bank layer *)
Definition bal_of (m : market) (tok : Z) : Z :=
  if tok =? m_long m then m_bl m else if tok =? m_short m then m_bs m else 0.
Fixpoint total (ms : list market) (tok : Z) : Z :=
  match ms with [] => 0 | m :: r => bal_of m tok + total r tok end.

Definition same_shape (m m' : market) : Prop :=
  m_id m' = m_id m /\ m_long m' = m_long m /\ m_short m' = m_short m /\
  m_liq m' = m_liq m /\ m_imp m' = m_imp m /\ m_fee m' = m_fee m /\ m_cl m' = m_cl m /\ m_cs m' = m_cs m.

Lemma rec_in_spec m tok a m' :
  rec_in m tok a = Ok m' ->
  same_shape m m' /\
  (forall T, bal_of m' T = bal_of m T + (if T =? tok then a else 0)) /\
  (0 <= a -> m_bl m <= m_bl m' /\ m_bs m <= m_bs m').
Proof.
  unfold rec_in, token_side, pure. intro H.
  destruct (tok =? m_long m) eqn:El.
  - apply Z.eqb_eq in El. rewrite Bool.orb_true_r in H.
    destruct (U64_MAX <? m_bl m + a); [discriminate|]. inv H.
    split; [unfold same_shape; cbn; tauto|]. split; [|cbn; lia].
    intro T. unfold bal_of. cbn. destruct (T =? m_long m) eqn:E; [lia|]. destruct (T =? m_short m); lia.
  - destruct (tok =? m_short m) eqn:Es; [|discriminate]. apply Z.eqb_eq in Es.
    rewrite Bool.orb_false_r in H.
    destruct (m_long m =? m_short m) eqn:Ep.
    { apply Z.eqb_eq in Ep. apply Z.eqb_neq in El. congruence. }
    destruct (U64_MAX <? m_bs m + a); [discriminate|]. inv H.
    split; [unfold same_shape; cbn; tauto|]. split; [|cbn; lia].
    intro T. unfold bal_of. cbn. apply Z.eqb_neq in El, Ep.
    destruct (T =? m_long m) eqn:E1.
    + apply Z.eqb_eq in E1. destruct (T =? m_short m) eqn:E2; [apply Z.eqb_eq in E2; congruence|lia].
    + destruct (T =? m_short m); lia.
Qed.

Lemma rec_out_spec m tok a m' :
  rec_out m tok a = Ok m' ->
  same_shape m m' /\
  (forall T, bal_of m' T = bal_of m T - (if T =? tok then a else 0)) /\
  exists sd, token_side m tok = Some sd /\
    (if pure m || sd then m_bl m' = m_bl m - a /\ m_bs m' = m_bs m /\ 0 <= m_bl m - a
     else m_bs m' = m_bs m - a /\ m_bl m' = m_bl m /\ 0 <= m_bs m - a).
Proof.
  unfold rec_out, token_side, pure. intro H.
  destruct (tok =? m_long m) eqn:El.
  - apply Z.eqb_eq in El. rewrite Bool.orb_true_r in H.
    destruct (m_bl m - a <? 0) eqn:E0; [discriminate|]. apply Z.ltb_ge in E0. inv H.
    split; [unfold same_shape; cbn; tauto|]. split.
    + intro T. unfold bal_of. cbn. destruct (T =? m_long m) eqn:E; [lia|]. destruct (T =? m_short m); lia.
    + exists true. rewrite Bool.orb_true_r. cbn. auto.
  - destruct (tok =? m_short m) eqn:Es; [|discriminate]. apply Z.eqb_eq in Es.
    rewrite Bool.orb_false_r in H.
    destruct (m_long m =? m_short m) eqn:Ep.
    { apply Z.eqb_eq in Ep. apply Z.eqb_neq in El. congruence. }
    destruct (m_bs m - a <? 0) eqn:E0; [discriminate|]. apply Z.ltb_ge in E0. inv H.
    split; [unfold same_shape; cbn; tauto|]. split.
    + intro T. unfold bal_of. cbn. apply Z.eqb_neq in El, Ep.
      destruct (T =? m_long m) eqn:E1.
      * apply Z.eqb_eq in E1. destruct (T =? m_short m) eqn:E2; [apply Z.eqb_eq in E2; congruence|lia].
      * destruct (T =? m_short m); lia.
    + exists false. rewrite Bool.orb_false_r. cbn. auto.
Qed.

Lemma rec_in_bal m tok a m' :
  rec_in m tok a = Ok m' ->
  exists sd, token_side m tok = Some sd /\
    (if pure m || sd then m_bl m' = m_bl m + a /\ m_bs m' = m_bs m else m_bs m' = m_bs m + a /\ m_bl m' = m_bl m).
Proof.
  unfold rec_in. destruct (token_side m tok) as [sd|]; [|discriminate]. intro H. exists sd. split; auto.
  destruct (pure m || sd).
  - destruct (U64_MAX <? m_bl m + a); [discriminate|]. inv H. cbn. auto.
  - destruct (U64_MAX <? m_bs m + a); [discriminate|]. inv H. cbn. auto.
Qed.

(* ------------------------------------------------------------------ lists *)
Lemma find_In ms id m : find ms id = Some m -> In m ms /\ m_id m = id.
Proof.
  induction ms; cbn; [discriminate|]. destruct (m_id a =? id) eqn:E.
  - intro H. inv H. apply Z.eqb_eq in E. auto.
  - intro H. destruct (IHms H). auto.
Qed.

Lemma upd_In ms m' x : In x (upd ms m') -> x = m' \/ In x ms.
Proof.
  induction ms; cbn; auto. destruct (m_id a =? m_id m'); cbn; intros [H|H]; auto.
  destruct (IHms H); auto.
Qed.

Lemma total_upd ms m m' T :
  find ms (m_id m') = Some m -> total (upd ms m') T = total ms T - bal_of m T + bal_of m' T.
Proof.
  induction ms; cbn; [discriminate|]. destruct (m_id a =? m_id m') eqn:E.
  - intro H. inv H. cbn. lia.
  - intro H. cbn. rewrite (IHms H). lia.
Qed.

Lemma find_upd_other ms m' id : id <> m_id m' -> find (upd ms m') id = find ms id.
Proof.
  intro Hne. induction ms; cbn; auto. destruct (m_id a =? m_id m') eqn:E.
  - cbn. apply Z.eqb_eq in E. destruct (m_id m' =? id) eqn:E1; [apply Z.eqb_eq in E1; congruence|].
    destruct (m_id a =? id) eqn:E2; [apply Z.eqb_eq in E2; congruence|]. auto.
  - cbn. destruct (m_id a =? id); auto.
Qed.

Lemma vault_set vs t b t' : vault (set_vault vs t b) t' = if t' =? t then b else vault vs t'.
Proof.
  induction vs as [|[x y] r IH]; cbn.
  - destruct (t =? t') eqn:E; rewrite Z.eqb_sym, E; auto.
  - destruct (x =? t) eqn:E.
    + apply Z.eqb_eq in E. subst. cbn. destruct (t =? t') eqn:E1; rewrite Z.eqb_sym, E1; auto.
    + cbn. destruct (x =? t') eqn:E1.
      * apply Z.eqb_eq in E1. subst. rewrite E. auto.
      * apply IH.
Qed.

(* ------------------------------------------------------------------ invariants *)
Definition mok (m : market) : Prop := pools_nonneg m /\ covers m /\ 0 <= m_bl m /\ 0 <= m_bs m.

Definition winv (w : world) : Prop :=
  (forall m, In m (w_markets w) -> mok m) /\
  (forall T, total (w_markets w) T <= vault (w_vaults w) T).

(* pool amounts are unsigned in the program *)
Definition op_wf (o : op) : Prop :=
  match o with
  | Operate _ liq imp fee cl cs _ _ => pool_nonneg liq /\ pool_nonneg imp /\ pool_nonneg fee /\ pool_nonneg cl /\ pool_nonneg cs
  | _ => True
  end.

Lemma covers_same_shape m m' :
  same_shape m m' -> m_bl m <= m_bl m' -> m_bs m <= m_bs m' -> covers m -> covers m'.
Proof.
  intros (I & L & S & A & B & C & D & E) Hl Hs [H1 H2]. unfold covers, covers_side, pure in *.
  rewrite L, S, A, B, C, D, E. destruct (m_long m =? m_short m); split; lia.
Qed.

Lemma pools_same_shape m m' : same_shape m m' -> pools_nonneg m -> pools_nonneg m'.
Proof. intros (I & L & S & A & B & C & D & E). unfold pools_nonneg. rewrite A, B, C, D, E. auto. Qed.

Lemma mok_rec_in m tok a m' : mok m -> 0 <= a -> rec_in m tok a = Ok m' -> mok m'.
Proof.
  intros (P & C & Bl & Bs) Ha H. apply rec_in_spec in H as (S & _ & M). destruct (M Ha) as [M1 M2].
  split; [eapply pools_same_shape; eauto|]. split; [eapply covers_same_shape; eauto|]. lia.
Qed.

Lemma pure_shape m m' : same_shape m m' -> pure m' = pure m.
Proof. intros (I & L & S & _). unfold pure. rewrite L, S. auto. Qed.

(* validated with the outputs excluded, then the outputs are paid: the market ends covered *)
Lemma validated_then_paid m ol os m2 m3 :
  pools_nonneg m -> 0 <= ol -> 0 <= os -> 0 <= m_bl m -> 0 <= m_bs m ->
  validate m ol os = Ok tt ->
  rec_out m (m_long m) ol = Ok m2 -> rec_out m2 (m_short m2) os = Ok m3 ->
  mok m3 /\ same_shape m m3.
Proof.
  intros P Hl Hs Bl Bs V R1 R2.
  apply validate_sound in V; auto.
  apply rec_out_spec in R1 as (S1 & _ & sd1 & T1 & B1).
  apply rec_out_spec in R2 as (S2 & _ & sd2 & T2 & B2).
  pose proof (pure_shape _ _ S1) as Pu1.
  assert (S13 : same_shape m m3).
  { destruct S1 as (a1&a2&a3&a4&a5&a6&a7&a8), S2 as (b1&b2&b3&b4&b5&b6&b7&b8).
    unfold same_shape. repeat split; congruence. }
  split; auto.
  unfold token_side in T1. rewrite Z.eqb_refl in T1. inv T1. rewrite Bool.orb_true_r in B1.
  destruct B1 as (E1 & E2 & E3).
  destruct S13 as (I & L & S & A & B & C & D & E).
  unfold mok, pools_nonneg, covers, covers_side, pure in *.
  rewrite L, S, A, B, C, D, E.
  destruct (m_long m =? m_short m) eqn:Ep.
  - (* pure: both outputs come out of the single balance *)
    rewrite Pu1 in B2. cbn [orb] in B2. destruct B2 as (F1 & F2 & F3).
    split; [exact P|]. lia.
  - rewrite Pu1 in B2. cbn [orb] in B2.
    destruct S1 as (_ & L1 & S1' & _). unfold token_side in T2. rewrite L1, S1' in T2.
    rewrite Z.eqb_sym in Ep. rewrite Ep, Z.eqb_refl in T2. inv T2.
    destruct B2 as (F1 & F2 & F3). destruct V as [V1 V2].
    split; [exact P|]. lia.
Qed.

(* a market that gives tokens away and is then validated (fully, or for the moved token only) stays covered *)
Lemma mok_moved_out m tok a m' (full : bool) :
  mok m -> 0 <= a -> rec_out m tok a = Ok m' ->
  (if full then validate m' 0 0 else validate_token m' tok 0) = Ok tt -> mok m'.
Proof.
  intros (P & [C1 C2] & Bl & Bs) Ha R V.
  apply rec_out_spec in R as (S & _ & sd & T & B).
  pose proof (pools_same_shape _ _ S P) as P'. pose proof (pure_shape _ _ S) as Pu.
  assert (Bal : 0 <= m_bl m' /\ 0 <= m_bs m').
  { destruct (pure m || sd); lia. }
  split; auto. split; [|exact Bal].
  destruct full.
  - apply validate_sound in V; auto; try lia. unfold covers. destruct (pure m') eqn:Ep.
    + replace (0 + 0) with 0 in V by lia. split; auto. unfold covers_side in *. rewrite Ep in *. auto.
    + exact V.
  - apply validate_token_sound in V as (sd' & T' & Cv); auto; try lia.
    destruct S as (I & L & Sh & A & Bq & Cq & D & E).
    assert (sd' = sd) by (unfold token_side in *; rewrite L, Sh in T'; congruence). subst sd'.
    unfold covers, covers_side in *. rewrite Pu in *. rewrite A, Bq, Cq, D, E in *.
    destruct (pure m) eqn:Ep.
    + cbn [orb] in B. split; auto.
    + cbn [orb] in B. destruct sd.
      * destruct B as (B1 & B2 & B3). rewrite B2. split; auto.
      * destruct B as (B1 & B2 & B3). rewrite B2. split; auto.
Qed.

Lemma total_pay ms vs tok a T :
  total ms T - (if T =? tok then a else 0) <= vault vs T - (if T =? tok then a else 0) ->
  total ms T - (if T =? tok then a else 0) <= vault (set_vault vs tok (vault vs tok - a)) T.
Proof.
  intro H. rewrite vault_set. destruct (T =? tok) eqn:E; [apply Z.eqb_eq in E; subst; lia|lia].
Qed.

Lemma step_winv w o w' : winv w -> op_wf o -> step w o = Ok w' -> winv w'.
Proof.
  intros [Hm Hv] Hwf H. destruct o; cbn [step] in H.
  - (* TransferIn *)
    destruct (find (w_markets w) id) as [m|] eqn:Ef; [|discriminate].
    destruct (a <? 0) eqn:Ea; [discriminate|]. apply Z.ltb_ge in Ea. unfold rbind in H.
    destruct (rec_in m tok a) as [m'|] eqn:Er; [|discriminate]. inv H.
    pose proof (find_In _ _ _ Ef) as [Hin Hid].
    pose proof (rec_in_spec _ _ _ _ Er) as (S & Bal & _).
    assert (Ef' : find (w_markets w) (m_id m') = Some m) by (destruct S as (I & _); rewrite I, Hid; auto).
    split; cbn [w_markets w_vaults].
    + intros x Hx. apply upd_In in Hx as [->|Hx]; auto. eapply mok_rec_in; eauto.
    + intro T. rewrite (total_upd _ _ _ _ Ef'), Bal, vault_set. specialize (Hv T).
      destruct (T =? tok) eqn:E; [apply Z.eqb_eq in E; subst|]; lia.
  - (* InThenOut *)
    destruct (find (w_markets w) id) as [m|] eqn:Ef; [|discriminate].
    destruct (a <? 0) eqn:Ea; [discriminate|]. apply Z.ltb_ge in Ea. unfold rbind in H.
    destruct (rec_in m tok a) as [m'|] eqn:Er; [|discriminate].
    destruct (rec_out m' tok a) as [m''|] eqn:Eo; [|discriminate]. inv H.
    pose proof (find_In _ _ _ Ef) as [Hin Hid].
    pose proof (rec_in_spec _ _ _ _ Er) as (S1 & Bal1 & _).
    pose proof (rec_in_bal _ _ _ _ Er) as (sd1 & T1 & B1).
    pose proof (rec_out_spec _ _ _ _ Eo) as (S2 & Bal2 & sd2 & T2 & B2).
    assert (S : same_shape m m'').
    { destruct S1 as (a1&a2&a3&a4&a5&a6&a7&a8), S2 as (b1&b2&b3&b4&b5&b6&b7&b8).
      unfold same_shape. repeat split; congruence. }
    assert (Hsd : sd2 = sd1).
    { destruct S1 as (_ & L & Sh & _). unfold token_side in *. rewrite L, Sh in T2. congruence. }
    subst sd2. rewrite (pure_shape _ _ S1) in B2.
    assert (Hb : m_bl m'' = m_bl m /\ m_bs m'' = m_bs m) by (destruct (pure m || sd1); lia).
    assert (Ef' : find (w_markets w) (m_id m'') = Some m) by (destruct S as (I & _); rewrite I, Hid; auto).
    split; cbn [w_markets w_vaults].
    + intros x Hx. apply upd_In in Hx as [->|Hx]; auto. destruct (Hm m Hin) as (P & C & Bl & Bs).
      split; [eapply pools_same_shape; eauto|]. split; [eapply covers_same_shape; eauto; lia|lia].
    + intro T. rewrite (total_upd _ _ _ _ Ef'), Bal2, Bal1. specialize (Hv T). lia.
  - (* Move *)
    destruct (find (w_markets w) from) as [mf|] eqn:Ef; [|discriminate].
    destruct (find (w_markets w) to) as [mt|] eqn:Et; [|discriminate].
    destruct ((a <? 0) || (from =? to)) eqn:Ea; [discriminate|].
    apply Bool.orb_false_iff in Ea as [Ea Ene]. apply Z.ltb_ge in Ea. apply Z.eqb_neq in Ene.
    unfold rbind in H.
    destruct (rec_out mf tok a) as [mf'|] eqn:Eo; [|discriminate].
    destruct (if full then validate mf' 0 0 else validate_token mf' tok 0) as [[]|] eqn:Ev; [|discriminate].
    destruct (rec_in mt tok a) as [mt'|] eqn:Ei; [|discriminate]. inv H.
    pose proof (find_In _ _ _ Ef) as [Hinf Hidf]. pose proof (find_In _ _ _ Et) as [Hint Hidt].
    pose proof (rec_out_spec _ _ _ _ Eo) as (Sf & Balf & _).
    pose proof (rec_in_spec _ _ _ _ Ei) as (St & Balt & _).
    assert (Ef' : find (w_markets w) (m_id mf') = Some mf) by (destruct Sf as (I & _); rewrite I, Hidf; auto).
    assert (Et' : find (upd (w_markets w) mf') (m_id mt') = Some mt).
    { destruct St as (I & _). rewrite I, Hidt. rewrite find_upd_other; auto.
      destruct Sf as (I' & _). rewrite I', Hidf. auto. }
    split; cbn [w_markets w_vaults].
    + intros x Hx. apply upd_In in Hx as [->|Hx].
      * eapply mok_rec_in; eauto.
      * apply upd_In in Hx as [->|Hx]; auto. apply (mok_moved_out mf tok a mf' full); auto.
    + intro T. rewrite (total_upd _ _ _ _ Et'), (total_upd _ _ _ _ Ef'), Balt, Balf. specialize (Hv T). lia.
  - (* Donate *)
    destruct (a <? 0) eqn:Ea; [discriminate|]. apply Z.ltb_ge in Ea. inv H.
    split; cbn [w_markets w_vaults]; auto.
    intro T. rewrite vault_set. specialize (Hv T). destruct (T =? tok) eqn:E; [apply Z.eqb_eq in E; subst|]; lia.
  - (* Operate *)
    destruct (find (w_markets w) id) as [m|] eqn:Ef; [|discriminate].
    destruct ((out_l <? 0) || (out_s <? 0)) eqn:Eo; [discriminate|].
    apply Bool.orb_false_iff in Eo as [Eo1 Eo2]. apply Z.ltb_ge in Eo1, Eo2.
    unfold rbind in H.
    set (m1 := with_pools m liq imp fee cl cs) in *.
    destruct (validate m1 out_l out_s) as [[]|] eqn:Ev; [|discriminate].
    destruct (rec_out m1 (m_long m1) out_l) as [m2|] eqn:E1; [|discriminate].
    destruct (rec_out m2 (m_short m2) out_s) as [m3|] eqn:E2; [|discriminate].
    unfold pay_out in H.
    destruct (vault (w_vaults w) (m_long m) - out_l <? 0); [discriminate|]. cbn [w_vaults w_markets] in H.
    destruct (vault (set_vault (w_vaults w) (m_long m) (vault (w_vaults w) (m_long m) - out_l)) (m_short m) - out_s <? 0);
      [discriminate|]. inv H.
    pose proof (find_In _ _ _ Ef) as [Hin Hid].
    destruct (Hm m Hin) as (P & C & Bl & Bs).
    assert (P1 : pools_nonneg m1) by (unfold m1, pools_nonneg; cbn; exact Hwf).
    destruct (validated_then_paid m1 out_l out_s m2 m3 P1 Eo1 Eo2 Bl Bs Ev E1 E2) as (Hok & S13).
    pose proof (rec_out_spec _ _ _ _ E1) as (S12 & Bal1 & _).
    pose proof (rec_out_spec _ _ _ _ E2) as (S23 & Bal2 & _).
    assert (Ef' : find (w_markets w) (m_id m3) = Some m) by (destruct S13 as (I & _); rewrite I; cbn; rewrite Hid; auto).
    assert (Hbal1 : forall T, bal_of m1 T = bal_of m T) by (intro T; reflexivity).
    assert (Hs2 : m_short m2 = m_short m) by (destruct S12 as (_ & _ & X & _); exact X).
    split; cbn [w_markets w_vaults].
    + intros x Hx. apply upd_In in Hx as [->|Hx]; auto.
    + intro T. rewrite (total_upd _ _ _ _ Ef'), Bal2, Bal1, Hbal1, Hs2. cbn [m_long m1 with_pools].
      rewrite !vault_set. specialize (Hv T).
      destruct (T =? m_short m) eqn:ES; destruct (T =? m_long m) eqn:EL;
        destruct (m_short m =? m_long m) eqn:ESL;
        repeat match goal with
               | H : (_ =? _) = true |- _ => apply Z.eqb_eq in H
               | H : (_ =? _) = false |- _ => apply Z.eqb_neq in H
               end;
        try (exfalso; congruence); try (subst T; try rewrite ESL in *; lia); try lia.
  - (* ClaimFees *)
    destruct (find (w_markets w) id) as [m|] eqn:Ef; [|discriminate].
    destruct (token_side m tok) as [sd|] eqn:Et; [|discriminate].
    set (a1 := Z.min (amt (pure m) (m_fee m) sd) U64_MAX) in *.
    set (a2 := if pure m then Z.min (amt (pure m) (m_fee m) (negb sd)) U64_MAX else 0) in *.
    destruct (U64_MAX <? a1 + a2); [discriminate|]. unfold rbind in H.
    set (fee' := if pure m then mkPool (p_l (m_fee m) - a1 - a2) (p_s (m_fee m))
                 else if sd then mkPool (p_l (m_fee m) - a1) (p_s (m_fee m))
                 else mkPool (p_l (m_fee m)) (p_s (m_fee m) - a1)) in *.
    set (m1 := with_pools m (m_liq m) (m_imp m) fee' (m_cl m) (m_cs m)) in *.
    destruct (validate_token m1 tok (a1 + a2)) as [[]|] eqn:Ev; [|discriminate].
    destruct (rec_out m1 tok (a1 + a2)) as [m2|] eqn:Eo; [|discriminate].
    unfold pay_out in H. destruct (vault (w_vaults w) tok - (a1 + a2) <? 0); [discriminate|]. inv H.
    pose proof (find_In _ _ _ Ef) as [Hin Hid].
    destruct (Hm m Hin) as ((Pl & Pi & Pf & Pc1 & Pc2) & [C1 C2] & Bl & Bs).
    (* amounts claimed are within the fee pool *)
    assert (Ha : 0 <= a1 /\ 0 <= a2 /\
                 (if pure m then a1 + a2 <= p_l (m_fee m)
                  else if sd then a1 <= p_l (m_fee m) else a1 <= p_s (m_fee m))).
    { destruct Pf as [Pf1 Pf2]. unfold a1, a2, amt. destruct (pure m).
      - pose proof (halves (p_l (m_fee m)) Pf1).
        assert (0 <= (p_l (m_fee m) + 1) / 2) by (apply Z.div_pos; lia).
        assert (0 <= p_l (m_fee m) / 2) by (apply Z.div_pos; lia).
        unfold U64_MAX. destruct sd; cbn [negb]; lia.
      - unfold U64_MAX. destruct sd; lia. }
    destruct Ha as (Ha1 & Ha2 & Ha3).
    assert (P1 : pools_nonneg m1).
    { unfold m1, pools_nonneg, fee'. cbn [m_liq m_imp m_fee m_cl m_cs with_pools].
      split; [exact Pl|]. split; [exact Pi|]. split; [|split; [exact Pc1|exact Pc2]].
      destruct Pf as [Pf1 Pf2]. unfold pool_nonneg. destruct (pure m); [|destruct sd]; cbn [p_l p_s]; lia. }
    pose proof Ev as Ev'. apply validate_token_sound in Ev' as (sd' & T' & Cv); auto; [|lia].
    assert (sd' = sd) by (unfold token_side in *; cbn in T'; congruence). subst sd'.
    pose proof (rec_out_spec _ _ _ _ Eo) as (S & Bal & sd2 & T2 & B2).
    assert (sd2 = sd) by (unfold token_side in *; cbn in T2; congruence). subst sd2.
    assert (Pu1 : pure m1 = pure m) by reflexivity. rewrite Pu1 in B2.
    assert (Ef' : find (w_markets w) (m_id m2) = Some m) by (destruct S as (I & _); rewrite I; cbn; rewrite Hid; auto).
    split; cbn [w_markets w_vaults].
    + intros x Hx. apply upd_In in Hx as [->|Hx]; auto.
      pose proof (pools_same_shape _ _ S P1) as P2. pose proof (pure_shape _ _ S) as Pu2.
      destruct S as (I & L & Sh & A & Bq & Cq & D & E).
      split; auto. unfold covers, covers_side in *. rewrite Pu2, Pu1 in *. rewrite A, Bq, Cq, D, E.
      cbn [m_liq m_imp m_fee m_cl m_cs m_bl m_bs m1 with_pools] in *.
      unfold fee' in *. destruct (pure m) eqn:Ep.
      * cbn [orb] in B2. cbn [p_l p_s] in *. lia.
      * cbn [orb] in B2. destruct sd; cbn [p_l p_s] in *; lia.
    + intro T. rewrite (total_upd _ _ _ _ Ef'), Bal. change (bal_of m1 T) with (bal_of m T).
      rewrite vault_set. specialize (Hv T). destruct (T =? tok) eqn:E; [apply Z.eqb_eq in E; subst|]; lia.
Qed.

Lemma apply_winv w o : winv w -> op_wf o -> winv (apply w o).
Proof. intros W Hwf. unfold apply. destruct (step w o) eqn:E; auto. eapply step_winv; eauto. Qed.

Lemma run_winv ops : forall w, winv w -> Forall op_wf ops -> winv (run ops w).
Proof.
  induction ops; intros w W Hf; cbn; auto. inv Hf. apply IHops; auto. apply apply_winv; auto.
Qed.

Definition w_empty : world := mkWorld [] [].

(* an initial world: markets created with empty pools and no recorded balance, empty vaults *)
Definition fresh (id long short : Z) : market :=
  mkMarket id long short 0 0 (mkPool 0 0) (mkPool 0 0) (mkPool 0 0) (mkPool 0 0) (mkPool 0 0).

Lemma winv_fresh (l : list (Z * Z * Z)) :
  winv (mkWorld (map (fun x => fresh (fst (fst x)) (snd (fst x)) (snd x)) l) []).
Proof.
  split; cbn [w_markets w_vaults].
  - intros m Hin. apply in_map_iff in Hin as (x & <- & _).
    unfold mok, pools_nonneg, pool_nonneg, covers, covers_side, fresh. cbn.
    destruct (pure _); repeat split; lia.
  - intro T. cbn. induction l; cbn; [lia|]. unfold bal_of at 1. cbn.
    destruct (T =? _); [lia|]. destruct (T =? _); lia.
Qed.

Lemma validate_excluding_sound m t1 t2 a1 a2 :
  0 <= a1 -> 0 <= a2 -> validate_excluding m t1 t2 a1 a2 = Ok tt ->
  exists l s, validate m l s = Ok tt /\ 0 <= l /\ 0 <= s /\ l + s = a1 + a2 /\
    (a1 <> 0 -> token_side m t1 <> None) /\ (a2 <> 0 -> token_side m t2 <> None).
Proof.
  intros H1 H2 H. unfold validate_excluding, rbind in H.
  destruct (excl_add m (excl_add m (Ok (0, 0)) t1 a1) t2 a2) as [[l s]|] eqn:E; [|discriminate].
  exists l, s. split; auto.
  unfold excl_add at 2 in E. cbn [rbind] in E. unfold excl_add, rbind in E.
  destruct (a1 =? 0) eqn:E1.
  - apply Z.eqb_eq in E1. destruct (a2 =? 0) eqn:E2.
    + apply Z.eqb_eq in E2. inv E. repeat split; try lia; congruence.
    + apply Z.eqb_neq in E2. destruct (token_side m t2) as [[]|] eqn:T2; try discriminate.
      * destruct (U64_MAX <? 0 + a2); [discriminate|]. inv E. repeat split; try lia; congruence.
      * destruct (U64_MAX <? 0 + a2); [discriminate|]. inv E. repeat split; try lia; congruence.
  - apply Z.eqb_neq in E1. destruct (token_side m t1) as [[]|] eqn:T1; try discriminate.
    + destruct (U64_MAX <? 0 + a1); [discriminate|]. destruct (a2 =? 0) eqn:E2.
      * apply Z.eqb_eq in E2. inv E. repeat split; try lia; congruence.
      * apply Z.eqb_neq in E2. destruct (token_side m t2) as [[]|] eqn:T2; try discriminate.
        -- destruct (U64_MAX <? 0 + a1 + a2); [discriminate|]. inv E. repeat split; try lia; congruence.
        -- destruct (U64_MAX <? 0 + a2); [discriminate|]. inv E. repeat split; try lia; congruence.
    + destruct (U64_MAX <? 0 + a1); [discriminate|]. destruct (a2 =? 0) eqn:E2.
      * apply Z.eqb_eq in E2. inv E. repeat split; try lia; congruence.
      * apply Z.eqb_neq in E2. destruct (token_side m t2) as [[]|] eqn:T2; try discriminate.
        -- destruct (U64_MAX <? 0 + a2); [discriminate|]. inv E. repeat split; try lia; congruence.
        -- destruct (U64_MAX <? 0 + a1 + a2); [discriminate|]. inv E. repeat split; try lia; congruence.
Qed.
