(* C22 — property theorems (statements pinned; proofs in Proofs.v). *)
From GV Require Import lib.Base C22.Model C22.Proofs.
Open Scope Z_scope.

(* ---------- what an accepted validation guarantees ---------- *)
(* validate_market_balance_for_the_given_token: the recorded balance of that token, minus the excluded amount,
   covers liquidity + swap impact + claimable fees, and separately all position collateral (raw stored amounts;
   a pure market keeps one amount per pool and one balance) *)
Theorem c22_validate_token_sound : forall m tok ex,
  pools_nonneg m -> 0 <= ex -> validate_token m tok ex = Ok tt ->
  exists sd, token_side m tok = Some sd /\ covers_side m sd ex.
Proof. exact validate_token_sound. Qed.

Theorem c22_validate_sound : forall m ex_l ex_s,
  pools_nonneg m -> 0 <= ex_l -> 0 <= ex_s -> validate m ex_l ex_s = Ok tt ->
  if pure m then covers_side m true (ex_l + ex_s)
  else covers_side m true ex_l /\ covers_side m false ex_s.
Proof. exact validate_sound. Qed.

Theorem c22_validate_excluding_sound : forall m t1 t2 a1 a2,
  0 <= a1 -> 0 <= a2 -> validate_excluding m t1 t2 a1 a2 = Ok tt ->
  exists l s, validate m l s = Ok tt /\ 0 <= l /\ 0 <= s /\ l + s = a1 + a2 /\
    (a1 <> 0 -> token_side m t1 <> None) /\ (a2 <> 0 -> token_side m t2 <> None).
Proof. exact validate_excluding_sound. Qed.

(* validated with the outputs excluded, then the outputs are recorded out: the market ends covered with nothing
   excluded (the shape of unchecked_withdraw / decrease orders followed by MarketTransferOut) *)
Theorem c22_validated_then_paid : forall m ol os m2 m3,
  pools_nonneg m -> 0 <= ol -> 0 <= os -> 0 <= m_bl m -> 0 <= m_bs m ->
  validate m ol os = Ok tt ->
  rec_out m (m_long m) ol = Ok m2 -> rec_out m2 (m_short m2) os = Ok m3 ->
  mok m3 /\ same_shape m m3.
Proof. exact validated_then_paid. Qed.

(* ---------- histories ---------- *)
(* one successful operation keeps every market covered and the markets' claims within the vaults *)
Theorem c22_operation_ends_validated : forall w o w',
  winv w -> op_wf o -> step w o = Ok w' -> winv w'.
Proof. exact step_winv. Qed.

(* every history of transfers in, failed-execution round trips, moves between markets sharing a vault,
   donations, validated market operations and fee claims, starting from freshly created markets and empty
   vaults: every market is covered (both pool tokens, liquidity + impact + fees and separately collateral),
   and for every token the recorded balances of all markets together never exceed the vault *)
Theorem c22_solvent_after_every_history : forall l ops,
  Forall op_wf ops ->
  let w := run ops (mkWorld (map (fun x => fresh (fst (fst x)) (snd (fst x)) (snd x)) l) []) in
  (forall m, In m (w_markets w) -> pools_nonneg m /\ covers m /\ 0 <= m_bl m /\ 0 <= m_bs m) /\
  (forall T, total (w_markets w) T <= vault (w_vaults w) T).
Proof.
  intros l ops Hf w. destruct (run_winv ops _ (winv_fresh l) Hf) as [H1 H2]. split; auto.
Qed.

(* ---------- non-vacuity ---------- *)
Definition demo_ops : list op :=
  [ TransferIn 0 10 1000; TransferIn 0 11 800; TransferIn 1 10 500;
    Operate 0 (mkPool 900 700) (mkPool 50 0) (mkPool 20 30) (mkPool 300 100) (mkPool 100 0) 0 0;
    Operate 0 (mkPool 900 700) (mkPool 50 0) (mkPool 20 30) (mkPool 300 100) (mkPool 100 0) 31 0;   (* rejected *)
    Move 0 1 10 30 true;
    Move 0 1 10 1 true;                                                                             (* rejected *)
    Donate 10 7;
    ClaimFees 0 11;
    Operate 0 (mkPool 800 600) (mkPool 50 0) (mkPool 20 0) (mkPool 300 100) (mkPool 100 0) 100 70 ].

Example c22_demo :
  let w := run demo_ops (mkWorld [fresh 0 10 11; fresh 1 10 11] []) in
  map (fun m => (m_bl m, m_bs m)) (w_markets w) = [(870, 700); (530, 0)] /\
  vault (w_vaults w) 10 = 1407 /\ vault (w_vaults w) 11 = 700.
Proof. vm_compute. repeat split. Qed.
