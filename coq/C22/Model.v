(* C22 — vault solvency.  Definitions only.

   Real code modelled:
   * programs/store/src/states/market/utils.rs     ValidateMarketBalances::{validate_market_balance_for_the_given_token,
                                                   validate_market_balances,
                                                   validate_market_balances_excluding_the_given_token_amounts}
   * crates/model/src/market/base.rs               expected_min_token_balance_excluding_collateral_amount_for_one_token_side,
                                                   total_collateral_amount_for_one_token_side
   * crates/model/src/bank.rs                      balance_excluding
   * programs/store/src/states/market/pool.rs      Pool (pure pools keep one amount, reported as ceil / floor halves)
   * programs/store/src/states/market/revertible/market.rs   record_transferred_in/out, balance_for_token
   * programs/store/src/ops/market.rs              MarketTransferIn/OutOperation (vault movement + record + commit),
                                                   unchecked_withdraw / unchecked_deposit (validate, then transfer out)
   The token movements themselves (SPL transfers between escrows and vaults) are modelled as the vault counter. *)
From GV Require Import lib.Base.
Open Scope Z_scope.

(* error codes: 3 InvalidArgument (not a pool token of the market), 4 Model (InvalidTokenBalance / underflow when
   excluding / overflow in the sums), 9 TokenAmountOverflow, 20 vault has insufficient funds (SPL transfer fails) *)

Definition U64_MAX : Z := 2 ^ 64 - 1.
Definition U128_MAX : Z := 2 ^ 128 - 1.

(* a pool: the two stored amounts; pure pools only use the first *)
Record pool := mkPool { p_l : Z; p_s : Z }.

Record market := mkMarket {
  m_id : Z; m_long : Z; m_short : Z;          (* pool tokens; pure iff equal *)
  m_bl : Z; m_bs : Z;                          (* recorded balances (pure: only m_bl) *)
  m_liq : pool; m_imp : pool; m_fee : pool;    (* liquidity, swap impact, claimable fee *)
  m_cl : pool; m_cs : pool                     (* collateral sums of long / short positions *)
}.

Definition pure (m : market) : bool := m_long m =? m_short m.

(* Balance::amount(is_long_side) of the store's Pool *)
Definition amt (is_pure : bool) (p : pool) (is_long : bool) : Z :=
  if is_pure then (if is_long then (p_l p + 1) / 2 else p_l p / 2)
  else (if is_long then p_l p else p_s p).

Definition chk128 (z : Z) : res Z := if U128_MAX <? z then Err 4 else Ok z.

(* expected_min_token_balance_excluding_collateral_amount_for_one_token_side *)
Definition min_balance_side (m : market) (is_long : bool) : res Z :=
  let pu := pure m in
  a <-- chk128 (amt pu (m_liq m) is_long + amt pu (m_imp m) is_long) ;;
  chk128 (a + amt pu (m_fee m) is_long).

(* total_collateral_amount_for_one_token_side *)
Definition collateral_side (m : market) (is_long : bool) : res Z :=
  let pu := pure m in chk128 (amt pu (m_cl m) is_long + amt pu (m_cs m) is_long).

(* RevertibleMarket::balance_for_token *)
Definition balance_for (m : market) (is_long : bool) : Z := if is_long || pure m then m_bl m else m_bs m.

Definition token_side (m : market) (tok : Z) : option bool :=
  if tok =? m_long m then Some true else if tok =? m_short m then Some false else None.

(* validate_market_balance_for_the_given_token (errors come back as ModelError -> CoreError::Model) *)
Definition validate_token (m : market) (tok excluded : Z) : res unit :=
  match token_side m tok with
  | None => Err 4
  | Some is_long =>
      let bal := balance_for m is_long in
      b <-- (if excluded =? 0 then Ok bal else if bal - excluded <? 0 then Err 4 else Ok (bal - excluded)) ;;
      mn <-- min_balance_side m is_long ;;
      mn <-- (if pure m then o <-- min_balance_side m (negb is_long) ;; chk128 (mn + o) else Ok mn) ;;
      if b <? mn then Err 4 else
      c <-- collateral_side m is_long ;;
      c <-- (if pure m then o <-- collateral_side m (negb is_long) ;; chk128 (c + o) else Ok c) ;;
      if b <? c then Err 4 else Ok tt
  end.

(* validate_market_balances *)
Definition validate (m : market) (ex_l ex_s : Z) : res unit :=
  e <-- (if pure m then (if U64_MAX <? ex_l + ex_s then Err 9 else Ok (ex_l + ex_s, 0)) else Ok (ex_l, ex_s)) ;;
  let '(l, s) := e in
  _ <-- validate_token m (m_long m) l ;;
  if pure m then Ok tt else validate_token m (m_short m) s.

(* validate_market_balances_excluding_the_given_token_amounts *)
Definition excl_add (m : market) (acc : res (Z * Z)) (tok a : Z) : res (Z * Z) :=
  x <-- acc ;;
  let '(l, s) := x in
  if a =? 0 then Ok (l, s) else
  match token_side m tok with
  | None => Err 3
  | Some true => if U64_MAX <? l + a then Err 9 else Ok (l + a, s)
  | Some false => if U64_MAX <? s + a then Err 9 else Ok (l, s + a)
  end.

Definition validate_excluding (m : market) (t1 t2 a1 a2 : Z) : res unit :=
  e <-- excl_add m (excl_add m (Ok (0, 0)) t1 a1) t2 a2 ;;
  let '(l, s) := e in validate m l s.

(* record_transferred_in / out (Bank); a foreign token is a Model error *)
Definition with_bal (m : market) (bl bs : Z) : market :=
  mkMarket (m_id m) (m_long m) (m_short m) bl bs (m_liq m) (m_imp m) (m_fee m) (m_cl m) (m_cs m).

Definition rec_in (m : market) (tok a : Z) : res market :=
  match token_side m tok with
  | None => Err 4
  | Some s =>
      if pure m || s then (if U64_MAX <? m_bl m + a then Err 9 else Ok (with_bal m (m_bl m + a) (m_bs m)))
      else (if U64_MAX <? m_bs m + a then Err 9 else Ok (with_bal m (m_bl m) (m_bs m + a)))
  end.

Definition rec_out (m : market) (tok a : Z) : res market :=
  match token_side m tok with
  | None => Err 4
  | Some s =>
      if pure m || s then (if m_bl m - a <? 0 then Err 9 else Ok (with_bal m (m_bl m - a) (m_bs m)))
      else (if m_bs m - a <? 0 then Err 9 else Ok (with_bal m (m_bl m) (m_bs m - a)))
  end.

(* ---------- the bank layer over several markets sharing vaults ---------- *)
Record world := mkWorld {
  w_markets : list market;
  w_vaults : list (Z * Z)          (* token -> actual vault balance *)
}.

Fixpoint find (ms : list market) (id : Z) : option market :=
  match ms with [] => None | m :: r => if m_id m =? id then Some m else find r id end.
Fixpoint upd (ms : list market) (m' : market) : list market :=
  match ms with [] => [] | m :: r => if m_id m =? m_id m' then m' :: r else m :: upd r m' end.

Fixpoint vault (vs : list (Z * Z)) (tok : Z) : Z :=
  match vs with [] => 0 | (t, b) :: r => if t =? tok then b else vault r tok end.
Fixpoint set_vault (vs : list (Z * Z)) (tok b : Z) : list (Z * Z) :=
  match vs with
  | [] => [(tok, b)]
  | (t, x) :: r => if t =? tok then (t, b) :: r else (t, x) :: set_vault r tok b
  end.

(* what a revertible operation may do to the pools of one market *)
Definition with_pools (m : market) (liq imp fee cl cs : pool) : market :=
  mkMarket (m_id m) (m_long m) (m_short m) (m_bl m) (m_bs m) liq imp fee cl cs.

Inductive op :=
(* MarketTransferInOperation: tokens arrive in the vault and are recorded *)
| TransferIn (id tok a : Z)
(* a failed execution: the amounts transferred in at the start of the instruction are transferred out again
   (MarketTransferIn followed by MarketTransferOut of the same amount, e.g. unchecked_execute_deposit) *)
| InThenOut (id tok a : Z)
(* a swap hop / shift: recorded balance moves between two markets of the same vault; the giving market is
   validated after the move (fully, or for the moved token only as in the first From-step of a swap) *)
| Move (from to tok a : Z) (full : bool)
(* anybody sends tokens straight to a vault *)
| Donate (tok a : Z)
(* a revertible market operation (deposit, withdrawal, swap step, order …): arbitrary new pool amounts,
   committed only if the market validates with the given amounts still to be paid out, which are then
   transferred out *)
| Operate (id : Z) (liq imp fee cl cs : pool) (out_l out_s : Z)
(* claim_fees_from_market: the claimable fee of one token is zeroed, the market validated for that token with the
   claimed amount excluded, then the amount is transferred out *)
| ClaimFees (id tok : Z).

Definition pay_out (w : world) (ms' : list market) (tok a : Z) : res world :=
  if vault (w_vaults w) tok - a <? 0 then Err 20 else
  Ok (mkWorld ms' (set_vault (w_vaults w) tok (vault (w_vaults w) tok - a))).

Definition step (w : world) (o : op) : res world :=
  match o with
  | TransferIn id tok a =>
      match find (w_markets w) id with
      | None => Err 3
      | Some m =>
          if a <? 0 then Err 3 else
          m' <-- rec_in m tok a ;;
          Ok (mkWorld (upd (w_markets w) m') (set_vault (w_vaults w) tok (vault (w_vaults w) tok + a)))
      end
  | InThenOut id tok a =>
      match find (w_markets w) id with
      | None => Err 3
      | Some m =>
          if a <? 0 then Err 3 else
          m' <-- rec_in m tok a ;;
          m'' <-- rec_out m' tok a ;;
          Ok (mkWorld (upd (w_markets w) m'') (w_vaults w))
      end
  | Move from to tok a full =>
      match find (w_markets w) from, find (w_markets w) to with
      | Some mf, Some mt =>
          if (a <? 0) || (from =? to) then Err 3 else
          mf' <-- rec_out mf tok a ;;
          _ <-- (if full then validate mf' 0 0 else validate_token mf' tok 0) ;;
          mt' <-- rec_in mt tok a ;;
          Ok (mkWorld (upd (upd (w_markets w) mf') mt') (w_vaults w))
      | _, _ => Err 3
      end
  | Donate tok a =>
      if a <? 0 then Err 3 else
      Ok (mkWorld (w_markets w) (set_vault (w_vaults w) tok (vault (w_vaults w) tok + a)))
  | Operate id liq imp fee cl cs out_l out_s =>
      match find (w_markets w) id with
      | None => Err 3
      | Some m =>
          if (out_l <? 0) || (out_s <? 0) then Err 3 else
          let m1 := with_pools m liq imp fee cl cs in
          _ <-- validate m1 out_l out_s ;;
          (* commit, then pay the outputs out of the vault(s) *)
          m2 <-- rec_out m1 (m_long m1) out_l ;;
          m3 <-- rec_out m2 (m_short m2) out_s ;;
          w1 <-- pay_out w (upd (w_markets w) m3) (m_long m) out_l ;;
          pay_out w1 (w_markets w1) (m_short m) out_s
      end
  | ClaimFees id tok =>
      match find (w_markets w) id with
      | None => Err 3
      | Some m =>
          match token_side m tok with
          | None => Err 3
          | Some is_long =>
              let pu := pure m in
              let a1 := Z.min (amt pu (m_fee m) is_long) U64_MAX in
              let a2 := if pu then Z.min (amt pu (m_fee m) (negb is_long)) U64_MAX else 0 in
              if U64_MAX <? a1 + a2 then Err 9 else
              let fee' := if pu then mkPool (p_l (m_fee m) - a1 - a2) (p_s (m_fee m))
                          else if is_long then mkPool (p_l (m_fee m) - a1) (p_s (m_fee m))
                          else mkPool (p_l (m_fee m)) (p_s (m_fee m) - a1) in
              let m1 := with_pools m (m_liq m) (m_imp m) fee' (m_cl m) (m_cs m) in
              _ <-- validate_token m1 tok (a1 + a2) ;;
              m2 <-- rec_out m1 tok (a1 + a2) ;;
              pay_out w (upd (w_markets w) m2) tok (a1 + a2)
          end
      end
  end.

Definition apply (w : world) (o : op) : world := match step w o with Ok w' => w' | Err _ => w end.
Definition run (ops : list op) (w : world) : world := fold_left apply ops w.
