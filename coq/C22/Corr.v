(* C22 — correspondence and oracle predicates for harness/src/bin/c22.rs.  Imports Model only. *)
From GV Require Export lib.Base C22.Model.
Open Scope Z_scope.

Definition snap := (list market * list (Z * Z))%type.

Inductive case :=
(* the three real validation functions on one market state *)
| Val (m : market) (ex_l ex_s : Z) (r1 : res unit) (tok ex : Z) (r2 : res unit)
      (t1 t2 a1 a2 : Z) (r3 : res unit)
(* a history over several markets sharing vaults *)
| Hist (w0 : snap) (ops : list (op * res snap))
(* one real revertible_swap (SwapMarkets) over several real markets sharing vaults, committed when it succeeds:
   (id, long, short, recorded long balance, recorded short balance) of every market after the real transfer-in and
   after the swap, and the ghost vault counters (what was really transferred into each vault) *)
| SwapVault (ms0 : list (Z * Z * Z * Z * Z)) (vs : list (Z * Z)) (ms1 : list (Z * Z * Z * Z * Z)) (ok : bool).

(* ---------------- helpers ---------------- *)
Definition pool_eqb (a b : pool) : bool := (p_l a =? p_l b) && (p_s a =? p_s b).
Definition market_eqb (a b : market) : bool :=
  (m_id a =? m_id b) && (m_long a =? m_long b) && (m_short a =? m_short b) &&
  (m_bl a =? m_bl b) && (m_bs a =? m_bs b) &&
  pool_eqb (m_liq a) (m_liq b) && pool_eqb (m_imp a) (m_imp b) && pool_eqb (m_fee a) (m_fee b) &&
  pool_eqb (m_cl a) (m_cl b) && pool_eqb (m_cs a) (m_cs b).
Fixpoint markets_eqb (a b : list market) : bool :=
  match a, b with
  | [], [] => true
  | x :: r, y :: s => market_eqb x y && markets_eqb r s
  | _, _ => false
  end.
Definition vaults_eqb (toks : list Z) (a b : list (Z * Z)) : bool :=
  forallb (fun t => vault a t =? vault b t) toks.
Definition res_unit_eqb (a b : res unit) : bool :=
  match a, b with Ok _, Ok _ => true | Err x, Err y => x =? y | _, _ => false end.

Definition TOKENS : list Z := [0; 1; 2; 3].

Fixpoint corr_hist (w : world) (ops : list (op * res snap)) : bool :=
  match ops with
  | [] => true
  | (o, r) :: rest =>
      match step w o, r with
      | Ok w', Ok (ms, vs) => markets_eqb (w_markets w') ms && vaults_eqb TOKENS (w_vaults w') vs && corr_hist w' rest
      | Err e, Err e' => (e =? e') && corr_hist w rest
      | _, _ => false
      end
  end.

Definition bal5 (m : Z * Z * Z * Z * Z) (tok : Z) : Z :=
  let '(_, l, s, bl, bs) := m in if tok =? l then bl else if tok =? s then bs else 0.
Definition total5 (ms : list (Z * Z * Z * Z * Z)) (tok : Z) : Z := fold_right (fun m acc => bal5 m tok + acc) 0 ms.
Definition m5_eqb (a b : Z * Z * Z * Z * Z) : bool :=
  let '(i, l, s, bl, bs) := a in let '(i', l', s', bl', bs') := b in
  (i =? i') && (l =? l') && (s =? s') && (bl =? bl') && (bs =? bs').
Fixpoint ms5_eqb (a b : list (Z * Z * Z * Z * Z)) : bool :=
  match a, b with [], [] => true | x :: r, y :: t => m5_eqb x y && ms5_eqb r t | _, _ => false end.

Definition corr_b (c : case) : bool :=
  match c with
  (* the swap itself is modelled in C44; here only: a failed swap commits nothing *)
  | SwapVault ms0 vs ms1 ok => ok || ms5_eqb ms0 ms1
  | Val m ex_l ex_s r1 tok ex r2 t1 t2 a1 a2 r3 =>
      res_unit_eqb (validate m ex_l ex_s) r1 && res_unit_eqb (validate_token m tok ex) r2 &&
      res_unit_eqb (validate_excluding m t1 t2 a1 a2) r3
  | Hist (ms, vs) ops => corr_hist (mkWorld ms vs) ops
  end.

(* ---------------- oracle ---------------- *)
(* the property, written on raw stored amounts: the recorded balance of a pool token (minus what is still to be
   paid out) covers liquidity + swap impact + claimable fee, and separately covers all position collateral in
   that token.  A pure market keeps one amount per pool and one balance. *)
Definition covers_side (m : market) (is_long : bool) (excluded : Z) : bool :=
  if pure m then
    (p_l (m_liq m) + p_l (m_imp m) + p_l (m_fee m) <=? m_bl m - excluded) &&
    (p_l (m_cl m) + p_l (m_cs m) <=? m_bl m - excluded)
  else if is_long then
    (p_l (m_liq m) + p_l (m_imp m) + p_l (m_fee m) <=? m_bl m - excluded) &&
    (p_l (m_cl m) + p_l (m_cs m) <=? m_bl m - excluded)
  else
    (p_s (m_liq m) + p_s (m_imp m) + p_s (m_fee m) <=? m_bs m - excluded) &&
    (p_s (m_cl m) + p_s (m_cs m) <=? m_bs m - excluded).

Definition covers (m : market) : bool := covers_side m true 0 && (pure m || covers_side m false 0).

Definition bal_of (m : market) (tok : Z) : Z :=
  if tok =? m_long m then m_bl m else if tok =? m_short m then m_bs m else 0.
Definition total (ms : list market) (tok : Z) : Z := fold_right (fun m acc => bal_of m tok + acc) 0 ms.

(* the markets sharing a vault never claim more than the vault holds *)
Definition vaults_cover (s : snap) : bool :=
  let '(ms, vs) := s in forallb (fun t => total ms t <=? vault vs t) TOKENS.

Definition changed (before after : list market) : list market :=
  filter (fun m => match find before (m_id m) with Some b => negb (market_eqb b m) | None => true end) after.

Fixpoint oracle_hist (prev : snap) (ops : list (op * res snap)) : bool :=
  match ops with
  | [] => true
  | (o, r) :: rest =>
      match r with
      | Err _ => oracle_hist prev rest
      | Ok s =>
          vaults_cover s &&
          (* every market touched by the operation ends in a covered state; a market that only received
             tokens keeps the coverage it had *)
          forallb covers (changed (fst prev) (fst s)) &&
          oracle_hist s rest
      end
  end.

Definition oracle_b (c : case) : bool :=
  match c with
  | Val m ex_l ex_s r1 tok ex r2 t1 t2 a1 a2 r3 =>
      (* an accepted validation implies coverage with the excluded amounts set aside *)
      match r1 with
      | Ok _ => if pure m then covers_side m true (ex_l + ex_s)
                else covers_side m true ex_l && covers_side m false ex_s
      | Err _ => true
      end &&
      match r2, token_side m tok with
      | Ok _, Some sd => covers_side m sd ex
      | Ok _, None => false
      | Err _, _ => true
      end
  | Hist w0 ops => vaults_cover w0 && forallb covers (fst w0) && oracle_hist w0 ops
  | SwapVault ms0 vs ms1 ok =>
      (* a swap moves no tokens in or out of any vault: per token, the recorded balances of the markets sharing
         the vault add up to what they did before, and never to more than the vault holds *)
      forallb (fun t => (total5 ms1 t <=? vault vs t) && (total5 ms1 t =? total5 ms0 t)) TOKENS
  end.

Definition known_b (c : case) : Z := 0.
