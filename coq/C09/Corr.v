(* C09 — positions are left healthy, and only unhealthy ones can be liquidated.
   Case type, model run and correspondence: PS/Hist.v.  The oracle looks only at what the
   implementation reported: outcomes, the position before the operation (from the recorded
   trace), and check_liquidatable(.., true, true) evaluated by the REAL code before and after. *)
From GV Require Export lib.Base C01.Model PS.Model PS.Actions PS.Hist.
Open Scope Z_scope.

Definition is_ok_none (r : res (option Z)) : bool := match r with Ok None => true | _ => false end.
Definition is_ok_some (r : res (option Z)) : bool := match r with Ok (Some _) => true | _ => false end.

(* liquidatable under the liquidation thresholds after the operation? *)
Definition healthy_after (x : op * outcome * aux) : bool :=
  let '(o, out, ax) := x in
  match out with
  | OutInc (Ok _) => is_ok_none (ax_liq_post ax)
  | OutDec (Ok (_, _, rep)) => dr_remove rep || is_ok_none (ax_liq_post ax)
  | OutAdl (Ok (_, _, rep, _, _)) => dr_remove rep || is_ok_none (ax_liq_post ax)
  | _ => true
  end.

(* a liquidation order succeeds only on a liquidatable position and closes it entirely *)
Definition liquidation_ok (before : world) (x : op * outcome * aux) : bool :=
  let '(o, out, ax) := x in
  match o, out with
  | OpLiq i _ _ _ _, OutDec (Ok (p, _, rep)) =>
      is_ok_some (ax_liq_pre ax) && dr_remove rep
      && (dr_size_delta rep =? size_usd (get_pos (snd before) i))
      && (size_usd p =? 0) && (size_tok p =? 0)
  | _, _ => true
  end.

(* an ADL order succeeds only if the pnl factor exceeded the ADL limit, strictly lowers it,
   and does not push it below the configured minimum *)
Definition adl_ok (cfg : config) (x : op * outcome * aux) : bool :=
  let '(o, out, ax) := x in
  match out with
  | OutAdl (Ok (_, _, _, before, after)) =>
      (0 <? before) && (c_max_pnl_adl cfg <? before) && (after <? before) && (c_min_pnl_after_adl cfg <=? after)
  | _ => true
  end.

Definition step_ok (cfg : config) (t : world * (op * outcome * aux) * world) : bool :=
  let '(before, x, _) := t in healthy_after x && liquidation_ok before x && adl_ok cfg x.

Definition oracle_b (c : case) : bool :=
  match c with
  | Hist w dec cfg s0 ps0 steps => forallb (step_ok cfg) (impl_trace (s0, ps0) steps)
  end.

(* Known finding, class 1 (MinCollateralAfterPartialDecrease): every failing step is a decrease
   (plain or ADL) that left the position open and liquidatable for the reason MinCollateral (1)
   at the execution prices; nothing else fails. *)
Definition step_class (cfg : config) (t : world * (op * outcome * aux) * world) : Z :=
  if step_ok cfg t then 0 else
  let '(before, x, _) := t in
  let '(o, out, ax) := x in
  let min_coll_after_dec :=
    match out with
    | OutDec (Ok (_, _, rep)) | OutAdl (Ok (_, _, rep, _, _)) =>
        negb (dr_remove rep) && match ax_liq_post ax with Ok (Some 1) => true | _ => false end
    | _ => false
    end in
  if min_coll_after_dec && liquidation_ok before x && adl_ok cfg x then 1 else 99.

Definition known_b (c : case) : Z :=
  match c with
  | Hist w dec cfg s0 ps0 steps =>
      let cls := map (step_class cfg) (impl_trace (s0, ps0) steps) in
      if existsb (fun k => k =? 99) cls then 0
      else if existsb (fun k => k =? 1) cls then 1 else 0
  end.
