(* C09 — health after execution, liquidation and ADL gates: lemmas. *)
From GV Require Import lib.Base lib.DivLemmas C01.Model C01.Proofs PS.Model PS.Lemmas PS.Actions PS.Frame C07.Proofs.
Open Scope Z_scope.
Ltac Zify.zify_post_hook ::= Z.div_mod_to_equations.

(* the liquidation threshold is not stricter than the validation threshold *)
Definition liq_factor_le (pp : pos_params) : Prop :=
  match pp_min_cf_liq pp with Some f => 0 <= f <= pp_min_cf pp | None => True end.

Section P.
  Variable w : Z.
  Hypothesis Hw : 1 <= w.
  Variable unit : Z.
  Hypothesis Hunit : 0 < unit.

  Lemma validate_position_ok p m pr a b :
    validate_position w unit p m pr a b = Ok tt ->
    size_usd p <> 0 /\ size_tok p <> 0 /\ check_liquidatable w unit p m pr b false = Ok None.
  Proof.
    unfold validate_position. intros H.
    destruct ((size_usd p =? 0) || (size_tok p =? 0)) eqn:E; [discriminate|].
    apply orb_false_iff in E. destruct E as [E1 E2]. apply Z.eqb_neq in E1, E2.
    destruct (a && _); [discriminate|].
    bind_ok H as r Er. destruct r; [discriminate|]. repeat split; assumption.
  Qed.

  (* check_collateral is monotone in the factor and in the optional minimum *)
  Lemma check_collateral_weaker size cf1 cf2 mcv cv :
    0 <= size -> 0 <= cf2 <= cf1 ->
    check_collateral w unit size cf1 mcv false cv = Ok 0 ->
    check_collateral w unit size cf2 mcv false cv = Ok 0.
  Proof.
    intros Hs Hcf. unfold check_collateral.
    destruct (cv <? 0); [destruct mcv; discriminate|].
    destruct (match mcv with Some v => cv <? v | None => false end); [discriminate|].
    destruct (negb false && (cv =? 0)); [discriminate|].
    intros H. bind_ok H as lev1 E1. destruct (cv <? lev1) eqn:E2; [discriminate|].
    unfold af in *. apply of_opt_ok in E1. apply apply_factor_exact in E1; [|lia..]. destruct E1 as [-> Hlt].
    assert (Hle : size * cf2 / unit <= size * cf1 / unit) by (apply Z.div_le_mono; nia).
    assert (Hex : apply_factor w unit size cf2 = Some (size * cf2 / unit)).
    { apply apply_factor_exact; [lia..|]. split; [reflexivity|lia]. }
    rewrite Hex. cbn. apply Z.ltb_ge in E2. replace (cv <? size * cf2 / unit) with false by (symmetry; apply Z.ltb_ge; lia).
    reflexivity.
  Qed.

  (* dropping the minimum-collateral-value test can only turn "MinCollateral" into "sufficient" *)
  Lemma check_collateral_add_min size cf1 cf2 v cv :
    0 <= size -> 0 <= cf2 <= cf1 ->
    check_collateral w unit size cf1 None false cv = Ok 0 ->
    check_collateral w unit size cf2 (Some v) false cv = Ok 0 \/ check_collateral w unit size cf2 (Some v) false cv = Ok 4.
  Proof.
    intros Hs Hcf H.
    assert (H0 : 0 <= cv).
    { unfold check_collateral in H. destruct (cv <? 0) eqn:E; [discriminate|]. apply Z.ltb_ge in E. exact E. }
    apply (check_collateral_weaker size cf1 cf2 None cv Hs Hcf) in H.
    unfold check_collateral in *. replace (cv <? 0) with false in * by (symmetry; apply Z.ltb_ge; exact H0).
    destruct (cv <? v); [right; reflexivity|left; exact H].
  Qed.

  Definition liq_cf (pp : pos_params) := match pp_min_cf_liq pp with Some f => f | None => pp_min_cf pp end.

  Lemma liq_cf_le pp : liq_factor_le pp -> 0 <= pp_min_cf pp -> 0 <= liq_cf pp <= pp_min_cf pp.
  Proof. unfold liq_factor_le, liq_cf. destruct (pp_min_cf_liq pp); lia. Qed.

  (* check_liquidatable = "compute the remaining collateral value" then check_collateral;
     the first part does not depend on the two flags *)
  Lemma check_liquidatable_split p m pr v fl r :
    check_liquidatable w unit p m pr v fl = Ok r ->
    exists rem c,
      (forall v' fl', check_liquidatable w unit p m pr v' fl' =
         (c' <-- check_collateral w unit (size_usd p)
                   (if fl' then liq_cf (c_pos (m_cfg m)) else pp_min_cf (c_pos (m_cfg m)))
                   (if v' then Some (pp_min_cv (c_pos (m_cfg m))) else None) false rem ;;
          Ok (if c' =? 0 then None else if (c' =? 1) || (c' =? 2) then Some R_NOT_POSITIVE
              else if c' =? 3 then Some R_MIN_COLLATERAL_FOR_LEVERAGE else Some R_MIN_COLLATERAL))) /\
      check_collateral w unit (size_usd p)
        (if fl then liq_cf (c_pos (m_cfg m)) else pp_min_cf (c_pos (m_cfg m)))
        (if v then Some (pp_min_cv (c_pos (m_cfg m))) else None) false rem = Ok c /\
      r = (if c =? 0 then None else if (c =? 1) || (c =? 2) then Some R_NOT_POSITIVE
           else if c =? 3 then Some R_MIN_COLLATERAL_FOR_LEVERAGE else Some R_MIN_COLLATERAL).
  Proof.
    unfold check_liquidatable. intros H.
    bind_ok H as pn E1. bind_ok H as cv E2. bind_ok H as sd E3. bind_ok H as imp E4. bind_ok H as piv E5.
    bind_ok H as fs E6. bind_ok H as tc E7. bind_ok H as ccv E8. bind_ok H as cvs E9. bind_ok H as rem E10.
    bind_ok H as c E11. injection H as <-.
    exists rem, c. split; [|split; [exact E11|reflexivity]].
    intros v' fl'. rewrite E1. cbn [rbind]. rewrite E2. cbn [of_opt rbind].
    rewrite E3. cbn [rbind]. rewrite E4. cbn [rbind]. rewrite E5. cbn [rbind]. rewrite E6. cbn [rbind].
    rewrite E7. cbn [rbind]. rewrite E8. cbn [of_opt rbind]. rewrite E9. cbn [rbind]. rewrite E10. cbn [of_opt rbind].
    unfold liq_cf. reflexivity.
  Qed.

  Lemma c_eq0 c : (if c =? 0 then None else if (c =? 1) || (c =? 2) then Some R_NOT_POSITIVE
                   else if c =? 3 then Some R_MIN_COLLATERAL_FOR_LEVERAGE else Some R_MIN_COLLATERAL) = None -> c = 0.
  Proof. destruct (c =? 0) eqn:E; [intros _; apply Z.eqb_eq; exact E|]. destruct ((c =? 1) || (c =? 2)); [discriminate|]. destruct (c =? 3); discriminate. Qed.

  (* a position that passed validate is not liquidatable under the (weaker) liquidation thresholds;
     if validate skipped the minimum-collateral-value test, MinCollateral is the only possible reason *)
  Lemma healthy_from_validate p m pr v :
    0 <= size_usd p -> 0 <= pp_min_cf (c_pos (m_cfg m)) -> liq_factor_le (c_pos (m_cfg m)) ->
    check_liquidatable w unit p m pr v false = Ok None ->
    (v = true -> check_liquidatable w unit p m pr true true = Ok None) /\
    (check_liquidatable w unit p m pr true true = Ok None \/
     check_liquidatable w unit p m pr true true = Ok (Some R_MIN_COLLATERAL)).
  Proof.
    intros Hs Hcf Hle H.
    destruct (check_liquidatable_split _ _ _ _ _ _ H) as (rem & c & Hall & Hc & Hr).
    symmetry in Hr. apply c_eq0 in Hr. subst c.
    pose proof (liq_cf_le _ Hle Hcf) as Hl.
    rewrite (Hall true true). cbn [andb].
    split.
    - intros ->. rewrite (check_collateral_weaker _ _ _ _ _ Hs Hl Hc). reflexivity.
    - destruct v.
      + rewrite (check_collateral_weaker _ _ _ _ _ Hs Hl Hc). left. reflexivity.
      + destruct (check_collateral_add_min _ _ _ (pp_min_cv (c_pos (m_cfg m))) _ Hs Hl Hc) as [E|E]; rewrite E; [left|right]; reflexivity.
  Qed.

  Lemma increase_validated p m pr ci sd acc p1 m' rep :
    increase w unit p m pr ci sd acc = Ok (p1, m', rep) -> validate_position w unit p1 m' pr true true = Ok tt.
  Proof.
    unfold increase. intros H.
    destruct (negb (prices_valid w pr)); [discriminate|].
    bind_ok H as ex Eex. destruct ex as [[[[piv pia] sdt] ep] change].
    bind_ok H as cda0 E1. bind_ok H as fs E2. bind_ok H as tc E3. bind_ok H as tcs E4. bind_ok H as cda E5.
    bind_ok H as fr E6. bind_ok H as frs E7. bind_ok H as m1 E8. bind_ok H as fpl E9. bind_ok H as fps E10.
    bind_ok H as m2 E11. bind_ok H as cs E12. bind_ok H as coll' E13. bind_ok H as npia E14. bind_ok H as m4 E15.
    bind_ok H as next_size E16. bind_ok H as m5 E17. bind_ok H as next_tok E18.
    bind_ok H as sds E19. bind_ok H as sdts E20. bind_ok H as m6 E21.
    bind_ok H as u1 E22. bind_ok H as u2 E23. injection H as <- <- <-. destruct u2. exact E23.
  Qed.

  (* 1. a successful increase never leaves the position liquidatable at the execution prices *)
  Theorem increase_not_liquidatable p m pr ci sd acc p1 m' rep :
    0 <= pp_min_cf (c_pos (m_cfg m)) -> liq_factor_le (c_pos (m_cfg m)) ->
    increase w unit p m pr ci sd acc = Ok (p1, m', rep) ->
    check_liquidatable w unit p1 m' pr true false = Ok None /\
    check_liquidatable w unit p1 m' pr true true = Ok None.
  Proof.
    intros Hcf Hle H.
    pose proof (increase_effect w Hw unit _ _ _ _ _ _ _ _ _ H) as (_ & _ & _ & _ & _ & P1 & _ & _ & Cfg & _).
    apply increase_validated in H. apply validate_position_ok in H. destruct H as (_ & _ & H).
    split; [exact H|]. rewrite <- Cfg in Hcf, Hle.
    exact (proj1 (healthy_from_validate _ _ _ _ (Z.lt_le_incl _ _ P1) Hcf Hle H) eq_refl).
  Qed.

  Lemma decrease_validated p m pr sd0 acc cw fl p1 m' rep :
    decrease w unit p m pr sd0 acc cw fl = Ok (p1, m', rep) -> dr_remove rep = false ->
    validate_position w unit p1 m' pr false false = Ok tt.
  Proof.
    unfold decrease. intros H.
    destruct (negb (prices_valid w pr)); [discriminate|].
    destruct ((size_usd p =? 0) && (size_tok p =? 0) && (coll p =? 0)); [discriminate|].
    bind_ok H as sd1 Esd1. bind_ok H as pc Epc. destruct pc as [sd wd1].
    bind_ok H as u1 Eliq. bind_ok H as ex Eex. destruct ex as [[[piv change] diff] ep].
    bind_ok H as pn Epn. destruct pn as [[base_pnl uncapped_pnl] sdt].
    bind_ok H as fs Efs. bind_ok H as pr_ Eproc. destruct pr_ as [st step].
    bind_ok H as wd3 Ewd3. bind_ok H as x Ex. destruct x as [rem_coll out1].
    bind_ok H as next_size Ens. bind_ok H as m2 Em2. bind_ok H as next_tok Ent.
    bind_ok H as y Ey. destruct y as [[[ns nt] nc] out2].
    bind_ok H as cdelta Ecd. bind_ok H as ncd Encd. bind_ok H as cs Ecs.
    bind_ok H as nsd Ensd. bind_ok H as nsdt Ensdt. bind_ok H as m4 Em4.
    bind_ok H as u2 Eval. bind_ok H as zz Ez. destruct zz as [out3 sec3].
    injection H as <- <- <-. cbn [dr_remove]. intros Hr. rewrite Hr in Eval. destruct u2. exact Eval.
  Qed.

  (* 2. a decrease that leaves the position open leaves it validated; under the liquidation thresholds the
        only possible reason left is MinCollateral (known class MinCollateralAfterPartialDecrease) *)
  Theorem decrease_open_health p m pr sd0 acc cw fl p1 m' rep :
    0 < size_usd p -> 0 < size_tok p -> 0 <= coll p ->
    0 <= pp_min_cf (c_pos (m_cfg m)) -> liq_factor_le (c_pos (m_cfg m)) ->
    decrease w unit p m pr sd0 acc cw fl = Ok (p1, m', rep) -> dr_remove rep = false ->
    check_liquidatable w unit p1 m' pr false false = Ok None /\
    (check_liquidatable w unit p1 m' pr true true = Ok None \/
     check_liquidatable w unit p1 m' pr true true = Ok (Some R_MIN_COLLATERAL)).
  Proof.
    intros HS HT HC Hcf Hle H Hr.
    pose proof (decrease_effect w Hw unit _ _ _ _ _ _ _ _ _ _ HS HT HC H) as (_ & _ & _ & _ & _ & _ & R2 & Cfg & _).
    destruct (R2 Hr) as [P1 _].
    pose proof (decrease_validated _ _ _ _ _ _ _ _ _ _ H Hr) as V. apply validate_position_ok in V. destruct V as (_ & _ & V).
    split; [exact V|]. rewrite <- Cfg in Hcf, Hle.
    exact (proj2 (healthy_from_validate _ _ _ _ (Z.lt_le_incl _ _ P1) Hcf Hle V)).
  Qed.

  (* 3. liquidation order: only a liquidatable position, always the whole position *)
  Theorem liquidation_gate p m pr sd acc cw p1 m' rep :
    0 < size_usd p -> 0 < size_tok p -> 0 <= coll p ->
    liquidate w unit p m pr sd acc cw = Ok (p1, m', rep) ->
    (exists reason, check_liquidatable w unit p m pr true true = Ok (Some reason)) /\
    dr_remove rep = true /\ dr_size_delta rep = size_usd p /\ sd = size_usd p /\
    size_usd p1 = 0 /\ size_tok p1 = 0 /\ coll p1 = 0.
  Proof.
    intros HS HT HC H. unfold liquidate in H.
    destruct (sd <? size_usd p) eqn:Esd; [discriminate|]. apply Z.ltb_ge in Esd.
    pose proof (decrease_effect w Hw unit _ _ _ _ _ _ _ _ _ _ HS HT HC H) as (_ & _ & U & _ & _ & R1 & R2 & _).
    unfold decrease in H.
    destruct (negb (prices_valid w pr)); [discriminate|].
    destruct ((size_usd p =? 0) && (size_tok p =? 0) && (coll p =? 0)); [discriminate|].
    bind_ok H as sd1 Esd1. cbn [fl_cap] in Esd1.
    assert (sd1 = size_usd p /\ sd = size_usd p) as [-> ->].
    { destruct (size_usd p <? sd) eqn:E; [discriminate|]. injection Esd1 as <-. apply Z.ltb_ge in E. lia. }
    rewrite Z.ltb_irrefl in H. cbn [rbind] in H.
    bind_ok H as u1 Eliq. cbn [fl_liq] in Eliq.
    bind_ok Eliq as r Er. destruct r as [reason|]; [|discriminate].
    split; [exists reason; exact Er|].
    bind_ok H as ex Eex. destruct ex as [[[piv change] diff] ep].
    bind_ok H as pn Epn. destruct pn as [[base_pnl uncapped_pnl] sdt].
    bind_ok H as fs Efs. bind_ok H as pr_ Eproc. destruct pr_ as [st step].
    bind_ok H as wd3 Ewd3. bind_ok H as x Ex. destruct x as [rem_coll out1].
    bind_ok H as next_size Ens. apply usub_ok in Ens. destruct Ens as [_ ->].
    bind_ok H as m2 Em2. bind_ok H as next_tok Ent.
    bind_ok H as y Ey. destruct y as [[[ns nt] nc] out2].
    bind_ok H as cdelta Ecd. bind_ok H as ncd Encd. bind_ok H as cs Ecs.
    bind_ok H as nsd Ensd. bind_ok H as nsdt Ensdt. bind_ok H as m4 Em4.
    bind_ok H as u2 Eval. bind_ok H as zz Ez. destruct zz as [out3 sec3].
    injection H as <- <- <-. cbn [dr_remove dr_size_delta] in *.
    replace (size_usd p - size_usd p =? 0) with true in * by (symmetry; apply Z.eqb_eq; lia). cbn [orb] in *.
    destruct (R1 eq_refl) as (Z1 & Z2 & Z3). repeat split; try reflexivity; assumption.
  Qed.

  (* 4. ADL order: required before, strictly lower after, not below the configured minimum *)
  Theorem adl_gate p m pr sd acc cw p1 m' rep before after :
    auto_deleverage w unit p m pr sd acc cw = Ok (p1, m', rep, before, after) ->
    pnl_factor_exceeded_adl w unit m pr (is_long p) = Ok (Some before) /\
    0 < before /\ c_max_pnl_adl (m_cfg m) < before /\
    decrease w unit p m pr sd acc cw (MkFlags true false false) = Ok (p1, m', rep) /\
    pnl_factor w unit m' pr (is_long p) = Ok after /\
    after < before /\ c_min_pnl_after_adl (m_cfg m') <= after.
  Proof.
    unfold auto_deleverage. intros H.
    bind_ok H as ex Eex. destruct ex as [b|]; [|discriminate].
    bind_ok H as r Er. destruct r as [[p1' m1'] rep'].
    bind_ok H as a Ea. destruct (negb (a <? b)) eqn:E1; [discriminate|].
    bind_ok H as mn Emn. destruct (a <? mn) eqn:E2; [discriminate|].
    injection H as <- <- <- <- <-.
    apply negb_false_iff in E1. apply Z.ltb_lt in E1. apply Z.ltb_ge in E2.
    apply rsigned_ok in Emn. destruct Emn as [_ ->].
    split; [exact Eex|].
    assert (Hb : 0 < b /\ c_max_pnl_adl (m_cfg m) < b).
    { unfold pnl_factor_exceeded_adl in Eex. bind_ok Eex as x Ex.
      destruct ((0 <? fst x) && (c_max_pnl_adl (m_cfg m) <? Z.abs (fst x))) eqn:E3; [|discriminate].
      injection Eex as <-. apply andb_prop in E3. destruct E3 as [E3 E4]. apply Z.ltb_lt in E3, E4. lia. }
    destruct Hb. repeat split; assumption.
  Qed.
End P.
