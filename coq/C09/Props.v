(* C09 — Positions are left healthy, and only unhealthy ones can be liquidated.  Statements only.
   check_liquidatable p m pr validate_min_collateral for_liquidation : None = not liquidatable.
   Hypotheses: [1 <= w], [0 < unit]; positions handed to decrease / liquidate are open with non-negative
   collateral (C07's invariant); [0 <= min_collateral_factor] (unsigned) and
   [liq_factor_le] = the liquidation factor, when configured, does not exceed the validation factor. *)
From GV Require Import lib.Base C01.Model PS.Model PS.Actions PS.Hist C07.Inv C07.Props C09.Proofs C09.World C09.Corr.
Open Scope Z_scope.

(* 1. a successful increase never leaves the position liquidatable at the execution prices *)
Theorem c09_increase_not_liquidatable : forall w, 1 <= w -> forall unit, 0 < unit ->
  forall p m pr ci sd acc p1 m' rep,
  0 <= pp_min_cf (c_pos (m_cfg m)) -> liq_factor_le (c_pos (m_cfg m)) ->
  increase w unit p m pr ci sd acc = Ok (p1, m', rep) ->
  check_liquidatable w unit p1 m' pr true false = Ok None /\
  check_liquidatable w unit p1 m' pr true true = Ok None.
Proof. intros w Hw unit Hu. exact (increase_not_liquidatable w Hw unit Hu). Qed.

(* 2. a decrease that leaves the position open leaves it validated (factor-based reasons excluded);
      under the liquidation thresholds the only reason that can remain is MinCollateral — the known
      class MinCollateralAfterPartialDecrease *)
Theorem c09_decrease_open_health : forall w, 1 <= w -> forall unit, 0 < unit ->
  forall p m pr sd0 acc cw fl p1 m' rep,
  0 < size_usd p -> 0 < size_tok p -> 0 <= coll p ->
  0 <= pp_min_cf (c_pos (m_cfg m)) -> liq_factor_le (c_pos (m_cfg m)) ->
  decrease w unit p m pr sd0 acc cw fl = Ok (p1, m', rep) -> dr_remove rep = false ->
  check_liquidatable w unit p1 m' pr false false = Ok None /\
  (check_liquidatable w unit p1 m' pr true true = Ok None \/
   check_liquidatable w unit p1 m' pr true true = Ok (Some R_MIN_COLLATERAL)).
Proof. intros w Hw unit Hu. exact (decrease_open_health w Hw unit Hu). Qed.

(* 3. a liquidation order succeeds only on a position that is liquidatable under the liquidation
      thresholds, and always closes the whole position *)
Theorem c09_liquidation_gate : forall w, 1 <= w -> forall unit p m pr sd acc cw p1 m' rep,
  0 < size_usd p -> 0 < size_tok p -> 0 <= coll p ->
  liquidate w unit p m pr sd acc cw = Ok (p1, m', rep) ->
  (exists reason, check_liquidatable w unit p m pr true true = Ok (Some reason)) /\
  dr_remove rep = true /\ dr_size_delta rep = size_usd p /\ sd = size_usd p /\
  size_usd p1 = 0 /\ size_tok p1 = 0 /\ coll p1 = 0.
Proof. intros w Hw unit. exact (liquidation_gate w Hw unit). Qed.

(* 4. an ADL order succeeds only if the pnl factor exceeded the ADL limit, strictly lowers it and
      does not push it below the configured minimum *)
Theorem c09_adl_gate : forall w unit p m pr sd acc cw p1 m' rep before after,
  auto_deleverage w unit p m pr sd acc cw = Ok (p1, m', rep, before, after) ->
  pnl_factor_exceeded_adl w unit m pr (is_long p) = Ok (Some before) /\
  0 < before /\ c_max_pnl_adl (m_cfg m) < before /\
  decrease w unit p m pr sd acc cw (MkFlags true false false) = Ok (p1, m', rep) /\
  pnl_factor w unit m' pr (is_long p) = Ok after /\
  after < before /\ c_min_pnl_after_adl (m_cfg m') <= after.
Proof. intros w unit. exact (adl_gate w unit). Qed.

(* 5. monotonicity behind 1 and 2: a weaker factor / no minimum can only make the check pass *)
Theorem c09_check_collateral_weaker : forall w, 1 <= w -> forall unit, 0 < unit -> forall size cf1 cf2 mcv cv,
  0 <= size -> 0 <= cf2 <= cf1 ->
  check_collateral w unit size cf1 mcv false cv = Ok 0 -> check_collateral w unit size cf2 mcv false cv = Ok 0.
Proof. intros w Hw unit Hu. exact (check_collateral_weaker w Hw unit Hu). Qed.

(* 6. the same at the level of histories: from any world satisfying C07's invariant (in particular the empty
      market, c07_init), every operation of every history obeys its gate (World.gate_holds: increase => not
      liquidatable; decrease / ADL leaving the position open => validated, at worst MinCollateral under the
      liquidation thresholds; liquidation => was liquidatable and closes everything; ADL => pnl factor was above
      the limit, strictly decreases, stays above the configured minimum).  The invariant replaces the
      hypotheses "open position, collateral >= 0" of theorems 2 and 3. *)
Theorem c09_gate_step : forall w, 1 <= w -> forall unit, 0 < unit -> forall cfg,
  0 <= pp_min_cf (c_pos cfg) -> liq_factor_le (c_pos cfg) ->
  forall wd o, world_inv wd -> gate_holds w unit cfg wd o.
Proof. intros w Hw unit Hu cfg Hcf Hle. exact (gate_step w Hw unit Hu cfg Hcf Hle). Qed.

Theorem c09_gate_history : forall w, 1 <= w -> forall unit, 0 < unit -> forall cfg,
  0 <= pp_min_cf (c_pos cfg) -> liq_factor_le (c_pos cfg) ->
  forall ops wd, world_inv wd -> forall pre o post, ops = pre ++ o :: post ->
  gate_holds w unit cfg (run w unit cfg wd pre) o.
Proof. intros w Hw unit Hu cfg Hcf Hle. exact (gate_history w Hw unit Hu cfg Hcf Hle). Qed.

(* Known finding MinCollateralAfterPartialDecrease: the literal "a decrease that leaves the position open never
   leaves it liquidatable" is false.  Witness = the crate's own test scenario (u64/9, test configuration):
   long 80000000000 usd opened with collateral 100000000 at price 123, then decrease by 40000000000 with a
   collateral withdrawal of 91100000 at the same price: the position stays open with collateral 8282101 and
   check_liquidatable(.., true, true) = Some MinCollateral.  Replayed on the real code by the driver. *)
Definition decrease_open_never_liquidatable (w unit : Z) (p : position) (m : market) (pr : prices) (sd : Z) (acc : option Z) (cw : Z) (fl : dec_flags) : Prop :=
  forall p1 m' rep, decrease w unit p m pr sd acc cw fl = Ok (p1, m', rep) -> dr_remove rep = false ->
    check_liquidatable w unit p1 m' pr true true = Ok None.

Definition wit_world := step 64 (10 ^ 9) ex_cfg (ex_s0, ex_ps0) (OpInc 0 pr123 100000000 80000000000 None).
Definition wit_p := get_pos (snd wit_world) 0.
Definition wit_m := mk_market ex_cfg (fst wit_world).

Definition wit_out := Eval vm_compute in
  (decrease 64 (10 ^ 9) wit_p wit_m pr123 40000000000 None 91100000 (MkFlags false false false)).
Lemma wit_out_eq :
  decrease 64 (10 ^ 9) wit_p wit_m pr123 40000000000 None 91100000 (MkFlags false false false) = wit_out.
Proof. vm_compute. reflexivity. Qed.

Theorem c09_min_collateral_after_partial_decrease_refuted :
  0 < size_usd wit_p /\ 0 < size_tok wit_p /\ 0 <= coll wit_p /\
  0 <= pp_min_cf (c_pos (m_cfg wit_m)) /\ liq_factor_le (c_pos (m_cfg wit_m)) /\
  ~ decrease_open_never_liquidatable 64 (10 ^ 9) wit_p wit_m pr123 40000000000 None 91100000 (MkFlags false false false).
Proof.
  split; [vm_compute; reflexivity|]. split; [vm_compute; reflexivity|]. split; [vm_compute; discriminate|].
  split; [vm_compute; discriminate|]. split; [exact I|].
  intros H. unfold decrease_open_never_liquidatable in H. rewrite wit_out_eq in H. unfold wit_out in H.
  specialize (H _ _ _ eq_refl eq_refl). vm_compute in H. discriminate.
Qed.

(* non-vacuity *)
Example c09_ex_position : size_usd wit_p = 80000000000 /\ coll wit_p = 99544716.
Proof. vm_compute. split; reflexivity. Qed.
Example c09_ex_healthy_after_increase : check_liquidatable 64 (10 ^ 9) wit_p wit_m pr123 true true = Ok None.
Proof. vm_compute. reflexivity. Qed.
Example c09_ex_not_liquidatable_rejected :
  liquidate 64 (10 ^ 9) wit_p wit_m pr123 80000000000 None 0 = Err E_NOTLIQ.
Proof. vm_compute. reflexivity. Qed.
Example c09_ex_liquidation :
  let pr := MkPrices (MkPrice 106 106) (MkPrice 106 106) (MkPrice 1 1) in
  match liquidate 64 (10 ^ 9) wit_p wit_m pr 80000000000 None 0 with
  | Ok (p1, _, rep) => size_usd p1 = 0 /\ dr_remove rep = true
  | Err _ => False end.
Proof. vm_compute. split; reflexivity. Qed.
