(* C09 — the model lives in PS/Model.v, PS/Actions.v (check_liquidatable, validate_position, increase,
   decrease, and the liquidation / ADL gates of programs/store/src/ops/order.rs: liquidate,
   auto_deleverage) and PS/Hist.v; this file only re-exports it. *)
From GV Require Export lib.Base C01.Model PS.Model PS.Actions PS.Hist.
