(* C09 — the gates at the level of worlds (market + list of positions): in any world satisfying C07's
   invariant, every operation of a history that succeeds obeys the health / liquidation / ADL gate.
   The invariant supplies what the action-level theorems assume about the position (open, collateral >= 0). *)
From GV Require Import lib.Base C01.Model PS.Model PS.Lemmas PS.Actions PS.Hist C07.Proofs C07.Corr C07.Inv C09.Proofs.
Open Scope Z_scope.

Section P.
  Variable w : Z.
  Hypothesis Hw : 1 <= w.
  Variable unit : Z.
  Hypothesis Hunit : 0 < unit.
  Variable cfg : config.
  Hypothesis Hcf : 0 <= pp_min_cf (c_pos cfg).
  Hypothesis Hle : liq_factor_le (c_pos cfg).

  (* what the gates promise for one operation executed by the model in world [wd] *)
  Definition gate_holds (wd : world) (o : op) : Prop :=
    let m := mk_market cfg (fst wd) in
    let ps := snd wd in
    match o with
    | OpFees _ => True
    | OpInc i pr ci sd acc => forall p1 m' rep,
        increase w unit (get_pos ps i) m pr ci sd acc = Ok (p1, m', rep) ->
        check_liquidatable w unit p1 m' pr true true = Ok None
    | OpDec i pr sd acc wd' fl => forall p1 m' rep,
        decrease w unit (get_pos ps i) m pr sd acc wd' fl = Ok (p1, m', rep) ->
        dr_remove rep = true \/
        (check_liquidatable w unit p1 m' pr false false = Ok None /\
         (check_liquidatable w unit p1 m' pr true true = Ok None \/
          check_liquidatable w unit p1 m' pr true true = Ok (Some R_MIN_COLLATERAL)))
    | OpLiq i pr sd acc wd' => forall p1 m' rep,
        liquidate w unit (get_pos ps i) m pr sd acc wd' = Ok (p1, m', rep) ->
        (exists reason, check_liquidatable w unit (get_pos ps i) m pr true true = Ok (Some reason)) /\
        dr_remove rep = true /\ dr_size_delta rep = size_usd (get_pos ps i) /\
        size_usd p1 = 0 /\ size_tok p1 = 0 /\ coll p1 = 0
    | OpAdl i pr sd acc wd' => forall p1 m' rep before after,
        auto_deleverage w unit (get_pos ps i) m pr sd acc wd' = Ok (p1, m', rep, before, after) ->
        pnl_factor_exceeded_adl w unit m pr (is_long (get_pos ps i)) = Ok (Some before) /\
        0 < before /\ c_max_pnl_adl cfg < before /\
        pnl_factor w unit m' pr (is_long (get_pos ps i)) = Ok after /\
        after < before /\ c_min_pnl_after_adl cfg <= after /\
        (dr_remove rep = true \/
         (check_liquidatable w unit p1 m' pr false false = Ok None /\
          (check_liquidatable w unit p1 m' pr true true = Ok None \/
           check_liquidatable w unit p1 m' pr true true = Ok (Some R_MIN_COLLATERAL))))
    end.

  Lemma open_of_decrease p m pr sd acc cw fl r :
    pos_shape p -> decrease w unit p m pr sd acc cw fl = Ok r -> 0 < size_usd p /\ 0 < size_tok p /\ 0 <= coll p.
  Proof.
    intros [Sh|(HS & HT & HC)] H; [exact Sh|].
    exfalso. unfold decrease in H. destruct (negb (prices_valid w pr)); [discriminate|].
    rewrite HS, HT, HC in H. cbn in H. discriminate.
  Qed.

  Lemma decrease_gate p m pr sd acc cw fl p1 m' rep :
    m_cfg m = cfg -> pos_shape p ->
    decrease w unit p m pr sd acc cw fl = Ok (p1, m', rep) ->
    dr_remove rep = true \/
    (check_liquidatable w unit p1 m' pr false false = Ok None /\
     (check_liquidatable w unit p1 m' pr true true = Ok None \/
      check_liquidatable w unit p1 m' pr true true = Ok (Some R_MIN_COLLATERAL))).
  Proof.
    intros Ec Sh H. destruct (open_of_decrease _ _ _ _ _ _ _ _ Sh H) as (HS & HT & HC).
    destruct (dr_remove rep) eqn:Er; [left; reflexivity|right].
    assert (A : 0 <= pp_min_cf (c_pos (m_cfg m))) by (rewrite Ec; exact Hcf).
    assert (B : liq_factor_le (c_pos (m_cfg m))) by (rewrite Ec; exact Hle).
    exact (decrease_open_health w Hw unit Hunit _ _ _ _ _ _ _ _ _ _ HS HT HC A B H Er).
  Qed.

  Theorem gate_step wd o : world_inv wd -> gate_holds wd o.
  Proof.
    destruct wd as [s ps]. intros Inv. pose proof (fun i => get_pos_shape ps i (proj2 Inv)) as Sh.
    assert (Ec : m_cfg (mk_market cfg s) = cfg) by reflexivity.
    destruct o as [s'|i pr ci sd acc|i pr sd acc wd' fl|i pr sd acc wd'|i pr sd acc wd']; cbn [gate_holds fst snd].
    - exact I.
    - intros p1 m' rep H.
      exact (proj2 (increase_not_liquidatable w Hw unit Hunit _ (mk_market cfg s) _ _ _ _ _ _ _ Hcf Hle H)).
    - intros p1 m' rep H. exact (decrease_gate _ _ _ _ _ _ _ _ _ _ Ec (Sh i) H).
    - intros p1 m' rep H.
      assert (Hd : exists r, decrease w unit (get_pos ps i) (mk_market cfg s) pr sd acc wd' (MkFlags true true false) = Ok r).
      { unfold liquidate in H. destruct (sd <? size_usd (get_pos ps i)); [discriminate|]. eexists; exact H. }
      destruct Hd as [r Hd]. destruct (open_of_decrease _ _ _ _ _ _ _ _ (Sh i) Hd) as (HS & HT & HC).
      destruct (liquidation_gate w Hw unit _ _ _ _ _ _ _ _ _ HS HT HC H) as (A & B & C & _ & D).
      exact (conj A (conj B (conj C D))).
    - intros p1 m' rep before after H.
      destruct (adl_gate w unit _ _ _ _ _ _ _ _ _ _ _ H) as (A & B & C & D & E & F & G).
      pose proof (decrease_gate _ _ _ _ _ _ _ _ _ _ Ec (Sh i) D) as Hg.
      destruct (open_of_decrease _ _ _ _ _ _ _ _ (Sh i) D) as (HS & HT & HC).
      pose proof (decrease_effect w Hw unit _ _ _ _ _ _ _ _ _ _ HS HT HC D) as (_ & _ & _ & _ & _ & _ & _ & Cfg & _).
      rewrite Cfg in G. cbn [m_cfg mk_market] in C, G.
      repeat split; assumption.
  Qed.

  (* along every history from a world satisfying the invariant, every operation obeys its gate *)
  Theorem gate_history ops : forall wd, world_inv wd ->
    forall pre o post, ops = pre ++ o :: post -> gate_holds (run w unit cfg wd pre) o.
  Proof.
    intros wd Inv pre o post _. apply gate_step. exact (history_inv w Hw unit cfg wd pre Inv).
  Qed.
End P.
