(* C15 — executable model of the market pool (programs/store/src/states/market/pool.rs and
   the SDK copy crates/programs/src/model/pool.rs, both `Num = u128`, `Signed = i128`).
   Definitions only.

   A pool is three stored fields: the [is_pure] byte (pure <-> non-zero) and the two u128
   amounts.  For a pure pool only [long_token_amount] is used: it is the TOTAL; the long view
   is ceil(total/2), the short view floor(total/2).

   Errors: Err 1 = gmsol_model::Error::Computation (checked_add_signed overflow),
           Err 2 = Error::Convert / Computation from to_signed / to_opposite_signed
                   (trait default cancel only),
           Err 100 = panic of the `debug_assert_eq!(short_token_amount, 0)` in the two views
                   (debug builds only: [dbg] = true). *)
From GV Require Import lib.Base.
Open Scope Z_scope.

Definition W : Z := 128.
Definition E_COMP : Z := 1.
Definition E_CONV : Z := 2.
Definition P_DEBUG : Z := 100.

Record pool := mkp { is_pure : Z; long_f : Z; short_f : Z }.

Definition pure (p : pool) : bool := negb (is_pure p =? 0).

Definition ceil2 (x : Z) : Z := (x + 1) / 2.      (* u128::div_ceil(2) *)

(* Balance::long_amount / short_amount *)
Definition long_amount (dbg : bool) (p : pool) : res Z :=
  if pure p then
    if dbg && negb (short_f p =? 0) then Err P_DEBUG else Ok (ceil2 (long_f p))
  else Ok (long_f p).
Definition short_amount (dbg : bool) (p : pool) : res Z :=
  if pure p then
    if dbg && negb (short_f p =? 0) then Err P_DEBUG else Ok (long_f p / 2)
  else Ok (short_f p).

(* u128::checked_add_signed *)
Definition add_signed (a d : Z) : res Z := of_opt E_COMP (chk_u W (a + d)).

Definition apply_long (p : pool) (d : Z) : res pool :=
  a <-- add_signed (long_f p) d ;; Ok (mkp (is_pure p) a (short_f p)).
Definition apply_short (p : pool) (d : Z) : res pool :=
  if pure p then a <-- add_signed (long_f p) d ;; Ok (mkp (is_pure p) a (short_f p))
  else a <-- add_signed (short_f p) d ;; Ok (mkp (is_pure p) (long_f p) a).
(* PoolExt::apply_delta_amount *)
Definition apply_delta_amount (p : pool) (is_long : bool) (d : Z) : res pool :=
  if is_long then apply_long p d else apply_short p d.

(* checked_apply_delta on a copy: long first, then short *)
Definition checked_apply_delta (p : pool) (dl ds : option Z) : res pool :=
  p1 <-- match dl with Some d => apply_long p d | None => Ok p end ;;
  match ds with Some d => apply_short p1 d | None => Ok p1 end.

(* program: the overriding checked_cancel_amounts *)
Definition cancel_amounts (l s : Z) : Z * Z :=
  if s <=? l then (Z.abs (l - s), 0) else (0, Z.abs (l - s)).
Definition cancel_prog (p : pool) : res pool :=
  if pure p then Ok (mkp (is_pure p) (Z.land (long_f p) 1) (short_f p))
  else let '(l, s) := cancel_amounts (long_f p) (short_f p) in Ok (mkp (is_pure p) l s).

(* the trait's DEFAULT checked_cancel_amounts (crates/model/src/pool/mod.rs): nets through signed deltas.
   Neither Pool type uses it any more (the SDK pool had no override before fix c40-sdk-pool-cancel-override). *)
Definition to_signed_ (x : Z) : res Z := of_opt E_CONV (to_signed W x).
Definition to_opposite_signed (x : Z) : res Z :=
  s <-- to_signed_ x ;; of_opt E_COMP (sneg W s).
Definition cancel_default (dbg : bool) (p : pool) : res pool :=
  l <-- long_amount dbg p ;;
  s <-- short_amount dbg p ;;
  let left := Z.abs (l - s) in
  let '(dl, ds) := if s <=? l then (Z.abs (l - left), s) else (l, Z.abs (s - left)) in
  a <-- to_opposite_signed dl ;;
  b <-- to_opposite_signed ds ;;
  checked_apply_delta p (Some a) (Some b).

(* SDK: crates/programs/src/model/pool.rs now carries the same override as the program (same text) *)
Definition cancel_sdk (dbg : bool) (p : pool) : res pool := cancel_prog p.

(* ---------- histories ---------- *)
Inductive op :=
| OLong (d : Z)                      (* apply_delta_to_long_amount *)
| OShort (d : Z)                     (* apply_delta_to_short_amount *)
| OSide (is_long : bool) (d : Z)     (* PoolExt::apply_delta_amount *)
| ODelta (dl ds : option Z)          (* checked_apply_delta, result stored back on success *)
| OCancel.                           (* checked_cancel_amounts, result stored back on success *)

(* [sdk] selects the SDK's cancel; a failed operation leaves the pool unchanged *)
Definition step (sdk dbg : bool) (p : pool) (o : op) : res pool :=
  match o with
  | OLong d => apply_long p d
  | OShort d => apply_short p d
  | OSide b d => apply_delta_amount p b d
  | ODelta dl ds => checked_apply_delta p dl ds
  | OCancel => if sdk then cancel_sdk dbg p else cancel_prog p
  end.
Definition step_keep (sdk dbg : bool) (p : pool) (o : op) : pool :=
  match step sdk dbg p o with Ok p' => p' | Err _ => p end.
