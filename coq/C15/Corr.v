(* C15 — correspondence + oracle.  One case = one op history on one pool value, on either
   the program's `Pool` (sdk = false) or the SDK's `Pool` (sdk = true); [dbg] tells whether
   the driver was built with debug assertions (the views `debug_assert` short = 0 when pure).

   Observation after every op: result code (0 = Ok, else the Err code of Model.v; 100 = panic),
   the three stored fields, and the two views (long_amount(), short_amount()). *)
From GV Require Import lib.Base.
From GV Require Export C15.Model.
Open Scope Z_scope.

Inductive obs := Obs (code : Z) (ip l s : Z) (lv sv : res Z).
Inductive case := Hist (sdk dbg : bool) (ip l s : Z) (h : list (op * obs)).

Definition reqb (a b : res Z) : bool :=
  match a, b with Ok x, Ok y => x =? y | Err x, Err y => x =? y | _, _ => false end.
Definition pool_eqb (p : pool) (ip l s : Z) : bool :=
  (is_pure p =? ip) && (long_f p =? l) && (short_f p =? s).

Fixpoint mrun (sdk dbg : bool) (p : pool) (h : list (op * obs)) : bool :=
  match h with
  | [] => true
  | (o, Obs code ip l s lv sv) :: r =>
      let res := step sdk dbg p o in
      let p' := match res with Ok q => q | Err _ => p end in
      (match res with Ok _ => code =? 0 | Err e => code =? e end)
      && pool_eqb p' ip l s
      && reqb (long_amount dbg p') lv && reqb (short_amount dbg p') sv
      && mrun sdk dbg p' r
  end.

Definition corr_b (c : case) : bool :=
  match c with Hist sdk dbg ip l s h => mrun sdk dbg (mkp ip l s) h end.

(* ---------- oracle: the property on the implementation's outputs, in plain arithmetic ----------
   state before an op = the fields reported by the previous observation. *)
Definition in128 (x : Z) : bool := (0 <=? x) && (x <? 2 ^ 128).
Definition i128max : Z := 2 ^ 127 - 1.

(* views of a well-formed pure pool: ceil/floor halves adding up to the stored total *)
Definition views_ok (pure_ : bool) (l s : Z) (lv sv : res Z) : bool :=
  if pure_ then
    if s =? 0 then
      match lv, sv with
      | Ok a, Ok b => (a + b =? l) && ((a =? b) || (a =? b + 1)) && (0 <=? b)
      | _, _ => false
      end
    else true            (* malformed (never produced by the program): not constrained *)
  else reqb lv (Ok l) && reqb sv (Ok s).

(* expected total / fields after an op, or None when the op must fail *)
Definition seq_add (t : Z) (d : option Z) : option Z :=
  match d with None => Some t | Some x => if in128 (t + x) then Some (t + x) else None end.

Definition ostep (sdk : bool) (ip l s : Z) (o : op) (ob : obs) : bool :=
  let pure_ := negb (ip =? 0) in
  match ob with Obs code ip' l' s' lv sv =>
    (ip' =? ip) && views_ok pure_ l' s' lv sv &&
    (if pure_ then
       (s' =? s) &&
       match o with
       | OLong d | OShort d | OSide _ d =>
           if in128 (l + d) then (code =? 0) && (l' =? l + d) else (code =? 1) && (l' =? l)
       | ODelta dl ds =>
           match seq_add l dl with
           | Some t => match seq_add t ds with
                       | Some t' => (code =? 0) && (l' =? t')
                       | None => (code =? 1) && (l' =? l)
                       end
           | None => (code =? 1) && (l' =? l)
           end
       | OCancel => if s =? 0 then (code =? 0) && (l' =? l mod 2) else true
       end
     else
       match o with
       | OLong d | OSide true d =>
           (s' =? s) && (if in128 (l + d) then (code =? 0) && (l' =? l + d) else (code =? 1) && (l' =? l))
       | OShort d | OSide false d =>
           (l' =? l) && (if in128 (s + d) then (code =? 0) && (s' =? s + d) else (code =? 1) && (s' =? s))
       | ODelta dl ds =>
           match seq_add l dl, seq_add s ds with
           | Some a, Some b => (code =? 0) && (l' =? a) && (s' =? b)
           | _, _ => (code =? 1) && (l' =? l) && (s' =? s)
           end
       | OCancel =>
           let m := Z.min l s in
           if code =? 0 then (l' =? l - m) && (s' =? s - m)
           else (* netting never fails, on either implementation (both override the trait default) *)
             false
       end)
  end.

Fixpoint orun (sdk : bool) (ip l s : Z) (h : list (op * obs)) : bool :=
  match h with
  | [] => true
  | (o, ob) :: r =>
      ostep sdk ip l s o ob &&
      match ob with Obs _ ip' l' s' _ _ => orun sdk ip' l' s' r end
  end.

Definition oracle_b (c : case) : bool :=
  match c with Hist sdk dbg ip l s h => in128 l && in128 s && orun sdk ip l s h end.

Definition known_b (c : case) : Z := 0.
