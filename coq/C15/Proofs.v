(* C15 — proofs about the pool model. *)
From GV Require Import lib.Base C15.Model.
Open Scope Z_scope.

Ltac Zify.zify_post_hook ::= Z.div_mod_to_equations.

(* well-formed pure pool: pure flag set, short field unused (zero), total in u128 *)
Definition wf_pure (p : pool) : Prop :=
  pure p = true /\ short_f p = 0 /\ 0 <= long_f p < 2 ^ 128.
Definition in_range (p : pool) : Prop := 0 <= long_f p < 2 ^ 128 /\ 0 <= short_f p < 2 ^ 128.

Lemma pow128 : 2 ^ 128 = 340282366920938463463374607431768211456.
Proof. reflexivity. Qed.
Lemma pow127 : 2 ^ 127 = 170141183460469231731687303715884105728.
Proof. reflexivity. Qed.

(* ---------------------------------------------------------------- views *)
Lemma pure_views (dbg : bool) p : wf_pure p ->
  long_amount dbg p = Ok (ceil2 (long_f p)) /\ short_amount dbg p = Ok (long_f p / 2).
Proof.
  intros (Hp & Hs & Hr). unfold long_amount, short_amount. rewrite Hp, Hs. cbn.
  rewrite andb_false_r. auto.
Qed.

Lemma halves_sum t : ceil2 t + t / 2 = t.
Proof. unfold ceil2. lia. Qed.

Lemma halves_close t : 0 <= ceil2 t - t / 2 <= 1.
Proof. unfold ceil2. lia. Qed.

Lemma pure_sides_sum (dbg : bool) p : wf_pure p ->
  exists lv sv, long_amount dbg p = Ok lv /\ short_amount dbg p = Ok sv /\
    lv + sv = long_f p /\ 0 <= lv - sv <= 1 /\ 0 <= sv.
Proof.
  intros W. destruct (pure_views dbg p W) as [A B]. destruct W as (_ & _ & Hr).
  exists (ceil2 (long_f p)), (long_f p / 2). repeat split; auto.
  - apply halves_sum.
  - apply halves_close.
  - apply halves_close.
  - lia.
Qed.

(* ---------------------------------------------------------------- deltas *)
Lemma add_signed_ok a d : 0 <= a + d < 2 ^ 128 -> add_signed a d = Ok (a + d).
Proof.
  intros H. unfold add_signed, chk_u, in_u, W.
  destruct (Z.leb_spec 0 (a + d)); destruct (Z.ltb_spec (a + d) (2 ^ 128)); cbn; auto; lia.
Qed.
Lemma add_signed_err a d : ~ (0 <= a + d < 2 ^ 128) -> add_signed a d = Err E_COMP.
Proof.
  intros H. unfold add_signed, chk_u, in_u, W.
  destruct (Z.leb_spec 0 (a + d)); destruct (Z.ltb_spec (a + d) (2 ^ 128)); cbn; auto; lia.
Qed.
Lemma add_signed_cases a d :
  (0 <= a + d < 2 ^ 128 /\ add_signed a d = Ok (a + d)) \/
  (~ (0 <= a + d < 2 ^ 128) /\ add_signed a d = Err E_COMP).
Proof.
  destruct (Z_le_dec 0 (a + d)) as [A|A]; destruct (Z_lt_dec (a + d) (2 ^ 128)) as [B|B].
  - left. split; [split; assumption|]. apply add_signed_ok. split; assumption.
  - right. assert (N : ~ (0 <= a + d < 2 ^ 128)) by (intros [_ Q]; exact (B Q)). split; [exact N|now apply add_signed_err].
  - right. assert (N : ~ (0 <= a + d < 2 ^ 128)) by (intros [Q _]; exact (A Q)). split; [exact N|now apply add_signed_err].
  - right. assert (N : ~ (0 <= a + d < 2 ^ 128)) by (intros [Q _]; exact (A Q)). split; [exact N|now apply add_signed_err].
Qed.

(* on a pure pool both sides write the single stored total *)
Lemma pure_apply_long p d : pure p = true ->
  apply_long p d = if (0 <=? long_f p + d) && (long_f p + d <? 2 ^ 128)
                   then Ok (mkp (is_pure p) (long_f p + d) (short_f p)) else Err E_COMP.
Proof.
  intros _. unfold apply_long.
  destruct (add_signed_cases (long_f p) d) as [[H E]|[H E]]; rewrite E; cbn [rbind].
  - destruct (Z.leb_spec 0 (long_f p + d)); destruct (Z.ltb_spec (long_f p + d) (2 ^ 128)); cbn; auto; lia.
  - destruct (Z.leb_spec 0 (long_f p + d)); destruct (Z.ltb_spec (long_f p + d) (2 ^ 128)); cbn; auto; lia.
Qed.

Lemma pure_apply_short p d : pure p = true -> apply_short p d = apply_long p d.
Proof. intros H. unfold apply_short, apply_long. now rewrite H. Qed.

Lemma impure_apply_short p d : pure p = false ->
  apply_short p d = if (0 <=? short_f p + d) && (short_f p + d <? 2 ^ 128)
                    then Ok (mkp (is_pure p) (long_f p) (short_f p + d)) else Err E_COMP.
Proof.
  intros H. unfold apply_short. rewrite H.
  destruct (add_signed_cases (short_f p) d) as [[H' E]|[H' E]]; rewrite E; cbn [rbind].
  - destruct (Z.leb_spec 0 (short_f p + d)); destruct (Z.ltb_spec (short_f p + d) (2 ^ 128)); cbn; auto; lia.
  - destruct (Z.leb_spec 0 (short_f p + d)); destruct (Z.ltb_spec (short_f p + d) (2 ^ 128)); cbn; auto; lia.
Qed.

(* exact statement: a delta on either side of a pure pool changes the total by exactly d,
   and fails exactly when the new total leaves u128 (pool unchanged) *)
Lemma pure_delta_exact p (is_long : bool) d : wf_pure p ->
  (0 <= long_f p + d < 2 ^ 128 /\
   exists p', apply_delta_amount p is_long d = Ok p' /\ wf_pure p' /\
              is_pure p' = is_pure p /\ long_f p' = long_f p + d) \/
  (~ (0 <= long_f p + d < 2 ^ 128) /\ apply_delta_amount p is_long d = Err E_COMP).
Proof.
  intros (Hp & Hs & Hr). unfold apply_delta_amount.
  assert (E : (if is_long then apply_long p d else apply_short p d) = apply_long p d).
  { destruct is_long; [reflexivity|now apply pure_apply_short]. }
  rewrite E. rewrite (pure_apply_long p d Hp).
  destruct (Z.leb_spec 0 (long_f p + d)); destruct (Z.ltb_spec (long_f p + d) (2 ^ 128)); cbn [andb].
  - left. split; [lia|]. eexists. split; [reflexivity|]. unfold wf_pure, pure. cbn. repeat split; auto; lia.
  - right. split; [lia|reflexivity].
  - right. split; [lia|reflexivity].
  - right. split; [lia|reflexivity].
Qed.

(* ---------------------------------------------------------------- netting *)
Lemma land1 x : 0 <= x -> Z.land x 1 = x mod 2.
Proof. intros H. change 1 with (Z.ones 1). rewrite Z.land_ones by lia. reflexivity. Qed.

Lemma pure_cancel_prog p : wf_pure p ->
  exists p', cancel_prog p = Ok p' /\ wf_pure p' /\ is_pure p' = is_pure p /\ long_f p' = long_f p mod 2.
Proof.
  intros (Hp & Hs & Hr). unfold cancel_prog. rewrite Hp.
  eexists. split; [reflexivity|]. cbn. rewrite land1 by lia.
  unfold wf_pure, pure in *. cbn. repeat split; auto; lia.
Qed.

Lemma to_opposite_signed_ok x : 0 <= x <= 2 ^ 127 - 1 -> to_opposite_signed x = Ok (- x).
Proof.
  intros H. unfold to_opposite_signed, to_signed_, to_signed, W.
  change (2 ^ (128 - 1)) with (2 ^ 127).
  destruct (Z.ltb_spec x (2 ^ 127)); [|lia]. cbn.
  unfold sneg, chk_s, in_s. change (2 ^ (128 - 1)) with (2 ^ 127).
  destruct (Z.leb_spec (- 2 ^ 127) (- x)); destruct (Z.ltb_spec (- x) (2 ^ 127)); cbn; auto; lia.
Qed.

Lemma to_opposite_signed_err x : 2 ^ 127 <= x -> to_opposite_signed x = Err E_CONV.
Proof.
  intros H. unfold to_opposite_signed, to_signed_, to_signed, W.
  change (2 ^ (128 - 1)) with (2 ^ 127).
  destruct (Z.ltb_spec x (2 ^ 127)); [lia|]. reflexivity.
Qed.

(* the trait's default netting goes through signed deltas.
   On a pure pool it never fails and gives the same pool as the override's `&= 1`. *)
Lemma pure_cancel_default (dbg : bool) p : wf_pure p -> cancel_default dbg p = cancel_prog p.
Proof.
  intros W. destruct (pure_views dbg p W) as [A B]. destruct W as (Hp & Hs & Hr).
  unfold cancel_default. rewrite A, B. cbn [rbind].
  set (t := long_f p) in *.
  assert (H1 : t / 2 <=? ceil2 t = true) by (apply Z.leb_le; unfold ceil2; lia).
  rewrite H1.
  assert (H2 : Z.abs (ceil2 t - Z.abs (ceil2 t - t / 2)) = t / 2) by (unfold ceil2; lia).
  rewrite H2.
  assert (Hh : 0 <= t / 2 <= 2 ^ 127 - 1) by (rewrite pow127; rewrite pow128 in Hr; lia).
  rewrite (to_opposite_signed_ok (t / 2) Hh). cbn [rbind].
  unfold checked_apply_delta.
  rewrite (pure_apply_long p (- (t / 2)) Hp). fold t.
  destruct (Z.leb_spec 0 (t + - (t / 2))); [|lia].
  destruct (Z.ltb_spec (t + - (t / 2)) (2 ^ 128)); [|lia]. cbn [andb rbind].
  rewrite pure_apply_short by (unfold pure in *; cbn; exact Hp).
  rewrite pure_apply_long by (unfold pure in *; cbn; exact Hp). cbn [long_f is_pure short_f].
  destruct (Z.leb_spec 0 (t + - (t / 2) + - (t / 2))); [|lia].
  destruct (Z.ltb_spec (t + - (t / 2) + - (t / 2)) (2 ^ 128)); [|lia]. cbn [andb].
  unfold cancel_prog. rewrite Hp. fold t. rewrite land1 by lia.
  do 2 f_equal. lia.
Qed.

(* impure pools: the program nets exactly min(l, s) from both sides *)
Lemma impure_cancel_prog p : pure p = false -> in_range p ->
  exists p', cancel_prog p = Ok p' /\ is_pure p' = is_pure p /\
    long_f p' = long_f p - Z.min (long_f p) (short_f p) /\
    short_f p' = short_f p - Z.min (long_f p) (short_f p) /\
    (long_f p' = 0 \/ short_f p' = 0) /\ long_f p' - short_f p' = long_f p - short_f p.
Proof.
  intros Hp [Hl Hs]. unfold cancel_prog, cancel_amounts. rewrite Hp.
  destruct (Z.leb_spec (short_f p) (long_f p)); eexists; (split; [reflexivity|]); cbn; repeat split; lia.
Qed.

(* ... while the trait's default fails as soon as the netted amount exceeds i128::MAX
   (this is why both Pool types override it; the SDK type lacked the override until fix c40-sdk-pool-cancel-override) *)
Lemma impure_cancel_default_fails (dbg : bool) p : pure p = false -> in_range p ->
  2 ^ 127 <= Z.min (long_f p) (short_f p) -> cancel_default dbg p = Err E_CONV.
Proof.
  intros Hp [Hl Hs] Hm. unfold cancel_default, long_amount, short_amount. rewrite Hp. cbn [rbind].
  destruct (Z.leb_spec (short_f p) (long_f p)).
  - replace (Z.abs (long_f p - Z.abs (long_f p - short_f p))) with (short_f p) by lia.
    rewrite to_opposite_signed_err by lia. reflexivity.
  - rewrite to_opposite_signed_err by lia. reflexivity.
Qed.

Lemma impure_cancel_default_agrees (dbg : bool) p : pure p = false -> in_range p ->
  Z.min (long_f p) (short_f p) <= 2 ^ 127 - 1 -> cancel_default dbg p = cancel_prog p.
Proof.
  intros Hp [Hl Hs] Hm. unfold cancel_default, long_amount, short_amount. rewrite Hp. cbn [rbind].
  unfold cancel_prog, cancel_amounts. rewrite Hp.
  destruct (Z.leb_spec (short_f p) (long_f p)).
  - replace (Z.abs (long_f p - Z.abs (long_f p - short_f p))) with (short_f p) by lia.
    rewrite to_opposite_signed_ok by lia. cbn [rbind].
    unfold checked_apply_delta, apply_long. rewrite add_signed_ok by lia. cbn [rbind].
    rewrite impure_apply_short by (unfold pure in *; cbn; exact Hp). cbn [long_f is_pure short_f].
    destruct (Z.leb_spec 0 (short_f p + - short_f p)); [|lia].
    destruct (Z.ltb_spec (short_f p + - short_f p) (2 ^ 128)); [|lia]. cbn [andb].
    do 2 f_equal; lia.
  - replace (Z.abs (short_f p - Z.abs (long_f p - short_f p))) with (long_f p) by lia.
    rewrite to_opposite_signed_ok by lia. cbn [rbind].
    unfold checked_apply_delta, apply_long. rewrite add_signed_ok by lia. cbn [rbind].
    rewrite impure_apply_short by (unfold pure in *; cbn; exact Hp). cbn [long_f is_pure short_f].
    destruct (Z.leb_spec 0 (short_f p + - long_f p)); [|lia].
    destruct (Z.ltb_spec (short_f p + - long_f p) (2 ^ 128)); [|lia]. cbn [andb].
    do 2 f_equal; lia.
Qed.

(* ---------------------------------------------------------------- histories *)
(* the ledger of a pure pool is ONE number; this is what every op does to it *)
Definition fits (t : Z) : bool := (0 <=? t) && (t <? 2 ^ 128).
Definition ledger_step (t : Z) (o : op) : Z :=
  match o with
  | OLong d | OShort d | OSide _ d => if fits (t + d) then t + d else t
  | ODelta dl ds =>
      let t1 := match dl with Some d => t + d | None => t end in
      let t2 := match ds with Some d => t1 + d | None => t1 end in
      if fits t1 && fits t2 then t2 else t
  | OCancel => t mod 2
  end.

Lemma fits_spec t : fits t = true <-> 0 <= t < 2 ^ 128.
Proof.
  unfold fits. rewrite andb_true_iff, Z.leb_le, Z.ltb_lt. tauto.
Qed.

Lemma pure_step_keep (sdk dbg : bool) p o : wf_pure p ->
  let p' := step_keep sdk dbg p o in
  wf_pure p' /\ is_pure p' = is_pure p /\ long_f p' = ledger_step (long_f p) o.
Proof.
  intros W. pose proof W as (Hp & Hs & Hr). unfold step_keep, step.
  destruct o as [d|d|b d|dl ds|].
  - (* long *)
    destruct (pure_delta_exact p true d W) as [(R & p' & E & W' & I & L)|(R & E)];
      cbn [apply_delta_amount] in E; rewrite E; cbn [ledger_step].
    + rewrite (proj2 (fits_spec _) R). auto.
    + destruct (fits (long_f p + d)) eqn:F; [apply fits_spec in F; lia|]. auto.
  - (* short *)
    destruct (pure_delta_exact p false d W) as [(R & p' & E & W' & I & L)|(R & E)];
      cbn [apply_delta_amount] in E; rewrite E; cbn [ledger_step].
    + rewrite (proj2 (fits_spec _) R). auto.
    + destruct (fits (long_f p + d)) eqn:F; [apply fits_spec in F; lia|]. auto.
  - (* side *)
    destruct (pure_delta_exact p b d W) as [(R & p' & E & W' & I & L)|(R & E)];
      rewrite E; cbn [ledger_step].
    + rewrite (proj2 (fits_spec _) R). auto.
    + destruct (fits (long_f p + d)) eqn:F; [apply fits_spec in F; lia|]. auto.
  - (* checked_apply_delta *)
    unfold checked_apply_delta. cbn [ledger_step].
    destruct dl as [d1|].
    + destruct (pure_delta_exact p true d1 W) as [(R & p1 & E & W1 & I1 & L1)|(R & E)];
        cbn [apply_delta_amount] in E; rewrite E; cbn [rbind].
      * rewrite (proj2 (fits_spec _) R). cbn [andb].
        destruct ds as [d2|].
        -- destruct (pure_delta_exact p1 false d2 W1) as [(R2 & p2 & E2 & W2 & I2 & L2)|(R2 & E2)];
             cbn [apply_delta_amount] in E2; rewrite E2.
           ++ rewrite <- L1. rewrite (proj2 (fits_spec _) R2). repeat split; auto; try apply W2; congruence.
           ++ rewrite <- L1. destruct (fits (long_f p1 + d2)) eqn:F; [apply fits_spec in F; lia|]. auto.
        -- rewrite <- L1. rewrite (proj2 (fits_spec _) (proj2 (proj2 W1))). repeat split; auto; apply W1.
      * destruct (fits (long_f p + d1)) eqn:F; [apply fits_spec in F; lia|]. cbn [andb]. auto.
    + cbn [rbind]. rewrite (proj2 (fits_spec _) Hr). cbn [andb].
      destruct ds as [d2|].
      * destruct (pure_delta_exact p false d2 W) as [(R2 & p2 & E2 & W2 & I2 & L2)|(R2 & E2)];
          cbn [apply_delta_amount] in E2; rewrite E2.
        -- rewrite (proj2 (fits_spec _) R2). auto.
        -- destruct (fits (long_f p + d2)) eqn:F; [apply fits_spec in F; lia|]. auto.
      * rewrite (proj2 (fits_spec _) Hr). auto.
  - (* cancel: both implementations *)
    assert (E : (if sdk then cancel_sdk dbg p else cancel_prog p) = cancel_prog p).
    { destruct sdk; reflexivity. }
    rewrite E. destruct (pure_cancel_prog p W) as (p' & E' & W' & I & L). rewrite E'. auto.
Qed.

Definition run (sdk dbg : bool) (p : pool) (ops : list op) : pool := fold_left (step_keep sdk dbg) ops p.

Lemma pure_history (sdk dbg : bool) ops : forall p, wf_pure p ->
  let p' := run sdk dbg p ops in
  wf_pure p' /\ is_pure p' = is_pure p /\ long_f p' = fold_left ledger_step ops (long_f p).
Proof.
  induction ops as [|o ops IH]; intros p W; cbn.
  - auto.
  - destruct (pure_step_keep sdk dbg p o W) as (W1 & I1 & L1).
    destruct (IH _ W1) as (W2 & I2 & L2). unfold run in *. cbn in *.
    repeat split; try apply W2; try congruence.
Qed.

(* the SDK pool and the program pool: the same netting on EVERY pool, hence identical states over any history *)
Lemma sdk_cancel_eq_prog (dbg : bool) p : cancel_sdk dbg p = cancel_prog p.
Proof. reflexivity. Qed.

Lemma sdk_eq_prog (dbg : bool) ops : forall p, run true dbg p ops = run false dbg p ops.
Proof.
  induction ops as [|o ops IH]; intros p; [reflexivity|].
  unfold run in *. cbn [fold_left].
  assert (E : step_keep true dbg p o = step_keep false dbg p o).
  { unfold step_keep, step. destruct o; reflexivity. }
  rewrite E. apply IH.
Qed.

Lemma pure_sdk_eq_prog (dbg : bool) ops p : wf_pure p -> run true dbg p ops = run false dbg p ops.
Proof. intros _. apply sdk_eq_prog. Qed.

(* views after netting a pure pool: only the parity remainder, on the long side *)
Lemma pure_cancel_views (dbg : bool) p : wf_pure p ->
  exists p', cancel_prog p = Ok p' /\ long_amount dbg p' = Ok (long_f p mod 2) /\ short_amount dbg p' = Ok 0.
Proof.
  intros W. destruct (pure_cancel_prog p W) as (p' & E & W' & I & L).
  exists p'. split; [exact E|]. destruct (pure_views dbg p' W') as [A B]. rewrite A, B, L.
  unfold ceil2. split; f_equal; lia.
Qed.

Lemma default_cancel_witness :
  let p := mkp 0 (2 ^ 128 - 1) (2 ^ 127) in
  pure p = false /\ in_range p /\
  cancel_prog p = Ok (mkp 0 (2 ^ 127 - 1) 0) /\ cancel_default true p = Err E_CONV /\ cancel_sdk true p = cancel_prog p.
Proof. vm_compute. repeat split; congruence. Qed.
