(* C15 — single-token ("pure") pools account for every token exactly once.
   [wf_pure p]: pure flag set, the unused short field is zero (as `Pools::init` leaves it:
   the account is zeroed and only the flag is written), stored total within u128. *)
From GV Require Import lib.Base C15.Model C15.Proofs.
Open Scope Z_scope.

(* long view + short view = stored total; the views are the ceil / floor halves *)
Theorem c15_pure_sides_sum : forall (dbg : bool) p, wf_pure p ->
  exists lv sv, long_amount dbg p = Ok lv /\ short_amount dbg p = Ok sv /\
    lv + sv = long_f p /\ 0 <= lv - sv <= 1 /\ 0 <= sv.
Proof. exact pure_sides_sum. Qed.

(* a signed delta on EITHER side changes the stored total by exactly that amount; it fails
   (pool unchanged, by [step_keep]) exactly when the new total would leave u128 *)
Theorem c15_pure_delta_exact : forall p (is_long : bool) d, wf_pure p ->
  (0 <= long_f p + d < 2 ^ 128 /\
   exists p', apply_delta_amount p is_long d = Ok p' /\ wf_pure p' /\
              is_pure p' = is_pure p /\ long_f p' = long_f p + d) \/
  (~ (0 <= long_f p + d < 2 ^ 128) /\ apply_delta_amount p is_long d = Err E_COMP).
Proof. exact pure_delta_exact. Qed.

(* netting leaves only the parity remainder (program's override) ... *)
Theorem c15_pure_cancel_parity : forall p, wf_pure p ->
  exists p', cancel_prog p = Ok p' /\ wf_pure p' /\ is_pure p' = is_pure p /\ long_f p' = long_f p mod 2.
Proof. exact pure_cancel_prog. Qed.
Theorem c15_pure_cancel_views : forall (dbg : bool) p, wf_pure p ->
  exists p', cancel_prog p = Ok p' /\ long_amount dbg p' = Ok (long_f p mod 2) /\ short_amount dbg p' = Ok 0.
Proof. exact pure_cancel_views. Qed.
(* ... the SDK pool carries the same override: identical result on EVERY pool ... *)
Theorem c15_sdk_cancel_eq_prog : forall (dbg : bool) p, cancel_sdk dbg p = cancel_prog p.
Proof. exact sdk_cancel_eq_prog. Qed.
(* ... and the trait's default (through signed deltas) never fails on a pure pool and returns the identical pool *)
Theorem c15_pure_cancel_default_eq : forall (dbg : bool) p, wf_pure p -> cancel_default dbg p = cancel_prog p.
Proof. exact pure_cancel_default. Qed.

(* HISTORY FORM: over any sequence of operations (either side, both sides, netting; failed
   operations leave the pool as it was) a pure pool stays well-formed and its stored total
   is exactly the one-number ledger [ledger_step] folded over the sequence *)
Theorem c15_pure_history : forall (sdk dbg : bool) ops p, wf_pure p ->
  let p' := run sdk dbg p ops in
  wf_pure p' /\ is_pure p' = is_pure p /\ long_f p' = fold_left ledger_step ops (long_f p).
Proof. exact pure_history. Qed.

Theorem c15_pure_sdk_eq_prog : forall (dbg : bool) ops p, wf_pure p ->
  run true dbg p ops = run false dbg p ops.
Proof. exact pure_sdk_eq_prog. Qed.
(* since the SDK override: on ALL pools (two-token ones included, any amounts) *)
Theorem c15_sdk_eq_prog : forall (dbg : bool) ops p, run true dbg p ops = run false dbg p ops.
Proof. intros. apply sdk_eq_prog. Qed.

(* two-token pools, for contrast: netting removes min(l, s) from both sides *)
Theorem c15_impure_cancel : forall p, pure p = false -> in_range p ->
  exists p', cancel_prog p = Ok p' /\ is_pure p' = is_pure p /\
    long_f p' = long_f p - Z.min (long_f p) (short_f p) /\
    short_f p' = short_f p - Z.min (long_f p) (short_f p) /\
    (long_f p' = 0 \/ short_f p' = 0) /\ long_f p' - short_f p' = long_f p - short_f p.
Proof. exact impure_cancel_prog. Qed.

(* why the override matters: on two-token pools the trait's DEFAULT netting fails exactly when the
   netted amount exceeds i128::MAX, where the override succeeds (the SDK pool ran this default until
   fix c40-sdk-pool-cancel-override) *)
Theorem c15_default_cancel_impure_agrees : forall (dbg : bool) p, pure p = false -> in_range p ->
  Z.min (long_f p) (short_f p) <= 2 ^ 127 - 1 -> cancel_default dbg p = cancel_prog p.
Proof. exact impure_cancel_default_agrees. Qed.
Theorem c15_default_cancel_impure_fails : forall (dbg : bool) p, pure p = false -> in_range p ->
  2 ^ 127 <= Z.min (long_f p) (short_f p) -> cancel_default dbg p = Err E_CONV.
Proof. exact impure_cancel_default_fails. Qed.
Theorem c15_default_cancel_witness :
  let p := mkp 0 (2 ^ 128 - 1) (2 ^ 127) in
  pure p = false /\ in_range p /\
  cancel_prog p = Ok (mkp 0 (2 ^ 127 - 1) 0) /\ cancel_default true p = Err E_CONV /\ cancel_sdk true p = cancel_prog p.
Proof. exact default_cancel_witness. Qed.

(* non-vacuity *)
Example c15_ex_wf : wf_pure (mkp 1 (2 ^ 128 - 1) 0) /\ wf_pure (mkp 255 0 0).
Proof. unfold wf_pure. cbn. split; repeat split; try reflexivity; try lia. Qed.
Example c15_ex_run :
  run true true (mkp 1 (2 ^ 128 - 1) 0) [OShort 1; OLong (-4); ODelta (Some 5) (Some (-2)); OCancel; OSide false 7]
  = mkp 1 8 0.
Proof. vm_compute. reflexivity. Qed.
