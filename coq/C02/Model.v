(* C02 — model of crates/model/src/params/fee.rs (fee splitting).
   Parametric in the bit width [w] and [unit] = 10^DECIMALS.  Definitions only. *)
From GV Require Import lib.Base C01.Model.
Open Scope Z_scope.

(* pool::delta::BalanceChange *)
Inductive bchange := Improved | Worsened | Unchanged.

(* FeeParams<T> *)
Record fparams := MkFP { fp_pos : Z; fp_neg : Z; fp_recv : Z; fp_disc : option Z }.
(* LiquidationFeeParams<T> *)
Record lparams := MkLP { lp_factor : Z; lp_recv : Z }.

(* PositionFees<T>: paid_order_and_borrowing_fee_value, order.{pool,receiver,fee_value},
   borrowing.{fee_amount,fee_amount_for_receiver}, funding.amount,
   liquidation = Some (fee_value, fee_amount, fee_amount_for_receiver) *)
Record pfees := MkPF {
  pf_paid : Z; pf_pool : Z; pf_recv : Z; pf_fee_value : Z;
  pf_bamount : Z; pf_brecv : Z; pf_funding : Z; pf_liq : option (Z * Z * Z) }.

Section Fee.
  Variables w unit : Z.

  (* FeeParams::factor : Improved -> positive factor, Unchanged | Worsened -> negative factor *)
  Definition factor_of (p : fparams) (bc : bchange) : Z :=
    match bc with Improved => fp_pos p | Worsened | Unchanged => fp_neg p end.

  (* FeeParams::discount_factor : None -> 0 *)
  Definition disc_of (p : fparams) : Z := match fp_disc p with Some d => d | None => 0 end.

  (* FeeParams::fee *)
  Definition fee (p : fparams) (bc : bchange) (a : Z) : option Z :=
    f <- apply_factor w unit a (factor_of p bc) ;;
    d <- apply_factor w unit f (disc_of p) ;;
    usub w f d.

  (* FeeParams::receiver_fee *)
  Definition receiver_fee (p : fparams) (fa : Z) : option Z := apply_factor w unit fa (fp_recv p).

  (* FeeParams::apply_fees : (amount after fees, fee for pool, fee for receiver) *)
  Definition apply_fees (p : fparams) (bc : bchange) (a : Z) : option (Z * Z * Z) :=
    fa <- fee p bc a ;;
    r <- receiver_fee p fa ;;
    pl <- usub w fa r ;;
    n <- usub w a fa ;;
    Some (n, pl, r).

  (* FeeParams::order_fees (through base_position_fees) : (pool, receiver, fee_value).
     Err 1 = InvalidPrices, 2 = "calculating order fee value", 3 = "calculating order fee amount",
     4 = "calculating order receiver fee", 5 = "calculating order fee for pool". *)
  Definition order_fees (p : fparams) (pmin pmax size : Z) (bc : bchange) : res (Z * Z * Z) :=
    if (pmin =? 0) || (pmax =? 0) then Err 1 else
    fv <-- of_opt 2 (fee p bc size) ;;
    fa <-- of_opt 3 (udiv w fv pmin) ;;
    r <-- of_opt 4 (receiver_fee p fa) ;;
    pl <-- of_opt 5 (usub w fa r) ;;
    Ok (pl, r, fv).

  (* LiquidationFeeParams::fee : (fee_value, fee_amount, fee_amount_for_receiver).
     Err 11 = "liquidation fee: calculating fee value", 12 = "... fee amount",
     13 = "... fee amount for receiver". *)
  Definition liq_fee (lp : lparams) (size pmin : Z) : res (Z * Z * Z) :=
    if lp_factor lp =? 0 then Ok (0, 0, 0) else
    fv <-- of_opt 11 (apply_factor w unit size (lp_factor lp)) ;;
    fa <-- of_opt 12 (round_up_div w fv pmin) ;;
    r <-- of_opt 13 (apply_factor w unit fa (lp_recv lp)) ;;
    Ok (fv, fa, r).

  (* PositionExt::position_fees with the pending borrowing value [bval] and the funding
     amount [funding] supplied: liquidation fee first, then base_position_fees, then
     set_borrowing_fees (Err 6 = "calculating borrowing amount", 7 = "adding borrowing fee
     value", 8 = "calculating borrowing fee amount for receiver"), then funding/liquidation set. *)
  Definition position_fees (p : fparams) (lp : lparams) (brf pmin pmax size : Z) (bc : bchange)
             (is_liq : bool) (bval funding : Z) : res pfees :=
    lq <-- (if is_liq then x <-- liq_fee lp size pmin ;; Ok (Some x) else Ok None) ;;
    o <-- order_fees p pmin pmax size bc ;;
    let '(pl, r, fv) := o in
    ba <-- of_opt 6 (udiv w bval pmin) ;;
    paid <-- of_opt 7 (uadd w fv bval) ;;
    br <-- of_opt 8 (apply_factor w unit ba brf) ;;
    Ok (MkPF paid pl r fv ba br funding lq).
End Fee.

Section Totals.
  Variable w : Z.

  (* PositionFees::for_receiver : Err 20 *)
  Definition for_receiver (f : pfees) : res Z :=
    of_opt 20 (t <- uadd w (pf_recv f) (pf_brecv f) ;;
               match pf_liq f with Some (_, _, lr) => uadd w t lr | None => Some t end).

  (* PositionFees::for_pool : Err 21 = "borrowing fee: calculating fee for pool",
     22 = "adding borrowing fee for pool", 23 = "liquidation fee: calculating fee for pool",
     24 = "adding liquidation fee for pool" *)
  Definition for_pool (f : pfees) : res Z :=
    bp <-- of_opt 21 (usub w (pf_bamount f) (pf_brecv f)) ;;
    t <-- of_opt 22 (uadd w (pf_pool f) bp) ;;
    match pf_liq f with
    | Some (_, la, lr) => lpool <-- of_opt 23 (usub w la lr) ;; of_opt 24 (uadd w t lpool)
    | None => Ok t
    end.

  (* PositionFees::total_cost_excluding_funding : Err 25 *)
  Definition total_cost_excl (f : pfees) : res Z :=
    of_opt 25 (a <- uadd w (pf_pool f) (pf_recv f) ;;
               b <- uadd w a (pf_bamount f) ;;
               match pf_liq f with Some (_, la, _) => uadd w b la | None => Some b end).

  (* PositionFees::total_cost_amount : Err 26 = Overflow *)
  Definition total_cost (f : pfees) : res Z :=
    t <-- total_cost_excl f ;; of_opt 26 (uadd w t (pf_funding f)).
End Totals.
