(* C02 — property theorems (stub, replaced below) *)
From GV Require Import lib.Base C01.Model C02.Model.
Open Scope Z_scope.
