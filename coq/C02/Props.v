(* C02 — property theorems only (fee splitting never creates or loses tokens).
   Each is closed by a lemma of Proofs.v; statements are pinned here. *)
From GV Require Import lib.Base C01.Model C02.Model C02.Proofs.
Open Scope Z_scope.

Ltac use L := first [ exact L | intros w _; exact (L w) | intros w Hw u _; exact (L w Hw u)
                    | intros w _ u Hu; exact (L w u Hu) | intros w _ u _; exact (L w u)
                    | intros w Hw u Hu; exact (L w Hw u Hu) ].

(* FeeParams::fee is exactly gross fee minus floor discount; it fails exactly when the gross fee
   does not fit or the discount exceeds it (discount factor above 100%) *)
Theorem c02_fee_exact : forall w, 1 <= w -> forall unit, 0 < unit -> forall p bc a q,
  wf_params p -> 0 <= a ->
  fee w unit p bc a = Some q <->
  (Fg unit p bc a < 2 ^ w /\ Dg unit p bc a <= Fg unit p bc a /\ q = Ng unit p bc a).
Proof. use fee_some. Qed.

Theorem c02_fee_none : forall w, 1 <= w -> forall unit, 0 < unit -> forall p bc a,
  wf_params p -> 0 <= a ->
  fee w unit p bc a = None <-> (2 ^ w <= Fg unit p bc a \/ Fg unit p bc a < Dg unit p bc a).
Proof. use fee_none. Qed.

(* the fee never exceeds the undiscounted fee, nor the gross amount when the factor is <= 100% *)
Theorem c02_fee_le_gross : forall w, 1 <= w -> forall unit, 0 < unit -> forall p bc a q,
  wf_params p -> 0 <= a -> fee w unit p bc a = Some q ->
  0 <= q <= Fg unit p bc a /\ (factor_of p bc <= unit -> q <= a).
Proof. use fee_le_gross. Qed.

(* a discount never raises the fee *)
Theorem c02_discount_monotone : forall w, 1 <= w -> forall unit, 0 < unit -> forall p bc a d1 d2 q1 q2,
  wf_params p -> 0 <= a -> 0 <= d1 <= d2 ->
  fee w unit (with_disc p (Some d1)) bc a = Some q1 ->
  fee w unit (with_disc p (Some d2)) bc a = Some q2 -> q2 <= q1.
Proof. use discount_monotone. Qed.

Theorem c02_discount_never_raises : forall w, 1 <= w -> forall unit, 0 < unit -> forall p bc a d q0 q,
  wf_params p -> 0 <= a -> 0 <= d ->
  fee w unit (with_disc p None) bc a = Some q0 ->
  fee w unit (with_disc p (Some d)) bc a = Some q -> q <= q0.
Proof. use discount_never_raises. Qed.

(* swap / deposit / withdrawal fee: exact split of the gross amount, for ALL factors *)
Theorem c02_apply_fees_split : forall w, 1 <= w -> forall unit, 0 < unit -> forall p bc a n pl r,
  wf_params p -> 0 <= a < 2 ^ w ->
  apply_fees w unit p bc a = Some (n, pl, r) ->
  n + pl + r = a /\ 0 <= n /\ 0 <= pl /\ 0 <= r /\
  fee w unit p bc a = Some (pl + r) /\ pl + r <= a /\
  receiver_fee w unit p (pl + r) = Some r.
Proof. use apply_fees_split. Qed.

(* exact success / failure characterisation *)
Theorem c02_apply_fees_exact : forall w, 1 <= w -> forall unit, 0 < unit -> forall p bc a n pl r,
  wf_params p -> 0 <= a < 2 ^ w ->
  apply_fees w unit p bc a = Some (n, pl, r) <->
  (Fg unit p bc a < 2 ^ w /\ Dg unit p bc a <= Fg unit p bc a /\ Rg unit p bc a <= Ng unit p bc a /\
   Ng unit p bc a <= a /\
   n = a - Ng unit p bc a /\ pl = Ng unit p bc a - Rg unit p bc a /\ r = Rg unit p bc a).
Proof. use apply_fees_some. Qed.

Theorem c02_apply_fees_none : forall w, 1 <= w -> forall unit, 0 < unit -> forall p bc a,
  wf_params p -> 0 <= a < 2 ^ w ->
  apply_fees w unit p bc a = None <->
  (2 ^ w <= Fg unit p bc a \/ Fg unit p bc a < Dg unit p bc a \/ Ng unit p bc a < Rg unit p bc a \/
   a < Ng unit p bc a).
Proof. use apply_fees_none. Qed.

(* factors of at most 100%: never fails *)
Theorem c02_apply_fees_valid_total : forall w, 1 <= w -> forall unit, 0 < unit -> forall p bc a,
  wf_params p -> valid_params unit p -> 0 <= a < 2 ^ w ->
  exists n pl r, apply_fees w unit p bc a = Some (n, pl, r).
Proof. use apply_fees_valid_total. Qed.

(* invalid factors fail instead of producing a larger-than-input fee / share *)
Theorem c02_invalid_factor_fails : forall w, 1 <= w -> forall unit, 0 < unit -> forall p bc a,
  wf_params p -> 0 <= a < 2 ^ w -> a < Ng unit p bc a -> apply_fees w unit p bc a = None.
Proof. use invalid_factor_fails. Qed.
Theorem c02_invalid_discount_fails : forall w, 1 <= w -> forall unit, 0 < unit -> forall p bc a,
  wf_params p -> 0 <= a < 2 ^ w -> Fg unit p bc a < Dg unit p bc a -> apply_fees w unit p bc a = None.
Proof. use invalid_discount_fails. Qed.
Theorem c02_invalid_receiver_fails : forall w, 1 <= w -> forall unit, 0 < unit -> forall p bc a,
  wf_params p -> 0 <= a < 2 ^ w -> Ng unit p bc a < Rg unit p bc a -> apply_fees w unit p bc a = None.
Proof. use invalid_receiver_fails. Qed.

(* order fee: value = FeeParams::fee(size), amount = floor(value / min price) split exactly into
   pool and receiver shares; bounded by the size delta for a factor of at most 100%
   (complement of known-finding class 1) *)
Theorem c02_order_fees_split : forall w, 1 <= w -> forall unit, 0 < unit -> forall p pmin pmax size bc pl r fv,
  wf_params p -> 0 <= size -> 0 <= pmin -> 0 <= pmax ->
  order_fees w unit p pmin pmax size bc = Ok (pl, r, fv) ->
  pmin <> 0 /\ pmax <> 0 /\ fee w unit p bc size = Some fv /\
  pl + r = fv / pmin /\ 0 <= pl /\ 0 <= r /\
  receiver_fee w unit p (fv / pmin) = Some r /\
  (factor_of p bc <= unit -> fv <= size).
Proof. use order_fees_ok. Qed.

Theorem c02_order_fees_valid_total : forall w, 1 <= w -> forall unit, 0 < unit -> forall p pmin pmax size bc,
  wf_params p -> valid_params unit p -> 0 <= size < 2 ^ w -> 0 < pmin -> 0 < pmax ->
  exists pl r fv, order_fees w unit p pmin pmax size bc = Ok (pl, r, fv).
Proof. use order_fees_valid_total. Qed.

(* known finding 1 (OrderFeeFactorAboveUnit): with a factor above 100% the order path does not fail
   and the fee value exceeds the size delta *)
Theorem c02_order_fee_above_unit_refuted :
  exists p pmin pmax size bc pl r fv, wf_params p /\
    order_fees 64 (10 ^ 9) p pmin pmax size bc = Ok (pl, r, fv) /\ size < fv.
Proof.
  exists (MkFP 1500000000 500000000 0 None), 1, 1, 1000000, Improved, 1500000, 0, 1500000.
  split; [unfold wf_params; simpl; lia|]. split; [vm_compute; reflexivity|lia].
Qed.

(* liquidation fee: value floors, amount is the CEILING of value / min price
   (complement of known-finding class 2 for the bound) *)
Theorem c02_liquidation_fee_round_up : forall w, 1 <= w -> forall unit, 0 < unit -> forall lp size pmin fv fa r,
  0 <= lp_factor lp -> 0 <= lp_recv lp -> 0 <= size -> 0 <= pmin ->
  liq_fee w unit lp size pmin = Ok (fv, fa, r) ->
  (lp_factor lp = 0 /\ fv = 0 /\ fa = 0 /\ r = 0) \/
  (lp_factor lp <> 0 /\ pmin <> 0 /\ fv = size * lp_factor lp / unit /\
   pmin * (fa - 1) < fv <= pmin * fa /\ r = fa * lp_recv lp / unit /\ 0 <= fa /\
   (lp_factor lp <= unit -> fv <= size) /\ (lp_recv lp <= unit -> r <= fa)).
Proof. use liq_fee_ok. Qed.

Theorem c02_liq_fee_above_unit_refuted :
  exists lp size pmin fv fa r, 0 <= lp_factor lp /\ 0 <= lp_recv lp /\
    liq_fee 64 (10 ^ 9) lp size pmin = Ok (fv, fa, r) /\ size < fv.
Proof.
  exists (MkLP 1500000000 0), 1000, 1, 1500, 1500, 0. simpl.
  split; [lia|]. split; [lia|]. split; [vm_compute; reflexivity|lia].
Qed.

(* PositionFees: the parts are assembled unchanged, and pool share + receiver share = total cost *)
Theorem c02_position_fees_parts : forall w unit p lp brf pmin pmax size bc is_liq bval funding f,
  position_fees w unit p lp brf pmin pmax size bc is_liq bval funding = Ok f ->
  order_fees w unit p pmin pmax size bc = Ok (pf_pool f, pf_recv f, pf_fee_value f) /\
  (if is_liq then exists x, liq_fee w unit lp size pmin = Ok x /\ pf_liq f = Some x else pf_liq f = None) /\
  udiv w bval pmin = Some (pf_bamount f) /\
  apply_factor w unit (pf_bamount f) brf = Some (pf_brecv f) /\
  uadd w (pf_fee_value f) bval = Some (pf_paid f) /\ pf_funding f = funding.
Proof. exact position_fees_ok. Qed.

Theorem c02_totals_conserved : forall w f x y t,
  for_receiver w f = Ok x -> for_pool w f = Ok y -> total_cost_excl w f = Ok t -> x + y = t.
Proof. exact totals_conserved. Qed.

Theorem c02_total_cost_ok : forall w, 1 <= w -> forall f t, total_cost w f = Ok t ->
  exists t0, total_cost_excl w f = Ok t0 /\ t = t0 + pf_funding f.
Proof. exact total_cost_ok. Qed.

(* non-vacuity *)
Example c02_ex1 :
  apply_fees 64 (10 ^ 9) (MkFP 500000 700000 370000000 (Some 100000000)) Worsened 5420568315936659214
  = Some (5417153357897619119, 2151423564595260, 1263534474444835).
Proof. vm_compute. reflexivity. Qed.
Example c02_ex2 : apply_fees 64 (10 ^ 9) (MkFP 1500000000 0 0 None) Improved 1000 = None
  /\ order_fees 128 (10 ^ 20) (MkFP 0 (10 ^ 20) (37 * 10 ^ 18) None) 7 9 1000 Unchanged = Ok (90, 52, 1000).
Proof. vm_compute. split; reflexivity. Qed.
Example c02_ex3 : liq_fee 64 (10 ^ 9) (MkLP 2000000 370000000) 1000000 7 = Ok (2000, 286, 105).
Proof. vm_compute. reflexivity. Qed.
