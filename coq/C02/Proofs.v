(* C02 — lemmas about the fee model. *)
From GV Require Import lib.Base lib.DivLemmas C01.Model C01.Proofs C02.Model.
Open Scope Z_scope.
Ltac Zify.zify_post_hook ::= Z.div_mod_to_equations.

Lemma rbind_ok {A B} (a : res A) (f : A -> res B) r :
  rbind a f = Ok r <-> exists x, a = Ok x /\ f x = Ok r.
Proof.
  destruct a; simpl; split; intros H; eauto.
  - destruct H as [x [E H]]. injection E as <-. exact H.
  - discriminate.
  - destruct H as [x [E _]]; discriminate.
Qed.
Lemma of_opt_ok {A} e (o : option A) x : of_opt e o = Ok x <-> o = Some x.
Proof. destruct o; simpl; split; intros H; try discriminate; congruence. Qed.
Lemma of_opt_err {A} e (o : option A) e' : of_opt e o = Err e' <-> (o = None /\ e' = e).
Proof. destruct o; simpl; split; intros H; try discriminate; try (destruct H; discriminate). - injection H as <-. auto. - destruct H as [_ ->]. reflexivity. Qed.

(* all parameters are unsigned machine integers *)
Definition wf_params (p : fparams) : Prop :=
  0 <= fp_pos p /\ 0 <= fp_neg p /\ 0 <= fp_recv p /\ 0 <= match fp_disc p with Some d => d | None => 0 end.

Section P.
  Variable w : Z.
  Hypothesis Hw : 1 <= w.
  Variable unit : Z.
  Hypothesis Hunit : 0 < unit.

  Let P2 : 0 < 2 ^ w. Proof. apply pow2_pos; lia. Qed.

  Lemma factor_of_nonneg p bc : wf_params p -> 0 <= factor_of p bc.
  Proof. intros (A & B & _). destruct bc; simpl; lia. Qed.
  Lemma disc_of_nonneg p : wf_params p -> 0 <= disc_of p.
  Proof. intros (_ & _ & _ & D). exact D. Qed.

  (* exact integer quantities *)
  Definition Fg (p : fparams) bc a := a * factor_of p bc / unit.           (* undiscounted fee *)
  Definition Dg (p : fparams) bc a := Fg p bc a * disc_of p / unit.        (* discount *)
  Definition Ng (p : fparams) bc a := Fg p bc a - Dg p bc a.               (* fee after discount *)
  Definition Rg (p : fparams) bc a := Ng p bc a * fp_recv p / unit.        (* receiver share *)

  Lemma Fg_nonneg p bc a : wf_params p -> 0 <= a -> 0 <= Fg p bc a.
  Proof. intros Hp Ha. pose proof (factor_of_nonneg p bc Hp). apply div_nonneg; nia. Qed.
  Lemma Dg_nonneg p bc a : wf_params p -> 0 <= a -> 0 <= Dg p bc a.
  Proof. intros Hp Ha. pose proof (Fg_nonneg p bc a Hp Ha). pose proof (disc_of_nonneg p Hp). apply div_nonneg; nia. Qed.

  (* scaling by a factor <= 100% never increases *)
  Lemma scale_le x f : 0 <= x -> 0 <= f <= unit -> x * f / unit <= x.
  Proof. intros Hx Hf. apply Z.div_le_upper_bound; [lia|]. nia. Qed.

  (* ---- FeeParams::fee ---- *)
  Theorem fee_some p bc a q : wf_params p -> 0 <= a ->
    fee w unit p bc a = Some q <-> (Fg p bc a < 2 ^ w /\ Dg p bc a <= Fg p bc a /\ q = Ng p bc a).
  Proof.
    intros Hp Ha. pose proof (factor_of_nonneg p bc Hp) as Hf. pose proof (disc_of_nonneg p Hp) as Hd.
    pose proof (Fg_nonneg p bc a Hp Ha) as HF. pose proof (Dg_nonneg p bc a Hp Ha) as HD.
    unfold fee, Ng, Dg. fold (Fg p bc a) in *. split.
    - rewrite obind_some. intros (f & H1 & H2).
      apply apply_factor_exact in H1; [|lia..]. destruct H1 as [-> H1]. fold (Fg p bc a) in *.
      rewrite obind_some in H2. destruct H2 as (d & H2 & H3).
      apply apply_factor_exact in H2; [|lia..]. destruct H2 as [-> H2].
      unfold usub in H3. apply chk_u_some in H3. lia.
    - intros (H1 & H2 & ->). rewrite obind_some. exists (Fg p bc a). split.
      + apply apply_factor_exact; [lia..|]. split; [reflexivity|lia].
      + rewrite obind_some. exists (Fg p bc a * disc_of p / unit). split.
        * apply apply_factor_exact; [lia..|]. unfold Dg in *. split; [reflexivity|lia].
        * unfold usub. apply chk_u_some. unfold Dg in *. lia.
  Qed.

  Theorem fee_none p bc a : wf_params p -> 0 <= a ->
    fee w unit p bc a = None <-> (2 ^ w <= Fg p bc a \/ Fg p bc a < Dg p bc a).
  Proof.
    intros Hp Ha. destruct (fee w unit p bc a) as [q|] eqn:E.
    - apply fee_some in E; [|assumption..]. split; [discriminate|lia].
    - split; [intros _|reflexivity].
      destruct (Z_lt_dec (Fg p bc a) (2 ^ w)) as [A|A]; [|lia].
      destruct (Z_le_dec (Dg p bc a) (Fg p bc a)) as [B|B]; [|lia].
      assert (fee w unit p bc a = Some (Ng p bc a)) as E' by (apply fee_some; auto).
      congruence.
  Qed.

  (* the discounted fee never exceeds the undiscounted one, and for a factor of at
     most 100% never exceeds the gross amount *)
  Theorem fee_le_gross p bc a q : wf_params p -> 0 <= a ->
    fee w unit p bc a = Some q -> 0 <= q <= Fg p bc a /\ (factor_of p bc <= unit -> q <= a).
  Proof.
    intros Hp Ha H. apply fee_some in H; [|assumption..]. destruct H as (H1 & H2 & ->).
    pose proof (Dg_nonneg p bc a Hp Ha). unfold Ng. split; [lia|]. intros Hf.
    pose proof (scale_le a (factor_of p bc) Ha ltac:(pose proof (factor_of_nonneg p bc Hp); lia)).
    unfold Fg in *. lia.
  Qed.

  Definition with_disc (p : fparams) (d : option Z) : fparams := MkFP (fp_pos p) (fp_neg p) (fp_recv p) d.

  (* a larger discount never raises the fee; any discount never raises it above the
     undiscounted fee *)
  Theorem discount_monotone p bc a d1 d2 q1 q2 : wf_params p -> 0 <= a -> 0 <= d1 <= d2 ->
    fee w unit (with_disc p (Some d1)) bc a = Some q1 ->
    fee w unit (with_disc p (Some d2)) bc a = Some q2 -> q2 <= q1.
  Proof.
    intros (A & B & C & _) Ha Hd H1 H2.
    apply fee_some in H1; [|unfold wf_params; simpl; lia|lia].
    apply fee_some in H2; [|unfold wf_params; simpl; lia|lia].
    destruct H1 as (_ & _ & ->). destruct H2 as (_ & _ & ->).
    unfold Ng, Dg, Fg, disc_of, factor_of. simpl.
    set (F := a * match bc with Improved => fp_pos p | _ => fp_neg p end / unit).
    assert (0 <= F) by (apply div_nonneg; [destruct bc; nia|lia]).
    assert (F * d1 / unit <= F * d2 / unit) by (apply div_mono_num; nia). lia.
  Qed.

  Theorem discount_never_raises p bc a d q0 q : wf_params p -> 0 <= a -> 0 <= d ->
    fee w unit (with_disc p None) bc a = Some q0 ->
    fee w unit (with_disc p (Some d)) bc a = Some q -> q <= q0.
  Proof.
    intros (A & B & C & _) Ha Hd H1 H2.
    apply fee_some in H1; [|unfold wf_params; simpl; lia|lia].
    apply fee_some in H2; [|unfold wf_params; simpl; lia|lia].
    destruct H1 as (_ & _ & ->). destruct H2 as (_ & _ & ->).
    unfold Ng, Dg, Fg, disc_of, factor_of. simpl.
    set (F := a * match bc with Improved => fp_pos p | _ => fp_neg p end / unit).
    assert (0 <= F) by (apply div_nonneg; [destruct bc; nia|lia]).
    assert (0 <= F * d / unit) by (apply div_nonneg; nia).
    rewrite Z.mul_0_r, Z.div_0_l by lia. lia.
  Qed.

  (* ---- FeeParams::apply_fees ---- *)
  Theorem apply_fees_some p bc a n pl r : wf_params p -> 0 <= a < 2 ^ w ->
    apply_fees w unit p bc a = Some (n, pl, r) <->
    (Fg p bc a < 2 ^ w /\ Dg p bc a <= Fg p bc a /\ Rg p bc a <= Ng p bc a /\ Ng p bc a <= a /\
     n = a - Ng p bc a /\ pl = Ng p bc a - Rg p bc a /\ r = Rg p bc a).
  Proof.
    intros Hp Ha. pose proof Hp as (_ & _ & Hr & _).
    pose proof (Dg_nonneg p bc a Hp ltac:(lia)) as HD.
    unfold apply_fees, receiver_fee. split.
    - rewrite obind_some. intros (fa & H1 & H2). apply fee_some in H1; [|assumption|lia].
      destruct H1 as (H1 & H1' & ->).
      rewrite obind_some in H2. destruct H2 as (rc & H2 & H3).
      apply apply_factor_exact in H2; [|unfold Ng; lia..]. destruct H2 as [-> H2]. fold (Rg p bc a) in *.
      rewrite obind_some in H3. destruct H3 as (pl' & H3 & H4). apply chk_u_some in H3. destruct H3 as [H3 ->].
      rewrite obind_some in H4. destruct H4 as (n' & H4 & H5). apply chk_u_some in H4. destruct H4 as [H4 ->].
      injection H5 as <- <- <-. lia.
    - intros (H1 & H2 & H3 & H4 & -> & -> & ->).
      assert (0 <= Rg p bc a) by (unfold Rg; apply div_nonneg; [unfold Ng; nia|lia]).
      rewrite obind_some. exists (Ng p bc a). split; [apply fee_some; auto; lia|].
      rewrite obind_some. exists (Rg p bc a). split.
      { apply apply_factor_exact; [unfold Ng; lia..|]. split; [reflexivity|]. unfold Ng in *. lia. }
      rewrite obind_some. exists (Ng p bc a - Rg p bc a). split; [apply chk_u_some; unfold Ng in *; lia|].
      rewrite obind_some. exists (a - Ng p bc a). split; [apply chk_u_some; unfold Ng in *; lia|]. reflexivity.
  Qed.

  (* the split is exact: nothing is created or lost, and the fee never exceeds the gross amount *)
  Theorem apply_fees_split p bc a n pl r : wf_params p -> 0 <= a < 2 ^ w ->
    apply_fees w unit p bc a = Some (n, pl, r) ->
    n + pl + r = a /\ 0 <= n /\ 0 <= pl /\ 0 <= r /\
    fee w unit p bc a = Some (pl + r) /\ pl + r <= a /\
    receiver_fee w unit p (pl + r) = Some r.
  Proof.
    intros Hp Ha H. pose proof H as H0. apply apply_fees_some in H; [|assumption..].
    destruct H as (H1 & H2 & H3 & H4 & -> & -> & ->). pose proof Hp as (_ & _ & Hr & _).
    pose proof (Dg_nonneg p bc a Hp ltac:(lia)) as HD.
    assert (0 <= Rg p bc a) by (unfold Rg; apply div_nonneg; [unfold Ng; nia|lia]).
    replace (Ng p bc a - Rg p bc a + Rg p bc a) with (Ng p bc a) by lia.
    repeat split; try lia.
    - apply fee_some; auto; lia.
    - unfold receiver_fee. apply apply_factor_exact; [unfold Ng; lia..|]. split; [reflexivity|]. unfold Ng in *. lia.
  Qed.

  (* failure exactly when a share would exceed its base (only possible with a factor above 100%) *)
  Theorem apply_fees_none p bc a : wf_params p -> 0 <= a < 2 ^ w ->
    apply_fees w unit p bc a = None <->
    (2 ^ w <= Fg p bc a \/ Fg p bc a < Dg p bc a \/ Ng p bc a < Rg p bc a \/ a < Ng p bc a).
  Proof.
    intros Hp Ha. destruct (apply_fees w unit p bc a) as [[[n pl] r]|] eqn:E.
    - apply apply_fees_some in E; [|assumption..]. split; [discriminate|lia].
    - split; [intros _|reflexivity].
      destruct (Z_lt_dec (Fg p bc a) (2 ^ w)) as [A|A]; [|lia].
      destruct (Z_le_dec (Dg p bc a) (Fg p bc a)) as [B|B]; [|lia].
      destruct (Z_le_dec (Rg p bc a) (Ng p bc a)) as [C|C]; [|lia].
      destruct (Z_le_dec (Ng p bc a) a) as [D|D]; [|lia].
      assert (apply_fees w unit p bc a = Some (a - Ng p bc a, Ng p bc a - Rg p bc a, Rg p bc a)) as E'
        by (apply apply_fees_some; auto; repeat split; lia).
      congruence.
  Qed.

  Definition valid_params (p : fparams) : Prop :=
    fp_pos p <= unit /\ fp_neg p <= unit /\ fp_recv p <= unit /\ disc_of p <= unit.

  (* for factors of at most 100% the computation always succeeds *)
  Theorem apply_fees_valid_total p bc a : wf_params p -> valid_params p -> 0 <= a < 2 ^ w ->
    exists n pl r, apply_fees w unit p bc a = Some (n, pl, r).
  Proof.
    intros Hp (V1 & V2 & V3 & V4) Ha. pose proof Hp as (W1 & W2 & W3 & W4).
    pose proof (Fg_nonneg p bc a Hp ltac:(lia)) as HF. pose proof (Dg_nonneg p bc a Hp ltac:(lia)) as HD.
    assert (Fg p bc a <= a) by (unfold Fg; apply scale_le; [lia|destruct bc; simpl; lia]).
    assert (Dg p bc a <= Fg p bc a) by (unfold Dg; apply scale_le; [lia|unfold disc_of in *; lia]).
    assert (Rg p bc a <= Ng p bc a) by (unfold Rg; apply scale_le; [unfold Ng; lia|lia]).
    exists (a - Ng p bc a), (Ng p bc a - Rg p bc a), (Rg p bc a).
    apply apply_fees_some; auto. unfold Ng in *. repeat split; lia.
  Qed.

  (* a fee larger than the input makes the computation fail *)
  Theorem invalid_factor_fails p bc a : wf_params p -> 0 <= a < 2 ^ w ->
    a < Ng p bc a -> apply_fees w unit p bc a = None.
  Proof. intros Hp Ha H. apply apply_fees_none; auto. Qed.
  Theorem invalid_discount_fails p bc a : wf_params p -> 0 <= a < 2 ^ w ->
    Fg p bc a < Dg p bc a -> apply_fees w unit p bc a = None.
  Proof. intros Hp Ha H. apply apply_fees_none; auto. Qed.
  Theorem invalid_receiver_fails p bc a : wf_params p -> 0 <= a < 2 ^ w ->
    Ng p bc a < Rg p bc a -> apply_fees w unit p bc a = None.
  Proof. intros Hp Ha H. apply apply_fees_none; auto. Qed.

  (* ---- order fees ---- *)
  Theorem order_fees_ok p pmin pmax size bc pl r fv : wf_params p -> 0 <= size -> 0 <= pmin -> 0 <= pmax ->
    order_fees w unit p pmin pmax size bc = Ok (pl, r, fv) ->
    pmin <> 0 /\ pmax <> 0 /\ fee w unit p bc size = Some fv /\
    pl + r = fv / pmin /\ 0 <= pl /\ 0 <= r /\
    receiver_fee w unit p (fv / pmin) = Some r /\
    (factor_of p bc <= unit -> fv <= size).
  Proof.
    intros Hp Hs Hmin Hmax. unfold order_fees.
    destruct ((pmin =? 0) || (pmax =? 0)) eqn:E0; [discriminate|].
    apply orb_false_iff in E0. destruct E0 as [E1 E2].
    rewrite rbind_ok. intros (fv' & H1 & H2). apply of_opt_ok in H1.
    rewrite rbind_ok in H2. destruct H2 as (fa & H2 & H3). apply of_opt_ok in H2.
    unfold udiv in H2. rewrite E1 in H2. injection H2 as <-.
    rewrite rbind_ok in H3. destruct H3 as (rc & H3 & H4). apply of_opt_ok in H3.
    rewrite rbind_ok in H4. destruct H4 as (pl' & H4 & H5). apply of_opt_ok in H4.
    injection H5 as <- <- <-. apply chk_u_some in H4. destruct H4 as [H4 ->].
    pose proof (fee_le_gross p bc size fv' Hp Hs H1) as [Hq Hle].
    pose proof Hp as (_ & _ & Hr & _).
    assert (0 <= fv' / pmin) by (apply div_nonneg; lia).
    pose proof H3 as H3'. unfold receiver_fee in H3'. apply apply_factor_exact in H3'; [|lia..].
    assert (0 <= rc) by (destruct H3' as [-> _]; apply div_nonneg; nia).
    repeat split; try lia; auto.
  Qed.

  (* with valid factors and non-zero prices the order fee computation always succeeds *)
  Theorem order_fees_valid_total p pmin pmax size bc : wf_params p -> valid_params p ->
    0 <= size < 2 ^ w -> 0 < pmin -> 0 < pmax ->
    exists pl r fv, order_fees w unit p pmin pmax size bc = Ok (pl, r, fv).
  Proof.
    intros Hp Hv Hs Hmin Hmax. pose proof Hv as (V1 & V2 & V3 & V4). pose proof Hp as (W1 & W2 & W3 & W4).
    destruct (apply_fees_valid_total p bc size Hp Hv Hs) as (n & pl0 & r0 & H).
    apply apply_fees_split in H; [|assumption..]. destruct H as (_ & _ & _ & _ & Hfee & Hle & _).
    set (fv := pl0 + r0) in *.
    assert (0 <= fv) by (apply fee_le_gross in Hfee; [lia|assumption|lia]).
    assert (Hfa : 0 <= fv / pmin <= fv) by (split; [apply div_nonneg; lia|apply div_le_self; lia]).
    set (fa := fv / pmin) in *.
    assert (Hr : fa * fp_recv p / unit <= fa) by (apply scale_le; lia).
    assert (0 <= fa * fp_recv p / unit) by (apply div_nonneg; nia).
    exists (fa - fa * fp_recv p / unit), (fa * fp_recv p / unit), fv.
    unfold order_fees. replace ((pmin =? 0) || (pmax =? 0)) with false
      by (symmetry; apply orb_false_iff; split; apply Z.eqb_neq; lia).
    rewrite Hfee. cbn [of_opt rbind]. unfold udiv. replace (pmin =? 0) with false by (symmetry; apply Z.eqb_neq; lia).
    cbn [of_opt rbind]. fold fa. unfold receiver_fee.
    assert (E1 : apply_factor w unit fa (fp_recv p) = Some (fa * fp_recv p / unit))
      by (apply apply_factor_exact; [lia..|split; [reflexivity|lia]]).
    rewrite E1. cbn [of_opt rbind].
    assert (E2 : usub w fa (fa * fp_recv p / unit) = Some (fa - fa * fp_recv p / unit))
      by (apply chk_u_some; lia).
    rewrite E2. reflexivity.
  Qed.

  (* ---- liquidation fee ---- *)
  Theorem liq_fee_ok lp size pmin fv fa r : 0 <= lp_factor lp -> 0 <= lp_recv lp -> 0 <= size -> 0 <= pmin ->
    liq_fee w unit lp size pmin = Ok (fv, fa, r) ->
    (lp_factor lp = 0 /\ fv = 0 /\ fa = 0 /\ r = 0) \/
    (lp_factor lp <> 0 /\ pmin <> 0 /\ fv = size * lp_factor lp / unit /\
     pmin * (fa - 1) < fv <= pmin * fa /\ r = fa * lp_recv lp / unit /\ 0 <= fa /\
     (lp_factor lp <= unit -> fv <= size) /\ (lp_recv lp <= unit -> r <= fa)).
  Proof.
    intros Hf Hr Hs Hp. unfold liq_fee. destruct (lp_factor lp =? 0) eqn:E.
    - intros H. injection H as <- <- <-. left. lia.
    - rewrite rbind_ok. intros (fv' & H1 & H2). apply of_opt_ok in H1.
      apply apply_factor_exact in H1; [|lia..]. destruct H1 as [-> H1].
      rewrite rbind_ok in H2. destruct H2 as (fa' & H2 & H3). apply of_opt_ok in H2.
      assert (0 <= size * lp_factor lp / unit) by (apply div_nonneg; nia).
      apply round_up_div_sound in H2; [|lia..]. destruct H2 as [Hp0 Hceil].
      rewrite rbind_ok in H3. destruct H3 as (r' & H3 & H4). apply of_opt_ok in H3.
      injection H4 as <- <- <-.
      assert (0 <= fa') by nia.
      apply apply_factor_exact in H3; [|lia..]. destruct H3 as [-> H3].
      right. repeat split; try lia.
      + intros Hle. apply scale_le; lia.
      + intros Hle. apply scale_le; lia.
  Qed.

  (* ---- PositionFees totals: pool share + receiver share = total cost ---- *)
  Theorem totals_conserved f x y t :
    for_receiver w f = Ok x -> for_pool w f = Ok y -> total_cost_excl w f = Ok t -> x + y = t.
  Proof.
    unfold for_receiver, for_pool, total_cost_excl. intros Hx Hy Ht.
    apply of_opt_ok in Hx. apply of_opt_ok in Ht.
    rewrite obind_some in Hx. destruct Hx as (t1 & Hx1 & Hx2). apply chk_u_some in Hx1. destruct Hx1 as [_ ->].
    rewrite obind_some in Ht. destruct Ht as (a1 & Ht1 & Ht2). apply chk_u_some in Ht1. destruct Ht1 as [_ ->].
    rewrite obind_some in Ht2. destruct Ht2 as (b1 & Ht2 & Ht3). apply chk_u_some in Ht2. destruct Ht2 as [_ ->].
    rewrite rbind_ok in Hy. destruct Hy as (bp & Hy1 & Hy2). apply of_opt_ok in Hy1. apply chk_u_some in Hy1. destruct Hy1 as [_ ->].
    rewrite rbind_ok in Hy2. destruct Hy2 as (t2 & Hy2 & Hy3). apply of_opt_ok in Hy2. apply chk_u_some in Hy2. destruct Hy2 as [_ ->].
    destruct (pf_liq f) as [[[lv la] lr]|].
    - apply chk_u_some in Hx2. destruct Hx2 as [_ ->]. apply chk_u_some in Ht3. destruct Ht3 as [_ ->].
      rewrite rbind_ok in Hy3. destruct Hy3 as (lpool & Hy3 & Hy4). apply of_opt_ok in Hy3. apply chk_u_some in Hy3. destruct Hy3 as [_ ->].
      apply of_opt_ok in Hy4. apply chk_u_some in Hy4. destruct Hy4 as [_ ->]. lia.
    - injection Hx2 as <-. injection Ht3 as <-. injection Hy3 as <-. lia.
  Qed.

  Theorem total_cost_ok f t : total_cost w f = Ok t ->
    exists t0, total_cost_excl w f = Ok t0 /\ t = t0 + pf_funding f.
  Proof.
    unfold total_cost. rewrite rbind_ok. intros (t0 & H1 & H2). exists t0. split; [exact H1|].
    apply of_opt_ok in H2. apply chk_u_some in H2. lia.
  Qed.

  (* ---- position_fees assembles the parts unchanged ---- *)
  Theorem position_fees_ok p lp brf pmin pmax size bc is_liq bval funding f :
    position_fees w unit p lp brf pmin pmax size bc is_liq bval funding = Ok f ->
    order_fees w unit p pmin pmax size bc = Ok (pf_pool f, pf_recv f, pf_fee_value f) /\
    (if is_liq then exists x, liq_fee w unit lp size pmin = Ok x /\ pf_liq f = Some x else pf_liq f = None) /\
    udiv w bval pmin = Some (pf_bamount f) /\
    apply_factor w unit (pf_bamount f) brf = Some (pf_brecv f) /\
    uadd w (pf_fee_value f) bval = Some (pf_paid f) /\ pf_funding f = funding.
  Proof.
    unfold position_fees. rewrite rbind_ok. intros (lq & H1 & H2).
    rewrite rbind_ok in H2. destruct H2 as ([[pl r] fv] & H2 & H3).
    rewrite rbind_ok in H3. destruct H3 as (ba & H3 & H4). apply of_opt_ok in H3.
    rewrite rbind_ok in H4. destruct H4 as (paid & H4 & H5). apply of_opt_ok in H4.
    rewrite rbind_ok in H5. destruct H5 as (br & H5 & H6). apply of_opt_ok in H5.
    injection H6 as <-. cbn [pf_pool pf_recv pf_fee_value pf_liq pf_bamount pf_brecv pf_paid pf_funding].
    repeat split; auto.
    destruct is_liq.
    - rewrite rbind_ok in H1. destruct H1 as (x & H1 & H1'). injection H1' as <-. eauto.
    - injection H1 as <-. reflexivity.
  Qed.
End P.
