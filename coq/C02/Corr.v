(* C02 — correspondence and oracle predicates for harness/src/bin/c02.rs.
   Depends on Model.v only.

   Error codes printed by the driver (gmsol_model::Error):
     1  InvalidPrices
     2  Computation("calculating order fee value")       3  Computation("calculating order fee amount")
     4  Computation("calculating order receiver fee")    5  Computation("calculating order fee for pool")
     6  Computation("calculating borrowing amount")      7  Computation("adding borrowing fee value")
     8  Computation("calculating borrowing fee amount for receiver")
     11 Computation("liquidation fee: calculating fee value")   12 "... fee amount"   13 "... fee amount for receiver"
     20 Computation("calculating fee for receiver")
     21 Computation("borrowing fee: calculating fee for pool")  22 "adding borrowing fee for pool"
     23 Computation("liquidation fee: calculating fee for pool") 24 "adding liquidation fee for pool"
     25 Computation("overflow while calculating total cost excluding funding")   26 Overflow
     99 anything else *)
From GV Require Import lib.Base C01.Model.
From GV Require Export C02.Model.
Open Scope Z_scope.

Inductive case :=
| CFee (w dec : Z) (p : fparams) (bc : bchange) (a : Z) (r : option Z)
| CRecv (w dec : Z) (p : fparams) (fa : Z) (r : option Z)
| CApply (w dec : Z) (p : fparams) (bc : bchange) (a : Z) (r : option (Z * Z * Z))
| COrder (w dec : Z) (p : fparams) (pmin pmax size : Z) (bc : bchange) (r : res (Z * Z * Z))
| CPos (w dec : Z) (p : fparams) (lp : lparams) (brf pmin pmax size : Z) (bc : bchange)
       (is_liq : bool) (bval funding : Z)
       (r : res (pfees * (res Z * res Z * res Z * res Z))).

(* ---------- equality on outputs ---------- *)
Definition o3eqb (a b : option (Z * Z * Z)) : bool :=
  match a, b with
  | Some (x1, x2, x3), Some (y1, y2, y3) => (x1 =? y1) && (x2 =? y2) && (x3 =? y3)
  | None, None => true
  | _, _ => false
  end.
Definition reqb (a b : res Z) : bool :=
  match a, b with Ok x, Ok y => x =? y | Err x, Err y => x =? y | _, _ => false end.
Definition r3eqb (a b : res (Z * Z * Z)) : bool :=
  match a, b with
  | Ok (x1, x2, x3), Ok (y1, y2, y3) => (x1 =? y1) && (x2 =? y2) && (x3 =? y3)
  | Err x, Err y => x =? y
  | _, _ => false
  end.
Definition pfeqb (a b : pfees) : bool :=
  (pf_paid a =? pf_paid b) && (pf_pool a =? pf_pool b) && (pf_recv a =? pf_recv b) &&
  (pf_fee_value a =? pf_fee_value b) && (pf_bamount a =? pf_bamount b) && (pf_brecv a =? pf_brecv b) &&
  (pf_funding a =? pf_funding b) && o3eqb (pf_liq a) (pf_liq b).

Definition corr_b (c : case) : bool :=
  match c with
  | CFee w dec p bc a r => oeqb (fee w (10 ^ dec) p bc a) r
  | CRecv w dec p fa r => oeqb (receiver_fee w (10 ^ dec) p fa) r
  | CApply w dec p bc a r => o3eqb (apply_fees w (10 ^ dec) p bc a) r
  | COrder w dec p pmin pmax size bc r => r3eqb (order_fees w (10 ^ dec) p pmin pmax size bc) r
  | CPos w dec p lp brf pmin pmax size bc is_liq bval funding r =>
      match position_fees w (10 ^ dec) p lp brf pmin pmax size bc is_liq bval funding, r with
      | Ok f, Ok (g, (fr, fp, tce, tc)) =>
          pfeqb f g && reqb (for_receiver w f) fr && reqb (for_pool w f) fp &&
          reqb (total_cost_excl w f) tce && reqb (total_cost w f) tc
      | Err x, Err y => x =? y
      | _, _ => false
      end
  end.

(* ---------- the property on the implementation's outputs ---------- *)
Definition fac (p : fparams) (bc : bchange) : Z :=
  match bc with Improved => fp_pos p | _ => fp_neg p end.
Definition dsc (p : fparams) : Z := match fp_disc p with Some d => d | None => 0 end.
Definition valid_params (u : Z) (p : fparams) : bool :=
  (fp_pos p <=? u) && (fp_neg p <=? u) && (fp_recv p <=? u) && (dsc p <=? u).

(* gross fee and discount, as exact integers *)
Definition gross (u : Z) (p : fparams) (bc : bchange) (a : Z) : Z := a * fac p bc / u.
Definition dcnt (u : Z) (p : fparams) (bc : bchange) (a : Z) : Z := gross u p bc a * dsc p / u.
Definition netfee (u : Z) (p : fparams) (bc : bchange) (a : Z) : Z := gross u p bc a - dcnt u p bc a.

(* [fee_ok]: the fee value [q] is the discounted fee exactly, does not exceed the
   undiscounted fee, and (for factors <= 100%) does not exceed the gross amount *)
Definition fee_ok (w u : Z) (p : fparams) (bc : bchange) (a q : Z) : bool :=
  in_u w q && (q =? netfee u p bc a) && (q <=? gross u p bc a).
Definition fee_fail_ok (w u : Z) (p : fparams) (bc : bchange) (a : Z) : bool :=
  (2 ^ w <=? gross u p bc a) || (gross u p bc a <? dcnt u p bc a).

(* [strict = false] drops exactly the two clauses "fee value <= size delta" on the order and
   liquidation paths; it is used only to delimit the known-finding classes below. *)
Definition oracle_gen (strict : bool) (c : case) : bool :=
  match c with
  | CFee w dec p bc a r =>
      let u := 10 ^ dec in
      match r with
      | Some q => fee_ok w u p bc a q && ((u <? fac p bc) || (q <=? a))
      | None => fee_fail_ok w u p bc a && negb ((fac p bc <=? u) && (dsc p <=? u))
      end
  | CRecv w dec p fa r =>
      let u := 10 ^ dec in
      match r with
      | Some q => in_u w q && (u * q <=? fa * fp_recv p) && (fa * fp_recv p <? u * q + u)
                  && ((u <? fp_recv p) || (q <=? fa))
      | None => (2 ^ w <=? fa * fp_recv p / u) && (u <? fp_recv p)
      end
  | CApply w dec p bc a r =>
      let u := 10 ^ dec in
      match r with
      | Some (n, pl, rc) =>
          (* exact split of the gross amount; nothing created or lost; fee <= gross amount *)
          (0 <=? n) && (0 <=? pl) && (0 <=? rc) && (n + pl + rc =? a) &&
          fee_ok w u p bc a (pl + rc) && (pl + rc <=? a) &&
          (u * rc <=? (pl + rc) * fp_recv p) && ((pl + rc) * fp_recv p <? u * rc + u)
      | None =>
          (* failure only for invalid (above 100%) factors, and for one of the documented reasons *)
          negb (valid_params u p) &&
          (fee_fail_ok w u p bc a || (netfee u p bc a <? netfee u p bc a * fp_recv p / u)
           || (a <? netfee u p bc a))
      end
  | COrder w dec p pmin pmax size bc r =>
      let u := 10 ^ dec in
      match r with
      | Ok (pl, rc, fv) =>
          negb (pmin =? 0) && negb (pmax =? 0) && (0 <=? pl) && (0 <=? rc) &&
          fee_ok w u p bc size fv &&
          (pl + rc =? fv / pmin) &&
          (u * rc <=? (pl + rc) * fp_recv p) && ((pl + rc) * fp_recv p <? u * rc + u) &&
          (negb strict || (fv <=? size))   (* the fee never exceeds the gross amount *)
      | Err e =>
          if (pmin =? 0) || (pmax =? 0) then e =? 1
          else negb (valid_params u p) &&
               (if e =? 2 then fee_fail_ok w u p bc size
                else if (e =? 4) || (e =? 5) then u <? fp_recv p
                else false)
      end
  | CPos w dec p lp brf pmin pmax size bc is_liq bval funding r =>
      let u := 10 ^ dec in
      match r with
      | Ok (f, (fr, fp, tce, tc)) =>
          let fa := pf_pool f + pf_recv f in
          let '(lfv, lfa, lr) := match pf_liq f with Some x => x | None => (0, 0, 0) end in
          negb (pmin =? 0) && negb (pmax =? 0) &&
          (* order part *)
          (0 <=? pf_pool f) && (0 <=? pf_recv f) && fee_ok w u p bc size (pf_fee_value f) &&
          (fa =? pf_fee_value f / pmin) &&
          (u * pf_recv f <=? fa * fp_recv p) && (fa * fp_recv p <? u * pf_recv f + u) &&
          (negb strict || (pf_fee_value f <=? size)) &&
          (* borrowing part *)
          (pf_bamount f =? bval / pmin) && (pf_paid f =? pf_fee_value f + bval) &&
          (u * pf_brecv f <=? pf_bamount f * brf) && (pf_bamount f * brf <? u * pf_brecv f + u) &&
          (pf_funding f =? funding) &&
          (* liquidation part: value floors, amount is rounded UP at the minimum price *)
          (if is_liq then
             match pf_liq f with
             | None => false
             | Some _ =>
                 if lp_factor lp =? 0 then (lfv =? 0) && (lfa =? 0) && (lr =? 0)
                 else (lfv =? size * lp_factor lp / u) &&
                      (pmin * (lfa - 1) <? lfv) && (lfv <=? pmin * lfa) &&
                      (u * lr <=? lfa * lp_recv lp) && (lfa * lp_recv lp <? u * lr + u) &&
                      (negb strict || (lfv <=? size))
             end
           else match pf_liq f with None => true | Some _ => false end) &&
          (* totals: pool share + receiver share = total cost, nothing lost *)
          match fr with
          | Ok x => (x =? pf_recv f + pf_brecv f + lr) && in_u w x
          | Err e => (e =? 20) && (2 ^ w <=? pf_recv f + pf_brecv f + lr)
          end &&
          match fp with
          | Ok y => (y =? pf_pool f + (pf_bamount f - pf_brecv f) + (lfa - lr)) && in_u w y
                    && (pf_brecv f <=? pf_bamount f) && (lr <=? lfa)
          | Err e =>
              if pf_bamount f <? pf_brecv f then e =? 21
              else if 2 ^ w <=? pf_pool f + (pf_bamount f - pf_brecv f) then e =? 22
              else if lfa <? lr then e =? 23
              else (e =? 24) && (2 ^ w <=? pf_pool f + (pf_bamount f - pf_brecv f) + (lfa - lr))
          end &&
          match tce with
          | Ok t => (t =? fa + pf_bamount f + lfa) && in_u w t
          | Err e => (e =? 25) && (2 ^ w <=? fa + pf_bamount f + lfa)
          end &&
          match tc with
          | Ok t => (t =? fa + pf_bamount f + lfa + funding) && in_u w t
          | Err e => if 2 ^ w <=? fa + pf_bamount f + lfa then e =? 25
                     else (e =? 26) && (2 ^ w <=? fa + pf_bamount f + lfa + funding)
          end &&
          match fr, fp, tce with Ok x, Ok y, Ok t => x + y =? t | _, _, _ => true end
      | Err e =>
          if e =? 11 then is_liq && negb (lp_factor lp =? 0) && (2 ^ w <=? size * lp_factor lp / u)
          else if e =? 12 then is_liq && negb (lp_factor lp =? 0) &&
                               ((pmin =? 0) || (2 ^ w <=? size * lp_factor lp / u + pmin))
          else if e =? 13 then is_liq && (u <? lp_recv lp)
          else if (pmin =? 0) || (pmax =? 0) then e =? 1
          (* a valid configuration never fails on the fee computations themselves *)
          else if e =? 2 then negb (valid_params u p) && fee_fail_ok w u p bc size
          else if (e =? 4) || (e =? 5) then u <? fp_recv p
          else if e =? 7 then 2 ^ w <=? netfee u p bc size + bval
          else if e =? 8 then u <? brf
          else false
      end
  end.
Definition oracle_b (c : case) : bool := oracle_gen true c.

(* Known finding classes (the unchanged code contradicts the property text):
   1 = OrderFeeFactorAboveUnit: an order fee factor above 100% is not rejected and the fee value
       exceeds the size delta (no gross amount is subtracted on that path).
   2 = LiquidationFeeFactorAboveUnit: same for the liquidation fee factor. *)
Definition known_b (c : case) : Z :=
  if oracle_gen true c then 0
  else if negb (oracle_gen false c) then 0
  else match c with
  | COrder w dec p pmin pmax size bc (Ok (_, _, fv)) =>
      if (10 ^ dec <? fac p bc) && (size <? fv) then 1 else 0
  | CPos w dec p lp brf pmin pmax size bc is_liq bval funding (Ok (f, _)) =>
      if (10 ^ dec <? fac p bc) && (size <? pf_fee_value f) then 1
      else match pf_liq f with
      | Some (lfv, _, _) => if (10 ^ dec <? lp_factor lp) && (size <? lfv) then 2 else 0
      | None => 0
      end
  | _ => 0
  end.
