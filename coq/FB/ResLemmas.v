(* Shared by C12 / C13: inversion lemmas for the [res] monad and small range facts. *)
From GV Require Import lib.Base lib.DivLemmas C01.Model C01.Proofs.
Open Scope Z_scope.

Lemma rbind_ok {A B} (a : res A) (f : A -> res B) r :
  rbind a f = Ok r <-> exists x, a = Ok x /\ f x = Ok r.
Proof.
  destruct a; cbn; split; intros H; try discriminate; eauto.
  - destruct H as (x & E & H). injection E as <-. exact H.
  - destruct H as (x & E & _). discriminate.
Qed.

Lemma rbind_err {A B} (a : res A) (f : A -> res B) e :
  rbind a f = Err e <-> a = Err e \/ exists x, a = Ok x /\ f x = Err e.
Proof.
  destruct a; cbn; split; intros H.
  - right; eauto.
  - destruct H as [H|(x & E & H)]; [discriminate|]. injection E as <-. exact H.
  - left. congruence.
  - destruct H as [H|(x & E & _)]; [congruence|discriminate].
Qed.

Lemma of_opt_ok {A} e (o : option A) x : of_opt e o = Ok x <-> o = Some x.
Proof. destruct o; cbn; split; intros H; try discriminate; congruence. Qed.

Lemma of_opt_err {A} e (o : option A) e' : of_opt e o = Err e' <-> o = None /\ e' = e.
Proof. destruct o; cbn; split; intros H; try discriminate; try (destruct H; discriminate).
  - injection H as <-. auto. - destruct H as [_ ->]. reflexivity. Qed.

(* peel one [x <-- of_opt e o ;; k] layer of a hypothesis [H : ... = Ok r] *)
Ltac rstep H x E :=
  apply rbind_ok in H; destruct H as (x & E & H); try (apply of_opt_ok in E).

Lemma mul_div_range w a b d r : mul_div w a b d = Some r -> 0 <= r < 2 ^ w.
Proof. unfold mul_div. destruct (d =? 0); [discriminate|]. intros H. apply chk_u_some in H. lia. Qed.

Lemma mul_div_ceil_range w a b d r : mul_div_ceil w a b d = Some r -> 0 <= r < 2 ^ w.
Proof. unfold mul_div_ceil. destruct (d =? 0); [discriminate|]. intros H. apply chk_u_some in H. lia. Qed.

Lemma apply_factor_range w u v f r : apply_factor w u v f = Some r -> 0 <= r < 2 ^ w.
Proof. apply mul_div_range. Qed.

Lemma uadd_some w a b r : uadd w a b = Some r <-> (0 <= a + b < 2 ^ w /\ r = a + b).
Proof. apply chk_u_some. Qed.
Lemma usub_some w a b r : usub w a b = Some r <-> (0 <= a - b < 2 ^ w /\ r = a - b).
Proof. apply chk_u_some. Qed.
Lemma umul_some w a b r : umul w a b = Some r <-> (0 <= a * b < 2 ^ w /\ r = a * b).
Proof. apply chk_u_some. Qed.

Lemma in_s_iff w z : in_s w z = true <-> - 2 ^ (w - 1) <= z < 2 ^ (w - 1).
Proof. unfold in_s. rewrite andb_true_iff, Z.leb_le, Z.ltb_lt. tauto. Qed.

Lemma to_opposite_signed_some w a r : 0 <= a ->
  to_opposite_signed w a = Some r <-> (a < 2 ^ (w - 1) /\ r = - a).
Proof.
  intros Ha. unfold to_opposite_signed, sneg. split.
  - intros H. apply obind_some in H. destruct H as (s & Hs & H). apply to_signed_some in Hs.
    destruct Hs as [Hs ->]. apply chk_s_some in H. lia.
  - intros [Hlt ->]. replace (to_signed w a) with (Some a) by (symmetry; apply to_signed_some; lia).
    cbn. apply chk_s_some. lia.
Qed.
